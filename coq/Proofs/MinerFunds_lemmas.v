(* Proofs about coq/Model/MinerFunds.v (property C14). *)
From Coq Require Import ZArith List Bool Lia.
From VF Require Import Gen.Consts Base.Corr Model.Vesting Model.MinerFunds Proofs.Vesting_lemmas.
Import ListNotations.
Open Scope Z_scope.

Lemma reward_spec_ok : spec_ok REWARD_SPEC.
Proof. unfold spec_ok. repeat split; vm_compute; congruence. Qed.

(* ------------------------------------------------------------------------------------------ *)
(* invariants *)

Record FInv (f : funds) : Prop := {
  fi_wf : wf (vest f);
  fi_sum : tbl_sum (vest f) = locked f;
  fi_pcd : 0 <= pcd f;
  fi_ip : 0 <= ip f;
  fi_debt : 0 <= fee_debt f;
}.

Definition solvent (f : funds) (b : Z) : Prop := locked f + pcd f + ip f <= b.
Definition Inv (s : state) : Prop := FInv (fu s) /\ solvent (fu s) (bal s).

Lemma FInv_locked_nonneg f : FInv f -> 0 <= locked f.
Proof. intros H. rewrite <- (fi_sum f H). apply nonneg_sum. apply (fi_wf f H). Qed.

Lemma zero_sum_vested t c : nonneg t -> tbl_sum t = 0 -> vested_sum t c = 0 /\ unvested_sum t c = 0.
Proof.
  intros Hn Hs. pose proof (sum_split t c). pose proof (nonneg_vested t c Hn).
  pose proof (nonneg_unvested t c Hn). lia.
Qed.

Ltac fsimpl := cbn [locked pcd ip fee_debt vest pps set_vest_locked set_fee_debt set_pcd set_ip] in *.

(* inversion of the result monad *)
Ltac inv_ok :=
  repeat match goal with
  | H : Ok _ = Ok _ |- _ => inversion H; subst; clear H
  | H : Err _ = Ok _ |- _ => discriminate H
  | H : bind ?r _ = Ok _ |- _ =>
      let E := fresh "E" in destruct r eqn:E; cbn [bind] in H; [|discriminate H]
  | H : (if ?b then _ else _) = Ok _ |- _ =>
      let E := fresh "E" in destruct b eqn:E; try discriminate H
  | H : (let '(_, _) := ?p in _) = Ok _ |- _ =>
      let E := fresh "E" in destruct p eqn:E
  | H : context [match ?p with (_, _) => _ end] |- _ =>
      is_var p; destruct p
  end.

Lemma unlocked_balance_inv f b ub :
  unlocked_balance f b = Ok ub -> ub = b - locked f - pcd f - ip f /\ 0 <= ub.
Proof. unfold unlocked_balance. intros H. inv_ok. zb. lia. Qed.

Lemma available_balance_inv f b av :
  available_balance f b = Ok av ->
  av = b - locked f - pcd f - ip f - fee_debt f /\ 0 <= b - locked f - pcd f - ip f.
Proof.
  unfold available_balance. intros H. inv_ok. apply unlocked_balance_inv in E. lia.
Qed.

Lemma f_apply_penalty_inv f p f' :
  FInv f -> f_apply_penalty f p = Ok f' ->
  0 <= p /\ FInv f' /\ f' = set_fee_debt f (fee_debt f + p).
Proof.
  intros [A B C D F] H. unfold f_apply_penalty in H. inv_ok. zb.
  split; [lia|]. split; [|reflexivity]. constructor; fsimpl; try assumption; lia.
Qed.

Lemma f_add_locked_inv f cur sum sp f' u :
  FInv f -> spec_ok sp -> f_add_locked_funds f cur sum sp = Ok (f', u) ->
  0 <= sum /\ u = vested_sum (vest f) cur /\ FInv f' /\
  locked f' = locked f - u + sum /\
  pcd f' = pcd f /\ ip f' = ip f /\ fee_debt f' = fee_debt f /\ pps f' = pps f /\
  all_ge cur (vest f') /\
  unvested_sum (vest f') cur = unvested_sum (vest f) cur + sum /\
  (forall e, cur <= e ->
     vested_sum (vest f') e =
     (vested_sum (vest f) e - vested_sum (vest f) cur) + vested_sum (new_schedule cur sum (pps f) sp) e).
Proof.
  intros [A B C D F] Hok H. unfold f_add_locked_funds in H. inv_ok. zb.
  destruct (add_locked_funds_spec _ _ _ _ _ _ _ A Hok E E0) as (U & W & G & S & V & X).
  subst. fsimpl.
  split; [assumption|]. split; [reflexivity|].
  split; [constructor; fsimpl; try assumption; lia|].
  repeat split; try assumption; try reflexivity.
Qed.

Lemma f_unlock_vested_inv f cur f' u :
  FInv f -> f_unlock_vested_funds f cur = Ok (f', u) ->
  u = vested_sum (vest f) cur /\ FInv f' /\
  locked f' = locked f - u /\
  pcd f' = pcd f /\ ip f' = ip f /\ fee_debt f' = fee_debt f /\ pps f' = pps f /\
  unvested_sum (vest f') cur = unvested_sum (vest f) cur /\
  (forall e, cur <= e -> vested_sum (vest f') e = vested_sum (vest f) e - u).
Proof.
  intros Hf H. pose proof Hf as [A B C D F]. unfold f_unlock_vested_funds in H. inv_ok; zb.
  - destruct (zero_sum_vested (vest f') cur (proj2 A) ltac:(lia)) as [Hv _].
    rewrite Hv. split; [reflexivity|]. split; [assumption|]. repeat (split; [lia|]). intros; lia.
  - destruct (unlock_vested_funds_spec _ _ _ _ A E0) as (U & W & S & _ & V & X).
    subst. fsimpl.
    split; [reflexivity|]. split; [constructor; fsimpl; try assumption; lia|].
    repeat split; try assumption; try reflexivity.
Qed.

Lemma f_unlock_both_inv f cur target f' unv total :
  FInv f -> 0 <= target -> f_unlock_vested_and_unvested f cur target = Ok (f', unv, total) ->
  FInv f' /\ unv = Z.min target (unvested_sum (vest f) cur) /\
  0 <= total - unv <= vested_sum (vest f) cur /\
  locked f' = locked f - total /\
  pcd f' = pcd f /\ ip f' = ip f /\ fee_debt f' = fee_debt f /\ pps f' = pps f /\
  unvested_sum (vest f') cur = unvested_sum (vest f) cur - unv.
Proof.
  intros Hf Ht H. pose proof Hf as [A B C D F]. unfold f_unlock_vested_and_unvested in H.
  pose proof (nonneg_vested (vest f) cur (proj2 A)) as Hv0.
  pose proof (nonneg_unvested (vest f) cur (proj2 A)) as Hu0.
  inv_ok.
  - apply orb_true_iff in E. split; [assumption|]. destruct E as [E|E]; zb.
    + subst. rewrite Z.min_l by lia. repeat split; lia.
    + destruct (zero_sum_vested (vest f') cur (proj2 A) ltac:(lia)) as [Hv Hu].
      rewrite Hu, Hv. rewrite Z.min_r by lia. repeat split; lia.
  - zb. destruct (unlock_both_spec _ _ _ _ _ _ A Ht E0) as (V & U & W & S & V' & U').
    subst. fsimpl.
    split; [constructor; fsimpl; try assumption; lia|].
    repeat split; try assumption; try reflexivity; try lia.
Qed.

Lemma f_repay_partial_inv f cur b f' burn total unv :
  FInv f -> solvent f b -> f_repay_partial f cur b = Ok (f', burn, total, unv) ->
  FInv f' /\ 0 <= unv <= fee_debt f /\ unv <= burn /\ 0 <= burn /\
  unv = Z.min (fee_debt f) (unvested_sum (vest f) cur) /\
  fee_debt f' = fee_debt f - burn /\
  0 <= total - unv <= vested_sum (vest f) cur /\
  locked f' = locked f - total /\ pcd f' = pcd f /\ ip f' = ip f /\ pps f' = pps f /\
  burn <= b - locked f' - pcd f' - ip f' /\
  unvested_sum (vest f') cur = unvested_sum (vest f) cur - unv.
Proof.
  intros Hf Hsol H. unfold f_repay_partial in H. inv_ok. zb.
  destruct (f_unlock_both_inv _ _ _ _ _ _ Hf (fi_debt f Hf) E) as (Hf1 & U & V & L & P & I & Dd & Pp & Un).
  match goal with H : unlocked_balance _ _ = Ok _ |- _ =>
    apply unlocked_balance_inv in H; destruct H as [Hub Hub0] end.
  pose proof (nonneg_unvested (vest f) cur (proj2 (fi_wf f Hf))) as Hu0.
  pose proof (fi_debt f Hf) as Hd. unfold solvent in Hsol.
  destruct Hf1 as [A1 B1 C1 D1 F1].
  fsimpl.
  split; [constructor; fsimpl; try assumption; lia|].
  repeat split; try assumption; try lia.
Qed.

Lemma f_repay_debts_inv f b f' burn :
  FInv f -> f_repay_debts f b = Ok (f', burn) ->
  FInv f' /\ burn = fee_debt f /\ f' = set_fee_debt f 0 /\ burn <= b - locked f - pcd f - ip f.
Proof.
  intros [A B C D F] H. unfold f_repay_debts in H. inv_ok. zb.
  apply unlocked_balance_inv in E. split; [constructor; fsimpl; try assumption; lia|].
  repeat split; lia.
Qed.

Lemma f_add_pcd_inv f d f' :
  FInv f -> f_add_pcd f d = Ok f' -> FInv f' /\ f' = set_pcd f (pcd f + d).
Proof.
  intros [A B C D F] H. unfold f_add_pcd in H. inv_ok. zb.
  split; [constructor; fsimpl; try assumption; lia|reflexivity].
Qed.
Lemma f_add_ip_inv f d f' :
  FInv f -> f_add_ip f d = Ok f' -> FInv f' /\ f' = set_ip f (ip f + d).
Proof.
  intros [A B C D F] H. unfold f_add_ip in H. inv_ok. zb.
  split; [constructor; fsimpl; try assumption; lia|reflexivity].
Qed.

(* ------------------------------------------------------------------------------------------ *)
(* handlers *)

Definition same_ctl (s s' : state) : Prop :=
  owner s' = owner s /\ worker s' = worker s /\ controls s' = controls s /\
  benef s' = benef s /\ pending s' = pending s /\ early_term s' = early_term s.
Definition same_collateral (s s' : state) : Prop :=
  pcd (fu s') = pcd (fu s) /\ ip (fu s') = ip (fu s).

Ltac ssimpl :=
  cbn [bal fu owner worker controls benef term pending early_term
       set_bal_fu set_term set_benef set_early credit
       code ret sends added vested drawn burnt paid fail ok_out] in *.

Lemma finish_inv s o s' o' : finish s o = Ok (s', o') ->
  s' = s /\ o' = o /\ check_balance_invariants (fu s) (bal s) = true.
Proof. unfold finish. intros H. inv_ok. auto. Qed.

Lemma nested_inv made c : nested made c = Ok tt -> made = false \/ c = 0.
Proof. unfold nested. destruct made; cbn; [|auto]. destruct (c =? 0) eqn:E; zb; [auto|discriminate]. Qed.

Lemma send_value_max (v : Z) : 0 <= v -> Z.max v 0 = v.
Proof. intros; lia. Qed.

(* the model's final check_balance_invariants can never fail *)
Lemma check_of_inv s : Inv s -> check_balance_invariants (fu s) (bal s) = true.
Proof.
  intros [Hf Hs]. pose proof (FInv_locked_nonneg _ Hf). destruct Hf as [A B C D F].
  unfold check_balance_invariants, solvent in *.
  repeat (apply andb_true_iff; split); apply Z.leb_le; lia.
Qed.

Lemma apply_rewards_core_inv s c e r p upt s' out :
  Inv s -> apply_rewards_core s c e r p upt = Ok (s', out) ->
  c = REWARD_ACTOR_ID /\ 0 <= r /\ 0 <= p /\ Inv s' /\ code out = EOK /\ ret out = 0 /\
  added out = locked_reward r /\ 0 <= added out /\
  added out <= bal s - locked (fu s) - pcd (fu s) - ip (fu s) /\
  vested out = vested_sum (vest (fu s)) e /\
  0 <= drawn out <= fee_debt (fu s) + p /\ drawn out <= burnt out /\
  fee_debt (fu s') + burnt out = fee_debt (fu s) + p /\
  unvested_sum (vest (fu s')) e = unvested_sum (vest (fu s)) e + added out - drawn out /\
  locked (fu s') = locked (fu s) + added out - vested out - drawn out /\
  bal s' = bal s - burnt out /\ paid out = 0 /\
  same_collateral s s' /\ same_ctl s s' /\ term s' = term s /\
  sends out = send_pledge (added out - vested out - drawn out) ++ send_value BURNT_FUNDS_ACTOR_ID (burnt out) /\
  (upt = 0 \/ added out - vested out - drawn out = 0).
Proof.
  intros [Hf Hsol] H. unfold apply_rewards_core in H. inv_ok. zb.
  repeat match goal with
  | H : unlocked_balance _ _ = Ok _ |- _ => apply unlocked_balance_inv in H; destruct H as [Hub Hub0]
  | H : finish _ _ = Ok _ |- _ => apply finish_inv in H; destruct H as (-> & -> & Hchk)
  | H : nested _ _ = Ok ?x |- _ => destruct x; apply nested_inv in H; rename H into Hnest
  end.
  match goal with H : f_add_locked_funds _ _ _ _ = Ok _ |- _ =>
    destruct (f_add_locked_inv _ _ _ _ _ _ Hf reward_spec_ok H)
      as (Hl0 & Hu & Hf1 & L1 & P1 & I1 & D1 & Pp1 & G1 & U1 & _) end.
  match goal with H : f_apply_penalty _ _ = Ok _ |- _ =>
    destruct (f_apply_penalty_inv _ _ _ Hf1 H) as (Hp0 & Hf2 & ->) end.
  match goal with H : f_repay_partial _ _ _ = Ok _ |- _ =>
    eapply f_repay_partial_inv in H; [|exact Hf2|];
    [destruct H as (Hf3 & Hunv & Hub' & Hb0 & _ & D3 & V3 & L3 & P3 & I3 & Pp3 & S3 & U3)|] end.
  2:{ unfold solvent in *. fsimpl. pose proof (nonneg_vested (vest (fu s)) e (proj2 (fi_wf _ Hf))). lia. }
  fsimpl. ssimpl.
  assert (Hv0 : vested_sum (vest f) e = 0) by (apply all_ge_vested; assumption).
  rewrite (Z.max_l _ 0) by lia.
  unfold same_collateral, same_ctl. ssimpl.
  split; [assumption|]. split; [lia|]. split; [lia|].
  split; [split; [assumption|unfold solvent; ssimpl; lia]|].
  split; [reflexivity|]. split; [reflexivity|]. split; [reflexivity|].
  split; [lia|]. split; [lia|]. split; [lia|]. split; [lia|]. split; [lia|]. split; [lia|].
  split; [lia|]. split; [lia|]. split; [reflexivity|]. split; [reflexivity|].
  split; [split; lia|]. split; [repeat split|]. split; [reflexivity|].
  split.
  - f_equal. f_equal. lia.
  - destruct Hnest as [Hn|Hn]; [right|left; assumption]. zb. lia.
Qed.

Lemma apply_rewards_inv s c e r p upt s' out :
  Inv s -> apply_rewards s c e r p upt = Ok (s', out) ->
  c = REWARD_ACTOR_ID /\ 0 <= r /\ 0 <= p /\ Inv s' /\ code out = EOK /\ ret out = 0 /\
  added out = locked_reward r /\ 0 <= added out /\
  added out <= bal s - locked (fu s) - pcd (fu s) - ip (fu s) /\
  vested out = vested_sum (vest (fu s)) e /\
  0 <= drawn out <= fee_debt (fu s) + p /\ drawn out <= burnt out /\
  fee_debt (fu s') + burnt out = fee_debt (fu s) + p /\
  unvested_sum (vest (fu s')) e = unvested_sum (vest (fu s)) e + added out - drawn out /\
  locked (fu s') = locked (fu s) + added out - vested out - drawn out /\
  bal s' = bal s - burnt out /\ paid out = 0 /\
  same_collateral s s' /\ same_ctl s s' /\ term s' = term s /\
  sends out = send_pledge (added out - vested out - drawn out) ++ send_value BURNT_FUNDS_ACTOR_ID (burnt out) /\
  (upt = 0 \/ added out - vested out - drawn out = 0).
Proof.
  intros HI H. unfold apply_rewards, checked in H.
  destruct (apply_rewards_core s c e r p upt) as [[s1 o1]|] eqn:E; cbn [bind] in H; [|discriminate].
  apply finish_inv in H. destruct H as (-> & -> & _).
  eapply apply_rewards_core_inv; [exact HI|exact E].
Qed.


Lemma term_available_pos t e : term_available t e <> 0 ->
  e < expiration t /\ term_available t e = quota t - used t /\ 0 < quota t - used t.
Proof. unfold term_available. destruct (e <? expiration t) eqn:E; zb; lia. Qed.

Lemma withdraw_balance_core_inv s c e req upt s' out :
  Inv s -> withdraw_balance_core s c e req upt = Ok (s', out) ->
  0 <= req /\ (c = owner s \/ c = benef s) /\ early_term s = false /\ Inv s' /\ code out = EOK /\
  ret out = paid out /\ 0 <= paid out <= req /\
  vested out = vested_sum (vest (fu s)) e /\ added out = 0 /\ drawn out = 0 /\
  locked (fu s') = locked (fu s) - vested out /\
  unvested_sum (vest (fu s')) e = unvested_sum (vest (fu s)) e /\
  paid out <= bal s - locked (fu s') - pcd (fu s) - ip (fu s) - fee_debt (fu s) /\
  burnt out = fee_debt (fu s) /\ fee_debt (fu s') = 0 /\
  bal s' = bal s - paid out - burnt out /\
  same_collateral s s' /\ same_ctl s s' /\
  (benef s = owner s -> term s' = term s) /\
  (benef s <> owner s ->
     e < expiration (term s) /\ used (term s) < quota (term s) /\
     paid out <= quota (term s) - used (term s) /\
     used (term s') = used (term s) + paid out /\
     quota (term s') = quota (term s) /\ expiration (term s') = expiration (term s)) /\
  sends out = send_value (benef s) (paid out) ++ send_value BURNT_FUNDS_ACTOR_ID (burnt out) ++
              send_pledge (- vested out) /\
  (upt = 0 \/ vested out = 0).
Proof.
  intros [Hf Hsol] H. unfold withdraw_balance_core in H.
  destruct (req <? 0) eqn:Ereq; [discriminate|].
  destruct (negb ((c =? owner s) || (c =? benef s))) eqn:Ec; [discriminate|].
  destruct (early_term s) eqn:Eet; [discriminate|].
  destruct (f_unlock_vested_funds (fu s) e) as [[f1 nv]|] eqn:E1; cbn [bind] in H; [|discriminate].
  destruct (available_balance f1 (bal s)) as [avail|] eqn:E2; cbn [bind] in H; [|discriminate].
  destruct (f_repay_debts f1 (bal s)) as [[f2 fee]|] eqn:E3; cbn [bind] in H; [|discriminate].
  destruct (Z.min avail req <? 0) eqn:Eamt; [discriminate|].
  destruct (f_unlock_vested_inv _ _ _ _ Hf E1) as (Hnv & Hf1 & L1 & P1 & I1 & D1 & Pp1 & U1 & _).
  apply available_balance_inv in E2. destruct E2 as [Hav Hub].
  destruct (f_repay_debts_inv _ _ _ _ Hf1 E3) as (Hf2 & Hfee & -> & Hfee').
  pose proof (fi_debt _ Hf) as Hd0.
  pose proof (nonneg_vested (vest (fu s)) e (proj2 (fi_wf _ Hf))) as Hv0.
  zb. apply orb_true_iff in Ec.
  assert (Hcaller : c = owner s \/ c = benef s) by (destruct Ec as [Ec|Ec]; zb; auto).
  unfold solvent in Hsol.
  destruct (benef s =? owner s) eqn:Ebo; zb.
  - (* the owner is the beneficiary *)
    cbn [bind] in H.
    destruct (nested (negb (nv =? 0)) upt) as [[]|] eqn:En; cbn [bind] in H; [|discriminate].
    apply nested_inv in En. inversion H; subst s' out; clear H.
    unfold same_collateral, same_ctl. ssimpl. fsimpl.
    rewrite !(Z.max_l _ 0) by lia.
    split; [lia|]. split; [assumption|]. split; [reflexivity|].
    split; [split; [assumption|unfold solvent; ssimpl; fsimpl; lia]|].
    split; [reflexivity|]. split; [reflexivity|]. split; [lia|]. split; [assumption|].
    split; [reflexivity|]. split; [reflexivity|]. split; [lia|]. split; [assumption|].
    split; [lia|]. split; [lia|]. split; [reflexivity|]. split; [lia|].
    split; [split; assumption|]. split; [repeat split|]. split; [reflexivity|].
    split; [intros; congruence|]. split; [reflexivity|].
    destruct En as [En|En]; [right|left; assumption]. zb. lia.
  - (* a separate beneficiary: quota and expiry *)
    destruct (term_available (term s) e =? 0) eqn:Erem; [discriminate|]. zb.
    destruct (term_available_pos _ _ Erem) as (Hexp & Hrem & Hq).
    cbn [bind] in H.
    destruct (nested (negb (nv =? 0)) upt) as [[]|] eqn:En; cbn [bind] in H; [|discriminate].
    apply nested_inv in En. inversion H; subst s' out; clear H.
    unfold same_collateral, same_ctl. ssimpl. fsimpl.
    rewrite !(Z.max_l _ 0) by lia.
    split; [lia|]. split; [assumption|]. split; [reflexivity|].
    split; [split; [assumption|unfold solvent; ssimpl; fsimpl; lia]|].
    split; [reflexivity|]. split; [reflexivity|]. split; [lia|]. split; [assumption|].
    split; [reflexivity|]. split; [reflexivity|]. split; [lia|]. split; [assumption|].
    split; [lia|]. split; [lia|]. split; [reflexivity|]. split; [lia|].
    split; [split; assumption|]. split; [repeat split|]. split; [intros; congruence|].
    split.
    + intros _. split; [assumption|]. split; [lia|]. split; [lia|].
      destruct (0 <? Z.min (Z.min avail req) (term_available (term s) e)) eqn:Epos; zb;
        cbn [quota used expiration]; repeat split; lia.
    + split; [reflexivity|]. destruct En as [En|En]; [right|left; assumption]. zb. lia.
Qed.

Lemma withdraw_balance_inv s c e req upt s' out :
  Inv s -> withdraw_balance s c e req upt = Ok (s', out) ->
  0 <= req /\ (c = owner s \/ c = benef s) /\ early_term s = false /\ Inv s' /\ code out = EOK /\
  ret out = paid out /\ 0 <= paid out <= req /\
  vested out = vested_sum (vest (fu s)) e /\ added out = 0 /\ drawn out = 0 /\
  locked (fu s') = locked (fu s) - vested out /\
  unvested_sum (vest (fu s')) e = unvested_sum (vest (fu s)) e /\
  paid out <= bal s - locked (fu s') - pcd (fu s) - ip (fu s) - fee_debt (fu s) /\
  burnt out = fee_debt (fu s) /\ fee_debt (fu s') = 0 /\
  bal s' = bal s - paid out - burnt out /\
  same_collateral s s' /\ same_ctl s s' /\
  (benef s = owner s -> term s' = term s) /\
  (benef s <> owner s ->
     e < expiration (term s) /\ used (term s) < quota (term s) /\
     paid out <= quota (term s) - used (term s) /\
     used (term s') = used (term s) + paid out /\
     quota (term s') = quota (term s) /\ expiration (term s') = expiration (term s)) /\
  sends out = send_value (benef s) (paid out) ++ send_value BURNT_FUNDS_ACTOR_ID (burnt out) ++
              send_pledge (- vested out) /\
  (upt = 0 \/ vested out = 0).
Proof.
  intros HI H. unfold withdraw_balance, checked in H.
  destruct (withdraw_balance_core s c e req upt) as [[s1 o1]|] eqn:E; cbn [bind] in H; [|discriminate].
  apply finish_inv in H. destruct H as (-> & -> & _).
  eapply withdraw_balance_core_inv; [exact HI|exact E].
Qed.


Lemma repay_debt_core_inv s c e upt s' out :
  Inv s -> repay_debt_core s c e upt = Ok (s', out) ->
  is_control s c = true /\ Inv s' /\ code out = EOK /\ ret out = 0 /\ added out = 0 /\ paid out = 0 /\
  0 <= vested out <= vested_sum (vest (fu s)) e /\
  0 <= drawn out <= fee_debt (fu s) /\ drawn out <= burnt out /\
  drawn out = Z.min (fee_debt (fu s)) (unvested_sum (vest (fu s)) e) /\
  fee_debt (fu s') + burnt out = fee_debt (fu s) /\
  unvested_sum (vest (fu s')) e = unvested_sum (vest (fu s)) e - drawn out /\
  locked (fu s') = locked (fu s) - vested out - drawn out /\
  bal s' = bal s - burnt out /\
  same_collateral s s' /\ same_ctl s s' /\ term s' = term s /\
  sends out = send_pledge (- (vested out + drawn out)) ++ send_value BURNT_FUNDS_ACTOR_ID (burnt out) /\
  (upt = 0 \/ vested out + drawn out = 0).
Proof.
  intros [Hf Hsol] H. unfold repay_debt_core in H.
  destruct (negb (is_control s c)) eqn:Ec; [discriminate|]. zb.
  destruct (f_repay_partial (fu s) e (bal s)) as [[[[f1 burn] total] unv]|] eqn:E1; cbn [bind] in H; [|discriminate].
  destruct (nested (negb (total =? 0)) upt) as [[]|] eqn:En; cbn [bind] in H; [|discriminate].
  apply nested_inv in En. inversion H; subst s' out; clear H.
  destruct (f_repay_partial_inv _ _ _ _ _ _ _ Hf Hsol E1)
    as (Hf1 & Hunv & Hub' & Hb0 & Hmin & D3 & V3 & L3 & P3 & I3 & Pp3 & S3 & U3).
  unfold same_collateral, same_ctl. ssimpl. fsimpl.
  rewrite !(Z.max_l _ 0) by lia.
  split; [assumption|].
  split; [split; [assumption|unfold solvent; ssimpl; fsimpl; lia]|].
  split; [reflexivity|]. split; [reflexivity|]. split; [reflexivity|]. split; [reflexivity|].
  split; [lia|]. split; [lia|]. split; [lia|]. split; [assumption|]. split; [lia|].
  split; [assumption|]. split; [lia|]. split; [reflexivity|].
  split; [split; assumption|]. split; [repeat split|]. split; [reflexivity|].
  split.
  - f_equal. f_equal. lia.
  - destruct En as [En|En]; [right|left; assumption]. zb. lia.
Qed.

Lemma repay_debt_inv s c e upt s' out :
  Inv s -> repay_debt s c e upt = Ok (s', out) ->
  is_control s c = true /\ Inv s' /\ code out = EOK /\ ret out = 0 /\ added out = 0 /\ paid out = 0 /\
  0 <= vested out <= vested_sum (vest (fu s)) e /\
  0 <= drawn out <= fee_debt (fu s) /\ drawn out <= burnt out /\
  drawn out = Z.min (fee_debt (fu s)) (unvested_sum (vest (fu s)) e) /\
  fee_debt (fu s') + burnt out = fee_debt (fu s) /\
  unvested_sum (vest (fu s')) e = unvested_sum (vest (fu s)) e - drawn out /\
  locked (fu s') = locked (fu s) - vested out - drawn out /\
  bal s' = bal s - burnt out /\
  same_collateral s s' /\ same_ctl s s' /\ term s' = term s /\
  sends out = send_pledge (- (vested out + drawn out)) ++ send_value BURNT_FUNDS_ACTOR_ID (burnt out) /\
  (upt = 0 \/ vested out + drawn out = 0).
Proof.
  intros HI H. unfold repay_debt, checked in H.
  destruct (repay_debt_core s c e upt) as [[s1 o1]|] eqn:E; cbn [bind] in H; [|discriminate].
  apply finish_inv in H. destruct H as (-> & -> & _).
  eapply repay_debt_core_inv; [exact HI|exact E].
Qed.


Lemma deadline_cron_core_inv s c e p upt enr s' out :
  Inv s -> deadline_cron_core s c e p upt enr = Ok (s', out) ->
  c = STORAGE_POWER_ACTOR_ID /\ 0 <= p /\ Inv s' /\ code out = EOK /\ ret out = 0 /\
  added out = 0 /\ paid out = 0 /\
  0 <= vested out <= vested_sum (vest (fu s)) e /\
  0 <= drawn out <= fee_debt (fu s) + p /\ drawn out <= burnt out /\
  fee_debt (fu s') + burnt out = fee_debt (fu s) + p /\
  unvested_sum (vest (fu s')) e = unvested_sum (vest (fu s)) e - drawn out /\
  locked (fu s') = locked (fu s) - vested out - drawn out /\
  bal s' = bal s - burnt out /\
  same_collateral s s' /\ same_ctl s s' /\ term s' = term s /\
  (upt = 0 \/ vested out + drawn out = 0) /\
  (forall t m v d, In (t, m, v, d) (sends out) ->
     (t = BURNT_FUNDS_ACTOR_ID /\ v = burnt out) \/ (t = STORAGE_POWER_ACTOR_ID /\ v = 0)).
Proof.
  intros [Hf Hsol] H. unfold deadline_cron_core in H.
  destruct (negb (c =? STORAGE_POWER_ACTOR_ID)) eqn:Ec; [discriminate|]. zb.
  destruct (f_apply_penalty (fu s) p) as [f0|] eqn:E0; cbn [bind] in H; [|discriminate].
  destruct (f_repay_partial f0 e (bal s)) as [[[[f1 burn] total] unv]|] eqn:E1; cbn [bind] in H; [|discriminate].
  destruct (f_unlock_vested_funds f1 e) as [[f2 nv]|] eqn:E2; cbn [bind] in H; [|discriminate].
  destruct (nested (negb (- total - nv =? 0)) upt) as [[]|] eqn:En; cbn [bind] in H; [|discriminate].
  match type of H with bind (nested ?b enr) _ = _ =>
    destruct (nested b enr) as [[]|] eqn:En2; cbn [bind] in H; [|discriminate] end.
  apply nested_inv in En. inversion H; subst s' out; clear H.
  destruct (f_apply_penalty_inv _ _ _ Hf E0) as (Hp0 & Hf0 & ->).
  eapply f_repay_partial_inv in E1; [|exact Hf0|unfold solvent in *; fsimpl; assumption].
  destruct E1 as (Hf1 & Hunv & Hub' & Hb0 & Hmin & D3 & V3 & L3 & P3 & I3 & Pp3 & S3 & U3).
  destruct (f_unlock_vested_inv _ _ _ _ Hf1 E2) as (Hnv & Hf2 & L2 & P2 & I2 & D2 & Pp2 & U2 & _).
  pose proof (nonneg_vested (vest f1) e (proj2 (fi_wf _ Hf1))) as Hv1.
  (* what is still vested in f1 is part of what had vested in the original table *)
  assert (Hv1' : total - unv + nv <= vested_sum (vest (fu s)) e).
  { pose proof (sum_split (vest (fu s)) e). pose proof (sum_split (vest f1) e).
    rewrite (fi_sum _ Hf) in *. rewrite (fi_sum _ Hf1) in *. fsimpl. lia. }
  unfold same_collateral, same_ctl. ssimpl. fsimpl.
  rewrite !(Z.max_l _ 0) by lia.
  split; [assumption|]. split; [assumption|].
  split; [split; [assumption|unfold solvent; ssimpl; fsimpl; lia]|].
  split; [reflexivity|]. split; [reflexivity|]. split; [reflexivity|]. split; [reflexivity|].
  split; [lia|]. split; [lia|]. split; [lia|]. split; [lia|]. split; [lia|]. split; [lia|].
  split; [reflexivity|]. split; [split; lia|]. split; [repeat split|]. split; [reflexivity|].
  split.
  - destruct En as [En|En]; [right|left; assumption]. zb. lia.
  - intros t m v d Hin. apply in_app_or in Hin. destruct Hin as [Hin|Hin].
    + unfold send_value in Hin. destruct (0 <? burn); [|destruct Hin].
      destruct Hin as [Hin|[]]. inversion Hin; subst. left. auto.
    + apply in_app_or in Hin. destruct Hin as [Hin|Hin].
      * unfold send_pledge in Hin. destruct (- total - nv =? 0); [destruct Hin|].
        destruct Hin as [Hin|[]]. inversion Hin; subst. right. auto.
      * match type of Hin with In _ (if ?b then _ else _) => destruct b end; [|destruct Hin].
        destruct Hin as [Hin|[]]. inversion Hin; subst. right. auto.
Qed.

Lemma deadline_cron_inv s c e p upt enr s' out :
  Inv s -> deadline_cron s c e p upt enr = Ok (s', out) ->
  c = STORAGE_POWER_ACTOR_ID /\ 0 <= p /\ Inv s' /\ code out = EOK /\ ret out = 0 /\
  added out = 0 /\ paid out = 0 /\
  0 <= vested out <= vested_sum (vest (fu s)) e /\
  0 <= drawn out <= fee_debt (fu s) + p /\ drawn out <= burnt out /\
  fee_debt (fu s') + burnt out = fee_debt (fu s) + p /\
  unvested_sum (vest (fu s')) e = unvested_sum (vest (fu s)) e - drawn out /\
  locked (fu s') = locked (fu s) - vested out - drawn out /\
  bal s' = bal s - burnt out /\
  same_collateral s s' /\ same_ctl s s' /\ term s' = term s /\
  (upt = 0 \/ vested out + drawn out = 0) /\
  (forall t m v d, In (t, m, v, d) (sends out) ->
     (t = BURNT_FUNDS_ACTOR_ID /\ v = burnt out) \/ (t = STORAGE_POWER_ACTOR_ID /\ v = 0)).
Proof.
  intros HI H. unfold deadline_cron, checked in H.
  destruct (deadline_cron_core s c e p upt enr) as [[s1 o1]|] eqn:E; cbn [bind] in H; [|discriminate].
  apply finish_inv in H. destruct H as (-> & -> & _).
  eapply deadline_cron_core_inv; [exact HI|exact E].
Qed.


Lemma change_beneficiary_inv s c e nb q ex s' out :
  change_beneficiary s c e nb q ex = Ok (s', out) ->
  fu s' = fu s /\ bal s' = bal s /\ out = ok_out /\
  owner s' = owner s /\ worker s' = worker s /\ controls s' = controls s /\ early_term s' = early_term s.
Proof.
  unfold change_beneficiary. destruct nb as [nb|]; [|discriminate].
  intros H. inv_ok;
    repeat match goal with |- context [if ?b then _ else _] => destruct b end;
    ssimpl; repeat split; reflexivity.
Qed.

(* ------------------------------------------------------------------------------------------ *)
(* every failure carries a non-zero exit code, so `code = 0` identifies success *)

Ltac err_tac :=
  repeat match goal with
  | H : Ok _ = Err _ |- _ => discriminate H
  | H : Err _ = Err _ |- _ => inversion H; subst; clear H
  | H : bind ?r _ = Err _ |- _ => let E := fresh "E" in destruct r eqn:E; cbn [bind] in H
  | H : (if ?b then _ else _) = Err _ |- _ => let E := fresh "E" in destruct b eqn:E
  | H : (let '(_, _) := ?p in _) = Err _ |- _ => let E := fresh "E" in destruct p eqn:E
  | H : context [match ?p with (_, _) => _ end] |- _ => is_var p; destruct p
  | H : match ?x with Some _ => _ | None => _ end = Err _ |- _ => let E := fresh "E" in destruct x eqn:E
  end.
Ltac codes := unfold ILLEGAL_ARGUMENT, FORBIDDEN, INSUFFICIENT_FUNDS, ILLEGAL_STATE, BALANCE_INVARIANTS_BROKEN; lia.

Lemma unlocked_balance_err f b c : unlocked_balance f b = Err c -> c <> 0.
Proof. unfold unlocked_balance. intros H. err_tac. codes. Qed.
Lemma available_balance_err f b c : available_balance f b = Err c -> c <> 0.
Proof. unfold available_balance. intros H. err_tac. eauto using unlocked_balance_err. Qed.
Lemma f_apply_penalty_err f p c : f_apply_penalty f p = Err c -> c <> 0.
Proof. unfold f_apply_penalty. intros H. err_tac. codes. Qed.
Lemma f_add_pcd_err f p c : f_add_pcd f p = Err c -> c <> 0.
Proof. unfold f_add_pcd. intros H. err_tac. codes. Qed.
Lemma f_add_ip_err f p c : f_add_ip f p = Err c -> c <> 0.
Proof. unfold f_add_ip. intros H. err_tac. codes. Qed.
Lemma f_add_locked_err f cur sum sp c : f_add_locked_funds f cur sum sp = Err c -> c <> 0.
Proof. unfold f_add_locked_funds. intros H. err_tac; codes. Qed.
Lemma f_unlock_vested_err f cur c : f_unlock_vested_funds f cur = Err c -> c <> 0.
Proof. unfold f_unlock_vested_funds. intros H. err_tac; codes. Qed.
Lemma f_unlock_both_err f cur t c : f_unlock_vested_and_unvested f cur t = Err c -> c <> 0.
Proof. unfold f_unlock_vested_and_unvested. intros H. err_tac; codes. Qed.
Lemma f_repay_partial_err f cur b c : f_repay_partial f cur b = Err c -> c <> 0.
Proof.
  unfold f_repay_partial. intros H. err_tac; try codes;
    eauto using unlocked_balance_err, f_unlock_both_err.
Qed.
Lemma f_repay_debts_err f b c : f_repay_debts f b = Err c -> c <> 0.
Proof. unfold f_repay_debts. intros H. err_tac; try codes; eauto using unlocked_balance_err. Qed.
Lemma nested_err m x c : nested m x = Err c -> c <> 0.
Proof. unfold nested. intros H. err_tac. apply andb_true_iff in E. destruct E. zb. assumption. Qed.
Lemma finish_err s o c : finish s o = Err c -> c <> 0.
Proof. unfold finish. intros H. err_tac. codes. Qed.

Local Hint Resolve unlocked_balance_err available_balance_err f_apply_penalty_err f_add_pcd_err
  f_add_ip_err f_add_locked_err f_unlock_vested_err f_unlock_both_err f_repay_partial_err
  f_repay_debts_err nested_err finish_err : errnz.

Lemma handle_err s o c : handle s o = Err c -> c <> 0.
Proof.
  destruct o; cbn [handle]; intros H.
  - unfold apply_rewards, checked, apply_rewards_core in H. err_tac; try codes; eauto with errnz.
  - unfold withdraw_balance, checked, withdraw_balance_core in H. err_tac; try codes; eauto with errnz.
  - unfold repay_debt, checked, repay_debt_core in H. err_tac; try codes; eauto with errnz.
  - unfold change_beneficiary in H. err_tac; try codes; eauto with errnz.
  - unfold deadline_cron, checked, deadline_cron_core in H. err_tac; try codes; eauto with errnz.
  - err_tac; codes.
  - err_tac; try codes; eauto with errnz.
  - err_tac; try codes; eauto with errnz.
  - discriminate.
Qed.

Lemma handle_ok_code s o s' out : handle s o = Ok (s', out) -> code out = 0.
Proof.
  destruct o; cbn [handle]; intros H.
  - destruct (value <? 0); [discriminate|]. unfold apply_rewards, checked, apply_rewards_core in H. inv_ok.
    match goal with H : finish _ _ = Ok _ |- _ => apply finish_inv in H; destruct H as (_ & -> & _) end. reflexivity.
  - destruct (value <? 0); [discriminate|]. unfold withdraw_balance, checked, withdraw_balance_core in H. inv_ok;
    match goal with H : finish _ _ = Ok _ |- _ => apply finish_inv in H; destruct H as (_ & -> & _) end; reflexivity.
  - destruct (value <? 0); [discriminate|]. unfold repay_debt, checked, repay_debt_core in H. inv_ok.
    match goal with H : finish _ _ = Ok _ |- _ => apply finish_inv in H; destruct H as (_ & -> & _) end. reflexivity.
  - destruct (value <? 0); [discriminate|]. apply change_beneficiary_inv in H.
    destruct H as (_ & _ & -> & _). reflexivity.
  - unfold deadline_cron, checked, deadline_cron_core in H. inv_ok.
    match goal with H : finish _ _ = Ok _ |- _ => apply finish_inv in H; destruct H as (_ & -> & _) end. reflexivity.
  - inv_ok. reflexivity.
  - inv_ok. reflexivity.
  - inv_ok. reflexivity.
  - inv_ok. reflexivity.
Qed.

Lemma step_ok_iff s o s' out :
  step s o = (s', out) -> (code out = 0 <-> handle s o = Ok (s', out)).
Proof.
  unfold step. destruct (handle s o) as [[s1 o1]|c] eqn:E; intros H; inversion H; subst.
  - split; [reflexivity|]. intros _. apply (handle_ok_code _ _ _ _ E).
  - split; [|discriminate]. cbn [code fail]. intros Hc. apply handle_err in E. contradiction.
Qed.

Lemma step_rejected_unchanged s o s' out : step s o = (s', out) -> code out <> 0 -> s' = s /\ out = fail (code out).
Proof.
  unfold step. destruct (handle s o) as [[s1 o1]|c] eqn:E; intros H Hc; inversion H; subst.
  - apply handle_ok_code in E. contradiction.
  - auto.
Qed.

(* ------------------------------------------------------------------------------------------ *)
(* the invariant over histories *)

Definition run (s : state) (ops : list op) : state := fold_left (fun s o => fst (step s o)) ops s.

Lemma run_cons s o ops : run s (o :: ops) = run (fst (step s o)) ops.
Proof. reflexivity. Qed.

Lemma credit_inv s v : Inv s -> 0 <= v -> Inv (credit s v).
Proof. intros [Hf Hs] Hv. split; [exact Hf|]. unfold solvent in *. ssimpl. lia. Qed.

Lemma handle_inv s o s' out : Inv s -> handle s o = Ok (s', out) -> Inv s'.
Proof.
  intros HI. destruct o; cbn [handle]; intros H.
  - destruct (value <? 0) eqn:Ev; [discriminate|]. zb.
    apply (apply_rewards_inv _ _ _ _ _ _ _ _ (credit_inv _ _ HI Ev)) in H. tauto.
  - destruct (value <? 0) eqn:Ev; [discriminate|]. zb.
    apply (withdraw_balance_inv _ _ _ _ _ _ _ (credit_inv _ _ HI Ev)) in H. tauto.
  - destruct (value <? 0) eqn:Ev; [discriminate|]. zb.
    apply (repay_debt_inv _ _ _ _ _ _ (credit_inv _ _ HI Ev)) in H. tauto.
  - destruct (value <? 0) eqn:Ev; [discriminate|]. zb.
    apply change_beneficiary_inv in H. destruct H as (Hfu & Hb & _).
    pose proof (credit_inv _ _ HI Ev) as [A B]. unfold Inv. rewrite Hfu, Hb. split; assumption.
  - apply (deadline_cron_inv _ _ _ _ _ _ _ _ HI) in H. tauto.
  - inv_ok. zb. apply credit_inv; assumption.
  - inv_ok. zb. destruct HI as [Hf Hs].
    match goal with H : available_balance _ _ = Ok _ |- _ => apply available_balance_inv in H end.
    match goal with H : f_add_pcd _ _ = Ok _ |- _ => destruct (f_add_pcd_inv _ _ _ Hf H) as [Hf' ->] end.
    pose proof (fi_debt _ Hf). split; [assumption|]. unfold solvent in *. ssimpl. fsimpl. lia.
  - inv_ok. zb. destruct HI as [Hf Hs].
    match goal with H : unlocked_balance _ _ = Ok _ |- _ => apply unlocked_balance_inv in H end.
    match goal with H : f_add_ip _ _ = Ok _ |- _ => destruct (f_add_ip_inv _ _ _ Hf H) as [Hf' ->] end.
    split; [assumption|]. unfold solvent in *. ssimpl. fsimpl. lia.
  - inv_ok. exact HI.
Qed.

Lemma step_inv s o : Inv s -> Inv (fst (step s o)).
Proof.
  intros HI. unfold step. destruct (handle s o) as [[s1 o1]|c] eqn:E; cbn [fst]; [|assumption].
  apply (handle_inv _ _ _ _ HI E).
Qed.

Lemma run_inv ops : forall s, Inv s -> Inv (run s ops).
Proof. induction ops as [|o ops IH]; intros s HI; [assumption|]. rewrite run_cons. apply IH, step_inv, HI. Qed.

Lemma empty_funds_inv p : FInv (empty_funds p).
Proof. constructor; cbn; try lia. split; [exact I|constructor]. Qed.

Lemma init_inv balance deposit epoch p own wrk :
  0 <= deposit <= balance -> Inv (init balance deposit epoch p own wrk).
Proof.
  intros Hd. unfold init, Inv. ssimpl.
  destruct (f_add_locked_funds (empty_funds p) epoch deposit REWARD_SPEC) as [[f u]|c] eqn:E.
  - destruct (f_add_locked_inv _ _ _ _ _ _ (empty_funds_inv p) reward_spec_ok E)
      as (_ & Hu & Hf & L & P & I0 & _).
    split; [assumption|]. unfold solvent. cbn in Hu, L, P, I0. lia.
  - split; [apply empty_funds_inv|]. unfold solvent. cbn. lia.
Qed.

(* the constructor really locks the whole deposit, on the 180-day schedule *)
Lemma init_locks_deposit balance deposit epoch p own wrk :
  0 <= deposit ->
  let s := init balance deposit epoch p own wrk in
  locked (fu s) = deposit /\ tbl_sum (vest (fu s)) = deposit /\
  forall e, epoch <= e -> vested_sum (vest (fu s)) e = vested_sum (new_schedule epoch deposit p REWARD_SPEC) e.
Proof.
  intros Hd. unfold init. ssimpl.
  destruct (f_add_locked_funds (empty_funds p) epoch deposit REWARD_SPEC) as [[f u]|c] eqn:E.
  - destruct (f_add_locked_inv _ _ _ _ _ _ (empty_funds_inv p) reward_spec_ok E)
      as (_ & Hu & Hf & L & _ & _ & _ & _ & _ & _ & V).
    cbn in Hu, L. split; [lia|]. split; [rewrite (fi_sum _ Hf); lia|].
    intros e He. rewrite (V e He). cbn. lia.
  - exfalso. unfold f_add_locked_funds in E.
    replace (deposit <? 0) with false in E by (symmetry; apply Z.ltb_ge; lia).
    destruct (add_locked_funds (vest (empty_funds p)) epoch deposit (pps (empty_funds p)) REWARD_SPEC) as [t' unl] eqn:E2.
    destruct (add_locked_funds_spec _ _ _ _ _ _ _ (fi_wf _ (empty_funds_inv p)) reward_spec_ok Hd E2) as (Hu & _).
    cbn in Hu. subst unl. cbn in E. discriminate.
Qed.

(* ------------------------------------------------------------------------------------------ *)
(* the clauses of C14 on `step` *)

Definition op_epoch (o : op) : option Z :=
  match o with
  | ApplyRewards _ e _ _ _ _ | Withdraw _ e _ _ _ | RepayDebt _ e _ _ | ChangeBenef _ e _ _ _ _
  | Cron _ e _ _ _ => Some e
  | _ => None
  end.
Definition op_penalty (o : op) : Z :=
  match o with ApplyRewards _ _ _ _ p _ => p | Cron _ _ p _ _ => p | _ => 0 end.
(* value arriving with the message *)
Definition op_value (o : op) : Z :=
  match o with
  | ApplyRewards _ _ v _ _ _ | Withdraw _ _ v _ _ | RepayDebt _ _ v _ | ChangeBenef _ _ v _ _ _ => v
  | Deposit a => a
  | _ => 0
  end.
(* only these may take funds out of the vesting table before they vest *)
Definition may_draw (o : op) : bool :=
  match o with ApplyRewards _ _ _ _ _ _ | RepayDebt _ _ _ _ | Cron _ _ _ _ _ => true | _ => false end.

Definition at_epoch (o : op) (e : Z) : Prop := op_epoch o = Some e \/ op_epoch o = None.

Lemma handle_unrelated s o s' out :
  match o with Deposit _ | AddPcd _ | AddIp _ | SetEarlyTerm _ | ChangeBenef _ _ _ _ _ _ => True | _ => False end ->
  handle s o = Ok (s', out) ->
  vest (fu s') = vest (fu s) /\ locked (fu s') = locked (fu s) /\ fee_debt (fu s') = fee_debt (fu s) /\
  out = ok_out /\ bal s' = bal s + op_value o.
Proof.
  destruct o; cbn [handle op_value]; intros Hk H; try contradiction.
  - destruct (value <? 0); [discriminate|]. apply change_beneficiary_inv in H.
    destruct H as (Hfu & Hb & -> & _). rewrite Hfu, Hb. ssimpl. auto.
  - inv_ok. ssimpl. repeat split; lia.
  - inv_ok. unfold f_add_pcd in *. inv_ok. ssimpl. fsimpl. repeat split; lia.
  - inv_ok. unfold f_add_ip in *. inv_ok. ssimpl. fsimpl. repeat split; lia.
  - inv_ok. ssimpl. repeat split; lia.
Qed.

(* Funds leave the vesting table only (a) because their epoch has passed, or (b) inside the
   penalty-paying operations, up to the fee debt, and then they are burnt in the same call. *)
Theorem no_early_unlock_except_penalty s o s' out e :
  Inv s -> step s o = (s', out) -> code out = 0 -> at_epoch o e ->
  unvested_sum (vest (fu s')) e = unvested_sum (vest (fu s)) e + added out - drawn out /\
  0 <= added out /\
  0 <= vested out <= vested_sum (vest (fu s)) e /\
  0 <= drawn out <= fee_debt (fu s) + op_penalty o /\
  drawn out <= burnt out /\
  (may_draw o = false -> drawn out = 0) /\
  locked (fu s') = locked (fu s) + added out - vested out - drawn out.
Proof.
  intros HI Hst Hc Hat. apply (step_ok_iff _ _ _ _ Hst) in Hc. clear Hst.
  pose proof (nonneg_vested (vest (fu s)) e (proj2 (fi_wf _ (proj1 HI)))) as Hv0.
  pose proof (fi_debt _ (proj1 HI)) as Hd0.
  assert (Hun : match o with Deposit _ | AddPcd _ | AddIp _ | SetEarlyTerm _ | ChangeBenef _ _ _ _ _ _ => True | _ => False end ->
                _) by (intros Hk; exact (handle_unrelated _ _ _ _ Hk Hc)).
  destruct o; cbn [handle op_epoch op_penalty may_draw] in *;
    try (destruct (Hun I) as (Hvt & Hl & _ & -> & _); rewrite Hvt, Hl; ssimpl; repeat split; try lia; fail).
  - destruct (value <? 0) eqn:Ev; [discriminate|]. zb.
    destruct Hat as [Hat|Hat]; [|discriminate]. inversion Hat; subst e.
    destruct (apply_rewards_inv _ _ _ _ _ _ _ _ (credit_inv _ _ HI Ev) Hc)
      as (_ & _ & _ & _ & _ & _ & _ & A0 & _ & V & D & DB & _ & U & L & _).
    ssimpl. repeat split; try lia; try discriminate.
  - destruct (value <? 0) eqn:Ev; [discriminate|]. zb.
    destruct Hat as [Hat|Hat]; [|discriminate]. inversion Hat; subst e.
    destruct (withdraw_balance_inv _ _ _ _ _ _ _ (credit_inv _ _ HI Ev) Hc)
      as (_ & _ & _ & _ & _ & _ & _ & V & A & D & L & U & _ & B & _).
    ssimpl. repeat split; try lia.
  - destruct (value <? 0) eqn:Ev; [discriminate|]. zb.
    destruct Hat as [Hat|Hat]; [|discriminate]. inversion Hat; subst e.
    destruct (repay_debt_inv _ _ _ _ _ _ (credit_inv _ _ HI Ev) Hc)
      as (_ & _ & _ & _ & A & _ & V & D & DB & _ & _ & U & L & _).
    ssimpl. repeat split; try lia; try discriminate.
  - destruct Hat as [Hat|Hat]; [|discriminate]. inversion Hat; subst e.
    destruct (deadline_cron_inv _ _ _ _ _ _ _ _ HI Hc)
      as (_ & _ & _ & _ & _ & A & _ & V & D & DB & _ & U & L & _).
    repeat split; try lia; try discriminate.
Qed.

(* flows accumulated over a history: (added, vested, drawn, burnt, paid) *)
Fixpoint flows (s : state) (ops : list op) : Z * Z * Z * Z * Z :=
  match ops with
  | [] => (0, 0, 0, 0, 0)
  | o :: r =>
      let '(s', out) := step s o in
      let '(a, v, d, b, p) := flows s' r in
      (added out + a, vested out + v, drawn out + d, burnt out + b, paid out + p)
  end.
Fixpoint sum_penalties (s : state) (ops : list op) : Z :=
  match ops with
  | [] => 0
  | o :: r => let '(s', out) := step s o in
              (if code out =? 0 then op_penalty o else 0) + sum_penalties s' r
  end.
Fixpoint sum_values (s : state) (ops : list op) : Z :=
  match ops with
  | [] => 0
  | o :: r => let '(s', out) := step s o in
              (if code out =? 0 then op_value o else 0) + sum_values s' r
  end.

(* per step: debt and balance accounting *)
Lemma step_accounting s o s' out :
  Inv s -> step s o = (s', out) -> code out = 0 ->
  fee_debt (fu s') + burnt out = fee_debt (fu s) + op_penalty o /\
  bal s' = bal s + op_value o - paid out - burnt out /\
  0 <= burnt out /\ 0 <= paid out.
Proof.
  intros HI Hst Hc. apply (step_ok_iff _ _ _ _ Hst) in Hc. clear Hst.
  pose proof (fi_debt _ (proj1 HI)) as Hd0.
  assert (Hun : match o with Deposit _ | AddPcd _ | AddIp _ | SetEarlyTerm _ | ChangeBenef _ _ _ _ _ _ => True | _ => False end ->
                _) by (intros Hk; exact (handle_unrelated _ _ _ _ Hk Hc)).
  destruct o; cbn [handle op_penalty op_value] in *;
    try (destruct (Hun I) as (_ & _ & Hd & -> & Hb); cbn [op_value] in Hb; ssimpl; repeat split; lia).
  - destruct (value <? 0) eqn:Ev; [discriminate|]. zb.
    destruct (apply_rewards_inv _ _ _ _ _ _ _ _ (credit_inv _ _ HI Ev) Hc)
      as (_ & _ & _ & _ & _ & _ & _ & _ & _ & _ & D & DB & F & _ & _ & B & P & _).
    ssimpl. repeat split; lia.
  - destruct (value <? 0) eqn:Ev; [discriminate|]. zb.
    destruct (withdraw_balance_inv _ _ _ _ _ _ _ (credit_inv _ _ HI Ev) Hc)
      as (_ & _ & _ & _ & _ & _ & P & _ & _ & _ & _ & _ & _ & B & F & Bl & _).
    ssimpl. repeat split; lia.
  - destruct (value <? 0) eqn:Ev; [discriminate|]. zb.
    destruct (repay_debt_inv _ _ _ _ _ _ (credit_inv _ _ HI Ev) Hc)
      as (_ & _ & _ & _ & _ & P & _ & D & DB & _ & F & _ & _ & B & _).
    ssimpl. repeat split; lia.
  - destruct (deadline_cron_inv _ _ _ _ _ _ _ _ HI Hc)
      as (_ & _ & _ & _ & _ & _ & P & _ & D & DB & F & _ & _ & B & _).
    repeat split; lia.
Qed.

Lemma step_locked_flow s o s' out :
  Inv s -> step s o = (s', out) ->
  locked (fu s') = locked (fu s) + added out - vested out - drawn out /\
  0 <= added out /\ 0 <= vested out /\ 0 <= drawn out /\ 0 <= burnt out /\ 0 <= paid out /\
  fee_debt (fu s') + burnt out = fee_debt (fu s) + (if code out =? 0 then op_penalty o else 0) /\
  bal s' = bal s + (if code out =? 0 then op_value o else 0) - paid out - burnt out.
Proof.
  intros HI Hst. destruct (Z.eq_dec (code out) 0) as [Hc|Hc].
  - rewrite Hc. cbn [Z.eqb].
    destruct (step_accounting _ _ _ _ HI Hst Hc) as (A & B & C & D).
    assert (Hat : exists e, at_epoch o e).
    { unfold at_epoch. destruct (op_epoch o) as [e|]; [exists e; left; reflexivity|exists 0; right; reflexivity]. }
    destruct Hat as [e Hat].
    destruct (no_early_unlock_except_penalty _ _ _ _ e HI Hst Hc Hat) as (_ & A0 & V & D0 & _ & _ & L).
    repeat split; lia.
  - destruct (step_rejected_unchanged _ _ _ _ Hst Hc) as [-> ->].
    replace (code (fail (code out)) =? 0) with false by (symmetry; apply Z.eqb_neq; exact Hc).
    cbn [added vested drawn burnt paid fail]. repeat split; lia.
Qed.

(* over any history: what is locked now = what was locked + everything added - everything that vested
   - everything drawn for penalties; every penalty is burnt or still owed; every attoFIL of the
   balance is accounted for *)
Theorem locked_conserved ops : forall s, Inv s ->
  let '(a, v, d, b, p) := flows s ops in
  locked (fu (run s ops)) = locked (fu s) + a - v - d /\
  0 <= a /\ 0 <= v /\ 0 <= d /\ 0 <= b /\ 0 <= p /\ d <= b /\
  fee_debt (fu (run s ops)) + b = fee_debt (fu s) + sum_penalties s ops /\
  bal (run s ops) = bal s + sum_values s ops - p - b.
Proof.
  induction ops as [|o ops IH]; intros s HI.
  - cbn. repeat split; lia.
  - rewrite run_cons. cbn [flows sum_penalties sum_values].
    destruct (step s o) as [s1 out] eqn:Hst. cbn [fst].
    pose proof (step_inv s o HI) as HI1. rewrite Hst in HI1. cbn [fst] in HI1.
    specialize (IH s1 HI1). destruct (flows s1 ops) as [[[[a v] d] b] p].
    destruct (step_locked_flow _ _ _ _ HI Hst) as (L & A0 & V0 & D0 & B0 & P0 & F & Bl).
    assert (Hdb : drawn out <= burnt out).
    { destruct (Z.eq_dec (code out) 0) as [Hc|Hc].
      - assert (Hat : exists e, at_epoch o e).
        { unfold at_epoch. destruct (op_epoch o) as [e|]; [exists e; left; reflexivity|exists 0; right; reflexivity]. }
        destruct Hat as [e Hat].
        destruct (no_early_unlock_except_penalty _ _ _ _ e HI Hst Hc Hat) as (_ & _ & _ & _ & DB & _). exact DB.
      - destruct (step_rejected_unchanged _ _ _ _ Hst Hc) as [_ ->]. cbn. lia. }
    destruct IH as (L' & A' & V' & D' & B' & P' & DB' & F' & Bl').
    repeat split; lia.
Qed.

(* ---- withdrawals ---- *)

Theorem withdraw_bound s c e v req upt s' out :
  Inv s -> step s (Withdraw c e v req upt) = (s', out) -> code out = 0 ->
  ret out = paid out /\ 0 <= paid out /\ paid out <= req /\
  paid out <= bal s + v - locked (fu s') - pcd (fu s) - ip (fu s) - fee_debt (fu s) /\
  locked (fu s') = locked (fu s) - vested_sum (vest (fu s)) e /\
  (benef s <> owner s -> paid out <= quota (term s) - used (term s)) /\
  bal s' = bal s + v - paid out - burnt out /\
  pcd (fu s') = pcd (fu s) /\ ip (fu s') = ip (fu s).
Proof.
  intros HI Hst Hc. apply (step_ok_iff _ _ _ _ Hst) in Hc. cbn [handle] in Hc.
  destruct (v <? 0) eqn:Ev; [discriminate|]. zb.
  destruct (withdraw_balance_inv _ _ _ _ _ _ _ (credit_inv _ _ HI Ev) Hc)
    as (_ & _ & _ & _ & _ & R & P & V & _ & _ & L & _ & Bd & _ & _ & Bl & [SP SI] & _ & _ & Q & _).
  ssimpl. repeat split; try lia; try (intros Hne; apply Q in Hne; lia).
Qed.

Theorem withdraw_payee_and_caller s c e v req upt s' out :
  Inv s -> step s (Withdraw c e v req upt) = (s', out) -> code out = 0 ->
  (c = owner s \/ c = benef s) /\
  sends out = send_value (benef s) (paid out) ++ send_value BURNT_FUNDS_ACTOR_ID (burnt out) ++
              send_pledge (- vested out) /\
  (forall t m x d, In (t, m, x, d) (sends out) -> 0 < x ->
     (t = benef s /\ x = paid out) \/ (t = BURNT_FUNDS_ACTOR_ID /\ x = burnt out)).
Proof.
  intros HI Hst Hc. apply (step_ok_iff _ _ _ _ Hst) in Hc. cbn [handle] in Hc.
  destruct (v <? 0) eqn:Ev; [discriminate|]. zb.
  destruct (withdraw_balance_inv _ _ _ _ _ _ _ (credit_inv _ _ HI Ev) Hc)
    as (_ & Cl & _ & _ & _ & _ & _ & _ & _ & _ & _ & _ & _ & _ & _ & _ & _ & _ & _ & _ & S & _).
  ssimpl. split; [assumption|]. split; [assumption|].
  intros t m x d Hin Hx. rewrite S in Hin. apply in_app_or in Hin. destruct Hin as [Hin|Hin].
  - unfold send_value in Hin. destruct (0 <? paid out); [|destruct Hin].
    destruct Hin as [Hin|[]]. inversion Hin; subst. left. auto.
  - apply in_app_or in Hin. destruct Hin as [Hin|Hin].
    + unfold send_value in Hin. destruct (0 <? burnt out); [|destruct Hin].
      destruct Hin as [Hin|[]]. inversion Hin; subst. right. auto.
    + unfold send_pledge in Hin. destruct (- vested out =? 0); [destruct Hin|].
      destruct Hin as [Hin|[]]. inversion Hin; subst. lia.
Qed.

Theorem withdraw_quota_and_expiry s c e v req upt s' out :
  Inv s -> step s (Withdraw c e v req upt) = (s', out) -> code out = 0 ->
  benef s <> owner s ->
  e < expiration (term s) /\ used (term s) < quota (term s) /\
  used (term s') = used (term s) + paid out /\ used (term s') <= quota (term s') /\
  quota (term s') = quota (term s) /\ expiration (term s') = expiration (term s) /\
  benef s' = benef s.
Proof.
  intros HI Hst Hc Hne. apply (step_ok_iff _ _ _ _ Hst) in Hc. cbn [handle] in Hc.
  destruct (v <? 0) eqn:Ev; [discriminate|]. zb.
  destruct (withdraw_balance_inv _ _ _ _ _ _ _ (credit_inv _ _ HI Ev) Hc)
    as (_ & _ & _ & _ & _ & _ & P & _ & _ & _ & _ & _ & _ & _ & _ & _ & _ & (_ & _ & _ & Hb & _) & _ & Q & _).
  ssimpl. destruct (Q Hne) as (A & A' & B & C & D & F). repeat split; try lia; try assumption.
Qed.

Theorem withdraw_owner_term_untouched s c e v req upt s' out :
  Inv s -> step s (Withdraw c e v req upt) = (s', out) -> code out = 0 ->
  benef s = owner s -> term s' = term s.
Proof.
  intros HI Hst Hc He. apply (step_ok_iff _ _ _ _ Hst) in Hc. cbn [handle] in Hc.
  destruct (v <? 0) eqn:Ev; [discriminate|]. zb.
  destruct (withdraw_balance_inv _ _ _ _ _ _ _ (credit_inv _ _ HI Ev) Hc)
    as (_ & _ & _ & _ & _ & _ & _ & _ & _ & _ & _ & _ & _ & _ & _ & _ & _ & _ & Q & _).
  ssimpl. auto.
Qed.

Theorem withdraw_blocked_by_early_terminations s c e v req upt :
  early_term s = true -> code (snd (step s (Withdraw c e v req upt))) <> 0.
Proof.
  intros He. destruct (step s (Withdraw c e v req upt)) as [s' out] eqn:Hst. cbn [snd].
  intros Hc. apply (step_ok_iff _ _ _ _ Hst) in Hc. cbn [handle] in Hc.
  destruct (v <? 0); [discriminate|]. unfold withdraw_balance, checked, withdraw_balance_core in Hc. ssimpl. rewrite He in Hc.
  destruct (req <? 0); [discriminate|].
  destruct (negb ((c =? owner s) || (c =? benef s))); discriminate.
Qed.

Theorem withdraw_repays_debt_fully s c e v req upt s' out :
  Inv s -> step s (Withdraw c e v req upt) = (s', out) -> code out = 0 ->
  fee_debt (fu s') = 0 /\ burnt out = fee_debt (fu s) /\
  fee_debt (fu s) <= bal s + v - locked (fu s') - pcd (fu s) - ip (fu s).
Proof.
  intros HI Hst Hc. apply (step_ok_iff _ _ _ _ Hst) in Hc. cbn [handle] in Hc.
  destruct (v <? 0) eqn:Ev; [discriminate|]. zb.
  destruct (withdraw_balance_inv _ _ _ _ _ _ _ (credit_inv _ _ HI Ev) Hc)
    as (_ & _ & _ & _ & _ & _ & P & _ & _ & _ & _ & _ & Bd & B & F & _).
  ssimpl. repeat split; lia.
Qed.

(* rewards: 75 % is locked, vesting on the reward schedule *)
Theorem apply_rewards_locks s c e v r p upt s' out :
  Inv s -> step s (ApplyRewards c e v r p upt) = (s', out) -> code out = 0 ->
  c = REWARD_ACTOR_ID /\ added out = locked_reward r /\
  vested out = vested_sum (vest (fu s)) e /\
  unvested_sum (vest (fu s')) e = unvested_sum (vest (fu s)) e + locked_reward r - drawn out /\
  paid out = 0.
Proof.
  intros HI Hst Hc. apply (step_ok_iff _ _ _ _ Hst) in Hc. cbn [handle] in Hc.
  destruct (v <? 0) eqn:Ev; [discriminate|]. zb.
  destruct (apply_rewards_inv _ _ _ _ _ _ _ _ (credit_inv _ _ HI Ev) Hc)
    as (Cc & _ & _ & _ & _ & _ & A & _ & _ & V & _ & _ & _ & U & _ & _ & P & _).
  ssimpl. repeat split; try assumption. lia.
Qed.

Lemma locked_reward_bounds r : 0 <= r ->
  4 * locked_reward r <= 3 * r < 4 * locked_reward r + 4 /\ 0 <= locked_reward r <= r.
Proof.
  intros Hr. unfold locked_reward, LOCKED_REWARD_FACTOR_NUM, LOCKED_REWARD_FACTOR_DENOM.
  pose proof (Z.div_mod (r * 3) 4 ltac:(lia)). pose proof (Z.mod_pos_bound (r * 3) 4 ltac:(lia)). lia.
Qed.

(* the cron moves proving_period_start by whole proving periods: irrelevant for the reward schedule *)
Lemma pps_shift_irrelevant pps k e :
  quantize_up REWARD_VEST_QUANTIZATION (pps + k * WPOST_PROVING_PERIOD) e =
  quantize_up REWARD_VEST_QUANTIZATION pps e.
Proof.
  replace (pps + k * WPOST_PROVING_PERIOD) with (pps + REWARD_VEST_QUANTIZATION * (2 * k))
    by (unfold WPOST_PROVING_PERIOD, REWARD_VEST_QUANTIZATION; lia).
  apply quantize_up_offset_shift. reflexivity.
Qed.

(* ------------------------------------------------------------------------------------------ *)
(* the final check_balance_invariants of every handler is never the reason of a failure: the miner
   itself never raises ERR_BALANCE_INVARIANTS_BROKEN from a state satisfying the invariant *)

Definition small (c : Z) : Prop := c = 16 \/ c = 18 \/ c = 19 \/ c = 20.
Ltac smallc := solve [unfold small, ILLEGAL_ARGUMENT, FORBIDDEN, INSUFFICIENT_FUNDS, ILLEGAL_STATE; auto 6].

Lemma unlocked_balance_small f b c : unlocked_balance f b = Err c -> small c.
Proof. unfold unlocked_balance. intros H. err_tac. smallc. Qed.
Lemma available_balance_small f b c : available_balance f b = Err c -> small c.
Proof. unfold available_balance. intros H. err_tac. eauto using unlocked_balance_small. Qed.
Lemma f_apply_penalty_small f p c : f_apply_penalty f p = Err c -> small c.
Proof. unfold f_apply_penalty. intros H. err_tac. smallc. Qed.
Lemma f_add_pcd_small f p c : f_add_pcd f p = Err c -> small c.
Proof. unfold f_add_pcd. intros H. err_tac. smallc. Qed.
Lemma f_add_ip_small f p c : f_add_ip f p = Err c -> small c.
Proof. unfold f_add_ip. intros H. err_tac. smallc. Qed.
Lemma f_add_locked_small f cur sum sp c : f_add_locked_funds f cur sum sp = Err c -> small c.
Proof. unfold f_add_locked_funds. intros H. err_tac; smallc. Qed.
Lemma f_unlock_vested_small f cur c : f_unlock_vested_funds f cur = Err c -> small c.
Proof. unfold f_unlock_vested_funds. intros H. err_tac; smallc. Qed.
Lemma f_unlock_both_small f cur t c : f_unlock_vested_and_unvested f cur t = Err c -> small c.
Proof. unfold f_unlock_vested_and_unvested. intros H. err_tac; smallc. Qed.
Lemma f_repay_partial_small f cur b c : f_repay_partial f cur b = Err c -> small c.
Proof.
  unfold f_repay_partial. intros H. err_tac; try smallc;
    eauto using unlocked_balance_small, f_unlock_both_small.
Qed.
Lemma f_repay_debts_small f b c : f_repay_debts f b = Err c -> small c.
Proof. unfold f_repay_debts. intros H. err_tac; try smallc; eauto using unlocked_balance_small. Qed.
Lemma nested_err_is m x c : nested m x = Err c -> c = x.
Proof. unfold nested. intros H. err_tac. reflexivity. Qed.

Local Hint Resolve unlocked_balance_small available_balance_small f_apply_penalty_small f_add_pcd_small
  f_add_ip_small f_add_locked_small f_unlock_vested_small f_unlock_both_small f_repay_partial_small
  f_repay_debts_small : smalldb.

Definition nested_codes (o : op) : list Z :=
  match o with
  | ApplyRewards _ _ _ _ _ upt | Withdraw _ _ _ _ upt | RepayDebt _ _ _ upt => [upt]
  | Cron _ _ _ upt enr => [upt; enr]
  | _ => []
  end.

Lemma checked_err r c : checked r = Err c ->
  r = Err c \/ exists s1 o1, r = Ok (s1, o1) /\ finish s1 o1 = Err c.
Proof.
  unfold checked. destruct r as [[s1 o1]|c']; cbn [bind]; intros H.
  - right. exists s1, o1. auto.
  - left. congruence.
Qed.

Lemma finish_ok_of_inv s o : Inv s -> finish s o = Ok (s, o).
Proof. intros HI. unfold finish. rewrite (check_of_inv s HI). reflexivity. Qed.

Ltac nest_or_small :=
  match goal with
  | H : nested _ ?x = Err ?c |- _ => apply nested_err_is in H; subst; right; cbn; auto
  | _ => left; try smallc; eauto with smalldb
  end.

Lemma handle_err_class s o c : Inv s -> handle s o = Err c -> small c \/ In c (nested_codes o).
Proof.
  intros HI. destruct o; cbn [handle nested_codes]; intros H.
  - destruct (value <? 0) eqn:Ev; [inversion H; left; smallc|]. zb.
    pose proof (credit_inv _ _ HI Ev) as HI'. unfold apply_rewards in H.
    destruct (checked_err _ _ H) as [Hc|(s1 & o1 & Hc & Hf)].
    + unfold apply_rewards_core in Hc. err_tac; nest_or_small.
    + pose proof (apply_rewards_core_inv _ _ _ _ _ _ _ _ HI' Hc) as (_ & _ & _ & HI1 & _).
      rewrite (finish_ok_of_inv _ o1 HI1) in Hf. discriminate.
  - destruct (value <? 0) eqn:Ev; [inversion H; left; smallc|]. zb.
    pose proof (credit_inv _ _ HI Ev) as HI'. unfold withdraw_balance in H.
    destruct (checked_err _ _ H) as [Hc|(s1 & o1 & Hc & Hf)].
    + unfold withdraw_balance_core in Hc. err_tac; nest_or_small.
    + pose proof (withdraw_balance_core_inv _ _ _ _ _ _ _ HI' Hc) as (_ & _ & _ & HI1 & _).
      rewrite (finish_ok_of_inv _ o1 HI1) in Hf. discriminate.
  - destruct (value <? 0) eqn:Ev; [inversion H; left; smallc|]. zb.
    pose proof (credit_inv _ _ HI Ev) as HI'. unfold repay_debt in H.
    destruct (checked_err _ _ H) as [Hc|(s1 & o1 & Hc & Hf)].
    + unfold repay_debt_core in Hc. err_tac; nest_or_small.
    + pose proof (repay_debt_core_inv _ _ _ _ _ _ HI' Hc) as (_ & HI1 & _).
      rewrite (finish_ok_of_inv _ o1 HI1) in Hf. discriminate.
  - left. destruct (value <? 0); [inversion H; smallc|].
    unfold change_beneficiary in H. err_tac; smallc.
  - unfold deadline_cron in H.
    destruct (checked_err _ _ H) as [Hc|(s1 & o1 & Hc & Hf)].
    + unfold deadline_cron_core in Hc. err_tac; nest_or_small.
    + pose proof (deadline_cron_core_inv _ _ _ _ _ _ _ _ HI Hc) as (_ & _ & HI1 & _).
      rewrite (finish_ok_of_inv _ o1 HI1) in Hf. discriminate.
  - left. err_tac; smallc.
  - left. err_tac; try smallc; eauto with smalldb.
  - left. err_tac; try smallc; eauto with smalldb.
  - discriminate.
Qed.

Theorem balance_check_never_fails s o :
  Inv s -> code (snd (step s o)) = BALANCE_INVARIANTS_BROKEN -> In BALANCE_INVARIANTS_BROKEN (nested_codes o).
Proof.
  intros HI. unfold step. destruct (handle s o) as [[s1 o1]|c] eqn:E; cbn [snd code fail].
  - intros Hc. apply handle_ok_code in E. unfold BALANCE_INVARIANTS_BROKEN in Hc. lia.
  - intros ->. destruct (handle_err_class _ _ _ HI E) as [Hs|Hn]; [|exact Hn].
    unfold small, BALANCE_INVARIANTS_BROKEN in Hs. lia.
Qed.

Lemma history_invariant balance deposit epoch p own wrk ops :
  0 <= deposit <= balance ->
  let s := run (init balance deposit epoch p own wrk) ops in
  wf (vest (fu s)) /\ tbl_sum (vest (fu s)) = locked (fu s) /\
  0 <= pcd (fu s) /\ 0 <= ip (fu s) /\ 0 <= fee_debt (fu s) /\
  locked (fu s) + pcd (fu s) + ip (fu s) <= bal s.
Proof.
  intros Hd. pose proof (run_inv ops _ (init_inv balance deposit epoch p own wrk Hd)) as [[A B C D F] S].
  cbv zeta. unfold solvent in S. auto 10.
Qed.

Lemma reward_schedule_complete cur sum pps e : 0 <= sum ->
  cur + 181 * EPOCHS_IN_DAY + 12 * EPOCHS_IN_HOUR <= e ->
  vested_sum (new_schedule cur sum pps REWARD_SPEC) e = sum /\
  vested_sum (new_schedule cur sum pps REWARD_SPEC) (cur + EPOCHS_IN_DAY) = 0.
Proof.
  intros Hs He. split.
  - apply (new_schedule_complete cur sum pps REWARD_SPEC reward_spec_ok Hs).
    cbn [REWARD_SPEC initial_delay vest_period step_duration quantization].
    unfold REWARD_VEST_INITIAL_DELAY, REWARD_VEST_VEST_PERIOD, REWARD_VEST_STEP_DURATION,
      REWARD_VEST_QUANTIZATION, EPOCHS_IN_DAY, EPOCHS_IN_HOUR in *. lia.
  - apply all_ge_vested.
    pose proof (new_schedule_after cur sum pps REWARD_SPEC reward_spec_ok) as H.
    cbn [REWARD_SPEC initial_delay step_duration] in H.
    unfold REWARD_VEST_INITIAL_DELAY, REWARD_VEST_STEP_DURATION, EPOCHS_IN_DAY in *.
    replace (cur + 2880) with (cur + 0 + 2880) by lia. exact H.
Qed.

(* the sequence of (state, outcome) a history produces, for examples *)
Fixpoint trace (s : state) (ops : list op) : list (state * outcome) :=
  match ops with
  | [] => []
  | o :: r => let so := step s o in so :: trace (fst so) r
  end.
