(* C02 at deadline level: the deadline's own validate_state is redundant, and every deadline
   operation moves the credited power of the deadline by exactly the delta it reports. *)
From Coq Require Import ZArith List Bool Lia.
From stdpp Require Import gmap.
From VF Require Import Base.SetSum Model.Partition Model.PartitionInv Model.Deadline
  Model.DeadlineInv Model.DeadlineC02 Proofs.Partition_base Proofs.Partition_lists
  Proofs.Partition_ops1 Proofs.Deadline_base Proofs.Deadline_ops1 Proofs.Deadline_ops2
  Proofs.Deadline_ops3 Proofs.Deadline_ops4 Proofs.Deadline_lemmas Proofs.Deadline_c02.
Import ListNotations.
Open Scope Z_scope.

Lemma lsum_le {A} (f g : A -> Z) (l : list A) :
  (forall x, x ∈ l -> f x <= g x) -> lsum f l <= lsum g l.
Proof.
  induction l as [|x l IH]; intros H; [reflexivity|]. rewrite !lsum_cons.
  assert (f x <= g x) by (apply H; left).
  assert (lsum f l <= lsum g l) by (apply IH; intros y Hy; apply H; right; exact Hy). lia.
Qed.

Theorem dl_validate_redundant qs tbl d : DeadlineInv qs tbl d -> dl_validate d = true.
Proof.
  intros [H1 H2 H3 H4 H5 H6 H7 H8]. unfold dl_validate. apply andb_true_intro. split.
  - apply Z.leb_le. rewrite H3, H4. apply lsum_le. intros p Hp. unfold ssize, live_sectors.
    apply inj_le. apply subseteq_size. set_solver.
  - rewrite H5, psum_lsum. unfold pp_nonneg; cbn [raw qa]. apply andb_true_intro.
    assert (Hnn : forall p, p ∈ parts d -> 0 <= raw (p_faulty_power p) /\ 0 <= qa (p_faulty_power p)).
    { intros p Hp. apply elem_of_list_lookup in Hp as [i Hi]. pose proof (H1 _ _ Hi) as HP.
      rewrite (pi_faulty_power _ _ _ HP). destruct (partinv_sub _ _ _ HP) as (SF & _).
      apply (spow_nonneg tbl _ _ (pi_tbl _ _ _ HP) SF). }
    split; apply Z.leb_le; apply lsum_nonneg; intros p Hp; apply (Hnn p Hp).
Qed.

Theorem ddelta_is_difference st o :
  DsInv st -> dop_wf st o ->
  ds_credited (dnext st o) = pp_add (ds_credited st) (dstep_delta st o).
Proof.
  intros (Hu & Hps & Hk & HD) Hwf. unfold dnext, dstep, dstep_delta, ds_credited.
  destruct st as [qs psize tbl d alloc]. cbn [ds_q ds_psize ds_tbl ds_dl ds_alloc] in *.
  pose proof (allpart_of_dinv _ _ _ HD) as HA.
  assert (H0 : forall x : pp, x = pp_add x pp0) by (intros x; apply pp_eq; cbn; lia).
  destruct o as [proven secs|fe posts|fe|until|epoch psm|fe psm|psm|tr|mp ms|nums allow|mp ps infos n];
    cbn [fst snd].
  - destruct Hwf as (Hnd & Hok & Hfresh).
    destruct (d_add_sectors qs d psize proven true secs) as [[[d' pw] fee]|] eqn:E;
      cbn [fst ds_tbl ds_dl]; [|apply H0].
    set (tbl' := store_sectors tbl secs).
    assert (Hk' : tbl_keyed tbl') by (apply store_sectors_keyed, Hk).
    assert (Hext : forall n, n ∈ allsecs (parts d) -> tbl' !! n = tbl !! n).
    { intros n Hn. apply store_sectors_lookup_ne. intros Hn'. apply (Hfresh n Hn' Hn). }
    assert (HD' : DeadlineInv qs tbl' d) by (apply (DeadlineInv_tbl_ext qs tbl tbl'); assumption).
    assert (Hft : from_tbl tbl' secs) by (intros s Hs; apply store_sectors_lookup; assumption).
    pose proof HD' as HD0. apply dinv_off_zero in HD0 as [HO HE].
    destruct (d_add_sectors_off qs tbl' d psize proven true secs d' pw fee 0 pp0 pp0 0 Hu Hk' Hps HO HE
                Hnd Hft Hok Hfresh E) as (HO' & HE' & _ & _ & Hc).
    assert (HD2 : DeadlineInv qs tbl' d') by (apply dinv_off_zero; auto).
    rewrite (dl_validate_redundant _ _ _ HD2). cbn [fst ds_tbl ds_dl with_dl].
    unfold dcredited. rewrite Hc, (psum_credited_ext tbl tbl' (parts d) Hext). reflexivity.
  - destruct (d_record_proven_sectors qs tbl d fe posts) as [[d' r]|] eqn:E;
      cbn [fst ds_tbl ds_dl]; [|apply H0].
    rewrite (dl_validate_redundant _ _ _ (d_record_proven_sectors_inv _ _ _ _ _ _ _ HD E)).
    cbn [fst ds_tbl ds_dl with_dl]. apply (d_record_proven_credited _ _ _ _ _ _ _ HA E).
  - destruct (d_process_deadline_end qs d fe) as [[[d' dl] pen]|] eqn:E;
      cbn [fst ds_tbl ds_dl]; [|apply H0].
    rewrite (dl_validate_redundant _ _ _ (d_process_deadline_end_inv _ tbl _ _ _ _ _ HD E)).
    cbn [fst ds_tbl ds_dl with_dl]. apply (d_process_deadline_end_credited _ _ _ _ _ _ _ HA E).
  - destruct (d_pop_expired_sectors d until) as [[d' agg]|] eqn:E;
      cbn [fst ds_tbl ds_dl]; [|apply H0].
    rewrite (dl_validate_redundant _ _ _ (d_pop_expired_sectors_inv qs tbl _ _ _ _ HD E)).
    cbn [fst ds_tbl ds_dl with_dl]. apply (d_pop_expired_credited qs _ _ _ _ _ HA E).
  - destruct (d_terminate_sectors qs tbl d epoch psm) as [[d' lost]|] eqn:E;
      cbn [fst ds_tbl ds_dl]; [|apply H0].
    rewrite (dl_validate_redundant _ _ _ (d_terminate_sectors_inv _ _ _ _ _ _ _ HD E)).
    cbn [fst ds_tbl ds_dl with_dl]. apply (d_terminate_sectors_credited _ _ _ _ _ _ _ HA E).
  - destruct (d_record_faults qs tbl d fe psm) as [[d' delta]|] eqn:E;
      cbn [fst ds_tbl ds_dl]; [|apply H0].
    rewrite (dl_validate_redundant _ _ _ (d_record_faults_inv _ _ _ _ _ _ _ HD E)).
    cbn [fst ds_tbl ds_dl with_dl]. apply (d_record_faults_credited _ _ _ _ _ _ _ HA E).
  - destruct (d_declare_faults_recovered tbl d psm) as [d'|] eqn:E;
      cbn [fst ds_tbl ds_dl]; [|apply H0].
    destruct (d_declare_faults_recovered_inv qs tbl d psm d' HD E) as [HD' _].
    rewrite (dl_validate_redundant _ _ _ HD'). cbn [fst ds_tbl ds_dl with_dl].
    rewrite <- H0. apply (d_declare_credited qs _ _ _ _ HA E).
  - destruct (d_compact_partitions qs tbl d psize tr) as [[d' dead]|] eqn:E;
      cbn [fst ds_tbl ds_dl]; [|apply H0].
    destruct (d_compact_partitions_inv qs tbl d psize tr d' dead Hu Hk Hps HD E) as (HD' & _ & Hc).
    rewrite (dl_validate_redundant _ _ _ HD'). cbn [fst ds_tbl ds_dl with_dl].
    rewrite <- H0. exact Hc.
  - destruct (d_pop_early_terminations d mp ms) as [[[[[d' res] np] ns] more]|] eqn:E;
      cbn [fst ds_tbl ds_dl]; [|apply H0].
    rewrite (dl_validate_redundant _ _ _ (d_pop_early_terminations_inv qs tbl _ _ _ _ _ _ _ _ HD E)).
    cbn [fst ds_tbl ds_dl with_dl]. rewrite <- H0. apply (d_pop_early_credited qs _ _ _ _ _ _ _ _ _ HA E).
  - destruct (allocate_sector_numbers alloc (lset nums) allow); cbn [fst ds_tbl ds_dl]; apply H0.
  - destruct (assign_deadlines _ _ _ _); cbn [fst ds_tbl ds_dl]; apply H0.
Qed.

Theorem dcredited_is_sum_of_deltas unit off psize ops :
  0 < unit -> 0 < psize -> dall_wf (dinit unit off psize) ops ->
  ds_credited (drun (dinit unit off psize) ops) = dsum_deltas (dinit unit off psize) ops.
Proof.
  intros Hu Hp.
  assert (H : forall st, DsInv st -> dall_wf st ops ->
              ds_credited (drun st ops) = pp_add (ds_credited st) (dsum_deltas st ops)).
  { induction ops as [|o r IH]; intros st HS Hwf; cbn [drun fold_left dsum_deltas].
    - apply pp_eq; cbn; lia.
    - destruct Hwf as [H1 H2]. fold (drun (dnext st o) r).
      rewrite IH by (try apply dsinv_step; assumption).
      rewrite (ddelta_is_difference st o HS H1). apply pp_eq; cbn; lia. }
  intros Hwf. rewrite (H _ (dsinv_init unit off psize Hu Hp) Hwf).
  unfold ds_credited, dcredited, dinit; cbn. apply pp_eq; cbn; lia.
Qed.
