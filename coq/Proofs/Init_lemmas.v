(* Proofs about coq/Model/Init.v: the init actor's address map and id counter, the VM-side actor
   table, and the `ext` pre-order ("the world only grows in the permitted ways") that every
   world-transforming function of Init.v / Eam.v is shown to respect. *)
From stdpp Require Import gmap.
From Coq Require Import ZArith NArith List Bool Lia.
From VF Require Import Gen.Consts Gen.Identity Base.Corr Model.Init.
Import ListNotations.
Open Scope Z_scope.

(* ---------------------------------------------------------------------------------------------- *)
(* codes *)
Lemma code_eqb_eq a b : code_eqb a b = true <-> a = b.
Proof. destruct a, b; vm_compute; split; intro H; try reflexivity; discriminate H. Qed.

Lemma is_placeholder_eq c : is_placeholder c = true <-> c = C_Placeholder.
Proof. apply code_eqb_eq. Qed.

Lemma can_exec_spec caller c :
  can_exec caller c = true <-> (c = C_Multisig \/ c = C_Paych \/ (c = C_Miner /\ caller = C_Power)).
Proof.
  split.
  - destruct c; destruct caller; vm_compute; intro H; try discriminate H; auto.
  - intros [-> | [-> | [-> ->]]]; try (destruct caller); reflexivity.
Qed.

(* ---------------------------------------------------------------------------------------------- *)
(* the per-actor and per-world transition relations *)
Definition code_step (c c' : code) : Prop := c' = c \/ (c = C_Placeholder /\ creatable c' = true).

Definition cur_of (mc : mctx) : N * Z := (m_origin mc, m_seq mc).
Definition dead_for (mc : mctx) (e : evm_st) : Prop := exists t, e_tomb e = Some t /\ t <> cur_of mc.
(* the same incarnation continues: the nonce only grows, the tombstone is kept or set by this message *)
Definition evm_cont (mc : mctx) (e e' : evm_st) : Prop :=
  e_nonce e <= e_nonce e' /\ (e_tomb e' = e_tomb e \/ e_tomb e' = Some (cur_of mc)).
Definition evm_ok (mc : mctx) (e e' : evm_st) : Prop := evm_cont mc e e' \/ dead_for mc e.
Definition evm_rel (mc : mctx) (o o' : option evm_st) : Prop :=
  match o, o' with
  | None, _ => True
  | Some e, Some e' => evm_ok mc e e'
  | Some _, None => False
  end.
Definition trans_ok (mc : mctx) (a a' : actor) : Prop :=
  code_step (a_code a) (a_code a') /\ a_deleg a' = a_deleg a /\ evm_rel mc (a_evm a) (a_evm a').

Definition wf (w : world) : Prop :=
  (forall a i, amap w !! a = Some i -> (i < next_id w)%N) /\
  (forall i a, actors w !! i = Some a -> (i < next_id w)%N).

Record ext (mc : mctx) (w w' : world) : Prop := {
  ext_amap : amap w ⊆ amap w';
  ext_next : (next_id w <= next_id w')%N;
  ext_old : forall i a, actors w !! i = Some a -> exists a', actors w' !! i = Some a' /\ trans_ok mc a a';
  ext_new : forall i a', actors w !! i = None -> actors w' !! i = Some a' ->
            (next_id w <= i)%N /\ creatable (a_code a') = true;
  ext_wf : wf w -> wf w';
}.

Lemma code_step_refl c : code_step c c.
Proof. left; reflexivity. Qed.
Lemma code_step_trans a b c : code_step a b -> code_step b c -> code_step a c.
Proof.
  intros [-> | [-> Hb]] [-> | [Hc Hcc]]; try (left; reflexivity).
  - right; auto.
  - right; auto.
  - right; auto.
Qed.
Lemma code_step_creatable a b : creatable a = true -> code_step a b -> creatable b = true.
Proof. intros Ha [-> | [_ Hb]]; auto. Qed.

Lemma evm_cont_refl mc e : evm_cont mc e e.
Proof. split; [lia | left; reflexivity]. Qed.
Lemma evm_ok_refl mc e : evm_ok mc e e.
Proof. left; apply evm_cont_refl. Qed.
Lemma evm_ok_trans mc a b c : evm_ok mc a b -> evm_ok mc b c -> evm_ok mc a c.
Proof.
  intros [[Hn1 Ht1] | Hd] H2; [| right; exact Hd].
  destruct H2 as [[Hn2 Ht2] | [t [Ht Hne]]].
  - left. split; [lia |].
    destruct Ht2 as [-> | ->]; [exact Ht1 | right; reflexivity].
  - destruct Ht1 as [Ht1 | Ht1].
    + right. exists t. rewrite <- Ht1. auto.
    + rewrite Ht1 in Ht. inversion Ht; subst. contradiction.
Qed.
Lemma evm_rel_refl mc o : evm_rel mc o o.
Proof. destruct o; simpl; auto using evm_ok_refl. Qed.
Lemma evm_rel_trans mc a b c : evm_rel mc a b -> evm_rel mc b c -> evm_rel mc a c.
Proof.
  destruct a, b, c; simpl; auto; try contradiction.
  apply evm_ok_trans.
Qed.
Lemma trans_ok_refl mc a : trans_ok mc a a.
Proof. repeat split; auto using code_step_refl, evm_rel_refl. Qed.
Lemma trans_ok_trans mc a b c : trans_ok mc a b -> trans_ok mc b c -> trans_ok mc a c.
Proof.
  intros (H1 & H2 & H3) (H4 & H5 & H6). repeat split.
  - eapply code_step_trans; eauto.
  - congruence.
  - eapply evm_rel_trans; eauto.
Qed.

Lemma ext_refl mc w : ext mc w w.
Proof.
  constructor.
  - reflexivity.
  - lia.
  - intros i a H. exists a. split; auto using trans_ok_refl.
  - intros i a' H1 H2. congruence.
  - auto.
Qed.

Lemma ext_trans mc w1 w2 w3 : ext mc w1 w2 -> ext mc w2 w3 -> ext mc w1 w3.
Proof.
  intros A B. constructor.
  - etrans; [apply A | apply B].
  - pose proof (ext_next _ _ _ A). pose proof (ext_next _ _ _ B). lia.
  - intros i a H. destruct (ext_old _ _ _ A i a H) as (a2 & H2 & T2).
    destruct (ext_old _ _ _ B i a2 H2) as (a3 & H3 & T3).
    exists a3. split; auto. eapply trans_ok_trans; eauto.
  - intros i a3 Hn H3. destruct (actors w2 !! i) as [a2|] eqn:E2.
    + destruct (ext_new _ _ _ A i a2 Hn E2) as [Hle Hc]. split; auto.
      destruct (ext_old _ _ _ B i a2 E2) as (a3' & H3' & (Hcs & _)).
      rewrite H3 in H3'. inversion H3'; subst. eapply code_step_creatable; eauto.
    + destruct (ext_new _ _ _ B i a3 E2 H3) as [Hle Hc]. split; auto.
      pose proof (ext_next _ _ _ A). lia.
  - intro H. apply (ext_wf _ _ _ B). apply (ext_wf _ _ _ A). exact H.
Qed.

(* ---------------------------------------------------------------------------------------------- *)
(* set_actor as an extension *)
Global Arguments set_actor : simpl never.
Lemma amap_set_actor w i a : amap (set_actor w i a) = amap w.
Proof. reflexivity. Qed.
Lemma next_id_set_actor w i a : next_id (set_actor w i a) = next_id w.
Proof. reflexivity. Qed.
Lemma set_actor_lookup w i a j :
  actors (set_actor w i a) !! j = if decide (i = j) then Some a else actors w !! j.
Proof. unfold set_actor; simpl. destruct (decide (i = j)); subst; [apply lookup_insert | apply lookup_insert_ne; auto]. Qed.

(* replacing an existing actor by one that is an allowed successor *)
Lemma set_actor_ext_old mc w i a a' :
  actors w !! i = Some a -> trans_ok mc a a' -> ext mc w (set_actor w i a').
Proof.
  intros Hi T. constructor.
  - reflexivity.
  - rewrite next_id_set_actor. lia.
  - intros j b Hj. rewrite set_actor_lookup. destruct (decide (i = j)); subst.
    + rewrite Hi in Hj. inversion Hj; subst. eauto.
    + exists b. auto using trans_ok_refl.
  - intros j b Hn. rewrite set_actor_lookup. destruct (decide (i = j)); subst; congruence.
  - intros [W1 W2]. split.
    + exact W1.
    + intros j b. rewrite next_id_set_actor, (set_actor_lookup w i a' j). destruct (decide (i = j)); subst; eauto.
Qed.

(* ---------------------------------------------------------------------------------------------- *)
(* map_addresses_to_id *)
Lemma map_addresses_to_id_spec w robust deleg w1 id existing :
  map_addresses_to_id w robust deleg = Ok (w1, id, existing) ->
  actors w1 = actors w /\ amap w ⊆ amap w1 /\ amap w1 !! robust = Some id /\
  (existing = false -> id = next_id w /\ next_id w1 = (next_id w + 1)%N /\ amap w !! robust = None /\
      (forall d, deleg = Some d -> amap w !! d = None /\ amap w1 !! d = Some id)) /\
  (existing = true -> next_id w1 = next_id w /\ exists d, deleg = Some d /\ amap w !! d = Some id) /\
  (forall a i, amap w1 !! a = Some i -> amap w !! a = Some i \/ i = id).
Proof.
  unfold map_addresses_to_id. intro H.
  destruct deleg as [d|].
  - destruct (amap w !! d) as [i|] eqn:Ed.
    + destruct (amap w !! robust) eqn:Er; [discriminate|]. inversion H; subst; simpl.
      split; [reflexivity|]. split; [apply insert_subseteq; auto|].
      split; [apply lookup_insert|]. split; [discriminate|].
      split; [intros _; split; eauto|].
      intros a j. destruct (decide (robust = a)); subst.
      * rewrite lookup_insert. intro X; inversion X; auto.
      * rewrite lookup_insert_ne; auto.
    + destruct (<[d:=next_id w]> (amap w) !! robust) eqn:Er; [discriminate|]. inversion H; subst; simpl.
      assert (d <> robust) by (intro; subst; rewrite lookup_insert in Er; discriminate).
      assert (amap w !! robust = None) by (rewrite lookup_insert_ne in Er; auto).
      split; [reflexivity|]. split.
      { etrans; [apply (insert_subseteq _ d (next_id w)); auto|]. apply insert_subseteq; auto. }
      split; [apply lookup_insert|]. split.
      { intros _. split; [reflexivity|]. split; [reflexivity|]. split; [assumption|].
        intros d' X; inversion X; subst. split; [assumption|].
        rewrite lookup_insert_ne by auto. apply lookup_insert. }
      split; [discriminate|].
      intros a j. destruct (decide (robust = a)); subst.
      * rewrite lookup_insert. intro X; inversion X; auto.
      * rewrite lookup_insert_ne; auto. destruct (decide (d = a)); subst.
        -- rewrite lookup_insert. intro X; inversion X; auto.
        -- rewrite lookup_insert_ne; auto.
  - destruct (amap w !! robust) eqn:Er; [discriminate|]. inversion H; subst; simpl.
    split; [reflexivity|]. split; [apply insert_subseteq; auto|].
    split; [apply lookup_insert|]. split.
    { intros _. split; [reflexivity|]. split; [reflexivity|]. split; [reflexivity|]. intros d X; discriminate. }
    split; [discriminate|].
    intros a j. destruct (decide (robust = a)); subst.
    + rewrite lookup_insert. intro X; inversion X; auto.
    + rewrite lookup_insert_ne; auto.
Qed.

(* ---------------------------------------------------------------------------------------------- *)
(* vm_create_actor *)
Lemma vm_create_actor_spec w c id d w' :
  vm_create_actor w c id d = Ok w' ->
  creatable c = true /\ amap w' = amap w /\ next_id w' = next_id w /\
  ((actors w !! id = None /\ w' = set_actor w id {| a_code := c; a_deleg := d; a_evm := None |}) \/
   (exists a, actors w !! id = Some a /\ a_code a = C_Placeholder /\
      w' = set_actor w id {| a_code := c; a_deleg := a_deleg a; a_evm := a_evm a |})).
Proof.
  unfold vm_create_actor. destruct (creatable c) eqn:Ec; simpl; [|discriminate].
  destruct (actors w !! id) as [a|] eqn:Ea.
  - destruct (is_placeholder (a_code a)) eqn:Ep; [|discriminate].
    intro H; inversion H; subst. apply is_placeholder_eq in Ep. repeat split; auto. right; eauto.
  - intro H; inversion H; subst. repeat split; auto.
Qed.

(* only placeholders and absent ids can be created over *)
Lemma vm_create_actor_no_overwrite w c id d w' :
  vm_create_actor w c id d = Ok w' ->
  actors w !! id = None \/ exists a, actors w !! id = Some a /\ a_code a = C_Placeholder.
Proof.
  intro H. apply vm_create_actor_spec in H. destruct H as (_ & _ & _ & [[H _] | (a & H & Hp & _)]); eauto.
Qed.

(* allocation followed by creation, as one extension of the world *)
Lemma alloc_create_ext mc w robust deleg w1 id existing c d w2 :
  map_addresses_to_id w robust deleg = Ok (w1, id, existing) ->
  (existing = true -> actors w !! id <> None) ->
  vm_create_actor w1 c id d = Ok w2 ->
  ext mc w w2.
Proof.
  intros HM Hex HC.
  apply map_addresses_to_id_spec in HM. destruct HM as (Hact & Hsub & Hrob & Hnew & Hold & Hinv).
  apply vm_create_actor_spec in HC. destruct HC as (Hcr & Ham & Hnid & Hcase).
  assert (Hle : (next_id w <= next_id w2)%N).
  { rewrite Hnid. destruct existing; [destruct Hold as [-> _]; auto; lia | destruct Hnew as (_ & -> & _); auto; lia]. }
  assert (Hwf : wf w -> wf w2).
  { intros W. pose proof W as [W1 W2].
    assert (Hidlt : (id < next_id w2)%N).
    { rewrite Hnid. destruct existing.
      - destruct Hold as [-> (d' & _ & Hd)]; auto. eapply W1; eauto.
      - destruct Hnew as (-> & -> & _); auto. lia. }
    split.
    - intros a i. rewrite Ham. intro Hi. destruct (Hinv a i Hi) as [Hi' | ->]; auto.
      apply W1 in Hi'. lia.
    - intros i a Hi. destruct Hcase as [[_ ->] | (a0 & _ & _ & ->)]; rewrite set_actor_lookup in Hi;
        (destruct (decide (id = i)); subst; [auto | rewrite Hact in Hi; apply W2 in Hi; lia]). }
  destruct Hcase as [[Hnone ->] | (a0 & Ha0 & Hp & ->)].
  - constructor; [| exact Hle | | | exact Hwf].
    + exact Hsub.
    + intros i a Hi. rewrite set_actor_lookup. destruct (decide (id = i)); subst.
      * rewrite Hact in Hnone. congruence.
      * rewrite Hact. exists a. auto using trans_ok_refl.
    + intros i a' Hn. rewrite set_actor_lookup. destruct (decide (id = i)); subst.
      * intro X; inversion X; subst; simpl. split; auto.
        destruct existing.
        -- exfalso. apply Hex; auto.
        -- destruct (Hnew eq_refl) as (-> & _). lia.
      * rewrite Hact. congruence.
  - constructor; [| exact Hle | | | exact Hwf].
    + exact Hsub.
    + intros i a Hi. rewrite set_actor_lookup. destruct (decide (id = i)); subst.
      * rewrite Hact in Ha0. rewrite Hi in Ha0. inversion Ha0; subst.
        eexists; split; eauto. repeat split; simpl; auto using evm_rel_refl.
        right; auto.
      * rewrite Hact. exists a. auto using trans_ok_refl.
    + intros i a' Hn. rewrite set_actor_lookup. destruct (decide (id = i)); subst.
      * rewrite Hact in Ha0. congruence.
      * rewrite Hact. congruence.
Qed.

(* ---------------------------------------------------------------------------------------------- *)
(* constructors, auto-creation, Exec, Exec4 *)
Definition ctor_ext (mc : mctx) (ctor : ctor_t) : Prop :=
  forall id w nc nc' w', ctor id w nc = (nc', Ok w') -> ext mc w w'.

Lemma oracle_ctor_ext mc z : ctor_ext mc (oracle_ctor z).
Proof.
  intros id w nc nc' w'. unfold oracle_ctor. destruct (z =? 0); intro H; inversion H; subst.
  apply ext_refl.
Qed.

Lemma oracle_ctor_ok z id w nc nc' w' : oracle_ctor z id w nc = (nc', Ok w') -> z = 0 /\ w' = w /\ nc' = nc.
Proof.
  unfold oracle_ctor. destruct (z =? 0) eqn:E; intro H; inversion H; subst.
  apply Z.eqb_eq in E. auto.
Qed.

Lemma wf_no_actor_at_next w : wf w -> actors w !! next_id w = None.
Proof.
  intros [_ W2]. destruct (actors w !! next_id w) eqn:E; auto. apply W2 in E. lia.
Qed.

(* the part of resolve_target that decides what to auto-create *)
Definition auto_kind (w : world) (a : addr) : option bool :=
  match a with
  | 1 :: _ | 3 :: _ => Some true
  | 4 :: _ => match deleg_ns a with
              | Some ns => match actors w !! ns with Some _ => Some false | None => None end
              | None => None
              end
  | _ => None
  end.

Lemma resolve_target_unfold w nc d :
  resolve_target w nc d =
  match (match resolve w d with
         | Some i => match actors w !! i with Some _ => Some i | None => None end
         | None => None end) with
  | Some i => (nc, Ok (w, i))
  | None =>
      match d with
      | D_id _ => (nc, Err SYS_INVALID_RECEIVER)
      | D_addr a =>
          match auto_kind w a with
          | None => (nc, Err SYS_INVALID_RECEIVER)
          | Some is_account =>
              match map_addresses_to_id w a None with
              | Err e => (nc, Err e)
              | Ok (w1, id, _) =>
                  match (if is_account then vm_create_actor w1 C_Account id None
                         else vm_create_actor w1 C_Placeholder id (Some a)) with
                  | Err e => (nc, Err e)
                  | Ok w2 => (bump nc, Ok (w2, id))
                  end
              end
          end
      end
  end.
Proof. reflexivity. Qed.

(* plain sends: an existing target is left alone, a missing one is created *)
Lemma resolve_target_ext mc w nc d nc' w' i :
  resolve_target w nc d = (nc', Ok (w', i)) -> ext mc w w'.
Proof.
  rewrite resolve_target_unfold.
  destruct (match resolve w d with
            | Some i0 => match actors w !! i0 with Some _ => Some i0 | None => None end
            | None => None end) as [i0|] eqn:Ef.
  - intro H; inversion H; subst. apply ext_refl.
  - destruct d as [j | a]; [intro H; inversion H|].
    destruct (auto_kind w a) as [is_account|]; [|intro H; inversion H].
    destruct (map_addresses_to_id w a None) as [[[w1 id] ex]|] eqn:EM; [|intro H; inversion H].
    assert (ex = false).
    { apply map_addresses_to_id_spec in EM. destruct EM as (_ & _ & _ & _ & Hold & _).
      destruct ex; auto. destruct (Hold eq_refl) as (_ & d0 & X & _). discriminate. }
    subst ex.
    destruct is_account.
    + destruct (vm_create_actor w1 C_Account id None) as [w2|] eqn:EC; intro H; inversion H; subst.
      eapply alloc_create_ext; eauto; discriminate.
    + destruct (vm_create_actor w1 C_Placeholder id (Some a)) as [w2|] eqn:EC; intro H; inversion H; subst.
      eapply alloc_create_ext; eauto; discriminate.
Qed.

(* ... at the fresh id next_id, which is then consumed *)
Lemma resolve_target_fresh w nc d nc' w' i :
  wf w ->
  resolve_target w nc d = (nc', Ok (w', i)) ->
  (w' = w /\ actors w !! i <> None) \/
  (i = next_id w /\ next_id w' = (next_id w + 1)%N /\ actors w !! i = None /\
   exists a, d = D_addr a /\ amap w !! a = None /\ amap w' !! a = Some i /\
     (actors w' !! i = Some {| a_code := C_Account; a_deleg := None; a_evm := None |} \/
      actors w' !! i = Some {| a_code := C_Placeholder; a_deleg := Some a; a_evm := None |})).
Proof.
  intro W. rewrite resolve_target_unfold.
  destruct (match resolve w d with
            | Some i0 => match actors w !! i0 with Some _ => Some i0 | None => None end
            | None => None end) as [i0|] eqn:Ef.
  - intro H; inversion H as [[E1 E2 E3]]; subst w' nc' i. left. split; auto.
    destruct (resolve w d) as [j|]; [|discriminate].
    destruct (actors w !! j) eqn:Ej; inversion Ef; subst. congruence.
  - destruct d as [j | a]; [intro H; inversion H|].
    destruct (auto_kind w a) as [is_account|]; [|intro H; inversion H].
    destruct (map_addresses_to_id w a None) as [[[w1 id] ex]|] eqn:EM; [|intro H; inversion H].
    apply map_addresses_to_id_spec in EM. destruct EM as (Hact & Hsub & Hrob & Hnew & Hold & Hinv).
    assert (ex = false).
    { destruct ex; auto. destruct (Hold eq_refl) as (_ & d0 & X & _). discriminate. }
    subst ex. destruct (Hnew eq_refl) as (-> & Hnid & Hnone & _).
    pose proof (wf_no_actor_at_next w W) as Hfree.
    intro H. right.
    destruct is_account.
    + destruct (vm_create_actor w1 C_Account (next_id w) None) as [w2|] eqn:EC; inversion H; subst.
      apply vm_create_actor_spec in EC.
      destruct EC as (_ & Ham & Hn2 & [[Hn ->] | (a0 & Ha0 & _)]); [|rewrite Hact in Ha0; congruence].
      split; [reflexivity|]. split; [rewrite next_id_set_actor; exact Hnid|]. split; [exact Hfree|].
      exists a. split; [reflexivity|]. split; [exact Hnone|]. split; [rewrite amap_set_actor; exact Hrob|].
      left. rewrite set_actor_lookup. destruct (decide (next_id w = next_id w)); congruence.
    + destruct (vm_create_actor w1 C_Placeholder (next_id w) (Some a)) as [w2|] eqn:EC; inversion H; subst.
      apply vm_create_actor_spec in EC.
      destruct EC as (_ & Ham & Hn2 & [[Hn ->] | (a0 & Ha0 & _)]); [|rewrite Hact in Ha0; congruence].
      split; [reflexivity|]. split; [rewrite next_id_set_actor; exact Hnid|]. split; [exact Hfree|].
      exists a. split; [reflexivity|]. split; [exact Hnone|]. split; [rewrite amap_set_actor; exact Hrob|].
      right. rewrite set_actor_lookup. destruct (decide (next_id w = next_id w)); congruence.
Qed.

(* ---------------------------------------------------------------------------------------------- *)
(* Init.Exec *)
Lemma init_exec_ok mc ctor w nc caller c nc' w' id r :
  init_exec ctor mc w nc caller c = (nc', Ok (w', (id, r))) ->
  exists ca w1 w2,
    actors w !! caller = Some ca /\ can_exec (a_code ca) c = true /\
    r = m_robust mc (n_cnt nc) /\
    map_addresses_to_id w r None = Ok (w1, id, false) /\
    vm_create_actor w1 c id None = Ok w2 /\
    ctor id w2 (bump nc) = (nc', Ok w').
Proof.
  unfold init_exec, EXEC_GUARDED_BY_CAN_EXEC.
  destruct (actors w !! caller) as [ca|] eqn:Eca; [|intro H; inversion H].
  cbn [andb]. destruct (can_exec (a_code ca) c) eqn:Ecan; cbn [negb]; [|intro H; inversion H].
  destruct (map_addresses_to_id w (m_robust mc (n_cnt nc)) None) as [[[w1 i] ex]|] eqn:EM; [|intro H; inversion H].
  destruct ex; [intro H; inversion H|].
  destruct (vm_create_actor w1 c i None) as [w2|] eqn:EC; [|intro H; inversion H].
  destruct (ctor i w2 (bump nc)) as [nc3 [w3|e]] eqn:Ect; intro H; inversion H; subst.
  exists ca, w1, w2. repeat split; auto.
Qed.

Lemma init_exec_ext mc ctor w nc caller c nc' w' id r :
  ctor_ext mc ctor ->
  init_exec ctor mc w nc caller c = (nc', Ok (w', (id, r))) -> ext mc w w'.
Proof.
  intros Hc H. apply init_exec_ok in H.
  destruct H as (ca & w1 & w2 & _ & _ & _ & HM & HC & Hct).
  eapply ext_trans; [eapply alloc_create_ext; eauto; discriminate | eapply Hc; eauto].
Qed.

(* the id handed out is the old next_id, which is consumed; the robust address maps to it *)
Lemma init_exec_fresh mc ctor w nc caller c nc' w' id r :
  ctor_ext mc ctor ->
  init_exec ctor mc w nc caller c = (nc', Ok (w', (id, r))) ->
  id = next_id w /\ (next_id w < next_id w')%N /\ amap w !! r = None /\ amap w' !! r = Some id /\
  exists a', actors w' !! id = Some a' /\ (wf w -> actors w !! id = None).
Proof.
  intros Hc H. apply init_exec_ok in H.
  destruct H as (ca & w1 & w2 & _ & _ & _ & HM & HC & Hct).
  pose proof (Hc _ _ _ _ _ Hct) as E.
  apply map_addresses_to_id_spec in HM. destruct HM as (Hact & Hsub & Hrob & Hnew & _ & _).
  destruct (Hnew eq_refl) as (-> & Hnid & Hnone & _).
  apply vm_create_actor_spec in HC. destruct HC as (_ & Ham & Hn2 & Hcase).
  split; [reflexivity|]. split; [pose proof (ext_next _ _ _ E); lia|]. split; [exact Hnone|].
  split.
  { eapply lookup_weaken; [|apply (ext_amap _ _ _ E)]. rewrite Ham. exact Hrob. }
  assert (exists a2, actors w2 !! next_id w = Some a2) as [a2 Ha2].
  { destruct Hcase as [[_ ->] | (a0 & _ & _ & ->)]; rewrite set_actor_lookup;
      destruct (decide (next_id w = next_id w)); try congruence; eauto. }
  destruct (ext_old _ _ _ E _ _ Ha2) as (a' & Ha' & _).
  exists a'. split; auto. apply wf_no_actor_at_next.
Qed.

Lemma can_exec_creatable caller c : can_exec caller c = true -> creatable c = true.
Proof. intro H. apply can_exec_spec in H. destruct H as [-> | [-> | [-> _]]]; reflexivity. Qed.

(* ... and Exec succeeds whenever the matrix allows it, the robust address is unused and the
   constructor succeeds *)
Lemma init_exec_accepts mc w nc caller c ca :
  wf w ->
  actors w !! caller = Some ca ->
  can_exec (a_code ca) c = true ->
  amap w !! m_robust mc (n_cnt nc) = None ->
  exists w', init_exec (oracle_ctor 0) mc w nc caller c =
             (bump nc, Ok (w', (next_id w, m_robust mc (n_cnt nc)))).
Proof.
  intros W Hca Hcan Hrob. unfold init_exec, EXEC_GUARDED_BY_CAN_EXEC. rewrite Hca. cbn [andb]. rewrite Hcan. cbn [negb].
  unfold map_addresses_to_id. rewrite Hrob.
  unfold vm_create_actor. rewrite (can_exec_creatable _ _ Hcan). cbn [negb actors].
  rewrite (wf_no_actor_at_next w W). unfold oracle_ctor. cbn [Z.eqb]. eauto.
Qed.

(* ---------------------------------------------------------------------------------------------- *)
(* Init.Exec4 *)
Lemma init_exec4_ok mc ctor w nc caller sub c nc' w' id r :
  init_exec4 ctor mc w nc caller sub c = (nc', Ok (w', (id, r))) ->
  caller = EAM_ID /\ Z.of_nat (length sub) <= MAX_SUBADDRESS_LEN /\ r = m_robust mc (n_cnt nc) /\
  exists w1 existing w2,
    map_addresses_to_id w r (Some (f4 caller sub)) = Ok (w1, id, existing) /\
    (existing = true -> exists a, actors w !! id = Some a /\ a_code a = C_Placeholder) /\
    vm_create_actor w1 c id (Some (f4 caller sub)) = Ok w2 /\
    ctor id w2 (bump nc) = (nc', Ok w').
Proof.
  unfold init_exec4, EXEC4_CALLER_IS_EAM. cbn [andb].
  destruct (caller =? EAM_ID)%N eqn:Ecaller; cbn [negb]; [|intro H; inversion H].
  destruct (MAX_SUBADDRESS_LEN <? Z.of_nat (length sub)) eqn:Elen; [intro H; inversion H|].
  destruct (map_addresses_to_id w (m_robust mc (n_cnt nc)) (Some (f4 caller sub))) as [[[w1 i] ex]|] eqn:EM;
    [|intro H; inversion H].
  destruct (negb (if ex then match actors w1 !! i with Some a => is_placeholder (a_code a) | None => false end else true)) eqn:Eover;
    [intro H; inversion H|].
  destruct (vm_create_actor w1 c i (Some (f4 caller sub))) as [w2|] eqn:EC; [|intro H; inversion H].
  destruct (ctor i w2 (bump nc)) as [nc3 [w3|e]] eqn:Ect; intro H; inversion H; subst.
  apply N.eqb_eq in Ecaller. apply Z.ltb_ge in Elen.
  split; [exact Ecaller|]. split; [exact Elen|]. split; [reflexivity|].
  exists w1, ex, w2. split; [exact EM|]. split; [|split; [exact EC | exact Ect]].
  intros ->. apply negb_false_iff in Eover.
  pose proof EM as EM'. apply map_addresses_to_id_spec in EM'. destruct EM' as (Hact & _).
  rewrite Hact in Eover. destruct (actors w !! id) as [a|]; [|discriminate].
  exists a. split; auto. apply is_placeholder_eq; auto.
Qed.

Lemma init_exec4_ext mc ctor w nc caller sub c nc' w' id r :
  ctor_ext mc ctor ->
  init_exec4 ctor mc w nc caller sub c = (nc', Ok (w', (id, r))) -> ext mc w w'.
Proof.
  intros Hc H. apply init_exec4_ok in H.
  destruct H as (_ & _ & _ & w1 & ex & w2 & HM & Hex & HC & Hct).
  eapply ext_trans; [eapply alloc_create_ext; eauto | eapply Hc; eauto].
  intros Hx. destruct (Hex Hx) as (a & Ha & _). congruence.
Qed.

(* Exec4 deploys at a fresh id or over a placeholder, nothing else; both addresses map to the id *)
Lemma init_exec4_target mc ctor w nc caller sub c nc' w' id r :
  ctor_ext mc ctor -> wf w ->
  init_exec4 ctor mc w nc caller sub c = (nc', Ok (w', (id, r))) ->
  ((id = next_id w /\ actors w !! id = None /\ amap w !! f4 caller sub = None /\ (next_id w < next_id w')%N) \/
   (exists a, actors w !! id = Some a /\ a_code a = C_Placeholder /\ amap w !! f4 caller sub = Some id)) /\
  amap w !! r = None /\ amap w' !! r = Some id /\ amap w' !! f4 caller sub = Some id.
Proof.
  intros Hc W H. apply init_exec4_ok in H.
  destruct H as (_ & _ & _ & w1 & ex & w2 & HM & Hex & HC & Hct).
  pose proof (Hc _ _ _ _ _ Hct) as E.
  pose proof HM as HM'. apply map_addresses_to_id_spec in HM'.
  destruct HM' as (Hact & Hsub & Hrob & Hnew & Hold & _).
  apply vm_create_actor_spec in HC. destruct HC as (_ & Ham & Hn2 & _).
  assert (Hr0 : amap w !! r = None).
  { unfold map_addresses_to_id in HM. destruct (amap w !! f4 caller sub) eqn:Ed.
    - destruct (amap w !! r) eqn:Er; [discriminate | reflexivity].
    - destruct (<[f4 caller sub:=next_id w]> (amap w) !! r) eqn:Er; [discriminate|].
      destruct (decide (f4 caller sub = r)) as [<-|Hne]; [rewrite lookup_insert in Er; discriminate|].
      rewrite lookup_insert_ne in Er; auto. }
  split.
  - destruct ex.
    + right. destruct (Hex eq_refl) as (a & Ha & Hp). destruct (Hold eq_refl) as (_ & d & Hd & Hd').
      inversion Hd; subst. eauto.
    + left. destruct (Hnew eq_refl) as (-> & Hnid & _ & Hd). destruct (Hd _ eq_refl) as [Hd0 _].
      split; [reflexivity|]. split; [apply wf_no_actor_at_next; auto|]. split; [exact Hd0|].
      pose proof (ext_next _ _ _ E). lia.
  - split; [exact Hr0|]. split.
    + eapply lookup_weaken; [|apply (ext_amap _ _ _ E)]. rewrite Ham. exact Hrob.
    + eapply lookup_weaken; [|apply (ext_amap _ _ _ E)]. rewrite Ham.
      destruct ex.
      * destruct (Hold eq_refl) as (_ & d & Hd & Hd'). inversion Hd; subst.
        eapply lookup_weaken; eauto.
      * destruct (Hnew eq_refl) as (_ & _ & _ & Hd). destruct (Hd _ eq_refl) as [_ Hd1]. exact Hd1.
Qed.

(* a boolean check of well-formedness, for concrete worlds *)
Definition wf_b (w : world) : bool :=
  forallb (fun x => (snd x <? next_id w)%N) (map_to_list (amap w))
  && forallb (fun x => (fst x <? next_id w)%N) (map_to_list (actors w)).

Lemma wf_b_sound w : wf_b w = true -> wf w.
Proof.
  unfold wf_b. rewrite andb_true_iff, !forallb_forall. intros [H1 H2]. split.
  - intros a i Hi. apply elem_of_map_to_list, elem_of_list_In in Hi. apply H1 in Hi. simpl in Hi. apply N.ltb_lt; auto.
  - intros i a Hi. apply elem_of_map_to_list, elem_of_list_In in Hi. apply H2 in Hi. simpl in Hi. apply N.ltb_lt; auto.
Qed.
