(* Proofs about coq/Model/Multisig.v (property C12).

   LEVELS.  Lemmas named `m_...` are about the single-wallet semantics `wallet_method` (one method
   invocation on one wallet, up to its final send).  Lemmas named `w_...` / the theorems at the end are
   about the re-entrant WORLD semantics (`send fuel`, `step`, `run`), for every fuel and every history;
   they are obtained from the single-wallet lemmas by induction on the call depth (open recursion:
   `vm_send sd` preserves a property as soon as the nested sender `sd` does). *)
From Coq Require Import ZArith NArith List Bool Lia.
From stdpp Require Import gmap.
From VF Require Import Gen.Consts Base.Corr Model.Multisig.
Import ListNotations.
Open Scope Z_scope.

Ltac zb :=
  repeat match goal with
  | H : (_ =? _) = true |- _ => apply Z.eqb_eq in H
  | H : (_ =? _) = false |- _ => apply Z.eqb_neq in H
  | H : (_ <? _) = true |- _ => apply Z.ltb_lt in H
  | H : (_ <? _) = false |- _ => apply Z.ltb_ge in H
  | H : (_ <=? _) = true |- _ => apply Z.leb_le in H
  | H : (_ <=? _) = false |- _ => apply Z.leb_gt in H
  | H : N.eqb _ _ = true |- _ => apply N.eqb_eq in H
  | H : N.eqb _ _ = false |- _ => apply N.eqb_neq in H
  | H : negb _ = true |- _ => apply negb_true_iff in H
  | H : negb _ = false |- _ => apply negb_false_iff in H
  | H : (_ && _) = true |- _ => apply andb_true_iff in H; destruct H
  | H : (_ || _) = false |- _ => apply orb_false_iff in H; destruct H
  end.

(* ------------------------------------------------------------------------------------------ *)
(* lists of addresses *)

Lemma mem_spec a l : mem a l = true <-> a ∈ l.
Proof.
  unfold mem. rewrite existsb_exists. split.
  - intros (x & Hin & He). apply N.eqb_eq in He. subst. apply elem_of_list_In. assumption.
  - intros H. exists a. split; [apply elem_of_list_In; assumption | apply N.eqb_refl].
Qed.

Lemma mem_false a l : mem a l = false <-> a ∉ l.
Proof.
  rewrite <- mem_spec. destruct (mem a l); split; intros H; try reflexivity; try discriminate.
  exfalso. apply H. reflexivity.
Qed.

Lemma remove_addr_elem a l x : x ∈ remove_addr a l <-> x ∈ l /\ x <> a.
Proof.
  unfold remove_addr. rewrite !elem_of_list_In, filter_In, negb_true_iff, N.eqb_neq. reflexivity.
Qed.

Lemma remove_addr_NoDup a l : NoDup l -> NoDup (remove_addr a l).
Proof.
  induction 1 as [|x r Hx Hnd IH]; [constructor|].
  unfold remove_addr. cbn [List.filter]. fold (remove_addr a r).
  destruct (negb (N.eqb x a)); [|assumption].
  apply NoDup_cons. split; [|assumption]. rewrite remove_addr_elem. tauto.
Qed.

Lemma remove_addr_notin a l : a ∉ l -> remove_addr a l = l.
Proof.
  induction l as [|x r IH]; intros H; [reflexivity|].
  cbn. destruct (N.eqb x a) eqn:E.
  - apply N.eqb_eq in E. subst. exfalso. apply H. left.
  - cbn. f_equal. apply IH. intros Hin. apply H. right. assumption.
Qed.

Lemma len_nonneg {A} (l : list A) : 0 <= len l.
Proof. unfold len. lia. Qed.

Lemma len_app1 {A} (l : list A) x : len (l ++ [x]) = len l + 1.
Proof. unfold len. rewrite app_length. cbn [length]. lia. Qed.

Lemma len_nil_iff {A} (l : list A) : len l = 0 <-> l = [].
Proof. unfold len. destruct l; cbn [length]; split; intros; try reflexivity; try discriminate; lia. Qed.

Lemma remove_addr_len_le a l : len (remove_addr a l) <= len l.
Proof.
  unfold len, remove_addr. induction l as [|x r IH]; cbn [List.filter length]; [lia|].
  destruct (N.eqb x a); cbn [negb length]; lia.
Qed.

Lemma remove_addr_len a l : NoDup l -> a ∈ l -> len (remove_addr a l) = len l - 1.
Proof.
  unfold len. induction l as [|x r IH]; intros Hnd Hin.
  - inversion Hin.
  - apply NoDup_cons in Hnd as [Hx Hnd]. cbn [remove_addr List.filter].
    destruct (N.eqb x a) eqn:E.
    + apply N.eqb_eq in E. subst. cbn [negb].
      fold (remove_addr a r). rewrite remove_addr_notin by assumption. cbn [length]. lia.
    + cbn [negb length]. fold (remove_addr a r).
      apply N.eqb_neq in E. apply elem_of_cons in Hin as [->|Hin]; [congruence|].
      specialize (IH Hnd Hin). destruct r; [inversion Hin|]. cbn [length] in *. lia.
Qed.

Lemma NoDup_snoc (l : list N) a : NoDup l -> a ∉ l -> NoDup (l ++ [a]).
Proof.
  intros Hnd Hn. apply NoDup_app. split; [assumption|]. split.
  - intros x Hx Hx'. apply elem_of_list_singleton in Hx'. subst. contradiction.
  - apply NoDup_singleton.
Qed.

Lemma head_elem (l : list N) a : head l = Some a -> a ∈ l.
Proof. destruct l; cbn; intros H; inversion H; subst. left. Qed.

Lemma optN_eqb_eq a b : optN_eqb a b = true <-> a = b.
Proof.
  destruct a, b; cbn; split; intros H; try discriminate; try reflexivity.
  - apply N.eqb_eq in H. congruence.
  - inversion H. apply N.eqb_refl.
Qed.

(* ------------------------------------------------------------------------------------------ *)
(* amount_locked *)

Lemma div_ceil_spec a d : 0 < d -> d * (div_ceil a d - 1) < a <= d * div_ceil a d.
Proof.
  intros Hd. unfold div_ceil.
  pose proof (Z.div_mod (- a) d ltac:(lia)) as Hdm.
  pose proof (Z.mod_pos_bound (- a) d Hd) as Hm.
  lia.
Qed.

Lemma div_ceil_mono a b d : 0 < d -> a <= b -> div_ceil a d <= div_ceil b d.
Proof.
  intros Hd Hab. unfold div_ceil.
  assert ((- b) / d <= (- a) / d) by (apply Z.div_le_mono; lia). lia.
Qed.

Lemma div_ceil_nonneg a d : 0 < d -> 0 <= a -> 0 <= div_ceil a d.
Proof.
  intros Hd Ha. pose proof (div_ceil_spec a d Hd). nia.
Qed.

Lemma div_ceil_exact k d : 0 < d -> div_ceil (k * d) d = k.
Proof.
  intros Hd. unfold div_ceil. replace (- (k * d)) with ((- k) * d) by lia.
  rewrite Z.div_mul by lia. lia.
Qed.

(* the closed form *)
Lemma amount_locked_cases st x :
  (unlock_dur st <= x -> amount_locked st x = 0) /\
  (x < unlock_dur st -> x <= 0 -> amount_locked st x = init_bal st) /\
  (0 < x < unlock_dur st ->
     amount_locked st x = div_ceil (init_bal st * (unlock_dur st - x)) (unlock_dur st)).
Proof.
  unfold amount_locked. repeat split; intros.
  - destruct (unlock_dur st <=? x) eqn:E; zb; [reflexivity|lia].
  - destruct (unlock_dur st <=? x) eqn:E; zb; [lia|].
    destruct (x <=? 0) eqn:E2; zb; [reflexivity|lia].
  - destruct (unlock_dur st <=? x) eqn:E; zb; [lia|].
    destruct (x <=? 0) eqn:E2; zb; [lia|reflexivity].
Qed.

Lemma amount_locked_bounds st x :
  0 <= init_bal st -> 0 <= amount_locked st x <= init_bal st.
Proof.
  intros Hi. unfold amount_locked.
  destruct (unlock_dur st <=? x) eqn:E; zb; [lia|].
  destruct (x <=? 0) eqn:E2; zb; [lia|].
  assert (0 < unlock_dur st) as Hd by lia.
  split.
  - apply div_ceil_nonneg; [assumption|]. nia.
  - rewrite <- (div_ceil_exact (init_bal st) (unlock_dur st)) at 2 by assumption.
    apply div_ceil_mono; [assumption|]. nia.
Qed.

Lemma amount_locked_mono st x y :
  0 <= init_bal st -> x <= y -> amount_locked st y <= amount_locked st x.
Proof.
  intros Hi Hxy.
  pose proof (amount_locked_bounds st x Hi). pose proof (amount_locked_bounds st y Hi).
  unfold amount_locked in *.
  destruct (unlock_dur st <=? y) eqn:Ey; zb; [lia|].
  destruct (unlock_dur st <=? x) eqn:Ex; zb; [lia|].
  destruct (x <=? 0) eqn:Ex0; zb.
  - destruct (y <=? 0) eqn:Ey0; zb; lia.
  - destruct (y <=? 0) eqn:Ey0; zb; [lia|].
    apply div_ceil_mono; [lia|]. nia.
Qed.

(* ------------------------------------------------------------------------------------------ *)
(* single-wallet invariants *)

Definition wallet_wf (st : wallet) : Prop :=
  1 <= threshold st /\ threshold st <= len (signers st) /\ len (signers st) <= SIGNERS_MAX /\
  NoDup (signers st).

Definition txn_ok (st : wallet) (id : Z) (t : txn) : Prop :=
  0 <= id < next_id st /\ t_approved t <> [] /\ NoDup (t_approved t) /\
  t_approved t ⊆ signers st /\ 0 <= t_value t.

Definition pending_ok (st : wallet) : Prop :=
  forall id t, pending st !! id = Some t -> txn_ok st id t.

Definition lock_ok (st : wallet) : Prop := 0 <= init_bal st /\ 0 <= unlock_dur st.

Definition wallet_inv (st : wallet) : Prop :=
  wallet_wf st /\ pending_ok st /\ lock_ok st /\ 0 <= next_id st.

Definition same_body (t t' : txn) : Prop :=
  t_to t = t_to t' /\ t_value t = t_value t' /\ t_payload t = t_payload t'.

(* an id that has been used and is no longer pending (executed, cancelled or purged) *)
Definition dead (st : wallet) (id : Z) : Prop := id < next_id st /\ pending st !! id = None.

Definition config (st : wallet) : list N * Z * (Z * Z * Z) :=
  (signers st, threshold st, (init_bal st, start_epoch st, unlock_dur st)).

(* what a method invocation may do to the wallet's bookkeeping *)
Definition wext (st st' : wallet) : Prop :=
  next_id st <= next_id st' /\
  (forall id t t', pending st !! id = Some t -> pending st' !! id = Some t' -> same_body t t') /\
  (forall id, dead st id -> dead st' id).

Lemma same_body_refl t : same_body t t.
Proof. repeat split. Qed.

Lemma same_body_trans a b c : same_body a b -> same_body b c -> same_body a c.
Proof. intros (?&?&?) (?&?&?). repeat split; congruence. Qed.

Lemma wext_refl st : wext st st.
Proof.
  split; [lia|]. split; [|auto].
  intros id t t' H1 H2. rewrite H1 in H2. inversion H2. apply same_body_refl.
Qed.

Lemma wext_trans a b c : pending_ok a -> wext a b -> wext b c -> wext a c.
Proof.
  intros Hok (Hn1 & Hb1 & Hd1) (Hn2 & Hb2 & Hd2). split; [lia|]. split.
  - intros id t t'' Ha Hc.
    destruct (pending b !! id) as [t'|] eqn:Eb.
    + eapply same_body_trans; eauto.
    + exfalso. assert (dead b id) as Hdb.
      { split; [|assumption]. destruct (Hok id t Ha) as ((_ & Hlt) & _). lia. }
      apply Hd2 in Hdb. destruct Hdb as (_ & Hnone). congruence.
  - intros id Hd. auto.
Qed.

(* ------------------------------------------------------------------------------------------ *)
(* check_available / execute_transaction_if_approved *)

Lemma check_available_none st bal a e :
  check_available st bal a e = None <->
  0 <= a <= bal /\ (0 < a -> amount_locked st (e - start_epoch st) <= bal - a).
Proof.
  unfold check_available.
  destruct (a <? 0) eqn:E1; zb; [split; [discriminate|lia]|].
  destruct (bal <? a) eqn:E2; zb; [split; [discriminate|lia]|].
  destruct (a =? 0) eqn:E3; zb; [split; [intros _; lia|reflexivity]|].
  destruct (bal - a <? amount_locked st (e - start_epoch st)) eqn:E4; zb.
  - split; [discriminate|]. intros (_ & H). specialize (H ltac:(lia)). lia.
  - split; [intros _; lia|reflexivity].
Qed.

Lemma check_available_some st bal a e c : check_available st bal a e = Some c -> c <> 0.
Proof.
  unfold check_available, ILLEGAL_ARGUMENT, INSUFFICIENT_FUNDS.
  repeat match goal with |- context [if ?b then _ else _] => destruct b end;
    intros H; inversion H; lia.
Qed.

Lemma exec_send clone cur bal e id t cur' :
  exec_if_approved clone cur bal e id t = XSend cur' ->
  threshold clone <= len (t_approved t) /\
  0 <= t_value t <= bal /\
  (0 < t_value t -> amount_locked clone (e - start_epoch clone) <= bal - t_value t) /\
  cur' = set_pending cur (delete id (pending cur)).
Proof.
  unfold exec_if_approved.
  destruct (threshold clone <=? len (t_approved t)) eqn:E; [|discriminate]. zb.
  destruct (check_available clone bal (t_value t) e) eqn:Ec; [discriminate|].
  apply check_available_none in Ec. intros H. inversion H. tauto.
Qed.

Lemma exec_fail clone cur bal e id t c :
  exec_if_approved clone cur bal e id t = XFail c -> c <> 0.
Proof.
  unfold exec_if_approved.
  destruct (threshold clone <=? len (t_approved t)); [|discriminate].
  destruct (check_available clone bal (t_value t) e) eqn:Ec; [|discriminate].
  intros H. inversion H. subst. eapply check_available_some; eauto.
Qed.

Lemma exec_not clone cur bal e id t :
  exec_if_approved clone cur bal e id t = XNotApplied -> len (t_approved t) < threshold clone.
Proof.
  unfold exec_if_approved.
  destruct (threshold clone <=? len (t_approved t)) eqn:E; zb; [|lia].
  destruct (check_available clone bal (t_value t) e); discriminate.
Qed.

(* ------------------------------------------------------------------------------------------ *)
(* updating the pending table *)

Lemma inv_set_pending cur p :
  wallet_inv cur -> (forall id t, p !! id = Some t -> txn_ok cur id t) ->
  wallet_inv (set_pending cur p).
Proof.
  intros (Hwf & Hp & Hl & Hn) Hnew. repeat split; try apply Hwf; try apply Hl; try assumption.
  all: destruct (Hnew id t H) as ((?&?)&?&?&?&?); assumption.
Qed.

Lemma wext_delete cur id :
  pending_ok cur -> wext cur (set_pending cur (delete id (pending cur))).
Proof.
  intros Hok. split; [cbn; lia|]. split.
  - intros i t t' H1 H2. cbn in H2. apply lookup_delete_Some in H2 as [_ H2].
    rewrite H1 in H2. inversion H2. apply same_body_refl.
  - intros i (Hlt & Hnone). split; [assumption|]. cbn.
    destruct (decide (id = i)) as [->|Hne]; [apply lookup_delete|].
    rewrite lookup_delete_ne by assumption. assumption.
Qed.

(* ------------------------------------------------------------------------------------------ *)
(* approve_transaction *)

Lemma txn_ok_added cur id t caller :
  0 <= id < next_id cur -> NoDup (t_approved t) -> t_approved t ⊆ signers cur -> 0 <= t_value t ->
  caller ∈ signers cur -> caller ∉ t_approved t ->
  txn_ok cur id (set_approved t (t_approved t ++ [caller])).
Proof.
  intros Hid Hnd Hsub Hv Hc Hn. unfold txn_ok. cbn [set_approved t_approved t_value].
  split; [assumption|]. split; [destruct (t_approved t); discriminate|].
  split; [apply NoDup_snoc; assumption|]. split; [|assumption].
  intros x Hx. apply elem_of_app in Hx as [Hx|Hx]; [auto|].
  apply elem_of_list_singleton in Hx. subst. assumption.
Qed.

Lemma m_approve_transaction cur bal e caller id t k :
  wallet_wf cur -> lock_ok cur ->
  pending cur !! id = Some t ->
  (forall i x, i <> id -> pending cur !! i = Some x -> txn_ok cur i x) ->
  0 <= id < next_id cur -> NoDup (t_approved t) -> t_approved t ⊆ signers cur -> 0 <= t_value t ->
  caller ∈ signers cur ->
  match approve_transaction cur bal e caller id t k with
  | Fail c => c <> 0
  | Done st' r =>
      wallet_inv st' /\ config st' = config cur /\ next_id st' = next_id cur /\
      pending st' = <[ id := set_approved t (t_approved t ++ [caller]) ]> (pending cur) /\
      caller ∉ t_approved t
  | Send st' i t' k' =>
      i = id /\ k' = k /\ t' = set_approved t (t_approved t ++ [caller]) /\ caller ∉ t_approved t /\
      wallet_inv st' /\ config st' = config cur /\ next_id st' = next_id cur /\
      pending st' = delete id (pending cur) /\
      threshold cur <= len (t_approved t') /\ 0 <= t_value t <= bal /\
      (0 < t_value t -> amount_locked cur (e - start_epoch cur) <= bal - t_value t)
  end.
Proof.
  intros Hwf Hl Hin Hothers Hid Hnd Hsub Hv Hc.
  unfold approve_transaction.
  destruct (mem caller (t_approved t)) eqn:Em; [unfold FORBIDDEN; lia|].
  apply mem_false in Em.
  set (t' := set_approved t (t_approved t ++ [caller])).
  set (cur' := set_pending cur (<[ id := t' ]> (pending cur))).
  assert (txn_ok cur id t') as Hok' by (apply txn_ok_added; assumption).
  assert (wallet_inv cur') as Hinv'.
  { split; [exact Hwf|]. split; [|split; [exact Hl|cbn; lia]].
    intros i x Hx. cbn in Hx. destruct (decide (i = id)) as [->|Hne].
    - rewrite lookup_insert in Hx. inversion Hx. subst x. exact Hok'.
    - rewrite lookup_insert_ne in Hx by congruence. exact (Hothers i x Hne Hx). }
  destruct (exec_if_approved cur' cur' bal e id t') as [c| |cur''] eqn:Ex.
  - eapply exec_fail; eauto.
  - split; [exact Hinv'|]. split; [reflexivity|]. split; [reflexivity|]. split; [reflexivity|assumption].
  - apply exec_send in Ex as (Hq & Hval & Hlock & ->).
    assert (delete id (pending cur') = delete id (pending cur)) as Hdel.
    { cbn. apply delete_insert_delete. }
    split; [reflexivity|]. split; [reflexivity|]. split; [reflexivity|]. split; [assumption|].
    split.
    { apply inv_set_pending; [assumption|].
      intros i x Hx. apply lookup_delete_Some in Hx as [Hne Hx].
      destruct Hinv' as (_ & Hp & _). exact (Hp i x Hx). }
    split; [reflexivity|]. split; [reflexivity|]. split; [exact Hdel|].
    split; [exact Hq|]. split; [exact Hval|exact Hlock].
Qed.

(* ------------------------------------------------------------------------------------------ *)
(* purge_approvals *)

Lemma purge_txn_some a t t' :
  purge_txn a t = Some t' ->
  same_body t t' /\ t_approved t' = remove_addr a (t_approved t) /\ t_approved t' <> [] \/
  same_body t t' /\ t_approved t' = remove_addr a (t_approved t) /\ t' = t /\ a ∉ t_approved t.
Proof.
  unfold purge_txn. destruct (mem a (t_approved t)) eqn:Em.
  - destruct (remove_addr a (t_approved t)) as [|x r] eqn:Er; [discriminate|].
    intros H. inversion H. subst t'. left. cbn. repeat split. discriminate.
  - apply mem_false in Em. intros H. inversion H. subst t'. right.
    rewrite remove_addr_notin by assumption. repeat split. assumption.
Qed.

Lemma purge_txn_none a t :
  purge_txn a t = None <-> a ∈ t_approved t /\ remove_addr a (t_approved t) = [].
Proof.
  unfold purge_txn. destruct (mem a (t_approved t)) eqn:Em.
  - apply mem_spec in Em. destruct (remove_addr a (t_approved t)); split; try discriminate; try tauto.
    intros (_ & H). discriminate.
  - apply mem_false in Em. split; [discriminate|tauto].
Qed.

Lemma purge_lookup a (m : gmap Z txn) id :
  omap (purge_txn a) m !! id = match m !! id with Some t => purge_txn a t | None => None end.
Proof. rewrite lookup_omap. destruct (m !! id); reflexivity. Qed.

Lemma purge_txn_ok cur a sg id t t' :
  txn_ok cur id t -> purge_txn a t = Some t' ->
  (forall x, x ∈ signers cur -> x <> a -> x ∈ sg) ->
  0 <= id < next_id cur /\ t_approved t' <> [] /\ NoDup (t_approved t') /\ t_approved t' ⊆ sg /\
  0 <= t_value t' /\ a ∉ t_approved t'.
Proof.
  intros (Hid & Hne & Hnd & Hsub & Hv) Hp Hsg.
  assert (t_approved t' = remove_addr a (t_approved t) /\ t_value t' = t_value t /\ t_approved t' <> [])
    as (Ha & Hval & Hne').
  { apply purge_txn_some in Hp as [((_ & Hv' & _) & Ha & Hn)|((_ & Hv' & _) & Ha & -> & _)]; auto. }
  split; [assumption|]. split; [assumption|]. rewrite Ha.
  split; [apply remove_addr_NoDup; assumption|]. split.
  - intros x Hx. apply remove_addr_elem in Hx as [Hx Hxa]. auto.
  - split; [lia|]. rewrite remove_addr_elem. tauto.
Qed.

Lemma wext_purge cur a sg th :
  wext cur (set_signers (purge_approvals cur a) sg th).
Proof.
  split; [cbn; lia|]. split.
  - intros id t t' H1 H2. cbn in H2. rewrite purge_lookup, H1 in H2.
    apply purge_txn_some in H2. tauto.
  - intros id (Hlt & Hnone). split; [assumption|]. cbn. rewrite purge_lookup, Hnone. reflexivity.
Qed.

Lemma wext_purge' cur a sg th :
  wext cur (purge_approvals (set_signers cur sg th) a).
Proof. exact (wext_purge cur a sg th). Qed.

(* ------------------------------------------------------------------------------------------ *)
(* what is known when a wallet method ends in a send (single-wallet level) *)

Record send_facts (cur st' : wallet) (bal e : Z) (caller : N) (id : Z) (t : txn) : Prop := {
  sf_quorum : threshold st' <= len (t_approved t);
  sf_nodup : NoDup (t_approved t);
  sf_signers : t_approved t ⊆ signers st';
  sf_config : config st' = config cur;
  sf_deleted : pending st' !! id = None;
  sf_id : 0 <= id < next_id st';
  sf_live : ~ dead cur id;
  sf_value : 0 <= t_value t <= bal;
  sf_lock : 0 < t_value t -> amount_locked st' (e - start_epoch st') <= bal - t_value t;
  sf_caller : caller ∈ signers cur;
  sf_origin :
    (exists t0, pending cur !! id = Some t0 /\ same_body t0 t /\
       (t_approved t = t_approved t0 \/
        (t_approved t = t_approved t0 ++ [caller] /\ caller ∉ t_approved t0)))
    \/ (id = next_id cur /\ t_approved t = [caller]);
}.

Definition method_post (cur : wallet) (bal e : Z) (caller : N) (o : outcome) : Prop :=
  match o with
  | Fail c => c <> 0
  | Done st' r => wallet_inv st' /\ wext cur st'
  | Send st' id t k => wallet_inv st' /\ wext cur st' /\ send_facts cur st' bal e caller id t
  end.

Lemma wext_fresh cur st' :
  pending_ok cur -> next_id st' = next_id cur + 1 ->
  (forall i, i <> next_id cur -> pending st' !! i = pending cur !! i) -> wext cur st'.
Proof.
  intros Hok Hn Hlk. split; [lia|]. split.
  - intros i a b Ha Hb. destruct (Hok i a Ha) as ((_ & Hlt) & _).
    rewrite Hlk, Ha in Hb by lia. inversion Hb. apply same_body_refl.
  - intros i (Hlt & Hnone). split; [lia|]. rewrite Hlk by lia. assumption.
Qed.

Lemma wext_same_except cur st' id t :
  pending cur !! id = Some t -> next_id st' = next_id cur ->
  (forall i, i <> id -> pending st' !! i = pending cur !! i) ->
  (forall t', pending st' !! id = Some t' -> same_body t t') -> wext cur st'.
Proof.
  intros Hin Hn Hlk Hb. split; [lia|]. split.
  - intros i a b Ha Hb'. destruct (decide (i = id)) as [->|Hne].
    + rewrite Hin in Ha. inversion Ha. subst a. auto.
    + rewrite Hlk, Ha in Hb' by assumption. inversion Hb'. apply same_body_refl.
  - intros i (Hlt & Hnone). split; [lia|]. destruct (decide (i = id)) as [->|Hne]; [congruence|].
    rewrite Hlk by assumption. assumption.
Qed.

Lemma is_signer_spec st a : is_signer st a = true <-> a ∈ signers st.
Proof. apply mem_spec. Qed.

Lemma m_propose cur bal e caller to v p :
  wallet_inv cur -> method_post cur bal e caller (propose cur bal e caller to v p).
Proof.
  intros (Hwf & Hp & Hl & Hn). unfold propose.
  destruct (v <? 0) eqn:Ev; [cbn; unfold ILLEGAL_ARGUMENT; lia|]. zb.
  destruct (is_signer cur caller) eqn:Es; [|cbn; unfold FORBIDDEN; lia].
  apply is_signer_spec in Es. cbn [negb].
  set (id := next_id cur).
  set (t := {| t_to := to; t_value := v; t_payload := p; t_approved := [] |}).
  set (cur1 := set_pending (set_next_id cur (id + 1)) (<[ id := t ]> (pending cur))).
  pose proof (m_approve_transaction cur1 bal e caller id t (KProp id)) as HA.
  assert (pending cur !! id = None) as Hfresh.
  { destruct (pending cur !! id) as [x|] eqn:Ex; [|reflexivity].
    destruct (Hp id x Ex) as ((_ & Hlt) & _). subst id. lia. }
  lapply HA; [clear HA; intros HA|exact Hwf].
  lapply HA; [clear HA; intros HA|exact Hl].
  lapply HA; [clear HA; intros HA|cbn; apply lookup_insert].
  lapply HA; [clear HA; intros HA|].
  2:{ intros i x Hne Hx. cbn in Hx. rewrite lookup_insert_ne in Hx by congruence.
      destruct (Hp i x Hx) as ((?&?)&?&?&?&?). unfold txn_ok. cbn. repeat split; try assumption; lia. }
  lapply HA; [clear HA; intros HA|cbn; subst id; lia].
  lapply HA; [clear HA; intros HA|cbn; constructor].
  lapply HA; [clear HA; intros HA|cbn; intros x Hx; inversion Hx].
  lapply HA; [clear HA; intros HA|cbn; assumption].
  lapply HA; [clear HA; intros HA|exact Es].
  destruct (approve_transaction cur1 bal e caller id t (KProp id)) as [c|st' r|st' i t' k'].
  - exact HA.
  - destruct HA as (Hinv & Hcfg & Hnx & Hpend & _). split; [assumption|].
    apply wext_fresh; [assumption|rewrite Hnx; reflexivity|].
    intros i Hi. rewrite Hpend. cbn. fold id in Hi. rewrite !lookup_insert_ne by congruence. reflexivity.
  - destruct HA as (-> & -> & -> & _ & Hinv & Hcfg & Hnx & Hpend & Hq & Hval & Hlock).
    split; [assumption|]. split.
    { apply wext_fresh; [assumption|rewrite Hnx; reflexivity|].
      intros i Hi. rewrite Hpend. cbn. fold id in Hi.
      rewrite lookup_delete_ne, lookup_insert_ne by congruence. reflexivity. }
    assert (config st' = config cur) as Hcfg' by (rewrite Hcfg; reflexivity).
    assert (signers st' = signers cur /\ threshold st' = threshold cur /\
            init_bal st' = init_bal cur /\ start_epoch st' = start_epoch cur /\
            unlock_dur st' = unlock_dur cur) as (Hsg & Hth & Hib & Hse & Hud).
    { unfold config in Hcfg'. inversion Hcfg'. auto. }
    constructor; cbn [set_approved t_approved t_value t app].
    + rewrite Hth. exact Hq.
    + apply NoDup_singleton.
    + rewrite Hsg. intros x Hx. apply elem_of_list_singleton in Hx. subst. assumption.
    + assumption.
    + rewrite Hpend. apply lookup_delete.
    + rewrite Hnx. cbn. subst id. lia.
    + intros (Hlt & _). subst id. lia.
    + exact Hval.
    + intros Hpos. specialize (Hlock Hpos). unfold amount_locked in *. rewrite Hib, Hud, Hse. exact Hlock.
    + assumption.
    + right. split; reflexivity.
Qed.

Lemma m_approve cur bal e caller id h :
  wallet_inv cur -> method_post cur bal e caller (approve cur bal e caller id h).
Proof.
  intros Hinv. pose proof Hinv as (Hwf & Hp & Hl & Hn). unfold approve.
  destruct (is_signer cur caller) eqn:Es; [|cbn; unfold FORBIDDEN; lia].
  apply is_signer_spec in Es. cbn [negb].
  destruct (pending cur !! id) as [t|] eqn:Et; [|cbn; unfold NOT_FOUND; lia].
  destruct (negb (hash_empty h) && negb (hash_matches h t)); [cbn; unfold ILLEGAL_ARGUMENT; lia|].
  destruct (Hp id t Et) as (Hid & Hne & Hnd & Hsub & Hv).
  destruct (exec_if_approved cur cur bal e id t) as [c| |cur'] eqn:Ex.
  - cbn. eapply exec_fail; eauto.
  - (* not yet approved: record the approval, then try again *)
    pose proof (m_approve_transaction cur bal e caller id t KAppr Hwf Hl Et
                  (fun i x _ Hx => Hp i x Hx) Hid Hnd Hsub Hv Es) as HA.
    destruct (approve_transaction cur bal e caller id t KAppr) as [c|st' r|st' i t' k'].
    + exact HA.
    + destruct HA as (Hinv' & Hcfg & Hnx & Hpend & _). split; [assumption|].
      eapply wext_same_except; eauto.
      * intros i Hi. rewrite Hpend. apply lookup_insert_ne. congruence.
      * intros t' Ht'. rewrite Hpend, lookup_insert in Ht'. inversion Ht'. repeat split.
    + destruct HA as (-> & -> & -> & Hnotin & Hinv' & Hcfg & Hnx & Hpend & Hq & Hval & Hlock).
      split; [assumption|]. split.
      { eapply wext_same_except; eauto.
        - intros i Hi. rewrite Hpend. apply lookup_delete_ne. congruence.
        - intros t' Ht'. rewrite Hpend, lookup_delete in Ht'. discriminate. }
      assert (signers st' = signers cur /\ threshold st' = threshold cur /\
              init_bal st' = init_bal cur /\ start_epoch st' = start_epoch cur /\
              unlock_dur st' = unlock_dur cur) as (Hsg & Hth & Hib & Hse & Hud).
      { unfold config in Hcfg. inversion Hcfg. auto. }
      constructor; cbn [set_approved t_approved t_value].
      * rewrite Hth. exact Hq.
      * apply NoDup_snoc; assumption.
      * rewrite Hsg. intros x Hx. apply elem_of_app in Hx as [Hx|Hx]; [auto|].
        apply elem_of_list_singleton in Hx. subst. assumption.
      * assumption.
      * rewrite Hpend. apply lookup_delete.
      * rewrite Hnx. assumption.
      * intros (_ & Hnone). congruence.
      * exact Hval.
      * intros Hpos. specialize (Hlock Hpos). unfold amount_locked in *. rewrite Hib, Hud, Hse. exact Hlock.
      * assumption.
      * left. exists t. split; [assumption|]. split; [repeat split|]. right. split; [reflexivity|assumption].
  - (* the threshold is already met: executed without recording this approver *)
    apply exec_send in Ex as (Hq & Hval & Hlock & ->). cbn.
    split; [apply inv_set_pending; [assumption|]|].
    { intros i x Hx. apply lookup_delete_Some in Hx as [_ Hx]. exact (Hp i x Hx). }
    split; [apply wext_delete; assumption|].
    constructor.
    + exact Hq.
    + exact Hnd.
    + exact Hsub.
    + reflexivity.
    + cbn. apply lookup_delete.
    + exact Hid.
    + intros (_ & Hnone). congruence.
    + exact Hval.
    + exact Hlock.
    + exact Es.
    + left. exists t. split; [assumption|]. split; [repeat split|]. left. reflexivity.
Qed.

Lemma m_cancel cur bal e caller id h :
  wallet_inv cur -> method_post cur bal e caller (cancel cur caller id h).
Proof.
  intros Hinv. pose proof Hinv as (Hwf & Hp & Hl & Hn). unfold cancel.
  destruct (is_signer cur caller); [|cbn; unfold FORBIDDEN; lia]. cbn [negb].
  destruct (pending cur !! id) as [t|] eqn:Et; [|cbn; unfold NOT_FOUND; lia].
  destruct (negb (optN_eqb (head (t_approved t)) (Some caller))); [cbn; unfold FORBIDDEN; lia|].
  destruct (negb (hash_empty h) && negb (hash_matches h t)); [cbn; unfold ILLEGAL_STATE; lia|].
  cbn. split; [|apply wext_delete; assumption].
  apply inv_set_pending; [assumption|].
  intros i x Hx. apply lookup_delete_Some in Hx as [_ Hx]. exact (Hp i x Hx).
Qed.

Lemma wext_config_only cur sg th :
  wext cur (set_signers cur sg th).
Proof.
  split; [cbn; lia|]. split.
  - intros i a b Ha Hb. cbn in Hb. rewrite Ha in Hb. inversion Hb. apply same_body_refl.
  - intros i Hd. exact Hd.
Qed.

Lemma m_add_signer cur bal e caller self ex a inc :
  wallet_inv cur -> method_post cur bal e caller (add_signer cur caller self ex a inc).
Proof.
  intros Hinv. pose proof Hinv as ((Ht1 & Ht2 & Hmax & Hnd) & Hp & Hl & Hn). unfold add_signer.
  destruct (N.eqb caller self); [|cbn; unfold FORBIDDEN; lia]. cbn [negb].
  destruct (ex a); [|cbn; unfold NOT_FOUND; lia]. cbn [negb].
  destruct (SIGNERS_MAX <=? len (signers cur)) eqn:Em; [cbn; unfold FORBIDDEN; lia|]. zb.
  destruct (is_signer cur a) eqn:Es; [cbn; unfold FORBIDDEN; lia|].
  apply mem_false in Es.
  cbn. split; [|apply wext_config_only].
  split.
  - unfold wallet_wf. cbn. rewrite len_app1. split; [destruct inc; lia|]. split; [destruct inc; lia|].
    split; [lia|]. apply NoDup_snoc; assumption.
  - split; [|split; [exact Hl|exact Hn]].
    intros i x Hx. cbn in Hx. destruct (Hp i x Hx) as (?&?&?&Hsub&?).
    unfold txn_ok. cbn. repeat split; try assumption; try lia.
    intros y Hy. apply elem_of_app. left. auto.
Qed.

Lemma m_remove_signer cur bal e caller self a dec :
  wallet_inv cur -> method_post cur bal e caller (remove_signer cur caller self a dec).
Proof.
  intros Hinv. pose proof Hinv as ((Ht1 & Ht2 & Hmax & Hnd) & Hp & Hl & Hn). unfold remove_signer.
  destruct (N.eqb caller self); [|cbn; unfold FORBIDDEN; lia]. cbn [negb].
  destruct (is_signer cur a) eqn:Es; [|cbn; unfold FORBIDDEN; lia]. cbn [negb].
  apply is_signer_spec in Es.
  destruct (len (signers cur) =? 1) eqn:E1; [cbn; unfold FORBIDDEN; lia|]. zb.
  destruct (negb dec && (len (signers cur) - 1 <? threshold cur)) eqn:E2; [cbn; unfold ILLEGAL_ARGUMENT; lia|].
  destruct (dec && (threshold cur <? 2)) eqn:E3; [cbn; unfold ILLEGAL_ARGUMENT; lia|].
  cbn. split; [|apply wext_purge].
  pose proof (remove_addr_len a (signers cur) Hnd Es) as Hlen.
  split.
  - unfold wallet_wf. cbn. rewrite Hlen.
    destruct dec; cbn in E2, E3; zb.
    + split; [lia|]. split; [lia|]. split; [lia|]. apply remove_addr_NoDup; assumption.
    + split; [lia|]. split; [lia|]. split; [lia|]. apply remove_addr_NoDup; assumption.
  - split; [|split; [exact Hl|exact Hn]].
    intros i x Hx. cbn in Hx. rewrite purge_lookup in Hx.
    destruct (pending cur !! i) as [t|] eqn:Et; [|discriminate].
    pose proof (purge_txn_ok cur a (remove_addr a (signers cur)) i t x (Hp i t Et) Hx) as HH.
    lapply HH; [clear HH; intros (?&?&?&?&?&?)|intros y Hy Hya; apply remove_addr_elem; tauto].
    unfold txn_ok. cbn. repeat split; try assumption; lia.
Qed.

Lemma m_swap_signer cur bal e caller self ex a b :
  wallet_inv cur -> method_post cur bal e caller (swap_signer cur caller self ex a b).
Proof.
  intros Hinv. pose proof Hinv as ((Ht1 & Ht2 & Hmax & Hnd) & Hp & Hl & Hn). unfold swap_signer.
  destruct (N.eqb caller self); [|cbn; unfold FORBIDDEN; lia]. cbn [negb].
  destruct (ex b); [|cbn; unfold NOT_FOUND; lia]. cbn [negb].
  destruct (is_signer cur a) eqn:Es; [|cbn; unfold FORBIDDEN; lia]. cbn [negb].
  apply is_signer_spec in Es.
  destruct (is_signer cur b) eqn:Eb; [cbn; unfold ILLEGAL_ARGUMENT; lia|].
  apply mem_false in Eb.
  cbn. split; [|apply wext_purge'].
  pose proof (remove_addr_len a (signers cur) Hnd Es) as Hlen.
  split.
  - unfold wallet_wf. cbn. rewrite len_app1, Hlen.
    split; [lia|]. split; [lia|]. split; [lia|].
    apply NoDup_snoc; [apply remove_addr_NoDup; assumption|].
    rewrite remove_addr_elem. tauto.
  - split; [|split; [exact Hl|exact Hn]].
    intros i x Hx. cbn in Hx. rewrite purge_lookup in Hx.
    destruct (pending cur !! i) as [t|] eqn:Et; [|discriminate].
    pose proof (purge_txn_ok cur a (remove_addr a (signers cur) ++ [b]) i t x (Hp i t Et) Hx) as HH.
    lapply HH; [clear HH; intros (?&?&?&?&?&?)|].
    2:{ intros y Hy Hya. apply elem_of_app. left. apply remove_addr_elem. tauto. }
    unfold txn_ok. cbn. repeat split; try assumption; lia.
Qed.

Lemma m_change_threshold cur bal e caller self n :
  wallet_inv cur -> method_post cur bal e caller (change_threshold cur caller self n).
Proof.
  intros Hinv. pose proof Hinv as ((Ht1 & Ht2 & Hmax & Hnd) & Hp & Hl & Hn). unfold change_threshold.
  destruct (N.eqb caller self); [|cbn; unfold FORBIDDEN; lia]. cbn [negb].
  destruct ((n <=? 0) || (len (signers cur) <? n)) eqn:E; [cbn; unfold ILLEGAL_ARGUMENT; lia|]. zb.
  cbn. split; [|apply wext_config_only].
  split; [unfold wallet_wf; cbn; repeat split; try assumption; lia|].
  split; [|split; [exact Hl|exact Hn]].
  intros i x Hx. exact (Hp i x Hx).
Qed.

Lemma wext_locked cur s d m : wext cur (set_locked cur s d m).
Proof.
  split; [cbn; lia|]. split.
  - intros i a b Ha Hb. cbn in Hb. rewrite Ha in Hb. inversion Hb. apply same_body_refl.
  - intros i Hd. exact Hd.
Qed.

Lemma m_lock_balance cur bal e caller self s d m :
  wallet_inv cur -> method_post cur bal e caller (lock_balance cur caller self s d m).
Proof.
  intros Hinv. pose proof Hinv as (Hwf & Hp & Hl & Hn). unfold lock_balance.
  destruct (N.eqb caller self); [|cbn; unfold FORBIDDEN; lia]. cbn [negb].
  destruct (d <=? 0) eqn:Ed; [cbn; unfold ILLEGAL_ARGUMENT; lia|]. zb.
  destruct (m <? 0) eqn:Em; [cbn; unfold ILLEGAL_ARGUMENT; lia|]. zb.
  destruct (negb (unlock_dur cur =? 0)); [cbn; unfold FORBIDDEN; lia|].
  cbn. split; [|apply wext_locked].
  split; [exact Hwf|]. split; [|split; [split; cbn; lia|exact Hn]].
  intros i x Hx. exact (Hp i x Hx).
Qed.

(* the single-wallet step preserves the wallet invariant, only extends the bookkeeping, and a send
   comes with the facts of `send_facts` *)
Theorem m_method_post cur bal e caller self ex o :
  wallet_inv cur -> method_post cur bal e caller (wallet_method cur bal e caller self ex o).
Proof.
  intros Hinv. destruct o; cbn [wallet_method].
  - apply m_propose; assumption.
  - apply m_approve; assumption.
  - apply m_cancel; assumption.
  - apply m_add_signer; assumption.
  - apply m_remove_signer; assumption.
  - apply m_swap_signer; assumption.
  - apply m_change_threshold; assumption.
  - apply m_lock_balance; assumption.
Qed.

(* ------------------------------------------------------------------------------------------ *)
(* WORLD level: the invariant of the re-entrant semantics *)

Definition ev_key (ev : event) : N * Z := (ev_w ev, ev_id ev).

(* the content of a logged send: quorum, lock *)
Definition ev_ok (ev : event) : Prop :=
  wallet_inv (ev_st ev) /\
  threshold (ev_st ev) <= len (t_approved (ev_txn ev)) /\
  NoDup (t_approved (ev_txn ev)) /\
  t_approved (ev_txn ev) ⊆ signers (ev_st ev) /\
  0 <= t_value (ev_txn ev) <= ev_bal ev /\
  (0 < t_value (ev_txn ev) ->
   amount_locked (ev_st ev) (ev_epoch ev - start_epoch (ev_st ev)) <= ev_bal ev - t_value (ev_txn ev)).

Definition inv (W : world) : Prop :=
  (forall w st, wallets W !! w = Some st -> wallet_inv st /\ (w < next_actor W)%N) /\
  (forall ev, ev ∈ log W ->
     ev_ok ev /\ exists st, wallets W !! ev_w ev = Some st /\ dead st (ev_id ev)) /\
  NoDup (map ev_key (log W)).

Definition sender_ok (sd : sender_t) : Prop :=
  forall W from to v p, inv W -> inv (fst (sd W from to v p)).

Lemma inv_transfer W f t v : inv W -> inv (transfer W f t v).
Proof. intros H. exact H. Qed.

Lemma inv_set_wallet W w cur st' :
  inv W -> wallets W !! w = Some cur -> wallet_inv st' -> wext cur st' -> inv (set_wallet W w st').
Proof.
  intros (Hw & Hlog & Hnd) Hcur Hinv' (Hn & Hb & Hd). split; [|split; [|exact Hnd]].
  - intros w' st Hst. cbn in Hst. destruct (decide (w' = w)) as [->|Hne].
    + rewrite lookup_insert in Hst. inversion Hst. subst st. split; [assumption|].
      exact (proj2 (Hw w cur Hcur)).
    + rewrite lookup_insert_ne in Hst by congruence. exact (Hw w' st Hst).
  - intros ev Hev. destruct (Hlog ev Hev) as (Hok & st & Hst & Hdead). split; [assumption|].
    cbn. destruct (decide (ev_w ev = w)) as [Heq|Hne].
    + rewrite Heq in *. rewrite lookup_insert. exists st'. split; [reflexivity|].
      rewrite Hcur in Hst. inversion Hst. subst st. auto.
    + rewrite lookup_insert_ne by congruence. exists st. auto.
Qed.

Lemma inv_add_log W ev st :
  inv W -> ev_ok ev -> wallets W !! ev_w ev = Some st -> dead st (ev_id ev) ->
  (forall ev', ev' ∈ log W -> ev_key ev' <> ev_key ev) -> inv (add_log W ev).
Proof.
  intros (Hw & Hlog & Hnd) Hok Hst Hdead Hfresh. split; [exact Hw|]. split.
  - intros ev' Hev'. cbn in Hev'. apply elem_of_app in Hev' as [Hev'|Hev'].
    + exact (Hlog ev' Hev').
    + apply elem_of_list_singleton in Hev'. subst ev'. split; [assumption|]. exists st. auto.
  - cbn. rewrite map_app. apply NoDup_app. split; [assumption|]. split.
    + intros k Hk Hk'. cbn in Hk'. apply elem_of_list_singleton in Hk'. subst k.
      apply elem_of_list_fmap in Hk as (ev' & Hkey & Hev'). exact (Hfresh ev' Hev' (eq_sym Hkey)).
    + cbn. apply NoDup_singleton.
Qed.

Lemma vm_send_inv sd e : sender_ok sd -> sender_ok (vm_send sd e).
Proof.
  intros Hsd W from to v p HW. unfold vm_send.
  destruct (negb (v =? 0) && (v <? 0)); [exact HW|].
  destruct (negb (v =? 0) && (balance W from <? v)); [exact HW|].
  destruct (negb (exists_b W to)); [exact HW|].
  set (W1 := transfer W from to v).
  assert (inv W1) as HW1 by (apply inv_transfer; assumption).
  destruct p as [|c|o].
  - exact HW1.
  - destruct (c =? 0); [exact HW1|exact HW].
  - destruct (wallets W1 !! to) as [cur|] eqn:Ecur; [|exact HW].
    pose proof HW1 as (Hw1 & Hlog1 & Hnd1).
    destruct (Hw1 to cur Ecur) as (Hcinv & _).
    pose proof (m_method_post cur (balance W1 to) e from to (exists_b W1) o Hcinv) as HM.
    destruct (wallet_method cur (balance W1 to) e from to (exists_b W1) o) as [c|st' r|st' id t k].
    + exact HW.
    + destruct HM as (Hinv' & Hext). cbn [fst]. eapply inv_set_wallet; eauto.
    + destruct HM as (Hinv' & Hext & SF).
      set (W2 := set_wallet W1 to st').
      assert (inv W2) as HW2 by (eapply inv_set_wallet; eauto).
      set (ev := {| ev_w := to; ev_id := id; ev_txn := t; ev_st := st'; ev_bal := balance W2 to; ev_epoch := e |}).
      assert (inv (add_log W2 ev)) as HW3.
      { apply (inv_add_log W2 ev st'); [assumption| | | |].
        - destruct SF. unfold ev_ok, ev. cbn [ev_st ev_txn ev_bal ev_epoch].
          split; [exact Hinv'|]. split; [assumption|]. split; [assumption|]. split; [assumption|].
          split; [exact sf_value0|exact sf_lock0].
        - cbn. apply lookup_insert.
        - cbn. destruct SF. split; [lia|assumption].
        - intros ev' Hev' Hkey. cbn in Hev'.
          destruct (Hlog1 ev' Hev') as (_ & st & Hst & Hdead).
          unfold ev_key in Hkey. cbn in Hkey. inversion Hkey as [[Hw' Hid']].
          rewrite Hw', Ecur in Hst. inversion Hst. subst st. rewrite Hid' in Hdead.
          destruct SF. contradiction. }
      specialize (Hsd (add_log W2 ev) to (t_to t) (t_value t) (t_payload t) HW3).
      destruct (sd (add_log W2 ev) to (t_to t) (t_value t) (t_payload t)) as [W4 [code r]].
      exact Hsd.
Qed.

Lemma send_inv fuel e : sender_ok (send fuel e).
Proof.
  induction fuel as [|f IH]; cbn [send].
  - intros W from to v p HW. exact HW.
  - apply vm_send_inv. exact IH.
Qed.

(* the constructor *)
Lemma ctor_signers_none ex seen l :
  ctor_signers ex seen l = None -> NoDup l /\ forall x, x ∈ l -> x ∉ seen.
Proof.
  revert seen. induction l as [|x r IH]; intros seen H; cbn in H.
  - split; [constructor|]. intros x Hx. inversion Hx.
  - destruct (negb (ex x)); [discriminate|].
    destruct (mem x seen) eqn:Em; [discriminate|]. apply mem_false in Em.
    destruct (IH _ H) as (Hnd & Hseen). split.
    + apply NoDup_cons. split; [|assumption]. intros Hx. apply (Hseen x Hx). left.
    + intros y Hy. apply elem_of_cons in Hy as [->|Hy]; [assumption|].
      intros Hys. apply (Hseen y Hy). right. assumption.
Qed.

Lemma construct_inv ex sg th dur start value st :
  construct ex sg th dur start value = inr st -> 0 <= value -> wallet_inv st.
Proof.
  unfold construct. intros H Hv.
  destruct (len sg =? 0) eqn:E0; [discriminate|].
  destruct (SIGNERS_MAX <? len sg) eqn:Em; [discriminate|].
  destruct (ctor_signers ex [] sg) eqn:Ec; [discriminate|].
  destruct (len sg <? th) eqn:Et; [discriminate|].
  destruct (th <? 1) eqn:E1; [discriminate|].
  destruct (dur <? 0) eqn:Ed; [discriminate|]. zb.
  apply ctor_signers_none in Ec as (Hnd & _).
  inversion H. subst st. clear H.
  assert (forall st0, signers st0 = sg -> threshold st0 = th -> wallet_wf st0) as Hwf.
  { intros st0 Hs Ht. unfold wallet_wf. rewrite Hs, Ht. repeat split; try assumption; lia. }
  destruct (dur =? 0) eqn:Ed0; zb.
  - split; [apply Hwf; reflexivity|]. split; [|split; [split; cbn; lia|cbn; lia]].
    intros i x Hx. cbn in Hx. rewrite lookup_empty in Hx. discriminate.
  - split; [apply Hwf; reflexivity|]. split; [|split; [split; cbn; lia|cbn; lia]].
    intros i x Hx. cbn in Hx. rewrite lookup_empty in Hx. discriminate.
Qed.

Definition run (W : world) (ops : list (nat * top)) : world :=
  fold_left (fun W fo => fst (step (fst fo) W (snd fo))) ops W.

Lemma run_app W a b : run W (a ++ b) = run (run W a) b.
Proof. unfold run. apply fold_left_app. Qed.

Lemma create_inv W from sg th dur start v : inv W -> inv (fst (create W from sg th dur start v)).
Proof.
  intros HW. unfold create.
  destruct (negb (v =? 0) && (v <? 0)) eqn:E1; [exact HW|].
  destruct (negb (v =? 0) && (balance W from <? v)); [exact HW|].
  destruct (construct _ sg th dur start v) as [c|st] eqn:Ec; [exact HW|].
  assert (0 <= v) as Hv.
  { destruct (v =? 0) eqn:E0; zb; [lia|]. cbn in E1. zb. lia. }
  apply construct_inv in Ec; [|assumption].
  destruct HW as (Hw & Hlog & Hnd). cbn [fst]. split; [|split; [|exact Hnd]].
  - intros w st' Hst'. cbn in Hst'. cbn [next_actor]. destruct (decide (w = next_actor W)) as [->|Hne].
    + rewrite lookup_insert in Hst'. inversion Hst'. subst st'. split; [assumption|lia].
    + rewrite lookup_insert_ne in Hst' by congruence. destruct (Hw w st' Hst'). split; [assumption|lia].
  - intros ev Hev. cbn in Hev. destruct (Hlog ev Hev) as (Hok & st0 & Hst0 & Hdead).
    split; [assumption|]. exists st0. split; [|assumption]. cbn.
    rewrite lookup_insert_ne; [assumption|]. intros Heq. rewrite <- Heq in Hst0.
    destruct (Hw _ _ Hst0). lia.
Qed.

Lemma step_inv fuel W o : inv W -> inv (fst (step fuel W o)).
Proof.
  intros HW. destruct o as [e from to v p|e from sg th dur start v]; cbn [step].
  - destruct (is_account W from); [|exact HW]. apply send_inv. assumption.
  - destruct (is_account W from); [|exact HW]. apply create_inv. assumption.
Qed.

Lemma init_inv accts next : inv (init_world accts next).
Proof.
  split; [|split].
  - intros w st H. cbn in H. rewrite lookup_empty in H. discriminate.
  - intros ev H. cbn in H. inversion H.
  - cbn. constructor.
Qed.

Lemma run_inv W ops : inv W -> inv (run W ops).
Proof.
  revert W. induction ops as [|[f o] r IH]; intros W HW; [exact HW|].
  cbn. apply IH. apply step_inv. assumption.
Qed.

(* ------------------------------------------------------------------------------------------ *)
(* configuration (signers, threshold, lock) changes: single-wallet level *)

Definition is_config_op (o : op) : bool :=
  match o with
  | AddSigner _ _ | RemoveSigner _ _ | SwapSigner _ _ | ChangeThreshold _ | LockBalance _ _ _ => true
  | _ => false
  end.

Lemma approve_transaction_config cur bal e caller id t k :
  match approve_transaction cur bal e caller id t k with
  | Fail _ => True
  | Done st' _ => config st' = config cur
  | Send st' _ _ _ => config st' = config cur
  end.
Proof.
  unfold approve_transaction, exec_if_approved.
  destruct (mem caller (t_approved t)); [exact I|]. cbn [threshold set_pending].
  destruct (threshold cur <=? _); [|reflexivity].
  destruct (check_available _ _ _ _); [exact I|reflexivity].
Qed.

(* a method invoked by anybody but the wallet itself leaves the configuration alone; more precisely
   only the five administrative methods, called by the wallet itself, can change it *)
Lemma m_config cur bal e caller self ex o :
  match wallet_method cur bal e caller self ex o with
  | Fail _ => True
  | Done st' _ => config st' = config cur \/ (caller = self /\ is_config_op o = true)
  | Send st' _ _ _ => config st' = config cur
  end.
Proof.
  destruct o; cbn [wallet_method].
  - unfold propose. destruct (value <? 0); [exact I|]. destruct (negb _); [exact I|].
    match goal with |- context [approve_transaction ?c ?b ?e ?ca ?i ?t ?k] =>
      pose proof (approve_transaction_config c b e ca i t k) as H;
      destruct (approve_transaction c b e ca i t k) end; auto.
  - unfold approve. destruct (negb _); [exact I|].
    destruct (pending cur !! id) as [t|]; [|exact I].
    destruct (_ && _); [exact I|].
    unfold exec_if_approved at 1.
    destruct (threshold cur <=? _).
    + destruct (check_available _ _ _ _); [exact I|reflexivity].
    + pose proof (approve_transaction_config cur bal e caller id t KAppr) as H.
      destruct (approve_transaction cur bal e caller id t KAppr); auto.
  - unfold cancel. destruct (negb _); [exact I|].
    destruct (pending cur !! id) as [t|]; [|exact I].
    destruct (negb _); [exact I|]. destruct (_ && _); [exact I|]. left. reflexivity.
  - unfold add_signer. destruct (N.eqb caller self) eqn:E; [|exact I]. zb. cbn [negb].
    repeat match goal with |- context [if ?b then _ else _] => destruct b; try exact I end; right; auto.
  - unfold remove_signer. destruct (N.eqb caller self) eqn:E; [|exact I]. zb. cbn [negb].
    repeat match goal with |- context [if ?b then _ else _] => destruct b; try exact I end; right; auto.
  - unfold swap_signer. destruct (N.eqb caller self) eqn:E; [|exact I]. zb. cbn [negb].
    repeat match goal with |- context [if ?b then _ else _] => destruct b; try exact I end; right; auto.
  - unfold change_threshold. destruct (N.eqb caller self) eqn:E; [|exact I]. zb. cbn [negb].
    repeat match goal with |- context [if ?b then _ else _] => destruct b; try exact I end; right; auto.
  - unfold lock_balance. destruct (N.eqb caller self) eqn:E; [|exact I]. zb. cbn [negb].
    repeat match goal with |- context [if ?b then _ else _] => destruct b; try exact I end; right; auto.
Qed.

(* ------------------------------------------------------------------------------------------ *)
(* WORLD level: two-state properties of calls *)

Lemma frame_inv W1 to cur e from st' id t :
  inv W1 -> wallets W1 !! to = Some cur -> wallet_inv st' -> wext cur st' ->
  send_facts cur st' (balance W1 to) e from id t ->
  inv (add_log (set_wallet W1 to st')
         {| ev_w := to; ev_id := id; ev_txn := t; ev_st := st';
            ev_bal := balance (set_wallet W1 to st') to; ev_epoch := e |}).
Proof.
  intros HW1 Ecur Hinv' Hext SF.
  pose proof HW1 as (Hw1 & Hlog1 & Hnd1).
  assert (inv (set_wallet W1 to st')) as HW2 by (eapply inv_set_wallet; eauto).
  apply (inv_add_log _ _ st'); [assumption| | | |].
  - destruct SF. unfold ev_ok. cbn [ev_st ev_txn ev_bal ev_epoch].
    split; [exact Hinv'|]. split; [assumption|]. split; [assumption|]. split; [assumption|].
    split; [exact sf_value0|exact sf_lock0].
  - cbn. apply lookup_insert.
  - cbn. destruct SF. split; [lia|assumption].
  - intros ev' Hev' Hkey. cbn in Hev'.
    destruct (Hlog1 ev' Hev') as (_ & st & Hst & Hdead).
    unfold ev_key in Hkey. cbn in Hkey. inversion Hkey as [[Hw' Hid']].
    rewrite Hw', Ecur in Hst. inversion Hst. subst st. rewrite Hid' in Hdead.
    destruct SF. contradiction.
Qed.

Definition self_config_send (w : N) (ev : event) : Prop :=
  ev_w ev = w /\ t_to (ev_txn ev) = w /\
  exists o, t_payload (ev_txn ev) = PCall o /\ is_config_op o = true.

Definition wallets_ext (W W' : world) : Prop :=
  forall w st, wallets W !! w = Some st -> exists st', wallets W' !! w = Some st' /\ wext st st'.

(* the effect of one call `from -> to : p` *)
Definition call_rel (W : world) (from to : N) (p : payload) (W' : world) : Prop :=
  wallets_ext W W' /\
  exists l, log W' = log W ++ l /\
    forall w st st', wallets W !! w = Some st -> wallets W' !! w = Some st' ->
      config st' = config st \/ (exists ev, ev ∈ l /\ self_config_send w ev) \/
      (from = w /\ to = w /\ exists o, p = PCall o /\ is_config_op o = true).

Definition sender_rel (sd : sender_t) : Prop :=
  forall W from to v p, inv W -> call_rel W from to p (fst (sd W from to v p)).

Lemma call_rel_same W from to p W' :
  wallets W' = wallets W -> log W' = log W -> call_rel W from to p W'.
Proof.
  intros Hw Hl. split.
  - intros w st Hst. exists st. rewrite Hw. split; [assumption|apply wext_refl].
  - exists []. rewrite Hl, app_nil_r. split; [reflexivity|].
    intros w st st' H1 H2. rewrite Hw, H1 in H2. inversion H2. left. reflexivity.
Qed.

Lemma vm_send_rel sd e : sender_ok sd -> sender_rel sd -> sender_rel (vm_send sd e).
Proof.
  intros Hok Hsd W from to v p HW. unfold vm_send.
  destruct (negb (v =? 0) && (v <? 0)); [apply call_rel_same; reflexivity|].
  destruct (negb (v =? 0) && (balance W from <? v)); [apply call_rel_same; reflexivity|].
  destruct (negb (exists_b W to)); [apply call_rel_same; reflexivity|].
  set (W1 := transfer W from to v).
  assert (inv W1) as HW1 by (apply inv_transfer; assumption).
  destruct p as [|c|o].
  - apply call_rel_same; reflexivity.
  - destruct (c =? 0); apply call_rel_same; reflexivity.
  - destruct (wallets W1 !! to) as [cur|] eqn:Ecur; [|apply call_rel_same; reflexivity].
    pose proof HW1 as (Hw1 & Hlog1 & Hnd1).
    destruct (Hw1 to cur Ecur) as (Hcinv & _).
    pose proof (m_method_post cur (balance W1 to) e from to (exists_b W1) o Hcinv) as HM.
    pose proof (m_config cur (balance W1 to) e from to (exists_b W1) o) as HC.
    destruct (wallet_method cur (balance W1 to) e from to (exists_b W1) o) as [c|st' r|st' id t k].
    + apply call_rel_same; reflexivity.
    + destruct HM as (Hinv' & Hext). cbn [fst]. split.
      * intros w st Hst. cbn. destruct (decide (w = to)) as [->|Hne].
        -- rewrite lookup_insert. exists st'. split; [reflexivity|].
           change (wallets W !! to = Some cur) in Ecur. rewrite Ecur in Hst. inversion Hst. subst st. assumption.
        -- rewrite lookup_insert_ne by congruence. exists st. split; [assumption|apply wext_refl].
      * exists []. cbn. rewrite app_nil_r. split; [reflexivity|].
        intros w st st1 H1 H2. cbn in H2. destruct (decide (w = to)) as [->|Hne].
        -- rewrite lookup_insert in H2. inversion H2. subst st1.
           change (wallets W !! to = Some cur) in Ecur. rewrite Ecur in H1. inversion H1. subst st.
           destruct HC as [HC|(HC1 & HC2)]; [left; assumption|].
           right. right. split; [assumption|]. split; [reflexivity|]. exists o. auto.
        -- rewrite lookup_insert_ne in H2 by congruence.
           change (wallets W !! w = Some st1) in H2. rewrite H1 in H2. inversion H2. left. reflexivity.
    + destruct HM as (Hinv' & Hext & SF).
      pose proof (frame_inv W1 to cur e from st' id t HW1 Ecur Hinv' Hext SF) as HW3.
      set (ev := {| ev_w := to; ev_id := id; ev_txn := t; ev_st := st';
                    ev_bal := balance (set_wallet W1 to st') to; ev_epoch := e |}) in *.
      set (W3 := add_log (set_wallet W1 to st') ev) in *.
      specialize (Hsd W3 to (t_to t) (t_value t) (t_payload t) HW3).
      destruct (sd W3 to (t_to t) (t_value t) (t_payload t)) as [W4 [code r]].
      cbn [fst] in *. destruct Hsd as (Hwe & l & Hl & Hcfg).
      assert (forall w st, wallets W !! w = Some st ->
                exists st3, wallets W3 !! w = Some st3 /\ wext st st3 /\ config st3 = config st) as H03.
      { intros w st Hst. cbn. destruct (decide (w = to)) as [->|Hne].
        - rewrite lookup_insert. exists st'. split; [reflexivity|].
          change (wallets W !! to = Some cur) in Ecur. rewrite Ecur in Hst. inversion Hst. subst st.
          split; [assumption|]. destruct SF. assumption.
        - rewrite lookup_insert_ne by congruence. exists st. split; [assumption|].
          split; [apply wext_refl|reflexivity]. }
      split.
      * intros w st Hst. destruct (H03 w st Hst) as (st3 & Hst3 & Hext3 & _).
        destruct (Hwe w st3 Hst3) as (st4 & Hst4 & Hext4). exists st4. split; [assumption|].
        eapply wext_trans; eauto.
        destruct HW as (Hw & _). destruct (Hw w st Hst) as ((_ & Hp & _) & _). exact Hp.
      * exists (ev :: l). split; [rewrite Hl; cbn; rewrite <- app_assoc; reflexivity|].
        intros w st st4 Hst Hst4. destruct (H03 w st Hst) as (st3 & Hst3 & _ & Hc3).
        destruct (Hcfg w st3 st4 Hst3 Hst4) as [Hc|[(ev' & Hev' & Hsc)|(Hf & Ht & o' & Hp' & Hco)]].
        -- left. congruence.
        -- right. left. exists ev'. split; [right; assumption|assumption].
        -- right. left. exists ev. split; [left|].
           unfold self_config_send, ev. cbn. split; [assumption|]. split; [assumption|]. exists o'. auto.
Qed.

Lemma send_rel fuel e : sender_rel (send fuel e).
Proof.
  induction fuel as [|f IH]; cbn [send].
  - intros W from to v p HW. apply call_rel_same; reflexivity.
  - apply vm_send_rel; [apply send_inv|exact IH].
Qed.

(* extension between worlds at top level: what a history may do *)
Definition ext (W W' : world) : Prop :=
  wallets_ext W W' /\
  exists l, log W' = log W ++ l /\
    forall w st st', wallets W !! w = Some st -> wallets W' !! w = Some st' ->
      config st' = config st \/ exists ev, ev ∈ l /\ self_config_send w ev.

Lemma ext_refl W : ext W W.
Proof.
  split.
  - intros w st Hst. exists st. split; [assumption|apply wext_refl].
  - exists []. rewrite app_nil_r. split; [reflexivity|].
    intros w st st' H1 H2. rewrite H1 in H2. inversion H2. left. reflexivity.
Qed.

Lemma ext_trans A B C : inv A -> ext A B -> ext B C -> ext A C.
Proof.
  intros HA (Hw1 & l1 & Hl1 & Hc1) (Hw2 & l2 & Hl2 & Hc2). split.
  - intros w st Hst. destruct (Hw1 w st Hst) as (st1 & Hst1 & He1).
    destruct (Hw2 w st1 Hst1) as (st2 & Hst2 & He2). exists st2. split; [assumption|].
    eapply wext_trans; eauto.
    destruct HA as (Hw & _). destruct (Hw w st Hst) as ((_ & Hp & _) & _). exact Hp.
  - exists (l1 ++ l2). split; [rewrite Hl2, Hl1, app_assoc; reflexivity|].
    intros w st st2 Hst Hst2. destruct (Hw1 w st Hst) as (st1 & Hst1 & _).
    destruct (Hc1 w st st1 Hst Hst1) as [Ha|(ev & Hev & Hs)].
    + destruct (Hc2 w st1 st2 Hst1 Hst2) as [Hb|(ev & Hev & Hs)].
      * left. congruence.
      * right. exists ev. split; [apply elem_of_app; right; assumption|assumption].
    + right. exists ev. split; [apply elem_of_app; left; assumption|assumption].
Qed.

Lemma is_account_not_wallet W a : is_account W a = true -> wallets W !! a = None.
Proof.
  unfold is_account. intros H. apply andb_true_iff in H as [_ H].
  destruct (wallets W !! a); [discriminate|reflexivity].
Qed.

Lemma step_ext fuel W o : inv W -> ext W (fst (step fuel W o)).
Proof.
  intros HW. destruct o as [e from to v p|e from sg th dur start v]; cbn [step].
  - destruct (is_account W from) eqn:Ea; [|apply ext_refl].
    apply is_account_not_wallet in Ea.
    destruct (send_rel fuel e W from to v p HW) as (Hwe & l & Hl & Hc).
    split; [assumption|]. exists l. split; [assumption|].
    intros w st st' H1 H2. destruct (Hc w st st' H1 H2) as [?|[?|(Hf & _)]]; auto.
    subst w. congruence.
  - destruct (is_account W from); [|apply ext_refl].
    unfold create.
    destruct (negb (v =? 0) && (v <? 0)); [apply ext_refl|].
    destruct (negb (v =? 0) && (balance W from <? v)); [apply ext_refl|].
    destruct (construct _ sg th dur start v) as [c|st]; [apply ext_refl|].
    cbn [fst]. destruct HW as (Hw & _).
    assert (forall w st0, wallets W !! w = Some st0 -> w <> next_actor W) as Hfresh.
    { intros w st0 H Heq. destruct (Hw w st0 H). lia. }
    split.
    + intros w st0 H. exists st0. cbn. rewrite lookup_insert_ne by (intros Heq; eapply Hfresh; eauto).
      split; [assumption|apply wext_refl].
    + exists []. cbn. rewrite app_nil_r. split; [reflexivity|].
      intros w st0 st1 H1 H2. cbn in H2.
      rewrite lookup_insert_ne in H2 by (intros Heq; eapply Hfresh; eauto).
      rewrite H1 in H2. inversion H2. left. reflexivity.
Qed.

Lemma run_ext W ops : inv W -> ext W (run W ops).
Proof.
  revert W. induction ops as [|[f o] r IH]; intros W HW; [apply ext_refl|].
  cbn. eapply ext_trans; [assumption|apply step_ext; assumption|].
  apply IH. apply step_inv. assumption.
Qed.

(* ------------------------------------------------------------------------------------------ *)
(* THEOREMS (world level, every history, every fuel) *)

Definition reach (accts : list (N * Z)) (next : N) (ops : list (nat * top)) : world :=
  run (init_world accts next) ops.

Lemma reach_inv accts next ops : inv (reach accts next ops).
Proof. apply run_inv, init_inv. Qed.

Theorem wallet_wf_reachable accts next ops w st :
  wallets (reach accts next ops) !! w = Some st ->
  1 <= threshold st /\ threshold st <= len (signers st) /\ len (signers st) <= SIGNERS_MAX /\
  NoDup (signers st).
Proof.
  intros H. destruct (reach_inv accts next ops) as (Hw & _). destruct (Hw w st H) as ((Hwf & _) & _).
  exact Hwf.
Qed.

Theorem quorum_at_send accts next ops ev :
  ev ∈ log (reach accts next ops) ->
  1 <= threshold (ev_st ev) /\
  threshold (ev_st ev) <= len (t_approved (ev_txn ev)) /\
  NoDup (t_approved (ev_txn ev)) /\
  t_approved (ev_txn ev) ⊆ signers (ev_st ev) /\
  NoDup (signers (ev_st ev)) /\ len (signers (ev_st ev)) <= SIGNERS_MAX.
Proof.
  intros H. destruct (reach_inv accts next ops) as (_ & Hlog & _).
  destruct (Hlog ev H) as ((((Ht1 & Ht2 & Hmax & Hnd) & _) & Hq & Hnd' & Hsub & _) & _).
  repeat split; assumption.
Qed.

Theorem sent_at_most_once accts next ops :
  NoDup (map ev_key (log (reach accts next ops))).
Proof. destruct (reach_inv accts next ops) as (_ & _ & H). exact H. Qed.

Theorem lock_respected accts next ops ev :
  ev ∈ log (reach accts next ops) ->
  0 <= t_value (ev_txn ev) <= ev_bal ev /\
  (0 < t_value (ev_txn ev) ->
   amount_locked (ev_st ev) (ev_epoch ev - start_epoch (ev_st ev)) <= ev_bal ev - t_value (ev_txn ev)).
Proof.
  intros H. destruct (reach_inv accts next ops) as (_ & Hlog & _).
  destruct (Hlog ev H) as ((_ & _ & _ & _ & Hv & Hl) & _). split; assumption.
Qed.

(* a transaction that has been sent is never pending again, in any continuation of the history *)
Theorem sent_never_pending_again accts next ops more ev st :
  ev ∈ log (reach accts next ops) ->
  wallets (reach accts next (ops ++ more)) !! ev_w ev = Some st ->
  pending st !! ev_id ev = None /\ ev_id ev < next_id st.
Proof.
  intros Hev Hst. unfold reach in *. rewrite run_app in Hst.
  pose proof (reach_inv accts next ops) as HI. unfold reach in HI.
  destruct (run_ext _ more HI) as (_ & l & Hl & _).
  pose proof (run_inv _ more HI) as (_ & Hlog & _).
  assert (ev ∈ log (run (run (init_world accts next) ops) more)) as Hev'.
  { rewrite Hl. apply elem_of_app. left. assumption. }
  destruct (Hlog ev Hev') as (_ & st0 & Hst0 & (Hlt & Hnone)).
  rewrite Hst in Hst0. inversion Hst0. subst st0. split; assumption.
Qed.

(* ids are handed out in increasing order and a pending transaction is never altered except for its
   list of approvals *)
Theorem txn_ids_increase_and_bodies_fixed accts next ops more w st :
  wallets (reach accts next ops) !! w = Some st ->
  exists st', wallets (reach accts next (ops ++ more)) !! w = Some st' /\
    next_id st <= next_id st' /\
    (forall id t t', pending st !! id = Some t -> pending st' !! id = Some t' ->
       t_to t = t_to t' /\ t_value t = t_value t' /\ t_payload t = t_payload t') /\
    (forall id t', pending st' !! id = Some t' -> pending st !! id = None -> next_id st <= id).
Proof.
  intros Hst. unfold reach in *. rewrite run_app.
  pose proof (reach_inv accts next ops) as HI. unfold reach in HI.
  destruct (run_ext _ more HI) as (Hwe & _).
  destruct (Hwe w st Hst) as (st' & Hst' & Hn & Hb & Hd). exists st'. split; [assumption|].
  split; [assumption|]. split; [exact Hb|].
  intros id t' Ht' Hnone. destruct (Z_lt_le_dec id (next_id st)) as [Hlt|Hge]; [|assumption].
  destruct (Hd id (conj Hlt Hnone)) as (_ & Hnone'). congruence.
Qed.

(* approvals held by pending transactions are approvals of CURRENT signers *)
Theorem approvals_are_current_signers accts next ops w st id t :
  wallets (reach accts next ops) !! w = Some st -> pending st !! id = Some t ->
  t_approved t <> [] /\ NoDup (t_approved t) /\ t_approved t ⊆ signers st /\ 0 <= id < next_id st.
Proof.
  intros H Ht. destruct (reach_inv accts next ops) as (Hw & _).
  destruct (Hw w st H) as ((_ & Hp & _) & _). destruct (Hp id t Ht) as (?&?&?&?&?). auto.
Qed.

(* signers, threshold and lock of a wallet change only if, in between, the wallet sent a transaction
   to itself that calls one of the five administrative methods *)
Theorem config_changes_only_via_self accts next ops more w st st' :
  wallets (reach accts next ops) !! w = Some st ->
  wallets (reach accts next (ops ++ more)) !! w = Some st' ->
  config st' <> config st ->
  exists ev, ev ∈ log (reach accts next (ops ++ more)) /\ ~ ev ∈ log (reach accts next ops) /\
    ev_w ev = w /\ t_to (ev_txn ev) = w /\
    exists o, t_payload (ev_txn ev) = PCall o /\ is_config_op o = true.
Proof.
  intros Hst Hst' Hne. unfold reach in *. rewrite run_app in *.
  pose proof (reach_inv accts next ops) as HI. unfold reach in HI.
  destruct (run_ext _ more HI) as (_ & l & Hl & Hc).
  destruct (Hc w st st' Hst Hst') as [Heq|(ev & Hev & Hw & Hto & o & Hp & Ho)]; [contradiction|].
  exists ev. split; [rewrite Hl; apply elem_of_app; right; assumption|].
  split.
  - intros Hold.
    pose proof (run_inv _ more HI) as (_ & _ & Hnd). rewrite Hl, map_app in Hnd.
    apply NoDup_app in Hnd as (_ & Hdisj & _).
    apply (Hdisj (ev_key ev)); apply elem_of_list_fmap; exists ev; auto.
  - split; [assumption|]. split; [assumption|]. exists o. auto.
Qed.

(* a rejected top-level message changes nothing *)
Lemma vm_send_rejected sd e W from to v p W' c r :
  vm_send sd e W from to v p = (W', (c, r)) -> c <> 0 -> W' = W.
Proof.
  unfold vm_send, OK.
  repeat match goal with
         | |- context [if ?b then _ else _] => destruct b
         | |- context [match ?x with PSend => _ | POpaque _ => _ | PCall _ => _ end] => destruct x
         | |- context [match ?x with Some _ => _ | None => _ end] => destruct x
         | |- context [match ?x with Fail _ => _ | Done _ _ => _ | Send _ _ _ _ => _ end] => destruct x
         | |- context [let '(_, _) := ?x in _] => destruct x as [? [? ?]]
         end; intros H Hc; inversion H; subst; try reflexivity; try lia.
Qed.

Theorem rejected_changes_nothing fuel W o W' c r :
  step fuel W o = (W', (c, r)) -> c <> 0 -> W' = W.
Proof.
  destruct o as [e from to v p|e from sg th dur start v]; cbn [step].
  - destruct (is_account W from); [|intros H _; inversion H; reflexivity].
    destruct fuel as [|f]; cbn [send]; [intros H _; inversion H; reflexivity|].
    apply vm_send_rejected.
  - destruct (is_account W from); [|intros H _; inversion H; reflexivity].
    unfold create, OK.
    repeat match goal with
           | |- context [if ?b then _ else _] => destruct b
           | |- context [match ?x with inl _ => _ | inr _ => _ end] => destruct x
           end; intros H Hc; inversion H; subst; try reflexivity; lia.
Qed.

(* ------------------------------------------------------------------------------------------ *)
(* THEOREMS (single-wallet level: one method invocation, any state) *)

(* Propose / Approve / Cancel by a non-signer are refused *)
Theorem only_signers_propose_approve_cancel cur bal e caller self ex o :
  caller ∉ signers cur ->
  match o with Propose _ _ _ | Approve _ _ | Cancel _ _ => True | _ => False end ->
  exists c, wallet_method cur bal e caller self ex o = Fail c /\ c <> 0.
Proof.
  intros Hns Ho. apply mem_false in Hns.
  destruct o; try contradiction; cbn [wallet_method].
  - unfold propose. destruct (value <? 0).
    + exists ILLEGAL_ARGUMENT. split; [reflexivity|unfold ILLEGAL_ARGUMENT; lia].
    + unfold is_signer. rewrite Hns. exists FORBIDDEN. split; [reflexivity|unfold FORBIDDEN; lia].
  - unfold approve, is_signer. rewrite Hns. exists FORBIDDEN. split; [reflexivity|unfold FORBIDDEN; lia].
  - unfold cancel, is_signer. rewrite Hns. exists FORBIDDEN. split; [reflexivity|unfold FORBIDDEN; lia].
Qed.

(* a transaction is cancelled only by a signer who is its FIRST remaining approver, with a matching
   hash if one is given; the effect is exactly the removal of that transaction *)
Theorem cancel_only_by_first_approver cur caller id h st' r :
  cancel cur caller id h = Done st' r ->
  caller ∈ signers cur /\
  (exists t, pending cur !! id = Some t /\ head (t_approved t) = Some caller /\
             (h = HNone \/ hash_matches h t = true)) /\
  st' = set_pending cur (delete id (pending cur)) /\ r = RNone.
Proof.
  unfold cancel. destruct (is_signer cur caller) eqn:Es; [|discriminate].
  apply is_signer_spec in Es. cbn [negb].
  destruct (pending cur !! id) as [t|]; [|discriminate].
  destruct (optN_eqb (head (t_approved t)) (Some caller)) eqn:Eh; [|discriminate].
  apply optN_eqb_eq in Eh. cbn [negb].
  destruct (negb (hash_empty h) && negb (hash_matches h t)) eqn:Ehash; [discriminate|].
  intros H. inversion H. split; [assumption|]. split; [|split; reflexivity].
  exists t. split; [reflexivity|]. split; [assumption|].
  destruct h; cbn in Ehash; [left; reflexivity|discriminate|right].
  apply negb_false_iff in Ehash. exact Ehash.
Qed.

(* the proposer is the first approver of the transaction he proposes, and it gets a fresh id *)
Theorem propose_first_approver cur bal e caller to v p :
  match propose cur bal e caller to v p with
  | Fail _ => True
  | Done st' r =>
      r = RProp (next_id cur) false OK RNone /\ next_id st' = next_id cur + 1 /\
      pending st' !! next_id cur =
        Some {| t_to := to; t_value := v; t_payload := p; t_approved := [caller] |}
  | Send st' id t k =>
      id = next_id cur /\ k = KProp (next_id cur) /\ next_id st' = next_id cur + 1 /\
      t = {| t_to := to; t_value := v; t_payload := p; t_approved := [caller] |}
  end.
Proof.
  unfold propose. destruct (v <? 0); [exact I|]. destruct (negb _); [exact I|].
  unfold approve_transaction. cbn [t_approved mem existsb app set_approved t_to t_value t_payload].
  unfold exec_if_approved. cbn [threshold set_pending set_next_id t_approved t_value].
  destruct (threshold cur <=? _).
  - destruct (check_available _ _ _ _); [exact I|]. repeat split.
  - cbn [mk_ret next_id pending set_pending set_next_id]. split; [reflexivity|]. split; [reflexivity|].
    apply lookup_insert.
Qed.

(* RemoveSigner / SwapSigner: the removed signer's approvals are gone from every pending transaction,
   nothing else about the transactions changes, and transactions left without approver are deleted *)
Definition purged (a : N) (old new : gmap Z txn) : Prop :=
  forall id,
    match old !! id with
    | None => new !! id = None
    | Some t =>
        match new !! id with
        | Some t' => same_body t t' /\ t_approved t' = remove_addr a (t_approved t) /\ t_approved t' <> []
        | None => remove_addr a (t_approved t) = []
        end
    end.

Lemma purge_purged a m : (forall id t, m !! id = Some t -> t_approved t <> []) -> purged a m (omap (purge_txn a) m).
Proof.
  intros Hne id. rewrite purge_lookup. destruct (m !! id) as [t|] eqn:Et; [|reflexivity].
  destruct (purge_txn a t) as [t'|] eqn:Ep.
  - apply purge_txn_some in Ep as [(?&?&?)|(?&?&->&?)]; [auto|].
    split; [assumption|]. split; [assumption|]. eauto.
  - apply purge_txn_none in Ep. tauto.
Qed.

Theorem purged_approvals_do_not_count cur caller self ex o st' r (x : addr) :
  wallet_inv cur ->
  (exists dec, o = RemoveSigner x dec) \/ (exists b, o = SwapSigner x b) ->
  wallet_method cur 0 0 caller self ex o = Done st' r ->
  let a := a_id x in
  a ∉ signers st' /\ purged a (pending cur) (pending st') /\
  (forall id t, pending st' !! id = Some t -> a ∉ t_approved t).
Proof.
  intros (Hwf & Hp & _) Ho H a.
  assert (forall id t, pending cur !! id = Some t -> t_approved t <> []) as Hne.
  { intros id t Ht. destruct (Hp id t Ht) as (_&?&_). assumption. }
  assert (pending st' = omap (purge_txn a) (pending cur) /\ a ∉ signers st') as (Hpend & Hns).
  { destruct Ho as [(dec & ->)|(b & ->)]; cbn [wallet_method] in H; fold a in H.
    - unfold remove_signer in H.
      repeat match type of H with context [if ?b then _ else _] => destruct b; try discriminate end;
        inversion H; cbn; (split; [reflexivity|]); rewrite remove_addr_elem; tauto.
    - unfold swap_signer in H.
      destruct (negb (N.eqb caller self)); [discriminate|].
      destruct (negb (ex (a_id b))); [discriminate|].
      destruct (is_signer cur a) eqn:Ea; [|discriminate]. cbn [negb] in H.
      destruct (is_signer cur (a_id b)) eqn:Eb; [discriminate|].
      inversion H. cbn. split; [reflexivity|].
      rewrite elem_of_app, remove_addr_elem, elem_of_list_singleton.
      intros [[_ Hx]|Hx]; [congruence|]. rewrite <- Hx in Eb. congruence. }
  split; [assumption|]. split.
  - rewrite Hpend. apply purge_purged. assumption.
  - intros id t Ht. rewrite Hpend, purge_lookup in Ht.
    destruct (pending cur !! id) as [t0|]; [|discriminate].
    apply purge_txn_some in Ht as [(_ & Ha & _)|(_ & _ & -> & Hn)]; [|assumption].
    rewrite Ha, remove_addr_elem. tauto.
Qed.

(* ------------------------------------------------------------------------------------------ *)
(* the log is complete and truthful; failures are decided before any send *)

(* "the last log entry announces the send from -> to : v, p and records the sender's actual state" *)
Definition announced (e : Z) (W : world) (from to : N) (v : Z) (p : payload) : Prop :=
  exists ev, last (log W) = Some ev /\ ev_w ev = from /\ t_to (ev_txn ev) = to /\
    t_value (ev_txn ev) = v /\ t_payload (ev_txn ev) = p /\ ev_epoch ev = e /\
    wallets W !! from = Some (ev_st ev) /\ ev_bal ev = balance W from.

(* the VM consults the nested sender ONLY for sends that were just logged: two nested senders that
   agree on announced sends are indistinguishable *)
Theorem every_send_is_logged sd1 sd2 e :
  (forall W from to v p, announced e W from to v p -> sd1 W from to v p = sd2 W from to v p) ->
  forall W from to v p, vm_send sd1 e W from to v p = vm_send sd2 e W from to v p.
Proof.
  intros H W from to v p. unfold vm_send.
  destruct (negb (v =? 0) && (v <? 0)); [reflexivity|].
  destruct (negb (v =? 0) && (balance W from <? v)); [reflexivity|].
  destruct (negb (exists_b W to)); [reflexivity|].
  destruct p as [|c|o]; [reflexivity|reflexivity|].
  destruct (wallets (transfer W from to v) !! to) as [cur|]; [|reflexivity].
  destruct (wallet_method _ _ _ _ _ _ _) as [c|st' r|st' id t k]; [reflexivity|reflexivity|].
  rewrite H; [reflexivity|].
  eexists. split; [cbn; apply last_snoc|]. cbn.
  repeat split. apply lookup_insert.
Qed.

(* an error is decided without consulting the nested sender, i.e. before any send is made *)
Theorem failure_decided_before_send sd1 sd2 e W from to v p W' c r :
  vm_send sd1 e W from to v p = (W', (c, r)) -> c <> 0 ->
  vm_send sd2 e W from to v p = (W', (c, r)).
Proof.
  unfold vm_send, OK. intros H Hc. revert H.
  destruct (negb (v =? 0) && (v <? 0)); [auto|].
  destruct (negb (v =? 0) && (balance W from <? v)); [auto|].
  destruct (negb (exists_b W to)); [auto|].
  destruct p as [|c0|o]; [auto|auto|].
  destruct (wallets (transfer W from to v) !! to) as [cur|]; [|auto].
  destruct (wallet_method _ _ _ _ _ _ _) as [c0|st' r0|st' id t k]; [auto|auto|].
  destruct (sd1 _ _ _ _ _) as [W4 [code r1]]. intros H. inversion H. lia.
Qed.

(* Propose / Approve report success whatever the inner send answered *)
Theorem inner_failure_is_tolerated sd e W from to v o cur st' id t k :
  negb (v =? 0) && (v <? 0) = false -> negb (v =? 0) && (balance W from <? v) = false ->
  exists_b W to = true ->
  wallets (transfer W from to v) !! to = Some cur ->
  wallet_method cur (balance (transfer W from to v) to) e from to (exists_b (transfer W from to v)) o
    = Send st' id t k ->
  exists W' code r, vm_send sd e W from to v (PCall o) = (W', (OK, mk_ret k true (checked_code code) r)).
Proof.
  intros H1 H2 H3 H4 H5. unfold vm_send. rewrite H1, H2, H3. cbn [negb]. rewrite H4, H5.
  destruct (sd _ _ _ _ _) as [W4 [code r]]. eauto.
Qed.

(* ------------------------------------------------------------------------------------------ *)
(* an approval enters a pending transaction only for the caller of the method: approvals are never
   forged, copied or moved between transactions *)
Definition approvals_from (cur : wallet) (caller : N) (id : Z) (t' : txn) : Prop :=
  forall a, a ∈ t_approved t' ->
    a = caller \/ exists t, pending cur !! id = Some t /\ a ∈ t_approved t /\ same_body t t'.

Lemma approve_transaction_approvals cur bal e caller id t k :
  match approve_transaction cur bal e caller id t k with
  | Fail _ => True
  | Done st' _ => forall i x, pending st' !! i = Some x ->
       (i = id /\ x = set_approved t (t_approved t ++ [caller])) \/ (i <> id /\ pending cur !! i = Some x)
  | Send st' i t' _ => i = id /\ t' = set_approved t (t_approved t ++ [caller]) /\
       forall j x, pending st' !! j = Some x -> j <> id /\ pending cur !! j = Some x
  end.
Proof.
  unfold approve_transaction, exec_if_approved.
  destruct (mem caller (t_approved t)); [exact I|]. cbn [threshold set_pending pending].
  destruct (threshold cur <=? _).
  - destruct (check_available _ _ _ _); [exact I|]. split; [reflexivity|]. split; [reflexivity|].
    intros j x Hx. cbn in Hx. apply lookup_delete_Some in Hx as [Hne Hx].
    rewrite lookup_insert_ne in Hx by congruence. split; [congruence|assumption].
  - intros i x Hx. cbn in Hx. destruct (decide (i = id)) as [->|Hne].
    + rewrite lookup_insert in Hx. inversion Hx. left. auto.
    + rewrite lookup_insert_ne in Hx by congruence. right. auto.
Qed.

Theorem approvals_only_by_caller cur bal e caller self ex o :
  wallet_inv cur ->
  match wallet_method cur bal e caller self ex o with
  | Fail _ => True
  | Done st' _ => forall id t', pending st' !! id = Some t' -> approvals_from cur caller id t'
  | Send st' id t _ =>
      approvals_from cur caller id t /\
      forall i t', pending st' !! i = Some t' -> approvals_from cur caller i t'
  end.
Proof.
  intros (Hwf & Hp & _).
  assert (forall i x, pending cur !! i = Some x -> approvals_from cur caller i x) as Hsame.
  { intros i x Hx a Ha. right. exists x. split; [assumption|]. split; [assumption|apply same_body_refl]. }
  destruct o; cbn [wallet_method].
  - unfold propose. destruct (value <? 0); [exact I|]. destruct (negb _); [exact I|].
    match goal with |- context [approve_transaction ?c ?b ?e ?ca ?i ?t ?k] =>
      pose proof (approve_transaction_approvals c b e ca i t k) as H;
      destruct (approve_transaction c b e ca i t k) as [c0|st' r|st' i0 t0 k0] end; [exact I| |].
    + intros id t' Ht'. destruct (H id t' Ht') as [(-> & ->)|(Hne & Hx)].
      * intros a Ha. cbn in Ha. apply elem_of_list_singleton in Ha. left. assumption.
      * cbn in Hx. rewrite lookup_insert_ne in Hx by congruence. apply Hsame. assumption.
    + destruct H as (-> & -> & H). split.
      * intros a Ha. cbn in Ha. apply elem_of_list_singleton in Ha. left. assumption.
      * intros i t' Ht'. destruct (H i t' Ht') as (Hne & Hx).
        cbn in Hx. rewrite lookup_insert_ne in Hx by congruence. apply Hsame. assumption.
  - unfold approve. destruct (negb _); [exact I|].
    destruct (pending cur !! id) as [t|] eqn:Et; [|exact I].
    destruct (_ && _); [exact I|].
    unfold exec_if_approved at 1.
    destruct (threshold cur <=? _).
    + destruct (check_available _ _ _ _); [exact I|]. split; [apply Hsame; assumption|].
      intros i t' Ht'. cbn in Ht'. apply lookup_delete_Some in Ht' as [_ Ht']. apply Hsame. assumption.
    + pose proof (approve_transaction_approvals cur bal e caller id t KAppr) as H.
      assert (approvals_from cur caller id (set_approved t (t_approved t ++ [caller]))) as Hnew.
      { intros a Ha. cbn in Ha. apply elem_of_app in Ha as [Ha|Ha].
        - right. exists t. split; [assumption|]. split; [assumption|repeat split].
        - apply elem_of_list_singleton in Ha. left. assumption. }
      destruct (approve_transaction cur bal e caller id t KAppr) as [c0|st' r|st' i0 t0 k0]; [exact I| |].
      * intros i t' Ht'. destruct (H i t' Ht') as [(-> & ->)|(Hne & Hx)]; [assumption|apply Hsame; assumption].
      * destruct H as (-> & -> & H). split; [assumption|].
        intros i t' Ht'. destruct (H i t' Ht') as (Hne & Hx). apply Hsame. assumption.
  - unfold cancel. destruct (negb _); [exact I|].
    destruct (pending cur !! id) as [t|]; [|exact I].
    destruct (negb _); [exact I|]. destruct (_ && _); [exact I|].
    intros i t' Ht'. cbn in Ht'. apply lookup_delete_Some in Ht' as [_ Ht']. apply Hsame. assumption.
  - unfold add_signer.
    repeat match goal with |- context [if ?b then _ else _] => destruct b; try exact I end.
    all: intros i t' Ht'; cbn in Ht'; apply Hsame; assumption.
  - unfold remove_signer.
    repeat match goal with |- context [if ?b then _ else _] => destruct b; try exact I end.
    all: intros i t' Ht'; cbn in Ht'; rewrite purge_lookup in Ht';
      destruct (pending cur !! i) as [t|] eqn:Et; [|discriminate];
      intros x Hx; right; exists t; split; [exact Et|];
      apply purge_txn_some in Ht' as [(Hb & Hap & _)|(Hb & Hap & _)];
      (split; [rewrite Hap in Hx; apply remove_addr_elem in Hx; tauto|assumption]).
  - unfold swap_signer.
    repeat match goal with |- context [if ?b then _ else _] => destruct b; try exact I end.
    all: intros i t' Ht'; cbn in Ht'; rewrite purge_lookup in Ht';
      destruct (pending cur !! i) as [t|] eqn:Et; [|discriminate];
      intros x Hx; right; exists t; split; [exact Et|];
      apply purge_txn_some in Ht' as [(Hb & Hap & _)|(Hb & Hap & _)];
      (split; [rewrite Hap in Hx; apply remove_addr_elem in Hx; tauto|assumption]).
  - unfold change_threshold.
    repeat match goal with |- context [if ?b then _ else _] => destruct b; try exact I end.
    all: intros i t' Ht'; cbn in Ht'; apply Hsame; assumption.
  - unfold lock_balance.
    repeat match goal with |- context [if ?b then _ else _] => destruct b; try exact I end.
    all: intros i t' Ht'; cbn in Ht'; apply Hsame; assumption.
Qed.

(* ------------------------------------------------------------------------------------------ *)
(* every nested call starts in a world that satisfies the invariant: the VM consults its nested
   sender only on such worlds (two senders that agree on invariant worlds are indistinguishable) *)
Theorem calls_start_in_invariant_worlds sd1 sd2 e :
  (forall W from to v p, inv W -> sd1 W from to v p = sd2 W from to v p) ->
  forall W from to v p, inv W -> vm_send sd1 e W from to v p = vm_send sd2 e W from to v p.
Proof.
  intros H W from to v p HW. unfold vm_send.
  destruct (negb (v =? 0) && (v <? 0)); [reflexivity|].
  destruct (negb (v =? 0) && (balance W from <? v)); [reflexivity|].
  destruct (negb (exists_b W to)); [reflexivity|].
  destruct p as [|c|o]; [reflexivity|reflexivity|].
  assert (inv (transfer W from to v)) as HW1 by (apply inv_transfer; assumption).
  destruct (wallets (transfer W from to v) !! to) as [cur|] eqn:Ecur; [|reflexivity].
  destruct HW1 as (Hw1 & _). destruct (Hw1 to cur Ecur) as (Hcinv & _).
  pose proof (m_method_post cur (balance (transfer W from to v) to) e from to
                (exists_b (transfer W from to v)) o Hcinv) as HM.
  destruct (wallet_method _ _ _ _ _ _ _) as [c|st' r|st' id t k]; [reflexivity|reflexivity|].
  destruct HM as (Hinv' & Hext & SF).
  rewrite H.
  - reflexivity.
  - eapply frame_inv; eauto.
Qed.

Theorem amount_locked_spec st x :
  (unlock_dur st <= x -> amount_locked st x = 0) /\
  (x < unlock_dur st -> x <= 0 -> amount_locked st x = init_bal st) /\
  (0 < x < unlock_dur st ->
     let L := amount_locked st x in
     unlock_dur st * (L - 1) < init_bal st * (unlock_dur st - x) <= unlock_dur st * L) /\
  (0 <= init_bal st -> 0 <= amount_locked st x <= init_bal st) /\
  (0 <= init_bal st -> forall y, x <= y -> amount_locked st y <= amount_locked st x).
Proof.
  destruct (amount_locked_cases st x) as (H1 & H2 & H3).
  split; [assumption|]. split; [assumption|]. split.
  - intros Hx. cbv zeta. rewrite (H3 Hx). apply div_ceil_spec. lia.
  - split; [apply amount_locked_bounds|]. intros Hi y Hy. apply amount_locked_mono; assumption.
Qed.
