(* Basic facts for the partition / expiration-queue proofs: power-pair algebra, table sums,
   quantisation, and structural lemmas about the queue invariant QInv. *)
From Coq Require Import ZArith List Bool Lia.
From stdpp Require Import gmap.
From VF Require Import Base.SetSum Model.Partition Model.PartitionInv.
Import ListNotations.
Open Scope Z_scope.

(* ---------- power pairs ---------- *)
Lemma pp_eq a b : raw a = raw b -> qa a = qa b -> a = b.
Proof. destruct a, b; cbn; intros -> ->; reflexivity. Qed.

Ltac pp_crush :=
  unfold pp_add, pp_sub, pp_neg, pp0 in *; apply pp_eq; cbn [raw qa] in *; lia.

Lemma pp_add_0_r a : pp_add a pp0 = a. Proof. pp_crush. Qed.
Lemma pp_add_0_l a : pp_add pp0 a = a. Proof. pp_crush. Qed.
Lemma pp_sub_0_r a : pp_sub a pp0 = a. Proof. pp_crush. Qed.
Lemma pp_add_comm a b : pp_add a b = pp_add b a. Proof. pp_crush. Qed.
Lemma pp_add_assoc a b c : pp_add a (pp_add b c) = pp_add (pp_add a b) c. Proof. pp_crush. Qed.
Lemma pp_add_sub a b : pp_sub (pp_add a b) b = a. Proof. pp_crush. Qed.
Lemma pp_sub_add a b : pp_add (pp_sub a b) b = a. Proof. pp_crush. Qed.

(* ---------- sums over the table ---------- *)
Lemma seteq_L (X Y : gset N) : X ≡ Y -> X = Y.
Proof. apply leibniz_equiv. Qed.

Lemma spow_empty tbl : spow tbl ∅ = pp0.
Proof. unfold spow. rewrite !ssum_empty. reflexivity. Qed.
Lemma spledge_empty tbl : spledge tbl ∅ = 0.
Proof. apply ssum_empty. Qed.
Lemma sfee_empty tbl : sfee tbl ∅ = 0.
Proof. apply ssum_empty. Qed.

Lemma ssum_add_eq f (A B C : gset N) : A ≡ B ∪ C -> B ## C -> ssum f A = ssum f B + ssum f C.
Proof. intros E D. apply seteq_L in E. subst A. apply ssum_union_disj, D. Qed.
Lemma spow_add_eq tbl (A B C : gset N) :
  A ≡ B ∪ C -> B ## C -> spow tbl A = pp_add (spow tbl B) (spow tbl C).
Proof.
  intros E D. unfold spow, pp_add; cbn [raw qa].
  rewrite (ssum_add_eq _ A B C E D), (ssum_add_eq _ A B C E D). reflexivity.
Qed.
Lemma spledge_add_eq tbl (A B C : gset N) :
  A ≡ B ∪ C -> B ## C -> spledge tbl A = spledge tbl B + spledge tbl C.
Proof. apply ssum_add_eq. Qed.
Lemma sfee_add_eq tbl (A B C : gset N) :
  A ≡ B ∪ C -> B ## C -> sfee tbl A = sfee tbl B + sfee tbl C.
Proof. apply ssum_add_eq. Qed.
Lemma spow_eq tbl (A B : gset N) : A ≡ B -> spow tbl A = spow tbl B.
Proof. intros E. apply seteq_L in E. subst. reflexivity. Qed.
Lemma spledge_eq tbl (A B : gset N) : A ≡ B -> spledge tbl A = spledge tbl B.
Proof. intros E. apply seteq_L in E. subst. reflexivity. Qed.
Lemma sfee_eq tbl (A B : gset N) : A ≡ B -> sfee tbl A = sfee tbl B.
Proof. intros E. apply seteq_L in E. subst. reflexivity. Qed.

Lemma tget_ext tbl tbl' f n : tbl' !! n = tbl !! n -> tget tbl' f n = tget tbl f n.
Proof. unfold tget. intros ->. reflexivity. Qed.
Lemma spow_ext tbl tbl' X :
  (forall n, n ∈ X -> tbl' !! n = tbl !! n) -> spow tbl' X = spow tbl X.
Proof.
  intros H. unfold spow. f_equal; apply ssum_ext; intros n Hn; apply tget_ext, H, Hn.
Qed.
Lemma spledge_ext tbl tbl' X :
  (forall n, n ∈ X -> tbl' !! n = tbl !! n) -> spledge tbl' X = spledge tbl X.
Proof. intros H. apply ssum_ext; intros n Hn; apply tget_ext, H, Hn. Qed.
Lemma sfee_ext tbl tbl' X :
  (forall n, n ∈ X -> tbl' !! n = tbl !! n) -> sfee tbl' X = sfee tbl X.
Proof. intros H. apply ssum_ext; intros n Hn; apply tget_ext, H, Hn. Qed.

Lemma tget_nonneg tbl X f n :
  TblOk tbl X -> n ∈ X -> (forall s m, sector_ok s m -> 0 <= f s) -> 0 <= tget tbl f n.
Proof.
  intros HT Hn Hf. destruct (HT n Hn) as (s & Hs & Hok). unfold tget. rewrite Hs. eapply Hf, Hok.
Qed.
Lemma spow_nonneg tbl X Y : TblOk tbl X -> Y ⊆ X -> 0 <= raw (spow tbl Y) /\ 0 <= qa (spow tbl Y).
Proof.
  intros HT HY. cbn. split; apply ssum_nonneg; intros n Hn;
    (eapply tget_nonneg; [exact HT|set_solver|]); intros s m (?&?&?&?&?); assumption.
Qed.
Lemma spow_raw_mono tbl X Y Z0 : TblOk tbl X -> Z0 ⊆ X -> Y ⊆ Z0 ->
  raw (spow tbl Y) <= raw (spow tbl Z0).
Proof.
  intros HT HZ HY. cbn. apply ssum_mono; [|exact HY]. intros n Hn.
  eapply tget_nonneg; [exact HT|set_solver|]. intros s m (?&?&?&?&?); assumption.
Qed.

(* ---------- quantisation ---------- *)
Lemma quant_up_shape qs e : 0 < q_unit qs ->
  exists m, quant_up qs e = q_unit qs * m + Z.rem (q_off qs) (q_unit qs).
Proof.
  intros _. unfold quant_up.
  destruct ((Z.rem (e - Z.rem (q_off qs) (q_unit qs)) (q_unit qs) =? 0)
            || (e - Z.rem (q_off qs) (q_unit qs) <? 0)); eexists; reflexivity.
Qed.
Lemma quant_up_idem qs e : 0 < q_unit qs -> quant_up qs (quant_up qs e) = quant_up qs e.
Proof.
  intros Hu. destruct (quant_up_shape qs e Hu) as (m & ->).
  unfold quant_up. set (o := Z.rem (q_off qs) (q_unit qs)). set (u := q_unit qs) in *.
  replace (u * m + o - o) with (m * u) by lia.
  rewrite Z.rem_mul by lia. rewrite Z.quot_mul by lia. cbn [Z.eqb orb]. lia.
Qed.
Lemma quant_up_noquant e : quant_up NO_QUANT e = e.
Proof.
  unfold quant_up, NO_QUANT; cbn [q_unit q_off].
  rewrite Z.rem_1_r. rewrite Z.rem_1_r. rewrite Z.quot_1_r. cbn [Z.eqb orb]. lia.
Qed.

(* ---------- ExpSetInv split into its shape part and non-emptiness ---------- *)
Record ExpSetPre (qs : quant) (tbl : gmap N sector) (F : gset N) (k : Z) (es : expset) : Prop := {
  ep_quant : quant_up qs k = k;
  ep_key_nonneg : 0 <= k;
  ep_disj : on_time es ## early es;
  ep_early_faulty : early es ⊆ F;
  ep_ot_at : forall n, n ∈ on_time es ->
             exists s, tbl !! n = Some s /\ quant_up qs (s_exp s) = k;
  ep_ea_at : forall n, n ∈ early es ->
             exists s, tbl !! n = Some s /\ k < quant_up qs (s_exp s);
  ep_pledge : on_time_pledge es = spledge tbl (on_time es);
  ep_active : active_power es = spow tbl (on_time es ∖ F);
  ep_faulty : faulty_power es = spow tbl ((on_time es ∩ F) ∪ early es);
  ep_fee : fee_deduction es = sfee tbl (es_all es) }.

Lemma esi_pre qs tbl F k es : ExpSetInv qs tbl F k es -> ExpSetPre qs tbl F k es.
Proof. intros []. constructor; assumption. Qed.
Lemma esi_of_pre qs tbl F k es :
  ExpSetPre qs tbl F k es -> es_all es <> ∅ -> ExpSetInv qs tbl F k es.
Proof. intros [] ?. constructor; assumption. Qed.

Lemma esp_empty qs tbl F k : quant_up qs k = k -> 0 <= k -> ExpSetPre qs tbl F k es_empty.
Proof.
  intros Hq Hk. constructor; cbn; try assumption; try set_solver.
  - rewrite <- (spow_empty tbl). apply spow_eq. set_solver.
  - rewrite <- (spow_empty tbl). apply spow_eq. set_solver.
Qed.

Lemma es_is_empty_true es : es_is_empty es = true <-> es_all es = ∅.
Proof.
  unfold es_is_empty, set_empty, es_all. rewrite andb_true_iff, !bool_decide_eq_true.
  split; [intros [-> ->]; apply seteq_L; set_solver|].
  intros H. split; apply seteq_L; set_solver.
Qed.
Lemma es_is_empty_false es : es_is_empty es = false <-> es_all es <> ∅.
Proof. rewrite <- es_is_empty_true. destruct (es_is_empty es); split; congruence. Qed.

(* changing the fault set outside the entry / the table outside the entry *)
Lemma esp_F_ext qs tbl F F' k es :
  es_all es ∩ F' ≡ es_all es ∩ F -> ExpSetPre qs tbl F k es -> ExpSetPre qs tbl F' k es.
Proof.
  intros E [Pq Pk Pd Pef Pot Pea Ppl Pact Pflt Pfee]. unfold es_all in E. constructor; try assumption.
  - set_solver.
  - rewrite Pact. apply spow_eq. set_solver.
  - rewrite Pflt. apply spow_eq. set_solver.
Qed.
Lemma esp_tbl_ext qs tbl tbl' F k es :
  (forall n, n ∈ es_all es -> tbl' !! n = tbl !! n) ->
  ExpSetPre qs tbl F k es -> ExpSetPre qs tbl' F k es.
Proof.
  intros E [Pq Pk Pd Pef Pot Pea Ppl Pact Pflt Pfee]. unfold es_all in E. constructor; try assumption.
  - intros n Hn. rewrite E by set_solver. auto.
  - intros n Hn. rewrite E by set_solver. auto.
  - rewrite Ppl. symmetry. apply spledge_ext. intros n Hn. apply E. set_solver.
  - rewrite Pact. symmetry. apply spow_ext. intros n Hn. apply E. set_solver.
  - rewrite Pflt. symmetry. apply spow_ext. intros n Hn. apply E. set_solver.
  - rewrite Pfee. symmetry. apply sfee_ext. intros n Hn. apply E. exact Hn.
Qed.

(* ---------- structural facts about QInv ---------- *)
Lemma qinv_entry_sub qs tbl F L q k es :
  QInv qs tbl F L q -> q !! k = Some es -> es_all es ⊆ L.
Proof. intros [He Hd Hc] Hk n Hn. apply Hc. eauto. Qed.

Lemma qinv_unique qs tbl F L q k1 k2 es1 es2 n :
  QInv qs tbl F L q -> q !! k1 = Some es1 -> q !! k2 = Some es2 ->
  n ∈ es_all es1 -> n ∈ es_all es2 -> k1 = k2.
Proof.
  intros [He Hd Hc] H1 H2 Hn1 Hn2. destruct (decide (k1 = k2)) as [|Hne]; [assumption|].
  specialize (Hd _ _ _ _ Hne H1 H2). set_solver.
Qed.

(* The generic update: entry k is replaced by [oes'] (None = deleted); the other entries keep
   their sectors, see the same faults and the same table rows. *)
Lemma QInv_update qs tbl tbl' F F' L L' (q : gmap Z expset) k oes' :
  QInv qs tbl F L q ->
  (forall k2 es2, k2 <> k -> q !! k2 = Some es2 ->
     es_all es2 ∩ F' ≡ es_all es2 ∩ F /\ (forall n, n ∈ es_all es2 -> tbl' !! n = tbl !! n)) ->
  match oes' with
  | Some es' => ExpSetInv qs tbl' F' k es' /\
                (forall k2 es2, k2 <> k -> q !! k2 = Some es2 -> es_all es2 ## es_all es')
  | None => True
  end ->
  L' ≡ (match oes' with Some es' => es_all es' | None => ∅ end)
        ∪ (L ∖ es_all (default es_empty (q !! k))) ->
  QInv qs tbl' F' L' (partial_alter (fun _ => oes') k q).
Proof.
  intros HQ Hoth Hnew HL. destruct HQ as [He Hd Hc]. constructor.
  - intros k1 es1. destruct (decide (k1 = k)) as [->|Hne].
    + rewrite lookup_partial_alter. intros ->. apply Hnew.
    + rewrite lookup_partial_alter_ne by congruence. intros H1.
      destruct (Hoth _ _ Hne H1) as [EF ET].
      apply esi_of_pre; [|apply (He _ _ H1)].
      apply (esp_tbl_ext qs tbl tbl'); [exact ET|].
      apply (esp_F_ext qs tbl F F'); [exact EF|]. apply esi_pre, He, H1.
  - intros k1 k2 es1 es2 Hne.
    destruct (decide (k1 = k)) as [->|Hn1]; destruct (decide (k2 = k)) as [->|Hn2];
      try congruence.
    + rewrite lookup_partial_alter, lookup_partial_alter_ne by congruence.
      intros -> H2. destruct Hnew as [_ Hnew]. symmetry. eapply Hnew; eauto.
    + rewrite lookup_partial_alter, lookup_partial_alter_ne by congruence.
      intros H1 ->. destruct Hnew as [_ Hnew]. eapply Hnew; eauto.
    + rewrite !lookup_partial_alter_ne by congruence. apply Hd, Hne.
  - intros n. rewrite HL. rewrite elem_of_union, elem_of_difference. split.
    + intros [Hn|[Hn Hnot]].
      * destruct oes' as [es'|]; [|set_solver]. exists k, es'.
        rewrite lookup_partial_alter. auto.
      * apply Hc in Hn as (k1 & es1 & H1 & Hn1).
        destruct (decide (k1 = k)) as [->|Hne].
        { rewrite H1 in Hnot. cbn in Hnot. contradiction. }
        exists k1, es1. rewrite lookup_partial_alter_ne by congruence. auto.
    + intros (k1 & es1 & H1 & Hn1). destruct (decide (k1 = k)) as [->|Hne].
      * rewrite lookup_partial_alter in H1. subst oes'. left. exact Hn1.
      * rewrite lookup_partial_alter_ne in H1 by congruence. right. split.
        { apply Hc. eauto. }
        destruct (q !! k) as [esk|] eqn:Hk; cbn; [|set_solver].
        specialize (Hd _ _ _ _ Hne H1 Hk). set_solver.
Qed.

Lemma QInv_insert qs tbl tbl' F F' L L' (q : gmap Z expset) k es' :
  QInv qs tbl F L q ->
  (forall k2 es2, k2 <> k -> q !! k2 = Some es2 ->
     es_all es2 ∩ F' ≡ es_all es2 ∩ F /\ (forall n, n ∈ es_all es2 -> tbl' !! n = tbl !! n)) ->
  ExpSetInv qs tbl' F' k es' ->
  (forall k2 es2, k2 <> k -> q !! k2 = Some es2 -> es_all es2 ## es_all es') ->
  L' ≡ es_all es' ∪ (L ∖ es_all (default es_empty (q !! k))) ->
  QInv qs tbl' F' L' (<[k := es']> q).
Proof.
  intros HQ Hoth Hes Hd HL.
  apply (QInv_update qs tbl tbl' F F' L L' q k (Some es')); auto.
Qed.

Lemma QInv_delete qs tbl tbl' F F' L L' (q : gmap Z expset) k :
  QInv qs tbl F L q ->
  (forall k2 es2, k2 <> k -> q !! k2 = Some es2 ->
     es_all es2 ∩ F' ≡ es_all es2 ∩ F /\ (forall n, n ∈ es_all es2 -> tbl' !! n = tbl !! n)) ->
  L' ≡ L ∖ es_all (default es_empty (q !! k)) ->
  QInv qs tbl' F' L' (delete k q).
Proof.
  intros HQ Hoth HL.
  apply (QInv_update qs tbl tbl' F F' L L' q k None); auto. rewrite HL. set_solver.
Qed.

(* update-or-delete, as must_update_or_delete does *)
Lemma QInv_update_or_delete qs tbl tbl' F F' L L' (q : gmap Z expset) k es' :
  QInv qs tbl F L q ->
  (forall k2 es2, k2 <> k -> q !! k2 = Some es2 ->
     es_all es2 ∩ F' ≡ es_all es2 ∩ F /\ (forall n, n ∈ es_all es2 -> tbl' !! n = tbl !! n)) ->
  ExpSetPre qs tbl' F' k es' ->
  (forall k2 es2, k2 <> k -> q !! k2 = Some es2 -> es_all es2 ## es_all es') ->
  L' ≡ es_all es' ∪ (L ∖ es_all (default es_empty (q !! k))) ->
  QInv qs tbl' F' L' (if es_is_empty es' then delete k q else <[k := es']> q).
Proof.
  intros HQ Hoth Hes Hd HL. destruct (es_is_empty es') eqn:E.
  - apply es_is_empty_true in E. eapply QInv_delete; eauto. rewrite HL, E. set_solver.
  - apply es_is_empty_false in E. eapply QInv_insert; eauto. apply esi_of_pre; assumption.
Qed.

Lemma QInv_empty qs tbl F : QInv qs tbl F ∅ ∅.
Proof.
  constructor.
  - intros k es. rewrite lookup_empty. discriminate.
  - intros k1 k2 es1 es2 _. rewrite lookup_empty. discriminate.
  - intros n. split; [set_solver|]. intros (k & es & H & _). rewrite lookup_empty in H. discriminate.
Qed.

(* the "other entries" side condition when F and tbl only change on a set T that the other
   entries do not touch *)
Lemma others_unaffected qs (tbl tbl' : gmap N sector) F F' L (q : gmap Z expset) k (T : gset N) :
  QInv qs tbl F L q ->
  (forall n, n ∉ T -> (n ∈ F' <-> n ∈ F)) ->
  (forall n, n ∉ T -> tbl' !! n = tbl !! n) ->
  (forall k2 es2, k2 <> k -> q !! k2 = Some es2 -> es_all es2 ## T) ->
  forall k2 es2, k2 <> k -> q !! k2 = Some es2 ->
     es_all es2 ∩ F' ≡ es_all es2 ∩ F /\ (forall n, n ∈ es_all es2 -> tbl' !! n = tbl !! n).
Proof.
  intros HQ HF HT HD k2 es2 Hne H2. specialize (HD _ _ Hne H2). split.
  - intros n. rewrite !elem_of_intersection. split; intros [Hn Hf]; split; try assumption;
      apply HF; try assumption; set_solver.
  - intros n Hn. apply HT. set_solver.
Qed.
