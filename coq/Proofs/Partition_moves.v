(* The atomic queue moves (q_add, q_remove, update-or-delete of one entry) preserve QInv. *)
From Coq Require Import ZArith List Bool Lia.
From stdpp Require Import gmap.
From VF Require Import Base.SetSum Model.Partition Model.PartitionInv Proofs.Partition_base
  Proofs.Partition_entry.
Import ListNotations.
Open Scope Z_scope.

(* ---------- results of the small queue primitives ---------- *)
Lemma q_may_get_ok q k es : q_may_get q k = Ok es -> 0 <= k /\ es = default es_empty (q !! k).
Proof. unfold q_may_get. destruct (k <? 0) eqn:E; [discriminate|]. intros [= <-]. split; [lia|reflexivity]. Qed.

Lemma es_add_ok es ot ea pl act flt fee es' :
  es_add es ot ea pl act flt fee = Ok es' ->
  on_time es' = on_time es ∪ ot /\ early es' = early es ∪ ea /\
  on_time_pledge es' = on_time_pledge es + pl /\
  active_power es' = pp_add (active_power es) act /\
  faulty_power es' = pp_add (faulty_power es) flt /\
  fee_deduction es' = fee_deduction es + fee.
Proof.
  unfold es_add. destruct (es_validate _); [|discriminate]. intros [= <-]. cbn. tauto.
Qed.

Lemma es_remove_ok es ot ea pl act flt fee es' :
  es_remove es ot ea pl act flt fee = Ok es' ->
  ot ⊆ on_time es /\ ea ⊆ early es /\
  on_time es' = on_time es ∖ ot /\ early es' = early es ∖ ea /\
  on_time_pledge es' = on_time_pledge es - pl /\
  active_power es' = pp_sub (active_power es) act /\
  faulty_power es' = pp_sub (faulty_power es) flt /\
  fee_deduction es' = fee_deduction es - fee.
Proof.
  unfold es_remove, subset.
  destruct (bool_decide (ot ⊆ on_time es)) eqn:E1; cbn [negb]; [|discriminate].
  destruct (bool_decide (ea ⊆ early es)) eqn:E2; cbn [negb]; [|discriminate].
  destruct (es_validate _); [|discriminate]. intros [= <-]. cbn.
  apply bool_decide_eq_true in E1, E2. tauto.
Qed.

(* the entry found (or the empty default) at a quantised key satisfies the shape invariant *)
Lemma qinv_pre_at qs tbl F L (q : gmap Z expset) k :
  QInv qs tbl F L q -> quant_up qs k = k -> 0 <= k ->
  ExpSetPre qs tbl F k (default es_empty (q !! k)).
Proof.
  intros HQ Hq Hk. destruct (q !! k) as [es|] eqn:E; cbn.
  - apply esi_pre. eapply qi_entry; eauto.
  - apply esp_empty; assumption.
Qed.

Lemma qinv_others_disj_fresh qs tbl F L (q : gmap Z expset) (T : gset N) :
  QInv qs tbl F L q -> T ## L ->
  forall k2 es2, q !! k2 = Some es2 -> es_all es2 ## T.
Proof. intros HQ HT k2 es2 H2. pose proof (qinv_entry_sub _ _ _ _ _ _ _ HQ H2). set_solver. Qed.

Lemma others_same qs (tbl : gmap N sector) F L (q : gmap Z expset) k :
  QInv qs tbl F L q ->
  forall k2 es2, k2 <> k -> q !! k2 = Some es2 ->
     es_all es2 ∩ F ≡ es_all es2 ∩ F /\ (forall n, n ∈ es_all es2 -> tbl !! n = tbl !! n).
Proof. intros _ k2 es2 _ _. split; [reflexivity|auto]. Qed.

(* The generic single-entry move: entry k loses the sectors R and gains fresh sectors A; the fault
   set may change, but only on sectors of that entry or of A. *)
Lemma QInv_modify qs (tbl : gmap N sector) F F' L (q : gmap Z expset) k es' (R A : gset N) :
  QInv qs tbl F L q ->
  R ⊆ es_all (default es_empty (q !! k)) ->
  es_all es' ≡ (es_all (default es_empty (q !! k)) ∖ R) ∪ A ->
  A ## L ->
  (forall n, n ∉ es_all (default es_empty (q !! k)) ∪ A -> (n ∈ F' <-> n ∈ F)) ->
  ExpSetPre qs tbl F' k es' ->
  QInv qs tbl F' ((L ∖ R) ∪ A) (if es_is_empty es' then delete k q else <[k := es']> q).
Proof.
  intros HQ HR Hall HA HF Hpre.
  set (old := es_all (default es_empty (q !! k))) in *.
  assert (Hold : old ⊆ L).
  { subst old. destruct (q !! k) as [es|] eqn:E; cbn; [|set_solver].
    eapply qinv_entry_sub; eauto. }
  assert (Hoth : forall k2 es2, k2 <> k -> q !! k2 = Some es2 ->
                 es_all es2 ## old /\ es_all es2 ## A).
  { intros k2 es2 Hne H2. split.
    - subst old. destruct (q !! k) as [es|] eqn:E; cbn; [|set_solver].
      eapply qi_disj; eauto.
    - pose proof (qinv_entry_sub _ _ _ _ _ _ _ HQ H2) as Hs.
      clear -Hs HA. set_solver. }
  eapply QInv_update_or_delete; [exact HQ| |exact Hpre| |].
  - intros k2 es2 Hne H2. destruct (Hoth _ _ Hne H2) as [D1 D2]. split; [|auto].
    intros n. rewrite !elem_of_intersection. split; intros [Hn Hf]; (split; [assumption|]);
      apply HF; try assumption; clear -Hn D1 D2; set_solver.
  - intros k2 es2 Hne H2. destruct (Hoth _ _ Hne H2) as [D1 D2].
    rewrite Hall. clear -D1 D2. set_solver.
  - rewrite Hall. fold old. clear -Hold HR. intros n.
    destruct (decide (n ∈ old)); destruct (decide (n ∈ R)); set_solver.
Qed.

(* Q1: q_add of fresh non-faulty on-time sectors *)
Lemma q_add_on_time_inv qs tbl F L (q q' : gmap Z expset) e (T : gset N) :
  0 < q_unit qs -> QInv qs tbl F L q ->
  q_add qs q e T ∅ (spow tbl T) pp0 (spledge tbl T) (sfee tbl T) = Ok q' ->
  T <> ∅ -> T ## L -> T ## F ->
  (forall n, n ∈ T -> exists s, tbl !! n = Some s /\ quant_up qs (s_exp s) = quant_up qs e) ->
  QInv qs tbl F (L ∪ T) q'.
Proof.
  intros Hu HQ Hadd Hne HTL HTF Hat. unfold q_add in Hadd.
  set (k := quant_up qs e) in *.
  destruct (q_may_get q k) as [es|] eqn:Eg; cbn [rbind] in Hadd; [|discriminate].
  apply q_may_get_ok in Eg as [Hk ->].
  destruct (es_add _ _ _ _ _ _ _) as [es'|] eqn:Ea; cbn [rbind] in Hadd; [|discriminate].
  apply es_add_ok in Ea as (Eot & Eea & Epl & Eact & Eflt & Efee).
  unfold q_must_update in Hadd. destruct (k <? 0); [discriminate|]. injection Hadd as <-.
  assert (Hq : quant_up qs k = k) by (apply quant_up_idem, Hu).
  set (old := default es_empty (q !! k)) in *.
  assert (Hold : es_all old ⊆ L).
  { subst old. destruct (q !! k) as [es|] eqn:E; cbn; [|set_solver].
    eapply qinv_entry_sub; eauto. }
  assert (Hall : es_all es' ≡ (es_all old ∖ ∅) ∪ T).
  { unfold es_all. rewrite Eot, Eea. clear. set_solver. }
  assert (Hnemp : es_is_empty es' = false).
  { apply es_is_empty_false. intros E. rewrite E in Hall. clear -Hall Hne. set_solver. }
  pose proof (QInv_modify qs tbl F F L q k es' ∅ T HQ) as HM. fold old in HM.
  rewrite Hnemp in HM. replace (L ∪ T) with (L ∖ ∅ ∪ T) by (apply seteq_L; clear; set_solver).
  apply HM; clear HM; try assumption.
  - clear. set_solver.
  - tauto.
  - eapply (esp_add_on_time qs tbl F k old es' T); try eassumption.
    + subst old. eapply qinv_pre_at; eauto.
    + clear -Hold HTL. set_solver.
    + rewrite Eea. clear. set_solver.
    + rewrite Eflt. apply pp_add_0_r.
Qed.

(* Q2: q_add of fresh faulty sectors as early at a key below their own expiration *)
Lemma q_add_early_inv qs tbl F L (q q' : gmap Z expset) e (T : gset N) :
  0 < q_unit qs -> QInv qs tbl F L q ->
  q_add qs q e ∅ T pp0 (spow tbl T) 0 (sfee tbl T) = Ok q' ->
  T <> ∅ -> T ## L -> T ⊆ F ->
  (forall n, n ∈ T -> exists s, tbl !! n = Some s /\ quant_up qs e < quant_up qs (s_exp s)) ->
  QInv qs tbl F (L ∪ T) q'.
Proof.
  intros Hu HQ Hadd Hne HTL HTF Hat. unfold q_add in Hadd.
  set (k := quant_up qs e) in *.
  destruct (q_may_get q k) as [es|] eqn:Eg; cbn [rbind] in Hadd; [|discriminate].
  apply q_may_get_ok in Eg as [Hk ->].
  destruct (es_add _ _ _ _ _ _ _) as [es'|] eqn:Ea; cbn [rbind] in Hadd; [|discriminate].
  apply es_add_ok in Ea as (Eot & Eea & Epl & Eact & Eflt & Efee).
  unfold q_must_update in Hadd. destruct (k <? 0); [discriminate|]. injection Hadd as <-.
  assert (Hq : quant_up qs k = k) by (apply quant_up_idem, Hu).
  set (old := default es_empty (q !! k)) in *.
  assert (Hold : es_all old ⊆ L).
  { subst old. destruct (q !! k) as [es|] eqn:E; cbn; [|set_solver].
    eapply qinv_entry_sub; eauto. }
  assert (Hall : es_all es' ≡ (es_all old ∖ ∅) ∪ T).
  { unfold es_all. rewrite Eot, Eea. clear. set_solver. }
  assert (Hnemp : es_is_empty es' = false).
  { apply es_is_empty_false. intros E. rewrite E in Hall. clear -Hall Hne. set_solver. }
  pose proof (QInv_modify qs tbl F F L q k es' ∅ T HQ) as HM. fold old in HM.
  rewrite Hnemp in HM. replace (L ∪ T) with (L ∖ ∅ ∪ T) by (apply seteq_L; clear; set_solver).
  apply HM; clear HM; try assumption.
  - clear. set_solver.
  - tauto.
  - eapply (esp_add_early qs tbl F k old es' T); try eassumption.
    + subst old. eapply qinv_pre_at; eauto.
    + clear -Hold HTL. set_solver.
    + rewrite Eot. clear. set_solver.
    + rewrite Epl. lia.
    + rewrite Eact. apply pp_add_0_r.
Qed.

(* Q3: q_remove of non-faulty on-time sectors T of the entry at the (quantised) key k *)
Lemma q_remove_active_inv qs tbl F L (q q' : gmap Z expset) k es (T : gset N) :
  QInv qs tbl F L q -> q !! k = Some es ->
  q_remove qs q k T ∅ (spow tbl T) pp0 (spledge tbl T) (sfee tbl T) = Ok q' ->
  T ## F ->
  QInv qs tbl F (L ∖ T) q' /\ T ⊆ on_time es.
Proof.
  intros HQ Hk Hrem HTF.
  pose proof (qi_entry _ _ _ _ _ HQ _ _ Hk) as Hes.
  unfold q_remove in Hrem. rewrite (ei_quant _ _ _ _ _ Hes) in Hrem.
  destruct (k <? 0); [discriminate|]. rewrite Hk in Hrem.
  destruct (es_remove _ _ _ _ _ _ _) as [es'|] eqn:Er; cbn [rbind] in Hrem; [|discriminate].
  apply es_remove_ok in Er as (Sot & Sea & Eot & Eea & Epl & Eact & Eflt & Efee).
  unfold q_must_update_or_delete in Hrem. destruct (k <? 0); [discriminate|].
  injection Hrem as <-. split; [|exact Sot].
  pose proof (QInv_modify qs tbl F F L q k es' T ∅ HQ) as HM. rewrite Hk in HM. cbn [default] in HM.
  replace (L ∖ T) with (L ∖ T ∪ ∅) by (apply seteq_L; clear; set_solver).
  apply HM; clear HM.
  - unfold es_all. clear -Sot. set_solver.
  - unfold es_all. rewrite Eot, Eea. pose proof (ei_disj _ _ _ _ _ Hes) as D.
    clear -Sot D. set_solver.
  - clear. set_solver.
  - tauto.
  - eapply (esp_remove_active qs tbl F k es es' T); try eassumption.
    + apply esi_pre, Hes.
    + rewrite Eea. clear. set_solver.
    + rewrite Eflt. apply pp_sub_0_r.
Qed.
