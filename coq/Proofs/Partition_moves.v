(* Entry-level updates of the expiration queue preserve the entry invariant (ExpSetPre), and the
   atomic queue moves q_add / q_remove preserve QInv. *)
From Coq Require Import ZArith List Bool Lia.
From stdpp Require Import gmap.
From VF Require Import Base.SetSum Model.Partition Model.PartitionInv Proofs.Partition_base.
Import ListNotations.
Open Scope Z_scope.

Ltac pp_crush :=
  unfold pp_add, pp_sub, pp_neg, pp0 in *; apply pp_eq; cbn [raw qa] in *; lia.

(* E1: fresh non-faulty sectors T, all expiring (quantised) at k, join the on-time set *)
Lemma esp_add_on_time qs tbl F k es es' (T : gset N) :
  ExpSetPre qs tbl F k es ->
  T ## es_all es -> T ## F ->
  (forall n, n ∈ T -> exists s, tbl !! n = Some s /\ quant_up qs (s_exp s) = k) ->
  on_time es' = on_time es ∪ T -> early es' = early es ->
  on_time_pledge es' = on_time_pledge es + spledge tbl T ->
  active_power es' = pp_add (active_power es) (spow tbl T) ->
  faulty_power es' = faulty_power es ->
  fee_deduction es' = fee_deduction es + sfee tbl T ->
  ExpSetPre qs tbl F k es'.
Proof.
  intros [Pq Pk Pd Pef Pot Pea Ppl Pact Pflt Pfee] HT HTF Hat Eot Eea Epl Eact Eflt Efee. unfold es_all in *.
  constructor; rewrite ?Eot, ?Eea, ?Epl, ?Eact, ?Eflt, ?Efee; try assumption.
  - set_solver.
  - intros n Hn. apply elem_of_union in Hn as [Hn|Hn]; auto.
  - rewrite Ppl. symmetry. apply spledge_add_eq; set_solver.
  - rewrite Pact. symmetry. apply spow_add_eq; set_solver.
  - rewrite Pflt. apply spow_eq. set_solver.
  - unfold es_all. rewrite Eot, Eea, Pfee. symmetry. unfold es_all.
    apply sfee_add_eq; set_solver.
Qed.

(* E2: fresh faulty sectors T join the early set at a key below their own expiration *)
Lemma esp_add_early qs tbl F k es es' (T : gset N) :
  ExpSetPre qs tbl F k es ->
  T ## es_all es -> T ⊆ F ->
  (forall n, n ∈ T -> exists s, tbl !! n = Some s /\ k < quant_up qs (s_exp s)) ->
  on_time es' = on_time es -> early es' = early es ∪ T ->
  on_time_pledge es' = on_time_pledge es ->
  active_power es' = active_power es ->
  faulty_power es' = pp_add (faulty_power es) (spow tbl T) ->
  fee_deduction es' = fee_deduction es + sfee tbl T ->
  ExpSetPre qs tbl F k es'.
Proof.
  intros [Pq Pk Pd Pef Pot Pea Ppl Pact Pflt Pfee] HT HTF Hat Eot Eea Epl Eact Eflt Efee. unfold es_all in *.
  constructor; rewrite ?Eot, ?Eea, ?Epl, ?Eact, ?Eflt, ?Efee; try assumption.
  - set_solver.
  - set_solver.
  - intros n Hn. apply elem_of_union in Hn as [Hn|Hn]; auto.
  - rewrite Pflt. symmetry. apply spow_add_eq; set_solver.
  - unfold es_all. rewrite Eot, Eea, Pfee. symmetry. unfold es_all.
    apply sfee_add_eq; set_solver.
Qed.

(* E3: non-faulty on-time sectors T leave the entry *)
Lemma esp_remove_active qs tbl F k es es' (T : gset N) :
  ExpSetPre qs tbl F k es ->
  T ⊆ on_time es -> T ## F ->
  on_time es' = on_time es ∖ T -> early es' = early es ->
  on_time_pledge es' = on_time_pledge es - spledge tbl T ->
  active_power es' = pp_sub (active_power es) (spow tbl T) ->
  faulty_power es' = faulty_power es ->
  fee_deduction es' = fee_deduction es - sfee tbl T ->
  ExpSetPre qs tbl F k es'.
Proof.
  intros [Pq Pk Pd Pef Pot Pea Ppl Pact Pflt Pfee] HT HTF Eot Eea Epl Eact Eflt Efee. unfold es_all in *.
  constructor; rewrite ?Eot, ?Eea, ?Epl, ?Eact, ?Eflt, ?Efee; try assumption.
  - set_solver.
  - intros n Hn. apply Pot. set_solver.
  - rewrite Ppl.
    rewrite (spledge_add_eq tbl (on_time es) (on_time es ∖ T) T); [lia| |set_solver].
    intros n. destruct (decide (n ∈ T)); set_solver.
  - rewrite Pact.
    rewrite (spow_add_eq tbl (on_time es ∖ F) ((on_time es ∖ T) ∖ F) T); [|  |set_solver].
    + pp_crush.
    + intros n. destruct (decide (n ∈ T)); set_solver.
  - rewrite Pflt. apply spow_eq. set_solver.
  - unfold es_all. rewrite Eot, Eea, Pfee. unfold es_all.
    rewrite (sfee_add_eq tbl (on_time es ∪ early es) (on_time es ∖ T ∪ early es) T); [lia| |set_solver].
    intros n. destruct (decide (n ∈ T)); set_solver.
Qed.

(* E4: non-faulty on-time sectors T become faulty in place (fault set grows by T) *)
Lemma esp_mark_faulty qs tbl F k es es' (T : gset N) :
  ExpSetPre qs tbl F k es ->
  T ⊆ on_time es -> T ## F ->
  on_time es' = on_time es -> early es' = early es ->
  on_time_pledge es' = on_time_pledge es ->
  active_power es' = pp_sub (active_power es) (spow tbl T) ->
  faulty_power es' = pp_add (faulty_power es) (spow tbl T) ->
  fee_deduction es' = fee_deduction es ->
  ExpSetPre qs tbl (F ∪ T) k es'.
Proof.
  intros [Pq Pk Pd Pef Pot Pea Ppl Pact Pflt Pfee] HT HTF Eot Eea Epl Eact Eflt Efee. unfold es_all in *.
  constructor; rewrite ?Eot, ?Eea, ?Epl, ?Eact, ?Eflt, ?Efee; try assumption.
  - set_solver.
  - rewrite Pact.
    rewrite (spow_add_eq tbl (on_time es ∖ F) (on_time es ∖ (F ∪ T)) T); [| |set_solver].
    + pp_crush.
    + intros n. destruct (decide (n ∈ T)); set_solver.
  - rewrite Pflt. symmetry. apply spow_add_eq; [|set_solver].
    intros n. destruct (decide (n ∈ T)); set_solver.
  - unfold es_all. rewrite Eot, Eea. exact Pfee.
Qed.

(* E5: recovery.  Faulty on-time sectors Tot become active in place; early sectors Tea leave the
   entry (to be re-added on time elsewhere).  F' is the fault set afterwards. *)
Lemma esp_recover qs tbl F F' k es es' (Tot Tea : gset N) :
  ExpSetPre qs tbl F k es ->
  Tot ⊆ on_time es ∩ F -> Tea ⊆ early es ->
  (forall n, n ∈ es_all es -> (n ∈ F' <-> n ∈ F /\ n ∉ Tot ∪ Tea)) ->
  on_time es' = on_time es -> early es' = early es ∖ Tea ->
  on_time_pledge es' = on_time_pledge es ->
  active_power es' = pp_add (active_power es) (spow tbl Tot) ->
  faulty_power es' = pp_sub (pp_sub (faulty_power es) (spow tbl Tot)) (spow tbl Tea) ->
  fee_deduction es' = fee_deduction es - sfee tbl Tea ->
  ExpSetPre qs tbl F' k es'.
Proof.
  intros [Pq Pk Pd Pef Pot Pea Ppl Pact Pflt Pfee] HTot HTea HF Eot Eea Epl Eact Eflt Efee. unfold es_all in *.
  constructor; rewrite ?Eot, ?Eea, ?Epl, ?Eact, ?Eflt, ?Efee; try assumption.
  - set_solver.
  - intros n Hn. apply HF; set_solver.
  - intros n Hn. apply Pea. set_solver.
  - rewrite Pact. symmetry. apply spow_add_eq.
    + intros n. rewrite elem_of_union, !elem_of_difference. split.
      * intros [Hn Hnf]. destruct (decide (n ∈ Tot)); [right; assumption|left].
        split; [assumption|]. intros HnF. apply Hnf. apply HF; set_solver.
      * intros [[Hn Hnf]|Hn]; [|split; [set_solver|]].
        { split; [assumption|]. intros HnF'. apply HF in HnF'; [tauto|set_solver]. }
        intros HnF'. apply HF in HnF'; set_solver.
    + set_solver.
  - rewrite Pflt.
    rewrite (spow_add_eq tbl (on_time es ∩ F ∪ early es)
               (on_time es ∩ F' ∪ early es ∖ Tea) (Tot ∪ Tea)).
    + rewrite (spow_add_eq tbl (Tot ∪ Tea) Tot Tea); [pp_crush|reflexivity|set_solver].
    + intros n. rewrite !elem_of_union, !elem_of_intersection, !elem_of_difference.
      split.
      * intros [[Hn HnF]|Hn].
        { destruct (decide (n ∈ Tot)); [tauto|]. left. left. split; [assumption|].
          apply HF; set_solver. }
        { destruct (decide (n ∈ Tea)); tauto. }
      * intros [[[Hn HnF']|[Hn _]]|[Hn|Hn]]; try tauto.
        { left. split; [assumption|]. apply HF in HnF'; [tauto|set_solver]. }
        { left. set_solver. }
        { right. set_solver. }
    + intros n. rewrite !elem_of_union, !elem_of_intersection, !elem_of_difference.
      intros [[Hn HnF']|[Hn Hnt]] [Ht|Ht]; try tauto.
      * apply HF in HnF'; set_solver.
      * set_solver.
      * set_solver.
  - unfold es_all. rewrite Eot, Eea, Pfee. unfold es_all.
    rewrite (sfee_add_eq tbl (on_time es ∪ early es) (on_time es ∪ early es ∖ Tea) Tea); [lia| |set_solver].
    intros n. destruct (decide (n ∈ Tea)); set_solver.
Qed.

(* E6: faulty sectors leave the entry (termination): Tot on-time-and-faulty, Tea early *)
Lemma esp_remove_faulty qs tbl F k es es' (Tot Tea : gset N) :
  ExpSetPre qs tbl F k es ->
  Tot ⊆ on_time es ∩ F -> Tea ⊆ early es ->
  on_time es' = on_time es ∖ Tot -> early es' = early es ∖ Tea ->
  on_time_pledge es' = on_time_pledge es - spledge tbl Tot ->
  active_power es' = active_power es ->
  faulty_power es' = pp_sub (faulty_power es) (spow tbl (Tot ∪ Tea)) ->
  fee_deduction es' = fee_deduction es - sfee tbl (Tot ∪ Tea) ->
  ExpSetPre qs tbl F k es'.
Proof.
  intros [Pq Pk Pd Pef Pot Pea Ppl Pact Pflt Pfee] HTot HTea Eot Eea Epl Eact Eflt Efee. unfold es_all in *.
  constructor; rewrite ?Eot, ?Eea, ?Epl, ?Eact, ?Eflt, ?Efee; try assumption.
  - set_solver.
  - set_solver.
  - intros n Hn. apply Pot. set_solver.
  - intros n Hn. apply Pea. set_solver.
  - rewrite Ppl.
    rewrite (spledge_add_eq tbl (on_time es) (on_time es ∖ Tot) Tot); [lia| |set_solver].
    intros n. destruct (decide (n ∈ Tot)); set_solver.
  - rewrite Pact. apply spow_eq. set_solver.
  - rewrite Pflt.
    rewrite (spow_add_eq tbl (on_time es ∩ F ∪ early es)
               ((on_time es ∖ Tot) ∩ F ∪ early es ∖ Tea) (Tot ∪ Tea)); [pp_crush| |set_solver].
    intros n. destruct (decide (n ∈ Tot)); destruct (decide (n ∈ Tea)); set_solver.
  - unfold es_all. rewrite Eot, Eea, Pfee. unfold es_all.
    rewrite (sfee_add_eq tbl (on_time es ∪ early es)
               (on_time es ∖ Tot ∪ early es ∖ Tea) (Tot ∪ Tea)); [lia| |set_solver].
    intros n. destruct (decide (n ∈ Tot)); destruct (decide (n ∈ Tea)); set_solver.
Qed.

(* E7: every sector of the entry is faulty afterwards (missed PoSt) *)
Lemma esp_all_faulty qs tbl F F' k es es' :
  ExpSetPre qs tbl F k es ->
  es_all es ⊆ F' ->
  on_time es' = on_time es -> early es' = early es ->
  on_time_pledge es' = on_time_pledge es ->
  active_power es' = pp0 ->
  faulty_power es' = pp_add (faulty_power es) (active_power es) ->
  fee_deduction es' = fee_deduction es ->
  ExpSetPre qs tbl F' k es'.
Proof.
  intros [Pq Pk Pd Pef Pot Pea Ppl Pact Pflt Pfee] HF Eot Eea Epl Eact Eflt Efee. unfold es_all in *.
  constructor; rewrite ?Eot, ?Eea, ?Epl, ?Eact, ?Eflt, ?Efee; try assumption.
  - set_solver.
  - rewrite <- (spow_empty tbl). apply spow_eq. set_solver.
  - rewrite Pflt, Pact. symmetry. apply spow_add_eq; [|set_solver].
    intros n. destruct (decide (n ∈ F)); set_solver.
  - unfold es_all. rewrite Eot, Eea. exact Pfee.
Qed.

(* ---------- results of the small queue primitives ---------- *)
Lemma q_may_get_ok q k es : q_may_get q k = Ok es -> 0 <= k /\ es = default es_empty (q !! k).
Proof. unfold q_may_get. destruct (k <? 0) eqn:E; [discriminate|]. intros [= <-]. split; [lia|reflexivity]. Qed.

Lemma es_add_ok es ot ea pl act flt fee es' :
  es_add es ot ea pl act flt fee = Ok es' ->
  on_time es' = on_time es ∪ ot /\ early es' = early es ∪ ea /\
  on_time_pledge es' = on_time_pledge es + pl /\
  active_power es' = pp_add (active_power es) act /\
  faulty_power es' = pp_add (faulty_power es) flt /\
  fee_deduction es' = fee_deduction es + fee.
Proof.
  unfold es_add. destruct (es_validate _); [|discriminate]. intros [= <-]. cbn. tauto.
Qed.

Lemma es_remove_ok es ot ea pl act flt fee es' :
  es_remove es ot ea pl act flt fee = Ok es' ->
  ot ⊆ on_time es /\ ea ⊆ early es /\
  on_time es' = on_time es ∖ ot /\ early es' = early es ∖ ea /\
  on_time_pledge es' = on_time_pledge es - pl /\
  active_power es' = pp_sub (active_power es) act /\
  faulty_power es' = pp_sub (faulty_power es) flt /\
  fee_deduction es' = fee_deduction es - fee.
Proof.
  unfold es_remove, subset.
  destruct (bool_decide (ot ⊆ on_time es)) eqn:E1; cbn [negb]; [|discriminate].
  destruct (bool_decide (ea ⊆ early es)) eqn:E2; cbn [negb]; [|discriminate].
  destruct (es_validate _); [|discriminate]. intros [= <-]. cbn.
  apply bool_decide_eq_true in E1, E2. tauto.
Qed.

(* the entry found (or the empty default) at a quantised key satisfies the shape invariant *)
Lemma qinv_pre_at qs tbl F L (q : gmap Z expset) k :
  QInv qs tbl F L q -> quant_up qs k = k -> 0 <= k ->
  ExpSetPre qs tbl F k (default es_empty (q !! k)).
Proof.
  intros HQ Hq Hk. destruct (q !! k) as [es|] eqn:E; cbn.
  - apply esi_pre. eapply qi_entry; eauto.
  - apply esp_empty; assumption.
Qed.

Lemma qinv_others_disj_fresh qs tbl F L (q : gmap Z expset) (T : gset N) :
  QInv qs tbl F L q -> T ## L ->
  forall k2 es2, q !! k2 = Some es2 -> es_all es2 ## T.
Proof. intros HQ HT k2 es2 H2. pose proof (qinv_entry_sub _ _ _ _ _ _ _ HQ H2). set_solver. Qed.

Lemma others_same qs (tbl : gmap N sector) F L (q : gmap Z expset) k :
  QInv qs tbl F L q ->
  forall k2 es2, k2 <> k -> q !! k2 = Some es2 ->
     es_all es2 ∩ F ≡ es_all es2 ∩ F /\ (forall n, n ∈ es_all es2 -> tbl !! n = tbl !! n).
Proof. intros _ k2 es2 _ _. split; [reflexivity|auto]. Qed.

(* Q1: q_add of fresh non-faulty on-time sectors *)
Lemma q_add_on_time_inv qs tbl F L (q q' : gmap Z expset) e (T : gset N) :
  0 < q_unit qs -> QInv qs tbl F L q ->
  q_add qs q e T ∅ (spow tbl T) pp0 (spledge tbl T) (sfee tbl T) = Ok q' ->
  T <> ∅ -> T ## L -> T ## F ->
  (forall n, n ∈ T -> exists s, tbl !! n = Some s /\ quant_up qs (s_exp s) = quant_up qs e) ->
  QInv qs tbl F (L ∪ T) q'.
Proof.
  intros Hu HQ Hadd Hne HTL HTF Hat. unfold q_add in Hadd.
  set (k := quant_up qs e) in *.
  destruct (q_may_get q k) as [es|] eqn:Eg; cbn [rbind] in Hadd; [|discriminate].
  apply q_may_get_ok in Eg as [Hk ->].
  destruct (es_add _ _ _ _ _ _ _) as [es'|] eqn:Ea; cbn [rbind] in Hadd; [|discriminate].
  apply es_add_ok in Ea as (Eot & Eea & Epl & Eact & Eflt & Efee).
  unfold q_must_update in Hadd. destruct (k <? 0); [discriminate|]. injection Hadd as <-.
  assert (Hq : quant_up qs k = k) by (apply quant_up_idem, Hu).
  assert (Hd : es_all (default es_empty (q !! k)) ## T).
  { destruct (q !! k) as [es|] eqn:E; cbn; [|set_solver].
    eapply qinv_others_disj_fresh; eauto. }
  eapply QInv_insert; [exact HQ|eapply others_same; exact HQ| | |].
  - apply esi_of_pre.
    + eapply (esp_add_on_time qs tbl F k _ es' T); try eassumption.
      * eapply qinv_pre_at; eauto.
      * set_solver.
      * rewrite Eea. set_solver.
      * rewrite Eflt. apply pp_add_0_r.
    + unfold es_all. rewrite Eot. set_solver.
  - intros k2 es2 _ H2. unfold es_all at 2. rewrite Eot, Eea.
    pose proof (qinv_others_disj_fresh _ _ _ _ _ _ HQ HTL _ _ H2).
    destruct (q !! k) as [es|] eqn:E; cbn.
    + destruct (decide (k2 = k)) as [->|Hne2].
      * rewrite E in H2. injection H2 as ->. unfold es_all in *. set_solver.
      * pose proof (qi_disj _ _ _ _ _ HQ _ _ _ _ Hne2 H2 E). unfold es_all in *. set_solver.
    + unfold es_all in *. set_solver.
  - unfold es_all at 1. rewrite Eot, Eea.
    pose proof (qinv_pre_at _ _ _ _ _ _ HQ Hq Hk) as _.
    destruct (q !! k) as [es|] eqn:E; cbn.
    + pose proof (qinv_entry_sub _ _ _ _ _ _ _ HQ E). unfold es_all in *.
      intros n. destruct (decide (n ∈ on_time es ∪ early es)); set_solver.
    + set_solver.
Qed.
