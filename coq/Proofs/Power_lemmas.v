(* C02, power actor side: the totals are exactly the sums over the claims under the
   consensus-minimum rule, for every history of create / update / delete over any number of
   miners. *)
From Coq Require Import ZArith List Bool Lia.
From stdpp Require Import gmap.
From VF Require Import Model.Power.
Import ListNotations.
Open Scope Z_scope.

Lemma sumc_cons f kc l : sumc f (kc :: l) = f (snd kc) + sumc f l.
Proof. reflexivity. Qed.
Lemma sumc_perm f l1 l2 : l1 ≡ₚ l2 -> sumc f l1 = sumc f l2.
Proof. induction 1; rewrite ?sumc_cons; cbn [sumc fold_right] in *; lia. Qed.

Lemma claims_split (cl : gmap N claim) m c :
  cl !! m = Some c -> map_to_list cl ≡ₚ (m, c) :: map_to_list (delete m cl).
Proof.
  intros H. rewrite <- (insert_delete cl m c H) at 1. apply map_to_list_insert, lookup_delete.
Qed.
Lemma claims_insert_split (cl : gmap N claim) m c :
  map_to_list (<[m := c]> cl) ≡ₚ (m, c) :: map_to_list (delete m cl).
Proof. rewrite <- insert_delete_insert. apply map_to_list_insert, lookup_delete. Qed.

Lemma sumc_update f (cl : gmap N claim) m old new :
  cl !! m = Some old ->
  sumc f (map_to_list (<[m := new]> cl)) = sumc f (map_to_list cl) - f old + f new.
Proof.
  intros H. rewrite (sumc_perm f _ _ (claims_insert_split cl m new)).
  rewrite (sumc_perm f _ _ (claims_split cl m old H)). rewrite !sumc_cons. cbn [snd]. lia.
Qed.
Lemma sumc_insert_fresh f (cl : gmap N claim) m new :
  cl !! m = None -> sumc f (map_to_list (<[m := new]> cl)) = sumc f (map_to_list cl) + f new.
Proof.
  intros H. rewrite (sumc_perm f _ _ (map_to_list_insert cl m new H)). rewrite sumc_cons. cbn [snd]. lia.
Qed.
Lemma sumc_delete f (cl : gmap N claim) m old :
  cl !! m = Some old -> sumc f (map_to_list (delete m cl)) = sumc f (map_to_list cl) - f old.
Proof.
  intros H. rewrite (sumc_perm f _ _ (claims_split cl m old H)). rewrite sumc_cons. cbn [snd]. lia.
Qed.

Lemma powerinv_init minp minm : PowerInv (pinit minp minm).
Proof.
  unfold PowerInv, claim_list, pinit; cbn. rewrite map_to_list_empty. cbn.
  do 5 (split; [reflexivity|]). intros m0 c0 H. rewrite lookup_empty in H. discriminate.
Qed.

Lemma add_to_claim_inv st m dr dq st' :
  PowerInv st -> add_to_claim st m dr dq = inl st' -> PowerInv st'.
Proof.
  intros (I1 & I2 & I3 & I4 & I5 & I6). unfold add_to_claim.
  destruct (claims st !! m) as [old|] eqn:Hm; [|discriminate].
  set (new := {| c_raw := c_raw old + dr; c_qa := c_qa old + dq |}).
  assert (Hnew : c_raw new = c_raw old + dr /\ c_qa new = c_qa old + dq) by (split; reflexivity).
  destruct Hnew as [Hnr Hnq]. clearbody new.
  unfold claim_list, above in *.
  destruct (c_raw old <? min_power st) eqn:Epb; destruct (c_raw new <? min_power st) eqn:Esb;
    cbn [andb negb].
  all: match goal with |- (if ?b then _ else _) = _ -> _ => destruct b eqn:Eneg; [discriminate|] end.
  all: intros [= <-].
  all: apply orb_false_iff in Eneg as [Eneg E3]; apply orb_false_iff in Eneg as [E1 E2];
       apply Z.ltb_ge in E1, E2.
  all: unfold PowerInv, claim_list, above;
       cbn [claims total_bytes total_qa_bytes total_raw total_qa above_min_count min_power].
  all: rewrite !(sumc_update _ (claims st) m old new Hm).
  all: rewrite !Z.leb_antisym, Epb, Esb; cbn [negb].
  all: split; [lia|]; split; [lia|]; split; [lia|]; split; [lia|]; split; [lia|].
  all: intros m' c'; destruct (decide (m' = m)) as [->|Hne];
       [rewrite lookup_insert; intros [= <-]; lia
       |rewrite lookup_insert_ne by congruence; apply I6].
Qed.

Theorem power_step st o :
  0 < min_power st -> PowerInv st -> pop_wf st o -> PowerInv (pnext st o) /\ min_power (pnext st o) = min_power st.
Proof.
  intros Hmin HI Hwf. unfold pnext, pstep. destruct o as [m|m ism dr dq|m]; cbn [fst].
  - (* create *)
    cbn [pop_wf] in Hwf. destruct HI as (I1 & I2 & I3 & I4 & I5 & I6).
    split; [|reflexivity]. unfold PowerInv, claim_list, above in *.
    cbn [claims total_bytes total_qa_bytes total_raw total_qa above_min_count min_power].
    rewrite !(sumc_insert_fresh _ (claims st) m _ Hwf). cbn [c_raw c_qa].
    assert (E : (min_power st <=? 0) = false) by (apply Z.leb_gt; lia). rewrite E.
    do 5 (split; [lia|]).
    intros m' c'. destruct (decide (m' = m)) as [->|Hne].
    + rewrite lookup_insert. intros [= <-]. cbn. lia.
    + rewrite lookup_insert_ne by congruence. apply I6.
  - destruct ism; cbn [negb]; [|auto].
    destruct (add_to_claim st m dr dq) as [st'|c] eqn:E; cbn [fst]; [|auto].
    split; [eapply add_to_claim_inv; eauto|].
    unfold add_to_claim in E. destruct (claims st !! m); [|discriminate].
    repeat match type of E with context [if ?b then _ else _] => destruct b end;
      try discriminate; injection E as <-; reflexivity.
  - destruct (claims st !! m) as [c|] eqn:Hm; cbn [fst].
    + destruct (add_to_claim st m (- c_raw c) (- c_qa c)) as [st'|code] eqn:E; cbn [fst]; [|auto].
      assert (Hmp : min_power st' = min_power st).
      { unfold add_to_claim in E. rewrite Hm in E.
        repeat match type of E with context [if ?b then _ else _] => destruct b end;
          try discriminate; injection E as <-; reflexivity. }
      assert (Hc' : claims st' !! m = Some {| c_raw := 0; c_qa := 0 |}).
      { unfold add_to_claim in E. rewrite Hm in E.
        repeat match type of E with context [if ?b then _ else _] => destruct b end;
          try discriminate; injection E as <-; cbn [claims]; rewrite lookup_insert;
          f_equal; f_equal; lia. }
      pose proof (add_to_claim_inv _ _ _ _ _ HI E) as (J1 & J2 & J3 & J4 & J5 & J6).
      split; [|exact Hmp]. unfold PowerInv, claim_list, above in *.
      cbn [claims total_bytes total_qa_bytes total_raw total_qa above_min_count min_power].
      rewrite !(sumc_delete _ (claims st') m _ Hc'). cbn [c_raw c_qa].
      assert (E0 : (min_power st' <=? 0) = false) by (apply Z.leb_gt; lia). rewrite E0.
      do 5 (split; [lia|]).
      intros m' c'. intros H. apply lookup_delete_Some in H as [_ H]. eapply J6; eauto.
    + destruct HI as (I1 & I2 & I3 & I4 & I5 & I6). split; [|reflexivity].
      unfold PowerInv, claim_list, above in *. cbn.
      exact (conj I1 (conj I2 (conj I3 (conj I4 (conj I5 I6))))).
Qed.

Theorem power_totals_exact minp minm ops :
  0 < minp -> pall_wf (pinit minp minm) ops -> PowerInv (prun (pinit minp minm) ops).
Proof.
  intros Hmin. assert (H : forall st, 0 < min_power st -> PowerInv st -> pall_wf st ops ->
                       PowerInv (prun st ops)).
  { induction ops as [|o r IH]; intros st Hm HI Hwf; [exact HI|].
    destruct Hwf as [H1 H2]. cbn [prun fold_left].
    destruct (power_step st o Hm HI H1) as [HI' Hm']. apply IH; [lia|exact HI'|exact H2]. }
  apply H; [exact Hmin|apply powerinv_init].
Qed.

(* the consensus-minimum rule of current_total_power *)
Theorem current_total_power_rule st :
  PowerInv st ->
  current_total_power st =
    if above_min_count st <? min_miners st
    then (sumc c_raw (claim_list st), sumc c_qa (claim_list st))
    else (sumc (fun c => if above st c then c_raw c else 0) (claim_list st),
          sumc (fun c => if above st c then c_qa c else 0) (claim_list st)).
Proof.
  intros (I1 & I2 & I3 & I4 & I5 & I6). unfold current_total_power.
  destruct (above_min_count st <? min_miners st); congruence.
Qed.

(* a claim is exactly the running sum of the deltas its miner reported *)
Theorem claim_is_sum_of_deltas st m dr dq st' c :
  add_to_claim st m dr dq = inl st' -> claims st !! m = Some c ->
  claims st' !! m = Some {| c_raw := c_raw c + dr; c_qa := c_qa c + dq |} /\
  (forall m', m' <> m -> claims st' !! m' = claims st !! m').
Proof.
  unfold add_to_claim. intros E Hm. rewrite Hm in E.
  repeat match type of E with context [if ?b then _ else _] => destruct b end;
    try discriminate; injection E as <-; cbn [claims];
    (split; [apply lookup_insert|intros m' Hne; apply lookup_insert_ne; congruence]).
Qed.
