(* C04 at deadline level: DeadlineInv holds initially and is preserved by every deadline operation;
   every sector of a deadline is in exactly one partition; sector numbers are allocated once;
   assign_deadlines gives every sector exactly one of the offered deadlines. *)
From Coq Require Import ZArith List Bool Lia.
From stdpp Require Import gmap.
From VF Require Import Base.SetSum Model.Partition Model.PartitionInv Model.Deadline
  Model.DeadlineInv Proofs.Partition_base Proofs.Partition_lists Proofs.Partition_ops1
  Proofs.Deadline_base Proofs.Deadline_ops1 Proofs.Deadline_ops2 Proofs.Deadline_ops3
  Proofs.Deadline_ops4.
Import ListNotations.
Open Scope Z_scope.

Lemma deadlineinv_empty qs tbl : DeadlineInv qs tbl dl_empty.
Proof.
  constructor; cbn; try reflexivity.
  - intros i p H. rewrite lookup_nil in H. discriminate.
  - intros i j p q _ H. rewrite lookup_nil in H. discriminate.
  - intros i. split; [set_solver|]. intros (p & H & _). rewrite lookup_nil in H. discriminate.
Qed.

Theorem dsinv_init unit off psize : 0 < unit -> 0 < psize -> DsInv (dinit unit off psize).
Proof.
  intros Hu Hp. unfold DsInv, dinit; cbn. split; [exact Hu|]. split; [exact Hp|]. split.
  - intros n s H. rewrite lookup_empty in H. discriminate.
  - apply deadlineinv_empty.
Qed.

Lemma dl_sectors_allsecs d : dl_sectors d = allsecs (parts d).
Proof. reflexivity. Qed.

Theorem dsinv_step st o : DsInv st -> dop_wf st o -> DsInv (dnext st o).
Proof.
  intros (Hu & Hps & Hk & HD) Hwf. unfold dnext, dstep.
  destruct st as [qs psize tbl d alloc]. cbn [ds_q ds_psize ds_tbl ds_dl ds_alloc] in *.
  assert (Hsame : DsInv {| ds_q := qs; ds_psize := psize; ds_tbl := tbl; ds_dl := d; ds_alloc := alloc |})
    by (exact (conj Hu (conj Hps (conj Hk HD)))).
  assert (Hchk : forall tbl' d' rets, tbl_keyed tbl' -> DeadlineInv qs tbl' d' ->
            DsInv (fst (fst (if dl_validate d'
                             then (with_dl {| ds_q := qs; ds_psize := psize; ds_tbl := tbl; ds_dl := d;
                                              ds_alloc := alloc |} tbl' d', 0, rets)
                             else ({| ds_q := qs; ds_psize := psize; ds_tbl := tbl; ds_dl := d;
                                      ds_alloc := alloc |}, E_STATE, @nil Z))))).
  { intros tbl' d' rets Hk' HD'. destruct (dl_validate d'); cbn [fst]; [|exact Hsame].
    unfold DsInv, with_dl; cbn. exact (conj Hu (conj Hps (conj Hk' HD'))). }
  destruct o as [proven secs|fe posts|fe|until|epoch psm|fe psm|psm|tr|mp ms|nums allow|mp ps infos n];
    cbn [fst snd].
  - (* add *)
    destruct Hwf as (Hnd & Hok & Hfresh).
    destruct (d_add_sectors qs d psize proven true secs) as [[[d' pw] fee]|] eqn:E; [|exact Hsame].
    set (tbl' := store_sectors tbl secs).
    assert (Hk' : tbl_keyed tbl') by (apply store_sectors_keyed, Hk).
    assert (HD' : DeadlineInv qs tbl' d).
    { apply (DeadlineInv_tbl_ext qs tbl tbl'); [|exact Hk'|exact HD].
      intros n Hn. apply store_sectors_lookup_ne. rewrite dl_sectors_allsecs in Hfresh.
      intros Hn'. apply (Hfresh n Hn' Hn). }
    assert (Hft : from_tbl tbl' secs) by (intros s Hs; apply store_sectors_lookup; assumption).
    apply dinv_off_zero in HD' as [HO HE].
    destruct (d_add_sectors_off qs tbl' d psize proven true secs d' pw fee 0 pp0 pp0 0 Hu Hk' Hps HO HE
                Hnd Hft Hok Hfresh E) as (HO' & HE' & _).
    apply Hchk; [exact Hk'|]. apply dinv_off_zero. auto.
  - destruct (d_record_proven_sectors qs tbl d fe posts) as [[d' r]|] eqn:E; [|exact Hsame].
    apply Hchk; [exact Hk|]. eapply d_record_proven_sectors_inv; eauto.
  - destruct (d_process_deadline_end qs d fe) as [[[d' dl] pen]|] eqn:E; [|exact Hsame].
    apply Hchk; [exact Hk|]. eapply d_process_deadline_end_inv; eauto.
  - destruct (d_pop_expired_sectors d until) as [[d' agg]|] eqn:E; [|exact Hsame].
    apply Hchk; [exact Hk|]. eapply d_pop_expired_sectors_inv; eauto.
  - destruct (d_terminate_sectors qs tbl d epoch psm) as [[d' lost]|] eqn:E; [|exact Hsame].
    apply Hchk; [exact Hk|]. eapply d_terminate_sectors_inv; eauto.
  - destruct (d_record_faults qs tbl d fe psm) as [[d' delta]|] eqn:E; [|exact Hsame].
    apply Hchk; [exact Hk|]. eapply d_record_faults_inv; eauto.
  - destruct (d_declare_faults_recovered tbl d psm) as [d'|] eqn:E; [|exact Hsame].
    apply Hchk; [exact Hk|]. eapply d_declare_faults_recovered_inv; eauto.
  - destruct (d_compact_partitions qs tbl d psize tr) as [[d' dead]|] eqn:E; [|exact Hsame].
    destruct (d_compact_partitions_inv qs tbl d psize tr d' dead Hu Hk Hps HD E) as (HD' & Hk' & _).
    apply Hchk; assumption.
  - destruct (d_pop_early_terminations d mp ms) as [[[[[d' res] np] ns] more]|] eqn:E; [|exact Hsame].
    apply Hchk; [exact Hk|]. eapply d_pop_early_terminations_inv; eauto.
  - destruct (allocate_sector_numbers alloc (lset nums) allow); cbn [fst]; [|exact Hsame].
    exact (conj Hu (conj Hps (conj Hk HD))).
  - destruct (assign_deadlines _ _ _ _); exact Hsame.
Qed.

(* ---------- every sector of the deadline is in exactly one partition ---------- *)
Theorem sector_in_exactly_one_partition qs tbl d n :
  DeadlineInv qs tbl d -> n ∈ dl_sectors d ->
  exists i p, parts d !! i = Some p /\ n ∈ sectors p /\
    forall j q, parts d !! j = Some q -> n ∈ sectors q -> j = i.
Proof.
  intros HD Hn. rewrite dl_sectors_allsecs in Hn. apply elem_of_allsecs in Hn as (i & p & Hp & Hnp).
  exists i, p. split; [exact Hp|]. split; [exact Hnp|]. intros j q Hq Hnq.
  destruct (decide (j = i)) as [|Hne]; [assumption|].
  pose proof (di_disj _ _ _ HD _ _ _ _ Hne Hq Hp) as D. set_solver.
Qed.

(* ---------- sector numbers are allocated at most once ---------- *)
Theorem sector_number_allocated_once alloc nums alloc' :
  allocate_sector_numbers alloc nums false = Ok alloc' ->
  nums ## alloc /\ alloc' = alloc ∪ nums.
Proof.
  unfold allocate_sector_numbers. cbn [negb andb].
  destruct (set_empty (alloc ∩ nums)) eqn:E; cbn [negb]; [|discriminate].
  apply set_empty_true in E. intros [= <-]. split; [|reflexivity].
  intros n Hn Ha. assert (n ∈ alloc ∩ nums) by set_solver. rewrite E in H. set_solver.
Qed.

Theorem allocated_only_grows st o : ds_alloc st ⊆ ds_alloc (dnext st o).
Proof.
  unfold dnext, dstep. destruct st as [qs psize tbl d alloc]. cbn [ds_q ds_psize ds_tbl ds_dl ds_alloc].
  destruct o as [proven secs|fe posts|fe|until|epoch psm|fe psm|psm|tr|mp ms|nums allow|mp ps infos n];
    cbn [fst].
  10:{ unfold allocate_sector_numbers.
       destruct (negb allow && negb (set_empty (alloc ∩ lset nums))); cbn; set_solver. }
  all: repeat match goal with
    | |- context [match ?x with Ok _ => _ | Err _ => _ end] => destruct x as [?r|?c]
    | r : (_ * _)%type |- _ => destruct r
    | |- context [if ?b then _ else _] => destruct b
    end; cbn [fst ds_alloc with_dl]; set_solver.
Qed.

Theorem allocated_only_grows_run st ops : ds_alloc st ⊆ ds_alloc (drun st ops).
Proof.
  revert st. induction ops as [|o r IH]; intros st; cbn [drun fold_left]; [set_solver|].
  etransitivity; [apply (allocated_only_grows st o)|apply IH].
Qed.

(* ---------- assign_deadlines: every sector gets exactly one of the offered deadlines ---------- *)
Lemma di_min_in psize x l : di_min psize x l = x \/ In (di_min psize x l) l.
Proof.
  revert x. induction l as [|y l IH]; intros x; cbn [di_min]; [left; reflexivity|].
  destruct (di_cmp psize y x).
  - destruct (IH x) as [->|H]; [left; reflexivity|right; right; exact H].
  - destruct (IH y) as [->|H]; [right; left; reflexivity|right; right; exact H].
  - destruct (IH x) as [->|H]; [left; reflexivity|right; right; exact H].
Qed.

Theorem assign_deadlines_spec mp psize n : forall infos l,
  assign_deadlines mp psize infos n = Ok l ->
  length l = n /\ forall x, In x l -> In x (map di_index infos).
Proof.
  induction n as [|n IH]; intros infos l; cbn [assign_deadlines].
  - intros [= <-]. split; [reflexivity|]. intros x [].
  - destruct infos as [|x0 r]; [discriminate|].
    set (m := di_min psize x0 r).
    destruct (psize * mp <=? Deadline.di_total m); [discriminate|].
    match goal with |- context [assign_deadlines mp psize ?i n] => set (infos' := i) end.
    destruct (assign_deadlines mp psize infos' n) as [rest|] eqn:E; cbn [rbind]; [|discriminate].
    intros [= <-]. destruct (IH _ _ E) as [Hlen Hin]. split; [cbn; lia|].
    assert (Hidx : map di_index infos' = map di_index (x0 :: r)).
    { subst infos'. rewrite map_map. apply map_ext. intros y. destruct (di_index y =? di_index m); reflexivity. }
    intros x [<-|Hx].
    + destruct (di_min_in psize x0 r) as [E0|H0].
      * fold m in E0. rewrite E0. left. reflexivity.
      * fold m in H0. right. apply in_map, H0.
    + rewrite <- Hidx. apply Hin, Hx.
Qed.

Theorem dsinv_reachable unit off psize ops :
  0 < unit -> 0 < psize -> dall_wf (dinit unit off psize) ops ->
  DsInv (drun (dinit unit off psize) ops).
Proof.
  intros Hu Hp. assert (H : forall st, DsInv st -> dall_wf st ops -> DsInv (drun st ops)).
  { induction ops as [|o r IH]; intros st HS Hwf; [exact HS|].
    destruct Hwf as [H1 H2]. cbn [drun fold_left].
    apply IH; [apply dsinv_step; assumption|exact H2]. }
  intros Hwf. apply H; [apply dsinv_init; assumption|exact Hwf].
Qed.
