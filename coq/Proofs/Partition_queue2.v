(* Queue operations, part 2: remove_active_sectors, reschedule_as_faults, q_replace_sectors,
   q_reschedule_expirations. *)
From Coq Require Import ZArith List Bool Lia.
From stdpp Require Import gmap.
From VF Require Import Base.SetSum Model.Partition Model.PartitionInv Proofs.Partition_base
  Proofs.Partition_entry Proofs.Partition_moves Proofs.Partition_lists Proofs.Partition_queue1.
Import ListNotations.
Open Scope Z_scope.

Lemma uod_lookup_ne (q q' : gmap Z expset) k es k2 :
  q_must_update_or_delete q k es = Ok q' -> k2 <> k -> q' !! k2 = q !! k2.
Proof.
  unfold q_must_update_or_delete. destruct (k <? 0); [discriminate|]. intros [= <-] Hne.
  destruct (es_is_empty es); [apply lookup_delete_ne|apply lookup_insert_ne]; congruence.
Qed.

Lemma q_remove_lookup_ne qs (q q' : gmap Z expset) k ot ea act flt pl fee k2 :
  q_remove qs q k ot ea act flt pl fee = Ok q' -> quant_up qs k = k -> k2 <> k ->
  q' !! k2 = q !! k2.
Proof.
  unfold q_remove. intros H Hq Hne. rewrite Hq in H. destruct (k <? 0); [discriminate|].
  destruct (q !! k) as [es|]; [|discriminate].
  destruct (es_remove _ _ _ _ _ _ _) as [es'|]; cbn [rbind] in H; [|discriminate].
  eapply uod_lookup_ne; eauto.
Qed.

Lemma q_add_lookup_ne qs (q q' : gmap Z expset) e ot ea act flt pl fee k2 :
  q_add qs q e ot ea act flt pl fee = Ok q' -> k2 <> quant_up qs e -> q' !! k2 = q !! k2.
Proof.
  unfold q_add. intros H Hne.
  destruct (q_may_get _ _) as [es|]; cbn [rbind] in H; [|discriminate].
  destruct (es_add _ _ _ _ _ _ _) as [es'|]; cbn [rbind] in H; [|discriminate].
  unfold q_must_update in H. destruct (_ <? 0); [discriminate|]. injection H as <-.
  apply lookup_insert_ne. congruence.
Qed.

(* groups found in a queue satisfying QInv are pairwise disjoint and lie in L *)
Lemma groups_disj qs tbl F L (q : gmap Z expset) X g1 g2 :
  QInv qs tbl F L q -> group_ok tbl q X g1 -> group_ok tbl q X g2 ->
  g_epoch g1 <> g_epoch g2 -> g_secs g1 ## g_secs g2.
Proof.
  intros HQ (H1 & S1 & _) (H2 & S2 & _) Hne.
  pose proof (qi_disj _ _ _ _ _ HQ _ _ _ _ Hne H1 H2) as D. unfold es_all in D. set_solver.
Qed.
Lemma group_in_L qs tbl F L (q : gmap Z expset) X g :
  QInv qs tbl F L q -> group_ok tbl q X g -> g_secs g ⊆ L.
Proof.
  intros HQ (H1 & S1 & _). pose proof (qinv_entry_sub _ _ _ _ _ _ _ HQ H1) as D.
  unfold es_all in D. set_solver.
Qed.

Section RemoveActive.
  Context (qs : quant) (tbl : gmap N sector) (F : gset N) (secs : list sector).
  Hypothesis Hft : from_tbl tbl secs.
  Hypothesis Hnd : NoDup (map s_num secs).
  Hypothesis HF : nums_of secs ## F.
  Let X := nums_of secs.

  Lemma remove_active_sectors_inv (q q' : gmap Z expset) L ns pw pl fe :
    QInv qs tbl F L q ->
    remove_active_sectors qs q secs = Ok (q', ns, pw, pl, fe) ->
    QInv qs tbl F (L ∖ X) q' /\ ns = X /\ pw = spow tbl X /\ pl = spledge tbl X /\
    fe = sfee tbl X /\ X ⊆ L /\
    (forall n, n ∈ X -> exists k es, q !! k = Some es /\ n ∈ on_time es).
  Proof.
    intros HQ. unfold remove_active_sectors.
    destruct (find_sectors_by_expiration qs q secs) as [gs|] eqn:Ef; cbn [rbind]; [|discriminate].
    apply (find_spec qs tbl q secs Hft Hnd) in Ef as [Gok Gnd Gcov]. fold X in Gok, Gcov.
    intros Hfold.
    assert (HXL : X ⊆ L).
    { intros n Hn. destruct (Gcov n Hn) as (g & Hg & Hng). rewrite Forall_forall in Gok.
      eapply group_in_L; eauto. }
    assert (Hot : forall n, n ∈ X -> exists k es, q !! k = Some es /\ n ∈ on_time es).
    { intros n Hn. destruct (Gcov n Hn) as (g & Hg & Hng). rewrite Forall_forall in Gok.
      destruct (Gok g Hg) as (H1 & S1 & _). exists (g_epoch g), (g_es g). split; [exact H1|].
      apply S1, Hng. }
    pose proof (foldM_ind (remove_group qs)
      (fun rest (acc : gmap Z expset * gset N * pp * Z * Z) =>
         let '(qc, ns, pw, pl, fe) := acc in
         QInv qs tbl F (L ∖ ns) qc /\ ns ⊆ X /\ pw = spow tbl ns /\ pl = spledge tbl ns /\
         fe = sfee tbl ns /\ NoDup (map g_epoch rest) /\
         (forall g, g ∈ rest -> group_ok tbl q X g /\ qc !! g_epoch g = Some (g_es g)) /\
         (forall n, n ∈ X -> n ∈ ns \/ exists g, g ∈ rest /\ n ∈ g_secs g))) as Hind.
    specialize (Hind) with (3 := Hfold). cbn beta in Hind.
    assert (Hfin : let '(qc, ns, pw, pl, fe) := (q', ns, pw, pl, fe) in
         QInv qs tbl F (L ∖ ns) qc /\ ns ⊆ X /\ pw = spow tbl ns /\ pl = spledge tbl ns /\
         fe = sfee tbl ns /\ NoDup (map g_epoch []) /\
         (forall g, g ∈ [] -> group_ok tbl q X g /\ qc !! g_epoch g = Some (g_es g)) /\
         (forall n, n ∈ X -> n ∈ ns \/ exists g, g ∈ [] /\ n ∈ g_secs g)).
    { apply Hind.
      - (* step *)
        intros [[[[qc ns0] pw0] pl0] fe0] g rest [[[[qc' ns1] pw1] pl1] fe1]
               (IQ & Ins & Ipw & Ipl & Ife & Ind & Irest & Icov) Hstep.
        cbn [map] in Ind. apply NoDup_cons in Ind as [Hgk Ind].
        destruct (Irest g) as [Hgok Hgq]; [left|].
        destruct Hgok as (Hq0 & Sot & Hne & SX & Epw & Epl & Efe).
        unfold remove_group in Hstep.
        destruct (q_remove _ _ _ _ _ _ _ _ _) as [q1|] eqn:Er; cbn [rbind] in Hstep; [|discriminate].
        injection Hstep as <- <- <- <- <-.
        rewrite Epw, Epl, Efe in Er.
        assert (HTF : g_secs g ## F) by (clear -SX HF; set_solver).
        destruct (q_remove_active_inv qs tbl F (L ∖ ns0) qc q1 (g_epoch g) (g_es g) (g_secs g)
                    IQ Hgq Er HTF) as [IQ1 _].
        assert (Hdisj : g_secs g ## ns0).
        { pose proof (qinv_entry_sub _ _ _ _ _ _ _ IQ Hgq) as D. unfold es_all in D.
          clear -D Sot. set_solver. }
        split; [|split; [|split; [|split; [|split; [|split; [|split]]]]]].
        + replace (L ∖ (ns0 ∪ g_secs g)) with ((L ∖ ns0) ∖ g_secs g); [exact IQ1|].
          apply seteq_L. clear. set_solver.
        + clear -Ins SX. set_solver.
        + rewrite Ipw, Epw. symmetry. apply spow_add_eq; [reflexivity|clear -Hdisj; set_solver].
        + rewrite Ipl, Epl. symmetry. apply spledge_add_eq; [reflexivity|clear -Hdisj; set_solver].
        + rewrite Ife, Efe. symmetry. apply sfee_add_eq; [reflexivity|clear -Hdisj; set_solver].
        + exact Ind.
        + intros g2 Hg2. destruct (Irest g2) as [Hok2 Hq2]; [right; exact Hg2|]. split; [exact Hok2|].
          rewrite <- Hq2. eapply q_remove_lookup_ne; [exact Er| |].
          * exact (ei_quant _ _ _ _ _ (qi_entry _ _ _ _ _ IQ _ _ Hgq)).
          * intros E. apply Hgk. rewrite <- E. apply elem_of_list_fmap. eauto.
        + intros n Hn. destruct (Icov n Hn) as [H|(g2 & Hg2 & Hn2)];
            [left; apply elem_of_union; left; exact H|].
          apply elem_of_cons in Hg2 as [->|Hg2];
            [left; apply elem_of_union; right; exact Hn2|right; eauto].
      - (* initially *)
        split; [|split; [|split; [|split; [|split; [|split; [|split]]]]]].
        + replace (L ∖ ∅) with L; [exact HQ|]. apply seteq_L. clear. set_solver.
        + clear. set_solver.
        + symmetry. apply spow_empty.
        + symmetry. apply spledge_empty.
        + symmetry. apply sfee_empty.
        + exact Gnd.
        + intros g Hg. rewrite Forall_forall in Gok. split; [apply Gok, Hg|]. apply (Gok g Hg).
        + intros n Hn. right. apply Gcov, Hn. }
    cbn beta iota in Hfin. destruct Hfin as (IQ & Ins & Ipw & Ipl & Ife & _ & _ & Icov).
    assert (Ens : ns = X).
    { apply seteq_L. intros n. split; [apply Ins|]. intros Hn.
      destruct (Icov n Hn) as [H|(g & Hg & _)]; [exact H|inversion Hg]. }
    subst ns. tauto.
  Qed.
End RemoveActive.

(* the fault set may change arbitrarily outside the sectors held by the queue *)
Lemma QInv_F_ext qs tbl F F' L (q : gmap Z expset) :
  (forall n, n ∈ L -> (n ∈ F' <-> n ∈ F)) -> QInv qs tbl F L q -> QInv qs tbl F' L q.
Proof.
  intros HF HQ. destruct HQ as [He Hd Hc]. constructor; [|exact Hd|exact Hc].
  intros k es Hk. pose proof (He _ _ Hk) as Hes.
  assert (Hsub : es_all es ⊆ L) by (intros n Hn; apply Hc; eauto).
  apply esi_of_pre; [|apply Hes]. apply (esp_F_ext qs tbl F F'); [|apply esi_pre, Hes].
  intros n. rewrite !elem_of_intersection. split; intros [Hn Hf]; (split; [exact Hn|]);
    apply HF; auto.
Qed.

Section RescheduleAsFaults.
  Context (qs : quant) (tbl : gmap N sector) (F : gset N) (secs : list sector).
  Hypothesis Hu : 0 < q_unit qs.
  Hypothesis Hft : from_tbl tbl secs.
  Hypothesis Hnd : NoDup (map s_num secs).
  Hypothesis HF : nums_of secs ## F.
  Let X := nums_of secs.

  Definition raf_inv (q : gmap Z expset) (L : gset N) (nq : Z) (rest : list group)
      (acc : gmap Z expset * gset N * pp * pp * Z) : Prop :=
    let '(qc, total, expiring, resched, rfee) := acc in
    exists stay : gset N,
      QInv qs tbl (F ∪ stay) (L ∖ total) qc /\ stay ## total /\ stay ∪ total ⊆ X /\
      expiring = spow tbl stay /\ resched = spow tbl total /\ rfee = sfee tbl total /\
      (forall n, n ∈ total -> exists s, tbl !! n = Some s /\ nq < quant_up qs (s_exp s)) /\
      NoDup (map g_epoch rest) /\
      (forall g, g ∈ rest -> group_ok tbl q X g /\ qc !! g_epoch g = Some (g_es g) /\
                            g_secs g ## stay ∪ total) /\
      (forall n, n ∈ X -> n ∈ stay ∪ total \/ exists g, g ∈ rest /\ n ∈ g_secs g).

  Lemma raf_step (q : gmap Z expset) L nq acc g rest acc' :
    QInv qs tbl F L q ->
    raf_inv q L nq (g :: rest) acc -> fault_group nq acc g = Ok acc' -> raf_inv q L nq rest acc'.
  Proof.
    intros HQ0. destruct acc as [[[[qc total] expiring] resched] rfee].
    intros (stay & IQ & Ist & IX & Iexp & Ires & Ifee & Iat & Ind & Irest & Icov) Hstep.
    cbn [map] in Ind. apply NoDup_cons in Ind as [Hgk Ind].
    destruct (Irest g) as (Hgok & Hgq & Hgd); [left|].
    pose proof Hgok as (Hq0 & Sot & Hne & SX & Epw & Epl & Efe).
    pose proof (qi_entry _ _ _ _ _ IQ _ _ Hgq) as Hes.
    set (T := g_secs g) in *. set (k := g_epoch g) in *. set (es := g_es g) in *.
    assert (HTF : T ## F ∪ stay) by (clear -SX HF Hgd; set_solver).
    assert (Hrest' : forall (q1 : gmap Z expset) stay' total',
              (forall k2, k2 <> k -> q1 !! k2 = qc !! k2) ->
              stay' ∪ total' ≡ (stay ∪ total) ∪ T ->
              forall g2, g2 ∈ rest -> group_ok tbl q X g2 /\ q1 !! g_epoch g2 = Some (g_es g2) /\
                                      g_secs g2 ## stay' ∪ total').
    { intros q1 stay' total' Hq1 Hst g2 Hg2.
      destruct (Irest g2) as (Hok2 & Hq2 & Hd2); [right; exact Hg2|].
      assert (Hk2 : g_epoch g2 <> k).
      { intros E. apply Hgk. subst k. rewrite <- E. apply elem_of_list_fmap. eauto. }
      split; [exact Hok2|]. split; [rewrite Hq1 by exact Hk2; exact Hq2|].
      pose proof (groups_disj _ _ _ _ _ _ _ _ HQ0 Hok2 Hgok Hk2) as D. fold T in D.
      rewrite Hst. clear -Hd2 D. set_solver. }
    assert (Hcov' : forall stay' total', stay' ∪ total' ≡ (stay ∪ total) ∪ T ->
              forall n, n ∈ X -> n ∈ stay' ∪ total' \/ exists g0, g0 ∈ rest /\ n ∈ g_secs g0).
    { intros stay' total' Hst n Hn. destruct (Icov n Hn) as [H|(g2 & Hg2 & Hn2)].
      - left. rewrite Hst. apply elem_of_union. left. exact H.
      - apply elem_of_cons in Hg2 as [->|Hg2]; [left|right; eauto].
        rewrite Hst. apply elem_of_union. right. exact Hn2. }
    unfold fault_group in Hstep. fold k es in Hstep.
    destruct (k <=? nq) eqn:Ek.
    - (* the group stays on time; its power becomes faulty *)
      destruct (q_must_update_or_delete qc k _) as [q1|] eqn:Eu; cbn [rbind] in Hstep; [|discriminate].
      destruct (es_validate _); [|discriminate]. injection Hstep as <-.
      pose proof (fun k2 => uod_lookup_ne _ _ _ _ k2 Eu) as Hlk.
      unfold q_must_update_or_delete in Eu. destruct (k <? 0); [discriminate|]. injection Eu as <-.
      exists (stay ∪ T).
      pose proof (QInv_modify qs tbl (F ∪ stay) (F ∪ (stay ∪ T)) (L ∖ total) qc k
                    (es_faulty_in_place es g) ∅ ∅ IQ) as HM.
      rewrite Hgq in HM. cbn [default] in HM.
      split; [|split; [|split; [|split; [|split; [|split; [|split; [|split; [|split]]]]]]]].
      + replace (L ∖ total) with ((L ∖ total) ∖ ∅ ∪ ∅) by (apply seteq_L; clear; set_solver).
        apply HM; clear HM.
        * clear. set_solver.
        * unfold es_all; cbn. clear. set_solver.
        * clear. set_solver.
        * intros n Hn. unfold es_all in Hn. clear -Hn Sot. set_solver.
        * replace (F ∪ (stay ∪ T)) with ((F ∪ stay) ∪ T) by (apply seteq_L; clear; set_solver).
          eapply (esp_mark_faulty qs tbl (F ∪ stay) k es _ T); try reflexivity.
          -- apply esi_pre, Hes.
          -- exact Sot.
          -- exact HTF.
          -- cbn. fold T. rewrite Epw. reflexivity.
          -- cbn. fold T. rewrite Epw. reflexivity.
      + clear -Ist Hgd. set_solver.
      + clear -IX SX. set_solver.
      + rewrite Iexp, Epw. symmetry. apply spow_add_eq; [reflexivity|clear -Hgd; set_solver].
      + exact Ires.
      + exact Ifee.
      + exact Iat.
      + exact Ind.
      + apply (Hrest' _ (stay ∪ T) total Hlk). clear. set_solver.
      + apply (Hcov' (stay ∪ T) total). clear. set_solver.
    - (* the group leaves its entry, to be added as early *)
      apply Z.leb_gt in Ek.
      destruct (q_must_update_or_delete qc k _) as [q1|] eqn:Eu; cbn [rbind] in Hstep; [|discriminate].
      destruct (es_validate _); [|discriminate]. injection Hstep as <-.
      pose proof (fun k2 => uod_lookup_ne _ _ _ _ k2 Eu) as Hlk.
      unfold q_must_update_or_delete in Eu. destruct (k <? 0); [discriminate|]. injection Eu as <-.
      exists stay.
      pose proof (QInv_modify qs tbl (F ∪ stay) (F ∪ stay) (L ∖ total) qc k
                    (es_moved_out es g) T ∅ IQ) as HM.
      rewrite Hgq in HM. cbn [default] in HM.
      pose proof (ei_disj _ _ _ _ _ Hes) as Dte.
      split; [|split; [|split; [|split; [|split; [|split; [|split; [|split; [|split]]]]]]]].
      + replace (L ∖ (total ∪ T)) with ((L ∖ total) ∖ T ∪ ∅) by (apply seteq_L; clear; set_solver).
        apply HM; clear HM.
        * unfold es_all. clear -Sot. set_solver.
        * unfold es_all; cbn. fold T. clear -Sot Dte. set_solver.
        * clear. set_solver.
        * tauto.
        * eapply (esp_remove_active qs tbl (F ∪ stay) k es _ T); try reflexivity.
          -- apply esi_pre, Hes.
          -- exact Sot.
          -- exact HTF.
          -- cbn. fold T. rewrite Epl. reflexivity.
          -- cbn. fold T. rewrite Epw. reflexivity.
          -- cbn. fold T. rewrite Efe. reflexivity.
      + clear -Ist Hgd. set_solver.
      + clear -IX SX. set_solver.
      + exact Iexp.
      + rewrite Ires, Epw. symmetry. apply spow_add_eq; [reflexivity|clear -Hgd; set_solver].
      + rewrite Ifee, Efe. symmetry. apply sfee_add_eq; [reflexivity|clear -Hgd; set_solver].
      + intros n Hn. apply elem_of_union in Hn as [Hn|Hn]; [apply Iat, Hn|].
        destruct (ei_ot_at _ _ _ _ _ Hes n (Sot n Hn)) as (s & Hs & Hsk).
        exists s. split; [exact Hs|]. rewrite Hsk. exact Ek.
      + exact Ind.
      + apply (Hrest' _ stay (total ∪ T) Hlk). clear. set_solver.
      + apply (Hcov' stay (total ∪ T)). clear. set_solver.
  Qed.

  Lemma reschedule_as_faults_inv (q q' : gmap Z expset) L e pw :
    QInv qs tbl F L q ->
    reschedule_as_faults qs q e secs = Ok (q', pw) ->
    QInv qs tbl (F ∪ X) L q' /\ pw = spow tbl X /\ X ⊆ L.
  Proof.
    intros HQ. unfold reschedule_as_faults.
    destruct (find_sectors_by_expiration qs q secs) as [gs|] eqn:Ef; cbn [rbind]; [|discriminate].
    apply (find_spec qs tbl q secs Hft Hnd) in Ef as [Gok Gnd Gcov]. fold X in Gok, Gcov.
    set (nq := quant_up qs e).
    destruct (foldM (fault_group nq) gs _) as [[[[[q1 total] expiring] resched] rfee]|] eqn:Efold;
      cbn [rbind]; [|discriminate].
    assert (HXL : X ⊆ L).
    { intros n Hn. destruct (Gcov n Hn) as (g & Hg & Hng). rewrite Forall_forall in Gok.
      eapply group_in_L; eauto. }
    assert (Hfin : raf_inv q L nq [] (q1, total, expiring, resched, rfee)).
    { apply (foldM_ind (fault_group nq) (raf_inv q L nq)) with (l := gs) (a := (q, ∅, pp0, pp0, 0));
        [|
         |exact Efold].
      - intros acc g rest acc' HI Hs. eapply raf_step; eauto.
      - exists ∅. split; [|split; [|split; [|split; [|split; [|split; [|split; [|split; [|split]]]]]]]].
        + replace (F ∪ ∅) with F by (apply seteq_L; clear; set_solver).
          replace (L ∖ ∅) with L by (apply seteq_L; clear; set_solver). exact HQ.
        + clear. set_solver.
        + clear. set_solver.
        + symmetry. apply spow_empty.
        + symmetry. apply spow_empty.
        + symmetry. apply sfee_empty.
        + intros n Hn. clear -Hn. set_solver.
        + exact Gnd.
        + intros g Hg. rewrite Forall_forall in Gok. pose proof (Gok g Hg) as Hok.
          split; [exact Hok|]. split; [apply Hok|]. clear. set_solver.
        + intros n Hn. right. apply Gcov, Hn. }
    destruct Hfin as (stay & IQ & Ist & IX & Iexp & Ires & Ifee & Iat & _ & _ & Icov).
    assert (EX : X ≡ total ∪ stay).
    { intros n. split.
      - intros Hn. destruct (Icov n Hn) as [H|(g & Hg & _)]; [clear -H; set_solver|inversion Hg].
      - intros Hn. apply IX. clear -Hn. set_solver. }
    assert (Epw : pp_add resched expiring = spow tbl X).
    { rewrite Ires, Iexp. symmetry. apply spow_add_eq; [exact EX|clear -Ist; set_solver]. }
    destruct (set_empty total) eqn:Ee.
    - apply set_empty_true in Ee. subst total. cbn [rbind]. intros [= <- <-].
      split; [|split; [exact Epw|exact HXL]].
      replace (F ∪ X) with (F ∪ stay).
      2:{ apply seteq_L. rewrite EX. clear. set_solver. }
      replace L with (L ∖ ∅) by (apply seteq_L; clear; set_solver). exact IQ.
    - apply set_empty_false in Ee.
      destruct (q_add qs q1 e ∅ total pp0 resched 0 rfee) as [q2|] eqn:Ea; cbn [rbind]; [|discriminate].
      intros [= <- <-]. split; [|split; [exact Epw|exact HXL]].
      rewrite Ires, Ifee in Ea.
      replace L with ((L ∖ total) ∪ total).
      2:{ apply seteq_L. intros n. destruct (decide (n ∈ total)) as [Hn|Hn].
          - split; [intros _|clear -Hn; set_solver]. apply HXL, IX. clear -Hn. set_solver.
          - clear -Hn. set_solver. }
      eapply q_add_early_inv; [exact Hu| |exact Ea|exact Ee| | |].
      + eapply QInv_F_ext; [|exact IQ]. intros n Hn. rewrite !elem_of_union.
        assert (n ∈ X <-> n ∈ total \/ n ∈ stay) by (rewrite EX; apply elem_of_union).
        clear -Hn H. set_solver.
      + clear. set_solver.
      + rewrite EX. clear. set_solver.
      + exact Iat.
  Qed.
End RescheduleAsFaults.
