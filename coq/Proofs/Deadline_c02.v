(* C02 at deadline level: each deadline operation moves the credited power of the deadline by
   exactly the delta it reports. *)
From Coq Require Import ZArith List Bool Lia.
From stdpp Require Import gmap.
From VF Require Import Base.SetSum Model.Partition Model.PartitionInv Model.Deadline
  Model.DeadlineInv Model.DeadlineC02 Proofs.Partition_base Proofs.Partition_lists
  Proofs.Partition_ops1 Proofs.Partition_ops2 Proofs.Partition_ops3 Proofs.Partition_credited
  Proofs.Deadline_base Proofs.Deadline_ops1.
Import ListNotations.
Open Scope Z_scope.

Definition AllPart (qs : quant) (tbl : gmap N sector) (ps : list partition) : Prop :=
  forall i p, ps !! i = Some p -> PartInv qs tbl p.

Lemma allpart_put qs tbl ps (i : N) p p' :
  AllPart qs tbl ps -> ps !! N.to_nat i = Some p -> PartInv qs tbl p' ->
  AllPart qs tbl (put_part ps i p').
Proof.
  intros HA Hi HP' j q. rewrite (put_part_existing _ _ _ _ Hi).
  destruct (decide (j = N.to_nat i)) as [->|Hne].
  - rewrite list_lookup_insert by (eapply lookup_lt_Some; eauto). intros [= <-]. exact HP'.
  - rewrite list_lookup_insert_ne by congruence. apply HA.
Qed.

Lemma cred_put tbl ps (i : N) p p' :
  ps !! N.to_nat i = Some p ->
  psum (credited tbl) (put_part ps i p') =
  pp_add (pp_sub (psum (credited tbl) ps) (credited tbl p)) (credited tbl p').
Proof. intros Hi. rewrite (put_part_existing _ _ _ _ Hi). apply psum_insert, Hi. Qed.

Lemma allpart_of_dinv qs tbl d : DeadlineInv qs tbl d -> AllPart qs tbl (parts d).
Proof. intros HD i p. apply (di_parts _ _ _ HD). Qed.

(* ---------- record_faults ---------- *)
Lemma d_record_faults_credited qs tbl d fe psm d' delta :
  AllPart qs tbl (parts d) -> d_record_faults qs tbl d fe psm = Ok (d', delta) ->
  AllPart qs tbl (parts d') /\ dcredited tbl d' = pp_add (dcredited tbl d) delta.
Proof.
  intros HA. unfold d_record_faults.
  destruct (foldM _ psm (d, pp0, [])) as [[[d1 dl1] wf]|] eqn:Ef; cbn [rbind]; [|discriminate].
  assert (H1 : AllPart qs tbl (parts d1) /\ dcredited tbl d1 = pp_add (dcredited tbl d) dl1).
  { match type of Ef with foldM ?f _ _ = _ =>
      pose proof (foldM_ind f (fun _ (acc : deadline * pp * list N) =>
        AllPart qs tbl (parts (fst (fst acc))) /\
        dcredited tbl (fst (fst acc)) = pp_add (dcredited tbl d) (snd (fst acc)))) as Hind end.
    specialize (Hind) with (3 := Ef). cbn [fst snd] in Hind. apply Hind.
    2:{ split; [exact HA|]. apply pp_eq; cbn; lia. }
    intros [[dc dlt] wfc] [i nums] rest [[dc' dlt'] wfc'] [IA IC] Hstep. cbn [fst snd] in *.
    destruct (get_part (parts dc) i) as [p|] eqn:Hp; [|discriminate].
    destruct (p_record_faults qs tbl p (lset nums) fe) as [[[[p' nf] pd] nfp]|] eqn:Eop;
      cbn [rbind] in Hstep; [|discriminate].
    injection Hstep as <- <- _. cbn [parts].
    pose proof (IA _ _ Hp) as HPp.
    destruct (p_record_faults_inv qs tbl p (lset nums) fe p' nf pd nfp HPp Eop) as (HP' & _).
    pose proof (p_record_faults_credited qs tbl p nums fe p' nf pd nfp HPp Eop) as Hc.
    split; [eapply allpart_put; eauto|].
    unfold dcredited in *. cbn [parts]. rewrite (cred_put tbl _ i p p' Hp), IC, Hc.
    apply pp_eq; cbn; lia. }
  destruct H1 as [A1 C1].
  unfold add_exp_partitions. destruct wf; [intros [= <- <-]; auto|].
  destruct (bfq_add _ _ _ _); cbn [rbind]; [|discriminate]. intros [= <- <-]. auto.
Qed.

(* ---------- terminate_sectors ---------- *)
Lemma d_terminate_sectors_credited qs tbl d epoch psm d' lost :
  AllPart qs tbl (parts d) -> d_terminate_sectors qs tbl d epoch psm = Ok (d', lost) ->
  AllPart qs tbl (parts d') /\ dcredited tbl d' = pp_add (dcredited tbl d) (pp_neg lost).
Proof.
  intros HA. unfold d_terminate_sectors. intros Ef.
  match type of Ef with foldM ?f _ _ = _ =>
    pose proof (foldM_ind f (fun _ (acc : deadline * pp) =>
      AllPart qs tbl (parts (fst acc)) /\
      dcredited tbl (fst acc) = pp_add (dcredited tbl d) (pp_neg (snd acc)))) as Hind end.
  specialize (Hind) with (3 := Ef). cbn [fst snd] in Hind. apply Hind.
  2:{ split; [exact HA|]. apply pp_eq; cbn; lia. }
  intros [dc lc] [i nums] rest [dc' lc'] [IA IC] Hstep. cbn [fst snd] in *.
  destruct (get_part (parts dc) i) as [p|] eqn:Hp; [|discriminate].
  destruct (p_terminate_sectors qs tbl p epoch (lset nums)) as [[[p' rm] unp]|] eqn:Eop;
    cbn [rbind] in Hstep; [|discriminate].
  injection Hstep as <- <-. cbn [parts].
  pose proof (IA _ _ Hp) as HPp.
  destruct (p_terminate_sectors_inv qs tbl p epoch (lset nums) p' rm unp HPp Eop) as (HP' & _).
  pose proof (p_terminate_credited qs tbl p epoch nums p' rm unp HPp Eop) as Hc.
  split; [eapply allpart_put; eauto|].
  unfold dcredited in *. cbn [parts]. rewrite (cred_put tbl _ i p p' Hp), IC, Hc.
  apply pp_eq; cbn; lia.
Qed.

(* ---------- declare_faults_recovered ---------- *)
Lemma d_declare_credited qs tbl d psm d' :
  AllPart qs tbl (parts d) -> d_declare_faults_recovered tbl d psm = Ok d' ->
  AllPart qs tbl (parts d') /\ dcredited tbl d' = dcredited tbl d.
Proof.
  intros HA. unfold d_declare_faults_recovered.
  apply (foldM_ind _ (fun _ dc => AllPart qs tbl (parts dc) /\ dcredited tbl dc = dcredited tbl d));
    [|auto].
  intros dc [i nums] rest dc' [IA IC] Hstep.
  destruct (get_part (parts dc) i) as [p|] eqn:Hp; [|discriminate].
  destruct (p_declare_faults_recovered tbl p (lset nums)) as [p'|] eqn:Eop; cbn [rbind] in Hstep; [|discriminate].
  injection Hstep as <-. cbn [set_parts parts].
  pose proof (IA _ _ Hp) as HPp.
  destruct (p_declare_faults_recovered_inv qs tbl p (lset nums) p' HPp Eop) as (HP' & _).
  pose proof (p_declare_credited qs tbl p nums p' HPp Eop) as Hc.
  split; [eapply allpart_put; eauto|].
  unfold dcredited in *. cbn [set_parts parts]. rewrite (cred_put tbl _ i p p' Hp), IC, Hc.
  apply pp_eq; cbn; lia.
Qed.

(* ---------- process_deadline_end ---------- *)
Lemma d_process_deadline_end_credited qs tbl d fe d' delta pen :
  AllPart qs tbl (parts d) -> d_process_deadline_end qs d fe = Ok (d', delta, pen) ->
  AllPart qs tbl (parts d') /\ dcredited tbl d' = pp_add (dcredited tbl d) delta.
Proof.
  intros HA. unfold d_process_deadline_end.
  destruct (foldM _ _ (d, pp0, pp0, [])) as [[[[d1 dl1] pn1] rs]|] eqn:Ef; cbn [rbind]; [|discriminate].
  assert (H1 : AllPart qs tbl (parts d1) /\ dcredited tbl d1 = pp_add (dcredited tbl d) dl1).
  { match type of Ef with foldM ?f _ _ = _ =>
      pose proof (foldM_ind f (fun _ (acc : deadline * pp * pp * list N) =>
        AllPart qs tbl (parts (fst (fst (fst acc)))) /\
        dcredited tbl (fst (fst (fst acc))) = pp_add (dcredited tbl d) (snd (fst (fst acc))))) as Hind end.
    specialize (Hind) with (3 := Ef). cbn [fst snd] in Hind. apply Hind.
    2:{ split; [exact HA|]. apply pp_eq; cbn; lia. }
    intros [[[dc dlt] pnc] rsc] i rest [[[dc' dlt'] pnc'] rsc'] [IA IC] Hstep. cbn [fst snd] in *.
    destruct (bool_decide (i ∈ posted dc)); [injection Hstep as <- <- _ _; auto|].
    destruct (get_part (parts dc) i) as [p|] eqn:Hp; [|discriminate].
    destruct (pp_is_zero (recovering_power p) && pp_eqb (p_faulty_power p) (live_power p));
      [injection Hstep as <- <- _ _; auto|].
    destruct (p_record_missed_post qs p fe) as [[[[p' pd] ppen] nfp]|] eqn:Eop;
      cbn [rbind] in Hstep; [|discriminate].
    injection Hstep as <- <- _ _. cbn [parts].
    pose proof (IA _ _ Hp) as HPp.
    destruct (p_record_missed_post_inv qs tbl p fe p' pd ppen nfp HPp Eop) as (HP' & _).
    pose proof (p_missed_post_credited qs tbl p fe p' pd ppen nfp HPp Eop) as Hc.
    split; [eapply allpart_put; eauto|].
    unfold dcredited in *. cbn [parts]. rewrite (cred_put tbl _ i p p' Hp), IC, Hc.
    apply pp_eq; cbn; lia. }
  destruct H1 as [A1 C1].
  unfold add_exp_partitions. destruct rs; [intros [= <- <- _]; auto|].
  destruct (bfq_add _ _ _ _); cbn [rbind]; [|discriminate]. intros [= <- <- _]. auto.
Qed.

(* ---------- record_proven_sectors ---------- *)
Lemma d_record_proven_credited qs tbl d fe posts d' r :
  AllPart qs tbl (parts d) -> d_record_proven_sectors qs tbl d fe posts = Ok (d', r) ->
  AllPart qs tbl (parts d') /\ dcredited tbl d' = pp_add (dcredited tbl d) (pr_power_delta r).
Proof.
  intros HA. unfold d_record_proven_sectors.
  destruct (negb (_ =? _)); [discriminate|]. destruct (negb (set_empty _)); [discriminate|].
  match goal with |- context [foldM ?f posts ?a] =>
    destruct (foldM f posts a) as [[[d1 r1] rs]|] eqn:Ef; cbn [rbind]; [|discriminate] end.
  assert (H1 : AllPart qs tbl (parts d1) /\
               dcredited tbl d1 = pp_add (dcredited tbl d) (pr_power_delta r1)).
  { match type of Ef with foldM ?f _ _ = _ =>
      pose proof (foldM_ind f (fun _ (acc : deadline * post_result * list N) =>
        AllPart qs tbl (parts (fst (fst acc))) /\
        dcredited tbl (fst (fst acc)) = pp_add (dcredited tbl d) (pr_power_delta (snd (fst acc)))))
        as Hind end.
    specialize (Hind) with (3 := Ef). cbn [fst snd] in Hind. apply Hind.
    2:{ split; [exact HA|]. apply pp_eq; cbn; lia. }
    intros [[dc rc] rsc] [i skipped] rest [[dc' rc'] rsc'] [IA IC] Hstep. cbn [fst snd] in *.
    destruct (get_part (parts dc) i) as [p|] eqn:Hp; [|discriminate].
    destruct (p_record_skipped_faults qs tbl p fe (lset skipped)) as [[[[[p1 pd] nfp] rrp] hnf]|] eqn:E1;
      cbn [rbind] in Hstep; [|discriminate].
    destruct (p_recover_faults qs tbl p1) as [[p2 recovered]|] eqn:E2; cbn [rbind] in Hstep; [|discriminate].
    destruct (p_activate_unproven p2) as [p3 activated] eqn:E3.
    injection Hstep as <- <- _. cbn [parts pr_power_delta].
    pose proof (IA _ _ Hp) as HPp.
    destruct (p_record_skipped_faults_inv qs tbl p fe (lset skipped) p1 pd nfp rrp hnf HPp E1) as (HP1 & _).
    destruct (p_recover_faults_inv qs tbl p1 p2 recovered HP1 E2) as (HP2 & _).
    destruct (p_activate_unproven_inv qs tbl p2 p3 activated HP2 E3) as (HP3 & _).
    pose proof (p_record_skipped_credited qs tbl p fe skipped p1 pd nfp rrp hnf HPp E1) as C1.
    pose proof (p_recover_credited qs tbl p1 p2 recovered HP1 E2) as C2.
    pose proof (p_activate_credited qs tbl p2 p3 activated HP2 E3) as C3.
    split; [eapply allpart_put; eauto|].
    unfold dcredited in *. cbn [parts]. rewrite (cred_put tbl _ i p p3 Hp), IC, C3, C2, C1.
    apply pp_eq; cbn; lia. }
  destruct H1 as [A1 C1].
  unfold add_exp_partitions. destruct rs; cbn [rbind].
  - intros [= <- <-]. auto.
  - destruct (bfq_add _ _ _ _); cbn [rbind]; [|discriminate]. intros [= <- <-]. auto.
Qed.

(* ---------- pop_expired_sectors ---------- *)
Lemma d_pop_expired_credited qs tbl d until d' agg :
  AllPart qs tbl (parts d) -> d_pop_expired_sectors d until = Ok (d', agg) ->
  AllPart qs tbl (parts d') /\ dcredited tbl d' = pp_add (dcredited tbl d) (pp_neg (active_power agg)).
Proof.
  intros HA. unfold d_pop_expired_sectors.
  destruct (bfq_pop_until (dl_exp d) until) as [[q expired] modified].
  destruct modified; cbn [negb].
  2:{ intros [= <- <-]. split; [exact HA|]. apply pp_eq; cbn; lia. }
  match goal with |- context [foldM ?f ?l ?a] =>
    destruct (foldM f l a) as [[[ps agg1] eps]|] eqn:Ef; cbn [rbind]; [|discriminate] end.
  intros [= <- <-]. cbn [parts]. unfold dcredited; cbn [parts].
  match type of Ef with foldM ?f _ _ = _ =>
    pose proof (foldM_ind f (fun _ (acc : list partition * expset * gset N) =>
      AllPart qs tbl (fst (fst acc)) /\
      psum (credited tbl) (fst (fst acc)) =
        pp_add (psum (credited tbl) (parts d)) (pp_neg (active_power (snd (fst acc)))))) as Hind end.
  specialize (Hind) with (3 := Ef). cbn [fst snd] in Hind. apply Hind.
  2:{ split; [exact HA|]. apply pp_eq; cbn; lia. }
  intros [[psc aggc] epsc] i rest [[psc' aggc'] epsc'] [IA IC] Hstep. cbn [fst snd] in *.
  destruct (get_part psc i) as [p|] eqn:Hp; [|discriminate].
  destruct (p_pop_expired_sectors p until) as [[p' popped]|] eqn:Eop; cbn [rbind] in Hstep; [|discriminate].
  injection Hstep as <- <- _.
  pose proof (IA _ _ Hp) as HPp.
  destruct (p_pop_expired_sectors_inv qs tbl p until p' popped HPp Eop) as (HP' & _).
  pose proof (p_pop_expired_credited qs tbl p until p' popped HPp Eop) as Hc.
  split; [eapply allpart_put; eauto|].
  rewrite (cred_put tbl _ i p p' Hp), IC, Hc. cbn [es_union active_power]. apply pp_eq; cbn; lia.
Qed.

(* ---------- pop_early_terminations ---------- *)
Lemma d_pop_early_credited qs tbl d mp ms d' res np ns more :
  AllPart qs tbl (parts d) -> d_pop_early_terminations d mp ms = Ok (d', res, np, ns, more) ->
  AllPart qs tbl (parts d') /\ dcredited tbl d' = dcredited tbl d.
Proof.
  intros HA. unfold d_pop_early_terminations.
  match goal with |- context [iterM ?f ?l ?a] =>
    destruct (iterM f l a) as [[[[[ps result] nparts] nsecs] fin]|] eqn:Ef; cbn [rbind]; [|discriminate] end.
  intros [= <- _ _ _ _]. cbn [parts]. unfold dcredited; cbn [parts].
  set (Q := fun (acc : list partition * gmap Z (gset N) * Z * Z * gset N) =>
    AllPart qs tbl (fst (fst (fst (fst acc)))) /\
    psum (credited tbl) (fst (fst (fst (fst acc)))) = psum (credited tbl) (parts d)).
  assert (HQ : Q (ps, result, nparts, nsecs, fin)).
  { match type of Ef with iterM ?f ?ll ?aa = _ =>
      apply (fun hs he hp => iterM_ind f (fun _ acc => Q acc) Q hs he ll aa _ hp Ef) end; unfold Q.
    - intros [[[[psc rc] npc] nsc] finc] i rest [[[[psc' rc'] npc'] nsc'] finc'] go [IA IC] Hstep.
      cbn [fst] in *.
      assert (HG : AllPart qs tbl psc' /\ psum (credited tbl) psc' = psum (credited tbl) (parts d)).
      { destruct (get_part psc i) as [p|] eqn:Hp.
        - destruct (p_pop_early_terminations p (ms - nsc)) as [[[[p' pres] pn] pmore]|] eqn:Eop;
            cbn [rbind] in Hstep; [|discriminate].
          injection Hstep as <- _ _ _ _ _.
          pose proof (IA _ _ Hp) as HPp.
          destruct (p_pop_early_terminations_inv qs tbl p (ms - nsc) p' pres pn pmore HPp Eop) as (HP' & _).
          pose proof (p_pop_early_credited qs tbl p (ms - nsc) p' pres pn pmore HPp Eop) as Hc.
          split; [eapply allpart_put; eauto|].
          rewrite (cred_put tbl _ i p p' Hp), IC, Hc. apply pp_eq; cbn; lia.
        - injection Hstep as <- _ _ _ _ _. auto. }
      destruct go; exact HG.
    - auto.
    - cbn [fst]. auto. }
  exact HQ.
Qed.
