(* Machine level of C17: the interpreter model (Model/EvmMachine.v) run with the implementation's word
   algorithms (impl_ops) is the same machine as the one run with the specification (spec_ops).
   Shape of the argument, for ANY two instruction sets o1 o2:
     ops_agree o1 o2  (pointwise equal on words)            -- Proofs/EvmWord_lemmas.v for impl/spec
     ops_closed o2    (words to words)                       -- Proofs/EvmWord_lemmas.v for spec
     every value the machine ever puts on its stack is a word (stack_ok is an invariant of step)
   hence  step o1 = step o2  on every reachable state, hence equal runs for every fuel.
   The proofs go through the instruction set by case analysis with generic tactics, so that they
   survive local changes of Model/EvmMachine.v. *)
From stdpp Require Import gmap.
From Coq Require Import ZArith List Bool Lia.
From VF Require Import Gen.Consts Gen.Opcodes Model.EvmSpec Model.EvmWord Model.EvmMachine Proofs.EvmWord_lemmas.
Import ListNotations.
Open Scope Z_scope.

Definition stack_ok (s : mstate) : Prop := Forall in_range (m_stack s).

(* ---------- words produced by the machine itself ---------- *)
Lemma wrapW_range : forall x, in_range (wrapW x).
Proof. intros. apply Z.mod_pos_bound. reflexivity. Qed.

Lemma small_range : forall x, 0 <= x < 2 ^ 160 -> in_range x.
Proof. intros x Hx. unfold in_range. assert (2 ^ 160 < W) by reflexivity. lia. Qed.

Lemma be_fold_bound : forall bs acc, Forall (fun b => 0 <= b < 256) bs -> 0 <= acc ->
  0 <= fold_left (fun acc b => 256 * acc + b) bs acc < (acc + 1) * 256 ^ Z.of_nat (length bs).
Proof.
  induction bs as [|b bs IH]; intros acc Hb Hacc; cbn [fold_left length].
  - change (256 ^ Z.of_nat 0) with 1. lia.
  - inversion Hb as [|? ? Hb0 Hbs]; subst.
    specialize (IH (256 * acc + b) Hbs ltac:(lia)).
    replace (Z.of_nat (S (length bs))) with (1 + Z.of_nat (length bs)) by lia.
    rewrite Z.pow_add_r, Z.pow_1_r by lia.
    assert (0 < 256 ^ Z.of_nat (length bs)) by (apply Z.pow_pos_nonneg; lia).
    nia.
Qed.

Lemma be_to_Z_range : forall bs, Forall (fun b => 0 <= b < 256) bs -> (length bs <= 32)%nat ->
  in_range (be_to_Z bs).
Proof.
  intros bs Hb Hl. unfold be_to_Z, in_range.
  pose proof (be_fold_bound bs 0 Hb ltac:(lia)) as H.
  assert (256 ^ Z.of_nat (length bs) <= 256 ^ 32) by (apply Z.pow_le_mono_r; lia).
  assert (256 ^ 32 = W) by reflexivity. lia.
Qed.

Lemma zseq_nat_length : forall n s, length (zseq_nat s n) = n.
Proof. induction n; intros; cbn [zseq_nat length]; [reflexivity|]. f_equal. apply IHn. Qed.

Lemma zseq_length : forall s n, length (zseq s n) = Z.to_nat n.
Proof. intros. apply zseq_nat_length. Qed.

Lemma be_map_range : forall (f : Z -> Z) s n, (forall k, 0 <= f k < 256) -> n <= 32 ->
  in_range (be_to_Z (map f (zseq s n))).
Proof.
  intros f s n Hf Hn. apply be_to_Z_range.
  - apply Forall_forall. intros x Hx. apply in_map_iff in Hx. destruct Hx as [k [Hk _]]. subst x. apply Hf.
  - rewrite map_length, zseq_length. lia.
Qed.

Lemma byte_at_range : forall c i, 0 <= byte_at c i < 256.
Proof. intros. unfold byte_at. apply Z.mod_pos_bound. reflexivity. Qed.

Lemma mem_get_range : forall m i, 0 <= mem_get m i < 256.
Proof.
  intros. unfold mem_get. destruct (m !! i); [apply Z.mod_pos_bound; reflexivity|lia].
Qed.

Lemma mem_read_word_range : forall m off, in_range (be_to_Z (mem_read m off 32)).
Proof. intros. unfold mem_read. apply be_map_range; [apply mem_get_range|lia]. Qed.

Lemma store_get_range : forall m k, in_range (store_get m k).
Proof.
  intros. unfold store_get. destruct (m !! k); [apply wrapW_range|split; [lia|reflexivity]].
Qed.

Lemma nth_range : forall l k, Forall in_range l -> in_range (nth k l 0).
Proof.
  intros l k Hl. destruct (nth_in_or_default k l 0) as [Hin|Hd].
  - rewrite Forall_forall in Hl. apply Hl. exact Hin.
  - rewrite Hd. split; [lia|reflexivity].
Qed.

Lemma copy_to_memory_stack : forall s d sz o data z s',
  copy_to_memory s d sz o data z = Some s' -> m_stack s' = m_stack s.
Proof.
  intros s d sz o data z s'. unfold copy_to_memory.
  destruct (mem_region (m_msize s) d sz) as [[[|off n] sz']|]; intros H; inversion H; reflexivity.
Qed.

Section Refine.
  Variables o1 o2 : word_ops.
  Hypothesis Hag : ops_agree o1 o2.
  Hypothesis Hcl : ops_closed o2.
  Variable E : env.

  Ltac inv_forall :=
    repeat match goal with
           | H : Forall _ (_ :: _) |- _ => inversion H; clear H; subst
           end.

  (* ---------- the two machines take the same step ---------- *)
  Lemma sem_agree : forall i args s, Forall in_range args -> sem o1 E i args s = sem o2 E i args s.
  Proof.
    intros i args s Hargs.
    destruct i; try reflexivity; cbn [sem]; unfold bin, un, tern;
      destruct args as [|a [|b [|c [|d l]]]]; try reflexivity; inv_forall; f_equal;
      first [ apply (ag_add _ _ Hag) | apply (ag_mul _ _ Hag) | apply (ag_sub _ _ Hag)
            | apply (ag_div _ _ Hag) | apply (ag_sdiv _ _ Hag) | apply (ag_mod _ _ Hag)
            | apply (ag_smod _ _ Hag) | apply (ag_addmod _ _ Hag) | apply (ag_mulmod _ _ Hag)
            | apply (ag_exp _ _ Hag) | apply (ag_signextend _ _ Hag) | apply (ag_lt _ _ Hag)
            | apply (ag_gt _ _ Hag) | apply (ag_slt _ _ Hag) | apply (ag_sgt _ _ Hag)
            | apply (ag_eq _ _ Hag) | apply (ag_iszero _ _ Hag) | apply (ag_and _ _ Hag)
            | apply (ag_or _ _ Hag) | apply (ag_xor _ _ Hag) | apply (ag_not _ _ Hag)
            | apply (ag_byte _ _ Hag) | apply (ag_shl _ _ Hag) | apply (ag_shr _ _ Hag)
            | apply (ag_sar _ _ Hag) | apply (ag_clz _ _ Hag) ]; assumption.
  Qed.

  Lemma take_operands_ok : forall r stk args stk',
    take_operands r stk = inr (args, stk') -> Forall in_range stk ->
    Forall in_range args /\ Forall in_range stk'.
  Proof.
    intros r stk args stk' H Hs. unfold take_operands in H.
    destruct (op_pre r).
    - destruct (zlen stk <? op_pops r); [discriminate|]. inversion H; subst.
      split; [apply Forall_take | apply Forall_drop]; exact Hs.
    - destruct (STACK_SIZE <=? zlen stk); [discriminate|]. inversion H; subst. split; [constructor|exact Hs].
    - inversion H; subst. split; [constructor|exact Hs].
    - inversion H; subst. split; [constructor|exact Hs].
    - inversion H; subst. split; [constructor|exact Hs].
  Qed.

  Lemma exec_generic_agree : forall r s, stack_ok s -> exec_generic o1 E r s = exec_generic o2 E r s.
  Proof.
    intros r s Hs. unfold exec_generic.
    destruct (take_operands r (m_stack s)) as [c|[args stk']] eqn:T; [reflexivity|].
    apply take_operands_ok in T; [|exact Hs]. destruct T as [Ta _].
    rewrite (sem_agree (op_instr r) args (set_stack stk' s) Ta). reflexivity.
  Qed.

  Lemma exec_row_agree : forall r s, stack_ok s -> exec_row o1 E r s = exec_row o2 E r s.
  Proof.
    intros r s Hs. unfold exec_row.
    destruct (op_kind r); first [reflexivity | apply exec_generic_agree; exact Hs].
  Qed.

  Lemma step_agree : forall s, stack_ok s -> step o1 E s = step o2 E s.
  Proof.
    intros s Hs. unfold step. destruct (lookup_row _); [apply exec_row_agree; exact Hs|reflexivity].
  Qed.

  (* ---------- every instruction leaves words on the stack ---------- *)
  Definition res_ok (s : mstate) (r : sem_res) : Prop :=
    match r with
    | SemPush v s' => in_range v /\ m_stack s' = m_stack s
    | SemNone s' | SemJump _ s' => m_stack s' = m_stack s
    | _ => True
    end.

  Ltac range_goal :=
    lazymatch goal with
    | |- in_range (wrapW _) => apply wrapW_range
    | |- in_range (store_get _ _) => apply store_get_range
    | |- in_range (be_to_Z (mem_read _ _ 32)) => apply mem_read_word_range
    | |- in_range (be_to_Z (map _ (zseq _ _))) => apply be_map_range; [intros; apply byte_at_range | lia]
    | |- in_range (_ mod ADDR_MASK) => apply small_range; apply Z.mod_pos_bound; reflexivity
    | |- in_range 0 => split; [lia | reflexivity]
    | |- in_range 1 => split; [lia | reflexivity]
    | _ =>
    first [ assumption
          | apply (cl_add _ Hcl); assumption | apply (cl_mul _ Hcl); assumption
          | apply (cl_sub _ Hcl); assumption | apply (cl_div _ Hcl); assumption
          | apply (cl_sdiv _ Hcl); assumption | apply (cl_mod _ Hcl); assumption
          | apply (cl_smod _ Hcl); assumption | apply (cl_addmod _ Hcl); assumption
          | apply (cl_mulmod _ Hcl); assumption | apply (cl_exp _ Hcl); assumption
          | apply (cl_signextend _ Hcl); assumption | apply (cl_lt _ Hcl); assumption
          | apply (cl_gt _ Hcl); assumption | apply (cl_slt _ Hcl); assumption
          | apply (cl_sgt _ Hcl); assumption | apply (cl_eq _ Hcl); assumption
          | apply (cl_iszero _ Hcl); assumption | apply (cl_and _ Hcl); assumption
          | apply (cl_or _ Hcl); assumption | apply (cl_xor _ Hcl); assumption
          | apply (cl_not _ Hcl); assumption | apply (cl_byte _ Hcl); assumption
          | apply (cl_shl _ Hcl); assumption | apply (cl_shr _ Hcl); assumption
          | apply (cl_sar _ Hcl); assumption | apply (cl_clz _ Hcl); assumption ]
    end.

  (* split every match / if of the goal; what a successful copy_to_memory returns keeps the stack *)
  Ltac split_all :=
    repeat match goal with
           | |- context [match ?x with _ => _ end] => destruct x eqn:?
           end.

  Ltac finish :=
    cbn [res_ok];
    try exact I;
    repeat match goal with
           | H : copy_to_memory _ _ _ _ _ _ = Some _ |- _ => apply copy_to_memory_stack in H; rewrite H; clear H
           end;
    first [ reflexivity
          | split; [range_goal | reflexivity]
          | split; [destruct_all bool; range_goal | reflexivity] ].

  Lemma sem_ok : forall i args s, Forall in_range args -> res_ok s (sem o2 E i args s).
  Proof.
    intros i args s Hargs.
    destruct i; cbn [sem];
      unfold bin, un, tern, nullary, do_call, do_create, do_log, do_exit, do_jump, next_ext;
      split_all; inv_forall; finish.
  Qed.

  Lemma push_checked_stack : forall v s s', push_checked v s = Some s' -> m_stack s' = v :: m_stack s.
  Proof.
    intros v s s'. unfold push_checked. destruct (STACK_SIZE <=? zlen (m_stack s)); intros H; inversion H.
    reflexivity.
  Qed.

  Lemma exec_stackop_ok : forall r s s', stack_ok s -> exec_stackop r s = SNext s' -> stack_ok s'.
  Proof.
    intros r s s' Hs. unfold exec_stackop, stack_ok in *.
    destruct (op_instr r); try discriminate; unfold fail;
      split_all; intros H; inversion H; subst; clear H; cbn [m_stack set_pc set_stack];
      try assumption;
      try (match goal with Hk : m_stack s = _ :: _ |- _ => rewrite Hk in Hs end);
      inv_forall;
      try (match goal with Hk : m_stack s = _ :: _ |- _ => rewrite Hk end);
      repeat first [ assumption | apply Forall_cons | apply Forall_app; split | apply nth_range
                   | apply Forall_take | apply Forall_drop ].
  Qed.

  Lemma exec_push_ok : forall r s s', stack_ok s -> exec_push E r s = SNext s' -> stack_ok s'.
  Proof.
    intros r s s' Hs. unfold exec_push, fail, stack_ok in *.
    destruct ((op_arg r <? 0) || (32 <? op_arg r)) eqn:Hn; [discriminate|].
    apply orb_false_iff in Hn. destruct Hn as [_ Hn]. apply Z.ltb_ge in Hn.
    destruct (push_checked _ s) as [s1|] eqn:Hp; [|discriminate].
    intros H; inversion H; subst; clear H. apply push_checked_stack in Hp.
    cbn [m_stack set_pc]. rewrite Hp. apply Forall_cons; [|exact Hs].
    apply be_map_range; [intros; apply byte_at_range | exact Hn].
  Qed.

  Lemma exec_generic_ok : forall r s s', stack_ok s -> exec_generic o2 E r s = SNext s' -> stack_ok s'.
  Proof.
    intros r s s' Hs. unfold exec_generic.
    destruct (take_operands r (m_stack s)) as [c|[args stk']] eqn:T; [discriminate|].
    apply take_operands_ok in T; [|exact Hs]. destruct T as [Ta Tk].
    pose proof (sem_ok (op_instr r) args (set_stack stk' s) Ta) as Hok.
    destruct (sem o2 E (op_instr r) args (set_stack stk' s));
      cbn [res_ok m_stack set_stack] in Hok; unfold fail;
      split_all; intros H; inversion H; subst; clear H; unfold stack_ok;
      cbn [m_stack set_pc set_stack];
      repeat match goal with
             | Hp : push_checked _ _ = Some _ |- _ => apply push_checked_stack in Hp; rewrite Hp; clear Hp
             end;
      first [ assumption
            | destruct Hok as [Hv Hst]; try rewrite Hst; apply Forall_cons; assumption
            | rewrite Hok; assumption ].
  Qed.

  Lemma exec_row_ok : forall r s s', stack_ok s -> exec_row o2 E r s = SNext s' -> stack_ok s'.
  Proof.
    intros r s s' Hs. unfold exec_row.
    destruct (op_kind r);
      first [ apply exec_stackop_ok; exact Hs | apply exec_push_ok; exact Hs | apply exec_generic_ok; exact Hs ].
  Qed.

  Lemma step_ok : forall s s', stack_ok s -> step o2 E s = SNext s' -> stack_ok s'.
  Proof.
    intros s s' Hs. unfold step. destruct (lookup_row _); [apply exec_row_ok; exact Hs|discriminate].
  Qed.

  (* ---------- equal runs ---------- *)
  Theorem run_agree : forall fuel s, stack_ok s -> run o1 E fuel s = run o2 E fuel s.
  Proof.
    induction fuel as [|f IH]; intros s Hs; cbn [run]; [reflexivity|].
    destruct (codelen E <=? m_pc s); [reflexivity|].
    rewrite (step_agree s Hs). destruct (step o2 E s) as [s1|o s1] eqn:St; [|reflexivity].
    apply IH. eapply step_ok; eassumption.
  Qed.

  (* the state a run stops in when the fuel runs out is again a good state *)
  Lemma run_out_of_fuel_ok : forall fuel s s', stack_ok s -> run o2 E fuel s = OutOfFuel s' -> stack_ok s'.
  Proof.
    induction fuel as [|f IH]; intros s s' Hs; cbn [run].
    - destruct (codelen E <=? m_pc s); intros H; inversion H; subst; exact Hs.
    - destruct (codelen E <=? m_pc s); [discriminate|].
      destruct (step o2 E s) as [s1|o s1] eqn:St; [|discriminate].
      apply IH. eapply step_ok; eassumption.
  Qed.

  Theorem run_pow_agree : forall n s, stack_ok s ->
    run_pow o1 E n s = run_pow o2 E n s /\
    (forall s', run_pow o2 E n s = OutOfFuel s' -> stack_ok s').
  Proof.
    induction n as [|n IH]; intros s Hs; cbn [run_pow].
    - split; [apply run_agree; exact Hs | intros s'; apply run_out_of_fuel_ok; exact Hs].
    - destruct (IH s Hs) as [Heq Hout]. rewrite Heq.
      destruct (run_pow o2 E n s) as [o s1|s1] eqn:R.
      + split; [reflexivity|discriminate].
      + specialize (Hout s1 eq_refl). apply IH. exact Hout.
  Qed.
End Refine.

Lemma init_state_ok : forall st bal ext, stack_ok (init_state st bal ext).
Proof. intros. constructor. Qed.

(* ---------- the instance the property is about ---------- *)
Theorem machine_refines_spec : forall E fuel s, stack_ok s ->
  run impl_ops E fuel s = run spec_ops E fuel s.
Proof. intros. apply run_agree; [exact impl_ops_agree | exact spec_ops_closed | assumption]. Qed.

Theorem machine_refines_spec_init : forall E fuel st bal ext,
  run impl_ops E fuel (init_state st bal ext) = run spec_ops E fuel (init_state st bal ext).
Proof. intros. apply machine_refines_spec. apply init_state_ok. Qed.

Theorem machine_pow_refines_spec : forall E n s, stack_ok s ->
  run_pow impl_ops E n s = run_pow spec_ops E n s.
Proof.
  intros E n s Hs.
  exact (proj1 (run_pow_agree impl_ops spec_ops impl_ops_agree spec_ops_closed E n s Hs)).
Qed.
