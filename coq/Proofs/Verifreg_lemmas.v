(* Proofs about coq/Model/Verifreg.v (property C09). *)
From stdpp Require Import gmap.
From Coq Require Import ZArith List Bool Lia.
From VF Require Import Gen.Consts Gen.VerifregConsts Base.Corr Base.MapSum Model.Verifreg.
Import ListNotations.
Open Scope Z_scope.

(* ---------- small tactics ---------- *)
Ltac dmatch H :=
  match type of H with
  | context [match ?x with _ => _ end] =>
      let E := fresh "E" in destruct x eqn:E; try discriminate H
  end.
Ltac rinv H := repeat (unfold rbind in H; dmatch H).
Ltac splits := repeat match goal with |- _ /\ _ => split end.

Lemma rbind_ok {A B} (r : R A) (f : A -> R B) x :
  rbind r f = Ok x -> exists a, r = Ok a /\ f a = Ok x.
Proof. destruct r; cbn; [eauto|discriminate]. Qed.

Lemma TP_pos : 0 < TOKEN_PRECISION.
Proof. reflexivity. Qed.
Lemma GRAN_is_TP : DATACAP_GRANULARITY = TOKEN_PRECISION.
Proof. reflexivity. Qed.
Global Opaque TOKEN_PRECISION DATACAP_GRANULARITY INFINITE_ALLOWANCE.

Lemma tok2dc_dc2tok a : tok2dc (dc2tok a) = a.
Proof. unfold tok2dc, dc2tok. apply Z.div_mul. pose proof TP_pos; lia. Qed.

Lemma valid_amount_spec a : valid_amount a = true -> 0 <= a /\ a = dc2tok (tok2dc a).
Proof.
  unfold valid_amount. rewrite andb_true_iff, Z.leb_le, Z.eqb_eq, GRAN_is_TP.
  intros [Ha Hm]. split; [exact Ha|].
  unfold dc2tok, tok2dc. pose proof TP_pos.
  rewrite (Z.div_mod a TOKEN_PRECISION) at 1 by lia. rewrite Hm. lia.
Qed.

Lemma valid_amount_dc2tok a : 0 <= a -> valid_amount (dc2tok a) = true.
Proof.
  intros Ha. unfold valid_amount, dc2tok. rewrite GRAN_is_TP. pose proof TP_pos.
  rewrite Z.mod_mul by lia. rewrite andb_true_iff, Z.leb_le, Z.eqb_eq. split; nia.
Qed.

(* ---------- balances ---------- *)
Definition bsum (b : gmap Z Z) : Z := msum (fun x => x) b.
Definition pos_bal (b : gmap Z Z) : Prop := forall k v, b !! k = Some v -> 0 < v.
Definition getb (b : gmap Z Z) (k : Z) : Z := default 0 (b !! k).

Lemma from_option_id (o : option Z) : from_option (fun x => x) 0 o = default 0 o.
Proof. destruct o; reflexivity. Qed.

Lemma set_or_delete_lookup {K} `{Countable K} (m : gmap K Z) k v j :
  default 0 (set_or_delete m k v !! j) = if decide (j = k) then v else default 0 (m !! j).
Proof.
  unfold set_or_delete. destruct (v =? 0) eqn:Ev.
  - apply Z.eqb_eq in Ev. subst v. destruct (decide (j = k)) as [->|Hn].
    + rewrite lookup_delete. reflexivity.
    + rewrite lookup_delete_ne by congruence. reflexivity.
  - destruct (decide (j = k)) as [->|Hn].
    + rewrite lookup_insert. reflexivity.
    + rewrite lookup_insert_ne by congruence. reflexivity.
Qed.

Lemma set_or_delete_sum (b : gmap Z Z) k v :
  bsum (set_or_delete b k v) = bsum b - getb b k + v.
Proof.
  unfold set_or_delete, bsum, getb. destruct (v =? 0) eqn:Ev.
  - apply Z.eqb_eq in Ev. subst v. rewrite msum_delete', from_option_id. lia.
  - rewrite msum_insert, from_option_id. lia.
Qed.

Lemma set_or_delete_pos (b : gmap Z Z) k v :
  pos_bal b -> 0 <= v -> pos_bal (set_or_delete b k v).
Proof.
  intros Hp Hv j x. unfold set_or_delete. destruct (v =? 0) eqn:Ev.
  - destruct (decide (j = k)) as [->|Hn].
    + rewrite lookup_delete. discriminate.
    + rewrite lookup_delete_ne by congruence. apply Hp.
  - apply Z.eqb_neq in Ev. destruct (decide (j = k)) as [->|Hn].
    + rewrite lookup_insert. intros [= <-]. lia.
    + rewrite lookup_insert_ne by congruence. apply Hp.
Qed.

Lemma pos_bal_getb b k : pos_bal b -> 0 <= getb b k.
Proof.
  intros Hp. unfold getb. destruct (b !! k) as [v|] eqn:E; cbn; [|lia].
  specialize (Hp k v E). lia.
Qed.

Lemma change_balance_spec b id d b' :
  change_balance b id d = Some b' ->
  (pos_bal b -> 0 <= getb b id + d) /\ bsum b' = bsum b + d /\
  (forall j, getb b' j = if decide (j = id) then getb b id + d else getb b j) /\
  (pos_bal b -> pos_bal b').
Proof.
  unfold change_balance. fold (getb b id). destruct (d =? 0) eqn:Ed.
  - apply Z.eqb_eq in Ed. subst d. intros [= <-]. splits.
    + intros Hp. pose proof (pos_bal_getb b id Hp). lia.
    + lia.
    + intros j. destruct (decide (j = id)) as [->|]; lia.
    + auto.
  - destruct (getb b id + d <? 0) eqn:En; [discriminate|].
    apply Z.ltb_ge in En. intros [= <-]. splits.
    + intros _. exact En.
    + rewrite set_or_delete_sum. lia.
    + intros j. unfold getb. rewrite set_or_delete_lookup. reflexivity.
    + intros Hp. apply set_or_delete_pos; assumption.
Qed.

Lemma make_transfer_spec b from to amount b' :
  0 <= amount -> make_transfer b from to amount = Some b' ->
  (pos_bal b -> amount <= getb b from) /\ bsum b' = bsum b /\
  (from <> to -> forall j, getb b' j =
      if decide (j = from) then getb b from - amount
      else if decide (j = to) then getb b to + amount else getb b j) /\
  (from = to -> b' = b) /\
  (pos_bal b -> pos_bal b').
Proof.
  intros Ha. unfold make_transfer. destruct (from =? to) eqn:Eft.
  - apply Z.eqb_eq in Eft. subst to. fold (getb b from).
    destruct (getb b from <? amount) eqn:El; [discriminate|]. apply Z.ltb_ge in El.
    intros [= <-]. splits; auto; try lia; intros; congruence.
  - apply Z.eqb_neq in Eft.
    destruct (change_balance b from (- amount)) as [b1|] eqn:E1; [|discriminate].
    intros E2.
    apply change_balance_spec in E1 as (H1a & H1b & H1c & H1d).
    apply change_balance_spec in E2 as (H2a & H2b & H2c & H2d).
    splits.
    + intros Hp. specialize (H1a Hp). lia.
    + lia.
    + intros _ j. rewrite H2c.
      destruct (decide (j = to)) as [->|Hjt].
      * rewrite (H1c to). destruct (decide (to = from)); [congruence|]. reflexivity.
      * rewrite (H1c j). destruct (decide (j = from)); [lia|reflexivity].
    + intros; congruence.
    + auto.
Qed.

(* ---------- token invariant ---------- *)
Definition tok_inv (t : token) : Prop :=
  supply t = bsum (bal t) /\ supply t = minted t - burnt t /\ pos_bal (bal t).

Lemma balance_of_getb t k : balance_of t k = getb (bal t) k.
Proof. reflexivity. Qed.

Lemma tok_inv_supply_nonneg t k : tok_inv t -> 0 <= balance_of t k.
Proof.
  intros (_ & _ & Hp). unfold balance_of. destruct (bal t !! k) as [v|] eqn:E; cbn; [|lia].
  specialize (Hp k v E). lia.
Qed.

Record tk_effect (t t' : token) (dsupply : Z) : Prop := {
  te_supply : supply t' = supply t + dsupply;
  te_minted : minted t' - burnt t' = minted t - burnt t + dsupply;
  te_sum : bsum (bal t') = bsum (bal t) + dsupply;
  te_pos : pos_bal (bal t) -> pos_bal (bal t');
}.

Lemma tk_effect_inv t t' d : tk_effect t t' d -> tok_inv t -> tok_inv t'.
Proof.
  intros [Hs Hm Hb Hp] (I1 & I2 & I3). unfold tok_inv. splits; [lia|lia|auto].
Qed.

Lemma tk_mint_spec t to a ops t' :
  tk_mint t to a ops = Ok t' ->
  0 <= a /\ tk_effect t t' a /\ minted t' = minted t + a /\ burnt t' = burnt t /\
  (forall j, balance_of t' j = if decide (j = to) then balance_of t to + a else balance_of t j) /\
  allow t' = fold_left (fun al o => <[ (to, o) := INFINITE_ALLOWANCE ]> al) ops (allow t).
Proof.
  unfold tk_mint. intros H. rinv H.
  apply negb_false_iff in E. apply valid_amount_spec in E as [Ha _].
  apply change_balance_spec in E0 as (H1 & H2 & H3 & H4).
  injection H as <-. cbn. splits; cbn; try lia; auto.
  constructor; cbn; try lia; auto.
Qed.

Lemma tk_burn_spec t o a t' :
  tk_burn t o a = Ok t' ->
  0 <= a /\ (pos_bal (bal t) -> a <= balance_of t o) /\ tk_effect t t' (- a) /\ minted t' = minted t /\ burnt t' = burnt t + a /\
  (forall j, balance_of t' j = if decide (j = o) then balance_of t o - a else balance_of t j) /\
  allow t' = allow t.
Proof.
  unfold tk_burn. intros H. rinv H.
  apply negb_false_iff in E. apply valid_amount_spec in E as [Ha _].
  apply change_balance_spec in E0 as (H1 & H2 & H3 & H4).
  injection H as <-. unfold balance_of. fold (getb (bal t) o). cbn.
  split; [exact Ha|]. split; [intros Hp; specialize (H1 Hp); lia|].
  split; [constructor; cbn; try lia; auto|].
  split; [reflexivity|]. split; [reflexivity|]. split; [|reflexivity].
  intros j. specialize (H3 j). unfold getb in *. destruct (decide (j = o)); lia.
Qed.

Lemma tk_transfer_spec t from to a t' :
  tk_transfer t from to a = Ok t' ->
  0 <= a /\ valid_amount a = true /\ (pos_bal (bal t) -> a <= balance_of t from) /\ tk_effect t t' 0 /\
  minted t' = minted t /\ burnt t' = burnt t /\ allow t' = allow t /\ supply t' = supply t /\
  (from <> to -> forall j, balance_of t' j =
      if decide (j = from) then balance_of t from - a
      else if decide (j = to) then balance_of t to + a else balance_of t j) /\
  (from = to -> bal t' = bal t).
Proof.
  unfold tk_transfer. intros H. rinv H.
  apply negb_false_iff in E. pose proof (valid_amount_spec _ E) as [Ha _].
  apply (make_transfer_spec _ _ _ _ _ Ha) in E0 as (H1 & H2 & H3 & H4 & H5).
  injection H as <-. unfold balance_of. cbn.
  split; [exact Ha|]. split; [exact E|]. split; [exact H1|].
  split; [constructor; cbn; try lia; auto|].
  splits; try reflexivity; auto.
Qed.

Lemma use_allowance_spec al operator owner a al' :
  use_allowance al operator owner a = Some al' ->
  a <= default 0 (al !! (owner, operator)) /\
  (operator <> owner -> default 0 (al !! (owner, operator)) <> 0) /\
  (forall k, k <> (owner, operator) -> al' !! k = al !! k).
Proof.
  unfold use_allowance. set (cur := default 0 (al !! (owner, operator))).
  destruct (((cur =? 0) && negb (operator =? owner)) || (cur <? a)) eqn:E; [discriminate|].
  apply orb_false_iff in E as [E1 E2]. apply Z.ltb_ge in E2.
  intros [= <-]. splits.
  - lia.
  - intros Hne Hz. apply andb_false_iff in E1 as [E1|E1].
    + apply Z.eqb_neq in E1. contradiction.
    + apply negb_false_iff, Z.eqb_eq in E1. contradiction.
  - intros k Hk. unfold change_allowance. destruct (- a =? 0); [reflexivity|].
    unfold set_or_delete.
    match goal with |- (if ?c then _ else _) !! _ = _ => destruct c end.
    + rewrite lookup_delete_ne by congruence. reflexivity.
    + rewrite lookup_insert_ne by congruence. reflexivity.
Qed.

Lemma tk_transfer_from_spec t op from to a t' :
  tk_transfer_from t op from to a = Ok t' ->
  exists al', use_allowance (allow t) op from a = Some al' /\ op <> from /\
  tk_transfer t from to a = Ok (tk_set_allow t' (allow t)) /\ allow t' = al'.
Proof.
  unfold tk_transfer_from, tk_transfer. intros H. rinv H.
  apply Z.eqb_neq in E0. injection H as <-. eexists; splits; eauto.
Qed.

Lemma tk_burn_from_spec t op owner a t' :
  tk_burn_from t op owner a = Ok t' ->
  exists al', use_allowance (allow t) op owner a = Some al' /\ op <> owner /\
  tk_burn t owner a = Ok (tk_set_allow t' (allow t)) /\ allow t' = al'.
Proof.
  unfold tk_burn_from, tk_burn. intros H. rinv H.
  apply Z.eqb_neq in E0. injection H as <-. eexists; splits; eauto.
Qed.

Lemma tk_effect_set_allow t t' d al :
  tk_effect t (tk_set_allow t' al) d -> tk_effect t t' d.
Proof. intros [A B C D]. constructor; auto. Qed.

(* ---------- deleting a list of keys ---------- *)
Fixpoint del_all {A} (m : gmap (Z * Z) A) (ks : list (Z * Z)) : gmap (Z * Z) A :=
  match ks with [] => m | k :: r => del_all (delete k m) r end.

Lemma del_all_lookup {A} (m : gmap (Z * Z) A) ks k :
  del_all m ks !! k = if decide (k ∈ ks) then None else m !! k.
Proof.
  revert m. induction ks as [|k0 r IH]; intros m; cbn.
  - destruct (decide (k ∈ [])) as [Hin|]; [inversion Hin|reflexivity].
  - rewrite IH. destruct (decide (k ∈ r)) as [Hr|Hr].
    + destruct (decide (k ∈ k0 :: r)) as [|Hn]; [reflexivity|]. exfalso. apply Hn. right. exact Hr.
    + destruct (decide (k = k0)) as [->|Hne].
      * rewrite lookup_delete. destruct (decide (k0 ∈ k0 :: r)) as [|Hn]; [reflexivity|].
        exfalso. apply Hn. left.
      * rewrite lookup_delete_ne by congruence.
        destruct (decide (k ∈ k0 :: r)) as [Hin|]; [|reflexivity].
        inversion Hin; subst; contradiction.
Qed.

Lemma del_all_app {A} (m : gmap (Z * Z) A) k1 k2 : del_all m (k1 ++ k2) = del_all (del_all m k1) k2.
Proof. revert m. induction k1; intros m; cbn; auto. Qed.

Definition vsum {A} (f : A -> Z) (m : gmap (Z * Z) A) (ks : list (Z * Z)) : Z :=
  sumZ (map (fun k => from_option f 0 (m !! k)) ks).

Lemma sumZ_app l1 l2 : sumZ (l1 ++ l2) = sumZ l1 + sumZ l2.
Proof. unfold sumZ. induction l1 as [|x r IH]; cbn [fold_right app]; lia. Qed.

Lemma sumZ_cons x l : sumZ (x :: l) = x + sumZ l.
Proof. reflexivity. Qed.

Lemma vsum_app {A} (f : A -> Z) m k1 k2 : vsum f m (k1 ++ k2) = vsum f m k1 + vsum f m k2.
Proof. unfold vsum. rewrite map_app, sumZ_app. reflexivity. Qed.

Lemma del_all_msum {A} (f : A -> Z) (m : gmap (Z * Z) A) ks :
  NoDup ks -> msum f (del_all m ks) = msum f m - vsum f m ks.
Proof.
  revert m. induction ks as [|k r IH]; intros m Hnd.
  - unfold vsum; cbn. lia.
  - inversion Hnd as [|? ? Hnin Hnd']; subst. cbn [del_all]. rewrite IH by exact Hnd'.
    rewrite msum_delete'. unfold vsum. cbn [map]. rewrite sumZ_cons.
    assert (Heq : map (fun k0 => from_option f 0 (delete k m !! k0)) r
                = map (fun k0 => from_option f 0 (m !! k0)) r).
    { apply map_ext_in. intros k0 Hk0. rewrite lookup_delete_ne; [reflexivity|].
      intros ->. apply Hnin. exact Hk0. }
    rewrite Heq. lia.
Qed.

(* ---------- claim_allocations ---------- *)
Definition asum (al : gmap (Z * Z) alloc) : Z := msum a_size al.

Definition claim_key (x : Z * claim) : Z * Z := (c_client (snd x), fst x).

Lemma can_claim_alloc_spec c p a e x :
  can_claim_alloc c p a e x = true <->
  p = a_provider a /\ ac_client c = a_client a /\ ac_data c = a_data a /\ ac_size c = a_size a /\
  e <= a_exp a /\ a_tmin a <= x - e <= a_tmax a.
Proof.
  unfold can_claim_alloc. rewrite !andb_true_iff, !Z.eqb_eq, !Z.leb_le. tauto.
Qed.

(* what the validation loop of one sector group establishes *)
Definition group_ok (al : gmap (Z * Z) alloc) (p e s x : Z) (c : aclaim) (n : Z * claim) : Prop :=
  fst n = ac_id c /\
  exists a, al !! (ac_client c, ac_id c) = Some a /\ can_claim_alloc c p a e x = true /\
            snd n = mk_claim p e s a.

Lemma group_new_claims_spec al p e s x cs news :
  group_new_claims al p e s x cs = Ok news -> Forall2 (group_ok al p e s x) cs news.
Proof.
  revert news. induction cs as [|c r IH]; intros news H; cbn in H.
  - injection H as <-. constructor.
  - rinv H. injection H as <-. apply negb_false_iff in E0. constructor.
    + split; [reflexivity|]. eexists; eauto.
    + apply IH. reflexivity.
Qed.

Lemma group_ok_key al p e s x c n :
  group_ok al p e s x c n ->
  exists a, al !! claim_key n = Some a /\ a_size a = c_size (snd n) /\ claim_key n = (ac_client c, ac_id c).
Proof.
  intros (Hid & a & Ha & Hc & Hn). apply can_claim_alloc_spec in Hc as (_ & Hcl & _).
  unfold claim_key. rewrite Hn, Hid. cbn. rewrite <- Hcl. eauto.
Qed.

Definition put_new (p : Z) (cl : gmap (Z * Z) claim) (news : list (Z * claim)) : gmap (Z * Z) claim :=
  fold_left (fun m n => <[ (p, fst n) := snd n ]> m) news cl.

Lemma apply_new_claims_spec cl al p news space ev cl' al' space' ev' :
  apply_new_claims cl al p news space ev = Ok (cl', al', space', ev') ->
  NoDup (map fst news) /\ (forall n, In n news -> cl !! (p, fst n) = None) /\
  cl' = put_new p cl news /\ al' = del_all al (map claim_key news) /\
  space' = space + sumZ (map (fun n => c_size (snd n)) news) /\
  ev' = ev ++ map (fun n => EvClaim (fst n)) news.
Proof.
  revert cl al space ev. induction news as [|[id c] r IH]; intros cl al space ev H; cbn in H.
  - injection H as <- <- <- <-. cbn. splits; auto; try lia.
    + constructor.
    + rewrite app_nil_r. reflexivity.
  - destruct (cl !! (p, id)) eqn:Ecl; [discriminate|].
    apply IH in H as (Hnd & Habs & Hcl & Hal & Hsp & Hev). cbn. splits.
    + constructor; [|exact Hnd]. intros Hin. apply in_map_iff in Hin as (n & Hn & Hin).
      specialize (Habs n Hin). rewrite Hn, lookup_insert in Habs. discriminate.
    + intros n [<-|Hin]; [exact Ecl|]. specialize (Habs n Hin).
      destruct (decide (fst n = id)) as [Heq|Hne].
      * rewrite Heq, lookup_insert in Habs. discriminate.
      * rewrite lookup_insert_ne in Habs by congruence. exact Habs.
    + exact Hcl.
    + exact Hal.
    + unfold sumZ in *. lia.
    + rewrite Hev, <- app_assoc. reflexivity.
Qed.

Lemma put_new_cons p cl n r : put_new p cl (n :: r) = put_new p (<[ (p, fst n) := snd n ]> cl) r.
Proof. reflexivity. Qed.

Lemma put_new_lookup_other p cl news k :
  (forall n, In n news -> k <> (p, fst n)) -> put_new p cl news !! k = cl !! k.
Proof.
  revert cl. induction news as [|n r IH]; intros cl Hk; [reflexivity|].
  rewrite put_new_cons.
  rewrite IH by (intros; apply Hk; right; assumption).
  rewrite lookup_insert_ne; [reflexivity|]. intros Heq. apply (Hk n); [left; reflexivity|congruence].
Qed.

Lemma put_new_lookup_in p cl news n :
  NoDup (map fst news) -> In n news -> put_new p cl news !! (p, fst n) = Some (snd n).
Proof.
  revert cl. induction news as [|n0 r IH]; intros cl Hnd Hin; [destruct Hin|].
  cbn in Hnd. inversion Hnd as [|? ? Hnin Hnd']; subst. rewrite put_new_cons. destruct Hin as [->|Hin].
  - rewrite put_new_lookup_other.
    + apply lookup_insert.
    + intros m Hm Heq. apply Hnin. apply in_map_iff. exists m. split; [congruence|exact Hm].
  - apply IH; assumption.
Qed.

(* invariant of the sector-group loop: K = keys (client, id) of the allocations claimed so far *)
Record pg_inv (al0 : gmap (Z * Z) alloc) (cl0 : gmap (Z * Z) claim) (p e : Z) (G : sgroup -> Prop)
    (K : list (Z * Z)) (acc : claim_acc) : Prop := {
  pg_nodup : NoDup (map snd K);
  pg_allocs : ca_allocs acc = del_all al0 K;
  pg_total : ca_total acc = vsum a_size al0 K;
  pg_evs : ca_evs acc = map (fun k => EvClaim (snd k)) K;
  pg_wit : forall c id, In (c, id) K ->
     exists g ac a, G g /\ In ac (sg_claims g) /\ ac_id ac = id /\ ac_client ac = c /\
       al0 !! (c, id) = Some a /\ can_claim_alloc ac p a e (sg_expiry g) = true /\
       ca_claims acc !! (p, id) = Some (mk_claim p e (sg_sector g) a);
  pg_fresh : forall c id, In (c, id) K -> cl0 !! (p, id) = None;
  pg_mono : forall k v, cl0 !! k = Some v -> ca_claims acc !! k = Some v;
  pg_new : forall k v, ca_claims acc !! k = Some v ->
     cl0 !! k = Some v \/ exists id, k = (p, id) /\ In id (map snd K) /\ cl0 !! k = None;
}.

Lemma pg_inv_init al0 cl0 p e G :
  pg_inv al0 cl0 p e G []
    {| ca_claims := cl0; ca_allocs := al0; ca_codes := []; ca_spaces := []; ca_total := 0; ca_evs := [] |}.
Proof.
  constructor; cbn; auto.
  - constructor.
  - intros c id [].
  - intros c id [].
Qed.

Lemma Forall2_In_r {A B} (P : A -> B -> Prop) l1 l2 y :
  Forall2 P l1 l2 -> In y l2 -> exists x, In x l1 /\ P x y.
Proof.
  induction 1 as [|a b l1' l2' Hab HF IH]; intros Hin; [destruct Hin|].
  destruct Hin as [<-|Hin].
  - exists a. split; [left; reflexivity|exact Hab].
  - destruct (IH Hin) as (x & Hx & Hp). exists x. split; [right; exact Hx|exact Hp].
Qed.

Lemma pg_inv_fail al0 cl0 p e G K acc k :
  pg_inv al0 cl0 p e G K acc ->
  pg_inv al0 cl0 p e G K
    {| ca_claims := ca_claims acc; ca_allocs := ca_allocs acc; ca_codes := ca_codes acc ++ [k];
       ca_spaces := ca_spaces acc; ca_total := ca_total acc; ca_evs := ca_evs acc |}.
Proof. intros [A B C D E F0 F H]. constructor; cbn; auto. Qed.

Lemma LNoDup_app {A} (l1 l2 : list A) :
  NoDup l1 -> NoDup l2 -> (forall x, In x l1 -> In x l2 -> False) -> NoDup (l1 ++ l2).
Proof.
  induction l1 as [|a r IH]; intros H1 H2 Hd; cbn; [exact H2|].
  inversion H1 as [|? ? Hn H1']; subst. constructor.
  - intros Hin. apply in_app_or in Hin as [Hin|Hin]; [contradiction|].
    apply (Hd a); [left; reflexivity|exact Hin].
  - apply IH; auto. intros x Hx1 Hx2. apply (Hd x); [right; exact Hx1|exact Hx2].
Qed.

Lemma classic_in_news p (news : list (Z * claim)) (k : Z * Z) :
  (exists n, In n news /\ k = (p, fst n)) \/ (forall n, In n news -> k <> (p, fst n)).
Proof.
  induction news as [|n r IH].
  - right. intros n [].
  - destruct (decide (k = (p, fst n))) as [->|Hne].
    + left. exists n. split; [left; reflexivity|reflexivity].
    + destruct IH as [(m & Hm & ->)|Hno].
      * left. exists m. split; [right; exact Hm|reflexivity].
      * right. intros m [<-|Hm]; [exact Hne|apply Hno; exact Hm].
Qed.

Lemma pg_inv_group al0 cl0 p e (G : sgroup -> Prop) K acc g news cl al space ev :
  G g ->
  pg_inv al0 cl0 p e G K acc ->
  group_new_claims (ca_allocs acc) p e (sg_sector g) (sg_expiry g) (sg_claims g) = Ok news ->
  apply_new_claims (ca_claims acc) (ca_allocs acc) p news 0 (ca_evs acc) = Ok (cl, al, space, ev) ->
  pg_inv al0 cl0 p e G (K ++ map claim_key news)
    {| ca_claims := cl; ca_allocs := al; ca_codes := ca_codes acc ++ [OK];
       ca_spaces := ca_spaces acc ++ [space]; ca_total := ca_total acc + space; ca_evs := ev |}.
Proof.
  intros HG [Hnd Hal Htot Hev Hwit Hfresh0 Hmono Hnew] Hgn Hap.
  apply group_new_claims_spec in Hgn.
  apply apply_new_claims_spec in Hap as (Hnd2 & Habs & -> & -> & -> & ->).
  (* every new entry: its allocation is in al0, outside K *)
  assert (Hkey : forall n, In n news ->
            exists c a, In c (sg_claims g) /\ group_ok (ca_allocs acc) p e (sg_sector g) (sg_expiry g) c n /\
                        al0 !! claim_key n = Some a /\ a_size a = c_size (snd n) /\
                        claim_key n = (ac_client c, ac_id c) /\ ~ In (claim_key n) K /\
                        ca_allocs acc !! claim_key n = Some a).
  { intros n Hn. destruct (Forall2_In_r _ _ _ _ Hgn Hn) as (c & Hc & Hok).
    destruct (group_ok_key _ _ _ _ _ _ _ Hok) as (a & Ha & Hsz & Hk).
    pose proof Ha as Ha'. rewrite Hal, del_all_lookup in Ha'.
    destruct (decide (claim_key n ∈ K)) as [|Hnk]; [discriminate|].
    exists c, a. splits; auto. intros Hin. apply Hnk, elem_of_list_In. exact Hin. }
  assert (Hsnd : map snd (map claim_key news) = map fst news).
  { rewrite map_map. apply map_ext. intros [i c]. reflexivity. }
  constructor; cbn [ca_claims ca_allocs ca_total ca_evs].
  - rewrite map_app, Hsnd. apply LNoDup_app; [exact Hnd|exact Hnd2|].
    intros id Hid1 Hid2.
    apply in_map_iff in Hid1 as ([c i] & Hi & HinK). cbn in Hi. subst i.
    apply in_map_iff in Hid2 as (n & Hn & Hinn).
    destruct (Hwit c id HinK) as (g0 & ac & a & _ & _ & _ & _ & _ & _ & Hcl).
    specialize (Habs n Hinn). rewrite Hn in Habs. congruence.
  - rewrite Hal, del_all_app. reflexivity.
  - rewrite vsum_app, Htot. f_equal. unfold vsum. rewrite map_map. rewrite Z.add_0_l. f_equal.
    apply map_ext_in. intros n Hn. destruct (Hkey n Hn) as (c & a & _ & _ & Ha & Hsz & _).
    rewrite Ha. cbn. lia.
  - rewrite Hev, map_app, map_map. f_equal.
  - intros c id Hin. apply in_app_or in Hin as [Hin|Hin].
    + destruct (Hwit c id Hin) as (g0 & ac & a & H1 & H2 & H3 & H4 & H5 & H6 & H7).
      exists g0, ac, a. splits; auto.
      rewrite put_new_lookup_other; [exact H7|].
      intros n Hn Heq. injection Heq as Heq. specialize (Habs n Hn). rewrite <- Heq in Habs. congruence.
    + apply in_map_iff in Hin as (n & Hk & Hn).
      destruct (Hkey n Hn) as (c0 & a & Hc0 & Hok & Ha & Hsz & Hkk & HnK & _).
      rewrite Hkk in Hk. injection Hk as <- <-.
      destruct Hok as (Hid & a' & Ha' & Hcc & Hsn).
      assert (a' = a).
      { rewrite Hal, del_all_lookup in Ha'. destruct (decide ((ac_client c0, ac_id c0) ∈ K)); [discriminate|].
        rewrite <- Hkk in Ha'. congruence. }
      subst a'. exists g, c0, a. splits; auto.
      * rewrite <- Hkk. exact Ha.
      * rewrite <- Hid, <- Hsn. apply put_new_lookup_in; assumption.
  - intros c id Hin. apply in_app_or in Hin as [Hin|Hin]; [eapply Hfresh0; eauto|].
    apply in_map_iff in Hin as (n & Hk & Hn). injection Hk as _ <-.
    specialize (Habs n Hn). destruct (cl0 !! (p, fst n)) eqn:E0; [|reflexivity].
    rewrite (Hmono _ _ E0) in Habs. discriminate.
  - intros k v Hk. rewrite put_new_lookup_other; [apply Hmono; exact Hk|].
    intros n Hn ->. specialize (Habs n Hn). rewrite (Hmono _ _ Hk) in Habs. discriminate.
  - intros k v Hk.
    destruct (classic_in_news p news k) as [(n & Hn & ->)|Hnot].
    + right. exists (fst n). splits; auto.
      * rewrite map_app, Hsnd. apply in_or_app. right. apply in_map. exact Hn.
      * specialize (Habs n Hn). destruct (cl0 !! (p, fst n)) eqn:E0; [|reflexivity].
        rewrite (Hmono _ _ E0) in Habs. discriminate.
    + rewrite put_new_lookup_other in Hk by exact Hnot.
      destruct (Hnew k v Hk) as [Hl|(id & -> & Hid & Hn0)]; [left; exact Hl|].
      right. exists id. splits; auto. rewrite map_app. apply in_or_app. left. exact Hid.
Qed.

Lemma process_groups_inv al0 cl0 p e (G : sgroup -> Prop) gs :
  (forall g, In g gs -> G g) ->
  forall K acc acc', pg_inv al0 cl0 p e G K acc -> process_groups p e gs acc = Ok acc' ->
  exists K', pg_inv al0 cl0 p e G (K ++ K') acc'.
Proof.
  induction gs as [|g rest IH]; intros HG K acc acc' Hinv H; cbn in H.
  - injection H as <-. exists []. rewrite app_nil_r. exact Hinv.
  - destruct (group_new_claims (ca_allocs acc) p e (sg_sector g) (sg_expiry g) (sg_claims g)) as [news|k] eqn:Egn.
    + unfold rbind in H.
      destruct (apply_new_claims (ca_claims acc) (ca_allocs acc) p news 0 (ca_evs acc)) as [[[[cl al] space] ev]|] eqn:Eap;
        [|discriminate].
      eapply IH in H.
      * destruct H as (K' & HK'). exists (map claim_key news ++ K'). rewrite app_assoc. exact HK'.
      * intros g0 Hg0. apply HG. right. exact Hg0.
      * eapply pg_inv_group; eauto. apply HG. left. reflexivity.
    + eapply IH in H.
      * exact H.
      * intros g0 Hg0. apply HG. right. exact Hg0.
      * apply pg_inv_fail. exact Hinv.
Qed.

(* ---------- remove_all: the removal loop of the two remove_expired methods ---------- *)
Lemma remove_all_spec {A} (m : gmap (Z * Z) A) owner ids acc m' out :
  remove_all m owner ids acc = Some (m', out) ->
  NoDup ids /\ (forall id, In id ids -> is_Some (m !! (owner, id))) /\
  m' = del_all m (map (pair owner) ids) /\
  exists vs, out = acc ++ vs /\ Forall2 (fun id v => m !! (owner, id) = Some v) ids vs.
Proof.
  revert m acc. induction ids as [|id r IH]; intros m acc H; cbn in H.
  - injection H as <- <-. splits; auto.
    + constructor.
    + intros id [].
    + exists []. rewrite app_nil_r. split; [reflexivity|constructor].
  - destruct (m !! (owner, id)) as [x|] eqn:Ex; [|discriminate].
    apply IH in H as (Hnd & Hpres & -> & vs & -> & HF).
    assert (Hnin : ~ In id r).
    { intros Hin. destruct (Hpres id Hin) as [y Hy]. rewrite lookup_delete in Hy. discriminate. }
    splits.
    + constructor; assumption.
    + intros i [<-|Hi]; [eauto|]. destruct (Hpres i Hi) as [y Hy].
      rewrite lookup_delete_ne in Hy; [eauto|]. intros [= ->]. contradiction.
    + reflexivity.
    + exists (x :: vs). rewrite <- app_assoc. split; [reflexivity|]. constructor; [exact Ex|].
      clear - HF Hnin. induction HF as [|i v r' vs' Hiv HF IH]; constructor.
      * rewrite lookup_delete_ne in Hiv; [exact Hiv|]. intros [= ->]. apply Hnin. left. reflexivity.
      * apply IH. intros Hin. apply Hnin. right. exact Hin.
Qed.

Lemma Forall2_vsum {A} (f : A -> Z) (m : gmap (Z * Z) A) owner ids vs :
  Forall2 (fun id v => m !! (owner, id) = Some v) ids vs ->
  sumZ (map f vs) = vsum f m (map (pair owner) ids).
Proof.
  induction 1 as [|i v r vs' Hiv HF IH]; [reflexivity|].
  unfold vsum in *. cbn [map]. rewrite !sumZ_cons, IH, Hiv. reflexivity.
Qed.

Lemma NoDup_map_pair (owner : Z) (ids : list Z) : NoDup ids -> NoDup (map (pair owner) ids).
Proof.
  induction 1 as [|i r Hn Hnd IH]; cbn; constructor; auto.
  intros Hin. apply in_map_iff in Hin as (j & [= ->] & Hj). contradiction.
Qed.

(* ---------- insert_allocs ---------- *)
Lemma insert_allocs_lookup al client first ars k :
  insert_allocs al client first ars !! k =
    match k with
    | (c, i) =>
        if decide (c = client /\ first <= i < first + Z.of_nat (length ars))
        then option_map (mk_alloc client) (nth_error ars (Z.to_nat (i - first)))
        else al !! k
    end.
Proof.
  revert al first. induction ars as [|r rest IH]; intros al first; destruct k as [c i]; cbn [insert_allocs length].
  - destruct (decide _) as [[_ Hr]|]; [lia|reflexivity].
  - rewrite IH. destruct (decide (c = client /\ first + 1 <= i < first + 1 + Z.of_nat (length rest))) as [[-> Hr]|Hn].
    + destruct (decide _) as [_|Hn2]; [|lia].
      replace (Z.to_nat (i - first)) with (S (Z.to_nat (i - (first + 1)))) by lia. reflexivity.
    + destruct (decide (c = client /\ first <= i < first + Z.of_nat (S (length rest)))) as [[-> Hr]|Hn2].
      * assert (i = first) by lia. subst i. rewrite lookup_insert.
        replace (Z.to_nat (first - first)) with O by lia. reflexivity.
      * rewrite lookup_insert_ne; [reflexivity|]. intros [= -> ->]. apply Hn2. split; [reflexivity|lia].
Qed.

Lemma insert_allocs_asum al client first ars :
  (forall c i, first <= i -> al !! (c, i) = None) ->
  asum (insert_allocs al client first ars) = asum al + sumZ (map rq_size ars).
Proof.
  revert al first. induction ars as [|r rest IH]; intros al first Hfresh; cbn [insert_allocs map].
  - unfold sumZ; cbn. lia.
  - rewrite IH.
    + unfold asum. rewrite msum_insert_new by (apply Hfresh; lia). rewrite sumZ_cons. cbn. lia.
    + intros c i Hi. rewrite lookup_insert_ne by (intros [= -> ->]; lia). apply Hfresh. lia.
Qed.

Lemma seqZ_In first n i : In i (seqZ first n) <-> first <= i < first + Z.of_nat n.
Proof.
  revert first. induction n as [|n IH]; intros first; cbn [seqZ].
  - split; [intros []|lia].
  - cbn [In]. rewrite IH. lia.
Qed.

Lemma seqZ_NoDup first n : NoDup (seqZ first n).
Proof.
  revert first. induction n as [|n IH]; intros first; cbn; constructor; auto.
  rewrite seqZ_In. lia.
Qed.

(* ---------- claims whose only change is a larger term_max ---------- *)
Definition claim_ext (v v' : claim) : Prop := v' = with_tmax v (c_tmax v') /\ c_tmax v <= c_tmax v'.

Definition claims_rel (cl cl' : gmap (Z * Z) claim) : Prop :=
  forall k, match cl' !! k with
            | Some v' => exists v, cl !! k = Some v /\ claim_ext v v'
            | None => cl !! k = None
            end.

Lemma claim_ext_refl v : claim_ext v v.
Proof. split; [destruct v; reflexivity|lia]. Qed.

Lemma claim_ext_trans a b c : claim_ext a b -> claim_ext b c -> claim_ext a c.
Proof.
  intros [H1 H2] [H3 H4]. split; [|lia]. rewrite H3. rewrite H1 at 1. destruct a; reflexivity.
Qed.

Lemma claims_rel_refl cl : claims_rel cl cl.
Proof. intros k. destruct (cl !! k) eqn:E; [eexists; split; [reflexivity|apply claim_ext_refl]|reflexivity]. Qed.

Lemma claims_rel_trans a b c : claims_rel a b -> claims_rel b c -> claims_rel a c.
Proof.
  intros H1 H2 k. specialize (H1 k). specialize (H2 k). destruct (c !! k) as [v''|].
  - destruct H2 as (v' & Hb & He2). rewrite Hb in H1. destruct H1 as (v & Ha & He1).
    exists v. split; [exact Ha|eapply claim_ext_trans; eauto].
  - rewrite H2 in H1. exact H1.
Qed.

Lemma claims_rel_insert cl k v v' :
  cl !! k = Some v -> claim_ext v v' -> claims_rel cl (<[ k := v' ]> cl).
Proof.
  intros Hk He j. destruct (decide (j = k)) as [->|Hn].
  - rewrite lookup_insert. eauto.
  - rewrite lookup_insert_ne by congruence. destruct (cl !! j) eqn:E; [|reflexivity].
    eexists; split; [reflexivity|apply claim_ext_refl].
Qed.

Definition ext_ok (cl : gmap (Z * Z) claim) (e : Z) (r : ereq) (u : Z * claim) : Prop :=
  fst u = ex_claim r /\
  exists c, cl !! (ex_provider r, ex_claim r) = Some c /\ check_extension e r c = OK /\
            snd u = with_tmax c (ex_tmax r).

Lemma check_extensions_spec cl e ers ups :
  check_extensions cl e ers = Ok ups -> Forall2 (ext_ok cl e) ers ups.
Proof.
  revert ups. induction ers as [|r rest IH]; intros ups H; cbn in H.
  - injection H as <-. constructor.
  - rinv H. injection H as <-. apply negb_false_iff, Z.eqb_eq in E0. constructor.
    + split; [reflexivity|]. eexists; eauto.
    + apply IH. reflexivity.
Qed.

Lemma check_extension_ok e r c :
  check_extension e r c = OK ->
  ex_tmax r <= e + MAXIMUM_VERIFIED_ALLOCATION_TERM - c_tstart c /\ c_tmax c < ex_tmax r /\
  e <= c_tstart c + c_tmax c.
Proof.
  unfold check_extension. intros H. rinv H.
  apply Z.ltb_ge in E, E1. apply Z.leb_gt in E0. lia.
Qed.

Lemma put_claims_snoc cl ups u :
  put_claims cl (ups ++ [u]) = <[ (c_provider (snd u), fst u) := snd u ]> (put_claims cl ups).
Proof. unfold put_claims. rewrite fold_left_app. destruct u. reflexivity. Qed.

Lemma put_claims_rel cl ups :
  (forall u, In u ups -> exists c, cl !! (c_provider (snd u), fst u) = Some c /\ claim_ext c (snd u)) ->
  claims_rel cl (put_claims cl ups).
Proof.
  induction ups as [|u r IH] using rev_ind; intros Hu.
  - apply claims_rel_refl.
  - rewrite put_claims_snoc. intros k.
    assert (Hr : claims_rel cl (put_claims cl r)) by (apply IH; intros; apply Hu, in_or_app; left; assumption).
    destruct (Hu u) as (c & Hc & He); [apply in_or_app; right; left; reflexivity|].
    destruct (decide (k = (c_provider (snd u), fst u))) as [->|Hn].
    + rewrite lookup_insert. eauto.
    + rewrite lookup_insert_ne by congruence. apply Hr.
Qed.

Lemma ext_ok_claim_ext cl e r u :
  (forall p i c, cl !! (p, i) = Some c -> c_provider c = p) ->
  ext_ok cl e r u -> exists c, cl !! (c_provider (snd u), fst u) = Some c /\ claim_ext c (snd u).
Proof.
  intros Hprov (Hid & c & Hc & Hk & Hu). apply check_extension_ok in Hk as (_ & Hlt & _).
  exists c. rewrite Hu, Hid. cbn. rewrite (Hprov _ _ _ Hc). split; [exact Hc|].
  split; [reflexivity|cbn; lia].
Qed.

Lemma extend_terms_rel cl caller terms codes ev cl' codes' ev' :
  extend_terms cl caller terms codes ev = (cl', codes', ev') -> claims_rel cl cl'.
Proof.
  revert cl codes ev. induction terms as [|[[p i] tm] rest IH]; intros cl codes ev H; cbn in H.
  - injection H as <- _ _. apply claims_rel_refl.
  - destruct (MAXIMUM_VERIFIED_ALLOCATION_TERM <? tm); [eapply IH; eauto|].
    destruct (cl !! (p, i)) as [c|] eqn:Ec; [|eapply IH; eauto].
    destruct (negb (c_client c =? caller)); [eapply IH; eauto|].
    destruct (tm <? c_tmax c) eqn:Et; [eapply IH; eauto|].
    apply Z.ltb_ge in Et. apply IH in H. eapply claims_rel_trans; [|exact H].
    apply (claims_rel_insert _ _ c); [exact Ec|]. split; [reflexivity|cbn; lia].
Qed.

Lemma del_all_lookup_Some {A} (cl : gmap (Z * Z) A) ks : forall k v, del_all cl ks !! k = Some v -> cl !! k = Some v.
Proof.
  intros k v. rewrite del_all_lookup. destruct (decide (k ∈ ks)); [discriminate|auto].
Qed.

(* ---------- effect of the composite functions ---------- *)
Definition burn_opt (t : token) (o x : Z) (t' : token) : Prop :=
  (x = 0 /\ t' = t) \/ tk_burn t o (dc2tok x) = Ok t'.

Lemma burn_opt_intro t o x t' :
  (if x =? 0 then Ok t else tk_burn t o (dc2tok x)) = Ok t' -> burn_opt t o x t'.
Proof.
  destruct (x =? 0) eqn:E.
  - apply Z.eqb_eq in E. intros [= <-]. left. auto.
  - intros H. right. exact H.
Qed.

Lemma tk_effect_refl t : tk_effect t t 0.
Proof. constructor; auto; lia. Qed.

Lemma burn_opt_spec t o x t' :
  burn_opt t o x t' ->
  tk_effect t t' (- dc2tok x) /\ allow t' = allow t /\
  minted t' = minted t /\ burnt t' = burnt t + dc2tok x /\
  (forall j, balance_of t' j = if decide (j = o) then balance_of t o - dc2tok x else balance_of t j).
Proof.
  intros [[-> ->]|H].
  - unfold dc2tok. cbn. splits; auto using tk_effect_refl; try lia.
    intros j. destruct (decide (j = o)) as [->|]; lia.
  - apply tk_burn_spec in H as (_ & _ & He & Hm & Hb & Hbal & Hal). splits; auto.
Qed.

Lemma receiver_hook_spec st e from am p st' ids ev :
  receiver_hook st e from am p = Ok (st', ids, ev) ->
  exists ars ers ups,
    p = PReqs ars ers /\ forallb (valid_areq (wld st) e) ars = true /\
    Forall2 (ext_ok (claims (reg st)) e) ers ups /\
    sumZ (map rq_size ars) + sumZ (map (fun u => c_size (snd u)) ups) = tok2dc am /\
    burn_opt (tok st) VR (sumZ (map (fun u => c_size (snd u)) ups)) (tok st') /\
    wld st' = wld st /\ verifiers (reg st') = verifiers (reg st) /\ proposals (reg st') = proposals (reg st) /\
    allocs (reg st') = insert_allocs (allocs (reg st)) from (next_id (reg st)) ars /\
    claims (reg st') = put_claims (claims (reg st)) ups /\
    next_id (reg st') = next_id (reg st) + Z.of_nat (length ars) /\
    ids = seqZ (next_id (reg st)) (length ars) /\
    ev = map EvAlloc ids ++ map (fun u => EvClaimUpdated (fst u)) ups.
Proof.
  unfold receiver_hook. intros H. destruct p as [|ars ers]; [discriminate|].
  destruct (negb (forallb (valid_areq (wld st) e) ars)) eqn:Ev; [discriminate|].
  apply negb_false_iff in Ev.
  apply rbind_ok in H as (ups & Hups & H).
  assert (Hmap : forall (l : list (Z * claim)), map (fun '(_, c) => c_size c) l = map (fun u => c_size (snd u)) l).
  { intros l. apply map_ext. intros [? ?]. reflexivity. }
  rewrite !Hmap in H.
  destruct (negb (_ =? tok2dc am)) eqn:Et; [discriminate|].
  apply negb_false_iff, Z.eqb_eq in Et.
  apply rbind_ok in H as (t1 & Ht1 & H).
  injection H as <- <- <-.
  exists ars, ers, ups. cbn. splits; auto.
  - apply check_extensions_spec. exact Hups.
  - apply burn_opt_intro. exact Ht1.
  - f_equal. apply map_ext. intros [? ?]. reflexivity.
Qed.

(* ---------- the reachable-state invariant ---------- *)
Definition allocs_wf (r : registry) : Prop :=
  (forall c i a, allocs r !! (c, i) = Some a -> a_client a = c /\ 1 <= i < next_id r) /\
  (forall c c' i a a', allocs r !! (c, i) = Some a -> allocs r !! (c', i) = Some a' -> c = c').

Definition claims_wf (r : registry) : Prop :=
  forall p i c, claims r !! (p, i) = Some c -> c_provider c = p /\ 1 <= i < next_id r.

Definition noallow (t : token) : Prop := forall o, allow t !! (VR, o) = None.

Record reg_inv (st : state) : Prop := {
  ri_tok : tok_inv (tok st);
  ri_noallow : noallow (tok st);
  ri_allocs : allocs_wf (reg st);
  ri_claims : claims_wf (reg st);
  ri_next : 1 <= next_id (reg st);
  ri_bal : balance_of (tok st) VR = dc2tok (asum (allocs (reg st)));
}.

Definition world_ok (w : world) : Prop := exists_ w VR = false.

Lemma init_inv w : reg_inv (init w).
Proof.
  constructor; cbn.
  - unfold tok_inv; cbn. unfold bsum. rewrite msum_empty. splits; try lia. intros k v. rewrite lookup_empty. discriminate.
  - intros o. apply lookup_empty.
  - split; cbn; intros *; rewrite lookup_empty; discriminate.
  - intros p i c. cbn. rewrite lookup_empty. discriminate.
  - lia.
  - unfold balance_of, asum; cbn. rewrite lookup_empty, msum_empty. reflexivity.
Qed.

Lemma hook_registry r e ars ers ups from :
  allocs_wf r -> claims_wf r -> 1 <= next_id r ->
  Forall2 (ext_ok (claims r) e) ers ups ->
  let r' := {| verifiers := verifiers r; proposals := proposals r;
               allocs := insert_allocs (allocs r) from (next_id r) ars;
               claims := put_claims (claims r) ups;
               next_id := next_id r + Z.of_nat (length ars) |} in
  allocs_wf r' /\ claims_wf r' /\ 1 <= next_id r' /\
  asum (allocs r') = asum (allocs r) + sumZ (map rq_size ars) /\
  claims_rel (claims r) (claims r').
Proof.
  intros [Hal Huq] Hcl Hn HF r'.
  assert (Hfresh : forall c i, next_id r <= i -> allocs r !! (c, i) = None).
  { intros c i Hi. destruct (allocs r !! (c, i)) eqn:E; [|reflexivity]. apply Hal in E. lia. }
  assert (Hrel : claims_rel (claims r) (put_claims (claims r) ups)).
  { apply put_claims_rel. intros u Hu. destruct (Forall2_In_r _ _ _ _ HF Hu) as (rq & _ & Hok).
    eapply ext_ok_claim_ext; [|exact Hok]. intros p i c Hc. apply (Hcl _ _ _ Hc). }
  splits.
  - split; cbn [allocs next_id r'].
    + intros c i a. rewrite insert_allocs_lookup.
      destruct (decide _) as [[-> Hr]|_].
      * destruct (nth_error ars _); cbn; [|discriminate]. intros [= <-]. cbn. lia.
      * intros E. apply Hal in E. lia.
    + intros c c' i a a'. rewrite !insert_allocs_lookup.
      destruct (decide (c = from /\ _)) as [[-> Hr]|Hn1]; destruct (decide (c' = from /\ _)) as [[-> Hr']|Hn2]; auto.
      * intros _ E. apply Hal in E. lia.
      * intros E _. apply Hal in E. lia.
      * apply Huq.
  - intros p i c Hc. cbn [claims next_id r'] in *. specialize (Hrel (p, i)). rewrite Hc in Hrel.
    destruct Hrel as (v & Hv & He & _). apply Hcl in Hv as [Hp Hi]. rewrite He. cbn. split; [exact Hp|lia].
  - cbn. lia.
  - cbn [allocs r']. apply insert_allocs_asum. exact Hfresh.
  - exact Hrel.
Qed.

Lemma dc2tok_add a b : dc2tok (a + b) = dc2tok a + dc2tok b.
Proof. unfold dc2tok. lia. Qed.
Lemma dc2tok_sub a b : dc2tok (a - b) = dc2tok a - dc2tok b.
Proof. unfold dc2tok. lia. Qed.

Lemma hook_inv st0 t1 e from am p st' ids ev :
  reg_inv st0 ->
  tk_effect (tok st0) t1 0 -> noallow t1 ->
  balance_of t1 VR = balance_of (tok st0) VR + am -> valid_amount am = true ->
  receiver_hook (set_tok st0 t1) e from am p = Ok (st', ids, ev) ->
  reg_inv st' /\ wld st' = wld st0.
Proof.
  intros [It Ia Ial Icl In_ Ib] He Hna Hb Hv H.
  apply receiver_hook_spec in H as (ars & ers & ups & -> & Hva & HF & Hsum & Hbo & Hw & Hver & Hpr & Hal & Hcl & Hnx & -> & ->).
  cbn [set_tok tok reg wld] in *.
  apply burn_opt_spec in Hbo as (Hbe & Hballow & _ & _ & Hbbal).
  destruct (hook_registry (reg st0) e ars ers ups from Ial Icl In_ HF) as (W1 & W2 & W3 & W4 & W5).
  cbn [allocs claims next_id] in *.
  split; [|exact Hw].
  assert (Hreg : reg st' = {| verifiers := verifiers (reg st0); proposals := proposals (reg st0);
                              allocs := insert_allocs (allocs (reg st0)) from (next_id (reg st0)) ars;
                              claims := put_claims (claims (reg st0)) ups;
                              next_id := next_id (reg st0) + Z.of_nat (length ars) |}).
  { destruct (reg st'); cbn in *. congruence. }
  constructor.
  - eapply tk_effect_inv; [exact Hbe|]. eapply tk_effect_inv; [exact He|exact It].
  - intros o. rewrite Hballow. apply Hna.
  - rewrite Hreg. exact W1.
  - rewrite Hreg. exact W2.
  - rewrite Hreg. exact W3.
  - rewrite Hreg. cbn [allocs]. rewrite W4, Hbbal. destruct (decide (VR = VR)); [|congruence].
    rewrite Hb, Ib. apply valid_amount_spec in Hv as [_ Hv]. rewrite Hv, <- Hsum.
    rewrite !dc2tok_add. lia.
Qed.

(* ---------- expiration.rs ---------- *)
Lemma insert_sortedZ_In x y l : In x (insert_sortedZ y l) <-> x = y \/ In x l.
Proof.
  induction l as [|z r IH]; cbn.
  - intuition.
  - destruct (y <=? z); cbn; rewrite ?IH; intuition.
Qed.

Lemma sortZ_In x l : In x (sortZ l) <-> In x l.
Proof.
  induction l as [|y r IH]; cbn; [tauto|]. rewrite insert_sortedZ_In, IH. intuition.
Qed.

Lemma find_expired_In {A} (f : A -> Z) (m : gmap (Z * Z) A) owner e id :
  In id (find_expired f m owner e) -> exists x, m !! (owner, id) = Some x /\ f x <= e.
Proof.
  unfold find_expired. rewrite sortZ_In. intros Hin.
  apply elem_of_list_In, elem_of_list_omap in Hin as ([[o i] x] & Hx & Hsome).
  apply elem_of_map_to_list in Hx.
  destruct ((o =? owner) && (f x <=? e)) eqn:E; [|discriminate].
  injection Hsome as ->. apply andb_true_iff in E as [E1 E2].
  apply Z.eqb_eq in E1. apply Z.leb_le in E2. subst o. eauto.
Qed.

Lemma successes_all_ok ids : successes ids (map (fun _ => OK) ids) = ids.
Proof. induction ids as [|i r IH]; cbn; [reflexivity|]. rewrite IH. reflexivity. Qed.

Lemma successes_check_In {A} (f : A -> Z) (m : gmap (Z * Z) A) owner e ids id :
  In id (successes ids (check_expired f m owner e ids)) ->
  exists x, m !! (owner, id) = Some x /\ f x <= e.
Proof.
  induction ids as [|i r IH]; cbn; [intros []|].
  destruct (m !! (owner, i)) as [x|] eqn:Ex; cbn.
  - destruct (f x <=? e) eqn:El; cbn.
    + intros [<-|Hin]; [apply Z.leb_le in El; eauto|auto].
    + auto.
  - auto.
Qed.

Definition to_remove_of {A} (f : A -> Z) (m : gmap (Z * Z) A) owner e (ids : list Z) : list Z :=
  match ids with
  | [] => find_expired f m owner e
  | _ => successes ids (check_expired f m owner e ids)
  end.

Lemma to_remove_of_In {A} (f : A -> Z) (m : gmap (Z * Z) A) owner e ids id :
  In id (to_remove_of f m owner e ids) -> exists x, m !! (owner, id) = Some x /\ f x <= e.
Proof.
  destruct ids; [apply find_expired_In|apply successes_check_In].
Qed.

Lemma remove_expired_allocations_spec st e client ids st' r ev :
  remove_expired_allocations st e client ids = Ok (st', r, ev) ->
  let rm := to_remove_of a_exp (allocs (reg st)) client e ids in
  let K := map (pair client) rm in
  NoDup rm /\ client <> VR /\ hook_code (wld st) client = OK /\
  tk_transfer (tok st) VR client (dc2tok (vsum a_size (allocs (reg st)) K)) = Ok (tok st') /\
  wld st' = wld st /\
  reg st' = {| verifiers := verifiers (reg st); proposals := proposals (reg st);
               allocs := del_all (allocs (reg st)) K; claims := claims (reg st);
               next_id := next_id (reg st) |} /\
  ev = map EvAllocRemoved rm.
Proof.
  unfold remove_expired_allocations. intros H.
  set (cc := match ids with
             | [] => _
             | _ => _
             end) in H.
  assert (Hcc : successes (fst cc) (snd cc) = to_remove_of a_exp (allocs (reg st)) client e ids).
  { subst cc. destruct ids; cbn [fst snd to_remove_of]; [apply successes_all_ok|reflexivity]. }
  destruct cc as [considered codes]. cbn [fst snd] in Hcc. rewrite Hcc in H.
  destruct (remove_all _ _ _ _) as [[al removed]|] eqn:Erm; [|discriminate].
  apply remove_all_spec in Erm as (Hnd & Hpres & -> & vs & -> & HF). cbn [app] in *.
  rewrite (Forall2_vsum a_size _ _ _ _ HF) in H.
  apply rbind_ok in H as ([[st2 x] y] & Hdc & H). injection H as <- <- <-.
  unfold dc_transfer in Hdc.
  rewrite Z.eqb_refl, orb_true_r in Hdc. cbn [negb] in Hdc.
  apply rbind_ok in Hdc as (t1 & Ht1 & Hdel). unfold deliver in Hdel.
  destruct (client =? VR) eqn:Ecv.
  - unfold receiver_hook in Hdel. discriminate.
  - apply Z.eqb_neq in Ecv. destruct (hook_code _ client =? OK) eqn:Eh; [|discriminate].
    apply Z.eqb_eq in Eh. injection Hdel as <- _ _. cbn in *. splits; auto.
Qed.

Lemma claim_allocations_spec st e c gs aon st' r ev :
  claim_allocations st e c gs aon = Ok (st', r, ev) ->
  is_miner (wld st) c = true /\
  exists K acc,
    pg_inv (allocs (reg st)) (claims (reg st)) c e (fun g => In g gs) K acc /\
    burn_opt (tok st) VR (ca_total acc) (tok st') /\ wld st' = wld st /\
    reg st' = {| verifiers := verifiers (reg st); proposals := proposals (reg st);
                 allocs := ca_allocs acc; claims := ca_claims acc; next_id := next_id (reg st) |} /\
    ev = ca_evs acc /\
    r = enc_list (ca_codes acc) ++ enc_list (ca_spaces acc) /\
    (aon = true -> forallb (fun k => k =? OK) (ca_codes acc) = true).
Proof.
  unfold claim_allocations. intros H.
  destruct (negb (is_miner (wld st) c)) eqn:Em; [discriminate|]. apply negb_false_iff in Em.
  split; [exact Em|].
  destruct gs as [|g0 gs0]; [discriminate|]. set (gs := g0 :: gs0) in *.
  apply rbind_ok in H as (acc & Hpg & H).
  destruct (aon && existsb (fun k => negb (k =? OK)) (ca_codes acc)) eqn:Ea; [discriminate|].
  apply rbind_ok in H as (t1 & Ht1 & H). injection H as <- <- <-.
  eapply (process_groups_inv (allocs (reg st)) (claims (reg st)) c e (fun g => In g gs)) in Hpg;
    [|auto|apply pg_inv_init].
  destruct Hpg as (K & HK). cbn [app] in HK.
  exists K, acc. cbn. splits; auto.
  - apply burn_opt_intro. exact Ht1.
  - intros ->. cbn in Ea. clear - Ea. induction (ca_codes acc) as [|k r IH]; cbn in *; [reflexivity|].
    apply orb_false_iff in Ea as [E1 E2]. apply negb_false_iff in E1. rewrite E1. cbn. auto.
Qed.

Lemma remove_expired_claims_spec st e provider ids st' r ev :
  remove_expired_claims st e provider ids = Ok (st', r, ev) ->
  let rm := to_remove_of claim_expiration (claims (reg st)) provider e ids in
  NoDup rm /\ tok st' = tok st /\ wld st' = wld st /\
  reg st' = {| verifiers := verifiers (reg st); proposals := proposals (reg st);
               allocs := allocs (reg st); claims := del_all (claims (reg st)) (map (pair provider) rm);
               next_id := next_id (reg st) |} /\
  ev = map EvClaimRemoved rm.
Proof.
  unfold remove_expired_claims. intros H.
  set (cc := match ids with
             | [] => _
             | _ => _
             end) in H.
  assert (Hcc : successes (fst cc) (snd cc) = to_remove_of claim_expiration (claims (reg st)) provider e ids).
  { subst cc. destruct ids; cbn [fst snd to_remove_of]; [apply successes_all_ok|reflexivity]. }
  destruct cc as [considered codes]. cbn [fst snd] in Hcc. rewrite Hcc in H.
  destruct (remove_all _ _ _ _) as [[cl removed]|] eqn:Erm; [|discriminate].
  apply remove_all_spec in Erm as (Hnd & Hpres & -> & _).
  injection H as <- <- <-. cbn. splits; auto.
Qed.

Lemma NoDup_map_snd_keys (K : list (Z * Z)) : NoDup (map snd K) -> NoDup K.
Proof.
  induction K as [|k r IH]; cbn; intros H; constructor; inversion H; subst; auto.
  intros Hin. apply H2. apply in_map. exact Hin.
Qed.

(* ---------- preservation of the invariant by every message ---------- *)
Definition op_caller (o : op) : Z :=
  match o with
  | AddVerifier c _ _ | RemoveVerifier c _ | AddClient c _ _ | RemoveDataCap c _ _ _ _ _ _
  | Transfer _ c _ _ _ | TransferFrom _ c _ _ _ _ | ClaimAllocs _ c _ _ | RemoveExpAllocs _ c _ _
  | RemoveExpClaims _ c _ _ | ExtendTerms c _ | GetClaims c _ _ | Burn c _ | BurnFrom c _ _
  | IncAllowance c _ _ | DecAllowance c _ _ | RevokeAllowance c _ => c
  end.

Lemma reg_inv_frame st st' :
  reg_inv st -> tok_inv (tok st') -> noallow (tok st') ->
  balance_of (tok st') VR = balance_of (tok st) VR ->
  allocs (reg st') = allocs (reg st) -> next_id (reg st') = next_id (reg st) ->
  claims_wf (reg st') -> reg_inv st'.
Proof.
  intros [It Ia [Ial Iuq] Icl In_ Ib] Ht Hn Hb Hal Hnx Hcl. constructor; auto.
  - split; rewrite Hal, ?Hnx; auto.
  - lia.
  - rewrite Hb, Hal. exact Ib.
Qed.

Lemma claims_wf_same r r' :
  claims r' = claims r -> next_id r' = next_id r -> claims_wf r -> claims_wf r'.
Proof. intros Hc Hn H p i c. rewrite Hc, Hn. apply H. Qed.

Lemma claims_wf_rel r r' :
  claims_rel (claims r) (claims r') -> next_id r' = next_id r -> claims_wf r -> claims_wf r'.
Proof.
  intros Hrel Hn H p i c Hc. specialize (Hrel (p, i)). rewrite Hc in Hrel.
  destruct Hrel as (v & Hv & He & _). apply H in Hv as [Hp Hi]. rewrite He, Hn. cbn. auto.
Qed.

Lemma noallow_other (al al' : gmap (Z * Z) Z) (owner operator : Z) :
  owner <> VR -> (forall k, k <> (owner, operator) -> al' !! k = al !! k) ->
  (forall o, al !! (VR, o) = None) -> (forall o, al' !! (VR, o) = None).
Proof. intros Hne Hk Ha o. rewrite Hk; [apply Ha|]. intros [= Heq _]. congruence. Qed.

Lemma change_allowance_other al owner operator d k :
  k <> (owner, operator) -> change_allowance al owner operator d !! k = al !! k.
Proof.
  intros Hk. unfold change_allowance. destruct (d =? 0); [reflexivity|].
  unfold set_or_delete. destruct (_ =? 0).
  - rewrite lookup_delete_ne by congruence. reflexivity.
  - rewrite lookup_insert_ne by congruence. reflexivity.
Qed.

Lemma use_allowance_owner al operator owner a al' :
  (forall o, al !! (VR, o) = None) -> operator <> owner ->
  use_allowance al operator owner a = Some al' -> owner <> VR.
Proof.
  intros Hna Hne H. apply use_allowance_spec in H as (_ & Hnz & _). intros ->.
  apply (Hnz Hne). rewrite Hna. reflexivity.
Qed.

Lemma exists_not_VR w x : world_ok w -> exists_ w x = true -> x <> VR.
Proof. unfold world_ok. intros Hw Hx ->. congruence. Qed.

Lemma inv_add_verifier st c a al st' r ev :
  add_verifier st c a al = Ok (st', r, ev) -> reg_inv st -> reg_inv st' /\ wld st' = wld st.
Proof.
  unfold add_verifier. intros H I. rinv H. injection H as <- _ _. split; [|reflexivity].
  apply (reg_inv_frame st); auto; try apply I.
Qed.

Lemma inv_remove_verifier st c a st' r ev :
  remove_verifier st c a = Ok (st', r, ev) -> reg_inv st -> reg_inv st' /\ wld st' = wld st.
Proof.
  unfold remove_verifier. intros H I. rinv H. injection H as <- _ _. split; [|reflexivity].
  apply (reg_inv_frame st); auto; try apply I.
Qed.

Lemma fold_insert_noallow (to : Z) (ops : list Z) (al : gmap (Z * Z) Z) :
  to <> VR -> (forall o, al !! (VR, o) = None) ->
  forall o, fold_left (fun al o => <[ (to, o) := INFINITE_ALLOWANCE ]> al) ops al !! (VR, o) = None.
Proof.
  intros Hne. revert al. induction ops as [|x r IH]; intros al Ha o; cbn; [apply Ha|].
  apply IH. intros o'. rewrite lookup_insert_ne; [apply Ha|]. intros [= Heq _]. congruence.
Qed.

Lemma inv_add_client st c a al st' r ev :
  add_verified_client st c a al = Ok (st', r, ev) -> world_ok (wld st) ->
  reg_inv st -> reg_inv st' /\ wld st' = wld st.
Proof.
  unfold add_verified_client. intros H Hw I. rinv H.
  apply negb_false_iff in E0. pose proof (exists_not_VR _ _ Hw E0) as Hne.
  injection H as <- _ _. split; [|reflexivity].
  apply tk_mint_spec in E5 as (_ & He & _ & _ & Hbal & Hallow).
  apply (reg_inv_frame st); cbn; auto; try apply I.
  - eapply tk_effect_inv; [exact He|apply I].
  - intros o. rewrite Hallow. apply fold_insert_noallow; [exact Hne|apply I].
  - rewrite Hbal. destruct (decide (VR = a)); [congruence|reflexivity].
Qed.

Lemma inv_remove_data_cap st c cl am v1 s1 v2 s2 st' r ev :
  remove_data_cap st c cl am v1 s1 v2 s2 = Ok (st', r, ev) ->
  reg_inv st -> reg_inv st' /\ wld st' = wld st.
Proof.
  unfold remove_data_cap. intros H I. rinv H; apply Z.eqb_neq in E3.
  injection H as <- _ _. split; [|reflexivity].
  apply burn_opt_intro, burn_opt_spec in E8 as (He & Hallow & _ & _ & Hbal).
  apply (reg_inv_frame st); cbn; auto; try apply I.
  - eapply tk_effect_inv; [exact He|apply I].
  - intros o. rewrite Hallow. apply I.
  - rewrite Hbal. destruct (decide (VR = cl)); [congruence|reflexivity].
Qed.

Lemma inv_deliver_vr st0 t1 e from am p st' ids ev :
  reg_inv st0 -> from <> VR ->
  tk_transfer (tok st0) from VR am = Ok (tk_set_allow t1 (allow (tok st0))) -> noallow t1 ->
  deliver (set_tok st0 t1) e from VR am p = Ok (st', ids, ev) ->
  reg_inv st' /\ wld st' = wld st0.
Proof.
  intros I Hne Ht Hna Hd. unfold deliver in Hd. rewrite Z.eqb_refl in Hd.
  apply tk_transfer_spec in Ht as (Ha & Hv & _ & He & _ & _ & _ & _ & Hbal & _).
  specialize (Hbal Hne VR). destruct (decide (VR = from)); [congruence|].
  destruct (decide (VR = VR)); [|congruence]. cbn in Hbal.
  apply tk_effect_set_allow in He.
  exact (hook_inv st0 t1 e from am p st' ids ev I He Hna Hbal Hv Hd).
Qed.

Lemma tk_set_allow_same t : tk_set_allow t (allow t) = t.
Proof. destruct t; reflexivity. Qed.

Lemma inv_transfer st e c to am p st' ids ev :
  dc_transfer st e c to am p = Ok (st', ids, ev) -> c <> VR ->
  reg_inv st -> reg_inv st' /\ wld st' = wld st.
Proof.
  unfold dc_transfer. intros H Hc I.
  destruct (negb ((to =? VR) || (c =? VR))) eqn:E; [discriminate|].
  apply negb_false_iff, orb_true_iff in E as [E|E]; apply Z.eqb_eq in E; [subst to|congruence].
  apply rbind_ok in H as (t1 & Ht1 & Hd).
  eapply inv_deliver_vr; eauto.
  - assert (allow t1 = allow (tok st)) as <- by (apply tk_transfer_spec in Ht1; tauto).
    rewrite tk_set_allow_same. exact Ht1.
  - assert (Hal : allow t1 = allow (tok st)) by (apply tk_transfer_spec in Ht1; tauto).
    intros o. rewrite Hal. apply I.
Qed.

Lemma inv_transfer_from st e c from to am p st' ids ev :
  dc_transfer_from st e c from to am p = Ok (st', ids, ev) -> c <> VR ->
  reg_inv st -> reg_inv st' /\ wld st' = wld st.
Proof.
  unfold dc_transfer_from. intros H Hc I.
  destruct (negb (to =? VR)) eqn:E; [discriminate|].
  apply negb_false_iff, Z.eqb_eq in E. subst to.
  apply rbind_ok in H as (t1 & Ht1 & Hd).
  apply tk_transfer_from_spec in Ht1 as (al' & Hu & Hne & Ht & Hal).
  pose proof (use_allowance_owner _ _ _ _ _ (ri_noallow _ I) Hne Hu) as Hfrom.
  eapply inv_deliver_vr; eauto.
  intros o. rewrite Hal. apply use_allowance_spec in Hu as (_ & _ & Hk).
  eapply noallow_other; [exact Hfrom|exact Hk|apply I].
Qed.

Lemma inv_claim st e c gs aon st' r ev :
  claim_allocations st e c gs aon = Ok (st', r, ev) ->
  reg_inv st -> reg_inv st' /\ wld st' = wld st.
Proof.
  intros H I. apply claim_allocations_spec in H as (_ & K & acc & HK & Hbo & Hw & Hreg & _).
  split; [|exact Hw]. destruct HK as [Hnd Hal Htot Hev Hwit Hfresh Hmono Hnew].
  apply burn_opt_spec in Hbo as (He & Hallow & _ & _ & Hbal).
  destruct I as [It Ia [Ial Iuq] Icl In_ Ib].
  constructor.
  - eapply tk_effect_inv; eauto.
  - intros o. rewrite Hallow. apply Ia.
  - rewrite Hreg. split; cbn; rewrite Hal.
    + intros c0 i a Hl. apply del_all_lookup_Some in Hl. auto.
    + intros c0 c' i a a' H1 H2. apply del_all_lookup_Some in H1, H2. eauto.
  - rewrite Hreg. intros p i cl Hcl. cbn in *.
    destruct (Hnew _ _ Hcl) as [Hold|(id & [= -> ->] & Hid & _)]; [apply Icl; exact Hold|].
    apply in_map_iff in Hid as ([c0 i0] & Hi0 & HinK). cbn in Hi0. subst i0.
    destruct (Hwit c0 id HinK) as (g & ac & a & _ & _ & _ & _ & Ha & _ & Hcl').
    rewrite Hcl' in Hcl. injection Hcl as <-. cbn. split; [reflexivity|]. apply Ial in Ha. tauto.
  - rewrite Hreg. exact In_.
  - rewrite Hreg. cbn [allocs]. rewrite Hal, Hbal. destruct (decide (VR = VR)); [|congruence].
    unfold asum. rewrite del_all_msum by (apply NoDup_map_snd_keys; exact Hnd).
    rewrite Ib, Htot. unfold asum. rewrite dc2tok_sub. reflexivity.
Qed.

Lemma inv_remove_expired_allocations st e client ids st' r ev :
  remove_expired_allocations st e client ids = Ok (st', r, ev) ->
  reg_inv st -> reg_inv st' /\ wld st' = wld st.
Proof.
  intros H I. apply remove_expired_allocations_spec in H as (Hnd & Hne & _ & Ht & Hw & Hreg & _).
  split; [|exact Hw].
  apply tk_transfer_spec in Ht as (_ & _ & _ & He & _ & _ & Hallow & _ & Hbal & _).
  assert (Hne' : VR <> client) by congruence. specialize (Hbal Hne' VR).
  destruct (decide (VR = VR)); [|congruence].
  destruct I as [It Ia [Ial Iuq] Icl In_ Ib].
  constructor.
  - eapply tk_effect_inv; eauto.
  - intros o. rewrite Hallow. apply Ia.
  - rewrite Hreg. split; cbn.
    + intros c0 i a Hl. apply del_all_lookup_Some in Hl. auto.
    + intros c0 c' i a a' H1 H2. apply del_all_lookup_Some in H1, H2. eauto.
  - rewrite Hreg. exact Icl.
  - rewrite Hreg. exact In_.
  - rewrite Hreg. cbn [allocs]. rewrite Hbal. unfold asum.
    rewrite del_all_msum by (apply NoDup_map_pair; exact Hnd).
    rewrite Ib. unfold asum. rewrite dc2tok_sub. reflexivity.
Qed.

Lemma inv_remove_expired_claims st e provider ids st' r ev :
  remove_expired_claims st e provider ids = Ok (st', r, ev) ->
  reg_inv st -> reg_inv st' /\ wld st' = wld st.
Proof.
  intros H I. apply remove_expired_claims_spec in H as (_ & Ht & Hw & Hreg & _).
  split; [|exact Hw]. apply (reg_inv_frame st); rewrite ?Ht, ?Hreg; cbn; auto; try apply I.
  intros p i c Hc. cbn in Hc. apply del_all_lookup_Some in Hc. apply (ri_claims _ I). exact Hc.
Qed.

Lemma inv_extend_terms st c terms st' r ev :
  extend_claim_terms st c terms = Ok (st', r, ev) ->
  reg_inv st -> reg_inv st' /\ wld st' = wld st.
Proof.
  unfold extend_claim_terms. intros H I.
  destruct (extend_terms _ _ _ _ _) as [[cl codes] ev0] eqn:Ee. injection H as <- _ _.
  split; [|reflexivity]. apply (reg_inv_frame st); cbn; auto; try apply I.
  apply (claims_wf_rel (reg st)); [|reflexivity|exact (ri_claims _ I)]. cbn. eapply extend_terms_rel. exact Ee.
Qed.

Theorem exec_inv st o st' r ev :
  exec st o = Ok (st', r, ev) -> world_ok (wld st) -> op_caller o <> VR ->
  reg_inv st -> reg_inv st' /\ wld st' = wld st.
Proof.
  intros H Hw Hc I. destruct o; cbn [exec op_caller] in *.
  - eapply inv_add_verifier; eauto.
  - eapply inv_remove_verifier; eauto.
  - eapply inv_add_client; eauto.
  - eapply inv_remove_data_cap; eauto.
  - apply rbind_ok in H as ([[s i] v] & H & H2). cbn in H2. injection H2 as <- _ _. eapply inv_transfer; eauto.
  - apply rbind_ok in H as ([[s i] v] & H & H2). cbn in H2. injection H2 as <- _ _. eapply inv_transfer_from; eauto.
  - eapply inv_claim; eauto.
  - eapply inv_remove_expired_allocations; eauto.
  - eapply inv_remove_expired_claims; eauto.
  - eapply inv_extend_terms; eauto.
  - unfold get_claims in H. injection H as <- _ _. auto.
  - apply rbind_ok in H as (t & Ht & H). injection H as <- _ _. split; [|reflexivity].
    apply tk_burn_spec in Ht as (_ & _ & He & _ & _ & Hbal & Hallow).
    apply (reg_inv_frame st); cbn; auto; try apply I.
    + eapply tk_effect_inv; [exact He|apply I].
    + intros o. rewrite Hallow. apply I.
    + rewrite Hbal. destruct (decide (VR = caller)); [congruence|reflexivity].
  - apply rbind_ok in H as (t & Ht & H). injection H as <- _ _. split; [|reflexivity].
    apply tk_burn_from_spec in Ht as (al' & Hu & Hne & Ht & Hal).
    pose proof (use_allowance_owner _ _ _ _ _ (ri_noallow _ I) Hne Hu) as Hown.
    apply tk_burn_spec in Ht as (_ & _ & He & _ & _ & Hbal & _).
    apply tk_effect_set_allow in He. cbn in Hbal.
    apply (reg_inv_frame st); cbn; auto; try apply I.
    + eapply tk_effect_inv; [exact He|apply I].
    + intros o. rewrite Hal. apply use_allowance_spec in Hu as (_ & _ & Hk).
      eapply noallow_other; [exact Hown|exact Hk|apply I].
    + specialize (Hbal VR). unfold balance_of in *. cbn in Hbal. rewrite Hbal.
      destruct (decide (VR = owner)); [congruence|reflexivity].
  - destruct (delta <? 0); [discriminate|]. injection H as <- _ _. split; [|reflexivity].
    apply (reg_inv_frame st); cbn; auto; try apply I.
    intros o. cbn. rewrite change_allowance_other; [apply I|]. intros [= Heq _]. congruence.
  - destruct (delta <? 0); [discriminate|]. injection H as <- _ _. split; [|reflexivity].
    apply (reg_inv_frame st); cbn; auto; try apply I.
    intros o. cbn. rewrite change_allowance_other; [apply I|]. intros [= Heq _]. congruence.
  - injection H as <- _ _. split; [|reflexivity].
    apply (reg_inv_frame st); cbn; auto; try apply I.
    intros o. cbn. rewrite lookup_delete_ne; [apply I|]. intros [= Heq _]. congruence.
Qed.

(* ---------- histories ---------- *)
Definition callers_ok (ops : list op) : Prop := Forall (fun o => op_caller o <> VR) ops.

Lemma step_inv st o :
  world_ok (wld st) -> op_caller o <> VR -> reg_inv st ->
  reg_inv (fst (step st o)) /\ wld (fst (step st o)) = wld st.
Proof.
  intros Hw Hc I. unfold step. destruct (exec st o) as [[[st' r] ev]|c] eqn:E; cbn; [|auto].
  eapply exec_inv; eauto.
Qed.

Lemma run_inv_gen st ops :
  world_ok (wld st) -> callers_ok ops -> reg_inv st ->
  reg_inv (run st ops) /\ wld (run st ops) = wld st.
Proof.
  revert st. induction ops as [|o r IH]; intros st Hw Hc I; [cbn; auto|].
  inversion Hc as [|? ? Ho Hr]; subst.
  destruct (step_inv st o Hw Ho I) as [I' Hw'].
  destruct (IH (fst (step st o))) as [I'' Hw'']; auto; [rewrite Hw'; exact Hw|].
  change (run st (o :: r)) with (run (fst (step st o)) r).
  split; [exact I''|congruence].
Qed.

Theorem run_inv w ops : world_ok w -> callers_ok ops -> reg_inv (run (init w) ops).
Proof. intros Hw Hc. apply run_inv_gen; auto. apply init_inv. Qed.

(* ---------- the token invariant needs no hypothesis on callers ---------- *)
Lemma deliver_tok_inv st e from to am p st' ids ev :
  deliver st e from to am p = Ok (st', ids, ev) -> tok_inv (tok st) -> tok_inv (tok st').
Proof.
  unfold deliver. intros H I. destruct (to =? VR).
  - apply receiver_hook_spec in H as (ars & ers & ups & _ & _ & _ & _ & Hbo & _).
    apply burn_opt_spec in Hbo as (He & _). eapply tk_effect_inv; eauto.
  - destruct (hook_code _ _ =? OK); [|discriminate]. injection H as <- _ _. exact I.
Qed.

Theorem exec_tok_inv st o st' r ev :
  exec st o = Ok (st', r, ev) -> tok_inv (tok st) -> tok_inv (tok st').
Proof.
  intros H I. destruct o; cbn [exec] in H.
  - unfold add_verifier in H. rinv H. injection H as <- _ _. exact I.
  - unfold remove_verifier in H. rinv H. injection H as <- _ _. exact I.
  - unfold add_verified_client in H. rinv H. injection H as <- _ _. cbn.
    apply tk_mint_spec in E5 as (_ & He & _). eapply tk_effect_inv; eauto.
  - unfold remove_data_cap in H. rinv H. injection H as <- _ _. cbn.
    apply burn_opt_intro, burn_opt_spec in E8 as (He & _). eapply tk_effect_inv; eauto.
  - apply rbind_ok in H as ([[s i] v] & H & H2). cbn in H2. injection H2 as <- _ _.
    unfold dc_transfer in H. destruct (negb _); [discriminate|].
    apply rbind_ok in H as (t1 & Ht1 & Hd). eapply deliver_tok_inv; [exact Hd|]. cbn.
    apply tk_transfer_spec in Ht1 as (_ & _ & _ & He & _). eapply tk_effect_inv; eauto.
  - apply rbind_ok in H as ([[s i] v] & H & H2). cbn in H2. injection H2 as <- _ _.
    unfold dc_transfer_from in H. destruct (negb _); [discriminate|].
    apply rbind_ok in H as (t1 & Ht1 & Hd). eapply deliver_tok_inv; [exact Hd|]. cbn.
    apply tk_transfer_from_spec in Ht1 as (al' & _ & _ & Ht & _).
    apply tk_transfer_spec in Ht as (_ & _ & _ & He & _). apply tk_effect_set_allow in He.
    eapply tk_effect_inv; eauto.
  - apply claim_allocations_spec in H as (_ & K & acc & _ & Hbo & _).
    apply burn_opt_spec in Hbo as (He & _). eapply tk_effect_inv; eauto.
  - apply remove_expired_allocations_spec in H as (_ & _ & _ & Ht & _).
    apply tk_transfer_spec in Ht as (_ & _ & _ & He & _). eapply tk_effect_inv; eauto.
  - apply remove_expired_claims_spec in H as (_ & Ht & _). rewrite Ht. exact I.
  - unfold extend_claim_terms in H. destruct (extend_terms _ _ _ _ _) as [[? ?] ?]. injection H as <- _ _. exact I.
  - unfold get_claims in H. injection H as <- _ _. exact I.
  - apply rbind_ok in H as (t & Ht & H). injection H as <- _ _. cbn.
    apply tk_burn_spec in Ht as (_ & _ & He & _). eapply tk_effect_inv; eauto.
  - apply rbind_ok in H as (t & Ht & H). injection H as <- _ _. cbn.
    apply tk_burn_from_spec in Ht as (al' & _ & _ & Ht & _).
    apply tk_burn_spec in Ht as (_ & _ & He & _). apply tk_effect_set_allow in He.
    eapply tk_effect_inv; eauto.
  - destruct (delta <? 0); [discriminate|]. injection H as <- _ _. exact I.
  - destruct (delta <? 0); [discriminate|]. injection H as <- _ _. exact I.
  - injection H as <- _ _. exact I.
Qed.

Lemma init_tok_inv w : tok_inv (tok (init w)).
Proof. apply (ri_tok _ (init_inv w)). Qed.

Theorem run_tok_inv w ops : tok_inv (tok (run (init w) ops)).
Proof.
  assert (G : forall st, tok_inv (tok st) -> tok_inv (tok (run st ops))).
  { induction ops as [|o r IH]; intros st I; [exact I|].
    change (run st (o :: r)) with (run (fst (step st o)) r). apply IH.
    unfold step. destruct (exec st o) as [[[st' x] ev]|c] eqn:E; cbn; [|exact I].
    eapply exec_tok_inv; eauto. }
  apply G, init_tok_inv.
Qed.

Theorem supply_is_sum_of_balances w ops :
  let t := tok (run (init w) ops) in
  supply t = msum (fun x => x) (bal t) /\ (forall k v, bal t !! k = Some v -> 0 < v).
Proof. destruct (run_tok_inv w ops) as (H1 & _ & H3). split; [exact H1|exact H3]. Qed.

Theorem supply_is_minted_minus_burnt w ops :
  let t := tok (run (init w) ops) in supply t = minted t - burnt t.
Proof. destruct (run_tok_inv w ops) as (_ & H2 & _). exact H2. Qed.

Theorem registry_balance_is_unclaimed_allocations w ops :
  world_ok w -> callers_ok ops ->
  let st := run (init w) ops in
  balance_of (tok st) VR = dc2tok (msum a_size (allocs (reg st))).
Proof. intros Hw Hc. apply (ri_bal _ (run_inv w ops Hw Hc)). Qed.

(* ---------- verifier allowance ---------- *)
Theorem verifier_allowance_exact st c a al st' o :
  step st (AddClient c a al) = (st', o) -> code o = OK ->
  exists cap, verifiers (reg st) !! c = Some cap /\ al <= cap /\
    verifiers (reg st') !! c = Some (cap - al) /\
    (forall v, v <> c -> verifiers (reg st') !! v = verifiers (reg st) !! v) /\
    balance_of (tok st') a = balance_of (tok st) a + dc2tok al /\
    (forall k, k <> a -> balance_of (tok st') k = balance_of (tok st) k) /\
    supply (tok st') = supply (tok st) + dc2tok al.
Proof.
  unfold step. cbn [exec]. intros H Hc.
  destruct (add_verified_client st c a al) as [[[s r] ev]|k] eqn:E.
  - injection H as <- <-. unfold add_verified_client in E. rinv E. injection E as <- _ _.
    match goal with H : (_ <? al) = false |- _ => apply Z.ltb_ge in H end.
    match goal with H : tk_mint _ _ _ _ = Ok _ |- _ => apply tk_mint_spec in H as (_ & He & _ & _ & Hbal & _) end.
    exists z. cbn. splits; auto.
    + apply lookup_insert.
    + intros v Hv. rewrite lookup_insert_ne by congruence. reflexivity.
    + rewrite Hbal. destruct (decide (a = a)); [reflexivity|congruence].
    + intros k Hk. rewrite Hbal. destruct (decide (k = a)); [congruence|reflexivity].
    + apply He.
  - injection H as <- <-. cbn in Hc. subst k. exfalso.
    unfold add_verified_client in E. rinv E; try discriminate.
    + injection E as E. rewrite E in *. discriminate.
    + injection E as ->. unfold tk_mint in *. rinv E6; discriminate.
Qed.

Definition changes_verifiers (o : op) : bool :=
  match o with AddVerifier _ _ _ | RemoveVerifier _ _ | AddClient _ _ _ => true | _ => false end.

Theorem verifiers_only_by_root_or_grant st o :
  changes_verifiers o = false -> verifiers (reg (fst (step st o))) = verifiers (reg st).
Proof.
  intros Hk. unfold step. destruct (exec st o) as [[[st' r] ev]|c] eqn:E; cbn; [|reflexivity].
  destruct o; try discriminate Hk; cbn [exec] in E.
  - unfold remove_data_cap in E. rinv E. injection E as <- _ _. reflexivity.
  - apply rbind_ok in E as ([[s i] v] & H & H2). cbn in H2. injection H2 as <- _ _.
    unfold dc_transfer in H. destruct (negb _); [discriminate|].
    apply rbind_ok in H as (t1 & _ & Hd). unfold deliver in Hd. destruct (to =? VR).
    + apply receiver_hook_spec in Hd as (? & ? & ? & _ & _ & _ & _ & _ & _ & Hv & _). exact Hv.
    + destruct (_ =? OK); [|discriminate]. injection Hd as <- _ _. reflexivity.
  - apply rbind_ok in E as ([[s i] v] & H & H2). cbn in H2. injection H2 as <- _ _.
    unfold dc_transfer_from in H. destruct (negb _); [discriminate|].
    apply rbind_ok in H as (t1 & _ & Hd). unfold deliver in Hd. destruct (to =? VR).
    + apply receiver_hook_spec in Hd as (? & ? & ? & _ & _ & _ & _ & _ & _ & Hv & _). exact Hv.
    + destruct (_ =? OK); [|discriminate]. injection Hd as <- _ _. reflexivity.
  - apply claim_allocations_spec in E as (_ & K & acc & _ & _ & _ & Hr & _). rewrite Hr. reflexivity.
  - apply remove_expired_allocations_spec in E as (_ & _ & _ & _ & _ & Hr & _). rewrite Hr. reflexivity.
  - apply remove_expired_claims_spec in E as (_ & _ & _ & Hr & _). rewrite Hr. reflexivity.
  - unfold extend_claim_terms in E. destruct (extend_terms _ _ _ _ _) as [[? ?] ?]. injection E as <- _ _. reflexivity.
  - unfold get_claims in E. injection E as <- _ _. reflexivity.
  - apply rbind_ok in E as (t & _ & H). injection H as <- _ _. reflexivity.
  - apply rbind_ok in E as (t & _ & H). injection H as <- _ _. reflexivity.
  - destruct (delta <? 0); [discriminate|]. injection E as <- _ _. reflexivity.
  - destruct (delta <? 0); [discriminate|]. injection E as <- _ _. reflexivity.
  - injection E as <- _ _. reflexivity.
Qed.

(* ---------- claim / refund conditions ---------- *)
Definition emits_claims (o : op) : bool := match o with ClaimAllocs _ _ _ _ => true | _ => false end.
Definition emits_refunds (o : op) : bool := match o with RemoveExpAllocs _ _ _ _ => true | _ => false end.
Definition emits_allocs (o : op) : bool :=
  match o with Transfer _ _ _ _ _ | TransferFrom _ _ _ _ _ _ => true | _ => false end.

Definition alloc_event (e : event) : bool :=
  match e with EvAlloc _ | EvAllocRemoved _ | EvClaim _ => true | _ => false end.

Theorem claim_conditions st e c gs aon st' o id :
  step st (ClaimAllocs e c gs aon) = (st', o) -> In (EvClaim id) (evs o) ->
  code o = OK /\ is_miner (wld st) c = true /\
  exists g ac a,
    In g gs /\ In ac (sg_claims g) /\ ac_id ac = id /\
    allocs (reg st) !! (ac_client ac, id) = Some a /\
    c = a_provider a /\ ac_client ac = a_client a /\ ac_data ac = a_data a /\ ac_size ac = a_size a /\
    e <= a_exp a /\ a_tmin a <= sg_expiry g - e <= a_tmax a /\
    claims (reg st') !! (c, id) = Some (mk_claim c e (sg_sector g) a) /\
    allocs (reg st') !! (ac_client ac, id) = None /\
    claims (reg st) !! (c, id) = None.
Proof.
  unfold step. cbn [exec]. intros H Hin.
  destruct (claim_allocations st e c gs aon) as [[[s r] ev]|k] eqn:E.
  - injection H as <- <-. cbn in Hin. split; [reflexivity|].
    apply claim_allocations_spec in E as (Hm & K & acc & HK & _ & _ & Hreg & -> & _).
    split; [exact Hm|]. destruct HK as [Hnd Hal Htot Hev Hwit Hfresh Hmono Hnew].
    rewrite Hev in Hin. apply in_map_iff in Hin as ([c0 i] & [= ->] & HinK).
    destruct (Hwit c0 id HinK) as (g & ac & a & Hg & Hac & Hid & Hcl & Ha & Hcan & Hclaim).
    apply can_claim_alloc_spec in Hcan as (H1 & H2 & H3 & H4 & H5 & H6).
    exists g, ac, a. rewrite Hreg. cbn. subst c0. splits; auto; try lia.
    + rewrite Hal, del_all_lookup. destruct (decide ((ac_client ac, id) ∈ K)) as [|Hn]; [reflexivity|].
      exfalso. apply Hn, elem_of_list_In. exact HinK.
    + (* an existing claim (c, id) would have made put_if_absent fail *)
      eapply Hfresh. exact HinK.
  - injection H as <- <-. destruct Hin.
Qed.

Theorem refund_conditions st e caller client ids st' o id :
  step st (RemoveExpAllocs e caller client ids) = (st', o) -> In (EvAllocRemoved id) (evs o) ->
  code o = OK /\ client <> VR /\
  exists a rm,
    allocs (reg st) !! (client, id) = Some a /\ a_exp a <= e /\
    allocs (reg st') !! (client, id) = None /\
    In id rm /\ NoDup rm /\ evs o = map EvAllocRemoved rm /\
    (forall i, In i rm -> exists x, allocs (reg st) !! (client, i) = Some x /\ a_exp x <= e) /\
    let refund := dc2tok (vsum a_size (allocs (reg st)) (map (pair client) rm)) in
    balance_of (tok st') client = balance_of (tok st) client + refund /\
    balance_of (tok st') VR = balance_of (tok st) VR - refund /\
    supply (tok st') = supply (tok st) /\
    (forall k, k <> client -> k <> VR -> balance_of (tok st') k = balance_of (tok st) k).
Proof.
  unfold step. cbn [exec]. intros H Hin.
  destruct (remove_expired_allocations st e client ids) as [[[s r] ev]|k] eqn:E.
  - injection H as <- <-. cbn in Hin. split; [reflexivity|].
    apply remove_expired_allocations_spec in E as (Hnd & Hne & _ & Ht & _ & Hreg & ->).
    split; [exact Hne|].
    apply in_map_iff in Hin as (i & [= ->] & Hi).
    destruct (to_remove_of_In _ _ _ _ _ _ Hi) as (a & Ha & Hexp).
    set (rm := to_remove_of a_exp (allocs (reg st)) client e ids) in *.
    apply tk_transfer_spec in Ht as (_ & _ & _ & He & _ & _ & _ & Hs & Hbal & _).
    assert (Hne' : VR <> client) by congruence. specialize (Hbal Hne').
    exists a, rm. rewrite Hreg. cbn. splits; auto.
    + rewrite del_all_lookup. destruct (decide ((client, id) ∈ map (pair client) rm)) as [|Hn]; [reflexivity|].
      exfalso. apply Hn, elem_of_list_In, in_map. exact Hi.
    + intros i Hin'. apply (to_remove_of_In _ _ _ _ _ _ Hin').
    + rewrite Hbal. destruct (decide (client = VR)); [congruence|].
      destruct (decide (client = client)); [reflexivity|congruence].
    + rewrite Hbal. destruct (decide (VR = VR)); [lia|congruence].
    + intros k Hk1 Hk2. rewrite Hbal. destruct (decide (k = VR)); [congruence|].
      destruct (decide (k = client)); [congruence|reflexivity].
  - injection H as <- <-. destruct Hin.
Qed.

(* ---------- the fate of an allocation id, read off the event trace ---------- *)
Inductive fate := FNone | FOpen | FClaimed | FRefunded | FBad.

Definition fate_step (id : Z) (f : fate) (e : event) : fate :=
  match e with
  | EvAlloc i => if i =? id then match f with FNone => FOpen | _ => FBad end else f
  | EvClaim i => if i =? id then match f with FOpen => FClaimed | _ => FBad end else f
  | EvAllocRemoved i => if i =? id then match f with FOpen => FRefunded | _ => FBad end else f
  | _ => f
  end.

Definition fate_of (id : Z) (tr : list event) : fate := fold_left (fate_step id) tr FNone.

Fixpoint runt (st : state) (tr : list event) (ops : list op) : state * list event :=
  match ops with
  | [] => (st, tr)
  | o :: r => runt (fst (step st o)) (tr ++ evs (snd (step st o))) r
  end.

Definition trace (st : state) (ops : list op) : list event := snd (runt st [] ops).

Lemma runt_fst st tr ops : fst (runt st tr ops) = run st ops.
Proof. revert st tr. induction ops as [|o r IH]; intros st tr; [reflexivity|]. cbn [runt]. rewrite IH. reflexivity. Qed.

Lemma fate_fold_irrelevant id l f :
  Forall (fun e => alloc_event e = false) l -> fold_left (fate_step id) l f = f.
Proof.
  revert f. induction l as [|e r IH]; intros f H; [reflexivity|].
  inversion H as [|? ? He Hr]; subst. cbn [fold_left]. rewrite IH by exact Hr.
  destruct e; cbn in He; try discriminate; reflexivity.
Qed.

Lemma mem_In x l : mem x l = true <-> In x l.
Proof.
  unfold mem. rewrite existsb_exists. split.
  - intros (y & Hy & He). apply Z.eqb_eq in He. subst. exact Hy.
  - intros H. exists x. split; [exact H|apply Z.eqb_refl].
Qed.

Lemma mem_not_In x l : mem x l = false <-> ~ In x l.
Proof. rewrite <- mem_In. destruct (mem x l); split; congruence. Qed.

Section FoldKind.
  Variable id : Z.
  Variable C : Z -> event.
  Variable tau : fate -> fate.
  Hypothesis HC : forall i f, fate_step id f (C i) = if i =? id then tau f else f.

  Lemma fate_fold_kind ids f :
    NoDup ids ->
    fold_left (fate_step id) (map C ids) f = if mem id ids then tau f else f.
  Proof.
    revert f. induction ids as [|i r IH]; intros f Hnd; cbn [map fold_left]; [reflexivity|].
    inversion Hnd as [|? ? Hn Hnd']; subst. rewrite IH by exact Hnd'. rewrite HC.
    unfold mem at 2. cbn [existsb]. fold (mem id r). rewrite (Z.eqb_sym id i).
    destruct (i =? id) eqn:Ei; cbn [orb]; [|reflexivity].
    apply Z.eqb_eq in Ei. subst i. apply mem_not_In in Hn. rewrite Hn. reflexivity.
  Qed.
End FoldKind.

Definition tau_alloc (f : fate) := match f with FNone => FOpen | _ => FBad end.
Definition tau_claim (f : fate) := match f with FOpen => FClaimed | _ => FBad end.
Definition tau_refund (f : fate) := match f with FOpen => FRefunded | _ => FBad end.

(* the three shapes a successful message can have with respect to the allocation table *)
Inductive shape (st st' : state) (ev : list event) : Prop :=
| ShNone : Forall (fun e => alloc_event e = false) ev ->
           allocs (reg st') = allocs (reg st) -> next_id (reg st') = next_id (reg st) -> shape st st' ev
| ShNew from ars rest :
    ev = map EvAlloc (seqZ (next_id (reg st)) (length ars)) ++ rest ->
    Forall (fun e => alloc_event e = false) rest ->
    allocs (reg st') = insert_allocs (allocs (reg st)) from (next_id (reg st)) ars ->
    next_id (reg st') = next_id (reg st) + Z.of_nat (length ars) -> shape st st' ev
| ShDel (C : Z -> event) (K : list (Z * Z)) :
    (C = EvClaim \/ C = EvAllocRemoved) ->
    ev = map (fun k => C (snd k)) K -> NoDup (map snd K) ->
    (forall k, In k K -> is_Some (allocs (reg st) !! k)) ->
    allocs (reg st') = del_all (allocs (reg st)) K -> next_id (reg st') = next_id (reg st) ->
    shape st st' ev.

Lemma Forall_map_irrelevant {A} (f : A -> event) l :
  (forall x, alloc_event (f x) = false) -> Forall (fun e => alloc_event e = false) (map f l).
Proof. intros H. induction l; cbn; constructor; auto. Qed.

Lemma deliver_shape st e from to am p st' ids ev :
  deliver st e from to am p = Ok (st', ids, ev) -> shape st st' ev.
Proof.
  unfold deliver. intros H. destruct (to =? VR).
  - apply receiver_hook_spec in H as (ars & ers & ups & _ & _ & _ & _ & _ & _ & _ & _ & Hal & _ & Hnx & -> & ->).
    eapply ShNew; eauto. apply Forall_map_irrelevant. reflexivity.
  - destruct (_ =? OK); [|discriminate]. injection H as <- _ <-. apply ShNone; auto.
Qed.

Lemma exec_shape st o st' r ev : exec st o = Ok (st', r, ev) -> shape st st' ev.
Proof.
  intros H. destruct o; cbn [exec] in H.
  - unfold add_verifier in H. rinv H. injection H as <- _ <-. apply ShNone; auto; repeat constructor.
  - unfold remove_verifier in H. rinv H. injection H as <- _ <-. apply ShNone; auto; repeat constructor.
  - unfold add_verified_client in H. rinv H. injection H as <- _ <-. apply ShNone; auto; repeat constructor.
  - unfold remove_data_cap in H. rinv H. injection H as <- _ <-. apply ShNone; auto.
  - apply rbind_ok in H as ([[s i] v] & H & H2). cbn in H2. injection H2 as <- _ <-.
    unfold dc_transfer in H. destruct (negb _); [discriminate|].
    apply rbind_ok in H as (t1 & _ & Hd). apply deliver_shape in Hd.
    destruct Hd; [apply ShNone|eapply ShNew|eapply ShDel]; eauto.
  - apply rbind_ok in H as ([[s i] v] & H & H2). cbn in H2. injection H2 as <- _ <-.
    unfold dc_transfer_from in H. destruct (negb _); [discriminate|].
    apply rbind_ok in H as (t1 & _ & Hd). apply deliver_shape in Hd.
    destruct Hd; [apply ShNone|eapply ShNew|eapply ShDel]; eauto.
  - apply claim_allocations_spec in H as (_ & K & acc & HK & _ & _ & Hreg & -> & _).
    destruct HK as [Hnd Hal Htot Hev Hwit Hfresh Hmono Hnew].
    apply (ShDel _ _ _ EvClaim K); auto; try (rewrite Hreg; cbn; auto).
    intros [c i] Hk. destruct (Hwit c i Hk) as (g & ac & a & _ & _ & _ & _ & Ha & _). eauto.
  - apply remove_expired_allocations_spec in H as (Hnd & _ & _ & _ & _ & Hreg & ->).
    set (rm := to_remove_of a_exp (allocs (reg st)) client epoch ids) in *.
    apply (ShDel _ _ _ EvAllocRemoved (map (pair client) rm)); auto; try (rewrite Hreg; cbn; auto).
    + rewrite map_map. reflexivity.
    + rewrite map_map. cbn. rewrite map_id. exact Hnd.
    + intros k Hk. apply in_map_iff in Hk as (i & <- & Hi).
      destruct (to_remove_of_In _ _ _ _ _ _ Hi) as (a & Ha & _). eauto.
  - apply remove_expired_claims_spec in H as (_ & _ & _ & Hreg & ->). apply ShNone; try (rewrite Hreg; reflexivity).
    apply Forall_map_irrelevant. reflexivity.
  - unfold extend_claim_terms in H. destruct (extend_terms _ _ _ _ _) as [[cl codes] ev0] eqn:Ee.
    injection H as <- _ <-. apply ShNone; auto.
    assert (G : forall terms cl codes ev cl' codes' ev',
               extend_terms cl caller terms codes ev = (cl', codes', ev') ->
               Forall (fun e => alloc_event e = false) ev -> Forall (fun e => alloc_event e = false) ev').
    { clear. induction terms as [|[[p i] tm] rest IH]; intros cl codes ev cl' codes' ev' H Hev; cbn in H.
      - injection H as _ _ <-. exact Hev.
      - destruct (_ <? tm); [eapply IH; eauto|]. destruct (cl !! (p, i)); [|eapply IH; eauto].
        destruct (negb _); [eapply IH; eauto|]. destruct (tm <? _); [eapply IH; eauto|].
        eapply IH; [exact H|]. apply Forall_app. split; [exact Hev|repeat constructor]. }
    eapply G; [exact Ee|constructor].
  - unfold get_claims in H. injection H as <- _ <-. apply ShNone; auto.
  - apply rbind_ok in H as (t & _ & H). injection H as <- _ <-. apply ShNone; auto.
  - apply rbind_ok in H as (t & _ & H). injection H as <- _ <-. apply ShNone; auto.
  - destruct (delta <? 0); [discriminate|]. injection H as <- _ <-. apply ShNone; auto.
  - destruct (delta <? 0); [discriminate|]. injection H as <- _ <-. apply ShNone; auto.
  - injection H as <- _ <-. apply ShNone; auto.
Qed.

Record fate_inv (st : state) (tr : list event) : Prop := {
  fi_bad : forall id, fate_of id tr <> FBad;
  fi_open : forall id, fate_of id tr = FOpen <-> exists c a, allocs (reg st) !! (c, id) = Some a;
  fi_none : forall id, next_id (reg st) <= id -> fate_of id tr = FNone;
}.

Lemma fate_of_app id tr ev : fate_of id (tr ++ ev) = fold_left (fate_step id) ev (fate_of id tr).
Proof. unfold fate_of. apply fold_left_app. Qed.

Lemma fate_step_alloc id i f : fate_step id f (EvAlloc i) = if i =? id then tau_alloc f else f.
Proof. reflexivity. Qed.
Lemma fate_step_claim id i f : fate_step id f (EvClaim i) = if i =? id then tau_claim f else f.
Proof. reflexivity. Qed.
Lemma fate_step_refund id i f : fate_step id f (EvAllocRemoved i) = if i =? id then tau_refund f else f.
Proof. reflexivity. Qed.

Lemma del_fate st st' tr (C : Z -> event) (tau : fate -> fate) K :
  (forall id i f, fate_step id f (C i) = if i =? id then tau f else f) ->
  tau FOpen <> FBad -> tau FOpen <> FOpen ->
  allocs_wf (reg st) -> NoDup (map snd K) ->
  (forall k, In k K -> is_Some (allocs (reg st) !! k)) ->
  allocs (reg st') = del_all (allocs (reg st)) K -> next_id (reg st') = next_id (reg st) ->
  fate_inv st tr -> fate_inv st' (tr ++ map (fun k => C (snd k)) K).
Proof.
  intros HC Ht1 Ht2 [Hal Huq] Hnd Hpres Ha Hn [Fb Fo Fn].
  assert (Hf : forall id, fate_of id (tr ++ map (fun k => C (snd k)) K) =
               if mem id (map snd K) then tau (fate_of id tr) else fate_of id tr).
  { intros id. rewrite fate_of_app. rewrite <- (map_map snd C).
    apply (fate_fold_kind id C tau); [apply HC|exact Hnd]. }
  assert (Hopen : forall id, mem id (map snd K) = true -> fate_of id tr = FOpen).
  { intros id Hm. apply mem_In, in_map_iff in Hm as ([c i] & Hi & Hk). cbn in Hi. subst i.
    destruct (Hpres _ Hk) as [a Hc]. apply Fo. eauto. }
  constructor; intros id; rewrite Hf.
  - destruct (mem id _) eqn:Em; [|apply Fb]. rewrite (Hopen id Em). exact Ht1.
  - rewrite Ha. destruct (mem id _) eqn:Em.
    + rewrite (Hopen id Em). split; [intros Hx; contradiction|].
      intros (c & a & Hc). exfalso. rewrite del_all_lookup in Hc.
      destruct (decide ((c, id) ∈ K)) as [|Hnk]; [discriminate|].
      apply mem_In, in_map_iff in Em as ([c' i] & Hi & Hk). cbn in Hi. subst i.
      destruct (Hpres _ Hk) as [a' Hc']. pose proof (Huq _ _ _ _ _ Hc Hc'). subst c'.
      apply Hnk, elem_of_list_In. exact Hk.
    + apply mem_not_In in Em. rewrite Fo. split; intros (c & a & Hc); exists c, a.
      * rewrite del_all_lookup. destruct (decide ((c, id) ∈ K)) as [Hk|]; [|exact Hc].
        exfalso. apply Em. apply elem_of_list_In in Hk. apply in_map_iff. exists (c, id). auto.
      * apply del_all_lookup_Some in Hc. exact Hc.
  - rewrite Hn. intros Hid. destruct (mem id _) eqn:Em; [|apply Fn; exact Hid].
    apply mem_In, in_map_iff in Em as ([c i] & Hi & Hk). cbn in Hi. subst i.
    destruct (Hpres _ Hk) as [a Hc]. apply Hal in Hc. lia.
Qed.

Lemma shape_fate st st' ev tr :
  allocs_wf (reg st) -> shape st st' ev -> fate_inv st tr -> fate_inv st' (tr ++ ev).
Proof.
  intros Hwf Hs F.
  destruct Hs as [Hirr Ha Hn | from ars rest -> Hirr Ha Hn | C K HC -> Hnd Hpres Ha Hn].
  - (* no allocation event *)
    destruct F as [Fb Fo Fn].
    constructor; intros id; rewrite fate_of_app, fate_fold_irrelevant by exact Hirr; rewrite ?Ha, ?Hn; auto.
  - (* new allocations *)
    destruct Hwf as [Hal Huq]. destruct F as [Fb Fo Fn].
    assert (Hf : forall id, fate_of id (tr ++ map EvAlloc (seqZ (next_id (reg st)) (length ars)) ++ rest) =
                 if mem id (seqZ (next_id (reg st)) (length ars)) then tau_alloc (fate_of id tr) else fate_of id tr).
    { intros id. rewrite fate_of_app, fold_left_app, fate_fold_irrelevant by exact Hirr.
      apply (fate_fold_kind id EvAlloc tau_alloc (fate_step_alloc id)). apply seqZ_NoDup. }
    constructor; intros id; rewrite Hf.
    + destruct (mem id _) eqn:Em; [|apply Fb].
      apply mem_In, seqZ_In in Em. rewrite (Fn id) by lia. discriminate.
    + rewrite Ha. destruct (mem id _) eqn:Em.
      * apply mem_In, seqZ_In in Em. rewrite (Fn id) by lia. cbn. split; [intros _|reflexivity].
        destruct (nth_error ars (Z.to_nat (id - next_id (reg st)))) as [rq|] eqn:En.
        -- exists from, (mk_alloc from rq). rewrite insert_allocs_lookup.
           destruct (decide _) as [_|Hx]; [|exfalso; apply Hx; split; [reflexivity|lia]].
           rewrite En. reflexivity.
        -- apply nth_error_None in En. lia.
      * apply mem_not_In in Em. rewrite seqZ_In in Em. rewrite Fo. split.
        -- intros (c & a & Hc). exists c, a. rewrite insert_allocs_lookup.
           destruct (decide _) as [[_ Hr]|_]; [lia|exact Hc].
        -- intros (c & a & Hc). rewrite insert_allocs_lookup in Hc.
           destruct (decide _) as [[_ Hr]|_]; [lia|eauto].
    + rewrite Hn. intros Hid. destruct (mem id _) eqn:Em.
      * apply mem_In, seqZ_In in Em. lia.
      * apply Fn. lia.
  - (* claimed or refunded *)
    destruct HC as [-> | ->].
    + apply (del_fate st st' tr EvClaim tau_claim K); auto; try discriminate; intros; reflexivity.
    + apply (del_fate st st' tr EvAllocRemoved tau_refund K); auto; try discriminate; intros; reflexivity.
Qed.

Lemma fate_inv_init w : fate_inv (init w) [].
Proof.
  constructor; intros id; cbn.
  - discriminate.
  - split; [discriminate|]. intros (c & a & H). rewrite lookup_empty in H. discriminate.
  - reflexivity.
Qed.

Lemma runt_fate st tr ops :
  world_ok (wld st) -> callers_ok ops -> reg_inv st -> fate_inv st tr ->
  fate_inv (fst (runt st tr ops)) (snd (runt st tr ops)).
Proof.
  revert st tr. induction ops as [|o r IH]; intros st tr Hw Hc I F; [exact F|].
  inversion Hc as [|? ? Ho Hr]; subst. cbn [runt].
  destruct (step_inv st o Hw Ho I) as [I' Hw'].
  apply IH; auto; [rewrite Hw'; exact Hw|].
  unfold step. destruct (exec st o) as [[[st' x] ev]|c] eqn:E; cbn [fst snd evs fail].
  - eapply shape_fate; [apply I|eapply exec_shape; eauto|exact F].
  - rewrite app_nil_r. exact F.
Qed.

Theorem allocation_fate_unique w ops id :
  world_ok w -> callers_ok ops ->
  let st := run (init w) ops in
  let f := fate_of id (trace (init w) ops) in
  f <> FBad /\
  (f = FOpen <-> exists c a, allocs (reg st) !! (c, id) = Some a) /\
  (next_id (reg st) <= id -> f = FNone) /\
  (forall c c' a a', allocs (reg st) !! (c, id) = Some a -> allocs (reg st) !! (c', id) = Some a' -> c = c') /\
  (forall c a, allocs (reg st) !! (c, id) = Some a -> a_client a = c /\ 1 <= id < next_id (reg st)).
Proof.
  intros Hw Hc st f.
  pose proof (runt_fate (init w) [] ops Hw Hc (init_inv w) (fate_inv_init w)) as [Fb Fo Fn].
  rewrite runt_fst in *. fold st in Fo, Fn.
  pose proof (run_inv w ops Hw Hc) as I. fold st in I. destruct (ri_allocs _ I) as [Hal Huq].
  subst f. unfold trace. splits; auto.
  intros c c' a a'. apply Huq.
Qed.

(* ---------- which message can emit which allocation event ---------- *)
Definition event_allowed (o : op) (e : event) : bool :=
  match e with
  | EvAlloc _ => emits_allocs o
  | EvClaim _ => emits_claims o
  | EvAllocRemoved _ => emits_refunds o
  | _ => true
  end.

Lemma irrelevant_allowed o l e :
  Forall (fun e => alloc_event e = false) l -> In e l -> event_allowed o e = true.
Proof.
  intros HF Hl. rewrite Forall_forall in HF. specialize (HF _ Hl). destruct e; cbn in *; congruence.
Qed.

Lemma deliver_events st ep from to am p st' ids ev e :
  deliver st ep from to am p = Ok (st', ids, ev) -> In e ev ->
  match e with EvAlloc _ | EvClaimUpdated _ => True | _ => False end.
Proof.
  unfold deliver. intros H Hin. destruct (to =? VR).
  - apply receiver_hook_spec in H as (ars & ers & ups & _ & _ & _ & _ & _ & _ & _ & _ & _ & _ & _ & _ & ->).
    apply in_app_or in Hin as [Hin|Hin]; apply in_map_iff in Hin as (x & <- & _); exact I.
  - destruct (_ =? OK); [|discriminate]. injection H as _ _ <-. destruct Hin.
Qed.

Lemma extend_terms_events cl caller terms codes ev cl' codes' ev' e :
  extend_terms cl caller terms codes ev = (cl', codes', ev') -> In e ev' ->
  In e ev \/ exists i, e = EvClaimUpdated i.
Proof.
  revert cl codes ev. induction terms as [|[[p i] tm] rest IH]; intros cl codes ev H Hin; cbn in H.
  - injection H as _ _ <-. left. exact Hin.
  - destruct (_ <? tm); [eapply IH; eauto|]. destruct (cl !! (p, i)); [|eapply IH; eauto].
    destruct (negb _); [eapply IH; eauto|]. destruct (tm <? _); [eapply IH; eauto|].
    destruct (IH _ _ _ H Hin) as [Hx|Hx]; [|right; exact Hx].
    apply in_app_or in Hx as [Hx|[<-|[]]]; [left; exact Hx|right; eauto].
Qed.

Theorem event_sources st o e : In e (evs (snd (step st o))) -> event_allowed o e = true.
Proof.
  unfold step. destruct (exec st o) as [[[st' r] ev]|c] eqn:E; cbn [snd evs fail]; [|intros []].
  intros Hin. destruct o; cbn [exec] in E.
  - unfold add_verifier in E. rinv E. injection E as _ _ <-. destruct Hin as [<-|[]]. reflexivity.
  - unfold remove_verifier in E. rinv E. injection E as _ _ <-. destruct Hin as [<-|[]]. reflexivity.
  - unfold add_verified_client in E. rinv E. injection E as _ _ <-. destruct Hin as [<-|[]]. reflexivity.
  - unfold remove_data_cap in E. rinv E. injection E as _ _ <-. destruct Hin.
  - apply rbind_ok in E as ([[s i] v] & H & H2). cbn in H2. injection H2 as _ _ <-.
    unfold dc_transfer in H. destruct (negb _); [discriminate|].
    apply rbind_ok in H as (t1 & _ & Hd). pose proof (deliver_events _ _ _ _ _ _ _ _ _ _ Hd Hin).
    destruct e; try contradiction; reflexivity.
  - apply rbind_ok in E as ([[s i] v] & H & H2). cbn in H2. injection H2 as _ _ <-.
    unfold dc_transfer_from in H. destruct (negb _); [discriminate|].
    apply rbind_ok in H as (t1 & _ & Hd). pose proof (deliver_events _ _ _ _ _ _ _ _ _ _ Hd Hin).
    destruct e; try contradiction; reflexivity.
  - apply claim_allocations_spec in E as (_ & K & acc & HK & _ & _ & _ & -> & _).
    rewrite (pg_evs _ _ _ _ _ _ _ HK) in Hin. apply in_map_iff in Hin as (k & <- & _). reflexivity.
  - apply remove_expired_allocations_spec in E as (_ & _ & _ & _ & _ & _ & ->).
    apply in_map_iff in Hin as (k & <- & _). reflexivity.
  - apply remove_expired_claims_spec in E as (_ & _ & _ & _ & ->).
    apply in_map_iff in Hin as (k & <- & _). reflexivity.
  - unfold extend_claim_terms in E. destruct (extend_terms _ _ _ _ _) as [[cl codes] ev0] eqn:Ee.
    injection E as _ _ <-. destruct (extend_terms_events _ _ _ _ _ _ _ _ e Ee Hin) as [[]|(i & ->)]. reflexivity.
  - unfold get_claims in E. injection E as _ _ <-. destruct Hin.
  - apply rbind_ok in E as (t & _ & H). injection H as _ _ <-. destruct Hin.
  - apply rbind_ok in E as (t & _ & H). injection H as _ _ <-. destruct Hin.
  - destruct (delta <? 0); [discriminate|]. injection E as _ _ <-. destruct Hin.
  - destruct (delta <? 0); [discriminate|]. injection E as _ _ <-. destruct Hin.
  - injection E as _ _ <-. destruct Hin.
Qed.
