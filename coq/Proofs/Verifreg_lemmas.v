(* Proofs about coq/Model/Verifreg.v (property C09). *)
From stdpp Require Import gmap.
From Coq Require Import ZArith List Bool Lia.
From VF Require Import Gen.Consts Gen.VerifregConsts Base.Corr Base.MapSum Model.Verifreg.
Import ListNotations.
Open Scope Z_scope.

(* ---------- small tactics ---------- *)
Ltac dmatch H :=
  match type of H with
  | context [match ?x with _ => _ end] =>
      let E := fresh "E" in destruct x eqn:E; try discriminate H
  end.
Ltac rinv H := repeat (unfold rbind in H; dmatch H).
Ltac splits := repeat match goal with |- _ /\ _ => split end.

Lemma rbind_ok {A B} (r : R A) (f : A -> R B) x :
  rbind r f = Ok x -> exists a, r = Ok a /\ f a = Ok x.
Proof. destruct r; cbn; [eauto|discriminate]. Qed.

Lemma TP_pos : 0 < TOKEN_PRECISION.
Proof. reflexivity. Qed.
Lemma GRAN_is_TP : DATACAP_GRANULARITY = TOKEN_PRECISION.
Proof. reflexivity. Qed.
Global Opaque TOKEN_PRECISION DATACAP_GRANULARITY INFINITE_ALLOWANCE.

Lemma tok2dc_dc2tok a : tok2dc (dc2tok a) = a.
Proof. unfold tok2dc, dc2tok. apply Z.div_mul. pose proof TP_pos; lia. Qed.

Lemma valid_amount_spec a : valid_amount a = true -> 0 <= a /\ a = dc2tok (tok2dc a).
Proof.
  unfold valid_amount. rewrite andb_true_iff, Z.leb_le, Z.eqb_eq, GRAN_is_TP.
  intros [Ha Hm]. split; [exact Ha|].
  unfold dc2tok, tok2dc. pose proof TP_pos.
  rewrite (Z.div_mod a TOKEN_PRECISION) at 1 by lia. rewrite Hm. lia.
Qed.

Lemma valid_amount_dc2tok a : 0 <= a -> valid_amount (dc2tok a) = true.
Proof.
  intros Ha. unfold valid_amount, dc2tok. rewrite GRAN_is_TP. pose proof TP_pos.
  rewrite Z.mod_mul by lia. rewrite andb_true_iff, Z.leb_le, Z.eqb_eq. split; nia.
Qed.

(* ---------- balances ---------- *)
Definition bsum (b : gmap Z Z) : Z := msum (fun x => x) b.
Definition pos_bal (b : gmap Z Z) : Prop := forall k v, b !! k = Some v -> 0 < v.
Definition getb (b : gmap Z Z) (k : Z) : Z := default 0 (b !! k).

Lemma from_option_id (o : option Z) : from_option (fun x => x) 0 o = default 0 o.
Proof. destruct o; reflexivity. Qed.

Lemma set_or_delete_lookup {K} `{Countable K} (m : gmap K Z) k v j :
  default 0 (set_or_delete m k v !! j) = if decide (j = k) then v else default 0 (m !! j).
Proof.
  unfold set_or_delete. destruct (v =? 0) eqn:Ev.
  - apply Z.eqb_eq in Ev. subst v. destruct (decide (j = k)) as [->|Hn].
    + rewrite lookup_delete. reflexivity.
    + rewrite lookup_delete_ne by congruence. reflexivity.
  - destruct (decide (j = k)) as [->|Hn].
    + rewrite lookup_insert. reflexivity.
    + rewrite lookup_insert_ne by congruence. reflexivity.
Qed.

Lemma set_or_delete_sum (b : gmap Z Z) k v :
  bsum (set_or_delete b k v) = bsum b - getb b k + v.
Proof.
  unfold set_or_delete, bsum, getb. destruct (v =? 0) eqn:Ev.
  - apply Z.eqb_eq in Ev. subst v. rewrite msum_delete', from_option_id. lia.
  - rewrite msum_insert, from_option_id. lia.
Qed.

Lemma set_or_delete_pos (b : gmap Z Z) k v :
  pos_bal b -> 0 <= v -> pos_bal (set_or_delete b k v).
Proof.
  intros Hp Hv j x. unfold set_or_delete. destruct (v =? 0) eqn:Ev.
  - destruct (decide (j = k)) as [->|Hn].
    + rewrite lookup_delete. discriminate.
    + rewrite lookup_delete_ne by congruence. apply Hp.
  - apply Z.eqb_neq in Ev. destruct (decide (j = k)) as [->|Hn].
    + rewrite lookup_insert. intros [= <-]. lia.
    + rewrite lookup_insert_ne by congruence. apply Hp.
Qed.

Lemma change_balance_spec b id d b' :
  change_balance b id d = Some b' ->
  0 <= getb b id + d /\ bsum b' = bsum b + d /\
  (forall j, getb b' j = if decide (j = id) then getb b id + d else getb b j) /\
  (pos_bal b -> pos_bal b').
Proof.
  unfold change_balance, getb. destruct (d =? 0) eqn:Ed.
  - apply Z.eqb_eq in Ed. subst d. intros [= <-]. splits; try lia.
    + intros j. destruct (decide (j = id)) as [->|]; lia.
    + auto.
    + intros Hp. specialize (Hp id). destruct (b !! id) as [v|]; cbn; [specialize (Hp v eq_refl)|]; lia.
  - destruct (default 0 (b !! id) + d <? 0) eqn:En; [discriminate|].
    apply Z.ltb_ge in En. intros [= <-]. splits.
    + exact En.
    + rewrite set_or_delete_sum. unfold getb. lia.
    + intros j. rewrite set_or_delete_lookup. reflexivity.
    + intros Hp. apply set_or_delete_pos; assumption.
Qed.

Lemma make_transfer_spec b from to amount b' :
  0 <= amount -> make_transfer b from to amount = Some b' ->
  amount <= getb b from /\ bsum b' = bsum b /\
  (from <> to -> forall j, getb b' j =
      if decide (j = from) then getb b from - amount
      else if decide (j = to) then getb b to + amount else getb b j) /\
  (from = to -> b' = b) /\
  (pos_bal b -> pos_bal b').
Proof.
  intros Ha. unfold make_transfer. destruct (from =? to) eqn:Eft.
  - apply Z.eqb_eq in Eft. subst to. fold (getb b from).
    destruct (getb b from <? amount) eqn:El; [discriminate|]. apply Z.ltb_ge in El.
    intros [= <-]. splits; auto; try lia. intros; congruence.
  - apply Z.eqb_neq in Eft.
    destruct (change_balance b from (- amount)) as [b1|] eqn:E1; [|discriminate].
    intros E2.
    apply change_balance_spec in E1 as (H1a & H1b & H1c & H1d).
    apply change_balance_spec in E2 as (H2a & H2b & H2c & H2d).
    splits.
    + lia.
    + lia.
    + intros _ j. rewrite H2c.
      destruct (decide (j = to)) as [->|Hjt].
      * rewrite (H1c to). destruct (decide (to = from)); [congruence|]. reflexivity.
      * rewrite (H1c j). destruct (decide (j = from)); [lia|reflexivity].
    + intros; congruence.
    + auto.
Qed.

(* ---------- token invariant ---------- *)
Definition tok_inv (t : token) : Prop :=
  supply t = bsum (bal t) /\ supply t = minted t - burnt t /\ pos_bal (bal t).

Lemma balance_of_getb t k : balance_of t k = getb (bal t) k.
Proof. reflexivity. Qed.

Lemma tok_inv_supply_nonneg t k : tok_inv t -> 0 <= balance_of t k.
Proof.
  intros (_ & _ & Hp). unfold balance_of. destruct (bal t !! k) as [v|] eqn:E; cbn; [|lia].
  specialize (Hp k v E). lia.
Qed.

Record tk_effect (t t' : token) (dsupply : Z) : Prop := {
  te_supply : supply t' = supply t + dsupply;
  te_minted : minted t' - burnt t' = minted t - burnt t + dsupply;
  te_sum : bsum (bal t') = bsum (bal t) + dsupply;
  te_pos : pos_bal (bal t) -> pos_bal (bal t');
}.

Lemma tk_effect_inv t t' d : tk_effect t t' d -> tok_inv t -> tok_inv t'.
Proof.
  intros [Hs Hm Hb Hp] (I1 & I2 & I3). splits; [lia|lia|auto].
Qed.

Lemma tk_mint_spec t to a ops t' :
  tk_mint t to a ops = Ok t' ->
  0 <= a /\ tk_effect t t' a /\ minted t' = minted t + a /\ burnt t' = burnt t /\
  (forall j, balance_of t' j = if decide (j = to) then balance_of t to + a else balance_of t j) /\
  allow t' = fold_left (fun al o => <[ (to, o) := INFINITE_ALLOWANCE ]> al) ops (allow t).
Proof.
  unfold tk_mint. intros H. rinv H.
  apply negb_false_iff in E. apply valid_amount_spec in E as [Ha _].
  apply change_balance_spec in E0 as (H1 & H2 & H3 & H4).
  injection H as <-. cbn. splits; cbn; try lia; auto.
Qed.

Lemma tk_burn_spec t o a t' :
  tk_burn t o a = Ok t' ->
  0 <= a /\ a <= balance_of t o /\ tk_effect t t' (- a) /\ minted t' = minted t /\ burnt t' = burnt t + a /\
  (forall j, balance_of t' j = if decide (j = o) then balance_of t o - a else balance_of t j) /\
  allow t' = allow t.
Proof.
  unfold tk_burn. intros H. rinv H.
  apply negb_false_iff in E. apply valid_amount_spec in E as [Ha _].
  apply change_balance_spec in E0 as (H1 & H2 & H3 & H4).
  injection H as <-. cbn. unfold balance_of. fold (getb (bal t) o) in *.
  splits; cbn; try lia; auto.
  intros j. specialize (H3 j). unfold getb in *. destruct (decide (j = o)); lia.
Qed.

Lemma tk_transfer_spec t from to a t' :
  tk_transfer t from to a = Ok t' ->
  0 <= a /\ valid_amount a = true /\ a <= balance_of t from /\ tk_effect t t' 0 /\
  minted t' = minted t /\ burnt t' = burnt t /\ allow t' = allow t /\
  (from <> to -> forall j, balance_of t' j =
      if decide (j = from) then balance_of t from - a
      else if decide (j = to) then balance_of t to + a else balance_of t j) /\
  (from = to -> bal t' = bal t).
Proof.
  unfold tk_transfer. intros H. rinv H.
  apply negb_false_iff in E. pose proof (valid_amount_spec _ E) as [Ha _].
  apply (make_transfer_spec _ _ _ _ _ Ha) in E0 as (H1 & H2 & H3 & H4 & H5).
  injection H as <-. cbn. splits; cbn; try lia; auto.
Qed.

Lemma use_allowance_spec al operator owner a al' :
  use_allowance al operator owner a = Some al' ->
  a <= default 0 (al !! (owner, operator)) /\
  (operator <> owner -> default 0 (al !! (owner, operator)) <> 0) /\
  (forall k, k <> (owner, operator) -> al' !! k = al !! k).
Proof.
  unfold use_allowance. set (cur := default 0 (al !! (owner, operator))).
  destruct (((cur =? 0) && negb (operator =? owner)) || (cur <? a)) eqn:E; [discriminate|].
  apply orb_false_iff in E as [E1 E2]. apply Z.ltb_ge in E2.
  intros [= <-]. splits.
  - lia.
  - intros Hne Hz. apply andb_false_iff in E1 as [E1|E1].
    + apply Z.eqb_neq in E1. contradiction.
    + apply negb_false_iff, Z.eqb_eq in E1. contradiction.
  - intros k Hk. unfold change_allowance. destruct (- a =? 0); [reflexivity|].
    unfold set_or_delete. destruct (_ =? 0).
    + rewrite lookup_delete_ne by congruence. reflexivity.
    + rewrite lookup_insert_ne by congruence. reflexivity.
Qed.

Lemma tk_transfer_from_spec t op from to a t' :
  tk_transfer_from t op from to a = Ok t' ->
  exists al', use_allowance (allow t) op from a = Some al' /\ op <> from /\
  tk_transfer t from to a = Ok (tk_set_allow t' (allow t)) /\ allow t' = al'.
Proof.
  unfold tk_transfer_from, tk_transfer. intros H. rinv H.
  apply Z.eqb_neq in E0. injection H as <-. eexists; splits; eauto.
Qed.

Lemma tk_burn_from_spec t op owner a t' :
  tk_burn_from t op owner a = Ok t' ->
  exists al', use_allowance (allow t) op owner a = Some al' /\ op <> owner /\
  tk_burn t owner a = Ok (tk_set_allow t' (allow t)) /\ allow t' = al'.
Proof.
  unfold tk_burn_from, tk_burn. intros H. rinv H.
  apply Z.eqb_neq in E0. injection H as <-. eexists; splits; eauto.
Qed.

Lemma tk_effect_set_allow t t' d al :
  tk_effect t (tk_set_allow t' al) d -> tk_effect t t' d.
Proof. intros [A B C D]. constructor; auto. Qed.
