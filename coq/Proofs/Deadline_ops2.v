(* Deadline operations preserve DeadlineInv, part 2: record_proven_sectors, pop_expired_sectors,
   pop_early_terminations. *)
From Coq Require Import ZArith List Bool Lia.
From stdpp Require Import gmap.
From VF Require Import Base.SetSum Model.Partition Model.PartitionInv Model.Deadline
  Model.DeadlineInv Proofs.Partition_base Proofs.Partition_lists Proofs.Partition_queue3
  Proofs.Partition_ops1 Proofs.Partition_ops2 Proofs.Partition_ops3
  Proofs.Partition_frame Proofs.Deadline_base Proofs.Deadline_ops1.
Import ListNotations.
Open Scope Z_scope.

Lemma early_ok_replace_same (d : deadline) (i : N) p p' :
  EarlyOk d -> parts d !! N.to_nat i = Some p -> early_terminated p' = early_terminated p ->
  forall X Y L T F LP FE,
  EarlyOk {| parts := put_part (parts d) i p'; dl_exp := X; posted := Y; early_terms := early_terms d;
             dl_live_sectors := L; dl_total_sectors := T; dl_faulty_power := F; dl_live_power := LP;
             dl_daily_fee := FE |}.
Proof.
  intros HE Hi ET X Y L T F LP FE j. cbn [early_terms parts]. rewrite (HE j).
  rewrite (put_part_existing _ _ _ _ Hi).
  destruct (decide (j = i)) as [->|Hne].
  - rewrite list_lookup_insert by (eapply lookup_lt_Some; eauto). rewrite Hi. split.
    + intros (q & [= <-] & Hq). exists p'. rewrite ET. auto.
    + intros (q & [= <-] & Hq). exists p. rewrite <- ET. auto.
  - rewrite list_lookup_insert_ne; [reflexivity|]. intros E. apply Hne. apply N2Nat.inj. auto.
Qed.

(* ---------- record_proven_sectors ---------- *)
Lemma d_record_proven_sectors_inv qs tbl d fe posts d' r :
  DeadlineInv qs tbl d -> d_record_proven_sectors qs tbl d fe posts = Ok (d', r) ->
  DeadlineInv qs tbl d'.
Proof.
  intros HD. unfold d_record_proven_sectors.
  destruct (negb (_ =? _)); [discriminate|]. destruct (negb (set_empty _)); [discriminate|].
  match goal with |- context [foldM ?f posts ?a] =>
    destruct (foldM f posts a) as [[[d1 r1] rs]|] eqn:Ef; cbn [rbind]; [|discriminate] end.
  assert (H1 : DInvOff qs tbl d1 0 (pp_sub (pr_recovered r1) (pr_new_faulty r1)) pp0 0 /\ EarlyOk d1).
  { match type of Ef with foldM ?f _ _ = _ =>
      pose proof (foldM_ind f (fun _ (acc : deadline * post_result * list N) =>
        let '(dc, rc, _) := acc in
        DInvOff qs tbl dc 0 (pp_sub (pr_recovered rc) (pr_new_faulty rc)) pp0 0 /\ EarlyOk dc)) as Hind end.
    specialize (Hind) with (3 := Ef). cbn beta iota in Hind. apply Hind.
    2:{ apply dinv_off_zero in HD as [HO HE]. split; [|exact HE]. cbn [pr_recovered pr_new_faulty].
        eapply dinv_off_memos; [exact HO|..]; try reflexivity. }
    intros [[dc rc] rsc] [i skipped] rest [[dc' rc'] rsc'] [HO HE] Hstep.
    destruct (get_part (parts dc) i) as [p|] eqn:Hp; [|discriminate].
    destruct (p_record_skipped_faults qs tbl p fe (lset skipped)) as [[[[[p1 pd] nfp] rrp] hnf]|] eqn:E1;
      cbn [rbind] in Hstep; [|discriminate].
    destruct (p_recover_faults qs tbl p1) as [[p2 recovered]|] eqn:E2; cbn [rbind] in Hstep; [|discriminate].
    destruct (p_activate_unproven p2) as [p3 activated] eqn:E3.
    injection Hstep as <- <- _.
    pose proof (do_parts _ _ _ _ _ _ _ HO _ _ Hp) as HPp.
    destruct (p_record_skipped_faults_inv qs tbl p fe (lset skipped) p1 pd nfp rrp hnf HPp E1)
      as (HP1 & S1 & T1 & F1 & U1 & HnfS & -> & _).
    destruct (p_recover_faults_inv qs tbl p1 p2 recovered HP1 E2) as (HP2 & S2 & F2 & U2 & T2 & ->).
    destruct (p_activate_unproven_inv qs tbl p2 p3 activated HP2 E3) as (HP3 & S3 & F3 & U3 & T3 & _).
    pose proof (p_record_skipped_faults_et _ _ _ _ _ _ _ _ _ _ E1) as ET1.
    pose proof (p_recover_faults_et _ _ _ _ _ E2) as ET2.
    assert (ET3 : early_terminated p3 = early_terminated p2).
    { unfold p_activate_unproven in E3. injection E3 as <- _. reflexivity. }
    set (nf := (lset skipped ∖ terminated p) ∖ faults p) in *.
    assert (ES : sectors p3 = sectors p) by congruence.
    assert (Elive : live_sectors p3 = live_sectors p).
    { unfold live_sectors. rewrite S3, S2, S1, T3, T2, T1. reflexivity. }
    destruct (pinv_memos _ _ _ HPp) as [LPp FPp]. destruct (pinv_memos _ _ _ HP3) as [LP3 FP3].
    pose proof (pi_rec_faults _ _ _ HP1) as RF1.
    pose proof (dinv_off_update qs tbl dc (N.to_nat i) p p3 0 _ pp0 0 HO Hp HP3 ES) as HU.
    split.
    - eapply dinv_off_memos; [exact HU|..]; cbn [set_parts parts dl_live_sectors dl_total_sectors
        dl_faulty_power dl_live_power dl_daily_fee pr_recovered pr_new_faulty].
      + rewrite (put_part_existing _ _ _ _ Hp). reflexivity.
      + reflexivity.
      + rewrite Elive. lia.
      + rewrite FP3, FPp, F3, F2, F1.
        rewrite (spow_diff_sub tbl (faults p ∪ nf) (recoveries p1)) by (rewrite <- F1; exact RF1).
        rewrite (spow_add_eq tbl (faults p ∪ nf) (faults p) nf);
          [|reflexivity|subst nf; clear; set_solver].
        apply pp_eq; cbn; lia.
      + rewrite LP3, LPp, Elive. apply pp_eq; cbn; lia.
      + rewrite Elive. lia.
    - apply (early_ok_replace_same dc i p p3 HE Hp). congruence. }
  destruct H1 as [HO1 HE1].
  destruct (add_exp_partitions qs d1 fe rs) as [d2|] eqn:Ea; cbn [rbind]; [|discriminate].
  intros [= <- <-].
  assert (Hd2 : parts d2 = parts d1 /\ early_terms d2 = early_terms d1 /\
                dl_live_sectors d2 = dl_live_sectors d1 /\ dl_total_sectors d2 = dl_total_sectors d1 /\
                dl_faulty_power d2 = dl_faulty_power d1 /\ dl_live_power d2 = dl_live_power d1 /\
                dl_daily_fee d2 = dl_daily_fee d1).
  { unfold add_exp_partitions in Ea. destruct rs; [injection Ea as <-; repeat split|].
    destruct (bfq_add _ _ _ _); cbn [rbind] in Ea; [|discriminate]. injection Ea as <-. repeat split. }
  destruct Hd2 as (E1 & E2 & E3 & E4 & E5 & E6 & E7).
  apply dinv_off_zero. split.
  - eapply dinv_off_memos; [exact HO1|..]; cbn [parts dl_live_sectors dl_total_sectors
      dl_faulty_power dl_live_power dl_daily_fee]; try congruence; try lia.
    all: rewrite ?E5, ?E6; try reflexivity; apply pp_eq; cbn; lia.
  - intros j. cbn [early_terms parts]. rewrite E2, E1. apply HE1.
Qed.

(* ---------- pop_expired_sectors ---------- *)
Lemma p_pop_expired_disj qs tbl p until p' popped :
  PartInv qs tbl p -> p_pop_expired_sectors p until = Ok (p', popped) ->
  on_time popped ## early popped.
Proof.
  intros HP Hop. unfold p_pop_expired_sectors in Hop.
  destruct (set_empty (unproven p)); cbn [negb] in Hop; [|discriminate].
  destruct (pop_until (expirations p) until) as [q popped0] eqn:Ep.
  destruct (pop_until_inv qs tbl (faults p) (live_sectors p) (expirations p) until q popped0
              (pi_queue _ _ _ HP) Ep) as (_ & _ & [Ad _ _ _ _ _]).
  destruct (set_empty (recoveries p)); cbn [negb] in Hop; [|discriminate].
  destruct (pp_is_zero _); cbn [negb] in Hop; [|discriminate].
  destruct (disjoint_b _ _); cbn [negb] in Hop; [|discriminate].
  destruct (record_early_termination _ _ _); cbn [rbind] in Hop; [|discriminate].
  destruct (validated _); cbn [rbind] in Hop; [|discriminate].
  injection Hop as _ <-. exact Ad.
Qed.

Lemma d_pop_expired_sectors_inv qs tbl d until d' agg :
  DeadlineInv qs tbl d -> d_pop_expired_sectors d until = Ok (d', agg) -> DeadlineInv qs tbl d'.
Proof.
  intros HD. unfold d_pop_expired_sectors.
  destruct (bfq_pop_until (dl_exp d) until) as [[q expired] modified].
  destruct modified; cbn [negb]; [|intros [= <- _]; exact HD].
  match goal with |- context [foldM ?f ?l ?a] =>
    destruct (foldM f l a) as [[[ps agg1] eps]|] eqn:Ef; cbn [rbind]; [|discriminate] end.
  intros [= <- <-].
  apply dinv_off_zero in HD as [HO HE].
  set (Inv := fun (rest : list N) (acc : list partition * expset * gset N) =>
    let '(psc, aggc, epsc) := acc in
    NoDup rest /\
    DInvOff qs tbl (set_parts d psc) (ssize (on_time aggc) + ssize (early aggc))
      (faulty_power aggc) (pp_add (faulty_power aggc) (active_power aggc)) (fee_deduction aggc) /\
    (forall j p, j ∈ rest -> psc !! N.to_nat j = Some p -> es_all aggc ## sectors p) /\
    (forall j, (j ∈ early_terms d \/ j ∈ epsc) <->
               exists p, psc !! N.to_nat j = Some p /\ early_terminated p <> ∅)).
  assert (Hfin : Inv [] (ps, agg1, eps)).
  { match type of Ef with foldM ?f ?ll ?aa = _ => apply (foldM_ind f Inv) with (l := ll) (a := aa) end;
      [| |exact Ef]; unfold Inv.
    - intros [[psc aggc] epsc] i rest [[psc' aggc'] epsc'] (Hnd & IO & Idisj & IE) Hstep.
      apply NoDup_cons in Hnd as [Hi Hnd].
      destruct (get_part psc i) as [p|] eqn:Hp; [|discriminate].
      destruct (p_pop_expired_sectors p until) as [[p' popped]|] eqn:Eop; cbn [rbind] in Hstep; [|discriminate].
      injection Hstep as <- <- <-.
      pose proof (do_parts _ _ _ _ _ _ _ IO _ _ Hp) as HPp.
      destruct (p_pop_expired_sectors_inv qs tbl p until p' popped HPp Eop)
        as (HP' & HL & U0 & S' & T' & F' & U' & Eact & Eflt & Efee & _).
      pose proof (p_pop_expired_disj qs tbl p until p' popped HPp Eop) as Dpop.
      pose proof (p_pop_expired_sectors_et _ _ _ _ Eop) as ET'.
      set (E := es_all popped) in *.
      assert (Elive : live_sectors p' = live_sectors p ∖ E).
      { unfold live_sectors. rewrite S', T'. apply seteq_L. clear. set_solver. }
      destruct (pinv_memos _ _ _ HPp) as [LPp FPp]. destruct (pinv_memos _ _ _ HP') as [LPp' FPp'].
      assert (DaE : es_all aggc ## E).
      { specialize (Idisj i p (elem_of_list_here _ _) Hp). unfold live_sectors in HL.
        clear -Idisj HL. set_solver. }
      assert (Hsz : ssize E = ssize (on_time popped) + ssize (early popped)).
      { subst E. unfold es_all. apply ssize_union_disj, Dpop. }
      pose proof (dinv_off_update qs tbl (set_parts d psc) (N.to_nat i) p p' _ _ _ _ IO Hp HP' S') as HU.
      rewrite (put_part_existing _ _ _ _ Hp).
      split; [exact Hnd|]. split; [|split].
      + eapply dinv_off_memos; [exact HU|..]; cbn [set_parts parts dl_live_sectors dl_total_sectors
          dl_faulty_power dl_live_power dl_daily_fee es_union on_time early faulty_power active_power
          fee_deduction]; try reflexivity.
        * rewrite Elive, (ssize_diff _ _ HL), Hsz.
          unfold es_all in DaE. subst E. unfold es_all in DaE.
          rewrite !ssize_union_disj by (clear -DaE; set_solver). lia.
        * rewrite FPp', FPp, F', Eflt.
          rewrite (spow_add_eq tbl (faults p) (faults p ∖ E) (E ∩ faults p)).
          -- apply pp_eq; cbn; lia.
          -- clear. intros n. destruct (decide (n ∈ E)); set_solver.
          -- clear. set_solver.
        * rewrite LPp', LPp, Elive, Eact, Eflt. rewrite (spow_diff_sub tbl _ E HL).
          rewrite (spow_add_eq tbl E (E ∖ faults p) (E ∩ faults p)).
          -- apply pp_eq; cbn; lia.
          -- clear. intros n. destruct (decide (n ∈ faults p)); set_solver.
          -- clear. set_solver.
        * rewrite Elive, Efee. unfold sfee. rewrite (ssum_diff _ _ _ HL). lia.
      + intros j pq Hj Hq. assert (Hji : j <> i) by (intros ->; contradiction).
        rewrite list_lookup_insert_ne in Hq by (intros E0; apply Hji; apply N2Nat.inj; auto).
        assert (es_all aggc ## sectors pq) by (apply (Idisj j pq); [right; exact Hj|exact Hq]).
        assert (E ## sectors pq).
        { assert (Hne : N.to_nat i <> N.to_nat j) by (intros E0; apply Hji; apply N2Nat.inj; auto).
          pose proof (do_disj _ _ _ _ _ _ _ IO _ _ _ _ Hne Hp Hq) as D. unfold live_sectors in HL.
          clear -D HL. set_solver. }
        unfold es_all in *; cbn [es_union on_time early]. subst E. unfold es_all in *.
        clear -H H0. set_solver.
      + intros j. destruct (decide (j = i)) as [->|Hne].
        * rewrite list_lookup_insert by (eapply lookup_lt_Some; eauto). split.
          -- intros Hj. exists p'. split; [reflexivity|]. apply ET'.
             destruct (set_empty (early popped)) eqn:Ee.
             ++ left. assert (Hj' : i ∈ early_terms d \/ i ∈ epsc) by (clear -Hj; set_solver).
                apply IE in Hj' as (pq & Hq & Hqe). unfold get_part in Hp. congruence.
             ++ right. apply set_empty_false, Ee.
          -- intros (pq & [= <-] & Hqe). apply ET' in Hqe as [Hqe|Hqe].
             ++ assert (Hj' : i ∈ early_terms d \/ i ∈ epsc) by (apply IE; exists p; auto).
                destruct (set_empty (early popped)); clear -Hj'; set_solver.
             ++ destruct (set_empty (early popped)) eqn:Ee.
                ** apply set_empty_true in Ee. contradiction.
                ** right. clear. set_solver.
        * rewrite list_lookup_insert_ne by (intros E0; apply Hne; apply N2Nat.inj; auto).
          rewrite <- IE. destruct (set_empty (early popped)); clear -Hne; set_solver.
    - split; [apply NoDup_sorted|]. split; [|split].
      + unfold es_empty; cbn [on_time early faulty_power active_power fee_deduction].
        eapply dinv_off_memos; [exact HO|..]; cbn [set_parts parts dl_live_sectors dl_total_sectors
          dl_faulty_power dl_live_power dl_daily_fee]; try reflexivity.
        all: try (unfold ssize; rewrite size_empty); try lia; try (apply pp_eq; cbn; lia).
      + intros j p _ _. unfold es_all, es_empty; cbn. clear. set_solver.
      + intros j. rewrite <- (HE j). clear. set_solver. }
  destruct Hfin as (_ & IO & _ & IE).
  apply dinv_off_zero. split.
  - eapply dinv_off_memos; [exact IO|..]; cbn [set_parts parts dl_live_sectors dl_total_sectors
      dl_faulty_power dl_live_power dl_daily_fee]; try reflexivity; try lia.
    + apply pp_eq; cbn; lia.
    + apply pp_eq; cbn; lia.
  - intros j. cbn [early_terms parts]. rewrite <- IE. rewrite elem_of_union. reflexivity.
Qed.

(* ---------- pop_early_terminations ---------- *)
Lemma d_pop_early_terminations_inv qs tbl d mp ms d' res np ns more :
  DeadlineInv qs tbl d -> d_pop_early_terminations d mp ms = Ok (d', res, np, ns, more) ->
  DeadlineInv qs tbl d'.
Proof.
  intros HD. unfold d_pop_early_terminations.
  match goal with |- context [iterM ?f ?l ?a] =>
    destruct (iterM f l a) as [[[[[ps result] nparts] nsecs] fin]|] eqn:Ef; cbn [rbind]; [|discriminate] end.
  intros [= <- _ _ _ _].
  apply dinv_off_zero in HD as [HO HE].
  set (ET := early_terms d) in *.
  set (Q := fun (acc : list partition * gmap Z (gset N) * Z * Z * gset N) =>
    let '(psc, _, _, _, finc) := acc in
    DInvOff qs tbl (set_parts d psc) 0 pp0 pp0 0 /\
    (forall j, j ∉ finc -> ((exists p, psc !! N.to_nat j = Some p /\ early_terminated p <> ∅) <-> j ∈ ET)) /\
    (forall j, j ∈ finc -> ~ exists p, psc !! N.to_nat j = Some p /\ early_terminated p <> ∅)).
  set (P := fun (rest : list N) (acc : list partition * gmap Z (gset N) * Z * Z * gset N) =>
    let '(_, _, _, _, finc) := acc in
    NoDup rest /\ (forall j, j ∈ rest -> j ∈ ET) /\ (forall j, j ∈ finc -> j ∉ rest) /\ Q acc).
  assert (Hfin : Q (ps, result, nparts, nsecs, fin)).
  { match type of Ef with iterM ?f ?ll ?aa = _ =>
      apply (fun hs he hp => iterM_ind f P Q hs he ll aa _ hp Ef) end; unfold P, Q.
    - intros [[[[psc rc] npc] nsc] finc] i rest [[[[psc' rc'] npc'] nsc'] finc'] go
             (Hnd & Hret & Hfr & IO & I1 & I2) Hstep.
      apply NoDup_cons in Hnd as [Hi Hnd].
      assert (Hif : i ∉ finc) by (intros H; apply (Hfr i H); left).
      assert (Hiet : i ∈ ET) by (apply Hret; left).
      assert (Hret' : forall j, j ∈ rest -> j ∈ ET) by (intros j Hj; apply Hret; right; exact Hj).
      assert (Hgoal : NoDup rest /\ (forall j, j ∈ rest -> j ∈ ET) /\ (forall j, j ∈ finc' -> j ∉ rest) /\
                DInvOff qs tbl (set_parts d psc') 0 pp0 pp0 0 /\
                (forall j, j ∉ finc' -> ((exists p, psc' !! N.to_nat j = Some p /\ early_terminated p <> ∅) <-> j ∈ ET)) /\
                (forall j, j ∈ finc' -> ~ exists p, psc' !! N.to_nat j = Some p /\ early_terminated p <> ∅)).
      { destruct (get_part psc i) as [p|] eqn:Hp.
        - destruct (p_pop_early_terminations p (ms - nsc)) as [[[[p' pres] pn] pmore]|] eqn:Eop;
            cbn [rbind] in Hstep; [|discriminate].
          injection Hstep as <- _ _ _ <- _.
          pose proof (do_parts _ _ _ _ _ _ _ IO _ _ Hp) as HPp.
          destruct (p_pop_early_terminations_inv qs tbl p (ms - nsc) p' pres pn pmore HPp Eop)
            as (HP' & S' & F' & U' & T' & R' & X').
          pose proof (p_pop_early_terminations_more _ _ _ _ _ _ Eop) as Hmore.
          assert (Elive : live_sectors p' = live_sectors p) by (unfold live_sectors; rewrite S', T'; reflexivity).
          destruct (pinv_memos _ _ _ HPp) as [LPp FPp]. destruct (pinv_memos _ _ _ HP') as [LPp' FPp'].
          pose proof (dinv_off_update qs tbl (set_parts d psc) (N.to_nat i) p p' _ _ _ _ IO Hp HP' S') as HU.
          rewrite (put_part_existing _ _ _ _ Hp).
          split; [exact Hnd|]. split; [exact Hret'|]. split; [|split; [|split]].
          + intros j Hj. destruct pmore.
            * intros Hr. apply (Hfr j Hj). right. exact Hr.
            * apply elem_of_union in Hj as [Hj|Hj].
              -- intros Hr. apply (Hfr j Hj). right. exact Hr.
              -- apply elem_of_singleton in Hj. subst j. exact Hi.
          + eapply dinv_off_memos; [exact HU|..]; cbn [set_parts parts dl_live_sectors dl_total_sectors
              dl_faulty_power dl_live_power dl_daily_fee]; try reflexivity.
            * rewrite Elive. lia.
            * rewrite FPp', FPp, F'. apply pp_eq; cbn; lia.
            * rewrite LPp', LPp, Elive. apply pp_eq; cbn; lia.
            * rewrite Elive. lia.
          + intros j Hj. destruct (decide (j = i)) as [->|Hne].
            * rewrite list_lookup_insert by (eapply lookup_lt_Some; eauto).
              destruct pmore; [|exfalso; apply Hj; clear; set_solver].
              split; [intros _; exact Hiet|intros _; exists p'; split; [reflexivity|apply Hmore; reflexivity]].
            * rewrite list_lookup_insert_ne by (intros E0; apply Hne; apply N2Nat.inj; auto).
              apply I1. destruct pmore; [exact Hj|clear -Hj; set_solver].
          + intros j Hj. destruct (decide (j = i)) as [->|Hne].
            * rewrite list_lookup_insert by (eapply lookup_lt_Some; eauto).
              destruct pmore; [contradiction|]. intros (q & [= <-] & Hq).
              assert (false = true) by (apply Hmore, Hq). discriminate.
            * rewrite list_lookup_insert_ne by (intros E0; apply Hne; apply N2Nat.inj; auto).
              apply I2. destruct pmore; [exact Hj|clear -Hj Hne; set_solver].
        - injection Hstep as <- _ _ _ <- _.
          split; [exact Hnd|]. split; [exact Hret'|]. split; [|split; [exact IO|split]].
          + intros j Hj. apply elem_of_union in Hj as [Hj|Hj].
            * intros Hr. apply (Hfr j Hj). right. exact Hr.
            * apply elem_of_singleton in Hj. subst j. exact Hi.
          + intros j Hj. apply I1. clear -Hj. set_solver.
          + intros j Hj. apply elem_of_union in Hj as [Hj|Hj]; [apply I2, Hj|].
            apply elem_of_singleton in Hj. subst j. intros (q & Hq & _). unfold get_part in Hp. congruence. }
      destruct go; [exact Hgoal|apply Hgoal].
    - intros [[[[psc rc] npc] nsc] finc] (_ & _ & _ & HQ). exact HQ.
    - split; [apply NoDup_sorted|]. split; [intros j Hj; apply elem_of_sorted, Hj|].
      split; [intros j Hj; clear -Hj; set_solver|].
      split; [eapply dinv_off_memos; [exact HO|..]; reflexivity|].
      split; [|intros j Hj; clear -Hj; set_solver].
      intros j _. symmetry. apply HE. }
  destruct Hfin as (IO & I1 & I2).
  apply dinv_off_zero. split.
  - eapply dinv_off_memos; [exact IO|..]; reflexivity.
  - intros j. cbn [early_terms parts]. fold ET. rewrite elem_of_difference. split.
    + intros [Hj Hnf]. apply I1; assumption.
    + intros Hex. destruct (decide (j ∈ fin)) as [Hf|Hf]; [exfalso; exact (I2 j Hf Hex)|].
      split; [apply I1; assumption|exact Hf].
Qed.
