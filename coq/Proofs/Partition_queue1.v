(* Queue operations, part 1: add_active_sectors, find_sectors_by_expiration,
   remove_active_sectors. *)
From Coq Require Import ZArith List Bool Lia.
From stdpp Require Import gmap.
From VF Require Import Base.SetSum Model.Partition Model.PartitionInv Proofs.Partition_base
  Proofs.Partition_entry Proofs.Partition_moves Proofs.Partition_lists.
Import ListNotations.
Open Scope Z_scope.

(* ---------- sector lists with distinct numbers ---------- *)
Lemma nums_inj secs s1 s2 :
  NoDup (map s_num secs) -> s1 ∈ secs -> s2 ∈ secs -> s_num s1 = s_num s2 -> s1 = s2.
Proof.
  induction secs as [|x l IH]; intros Hnd H1 H2 E; [inversion H1|].
  cbn [map] in Hnd. apply NoDup_cons in Hnd as [Hnotin Hnd].
  apply elem_of_cons in H1 as [->|H1]; apply elem_of_cons in H2 as [->|H2].
  - reflexivity.
  - exfalso. apply Hnotin. rewrite E. apply elem_of_list_fmap. eauto.
  - exfalso. apply Hnotin. rewrite <- E. apply elem_of_list_fmap. eauto.
  - apply IH; assumption.
Qed.

Lemma NoDup_map_filter (P : sector -> bool) secs :
  NoDup (map s_num secs) -> NoDup (map s_num (List.filter P secs)).
Proof.
  induction secs as [|x l IH]; intros Hnd; cbn [List.filter map]; [constructor|].
  cbn [map] in Hnd. apply NoDup_cons in Hnd as [Hnotin Hnd].
  destruct (P x); [|apply IH, Hnd]. cbn [map]. apply NoDup_cons. split; [|apply IH, Hnd].
  intros Hin. apply Hnotin. apply elem_of_list_fmap in Hin as (s & E & Hs).
  apply elem_of_list_fmap. exists s. split; [exact E|].
  apply elem_of_list_In in Hs. apply List.filter_In in Hs as [Hs _]. apply elem_of_list_In, Hs.
Qed.

Lemma elem_of_lfilter {A} (P : A -> bool) (l : list A) x : x ∈ List.filter P l <-> x ∈ l /\ P x = true.
Proof. rewrite !elem_of_list_In. apply List.filter_In. Qed.

Lemma from_tbl_filter tbl (P : sector -> bool) secs :
  from_tbl tbl secs -> from_tbl tbl (List.filter P secs).
Proof. intros H s Hs. apply H. apply elem_of_lfilter in Hs as [Hs _]. exact Hs. Qed.

(* ---------- add_active_sectors ---------- *)
Section AddActive.
  Context (qs : quant) (tbl : gmap N sector) (F : gset N) (secs : list sector).
  Hypothesis Hu : 0 < q_unit qs.
  Hypothesis Hft : from_tbl tbl secs.
  Hypothesis Hnd : NoDup (map s_num secs).
  Hypothesis HF : nums_of secs ## F.

  Let qexp (s : sector) := quant_up qs (s_exp s).
  Let filt (k : Z) := List.filter (fun s => qexp s =? k) secs.
  Let G (ks : list Z) : gset N := ⋃ (map (fun k => nums_of (filt k)) ks).

  Lemma elem_of_G ks n : n ∈ G ks <-> exists s, s ∈ secs /\ s_num s = n /\ qexp s ∈ ks.
  Proof.
    unfold G. rewrite elem_of_union_list. split.
    - intros (X & HX & Hn). apply elem_of_list_fmap in HX as (k & -> & Hk).
      apply elem_of_nums_of in Hn as (s & Hs & Hsn). apply elem_of_lfilter in Hs as [Hs E].
      apply Z.eqb_eq in E. exists s. subst k. auto.
    - intros (s & Hs & Hsn & Hk). exists (nums_of (filt (qexp s))). split.
      + apply elem_of_list_fmap. eauto.
      + apply elem_of_nums_of. exists s. split; [|exact Hsn]. apply elem_of_lfilter.
        split; [exact Hs|apply Z.eqb_refl].
  Qed.

  Lemma add_groups_inv ks :
    NoDup ks -> (forall k, k ∈ ks -> exists s, s ∈ secs /\ qexp s = k) ->
    forall (q q' : gmap Z expset) L, QInv qs tbl F L q -> G ks ## L ->
    foldM (add_group qs) (map (fun k => (k, filt k)) ks) q = Ok q' ->
    QInv qs tbl F (L ∪ G ks) q'.
  Proof.
    induction ks as [|k ks IH]; intros Hndk Hks q q' L HQ HGL; cbn [map foldM].
    - intros [= <-]. replace (L ∪ G []) with L; [exact HQ|]. apply seteq_L. unfold G. cbn.
      set_solver.
    - apply NoDup_cons in Hndk as [Hk Hndk].
      destruct (add_group qs q (k, filt k)) as [q1|] eqn:E1; [|discriminate]. intros Hrest.
      unfold add_group in E1. cbn [fst snd] in E1.
      assert (Hft' : from_tbl tbl (filt k)) by (apply from_tbl_filter, Hft).
      assert (Hnd' : NoDup (map s_num (filt k))) by (apply NoDup_map_filter, Hnd).
      rewrite (sum_pow_from_tbl tbl), (sum_pledge_from_tbl tbl), (sum_fee_from_tbl tbl) in E1
        by assumption.
      set (T := nums_of (filt k)) in *.
      assert (HT : forall n, n ∈ T <-> exists s, s ∈ secs /\ s_num s = n /\ qexp s = k).
      { intros n. subst T. rewrite elem_of_nums_of. split.
        - intros (s & Hs & Hsn). apply elem_of_lfilter in Hs as [Hs E]. apply Z.eqb_eq in E. eauto.
        - intros (s & Hs & Hsn & E). exists s. split; [|exact Hsn]. apply elem_of_lfilter.
          split; [exact Hs|apply Z.eqb_eq, E]. }
      assert (HGk : G (k :: ks) = T ∪ G ks) by reflexivity.
      destruct (Hks k) as (s0 & Hs0 & Hs0k); [left|].
      assert (HQ1 : QInv qs tbl F (L ∪ T) q1).
      { eapply q_add_on_time_inv; [exact Hu|exact HQ|exact E1| | | |].
        - intros E. assert (s_num s0 ∈ T) by (apply HT; eauto). rewrite E in H. set_solver.
        - rewrite HGk in HGL. clear -HGL. set_solver.
        - intros n Hn HnF. apply HT in Hn as (s & Hs & Hsn & _).
          apply (HF n); [|exact HnF]. apply elem_of_nums_of. eauto.
        - intros n Hn. apply HT in Hn as (s & Hs & Hsn & Hsk). exists s. split.
          + rewrite <- Hsn. apply Hft, Hs.
          + fold (qexp s). rewrite Hsk, <- Hs0k. unfold qexp. symmetry. apply quant_up_idem, Hu. }
      rewrite HGk. replace (L ∪ (T ∪ G ks)) with ((L ∪ T) ∪ G ks) by (apply seteq_L; set_solver).
      eapply IH; [exact Hndk| |exact HQ1| |exact Hrest].
      + intros k' Hk'. apply Hks. right. exact Hk'.
      + rewrite HGk in HGL. intros n Hn HnLT. apply elem_of_union in HnLT as [HnL|HnT].
        * apply (HGL n); [|exact HnL]. apply elem_of_union. right. exact Hn.
        * apply elem_of_G in Hn as (s1 & Hs1 & Hs1n & Hs1k).
          apply HT in HnT as (s2 & Hs2 & Hs2n & Hs2k).
          assert (s1 = s2) by (apply (nums_inj secs); [exact Hnd|exact Hs1|exact Hs2|congruence]). subst s2.
          apply Hk. rewrite <- Hs2k. exact Hs1k.
  Qed.

  Lemma add_active_sectors_inv (q q' : gmap Z expset) L ns pw pl fe :
    QInv qs tbl F L q -> nums_of secs ## L ->
    add_active_sectors qs q secs = Ok (q', ns, pw, pl, fe) ->
    QInv qs tbl F (L ∪ nums_of secs) q' /\ ns = nums_of secs /\ pw = spow tbl ns /\
    pl = spledge tbl ns /\ fe = sfee tbl ns.
  Proof.
    intros HQ HL. unfold add_active_sectors.
    destruct (foldM _ _ _) as [q1|] eqn:E; cbn [rbind]; [|discriminate]. intros [= <- <- <- <- <-].
    assert (HG : G (sortZ (map qexp secs)) = nums_of secs).
    { apply seteq_L. intros n. rewrite elem_of_G, elem_of_nums_of. split.
      - intros (s & Hs & Hsn & _). eauto.
      - intros (s & Hs & Hsn). exists s. split; [exact Hs|]. split; [exact Hsn|].
        apply elem_of_sortZ. apply elem_of_list_fmap. eauto. }
    split; [|split; [reflexivity|]].
    - rewrite <- HG. eapply add_groups_inv; [apply NoDup_sortZ| |exact HQ| |exact E].
      + intros k Hk. rewrite elem_of_sortZ in Hk. apply elem_of_list_fmap in Hk as (s & -> & Hs). eauto.
      + rewrite HG. exact HL.
    - split; [apply sum_pow_from_tbl; assumption|].
      split; [apply sum_pledge_from_tbl; assumption|apply sum_fee_from_tbl; assumption].
  Qed.
End AddActive.

(* ---------- find_sectors_by_expiration ---------- *)
Definition group_ok (tbl : gmap N sector) (q : gmap Z expset) (X : gset N) (g : group) : Prop :=
  q !! g_epoch g = Some (g_es g) /\ g_secs g ⊆ on_time (g_es g) /\ g_secs g <> ∅ /\
  g_secs g ⊆ X /\ g_pow g = spow tbl (g_secs g) /\ g_pledge g = spledge tbl (g_secs g) /\
  g_fee g = sfee tbl (g_secs g).

Record groups_spec (tbl : gmap N sector) (q : gmap Z expset) (X : gset N) (gs : list group)
  : Prop := {
  gs_ok : Forall (group_ok tbl q X) gs;
  gs_nodup : NoDup (map g_epoch gs);
  gs_cover : forall n, n ∈ X -> exists g, g ∈ gs /\ n ∈ g_secs g }.

Lemma ins_group_perm g l : ins_group g l ≡ₚ g :: l.
Proof.
  induction l as [|h l IH]; cbn; [reflexivity|].
  destruct (g_epoch g <? g_epoch h); [reflexivity|]. rewrite IH. apply perm_swap.
Qed.
Lemma sort_groups_perm l : sort_groups l ≡ₚ l.
Proof.
  unfold sort_groups. transitivity (rev l); [|symmetry; apply Permutation_rev].
  induction (rev l) as [|x r IH]; cbn; [reflexivity|]. rewrite ins_group_perm, IH. reflexivity.
Qed.

Lemma groups_spec_perm tbl q X gs gs' : gs ≡ₚ gs' -> groups_spec tbl q X gs -> groups_spec tbl q X gs'.
Proof.
  intros Hp [H1 H2 H3]. constructor.
  - rewrite <- Hp. exact H1.
  - rewrite <- Hp. exact H2.
  - intros n Hn. destruct (H3 n Hn) as (g & Hg & Hgn). exists g. rewrite <- Hp. auto.
Qed.

Section Find.
  Context (qs : quant) (tbl : gmap N sector) (q : gmap Z expset) (secs : list sector).
  Hypothesis Hft : from_tbl tbl secs.
  Hypothesis Hnd : NoDup (map s_num secs).
  Let X := nums_of secs.
  Let m := by_number secs.

  Lemma mk_group_ok rem es k :
    rem ⊆ X -> q !! k = Some es -> g_secs (mk_group m rem es k) <> ∅ ->
    group_ok tbl q X (mk_group m rem es k).
  Proof.
    intros Hrem Hk Hne. unfold group_ok, mk_group in *. cbn [g_epoch g_secs g_pow g_pledge g_fee g_es] in *.
    assert (Hsub : on_time es ∩ rem ⊆ nums_of secs) by (fold X; set_solver).
    split; [exact Hk|]. split; [set_solver|]. split; [exact Hne|]. split; [exact Hsub|].
    split; [apply lookup_all_pow; assumption|].
    split; [apply lookup_all_pledge; assumption|apply lookup_all_fee; assumption].
  Qed.

  Lemma elem_of_push_group gs g x :
    x ∈ push_group gs g <-> x ∈ gs \/ (x = g /\ g_secs g <> ∅).
  Proof.
    unfold push_group. destruct (set_empty (g_secs g)) eqn:E.
    - apply set_empty_true in E. split; [auto|]. intros [H|[_ H]]; [exact H|contradiction].
    - apply set_empty_false in E. rewrite elem_of_app, elem_of_list_singleton. tauto.
  Qed.

  (* the invariant shared by both passes; [ok_epoch] says which epochs the groups may carry *)
  Definition find_inv (ok_epoch : Z -> Prop) (acc : list group * gset N) : Prop :=
    Forall (group_ok tbl q X) (fst acc) /\ NoDup (map g_epoch (fst acc)) /\
    (forall g, g ∈ fst acc -> ok_epoch (g_epoch g)) /\
    snd acc ⊆ X /\
    (forall n, n ∈ X -> n ∈ snd acc \/ exists g, g ∈ fst acc /\ n ∈ g_secs g).

  Lemma find_inv_push (ok ok' : Z -> Prop) gs rem es k :
    find_inv ok (gs, rem) -> q !! k = Some es \/ g_secs (mk_group m rem es k) = ∅ ->
    (forall e, ok e -> ok' e /\ e <> k) -> ok' k ->
    find_inv ok' (push_group gs (mk_group m rem es k), rem ∖ g_secs (mk_group m rem es k)).
  Proof.
    intros (H1 & H2 & H3 & H4 & H5) Hk Hok Hk'. cbn [fst snd] in *.
    set (g := mk_group m rem es k) in *.
    unfold find_inv; cbn [fst snd]. split; [|split; [|split; [|split]]].
    - apply Forall_forall. intros x Hx. apply elem_of_push_group in Hx as [Hx|[-> Hne]].
      + rewrite Forall_forall in H1. apply H1, Hx.
      + destruct Hk as [Hk|Hk]; [|contradiction]. apply mk_group_ok; assumption.
    - unfold push_group. destruct (set_empty (g_secs g)); [exact H2|].
      rewrite map_app. cbn [map]. apply NoDup_app. split; [exact H2|]. split; [|apply NoDup_singleton].
      intros e He Hek. apply elem_of_list_singleton in Hek. subst e.
      apply elem_of_list_fmap in He as (g0 & E & Hg0). apply H3, Hok in Hg0 as [_ Hg0].
      apply Hg0. rewrite <- E. reflexivity.
    - intros x Hx. apply elem_of_push_group in Hx as [Hx|[-> _]]; [apply Hok, H3, Hx|exact Hk'].
    - set_solver.
    - intros n Hn. destruct (H5 n Hn) as [Hr|(g0 & Hg0 & Hn0)].
      + destruct (decide (n ∈ g_secs g)) as [Hng|Hng].
        * right. exists g. split; [|exact Hng]. apply elem_of_push_group. right.
          split; [reflexivity|]. set_solver.
        * left. set_solver.
      + right. exists g0. split; [|exact Hn0]. apply elem_of_push_group. left. exact Hg0.
  Qed.

  Lemma find_spec gs :
    find_sectors_by_expiration qs q secs = Ok gs -> groups_spec tbl q X gs.
  Proof.
    unfold find_sectors_by_expiration. fold m. fold X.
    set (declared := sortZ (map (fun s => quant_up qs (s_exp s)) secs)).
    destruct (foldM (find_pass1 q m) declared ([], X)) as [acc1|] eqn:E1; cbn [rbind]; [|discriminate].
    (* pass 1 *)
    assert (H1 : find_inv (fun e => e ∈ declared) acc1).
    { pose proof (foldM_ind (find_pass1 q m)
        (fun l acc => NoDup l /\ (forall k, k ∈ l -> k ∈ declared) /\
                      find_inv (fun e => e ∈ declared /\ e ∉ l) acc)) as Hind.
      cbn beta in Hind.
      assert (Hres : NoDup (@nil Z) /\ (forall k, k ∈ @nil Z -> k ∈ declared) /\
                     find_inv (fun e => e ∈ declared /\ e ∉ @nil Z) acc1).
      { eapply Hind; [|split; [apply NoDup_sortZ|split; [intros ? Hk0; exact Hk0|]]|exact E1].
        - intros [gs0 rem] k rest acc' (Hnd' & Hsub & Hinv) Hstep.
          apply NoDup_cons in Hnd' as [Hk Hnd']. unfold find_pass1 in Hstep. cbn [fst snd] in Hstep.
          destruct (q_may_get q k) as [es|] eqn:Eg; cbn [rbind] in Hstep; [|discriminate].
          injection Hstep as <-. apply q_may_get_ok in Eg as [_ ->].
          split; [exact Hnd'|]. split; [intros k' Hk'; apply Hsub; right; exact Hk'|].
          eapply find_inv_push; [exact Hinv| | |].
          + destruct (q !! k) as [es|] eqn:Ek; [left; reflexivity|right]. cbn.
            apply seteq_L. set_solver.
          + intros e [He Hne]. split; [split; [exact He|]|].
            * intros Hr. apply Hne. right. exact Hr.
            * intros ->. apply Hne. left.
          + split; [apply Hsub; left|exact Hk].
        - unfold find_inv; cbn [fst snd]. split; [constructor|]. split; [constructor|].
          split; [intros g Hg; inversion Hg|]. split; [reflexivity|auto]. }
      destruct Hres as (_ & _ & (A1 & A2 & A3 & A4 & A5)).
      split; [exact A1|]. split; [exact A2|]. split; [|split; assumption].
      intros g Hg. apply A3, Hg. }
    (* pass 2 *)
    destruct (if set_empty (snd acc1) then Ok acc1 else iterM (find_pass2 q m declared) (qkeys q) acc1)
      as [acc2|] eqn:E2; cbn [rbind]; [|discriminate].
    assert (H2 : find_inv (fun _ => True) acc2).
    { destruct (set_empty (snd acc1)).
      - injection E2 as <-. destruct H1 as (A1 & A2 & A3 & A4 & A5).
        split; [exact A1|]. split; [exact A2|]. split; [auto|split; assumption].
      - apply (fun hs he hp => iterM_ind (find_pass2 q m declared)
          (fun l acc => NoDup l /\ find_inv (fun e => e ∈ declared \/ e ∉ l) acc)
          (find_inv (fun _ => True)) hs he (qkeys q) acc1 acc2 hp E2); [| |split; [apply NoDup_qkeys|]].
        + intros [gs0 rem] k rest acc' go (Hnd' & Hinv) Hstep.
          apply NoDup_cons in Hnd' as [Hk Hnd']. unfold find_pass2 in Hstep. cbn [fst snd] in Hstep.
          assert (Hweak : find_inv (fun e => e ∈ declared \/ e ∉ rest) (gs0, rem)).
          { destruct Hinv as (A1 & A2 & A3 & A4 & A5).
            split; [exact A1|]. split; [exact A2|]. split; [|split; assumption].
            intros g Hg. destruct (A3 g Hg) as [Hd|Hn]; [left; exact Hd|right].
            intros Hr. apply Hn. right. exact Hr. }
          destruct (zmem k declared) eqn:Ez.
          { injection Hstep as <- <-. split; assumption. }
          destruct (q !! k) as [es|] eqn:Ek.
          2:{ injection Hstep as <- <-. split; assumption. }
          destruct (disjoint_b (early es) rem); cbn [negb] in Hstep; [|discriminate].
          injection Hstep as <- <-.
          assert (Hz : k ∉ declared).
          { intros Hd. apply zmem_true in Hd. congruence. }
          assert (Hpush : forall ok', (forall e, (e ∈ declared \/ e ∉ k :: rest) -> ok' e /\ e <> k) ->
                    ok' k -> find_inv ok' (push_group gs0 (mk_group m rem es k),
                                            rem ∖ g_secs (mk_group m rem es k))).
          { intros ok' Hok Hk'. eapply find_inv_push; [exact Hinv|left; exact Ek|exact Hok|exact Hk']. }
          destruct (negb (set_empty _)).
          * split; [exact Hnd'|]. apply Hpush; [|right; exact Hk].
            intros e [He|He].
            -- split; [left; exact He|]. intros ->. contradiction.
            -- split; [right; intros Hr; apply He; right; exact Hr|]. intros ->. apply He. left.
          * apply Hpush; [|exact I]. intros e [He|He]; (split; [exact I|]).
            -- intros ->. contradiction.
            -- intros ->. apply He. left.
        + intros acc (_ & A1 & A2 & A3 & A4 & A5).
          split; [exact A1|]. split; [exact A2|]. split; [auto|split; assumption].
        + destruct H1 as (A1 & A2 & A3 & A4 & A5).
          split; [exact A1|]. split; [exact A2|]. split; [|split; assumption].
          intros g Hg. left. apply A3, Hg. }
    destruct (set_empty (snd acc2)) eqn:Ee; cbn [negb]; [|discriminate]. intros [= <-].
    apply set_empty_true in Ee. destruct H2 as (A1 & A2 & A3 & A4 & A5).
    apply (groups_spec_perm tbl q X (fst acc2)); [symmetry; apply sort_groups_perm|].
    constructor; [exact A1|exact A2|].
    intros n Hn. destruct (A5 n Hn) as [Hr|Hg]; [|exact Hg]. rewrite Ee in Hr. set_solver.
  Qed.
End Find.
