(* Queue operations, part 4: reschedule_all_as_faults (missed PoSt). *)
From Coq Require Import ZArith List Bool Lia.
From stdpp Require Import gmap.
From VF Require Import Base.SetSum Model.Partition Model.PartitionInv Proofs.Partition_base
  Proofs.Partition_entry Proofs.Partition_moves Proofs.Partition_lists Proofs.Partition_queue1
  Proofs.Partition_queue2 Proofs.Partition_queue3.
Import ListNotations.
Open Scope Z_scope.

(* the sectors held by the entries at the keys ks *)
Definition U (q : gmap Z expset) (ks : list Z) : gset N :=
  ⋃ (map (fun k => es_all (default es_empty (q !! k))) ks).

Lemma elem_of_U q ks n :
  n ∈ U q ks <-> exists k es, k ∈ ks /\ q !! k = Some es /\ n ∈ es_all es.
Proof.
  unfold U. rewrite elem_of_union_list. split.
  - intros (X & HX & Hn). apply elem_of_list_fmap in HX as (k & -> & Hk).
    destruct (q !! k) as [es|] eqn:E; cbn in Hn; [eauto|]. unfold es_all in Hn; cbn in Hn. set_solver.
  - intros (k & es & Hk & E & Hn). exists (es_all es). split; [|exact Hn].
    apply elem_of_list_fmap. exists k. rewrite E. auto.
Qed.
Lemma U_nil q : U q [] = ∅.
Proof. reflexivity. Qed.
Lemma U_cons q k ks : U q (k :: ks) = es_all (default es_empty (q !! k)) ∪ U q ks.
Proof. reflexivity. Qed.
Lemma U_snoc q ks k : U q (ks ++ [k]) = U q ks ∪ es_all (default es_empty (q !! k)).
Proof.
  apply seteq_L. intros n. rewrite elem_of_union, !elem_of_U. split.
  - intros (k' & es & Hk' & E & Hn). apply elem_of_app in Hk' as [Hk'|Hk'].
    + left. eauto.
    + apply elem_of_list_singleton in Hk'. subst k'. right. rewrite E. exact Hn.
  - intros [(k' & es & Hk' & E & Hn)|Hn].
    + exists k', es. rewrite elem_of_app. auto.
    + destruct (q !! k) as [es|] eqn:E; cbn in Hn.
      * exists k, es. rewrite elem_of_app, elem_of_list_singleton. auto.
      * unfold es_all in Hn; cbn in Hn. set_solver.
Qed.

Lemma QInv_delete_keys qs tbl F ks :
  NoDup ks -> forall L (q : gmap Z expset), QInv qs tbl F L q ->
  QInv qs tbl F (L ∖ U q ks) (fold_left (fun q k => delete k q) ks q).
Proof.
  induction ks as [|k ks IH]; intros Hnd L q HQ; cbn [fold_left].
  - rewrite U_nil. replace (L ∖ ∅) with L by (apply seteq_L; set_solver). exact HQ.
  - apply NoDup_cons in Hnd as [Hk Hnd]. rewrite U_cons.
    assert (HU : U (delete k q) ks = U q ks).
    { apply seteq_L. intros n. rewrite !elem_of_U.
      split; intros (k' & es & Hk' & E & Hn); exists k', es; (split; [exact Hk'|]); (split; [|exact Hn]).
      - rewrite lookup_delete_ne in E; [exact E|]. intros ->. contradiction.
      - rewrite lookup_delete_ne; [exact E|]. intros ->. contradiction. }
    rewrite <- HU.
    replace (L ∖ (es_all (default es_empty (q !! k)) ∪ U (delete k q) ks))
      with ((L ∖ es_all (default es_empty (q !! k))) ∖ U (delete k q) ks)
      by (apply seteq_L; set_solver).
    apply IH; [exact Hnd|]. eapply QInv_delete; [exact HQ|eapply others_same; exact HQ|reflexivity].
Qed.

Lemma q_add_delete_comm qs (q q2 : gmap Z expset) e ot ea act flt pl fee k :
  q_add qs q e ot ea act flt pl fee = Ok q2 -> k <> quant_up qs e ->
  q_add qs (delete k q) e ot ea act flt pl fee = Ok (delete k q2).
Proof.
  unfold q_add, q_may_get, q_must_update. intros H Hne.
  destruct (quant_up qs e <? 0); cbn [rbind] in *; [discriminate|].
  rewrite lookup_delete_ne by congruence.
  destruct (es_add _ _ _ _ _ _ _) as [es'|]; cbn [rbind] in *; [|discriminate].
  injection H as <-. f_equal. symmetry. apply delete_insert_ne. congruence.
Qed.
Lemma q_add_delete_keys_comm qs e ot ea act flt pl fee ks :
  forall (q q2 : gmap Z expset),
  q_add qs q e ot ea act flt pl fee = Ok q2 -> quant_up qs e ∉ ks ->
  q_add qs (fold_left (fun q k => delete k q) ks q) e ot ea act flt pl fee
  = Ok (fold_left (fun q k => delete k q) ks q2).
Proof.
  induction ks as [|k ks IH]; intros q q2 H Hn; cbn [fold_left]; [exact H|].
  apply IH.
  - apply q_add_delete_comm; [exact H|]. intros ->. apply Hn. left.
  - intros Hin. apply Hn. right. exact Hin.
Qed.

Lemma esi_total_power qs tbl F k es :
  ExpSetInv qs tbl F k es -> pp_add (active_power es) (faulty_power es) = spow tbl (es_all es).
Proof.
  intros []. rewrite ei_active, ei_faulty. symmetry. unfold es_all. apply spow_add_eq.
  - intros n. destruct (decide (n ∈ F)); set_solver.
  - set_solver.
Qed.

Section RescheduleAll.
  Context (qs : quant) (tbl : gmap N sector) (F L : gset N) (q0 : gmap Z expset) (qfe : Z).
  Hypothesis Hu : 0 < q_unit qs.
  Hypothesis HQ0 : QInv qs tbl F L q0.

  Definition raa_inv (rest : list Z) (acc : gmap Z expset * list Z * gset N * pp * Z) : Prop :=
    let '(qc, repochs, rsecs, rpow, rfee) := acc in
    exists Fd : gset N,
      QInv qs tbl (F ∪ Fd) L qc /\ NoDup rest /\
      (forall k, k ∈ rest -> qc !! k = q0 !! k) /\
      (forall k, k ∈ repochs -> qfe < k /\ k ∉ rest /\ qc !! k = q0 !! k /\ is_Some (q0 !! k)) /\
      NoDup repochs /\ rsecs = U q0 repochs /\
      (forall n, n ∈ Fd -> exists k es, k ∉ rest /\ k <= qfe /\ q0 !! k = Some es /\ n ∈ es_all es) /\
      (forall n, n ∈ rsecs -> exists s, tbl !! n = Some s /\ qfe < quant_up qs (s_exp s)) /\
      rpow = spow tbl rsecs /\ rfee = sfee tbl rsecs /\
      (forall n, n ∈ L -> n ∈ Fd \/ n ∈ rsecs \/
                          exists k es, k ∈ rest /\ q0 !! k = Some es /\ n ∈ es_all es).

  Lemma raa_step acc k rest acc' :
    raa_inv (k :: rest) acc -> fault_all_step qfe q0 acc k = Ok acc' -> raa_inv rest acc'.
  Proof.
    destruct acc as [[[[qc repochs] rsecs] rpow] rfee].
    intros (Fd & IQ & Ind & Isame & Irep & Indr & IU & IFd & Iat & Ipw & Ife & Icov) Hstep.
    apply NoDup_cons in Ind as [Hk Ind].
    assert (Isame' : forall k', k' ∈ rest -> qc !! k' = q0 !! k').
    { intros k' Hk'. apply Isame. right. exact Hk'. }
    unfold fault_all_step in Hstep.
    destruct (q0 !! k) as [es|] eqn:Ek.
    2:{ injection Hstep as <-. exists Fd.
        split; [exact IQ|]. split; [exact Ind|]. split; [exact Isame'|]. split.
        { intros k' Hk'. destruct (Irep k' Hk') as (A & B & C & D). split; [exact A|]. split; [|tauto].
          intros Hr. apply B. right. exact Hr. }
        split; [exact Indr|]. split; [exact IU|]. split.
        { intros n Hn. destruct (IFd n Hn) as (k' & es' & A & B & C & D). exists k', es'.
          split; [|tauto]. intros Hr. apply A. right. exact Hr. }
        split; [exact Iat|]. split; [exact Ipw|]. split; [exact Ife|].
        intros n Hn. destruct (Icov n Hn) as [H|[H|(k' & es' & A & B & C)]]; [tauto|tauto|].
        apply elem_of_cons in A as [->|A]; [congruence|]. right. right. eauto. }
    assert (Hck : qc !! k = Some es) by (rewrite Isame by left; exact Ek).
    pose proof (qi_entry _ _ _ _ _ IQ _ _ Hck) as Hes.
    pose proof (qi_entry _ _ _ _ _ HQ0 _ _ Ek) as Hes0.
    (* sectors already collected are in other entries of q0 *)
    assert (Hrs : rsecs ## es_all es).
    { intros n Hn Hne. rewrite IU in Hn. apply elem_of_U in Hn as (k' & es' & Hk' & E' & Hn').
      destruct (Irep k' Hk') as (_ & B & _ & _).
      assert (k' <> k) by (intros ->; apply B; left).
      pose proof (qi_disj _ _ _ _ _ HQ0 _ _ _ _ H E' Ek) as D. set_solver. }
    destruct (k <=? qfe) eqn:Ele.
    - apply Z.leb_le in Ele. destruct (es_validate _); [|discriminate]. injection Hstep as <-.
      exists (Fd ∪ es_all es).
      pose proof (QInv_modify qs tbl (F ∪ Fd) (F ∪ (Fd ∪ es_all es)) L qc k (es_all_faulty es) ∅ ∅ IQ)
        as HM. rewrite Hck in HM. cbn [default] in HM.
      assert (Hne : es_is_empty (es_all_faulty es) = false).
      { apply es_is_empty_false. apply (ei_nonempty _ _ _ _ _ Hes). }
      rewrite Hne in HM.
      split; [|split; [exact Ind|split; [|split; [|split; [exact Indr|split; [exact IU|split;
        [|split; [exact Iat|split; [exact Ipw|split; [exact Ife|]]]]]]]]]].
      + replace L with (L ∖ ∅ ∪ ∅) by (apply seteq_L; clear; set_solver). apply HM; clear HM.
        * clear. set_solver.
        * unfold es_all; cbn. clear. set_solver.
        * clear. set_solver.
        * intros n Hn. clear -Hn. set_solver.
        * eapply (esp_all_faulty qs tbl (F ∪ Fd) _ k es); try reflexivity.
          -- apply esi_pre, Hes.
          -- clear. set_solver.
      + intros k' Hk'. rewrite lookup_insert_ne; [apply Isame', Hk'|]. intros ->. contradiction.
      + intros k' Hk'. destruct (Irep k' Hk') as (A & B & C & D). split; [exact A|].
        split; [intros Hr; apply B; right; exact Hr|]. split; [|exact D].
        rewrite lookup_insert_ne; [exact C|]. lia.
      + intros n Hn. apply elem_of_union in Hn as [Hn|Hn].
        * destruct (IFd n Hn) as (k' & es' & A & B & C & D). exists k', es'.
          split; [|tauto]. intros Hr. apply A. right. exact Hr.
        * exists k, es. split; [exact Hk|]. split; [exact Ele|]. split; [exact Ek|exact Hn].
      + intros n Hn. destruct (Icov n Hn) as [H|[H|(k' & es' & A & B & C)]].
        * left. apply elem_of_union. left. exact H.
        * right. left. exact H.
        * apply elem_of_cons in A as [->|A]; [|right; right; eauto].
          left. apply elem_of_union. right. rewrite Ek in B. injection B as <-. exact C.
    - apply Z.leb_gt in Ele.
      destruct (set_empty (early es)) eqn:Eea; cbn [negb] in Hstep; [|discriminate].
      apply set_empty_true in Eea. injection Hstep as <-.
      assert (Hall : es_all es = on_time es).
      { unfold es_all. rewrite Eea. apply seteq_L. clear. set_solver. }
      exists Fd.
      split; [exact IQ|]. split; [exact Ind|]. split; [exact Isame'|]. split.
      { intros k' Hk'. apply elem_of_app in Hk' as [Hk'|Hk'].
        - destruct (Irep k' Hk') as (A & B & C & D). split; [exact A|]. split; [|tauto].
          intros Hr. apply B. right. exact Hr.
        - apply elem_of_list_singleton in Hk'. subst k'. split; [exact Ele|]. split; [exact Hk|].
          split; [congruence|]. rewrite Ek. eauto. }
      split.
      { apply NoDup_app. split; [exact Indr|]. split; [|apply NoDup_singleton].
        intros k' Hk' Hk''. apply elem_of_list_singleton in Hk''. subst k'.
        destruct (Irep k Hk') as (_ & B & _). apply B. left. }
      split.
      { rewrite U_snoc, Ek. change (default es_empty (Some es)) with es. rewrite Hall, IU. reflexivity. }
      split.
      { intros n Hn. destruct (IFd n Hn) as (k' & es' & A & B & C & D). exists k', es'.
        split; [|tauto]. intros Hr. apply A. right. exact Hr. }
      split.
      { intros n Hn. apply elem_of_union in Hn as [Hn|Hn]; [apply Iat, Hn|].
        destruct (ei_ot_at _ _ _ _ _ Hes0 n Hn) as (s & Hs & Hsk). exists s. split; [exact Hs|]. lia. }
      split.
      { rewrite Ipw. rewrite <- pp_add_assoc. rewrite (esi_total_power _ _ _ _ _ Hes), Hall.
        symmetry. apply spow_add_eq; [reflexivity|]. rewrite <- Hall. exact Hrs. }
      split.
      { rewrite Ife, (ei_fee _ _ _ _ _ Hes), Hall. symmetry. apply sfee_add_eq; [reflexivity|].
        rewrite <- Hall. exact Hrs. }
      intros n Hn. destruct (Icov n Hn) as [H|[H|(k' & es' & A & B & C)]].
      + left. exact H.
      + right. left. apply elem_of_union. left. exact H.
      + apply elem_of_cons in A as [->|A]; [|right; right; eauto].
        right. left. apply elem_of_union. right. rewrite Ek in B. injection B as <-.
        rewrite <- Hall. exact C.
  Qed.

  Lemma reschedule_all_as_faults_inv fault_exp (q' : gmap Z expset) :
    qfe = quant_up qs fault_exp ->
    reschedule_all_as_faults qs q0 fault_exp = Ok q' -> QInv qs tbl L L q'.
  Proof.
    intros Eqfe. unfold reschedule_all_as_faults. rewrite <- Eqfe.
    destruct (foldM (fault_all_step qfe q0) (qkeys q0) _)
      as [[[[[q1 repochs] rsecs] rpow] rfee]|] eqn:Efold; cbn [rbind]; [|discriminate].
    assert (Hfin : raa_inv [] (q1, repochs, rsecs, rpow, rfee)).
    { apply (foldM_ind (fault_all_step qfe q0) raa_inv) with (l := qkeys q0) (a := (q0, [], ∅, pp0, 0));
        [| |exact Efold].
      - intros acc k rest acc' HI Hs. eapply raa_step; eauto.
      - exists ∅. split.
        { replace (F ∪ ∅) with F by (apply seteq_L; clear; set_solver). exact HQ0. }
        split; [apply NoDup_qkeys|]. split; [reflexivity|]. split; [intros k Hk; inversion Hk|].
        split; [constructor|]. split; [reflexivity|]. split; [intros n Hn; clear -Hn; set_solver|].
        split; [intros n Hn; clear -Hn; set_solver|].
        split; [symmetry; apply spow_empty|]. split; [symmetry; apply sfee_empty|].
        intros n Hn. right. right. apply (qi_cover _ _ _ _ _ HQ0) in Hn as (k & es & Hk & Hn).
        exists k, es. split; [apply elem_of_qkeys; eauto|]. auto. }
    destruct Hfin as (Fd & IQ & _ & _ & Irep & Indr & IU & IFd & Iat & Ipw & Ife & Icov).
    assert (HLc : forall n, n ∈ L -> n ∈ Fd \/ n ∈ rsecs).
    { intros n Hn. destruct (Icov n Hn) as [H|[H|(k & es & A & _)]]; [tauto|tauto|inversion A]. }
    destruct repochs as [|k0 reps] eqn:Erep.
    - intros [= <-]. rewrite U_nil in IU. subst rsecs.
      eapply QInv_F_ext; [|exact IQ]. intros n Hn. destruct (HLc n Hn) as [H|H]; set_solver.
    - rewrite <- Erep in *.
      destruct (q_add qs q1 fault_exp ∅ rsecs pp0 rpow 0 rfee) as [q2|] eqn:Ea; cbn [rbind]; [|discriminate].
      intros [= <-].
      (* commute the deletions with the addition *)
      assert (Hnotin : quant_up qs fault_exp ∉ repochs).
      { rewrite <- Eqfe. intros Hin. destruct (Irep _ Hin) as (A & _). lia. }
      pose proof (q_add_delete_keys_comm qs fault_exp ∅ rsecs pp0 rpow 0 rfee repochs q1 q2 Ea Hnotin)
        as Ea'.
      assert (HU1 : U q1 repochs = rsecs).
      { rewrite IU. apply seteq_L. intros n. rewrite !elem_of_U.
        split; intros (k & es & Hk & E & Hn); exists k, es; (split; [exact Hk|]); (split; [|exact Hn]);
          destruct (Irep k Hk) as (_ & _ & C & _); congruence. }
      pose proof (QInv_delete_keys qs tbl (F ∪ Fd) repochs Indr L q1 IQ) as HQd. rewrite HU1 in HQd.
      assert (HrsL : rsecs ⊆ L).
      { intros n Hn. rewrite IU in Hn. apply elem_of_U in Hn as (k & es & Hk & E & Hn).
        exact (qinv_entry_sub _ _ _ _ _ _ _ HQ0 E n Hn). }
      rewrite Ipw, Ife in Ea'.
      replace L with ((L ∖ rsecs) ∪ rsecs) at 2.
      2:{ apply seteq_L. intros n. destruct (decide (n ∈ rsecs)); set_solver. }
      eapply q_add_early_inv; [exact Hu| |exact Ea'| | |exact HrsL|].
      + eapply QInv_F_ext; [|exact HQd]. intros n Hn.
        apply elem_of_difference in Hn as [Hn Hnr]. destruct (HLc n Hn) as [H|H]; [|contradiction].
        clear -Hn H. set_solver.
      + (* rsecs is not empty: the first rescheduled entry is not *)
        destruct (Irep k0) as (_ & _ & _ & [es0 E0]); [rewrite Erep; left|].
        pose proof (ei_nonempty _ _ _ _ _ (qi_entry _ _ _ _ _ HQ0 _ _ E0)) as Hne.
        intros Hemp. apply Hne. apply seteq_L. intros n. split; [|clear; set_solver].
        intros Hn. rewrite <- Hemp, IU. apply elem_of_U. exists k0, es0. rewrite Erep.
        split; [left|auto].
      + clear. set_solver.
      + rewrite <- Eqfe. exact Iat.
  Qed.
End RescheduleAll.
