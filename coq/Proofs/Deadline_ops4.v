(* Deadline operations preserve DeadlineInv, part 4: compact_partitions. *)
From Coq Require Import ZArith List Bool Lia.
From stdpp Require Import gmap.
From VF Require Import Base.SetSum Model.Partition Model.PartitionInv Model.Deadline
  Model.DeadlineInv Proofs.Partition_base Proofs.Partition_lists Proofs.Partition_ops1
  Proofs.Deadline_base Proofs.Deadline_ops1 Proofs.Deadline_ops3.
Import ListNotations.
Open Scope Z_scope.

(* pairwise disjointness as a list predicate, stable under sublists *)
Inductive PWD : list partition -> Prop :=
| PWD_nil : PWD []
| PWD_cons p l : Forall (fun q => sectors p ## sectors q) l -> PWD l -> PWD (p :: l).

Lemma PWD_of_lookup (l : list partition) :
  (forall i j p q, i <> j -> l !! i = Some p -> l !! j = Some q -> sectors p ## sectors q) -> PWD l.
Proof.
  induction l as [|x l IH]; intros H; constructor.
  - apply Forall_forall. intros q Hq. apply elem_of_list_lookup in Hq as [j Hj].
    apply (H 0%nat (S j) x q); [lia|reflexivity|exact Hj].
  - apply IH. intros i j p q Hne Hi Hj. apply (H (S i) (S j) p q); [lia|exact Hi|exact Hj].
Qed.
Lemma PWD_lookup (l : list partition) :
  PWD l -> forall i j p q, i <> j -> l !! i = Some p -> l !! j = Some q -> sectors p ## sectors q.
Proof.
  induction 1 as [|x l Hx Hl IH]; intros i j p q Hne Hi Hj; [rewrite lookup_nil in Hi; discriminate|].
  rewrite Forall_forall in Hx.
  destruct i as [|i]; destruct j as [|j]; try lia; cbn in Hi, Hj.
  - injection Hi as <-. apply Hx. eapply elem_of_list_lookup_2; eauto.
  - injection Hj as <-. symmetry. apply Hx. eapply elem_of_list_lookup_2; eauto.
  - eapply (IH i j); eauto.
Qed.
Lemma sublist_elem_of {A} (l1 l2 : list A) x : sublist l1 l2 -> x ∈ l1 -> x ∈ l2.
Proof.
  induction 1 as [|y l1 l2 Hs IH|y l1 l2 Hs IH]; intros Hx; [exact Hx| |].
  - apply elem_of_cons in Hx as [->|Hx]; [left|right; apply IH, Hx].
  - right. apply IH, Hx.
Qed.
Lemma sublist_Forall {A} (P : A -> Prop) (l1 l2 : list A) : sublist l1 l2 -> Forall P l2 -> Forall P l1.
Proof.
  intros Hs HF. apply Forall_forall. intros x Hx. rewrite Forall_forall in HF.
  apply HF. eapply sublist_elem_of; eauto.
Qed.

Lemma PWD_sublist (l l' : list partition) : sublist l' l -> PWD l -> PWD l'.
Proof.
  induction 1 as [|x l1 l2 Hs IH|x l1 l2 Hs IH]; intros H; [constructor| |].
  - inversion H as [|? ? Hx Hl]; subst. constructor; [|apply IH, Hl].
    eapply sublist_Forall; eauto.
  - inversion H as [|? ? Hx Hl]; subst. apply IH, Hl.
Qed.

(* ---------- the selection loop of compact_partitions ---------- *)
Section Select.
  Context (rm : gset N).
  Definition sel (ip : nat * partition) : bool := bool_decide (N.of_nat (fst ip) ∈ rm).
  Definition keptL (L : list (nat * partition)) : list partition :=
    map snd (List.filter (fun ip => negb (sel ip)) L).
  Definition remL (L : list (nat * partition)) : list partition := map snd (List.filter sel L).

  Definition cstep (acc : list partition * gset N * gset N * pp) (ip : nat * partition)
    : res (list partition * gset N * gset N * pp) :=
    let '(kept, dead, live, rp) := acc in
    let '(i, p) := ip in
    if bool_decide (N.of_nat i ∉ rm) then Ok (kept ++ [p], dead, live, rp) else
    if negb (set_empty (faults p)) then Err E_ARG else
    if negb (set_empty (unproven p)) then Err E_ARG else
    Ok (kept, dead ∪ terminated p, live ∪ live_sectors p, pp_add rp (live_power p)).

  Lemma cfold_spec L : forall kept dead live rp kept' dead' live' rp',
    foldM cstep L (kept, dead, live, rp) = Ok (kept', dead', live', rp') ->
    kept' = kept ++ keptL L /\
    dead' = dead ∪ ⋃ (map terminated (remL L)) /\
    live' = live ∪ ⋃ (map live_sectors (remL L)) /\
    rp' = pp_add rp (psum live_power (remL L)) /\
    Forall (fun p => faults p = ∅ /\ unproven p = ∅) (remL L).
  Proof.
    induction L as [|[i p] L IH]; intros kept dead live rp kept' dead' live' rp'; cbn [foldM].
    - intros [= <- <- <- <-]. unfold keptL, remL; cbn. rewrite app_nil_r.
      repeat split; try (apply seteq_L; set_solver); [apply pp_eq; cbn; lia|constructor].
    - unfold cstep at 1. unfold keptL, remL, sel. cbn [List.filter fst].
      destruct (bool_decide (N.of_nat i ∉ rm)) eqn:E1.
      + apply bool_decide_eq_true in E1.
        assert (E2 : bool_decide (N.of_nat i ∈ rm) = false) by (apply bool_decide_eq_false, E1).
        rewrite E2. cbn [negb map snd]. intros H. apply IH in H as (-> & -> & -> & -> & HF).
        rewrite <- app_assoc. cbn [app]. auto.
      + apply bool_decide_eq_false in E1.
        assert (E2 : bool_decide (N.of_nat i ∈ rm) = true).
        { apply bool_decide_eq_true. destruct (decide (N.of_nat i ∈ rm)); tauto. }
        rewrite E2. cbn [negb map snd].
        destruct (set_empty (faults p)) eqn:Ef; cbn [negb]; [|discriminate].
        destruct (set_empty (unproven p)) eqn:Eu; cbn [negb]; [|discriminate].
        apply set_empty_true in Ef, Eu.
        intros H. apply IH in H as (-> & -> & -> & -> & HF).
        split; [reflexivity|]. cbn [union_list foldr map].
        split; [apply seteq_L; set_solver|]. split; [apply seteq_L; set_solver|].
        change (map snd (List.filter (fun ip : nat * partition => bool_decide (N.of_nat ip.1 ∈ rm)) L))
          with (remL L).
        split; [|constructor; auto].
        change (psum live_power (p :: remL L)) with (pp_add (live_power p) (psum live_power (remL L))).
        apply pp_eq; cbn; lia.
  Qed.
End Select.

Lemma keptL_sublist rm (l : list partition) (g : nat -> nat) :
  sublist (keptL rm (imap (fun i p => (g i, p)) l)) l.
Proof.
  revert g. induction l as [|x l IH]; intros g; [constructor|].
  rewrite imap_cons. unfold keptL. cbn [List.filter].
  destruct (negb (sel rm (g 0%nat, x))); cbn [map snd].
  - apply sublist_skip. apply (IH (g ∘ S)).
  - apply sublist_cons. apply (IH (g ∘ S)).
Qed.
Lemma remL_sublist rm (l : list partition) (g : nat -> nat) :
  sublist (remL rm (imap (fun i p => (g i, p)) l)) l.
Proof.
  revert g. induction l as [|x l IH]; intros g; [constructor|].
  rewrite imap_cons. unfold remL. cbn [List.filter].
  destruct (sel rm (g 0%nat, x)); cbn [map snd].
  - apply sublist_skip. apply (IH (g ∘ S)).
  - apply sublist_cons. apply (IH (g ∘ S)).
Qed.
Lemma lsum_kept_rem rm (f : partition -> Z) (l : list partition) (g : nat -> nat) :
  lsum f l = lsum f (keptL rm (imap (fun i p => (g i, p)) l))
           + lsum f (remL rm (imap (fun i p => (g i, p)) l)).
Proof.
  revert g. induction l as [|x l IH]; intros g; [reflexivity|].
  specialize (IH (g ∘ S)). rewrite imap_cons. unfold keptL, remL in *.
  change (imap (fun i p => ((g ∘ S) i, p)) l) with (imap ((fun i p => (g i, p)) ∘ S) l) in IH.
  cbn [List.filter].
  destruct (sel rm (g 0%nat, x)); cbn [negb map snd]; rewrite !lsum_cons; lia.
Qed.
Lemma psum_kept_rem rm (f : partition -> pp) (l : list partition) (g : nat -> nat) :
  psum f l = pp_add (psum f (keptL rm (imap (fun i p => (g i, p)) l)))
                    (psum f (remL rm (imap (fun i p => (g i, p)) l))).
Proof.
  rewrite !psum_lsum. rewrite (lsum_kept_rem rm _ l g), (lsum_kept_rem rm (fun p => qa (f p)) l g).
  apply pp_eq; cbn; lia.
Qed.

(* a sector of a kept partition is not in a removed one and vice versa *)
Lemma kept_rem_disjoint rm (l : list partition) (g : nat -> nat) p q :
  PWD l -> p ∈ keptL rm (imap (fun i p => (g i, p)) l) ->
  q ∈ remL rm (imap (fun i p => (g i, p)) l) -> sectors p ## sectors q.
Proof.
  revert g. induction l as [|x l IH]; intros g HPW; [intros H; inversion H|].
  inversion HPW as [|? ? Hx Hl]; subst. rewrite Forall_forall in Hx.
  rewrite imap_cons. unfold keptL, remL. cbn [List.filter].
  destruct (sel rm (g 0%nat, x)); cbn [negb map snd]; intros Hp Hq.
  - apply elem_of_cons in Hq as [->|Hq].
    + symmetry. apply Hx. eapply sublist_elem_of; [apply (keptL_sublist rm l (g ∘ S))|exact Hp].
    + eapply (IH (g ∘ S)); eauto.
  - apply elem_of_cons in Hp as [->|Hp].
    + apply Hx. eapply sublist_elem_of; [apply (remL_sublist rm l (g ∘ S))|exact Hq].
    + eapply (IH (g ∘ S)); eauto.
Qed.

(* sizes and sums over pairwise disjoint partitions *)
Lemma union_live_size (l : list partition) :
  PWD l ->
  ssize (⋃ (map live_sectors l)) = lsum (fun p => ssize (live_sectors p)) l /\
  (forall X, (forall p, p ∈ l -> X ## sectors p) -> X ## ⋃ (map live_sectors l)).
Proof.
  induction 1 as [|x l Hx Hl IH]; cbn [map union_list foldr].
  - split; [unfold ssize; rewrite size_empty; reflexivity|set_solver].
  - destruct IH as [IH1 IH2]. rewrite Forall_forall in Hx.
    assert (D : live_sectors x ## ⋃ (map live_sectors l)).
    { apply IH2. intros p Hp. specialize (Hx p Hp). unfold live_sectors. set_solver. }
    split.
    + rewrite lsum_cons, (ssize_union_disj _ _ D), IH1. reflexivity.
    + intros X HX. assert (X ## live_sectors x).
      { specialize (HX x (elem_of_list_here _ _)). unfold live_sectors. set_solver. }
      assert (X ## ⋃ (map live_sectors l)) by (apply IH2; intros p Hp; apply HX; right; exact Hp).
      set_solver.
Qed.

(* generic: unions of a sub-selection of each partition's sectors over pairwise disjoint partitions *)
Lemma union_sel_props (h : partition -> gset N) (l : list partition) :
  PWD l -> (forall p, p ∈ l -> h p ⊆ sectors p) ->
  ssize (⋃ (map h l)) = lsum (fun p => ssize (h p)) l /\
  (forall f, ssum f (⋃ (map h l)) = lsum (fun p => ssum f (h p)) l) /\
  (forall X, (forall p, p ∈ l -> X ## sectors p) -> X ## ⋃ (map h l)) /\
  ⋃ (map h l) ⊆ ⋃ (map sectors l).
Proof.
  induction 1 as [|x l Hx Hl IH]; intros Hh; cbn [map union_list foldr].
  - split; [unfold ssize; rewrite size_empty; reflexivity|]. split; [intros f; apply ssum_empty|].
    split; set_solver.
  - destruct IH as (IH1 & IH2 & IH3 & IH4); [intros p Hp; apply Hh; right; exact Hp|].
    rewrite Forall_forall in Hx.
    assert (Hhx : h x ⊆ sectors x) by (apply Hh; left).
    assert (D : h x ## ⋃ (map h l)).
    { apply IH3. intros p Hp. specialize (Hx p Hp). set_solver. }
    split; [rewrite lsum_cons, (ssize_union_disj _ _ D), IH1; reflexivity|].
    split; [intros f; rewrite lsum_cons, (ssum_union_disj _ _ _ D), IH2; reflexivity|].
    split.
    + intros X HX. assert (X ## h x) by (specialize (HX x (elem_of_list_here _ _)); set_solver).
      assert (X ## ⋃ (map h l)) by (apply IH3; intros p Hp; apply HX; right; exact Hp).
      set_solver.
    + set_solver.
Qed.

Lemma live_dead_disjoint qs tbl (l : list partition) :
  PWD l -> (forall p, p ∈ l -> PartInv qs tbl p) ->
  ⋃ (map live_sectors l) ## ⋃ (map terminated l).
Proof.
  induction 1 as [|x l Hx Hl IH]; intros HP; cbn [map union_list foldr]; [set_solver|].
  rewrite Forall_forall in Hx.
  assert (Hsub : forall p, p ∈ l -> live_sectors p ⊆ sectors p /\ terminated p ⊆ sectors p).
  { intros p Hp. split; [unfold live_sectors; set_solver|].
    apply (pi_terminated_sectors qs tbl p). apply HP. right. exact Hp. }
  destruct (union_sel_props live_sectors l Hl (fun p Hp => proj1 (Hsub p Hp))) as (_ & _ & L3 & _).
  destruct (union_sel_props terminated l Hl (fun p Hp => proj2 (Hsub p Hp))) as (_ & _ & T3 & _).
  assert (Tx : terminated x ⊆ sectors x) by (apply (pi_terminated_sectors qs tbl x), HP; left).
  assert (D1 : live_sectors x ## ⋃ (map terminated l)).
  { apply T3. intros p Hp. specialize (Hx p Hp). unfold live_sectors. set_solver. }
  assert (D2 : terminated x ## ⋃ (map live_sectors l)).
  { apply L3. intros p Hp. specialize (Hx p Hp). set_solver. }
  assert (D3 : ⋃ (map live_sectors l) ## ⋃ (map terminated l))
    by (apply IH; intros p Hp; apply HP; right; exact Hp).
  unfold live_sectors in *. set_solver.
Qed.

Lemma delete_sectors_lookup tbl (X : gset N) n :
  n ∉ X -> delete_sectors tbl X !! n = tbl !! n.
Proof.
  intros Hn. unfold delete_sectors. destruct (tbl !! n) as [s|] eqn:E.
  - apply map_filter_lookup_Some. split; [exact E|exact Hn].
  - apply map_filter_lookup_None. left. exact E.
Qed.
Lemma delete_sectors_keyed tbl X : tbl_keyed tbl -> tbl_keyed (delete_sectors tbl X).
Proof.
  intros Hk n s H. unfold delete_sectors in H. apply map_filter_lookup_Some in H as [H _]. eapply Hk, H.
Qed.

Lemma lsum_zero {A} (l : list A) : lsum (fun _ : A => 0) l = 0.
Proof. induction l as [|x l IH]; [reflexivity|]. rewrite lsum_cons. lia. Qed.

Lemma foldM_ext {A B} (f g : A -> B -> res A) l a :
  (forall a x, f a x = g a x) -> foldM f l a = foldM g l a.
Proof.
  intros E. revert a. induction l as [|x l IH]; intros a; cbn [foldM]; [reflexivity|].
  rewrite E. destruct (g a x); [apply IH|reflexivity].
Qed.

Lemma psum_credited_ext (tbl tbl' : gmap N sector) (ps : list partition) :
  (forall n, n ∈ allsecs ps -> tbl' !! n = tbl !! n) ->
  psum (credited tbl') ps = psum (credited tbl) ps.
Proof.
  intros E. rewrite !psum_lsum.
  assert (H : forall p, p ∈ ps -> credited tbl' p = credited tbl p).
  { intros p Hp. unfold credited. apply spow_ext. intros n Hn. apply E.
    apply elem_of_list_lookup in Hp as [i Hi]. apply elem_of_allsecs. exists i, p. split; [exact Hi|].
    unfold active_sectors, live_sectors in Hn. set_solver. }
  f_equal; apply lsum_ext; intros p Hp; rewrite (H p Hp); reflexivity.
Qed.

(* ---------- compact_partitions ---------- *)
Lemma d_compact_partitions_inv qs tbl d psize to_remove d' dead :
  0 < q_unit qs -> tbl_keyed tbl -> 0 < psize -> DeadlineInv qs tbl d ->
  d_compact_partitions qs tbl d psize to_remove = Ok (d', dead) ->
  DeadlineInv qs (delete_sectors tbl dead) d' /\ tbl_keyed (delete_sectors tbl dead) /\
  psum (credited (delete_sectors tbl dead)) (parts d') = psum (credited tbl) (parts d).
Proof.
  intros Hu Hk Hps HD. unfold d_compact_partitions.
  set (rm := (list_to_set to_remove : gset N)).
  destruct (Z.of_N _ <? ssize rm); [discriminate|].
  destruct (set_empty rm) eqn:Erm.
  { intros [= <- <-]. split; [|split; [apply delete_sectors_keyed, Hk|]].
    - eapply DeadlineInv_tbl_ext; [|apply delete_sectors_keyed, Hk|exact HD].
      intros n _. apply delete_sectors_lookup. set_solver.
    - apply psum_credited_ext. intros n _. apply delete_sectors_lookup. set_solver. }
  destruct (forallb _ _); cbn [negb]; [|discriminate].
  destruct (set_empty (early_terms d)) eqn:Eet; cbn [negb]; [|discriminate].
  apply set_empty_true in Eet.
  set (L := imap (fun i p => (i, p)) (parts d)).
  match goal with |- context [foldM ?f L ?a] =>
    rewrite (foldM_ext f (cstep rm) L a) by (intros [[[? ?] ?] ?] [? ?]; reflexivity) end.
  destruct (foldM (cstep rm) L ([], ∅, ∅, pp0)) as [[[[kept dead0] live] rp]|] eqn:Ef; cbn [rbind]; [|discriminate].
  apply cfold_spec in Ef as (EK & ED & EL & ER & HFU).
  set (K := keptL rm L) in *. set (R := remL rm L) in *.
  cbn [app] in EK. subst kept.
  assert (ED' : dead0 = ⋃ (map terminated R)) by (rewrite ED; apply seteq_L; set_solver).
  assert (EL' : live = ⋃ (map live_sectors R)) by (rewrite EL; apply seteq_L; set_solver).
  assert (ER' : rp = psum live_power R) by (rewrite ER; apply pp_eq; cbn; lia).
  clear ED EL ER. subst dead0 live rp.
  destruct HD as [H1 H2 H3 H4 H5 H6 H7 H8].
  assert (HPW : PWD (parts d)) by (apply PWD_of_lookup, H2).
  assert (HKs : sublist K (parts d)) by (apply (keptL_sublist rm (parts d) (fun i => i))).
  assert (HRs : sublist R (parts d)) by (apply (remL_sublist rm (parts d) (fun i => i))).
  assert (HPall : forall p, p ∈ parts d -> PartInv qs tbl p).
  { intros p Hp. apply elem_of_list_lookup in Hp as [i Hi]. eapply H1; eauto. }
  assert (HPK : forall p, p ∈ K -> PartInv qs tbl p) by (intros p Hp; apply HPall; exact (sublist_elem_of _ _ _ HKs Hp)).
  assert (HPR : forall p, p ∈ R -> PartInv qs tbl p) by (intros p Hp; apply HPall; exact (sublist_elem_of _ _ _ HRs Hp)).
  assert (PWK : PWD K) by (exact (PWD_sublist _ _ HKs HPW)).
  assert (PWR : PWD R) by (exact (PWD_sublist _ _ HRs HPW)).
  set (Lr := ⋃ (map live_sectors R)) in *. set (Dr := ⋃ (map terminated R)) in *.
  destruct (union_sel_props live_sectors R PWR) as (SzL & SumL & DisL & SubL).
  { intros p _. unfold live_sectors. clear. set_solver. }
  destruct (union_sel_props terminated R PWR) as (SzD & SumD & DisD & SubD).
  { intros p Hp. apply (pi_terminated_sectors qs tbl p), HPR, Hp. }
  fold Lr in SzL, SumL, DisL, SubL. fold Dr in SzD, SumD, DisD, SubD.
  (* all early-termination queues are empty *)
  assert (Hnoet : forall p, p ∈ parts d -> early_terminated p = ∅).
  { intros p Hp. apply elem_of_list_lookup in Hp as [i Hi].
    destruct (decide (early_terminated p = ∅)) as [|Hne]; [assumption|exfalso].
    assert (N.of_nat i ∈ early_terms d) by (apply H8; exists p; rewrite Nat2N.id; auto).
    rewrite Eet in H. clear -H. set_solver. }
  (* the deadline with the selected partitions removed *)
  match goal with |- context [d_add_sectors qs ?dd psize true false] => set (d1 := dd) end.
  assert (HO1 : DInvOff qs tbl d1 0 pp0 pp0 (sfee tbl Lr)).
  { constructor; cbn [d1 parts dl_live_sectors dl_total_sectors dl_faulty_power dl_live_power dl_daily_fee].
    - intros i p Hp. apply HPK. eapply elem_of_list_lookup_2; eauto.
    - apply PWD_lookup, PWK.
    - rewrite H3, (lsum_kept_rem rm _ (parts d) (fun i => i)). fold L K R. rewrite SzL. lia.
    - rewrite H4, (lsum_kept_rem rm _ (parts d) (fun i => i)). fold L K R. rewrite SzL, SzD.
      assert (E : lsum (fun p => ssize (sectors p)) R
                  = lsum (fun p => ssize (live_sectors p)) R + lsum (fun p => ssize (terminated p)) R).
      { rewrite <- lsum_plus. apply lsum_ext. intros p Hp.
        pose proof (pi_terminated_sectors qs tbl p (HPR p Hp)) as Ht.
        unfold live_sectors. rewrite (ssize_diff _ _ Ht). lia. }
      lia.
    - rewrite H5, (psum_kept_rem rm _ (parts d) (fun i => i)). fold L K R.
      assert (E : psum p_faulty_power R = pp0).
      { rewrite psum_lsum. assert (E0 : forall p, p ∈ R -> p_faulty_power p = pp0).
        { intros p Hp. rewrite Forall_forall in HFU. destruct (HFU p Hp) as [Ef _].
          rewrite (pi_faulty_power qs tbl p (HPR p Hp)), Ef. apply spow_empty. }
        rewrite (lsum_ext _ (fun _ => 0) R), (lsum_ext (fun p => qa (p_faulty_power p)) (fun _ => 0) R).
        - rewrite lsum_zero. reflexivity.
        - intros p Hp. rewrite (E0 p Hp). reflexivity.
        - intros p Hp. rewrite (E0 p Hp). reflexivity. }
      rewrite E. apply pp_eq; cbn; lia.
    - rewrite H6, (psum_kept_rem rm _ (parts d) (fun i => i)). fold L K R. apply pp_eq; cbn; lia.
    - rewrite H7, (lsum_kept_rem rm _ (parts d) (fun i => i)). fold L K R.
      f_equal. unfold sfee. symmetry. apply (SumL (tget tbl s_fee)). }
  assert (HE1 : EarlyOk d1).
  { intros j. cbn [d1 early_terms parts]. rewrite Eet. split; [set_solver|].
    intros (p & Hp & Hpe). exfalso. apply Hpe. apply Hnoet.
    eapply sublist_elem_of; [exact HKs|]. eapply elem_of_list_lookup_2; eauto. }
  destruct (load_sectors tbl Lr) as [live_secs|] eqn:Eload; cbn [rbind]; [|discriminate].
  destruct (load_sectors_spec tbl Lr live_secs Hk Eload) as (Hft & _ & Hnums & Hnd).
  assert (Hok : Forall (fun s => sector_ok s (s_num s)) live_secs).
  { apply Forall_forall. intros s Hs.
    assert (Hn : s_num s ∈ Lr) by (rewrite <- Hnums; apply elem_of_nums_of; eauto).
    unfold Lr in Hn. apply elem_of_union_list in Hn as (X & HX & Hn).
    apply elem_of_list_fmap in HX as (p & -> & Hp).
    destruct (pi_tbl qs tbl p (HPR p Hp) _ Hn) as (s' & Hs' & Hok').
    rewrite (Hft s Hs) in Hs'. injection Hs' as <-. exact Hok'. }
  assert (Hfresh : nums_of live_secs ## allsecs (parts d1)).
  { rewrite Hnums. cbn [d1 parts]. unfold allsecs. intros n Hn Hn'.
    apply elem_of_union_list in Hn' as (X & HX & HnX). apply elem_of_list_fmap in HX as (p & -> & Hp).
    apply SubL in Hn. apply elem_of_union_list in Hn as (Y & HY & HnY).
    apply elem_of_list_fmap in HY as (q & -> & Hq).
    pose proof (kept_rem_disjoint rm (parts d) (fun i => i) p q HPW Hp Hq) as D. set_solver. }
  destruct (d_add_sectors qs d1 psize true false live_secs) as [[[d2 apw] afee]|] eqn:Eadd;
    cbn [rbind]; [|discriminate].
  destruct (negb (afee =? 0)); [discriminate|]. destruct (negb (pp_eqb _ _)); [discriminate|].
  intros [= <- <-].
  destruct (d_add_sectors_off qs tbl d1 psize true false live_secs d2 apw afee 0 pp0 pp0 (sfee tbl Lr)
              Hu Hk Hps HO1 HE1 Hnd Hft Hok Hfresh Eadd) as (HO2 & HE2 & Epw2 & Hall2 & Hcred2).
  cbn match in HO2. rewrite Hnums in HO2, Hall2.
  replace (sfee tbl Lr - sfee tbl Lr) with 0 in HO2 by lia.
  assert (HD2 : DeadlineInv qs tbl d2) by (apply dinv_off_zero; auto).
  assert (Hext : forall n, n ∈ allsecs (parts d2) -> delete_sectors tbl Dr !! n = tbl !! n).
  { intros n Hn. apply delete_sectors_lookup. rewrite Hall2 in Hn. cbn [d1 parts] in Hn.
    apply elem_of_union in Hn as [Hn|Hn].
    - (* a sector of a kept partition *)
      intros HnD. apply SubD in HnD. unfold allsecs in Hn.
      apply elem_of_union_list in Hn as (X & HX & HnX). apply elem_of_list_fmap in HX as (p & -> & Hp).
      apply elem_of_union_list in HnD as (Y & HY & HnY). apply elem_of_list_fmap in HY as (q & -> & Hq).
      pose proof (kept_rem_disjoint rm (parts d) (fun i => i) p q HPW Hp Hq) as D. set_solver.
    - pose proof (live_dead_disjoint qs tbl R PWR HPR) as D. fold Lr Dr in D. set_solver. }
  split; [|split; [apply delete_sectors_keyed, Hk|]].
  - eapply DeadlineInv_tbl_ext; [exact Hext|apply delete_sectors_keyed, Hk|exact HD2].
  - rewrite (psum_credited_ext tbl _ (parts d2) Hext), Hcred2, Epw2, Hnums. cbn [d1 parts].
    rewrite (psum_kept_rem rm (credited tbl) (parts d) (fun i => i)). fold L K R. f_equal.
    (* the removed partitions have neither faults nor unproven sectors: all their live power is credited *)
    rewrite psum_lsum. unfold spow. rewrite (SumL (tget tbl s_raw)), (SumL (tget tbl s_qa)).
    f_equal; apply lsum_ext; intros p Hp; rewrite Forall_forall in HFU; destruct (HFU p Hp) as [Ef Eu];
      unfold credited, active_sectors; rewrite Ef, Eu;
      (replace ((live_sectors p ∖ ∅) ∖ ∅) with (live_sectors p) by (apply seteq_L; clear; set_solver));
      reflexivity.
Qed.
