(* Proofs about coq/Model/Cron.v (property C05): deadline arithmetic, the schedule invariant of the three-level
   cron dispatch, no event lost / duplicated, claims deleted only by failed callbacks, totality of the miner
   callback up to its failure inputs, early-termination drain, the recorded deadline, obligations vs cron switch. *)
From stdpp Require Import gmap.
From Coq Require Import ZArith List Bool Lia.
From VF Require Import Gen.Consts Gen.CronConsts Base.Corr Model.Cron.
Import ListNotations.
Open Scope Z_scope.

(* ================= part A ================= *)

Lemma dl_ps_closed : forall p e, dl_period_start p e = p + 2880 * ((e - p) / 2880).
Proof.
  intros p e. unfold dl_period_start, quantize_down, quantize_up, PERIOD, WPOST_PROVING_PERIOD. cbv zeta.
  destruct (Z.eqb_spec (Z.rem (e - Z.rem p 2880) 2880) 0) as [Er|Er];
  destruct (Z.ltb_spec (e - Z.rem p 2880) 0) as [En|En]; cbn [orb];
  match goal with |- context [?a =? ?b] => destruct (Z.eqb_spec a b) as [E2|E2] end;
  Z.to_euclidean_division_equations; lia.
Qed.

Lemma dl_index_closed : forall p e, dl_index p e = (e - dl_period_start p e) / 60.
Proof.
  intros. unfold dl_index, WINDOW, WPOST_CHALLENGE_WINDOW. rewrite dl_ps_closed.
  Z.to_euclidean_division_equations; lia.
Qed.

Lemma dl_last_closed : forall p e,
  dl_last p e = dl_period_start p e + 60 * ((e - dl_period_start p e) / 60) + 59.
Proof. intros. unfold dl_last. rewrite dl_index_closed. unfold WINDOW, WPOST_CHALLENGE_WINDOW. lia. Qed.

Ltac dl_arith :=
  rewrite ?dl_last_closed, ?dl_index_closed, ?dl_ps_closed in *;
  Z.to_euclidean_division_equations; lia.

Lemma dl_bounds : forall p e,
  dl_period_start p e <= e < dl_period_start p e + 2880 /\
  0 <= dl_index p e < 48 /\ e <= dl_last p e < e + 60 /\
  dl_last p e = dl_period_start p e + 60 * dl_index p e + 59.
Proof. intros. repeat split; dl_arith. Qed.

Lemma dl_stable : forall p e, dl_last p e <> e ->
  dl_period_start p (e + 1) = dl_period_start p e /\ dl_index p (e + 1) = dl_index p e /\
  dl_last p (e + 1) = dl_last p e.
Proof. intros p e H. repeat split; dl_arith. Qed.

Lemma dl_next : forall p e, dl_last p e = e ->
  dl_last p (e + 1) = e + 60 /\
  dl_index p (e + 1) = Z.rem (dl_index p e + 1) 48 /\
  dl_period_start p (e + 1) =
    (if Z.rem (dl_index p e + 1) 48 =? 0 then dl_period_start p e + 2880 else dl_period_start p e).
Proof.
  intros p e H. split; [|split].
  - dl_arith.
  - dl_arith.
  - destruct (Z.eqb_spec (Z.rem (dl_index p e + 1) 48) 0); dl_arith.
Qed.

Lemma dl_shift : forall p k e,
  dl_period_start (p + 2880 * k) e = dl_period_start p e /\
  dl_index (p + 2880 * k) e = dl_index p e /\ dl_last (p + 2880 * k) e = dl_last p e.
Proof. intros. repeat split; dl_arith. Qed.

Lemma ctor_ok : forall e off, 0 <= e -> 0 <= off < 2880 ->
  let pps := ctor_period_start e off in
  pps <= e < pps + 2880 /\ 0 <= ctor_deadline_index e pps < 48 /\
  pps = dl_period_start pps e /\ ctor_deadline_index e pps = dl_index pps e.
Proof.
  intros e off He Ho. cbv zeta. unfold ctor_period_start, ctor_deadline_index, PERIOD, WINDOW,
    WPOST_PROVING_PERIOD, WPOST_CHALLENGE_WINDOW.
  destruct (Z.leb_spec off (Z.rem e 2880)); repeat split; dl_arith.
Qed.

(* ---------- counting ---------- *)
Definition ind (b : bool) : Z := if b then 1 else 0.

Lemma cnt_nonneg : forall x l, 0 <= cnt x l.
Proof. induction l as [|y r IH]; cbn [cnt]; [lia|]. destruct (_ && _); lia. Qed.

Lemma cnt_app : forall x l1 l2, cnt x (l1 ++ l2) = cnt x l1 + cnt x l2.
Proof. induction l1 as [|y r IH]; intros; cbn [cnt app]; [lia|]. rewrite IH. lia. Qed.

Lemma pair_eqb : forall (x y : Z * Z), ((fst x =? fst y) && (snd x =? snd y)) = true <-> x = y.
Proof.
  intros [a b] [c d]; cbn. rewrite andb_true_iff, !Z.eqb_eq. split; [intros [-> ->]; auto|intros [= -> ->]; auto].
Qed.

Lemma cnt_pos_in : forall x l, 0 < cnt x l -> In x l.
Proof.
  induction l as [|y r IH]; cbn [cnt]; [lia|]. intros H.
  destruct ((fst x =? fst y) && (snd x =? snd y)) eqn:E.
  - left. symmetry. apply pair_eqb. exact E.
  - right. apply IH. lia.
Qed.

Lemma cnt_notin : forall x l, ~ In x l -> cnt x l = 0.
Proof. intros x l H. pose proof (cnt_nonneg x l). destruct (Z.eq_dec (cnt x l) 0); auto. exfalso. apply H, cnt_pos_in. lia. Qed.

Lemma cnt_cons_other : forall x y l, x <> y -> cnt x (y :: l) = cnt x l.
Proof.
  intros x y l H. cbn [cnt]. destruct ((fst x =? fst y) && (snd x =? snd y)) eqn:E; [|lia].
  apply pair_eqb in E. contradiction.
Qed.

Lemma cnt_cons_same : forall x l, cnt x (x :: l) = 1 + cnt x l.
Proof. intros. cbn [cnt]. rewrite !Z.eqb_refl. reflexivity. Qed.

Lemma cnt_filter : forall (f : Z * Z -> bool) x l,
  cnt x (List.filter f l) = if f x then cnt x l else 0.
Proof.
  induction l as [|y r IH]; cbn [List.filter cnt]; [destruct (f x); auto|].
  destruct ((fst x =? fst y) && (snd x =? snd y)) eqn:E.
  - apply pair_eqb in E. subst y. destruct (f x) eqn:F; cbn [cnt]; rewrite ?Z.eqb_refl; cbn; rewrite IH, ?F; lia.
  - destruct (f y); cbn [cnt]; rewrite ?E, IH; destruct (f x); lia.
Qed.

(* ---------- the queue ---------- *)
Lemma evs_insert : forall (q : gmap Z (list (Z * Z))) ep l k, evs (<[ep := l]> q) k = if k =? ep then l else evs q k.
Proof.
  intros. unfold evs. destruct (Z.eqb_spec k ep) as [->|N].
  - rewrite lookup_insert. reflexivity.
  - rewrite lookup_insert_ne by congruence. reflexivity.
Qed.

Lemma evs_delete : forall (q : gmap Z (list (Z * Z))) ep k, evs (delete ep q) k = if k =? ep then [] else evs q k.
Proof.
  intros. unfold evs. destruct (Z.eqb_spec k ep) as [->|N].
  - rewrite lookup_delete. reflexivity.
  - rewrite lookup_delete_ne by congruence. reflexivity.
Qed.

Lemma evs_empty : forall k, evs ∅ k = [].
Proof. intros. unfold evs. rewrite lookup_empty. reflexivity. Qed.

(* ================= part B ================= *)

Definition pdq (st : state) (id k : Z) : Z := cnt (id, PD) (evs (queue st) k).
Definition none_pending st id := forall k, pdq st id k = 0.
Definition exactly_at st id L := forall k, pdq st id k = ind (k =? L).
Definition at_most_one st id := exists E, forall k, pdq st id k <= ind (k =? E).

Definition miner_inv st id mi :=
  (m_active mi = false -> none_pending st id) /\
  (m_active mi = true -> id ∈ claims st -> exactly_at st id (dl_last (m_pps mi) (now st))) /\
  (m_active mi = true -> id ∉ claims st -> at_most_one st id).

Definition qdom st := forall k, evs (queue st) k <> [] -> first_cron st <= k.
Definition qknown st := forall k id kind, In (id, kind) (evs (queue st) k) -> is_Some (miners st !! id).
Definition cl_known st := forall id, id ∈ claims st -> is_Some (miners st !! id).

Definition Inv st :=
  qdom st /\ qknown st /\ cl_known st /\
  forall id mi, miners st !! id = Some mi -> miner_inv st id mi.

Lemma pdq_nonneg : forall st id k, 0 <= pdq st id k.
Proof. intros. apply cnt_nonneg. Qed.

Lemma exactly_at_most : forall st id L, exactly_at st id L -> at_most_one st id.
Proof. intros st id L H. exists L. intros k. rewrite H. lia. Qed.
Lemma none_at_most : forall st id, none_pending st id -> at_most_one st id.
Proof. intros st id H. exists 0. intros k. rewrite H. unfold ind. destruct (_ =? _); lia. Qed.

(* ---------- enroll / put_miner ---------- *)
Lemma enroll_Some : forall st id kd ep st', enroll st id kd ep = Some st' ->
  0 <= ep /\ st' = with_queue st (Z.min ep (first_cron st)) (<[ep := evs (queue st) ep ++ [(id, kd)]]> (queue st)).
Proof. unfold enroll. intros st id kd ep st'. destruct (Z.ltb_spec ep 0); [discriminate|]. intros [= <-]. split; auto. Qed.

Lemma enroll_is_Some : forall st id kd ep, 0 <= ep -> is_Some (enroll st id kd ep).
Proof. intros. unfold enroll. destruct (Z.ltb_spec ep 0); [lia|]. eauto. Qed.

Lemma evs_enroll : forall st id kd ep st' k, enroll st id kd ep = Some st' ->
  evs (queue st') k = if k =? ep then evs (queue st) k ++ [(id, kd)] else evs (queue st) k.
Proof.
  intros st id kd ep st' k H. apply enroll_Some in H as [_ ->]. cbn [queue with_queue]. rewrite evs_insert.
  destruct (Z.eqb_spec k ep) as [->|]; reflexivity.
Qed.

Lemma pdq_enroll : forall st id kd ep st' j k, enroll st id kd ep = Some st' ->
  pdq st' j k = pdq st j k + ind ((k =? ep) && (j =? id) && (kd =? PD)).
Proof.
  intros st id kd ep st' j k H. unfold pdq. rewrite (evs_enroll _ _ _ _ _ k H).
  destruct (Z.eqb_spec k ep) as [->|]; cbn [andb ind]; [|lia].
  rewrite cnt_app. cbn [cnt fst snd]. rewrite (Z.eqb_sym PD kd). destruct (j =? id), (kd =? PD); cbn; lia.
Qed.

Lemma enroll_fields : forall st id kd ep st', enroll st id kd ep = Some st' ->
  now st' = now st /\ claims st' = claims st /\ miners st' = miners st /\ budget st' = budget st /\
  miner_count st' = miner_count st /\ first_cron st' = Z.min ep (first_cron st).
Proof. intros st id kd ep st' H. apply enroll_Some in H as [_ ->]. cbn. repeat split. Qed.

Lemma pdq_put : forall st id mi j k, pdq (put_miner st id mi) j k = pdq st j k.
Proof. reflexivity. Qed.

Lemma miners_put : forall st id mi j,
  miners (put_miner st id mi) !! j = if j =? id then Some mi else miners st !! j.
Proof.
  intros. cbn [put_miner with_miners miners]. destruct (Z.eqb_spec j id) as [->|].
  - apply lookup_insert.
  - apply lookup_insert_ne. congruence.
Qed.

(* ---------- frame of a tick in progress ---------- *)
Definition Frame (e : Z) (cl : gset Z) (st : state) :=
  now st = e /\ claims st = cl /\ first_cron st = e + 1 /\
  (forall k, evs (queue st) k <> [] -> e + 1 <= k) /\ qknown st /\ cl_known st.

Lemma frame_put : forall e cl st id mi mi', Frame e cl st -> miners st !! id = Some mi ->
  Frame e cl (put_miner st id mi').
Proof.
  intros e cl st id mi mi' (Hn & Hc & Hf & Hk & Hq & Hcl) Hm. unfold Frame. cbn [put_miner with_miners now claims first_cron queue].
  repeat split; auto.
  - intros k j kd Hin. specialize (Hq k j kd Hin). rewrite miners_put. destruct (j =? id); eauto.
  - intros j Hj. specialize (Hcl j Hj). rewrite miners_put. destruct (j =? id); eauto.
Qed.

Lemma frame_enroll : forall e cl st id kd ep st', Frame e cl st -> e + 1 <= ep -> is_Some (miners st !! id) ->
  enroll st id kd ep = Some st' -> Frame e cl st'.
Proof.
  intros e cl st id kd ep st' (Hn & Hc & Hf & Hk & Hq & Hcl) Hep Hm H.
  pose proof (enroll_fields _ _ _ _ _ H) as (F1 & F2 & F3 & F4 & F5 & F6).
  unfold Frame. rewrite F1, F2, F6. repeat split; auto; try lia.
  - intros k. rewrite (evs_enroll _ _ _ _ _ k H). destruct (Z.eqb_spec k ep) as [->|]; auto.
  - intros k j kd'. rewrite (evs_enroll _ _ _ _ _ k H), F3. destruct (Z.eqb_spec k ep) as [->|]; eauto.
    rewrite in_app_iff. intros [Hin|[Hin|[]]]; eauto. injection Hin as <- <-. auto.
  - intros j Hj. rewrite F3. rewrite F2 in Hj. auto.
Qed.

(* ---------- summaries of the callbacks ---------- *)
Definition others_same (id : Z) (st st' : state) :=
  forall j, j <> id -> miners st' !! j = miners st !! j.
Definition pdq_same (st st' : state) := forall j k, pdq st' j k = pdq st j k.
Definition qext (st st' : state) := forall k, exists l, evs (queue st') k = evs (queue st) k ++ l.

Lemma qext_refl : forall st, qext st st.
Proof. intros st k. exists []. rewrite app_nil_r. reflexivity. Qed.
Lemma qext_trans : forall a b c, qext a b -> qext b c -> qext a c.
Proof. intros a b c H1 H2 k. destruct (H1 k) as [l1 E1], (H2 k) as [l2 E2]. exists (l1 ++ l2). rewrite E2, E1, app_assoc. reflexivity. Qed.
Lemma qext_enroll : forall st id kd ep st', enroll st id kd ep = Some st' -> qext st st'.
Proof. intros st id kd ep st' H k. rewrite (evs_enroll _ _ _ _ _ k H). destruct (k =? ep); [eexists; reflexivity|exists []; rewrite app_nil_r; reflexivity]. Qed.
Lemma qext_put : forall st id mi, qext st (put_miner st id mi).
Proof. intros st id mi k. exists []. rewrite app_nil_r. reflexivity. Qed.

Lemma process_et_summary : forall e cl st id mi0 mi o fe ms st',
  Frame e cl st -> miners st !! id = Some mi0 ->
  process_et st id mi o fe ms = Some st' ->
  Frame e cl st' /\ others_same id st st' /\ pdq_same st st' /\ qext st st' /\ budget st' = budget st /\
  miners st' !! id = Some (set_obl (set_et mi (m_et mi - Z.min (m_et mi) (budget st))) o) /\
  (0 < m_et mi - Z.min (m_et mi) (budget st) -> ms = true ->
     In (id, ET) (evs (queue st') (e + 1)) /\ fe = false).
Proof.
  intros e cl st id mi0 mi o fe ms st' HF Hm H. unfold process_et in H.
  set (et' := m_et mi - Z.min (m_et mi) (budget st)) in *.
  set (mi' := set_obl (set_et mi et') o) in *.
  pose proof (frame_put _ _ _ _ _ mi' HF Hm) as HF1.
  assert (Hn : now st = e) by apply HF.
  destruct ((0 <? et') && ms) eqn:Eb.
  - destruct fe; [discriminate|].
    apply andb_true_iff in Eb as [Eb1 Eb2]. apply Z.ltb_lt in Eb1.
    assert (Hs : is_Some (miners (put_miner st id mi') !! id)) by (rewrite miners_put, Z.eqb_refl; eauto).
    rewrite Hn in H.
    pose proof (frame_enroll _ _ _ _ _ (e + 1) _ HF1 ltac:(lia) Hs H) as HF2.
    pose proof (enroll_fields _ _ _ _ _ H) as (F1 & F2 & F3 & F4 & F5 & F6).
    refine (conj HF2 (conj _ (conj _ (conj _ (conj F4 (conj _ _)))))).
    + intros j Hj. rewrite F3, miners_put. destruct (Z.eqb_spec j id); [contradiction|reflexivity].
    + intros j k. rewrite (pdq_enroll _ _ _ _ _ j k H), pdq_put. unfold ET, PD.
      replace (CRON_EVENT_PROCESS_EARLY_TERMINATIONS =? CRON_EVENT_PROVING_DEADLINE) with false by reflexivity.
      rewrite andb_false_r. cbn [ind]. lia.
    + eapply qext_trans; [apply qext_put|eapply qext_enroll; eauto].
    + rewrite F3, miners_put, Z.eqb_refl. reflexivity.
    + intros _ _. split; auto. rewrite (evs_enroll _ _ _ _ _ (e + 1) H), Z.eqb_refl. apply in_app_iff. right. left. reflexivity.
  - injection H as <-.
    refine (conj HF1 (conj _ (conj _ (conj _ (conj eq_refl (conj _ _)))))).
    + intros j Hj. rewrite miners_put. destruct (Z.eqb_spec j id); [contradiction|reflexivity].
    + intros j k. reflexivity.
    + apply qext_put.
    + rewrite miners_put, Z.eqb_refl. reflexivity.
    + intros H1 ->. apply Z.ltb_lt in H1. fold et' in H1. rewrite H1 in Eb. discriminate.
Qed.

Definition sched_same (mi mi' : miner) :=
  m_pps mi' = m_pps mi /\ m_dl mi' = m_dl mi /\ m_active mi' = m_active mi /\ m_pre mi' = m_pre mi.

Definition pd_effect (e : Z) (st st' : state) (id : Z) (ci : cb_in) (mi mi' : miner) :=
  (m_pps mi', m_dl mi') = advance mi e /\
  ((obl_nz (ci_obl ci) = true /\ m_active mi' = m_active mi /\
    forall k, pdq st' id k = pdq st id k + ind (k =? dl_last (m_pps mi') (e + 1)))
   \/ (obl_nz (ci_obl ci) = false /\ m_active mi' = false /\ forall k, pdq st' id k = pdq st id k)).

Definition cb_post (e : Z) (cl : gset Z) (st st' : state) (id kind : Z) (ci : cb_in) (mi : miner) :=
  Frame e cl st' /\ others_same id st st' /\ (forall j, j <> id -> forall k, pdq st' j k = pdq st j k) /\
  qext st st' /\ budget st' = budget st /\
  exists mi', miners st' !! id = Some mi' /\ m_pre mi' = m_pre mi /\
    (kind = PD -> pd_effect e st st' id ci mi mi') /\
    (kind <> PD -> sched_same mi mi' /\ forall k, pdq st' id k = pdq st id k).

Lemma PD_ne_ET : PD <> ET. Proof. discriminate. Qed.

Lemma cb_et_summary : forall e cl st id ci st' mi kind, kind <> PD ->
  Frame e cl st -> miners st !! id = Some mi -> cb_et st id mi ci = Some st' ->
  cb_post e cl st st' id kind ci mi.
Proof.
  intros e cl st id ci st' mi kind Hk HF Hm H. unfold cb_et in H.
  destruct (ci_hard_fail ci); [discriminate|].
  destruct (0 <? m_et mi).
  - destruct (process_et_summary _ _ _ _ _ _ _ _ _ _ HF Hm H) as (F & O & P & Q & B & M & _).
    refine (conj F (conj O (conj _ (conj Q (conj B _))))).
    + intros j _ k. apply P.
    + eexists. split; [exact M|]. split; [destruct (ci_obl ci) as [[? ?] ?]; reflexivity|]. split; [intros; contradiction|].
      intros _. split; [|intros k; apply P]. destruct (ci_obl ci) as [[? ?] ?]. repeat split.
  - injection H as <-.
    refine (conj HF (conj _ (conj _ (conj (qext_refl _) (conj eq_refl _))))).
    + intros j _. reflexivity.
    + intros j _ k. reflexivity.
    + exists mi. split; [exact Hm|]. split; [reflexivity|]. split; [intros; contradiction|]. intros _. split; [repeat split|reflexivity].
Qed.

Lemma cb_pd_summary : forall e cl st id ci st' mi,
  Frame e cl st -> miners st !! id = Some mi -> cb_pd st id mi ci = Some st' ->
  cb_post e cl st st' id PD ci mi.
Proof.
  intros e cl st id ci st' mi HF Hm H. unfold cb_pd in H.
  assert (Hn : now st = e) by apply HF. rewrite Hn in H.
  destruct (ci_hard_fail ci); [discriminate|].
  destruct (advance mi e) as [pps' dl'] eqn:Ea.
  set (cont := obl_nz (ci_obl ci)) in *.
  set (et1 := m_et mi + Z.max 0 (ci_new_et ci)) in *.
  set (mi1 := set_obl (set_et (set_sched mi pps' dl' (if cont then m_active mi else false)) et1) (ci_obl ci)) in *.
  assert (M1 : m_pps mi1 = pps' /\ m_dl mi1 = dl' /\ m_active mi1 = (if cont then m_active mi else false) /\ m_pre mi1 = m_pre mi).
  { unfold mi1. destruct (ci_obl ci) as [[? ?] ?]. repeat split. }
  destruct M1 as (M1a & M1b & M1c & M1d).
  pose proof (frame_put _ _ _ _ _ mi1 HF Hm) as HF1.
  assert (Hs1 : miners (put_miner st id mi1) !! id = Some mi1) by (rewrite miners_put, Z.eqb_refl; reflexivity).
  (* state after the (optional) re-enrolment *)
  assert (exists st2, (if cont then (if f_enroll ci then None else enroll (put_miner st id mi1) id PD (dl_last pps' (e + 1))) else Some (put_miner st id mi1)) = Some st2 /\
     Frame e cl st2 /\ miners st2 = miners (put_miner st id mi1) /\ qext st st2 /\ budget st2 = budget st /\
     (forall j k, pdq st2 j k = pdq st j k + ind ((k =? dl_last pps' (e + 1)) && (j =? id) && cont))) as (st2 & E2 & HF2 & Hm2 & Q2 & B2 & P2).
  { destruct cont eqn:Ec.
    - destruct (f_enroll ci); [discriminate|].
      destruct (enroll (put_miner st id mi1) id PD (dl_last pps' (e + 1))) as [st2|] eqn:En; [|discriminate].
      exists st2. pose proof (dl_bounds pps' (e + 1)) as (_ & _ & Hb & _).
      pose proof (enroll_fields _ _ _ _ _ En) as (F1 & F2 & F3 & F4 & F5 & F6).
      split; [reflexivity|]. split; [eapply frame_enroll; eauto; lia|]. split; [exact F3|].
      split; [eapply qext_trans; [apply qext_put|eapply qext_enroll; eauto]|]. split; [exact F4|].
      intros j k. rewrite (pdq_enroll _ _ _ _ _ j k En), pdq_put. rewrite Z.eqb_refl, !andb_true_r. reflexivity.
    - exists (put_miner st id mi1). split; [reflexivity|]. split; [exact HF1|]. split; [reflexivity|].
      split; [apply qext_put|]. split; [reflexivity|]. intros j k. rewrite pdq_put, !andb_false_r. cbn [ind]. lia. }
  rewrite E2 in H.
  assert (Hs2 : miners st2 !! id = Some mi1) by (rewrite Hm2; exact Hs1).
  assert (PDfact : forall mi', m_pps mi' = pps' -> m_active mi' = (if cont then m_active mi else false) ->
            forall st3, (forall j k, pdq st3 j k = pdq st2 j k) ->
            ((cont = true /\ m_active mi' = m_active mi /\ forall k, pdq st3 id k = pdq st id k + ind (k =? dl_last (m_pps mi') (e + 1)))
             \/ (cont = false /\ m_active mi' = false /\ forall k, pdq st3 id k = pdq st id k))).
  { intros mi' Hp Ha st3 P3. destruct cont eqn:Ec; [left|right]; (split; [reflexivity|]); (split; [exact Ha|]); intros k;
      rewrite P3, P2, Z.eqb_refl, ?Hp, ?andb_true_r, ?andb_false_r; cbn [ind]; lia. }
  destruct (negb (0 <? m_et mi) && (0 <? et1)).
  - replace (budget st2) with (budget st2) in H by reflexivity.
    destruct (process_et_summary _ _ _ _ _ _ _ _ _ _ HF2 Hs2 H) as (F & O & P & Q & B & M & _).
    refine (conj F (conj _ (conj _ (conj (qext_trans _ _ _ Q2 Q) (conj _ _))))).
    + intros j Hj. rewrite (O j Hj), Hm2, miners_put. destruct (Z.eqb_spec j id); [contradiction|reflexivity].
    + intros j Hj k. rewrite P, P2. destruct (Z.eqb_spec j id); [contradiction|]. rewrite andb_false_r. cbn [ind andb]. lia.
    + congruence.
    + eexists. split; [exact M|].
      split; [destruct (ci_obl_et ci) as [[? ?] ?]; exact M1d|].
      split; [|intros; contradiction]. intros _. split.
      * destruct (ci_obl_et ci) as [[? ?] ?]. cbn [m_pps m_dl set_obl set_et]. congruence.
      * apply PDfact; [destruct (ci_obl_et ci) as [[? ?] ?]; exact M1a|destruct (ci_obl_et ci) as [[? ?] ?]; exact M1c|exact P].
  - injection H as <-.
    refine (conj HF2 (conj _ (conj _ (conj Q2 (conj B2 _))))).
    + intros j Hj. rewrite Hm2, miners_put. destruct (Z.eqb_spec j id); [contradiction|reflexivity].
    + intros j Hj k. rewrite P2. destruct (Z.eqb_spec j id); [contradiction|]. rewrite andb_false_r. cbn [ind andb]. lia.
    + exists mi1. split; [exact Hs2|]. split; [exact M1d|]. split; [|intros; contradiction]. intros _. split.
      * congruence.
      * apply PDfact; auto.
Qed.

Lemma callback_summary : forall e cl st id kind ci st' mi,
  Frame e cl st -> miners st !! id = Some mi -> callback st id kind ci = Some st' ->
  cb_post e cl st st' id kind ci mi.
Proof.
  intros e cl st id kind ci st' mi HF Hm H. unfold callback in H. rewrite Hm in H.
  destruct (Z.eqb_spec kind PD) as [->|Hk]; [eapply cb_pd_summary; eauto|].
  destruct (kind =? ET); [eapply cb_et_summary; eauto|].
  destruct (ci_hard_fail ci); [discriminate|]. injection H as <-.
  refine (conj HF (conj _ (conj _ (conj (qext_refl _) (conj eq_refl _))))).
  - intros j _. reflexivity.
  - intros j _ k. reflexivity.
  - exists mi. split; [exact Hm|]. split; [reflexivity|]. split; [intros; contradiction|]. intros _. split; [repeat split|reflexivity].
Qed.

Lemma callback_unknown : forall st id kind ci, miners st !! id = None -> callback st id kind ci = None.
Proof. intros. unfold callback. rewrite H. reflexivity. Qed.

(* ---------- the invariant in the middle of a tick ---------- *)
Definition mid_miner (e : Z) (cl : gset Z) (st : state) (rest : list (Z * Z)) (acc : list Z) (id : Z) (mi : miner) : Prop :=
  (m_active mi = false -> none_pending st id /\ cnt (id, PD) rest = 0) /\
  (m_active mi = true -> id ∈ cl ->
       (cnt (id, PD) rest = 1 /\ none_pending st id /\ dl_last (m_pps mi) e = e)
    \/ (cnt (id, PD) rest = 0 /\ exactly_at st id (dl_last (m_pps mi) (e + 1)))
    \/ (cnt (id, PD) rest = 0 /\ none_pending st id /\ In id acc)) /\
  (m_active mi = true -> id ∉ cl -> at_most_one st id /\ cnt (id, PD) rest = 0).

Definition Mid (e : Z) (cl : gset Z) (st : state) (rest : list (Z * Z)) (acc : list Z) :=
  Frame e cl st /\
  (forall id kind, In (id, kind) rest -> id ∈ cl) /\
  (forall id mi, miners st !! id = Some mi -> mid_miner e cl st rest acc id mi).

Lemma mid_miner_weaken : forall e cl st st' x rest acc acc' id mi,
  (forall k, pdq st' id k = pdq st id k) -> (x <> (id, PD)) -> (forall y, In y acc -> In y acc') ->
  mid_miner e cl st (x :: rest) acc id mi -> mid_miner e cl st' rest acc' id mi.
Proof.
  intros e cl st st' x rest acc acc' id mi HP Hx Hacc (H1 & H2 & H3).
  assert (Hc : cnt (id, PD) (x :: rest) = cnt (id, PD) rest) by (apply cnt_cons_other; congruence).
  rewrite Hc in *.
  assert (N : none_pending st id -> none_pending st' id) by (intros N k; rewrite HP; apply N).
  assert (X : forall L, exactly_at st id L -> exactly_at st' id L) by (intros L X k; rewrite HP; apply X).
  assert (A : at_most_one st id -> at_most_one st' id) by (intros [E A]; exists E; intros k; rewrite HP; apply A).
  split; [|split].
  - intros Ha. destruct (H1 Ha). auto.
  - intros Ha Hcl. destruct (H2 Ha Hcl) as [(a & b & c)|[(a & b)|(a & b & c)]]; [left|right; left|right; right]; auto.
  - intros Ha Hcl. destruct (H3 Ha Hcl). auto.
Qed.

Lemma mid_miner_record : forall e cl st rest acc id mi mi',
  m_pps mi' = m_pps mi -> m_active mi' = m_active mi ->
  mid_miner e cl st rest acc id mi -> mid_miner e cl st rest acc id mi'.
Proof. intros e cl st rest acc id mi mi' Hp Ha H. unfold mid_miner in *. rewrite Hp, Ha. exact H. Qed.

Lemma cb_step : forall e cl st id kind rest acc ci,
  Mid e cl st ((id, kind) :: rest) acc ->
  match callback st id kind ci with
  | Some st1 => Mid e cl st1 rest acc
  | None => Mid e cl st rest (id :: acc)
  end.
Proof.
  intros e cl st id kind rest acc ci (HF & Hr & HM).
  assert (Hidcl : id ∈ cl) by (eapply Hr; left; reflexivity).
  assert (Hr' : forall j kd, In (j, kd) rest -> j ∈ cl) by (intros j kd Hin; eapply Hr; right; exact Hin).
  destruct (callback st id kind ci) as [st1|] eqn:Ecb.
  - (* success *)
    destruct (miners st !! id) as [mi|] eqn:Hm; [|rewrite callback_unknown in Ecb by auto; discriminate].
    destruct (callback_summary _ _ _ _ _ _ _ _ HF Hm Ecb) as (F & O & P & Q & B & mi' & M' & Hpre & HPD & HnPD).
    split; [exact F|]. split; [exact Hr'|].
    intros j mj Hj. destruct (Z.eq_dec j id) as [->|Hne].
    + rewrite M' in Hj. injection Hj as <-.
      specialize (HM id mi Hm). destruct HM as (H1 & H2 & H3).
      destruct (Z.eq_dec kind PD) as [->|Hk].
      * (* its proving-deadline callback *)
        destruct (HPD eq_refl) as (Hadv & Heff).
        rewrite cnt_cons_same in *. pose proof (cnt_nonneg (id, PD) rest) as Hnn.
        destruct (m_active mi) eqn:Ha.
        2:{ destruct (H1 eq_refl) as [_ Hbad]. lia. }
        destruct (H2 eq_refl Hidcl) as [(a & b & c)|[(a & b)|(a & b & c)]]; try lia.
        assert (Hc0 : cnt (id, PD) rest = 0) by lia.
        destruct Heff as [(Hc & Hact & Hp)|(Hc & Hact & Hp)].
        -- split; [intros Hf; congruence|]. split; [|intros _ Hn; contradiction].
           intros _ _. right. left. split; [exact Hc0|]. intros k. rewrite Hp, b. lia.
        -- split; [|split; intros Hf; congruence].
           intros _. split; [|exact Hc0]. intros k. rewrite Hp. apply b.
      * destruct (HnPD Hk) as ((S1 & S2 & S3 & S4) & Hp).
        apply (mid_miner_record e cl st1 rest acc id mi mi' S1 S3).
        eapply (mid_miner_weaken e cl st st1 (id, kind) rest acc acc id mi); eauto; [congruence|].
        exact (conj H1 (conj H2 H3)).
    + rewrite (O j Hne) in Hj. specialize (HM j mj Hj).
      apply (mid_miner_weaken e cl st st1 (id, kind) rest acc acc j mj);
        [intros k; apply P; exact Hne | intros [= E _]; congruence | auto | exact HM].
  - (* failure: nothing changed, the miner is recorded as failed *)
    split; [exact HF|]. split; [exact Hr'|].
    intros j mj Hj. specialize (HM j mj Hj).
    destruct (Z.eq_dec j id) as [->|Hne]; [destruct (Z.eq_dec kind PD) as [->|Hk]|].
    + destruct HM as (H1 & H2 & H3). rewrite cnt_cons_same in *. pose proof (cnt_nonneg (id, PD) rest) as Hnn.
      split; [intros Ha; destruct (H1 Ha); lia|]. split; [|intros Ha Hn; contradiction].
      intros Ha _. destruct (H2 Ha Hidcl) as [(a & b & c)|[(a & b)|(a & b & c)]]; try lia.
      right. right. split; [lia|]. split; [exact b|]. left. reflexivity.
    + apply (mid_miner_weaken e cl st st (id, kind) rest acc (id :: acc) id mj);
        [reflexivity | intros [= E]; congruence | intros y Hy; right; exact Hy | exact HM].
    + apply (mid_miner_weaken e cl st st (id, kind) rest acc (id :: acc) j mj);
        [reflexivity | intros [= E _]; congruence | intros y Hy; right; exact Hy | exact HM].
Qed.

(* ================= part C ================= *)

Lemma run_cbs_mid : forall e cl evl st cis acc st' failed log,
  Mid e cl st evl acc -> run_cbs st evl cis = (st', failed, log) ->
  exists acc', Mid e cl st' [] acc' /\ (forall x, In x acc' <-> In x acc \/ In x failed).
Proof.
  induction evl as [|[id kind] rest IH]; intros st cis acc st' failed log HM H.
  - cbn in H. injection H as <- <- <-. exists acc. split; [exact HM|]. intros x. cbn. tauto.
  - cbn [run_cbs] in H.
    set (ci := match cis with c :: _ => c | [] => default_ci st id end) in *.
    pose proof (cb_step e cl st id kind rest acc ci HM) as Hstep.
    destruct (callback st id kind ci) as [st1|] eqn:Ecb.
    + destruct (run_cbs st1 rest (tl cis)) as [[st2 failed2] log2] eqn:Er. injection H as <- <- <-.
      destruct (IH _ _ _ _ _ _ Hstep Er) as (acc' & HM' & Hacc). exists acc'. split; auto.
    + destruct (run_cbs st rest (tl cis)) as [[st2 failed2] log2] eqn:Er. injection H as <- <- <-.
      destruct (IH _ _ _ _ _ _ Hstep Er) as (acc' & HM' & Hacc). exists acc'. split; auto.
      intros x. rewrite Hacc. cbn [In]. intuition.
Qed.

(* ---------- collect ---------- *)
Lemma in_due_epochs : forall f e k, In k (due_epochs f e) <-> f <= k <= e.
Proof.
  intros f e k. unfold due_epochs. rewrite in_map_iff. split.
  - intros (i & <- & Hi). apply in_seq in Hi. lia.
  - intros H. exists (Z.to_nat (k - f)). split; [lia|]. apply in_seq. lia.
Qed.

Lemma nodup_due_epochs : forall f e, NoDup (due_epochs f e).
Proof.
  intros. unfold due_epochs. apply FinFun.Injective_map_NoDup; [|apply seq_NoDup].
  intros a b. lia.
Qed.

Lemma collect_queue : forall cl eps q evl q', collect q cl eps = (evl, q') ->
  forall k, evs q' k = if existsb (Z.eqb k) eps then [] else evs q k.
Proof.
  induction eps as [|ep r IH]; intros q evl q' H k; cbn [collect] in H.
  - injection H as <- <-. reflexivity.
  - destruct (collect (delete ep q) cl r) as [more q2] eqn:Er. injection H as <- <-.
    rewrite (IH _ _ _ Er k), evs_delete. cbn [existsb].
    destruct (k =? ep); cbn [orb]; [destruct (existsb _ r); reflexivity|reflexivity].
Qed.

Lemma collect_claims : forall cl eps q evl q', collect q cl eps = (evl, q') ->
  forall id kind, In (id, kind) evl -> id ∈ cl.
Proof.
  induction eps as [|ep r IH]; intros q evl q' H id kind Hin; cbn [collect] in H.
  - injection H as <- <-. destruct Hin.
  - destruct (collect (delete ep q) cl r) as [more q2] eqn:Er. injection H as <- <-.
    apply in_app_iff in Hin as [Hin|Hin]; [|eapply IH; eauto].
    apply filter_In in Hin as [_ Hc]. unfold has_claim in Hc. cbn in Hc. apply bool_decide_eq_true in Hc. exact Hc.
Qed.

Lemma collect_cnt_zero : forall cl x eps q evl q', collect q cl eps = (evl, q') ->
  (forall k, In k eps -> cnt x (evs q k) = 0) -> cnt x evl = 0.
Proof.
  induction eps as [|ep r IH]; intros q evl q' H Hz; cbn [collect] in H.
  - injection H as <- <-. reflexivity.
  - destruct (collect (delete ep q) cl r) as [more q2] eqn:Er. injection H as <- <-.
    rewrite cnt_app, cnt_filter. rewrite (Hz ep) by (left; reflexivity).
    rewrite (IH _ _ _ Er).
    + destruct (has_claim cl x); lia.
    + intros k Hk. rewrite evs_delete. destruct (k =? ep); [reflexivity|]. apply Hz. right. exact Hk.
Qed.

Lemma collect_cnt_one : forall cl x L eps q evl q', collect q cl eps = (evl, q') ->
  NoDup eps -> In L eps -> has_claim cl x = true -> cnt x (evs q L) = 1 ->
  (forall k, k <> L -> cnt x (evs q k) = 0) -> cnt x evl = 1.
Proof.
  induction eps as [|ep r IH]; intros q evl q' H Hnd HL Hc H1 H0; cbn [collect] in H; [destruct HL|].
  destruct (collect (delete ep q) cl r) as [more q2] eqn:Er. injection H as <- <-.
  inversion Hnd as [|? ? Hnin Hnd']; subst.
  rewrite cnt_app, cnt_filter, Hc.
  destruct (Z.eq_dec ep L) as [->|Hne].
  - rewrite H1. rewrite (collect_cnt_zero _ _ _ _ _ _ Er); [lia|].
    intros k Hk. rewrite evs_delete. destruct (Z.eqb_spec k L); [reflexivity|]. apply H0. assumption.
  - rewrite (H0 ep Hne). destruct HL as [->|HL]; [contradiction|].
    rewrite (IH _ _ _ Er Hnd' HL Hc); [lia| |].
    + rewrite evs_delete. destruct (Z.eqb_spec L ep); [congruence|exact H1].
    + intros k Hk. rewrite evs_delete. destruct (k =? ep); [reflexivity|]. apply H0. exact Hk.
Qed.

Lemma existsb_due : forall k f e, existsb (Z.eqb k) (due_epochs f e) = (f <=? k) && (k <=? e).
Proof.
  intros. destruct (existsb (Z.eqb k) (due_epochs f e)) eqn:E.
  - apply existsb_exists in E as (x & Hin & Hx). apply Z.eqb_eq in Hx. subst x. apply in_due_epochs in Hin. symmetry. apply andb_true_iff. split; apply Z.leb_le; lia.
  - symmetry. apply not_true_is_false. intros Hc. apply andb_true_iff in Hc as [H1 H2]. apply Z.leb_le in H1, H2.
    assert (Hin : In k (due_epochs f e)) by (apply in_due_epochs; lia).
    assert (existsb (Z.eqb k) (due_epochs f e) = true) by (apply existsb_exists; exists k; split; [exact Hin|apply Z.eqb_refl]).
    congruence.
Qed.

Lemma collect_mid : forall st evl q',
  Inv st -> collect (queue st) (claims st) (due_epochs (first_cron st) (now st)) = (evl, q') ->
  Mid (now st) (claims st) (with_queue st (now st + 1) q') evl [].
Proof.
  intros st evl q' (Hqd & Hqk & Hck & HI) Hc.
  set (e := now st). set (cl := claims st). set (st1 := with_queue st (e + 1) q').
  assert (Hev : forall k, evs (queue st1) k = if (first_cron st <=? k) && (k <=? e) then [] else evs (queue st) k).
  { intros k. cbn [st1 queue with_queue]. rewrite (collect_queue _ _ _ _ _ Hc k), existsb_due. reflexivity. }
  assert (Hpd : forall id k, pdq st1 id k = if (first_cron st <=? k) && (k <=? e) then 0 else pdq st id k).
  { intros id k. unfold pdq. rewrite Hev. destruct (_ && _); reflexivity. }
  split; [|split].
  - unfold Frame. cbn [st1 now claims first_cron with_queue].
    split; [reflexivity|]. split; [reflexivity|]. split; [reflexivity|]. split; [|split].
    + intros k Hk. change (evs q' k) with (evs (queue st1) k) in Hk. rewrite Hev in Hk.
      destruct (Z.leb_spec (first_cron st) k), (Z.leb_spec k e); cbn [andb] in Hk; try congruence; try lia.
      specialize (Hqd k Hk). lia.
    + intros k id kd Hin. change (evs (queue st1) k) with (evs q' k) in Hin. change (evs q' k) with (evs (queue st1) k) in Hin. rewrite Hev in Hin.
      destruct (_ && _); [destruct Hin|]. eapply Hqk; eauto.
    + exact Hck.
  - eapply collect_claims; eauto.
  - intros id mi Hm. change (miners st1 !! id) with (miners st !! id) in Hm.
    destruct (HI id mi Hm) as (H1 & H2 & H3).
    split; [|split].
    + intros Ha. specialize (H1 Ha). split.
      * intros k. rewrite Hpd. destruct (_ && _); [reflexivity|apply H1].
      * eapply collect_cnt_zero; [exact Hc|]. intros k _. apply H1.
    + intros Ha Hcl. specialize (H2 Ha Hcl). fold e in H2.
      pose proof (dl_bounds (m_pps mi) e) as (_ & _ & Hb & _).
      set (L := dl_last (m_pps mi) e) in *.
      destruct (Z.eq_dec L e) as [HL|HL].
      * left. split; [|split; [|exact HL]].
        -- eapply (collect_cnt_one cl (id, PD) L); [exact Hc| | | | |].
           ++ apply nodup_due_epochs.
           ++ apply in_due_epochs. split; [|lia]. apply Hqd. intros Hnil.
              pose proof (H2 L) as HH. unfold pdq in HH. rewrite Hnil, Z.eqb_refl in HH. cbn in HH. lia.
           ++ unfold has_claim. cbn. apply bool_decide_eq_true. exact Hcl.
           ++ pose proof (H2 L) as HH. rewrite Z.eqb_refl in HH. exact HH.
           ++ intros k Hk. pose proof (H2 k) as HH. destruct (Z.eqb_spec k L); [contradiction|exact HH].
        -- intros k. rewrite Hpd. destruct (Z.leb_spec (first_cron st) k), (Z.leb_spec k e); cbn [andb]; try reflexivity;
             rewrite H2; destruct (Z.eqb_spec k L); try reflexivity; try lia.
           exfalso. assert (Hne : evs (queue st) L <> []).
           { intros Hnil. pose proof (H2 L) as HH. unfold pdq in HH. rewrite Hnil, Z.eqb_refl in HH. cbn in HH. lia. }
           specialize (Hqd L Hne). lia.
      * right. left. destruct (dl_stable (m_pps mi) e HL) as (_ & _ & Hst). fold L in Hst. split.
        -- eapply collect_cnt_zero; [exact Hc|]. intros k Hk. apply in_due_epochs in Hk.
           pose proof (H2 k) as HH. destruct (Z.eqb_spec k L); [lia|exact HH].
        -- intros k. rewrite Hst, Hpd, H2. destruct (Z.leb_spec (first_cron st) k), (Z.leb_spec k e); cbn [andb]; try reflexivity.
           destruct (Z.eqb_spec k L); [lia|reflexivity].
    + intros Ha Hcl. destruct (H3 Ha Hcl) as [E HE]. split.
      * exists E. intros k. rewrite Hpd. destruct (_ && _); [|apply HE]. unfold ind. destruct (_ =? _); lia.
      * destruct (Z.eq_dec (cnt (id, PD) evl) 0) as [|Hnz]; [assumption|]. exfalso.
        pose proof (cnt_nonneg (id, PD) evl). assert (Hin : In (id, PD) evl) by (apply cnt_pos_in; lia).
        apply Hcl. eapply collect_claims; eauto.
Qed.

Lemma delete_claims_fields : forall failed st,
  claims (delete_claims st failed) = claims st ∖ list_to_set failed /\
  now (delete_claims st failed) = now st /\ first_cron (delete_claims st failed) = first_cron st /\
  queue (delete_claims st failed) = queue st /\ miners (delete_claims st failed) = miners st /\
  budget (delete_claims st failed) = budget st.
Proof.
  induction failed as [|id r IH]; intros st; cbn [delete_claims].
  - repeat split. cbn. set_solver.
  - destruct (IH (with_claims st (claims st ∖ {[id]}) (miner_count st - 1))) as (C & N & F & Q & M & B).
    rewrite C, N, F, Q, M, B. cbn. repeat split. set_solver.
Qed.

Definition power_ok (ti : tick_in) : Prop :=
  t_entry_fail ti = false /\ t_reward_fail ti = false /\ t_kpi_fail ti = false.

Lemma epoch_tick_unfold : forall st ti, power_ok ti ->
  epoch_tick st ti =
    (let '(evl, q') := collect (queue st) (claims st) (due_epochs (first_cron st) (now st)) in
     let '(st2, failed, log) := run_cbs (with_queue st (now st + 1) q') evl (t_cbs ti) in
     (delete_claims st2 failed, 0, log)).
Proof.
  intros st ti (H1 & H2 & H3). unfold epoch_tick, cron_entries. cbn [fold_left run_entry].
  rewrite H1. unfold on_epoch_tick_end. rewrite H2, H3.
  destruct (collect _ _ _) as [evl q']. destruct (run_cbs _ _ _) as [[st2 failed] log].
  cbn. rewrite app_nil_r. reflexivity.
Qed.

Lemma tick_inv : forall st ti, power_ok ti -> Inv st -> Inv (fst (fst (step st (Tick ti)))).
Proof.
  intros st ti Hok HI. cbn [step]. rewrite (epoch_tick_unfold _ _ Hok).
  destruct (collect _ _ _) as [evl q'] eqn:Ec.
  destruct (run_cbs _ _ _) as [[st2 failed] log] eqn:Er. cbn [fst].
  pose proof (collect_mid _ _ _ HI Ec) as HM.
  destruct (run_cbs_mid _ _ _ _ _ _ _ _ _ HM Er) as (acc' & ((Hn & Hc & Hf & Hk & Hq & Hcl) & _ & HMm) & Hacc).
  destruct (delete_claims_fields failed st2) as (C & N & F & Q & M & B).
  remember (delete_claims st2 failed) as st3 eqn:Est3. clear Est3.
  assert (Hpdq : forall x id k, pdq (with_now st3 x) id k = pdq st2 id k).
  { intros. unfold pdq. cbn [with_now queue]. rewrite Q. reflexivity. }
  unfold Inv, qdom, qknown, cl_known. cbn [with_now now first_cron queue claims miners]. rewrite ?C, ?N, ?F, ?Q, ?M.
  split; [|split; [|split]].
  - intros k Hne. specialize (Hk k Hne). lia.
  - exact Hq.
  - intros id Hid. apply Hcl. rewrite Hc. set_solver.
  - intros id mi Hm. specialize (HMm id mi Hm). destruct HMm as (H1 & H2 & H3).
    assert (N' : forall x, none_pending st2 id -> none_pending (with_now st3 x) id) by (intros x X k; rewrite Hpdq; apply X).
    assert (X' : forall x L, exactly_at st2 id L -> exactly_at (with_now st3 x) id L) by (intros x L X k; rewrite Hpdq; apply X).
    assert (A' : forall x, at_most_one st2 id -> at_most_one (with_now st3 x) id) by (intros x [E A]; exists E; intros k; rewrite Hpdq; apply A).
    unfold miner_inv. cbn [with_now now claims]. rewrite ?C, ?N, ?Hn, ?Hc.
    split; [|split].
    + intros Ha. apply N'. apply H1. exact Ha.
    + intros Ha Hin. assert (Hcl1 : id ∈ claims st) by set_solver.
      assert (Hnf : ~ In id failed) by (intros Hf'; apply elem_of_difference in Hin as [_ Hn']; apply Hn'; apply elem_of_list_to_set, elem_of_list_In; exact Hf').
      destruct (H2 Ha Hcl1) as [(a & _)|[(a & b)|(a & b & c)]].
      * cbn in a. lia.
      * apply X'. exact b.
      * exfalso. apply Hacc in c as [[]|c]. contradiction.
    + intros Ha Hnin. destruct (decide (id ∈ claims st)) as [Hcl1|Hcl1].
      * destruct (H2 Ha Hcl1) as [(a & _)|[(a & b)|(a & b & c)]].
        -- cbn in a. lia.
        -- apply A'. eapply exactly_at_most; eauto.
        -- apply A'. apply none_at_most; auto.
      * apply A'. apply (H3 Ha Hcl1).
Qed.

(* ---------- the other operations ---------- *)
Lemma miner_inv_ext : forall st st' id mi mi',
  (forall k, pdq st' id k = pdq st id k) -> claims st' = claims st -> now st' = now st ->
  m_pps mi' = m_pps mi -> m_active mi' = m_active mi ->
  miner_inv st id mi -> miner_inv st' id mi'.
Proof.
  intros st st' id mi mi' HP HC HN Hp Ha (H1 & H2 & H3). unfold miner_inv. rewrite HC, HN, Hp, Ha.
  split; [|split].
  - intros A k. rewrite HP. apply H1. exact A.
  - intros A B k. rewrite HP. apply H2; auto.
  - intros A B. destruct (H3 A B) as [E HE]. exists E. intros k. rewrite HP. apply HE.
Qed.

Lemma inv_put_same_sched : forall st id mi mi', Inv st -> miners st !! id = Some mi ->
  m_pps mi' = m_pps mi -> m_active mi' = m_active mi -> Inv (put_miner st id mi').
Proof.
  intros st id mi mi' (Hqd & Hqk & Hck & HI) Hm Hp Ha.
  split; [exact Hqd|]. split; [|split].
  - intros k j kd Hin. specialize (Hqk k j kd Hin). rewrite miners_put. destruct (j =? id); eauto.
  - intros j Hj. specialize (Hck j Hj). rewrite miners_put. destruct (j =? id); eauto.
  - intros j mj. rewrite miners_put. destruct (Z.eqb_spec j id) as [->|Hne]; intros Hj.
    + injection Hj as <-. eapply (miner_inv_ext st); eauto.
    + eapply (miner_inv_ext st); eauto.
Qed.

Lemma inv_enroll_other : forall st id kd ep st', Inv st -> kd <> PD -> is_Some (miners st !! id) ->
  enroll st id kd ep = Some st' -> Inv st'.
Proof.
  intros st id kd ep st' (Hqd & Hqk & Hck & HI) Hkd Hs H.
  pose proof (enroll_fields _ _ _ _ _ H) as (F1 & F2 & F3 & F4 & F5 & F6).
  assert (HP : forall j k, pdq st' j k = pdq st j k).
  { intros j k. rewrite (pdq_enroll _ _ _ _ _ j k H). destruct (Z.eqb_spec kd PD); [contradiction|]. rewrite andb_false_r. cbn. lia. }
  split; [|split; [|split]].
  - intros k. rewrite (evs_enroll _ _ _ _ _ k H), F6. destruct (Z.eqb_spec k ep) as [->|]; [lia|].
    intros Hne. specialize (Hqd k Hne). lia.
  - intros k j kd'. rewrite (evs_enroll _ _ _ _ _ k H), F3. destruct (Z.eqb_spec k ep) as [->|]; eauto.
    rewrite in_app_iff. intros [Hin|[Hin|[]]]; eauto. injection Hin as <- <-. auto.
  - intros j. rewrite F2, F3. apply Hck.
  - intros j mj. rewrite F3. intros Hj. eapply (miner_inv_ext st); eauto.
Qed.

Lemma inv_process_et : forall st id mi0 mi o fe ms st', Inv st -> miners st !! id = Some mi0 ->
  m_pps mi = m_pps mi0 -> m_active mi = m_active mi0 ->
  process_et st id mi o fe ms = Some st' -> Inv st'.
Proof.
  intros st id mi0 mi o fe ms st' HI Hm Hp Ha H. unfold process_et in H.
  set (mi' := set_obl (set_et mi (m_et mi - Z.min (m_et mi) (budget st))) o) in *.
  assert (HI1 : Inv (put_miner st id mi')).
  { eapply inv_put_same_sched; eauto; unfold mi'; destruct o as [[? ?] ?]; cbn; assumption. }
  destruct (_ && ms).
  - destruct fe; [discriminate|]. eapply inv_enroll_other; eauto; [discriminate|].
    rewrite miners_put, Z.eqb_refl. eauto.
  - injection H as <-. exact HI1.
Qed.

Lemma inv_init : forall e0 fc bud, Inv (init e0 fc bud).
Proof.
  intros. split; [|split; [|split]].
  - intros k. cbn. rewrite evs_empty. congruence.
  - intros k id kd. cbn. rewrite evs_empty. intros [].
  - intros id. cbn. set_solver.
  - intros id mi. cbn. rewrite lookup_empty. discriminate.
Qed.

Definition wf_op (o : op) : Prop :=
  match o with
  | Tick ti => power_ok ti
  | Skip _ => False
  | _ => True
  end.

Lemma step_inv : forall st o, wf_op o -> Inv st -> Inv (fst (fst (step st o))).
Proof.
  intros st o Hwf HI. destruct o as [id off l|id ob f|id ob|id n ob f|id ep|ti|n|]; cbn [wf_op] in Hwf.
  - (* CreateMiner *)
    cbn [step]. unfold create_miner. destruct (miners st !! id) as [?|] eqn:Hm; [exact HI|].
    destruct (_ <? _); [exact HI|]. destruct (_ <=? _); [exact HI|]. cbn [fst].
    destruct HI as (Hqd & Hqk & Hck & HI).
    set (mi := {| m_pps := _ |}).
    assert (Hnone : forall k, pdq st id k = 0).
    { intros k. apply cnt_notin. intros Hin. destruct (Hqk k id PD Hin) as [x Hx]. congruence. }
    split; [exact Hqd|]. split; [|split].
    + intros k j kd Hin. specialize (Hqk k j kd Hin). cbn [with_claims miners]. rewrite miners_put. destruct (j =? id); eauto.
    + intros j. cbn [with_claims claims miners]. rewrite miners_put. destruct (Z.eqb_spec j id); [eauto|].
      intros Hj. apply Hck. set_solver.
    + intros j mj. cbn [with_claims miners]. rewrite miners_put. destruct (Z.eqb_spec j id) as [->|Hne]; intros Hj.
      * injection Hj as <-. split; [|split]; cbn; try discriminate. intros _ k. apply Hnone.
      * destruct (HI j mj Hj) as (H1 & H2 & H3). split; [exact H1|]. split.
        -- intros A B. apply H2; auto. cbn in B. set_solver.
        -- intros A B. apply H3; auto. cbn in B. set_solver.
  - (* PreCommit *)
    cbn [step]. unfold pre_commit. destruct (miners st !! id) as [mi|] eqn:Hm; [|exact HI].
    destruct (m_active mi) eqn:Ha.
    + cbn [fst]. eapply inv_put_same_sched; eauto; destruct ob as [[? ?] ?]; cbn; auto.
    + destruct f; [exact HI|].
      destruct (enroll _ _ _ _) as [st2|] eqn:En; [|exact HI]. cbn [fst].
      set (mi1 := set_obl (set_pre mi) ob) in *.
      assert (M1 : m_pps mi1 = m_pps mi /\ m_active mi1 = true) by (unfold mi1; destruct ob as [[? ?] ?]; split; reflexivity).
      destruct M1 as [M1a M1b].
      destruct HI as (Hqd & Hqk & Hck & HI).
      pose proof (enroll_fields _ _ _ _ _ En) as (F1 & F2 & F3 & F4 & F5 & F6).
      cbn [put_miner with_miners now claims first_cron] in F1, F2, F6.
      destruct (HI id mi Hm) as (H1 & _ & _). specialize (H1 Ha).
      split; [|split; [|split]].
      * intros k. rewrite (evs_enroll _ _ _ _ _ k En), F6. destruct (Z.eqb_spec k (dl_last (m_pps mi) (now st))) as [->|]; [lia|].
        intros Hne. specialize (Hqd k Hne). lia.
      * intros k j kd. rewrite (evs_enroll _ _ _ _ _ k En), F3, miners_put.
        destruct (Z.eqb_spec k (dl_last (m_pps mi) (now st))).
        -- rewrite in_app_iff. intros [Hin|[Hin|[]]].
           ++ specialize (Hqk k j kd Hin). destruct (j =? id); eauto.
           ++ injection Hin as <- <-. rewrite Z.eqb_refl. eauto.
        -- intros Hin. specialize (Hqk k j kd Hin). destruct (j =? id); eauto.
      * intros j. rewrite F2, F3, miners_put. intros Hj. specialize (Hck j Hj). destruct (j =? id); eauto.
      * intros j mj. rewrite F3, miners_put. destruct (Z.eqb_spec j id) as [->|Hne]; intros Hj.
        -- injection Hj as <-. unfold miner_inv. rewrite M1a, M1b, F1, F2.
           assert (HP : forall k, pdq st2 id k = ind (k =? dl_last (m_pps mi) (now st))).
           { intros k. rewrite (pdq_enroll _ _ _ _ _ id k En), pdq_put, H1, !Z.eqb_refl, !andb_true_r. lia. }
           split; [discriminate|]. split; [intros _ _; exact HP|]. intros _ _. exists (dl_last (m_pps mi) (now st)). intros k. rewrite HP. lia.
        -- eapply (miner_inv_ext st); eauto. intros k. rewrite (pdq_enroll _ _ _ _ _ j k En), pdq_put.
           destruct (Z.eqb_spec j id); [contradiction|]. rewrite andb_false_r. cbn. lia.
  - (* SetObl *)
    cbn [step]. unfold set_obligations. destruct (miners st !! id) as [mi|] eqn:Hm; [|exact HI]. cbn [fst].
    eapply inv_put_same_sched; eauto; destruct ob as [[? ?] ?]; reflexivity.
  - (* Terminate *)
    cbn [step]. unfold terminate. destruct (miners st !! id) as [mi|] eqn:Hm; [|exact HI].
    destruct (process_et _ _ _ _ _ _) as [st'|] eqn:Ep; [|exact HI]. cbn [fst].
    eapply (inv_process_et (put_miner st id (set_et mi (m_et mi + Z.max 0 n)))); [| | | |exact Ep].
    + eapply inv_put_same_sched; eauto.
    + rewrite miners_put, Z.eqb_refl. reflexivity.
    + reflexivity.
    + reflexivity.
  - (* EnrolET *)
    cbn [step]. unfold enrol_et. destruct (miners st !! id) as [mi|] eqn:Hm; [|exact HI].
    destruct (enroll _ _ _ _) as [st'|] eqn:En; [|exact HI]. cbn [fst].
    eapply (inv_enroll_other st id ET ep st' HI); [discriminate|rewrite Hm; eauto|exact En].
  - apply tick_inv; auto.
  - destruct Hwf.
  - exact HI.
Qed.

Lemma run_app : forall st a b, run st (a ++ b) = run (run st a) b.
Proof. intros. unfold run. apply fold_left_app. Qed.

Lemma run_inv : forall ops st, Forall wf_op ops -> Inv st -> Inv (run st ops).
Proof.
  induction ops as [|o r IH]; intros st Hwf HI; [exact HI|].
  inversion Hwf; subst. cbn [run fold_left]. apply IH; auto. apply step_inv; auto.
Qed.

(* ================= part D ================= *)

(* ---------- fields no callback touches ---------- *)
Lemma process_et_fields : forall st id mi o fe ms st', process_et st id mi o fe ms = Some st' ->
  now st' = now st /\ claims st' = claims st /\ miner_count st' = miner_count st /\ budget st' = budget st.
Proof.
  intros st id mi o fe ms st' H. unfold process_et in H. destruct (_ && ms).
  - destruct fe; [discriminate|]. apply enroll_fields in H as (F1 & F2 & F3 & F4 & F5 & F6). cbn in *. auto.
  - injection H as <-. cbn. auto.
Qed.

Lemma callback_fields : forall st id kind ci st', callback st id kind ci = Some st' ->
  now st' = now st /\ claims st' = claims st /\ miner_count st' = miner_count st /\ budget st' = budget st.
Proof.
  intros st id kind ci st' H. unfold callback in H. destruct (miners st !! id) as [mi|]; [|discriminate].
  destruct (kind =? PD).
  - unfold cb_pd in H. destruct (ci_hard_fail ci); [discriminate|]. destruct (advance mi (now st)) as [pps' dl'].
    match type of H with match ?X with _ => _ end = _ => destruct X as [st2|] eqn:E2; [|discriminate] end.
    assert (F2 : now st2 = now st /\ claims st2 = claims st /\ miner_count st2 = miner_count st /\ budget st2 = budget st).
    { destruct (obl_nz (ci_obl ci)).
      - destruct (f_enroll ci); [discriminate|]. apply enroll_fields in E2 as (F1 & F2 & F3 & F4 & F5 & F6). cbn in *. auto.
      - injection E2 as <-. cbn. auto. }
    destruct F2 as (A1 & A2 & A3 & A4).
    destruct (_ && _).
    + apply process_et_fields in H as (B1 & B2 & B3 & B4). repeat split; congruence.
    + injection H as <-. auto.
  - destruct (kind =? ET).
    + unfold cb_et in H. destruct (ci_hard_fail ci); [discriminate|]. destruct (0 <? m_et mi).
      * apply process_et_fields in H. exact H.
      * injection H as <-. auto.
    + destruct (ci_hard_fail ci); [discriminate|]. injection H as <-. auto.
Qed.

Lemma run_cbs_fields : forall evl st cis st' failed log, run_cbs st evl cis = (st', failed, log) ->
  now st' = now st /\ claims st' = claims st /\ miner_count st' = miner_count st /\ budget st' = budget st.
Proof.
  induction evl as [|[id kind] rest IH]; intros st cis st' failed log H; cbn [run_cbs] in H.
  - injection H as <- <- <-. auto.
  - set (ci := match cis with c :: _ => c | [] => default_ci st id end) in *.
    destruct (callback st id kind ci) as [st1|] eqn:Ecb;
    destruct (run_cbs _ rest (tl cis)) as [[st2 f2] l2] eqn:Er; injection H as <- <- <-;
    apply IH in Er as (A1 & A2 & A3 & A4); auto.
    apply callback_fields in Ecb as (B1 & B2 & B3 & B4). repeat split; congruence.
Qed.

(* the log lists exactly the dispatched events, and `failed` the miners of the failed ones *)
Lemma run_cbs_log : forall evl st cis st' failed log, run_cbs st evl cis = (st', failed, log) ->
  map (fun x => fst x) log = evl /\
  (forall id, In id failed <-> exists kind, In (id, kind, 1) log) /\
  (forall id kind f, In (id, kind, f) log -> f = 0 \/ f = 1).
Proof.
  induction evl as [|[id kind] rest IH]; intros st cis st' failed log H; cbn [run_cbs] in H.
  - injection H as <- <- <-. split; [reflexivity|]. split; [|intros ? ? ? []]. intros id. split; [intros []|intros [? []]].
  - set (ci := match cis with c :: _ => c | [] => default_ci st id end) in *.
    destruct (callback st id kind ci) as [st1|] eqn:Ecb;
    destruct (run_cbs _ rest (tl cis)) as [[st2 f2] l2] eqn:Er; injection H as <- <- <-;
    destruct (IH _ _ _ _ _ Er) as (L1 & L2 & L3); cbn [map fst negb b2z].
    + split; [rewrite L1; reflexivity|]. split.
      * intros j. rewrite L2. split; intros [kd Hk]; exists kd; [right; exact Hk|].
        destruct Hk as [Hk|Hk]; [discriminate|exact Hk].
      * intros j kd f [Hk|Hk]; [injection Hk as <- <- <-; auto|eauto].
    + split; [rewrite L1; reflexivity|]. split.
      * intros j. cbn [In]. rewrite L2. split.
        -- intros [->|[kd Hk]]; [exists kind; left; reflexivity|exists kd; right; exact Hk].
        -- intros [kd [Hk|Hk]]; [injection Hk as <- _; left; reflexivity|right; exists kd; exact Hk].
      * intros j kd f [Hk|Hk]; [injection Hk as <- <- <-; auto|eauto].
Qed.

Lemma delete_claims_sub : forall failed st id, id ∈ claims st -> ~ In id failed -> id ∈ claims (delete_claims st failed).
Proof.
  intros failed st id Hin Hn. destruct (delete_claims_fields failed st) as (C & _). rewrite C.
  apply elem_of_difference. split; [exact Hin|]. intros Hc. apply Hn. apply elem_of_list_In. apply elem_of_list_to_set in Hc. exact Hc.
Qed.

Lemma on_epoch_tick_end_claims : forall st ti st' log id, on_epoch_tick_end st ti = (st', log) ->
  id ∈ claims st -> id ∉ claims st' -> exists kind, In (id, kind, 1) log.
Proof.
  intros st ti st' log id H Hin Hout. unfold on_epoch_tick_end in H.
  destruct (t_reward_fail ti); [injection H as <- <-; contradiction|].
  destruct (collect _ _ _) as [evl q'].
  destruct (run_cbs _ _ _) as [[st2 failed] lg] eqn:Er.
  destruct (t_kpi_fail ti); injection H as <- <-; [contradiction|].
  apply run_cbs_fields in Er as Hf. destruct Hf as (_ & Hc & _).
  destruct (run_cbs_log _ _ _ _ _ _ Er) as (_ & L2 & _). apply L2.
  destruct (in_dec Z.eq_dec id failed) as [|Hn]; [assumption|]. exfalso. apply Hout.
  apply delete_claims_sub; auto. rewrite Hc. exact Hin.
Qed.

Lemma epoch_tick_code : forall st ti, snd (fst (epoch_tick st ti)) = 0.
Proof. intros. unfold epoch_tick. destruct (fold_left _ _ _). reflexivity. Qed.

Lemma epoch_tick_as_power : forall st ti,
  epoch_tick st ti = (if t_entry_fail ti then (st, 0, []) else let '(s, lg) := on_epoch_tick_end st ti in (s, 0, lg)).
Proof.
  intros. unfold epoch_tick, cron_entries. cbn [fold_left run_entry]. destruct (t_entry_fail ti); [reflexivity|].
  destruct (on_epoch_tick_end st ti) as [s lg]. cbn. rewrite app_nil_r. reflexivity.
Qed.

Lemma claims_deleted_only_on_failed_callback : forall st o id,
  id ∈ claims st -> id ∉ claims (fst (fst (step st o))) ->
  exists ti kind, o = Tick ti /\ In (id, kind, 1) (snd (step st o)).
Proof.
  intros st o id Hin Hout. destruct o as [i off l|i ob f|i ob|i n ob f|i ep|ti|n|]; cbn [step] in *.
  - exfalso. apply Hout. unfold create_miner. destruct (miners st !! i); [exact Hin|].
    destruct (_ <? _); [exact Hin|]. destruct (_ <=? _); [exact Hin|]. cbn. set_solver.
  - exfalso. apply Hout. unfold pre_commit. destruct (miners st !! i) as [mi|]; [|exact Hin].
    destruct (m_active mi); [exact Hin|]. destruct f; [exact Hin|].
    destruct (enroll _ _ _ _) eqn:En; [|exact Hin]. apply enroll_fields in En as (_ & F2 & _). cbn [fst]. rewrite F2. exact Hin.
  - exfalso. apply Hout. unfold set_obligations. destruct (miners st !! i); exact Hin.
  - exfalso. apply Hout. unfold terminate. destruct (miners st !! i) as [mi|]; [|exact Hin].
    destruct (process_et _ _ _ _ _ _) eqn:Ep; [|exact Hin]. apply process_et_fields in Ep as (_ & F2 & _). cbn [fst]. rewrite F2. exact Hin.
  - exfalso. apply Hout. unfold enrol_et. destruct (miners st !! i); [|exact Hin].
    destruct (enroll _ _ _ _) eqn:En; [|exact Hin]. apply enroll_fields in En as (_ & F2 & _). cbn [fst]. rewrite F2. exact Hin.
  - exists ti. rewrite epoch_tick_as_power in *. destruct (t_entry_fail ti); [cbn in Hout; contradiction|].
    destruct (on_epoch_tick_end st ti) as [s lg] eqn:Eo. cbn [fst snd with_now claims] in *.
    destruct (on_epoch_tick_end_claims _ _ _ _ id Eo Hin Hout) as [kind Hk]. exists kind. split; [reflexivity|exact Hk].
  - contradiction.
  - contradiction.
Qed.

(* ---------- the callback fails only through its failure inputs ---------- *)
Lemma callback_total_partial : forall st id kind ci,
  is_Some (miners st !! id) -> 0 <= now st -> ci_hard_fail ci = false -> f_enroll ci = false ->
  is_Some (callback st id kind ci).
Proof.
  intros st id kind ci [mi Hm] Hn Hh He. unfold callback. rewrite Hm.
  assert (PE : forall s i m o ms, now s = now st -> is_Some (process_et s i m o (f_enroll ci) ms)).
  { intros s i m o ms Hs. unfold process_et. rewrite He. destruct (_ && ms); [|eauto]. apply enroll_is_Some. cbn. lia. }
  destruct (kind =? PD).
  - unfold cb_pd. rewrite Hh, He. destruct (advance mi (now st)) as [pps' dl'].
    destruct (obl_nz (ci_obl ci)).
    + pose proof (dl_bounds pps' (now st + 1)) as (_ & _ & Hb & _).
      destruct (enroll_is_Some (put_miner st id (set_obl (set_et (set_sched mi pps' dl' (m_active mi)) (m_et mi + Z.max 0 (ci_new_et ci))) (ci_obl ci))) id PD (dl_last pps' (now st + 1)) ltac:(lia)) as [st2 E2].
      rewrite E2. destruct (_ && _); [|eauto]. rewrite <- He. apply PE. apply enroll_fields in E2 as (F1 & _). rewrite F1. reflexivity.
    + destruct (_ && _); [|eauto]. rewrite <- He. apply PE. reflexivity.
  - destruct (kind =? ET).
    + unfold cb_et. rewrite Hh. destruct (0 <? m_et mi); [|eauto]. apply PE. reflexivity.
    + rewrite Hh. eauto.
Qed.

Lemma callback_hard_fail : forall st id kind ci, ci_hard_fail ci = true -> callback st id kind ci = None.
Proof.
  intros st id kind ci H. unfold callback. destruct (miners st !! id) as [mi|]; [|reflexivity].
  unfold cb_pd, cb_et. rewrite H. destruct (kind =? PD); [reflexivity|]. destruct (kind =? ET); reflexivity.
Qed.

(* ---------- early terminations drain ---------- *)
Lemma et_callback_drains : forall st id ci st' mi,
  miners st !! id = Some mi -> 0 < budget st -> 0 < m_et mi ->
  callback st id ET ci = Some st' ->
  exists mi', miners st' !! id = Some mi' /\
    m_et mi' = m_et mi - Z.min (m_et mi) (budget st) /\ 0 <= m_et mi' < m_et mi /\
    (0 < m_et mi' -> In (id, ET) (evs (queue st') (now st + 1))).
Proof.
  intros st id ci st' mi Hm Hb He H. unfold callback in H. rewrite Hm in H.
  change (ET =? PD) with false in H. rewrite Z.eqb_refl in H. unfold cb_et in H.
  destruct (ci_hard_fail ci); [discriminate|]. destruct (Z.ltb_spec 0 (m_et mi)); [|lia].
  unfold process_et in H. set (et' := m_et mi - Z.min (m_et mi) (budget st)) in *.
  destruct (Z.ltb_spec 0 et'); cbn [andb] in H.
  - destruct (f_enroll ci); [discriminate|].
    pose proof (enroll_fields _ _ _ _ _ H) as (F1 & F2 & F3 & F4 & F5 & F6).
    eexists. split; [rewrite F3, miners_put, Z.eqb_refl; reflexivity|].
    destruct (ci_obl ci) as [[? ?] ?]. cbn [m_et set_obl set_et]. fold et'. split; [reflexivity|]. split; [lia|].
    intros _. rewrite (evs_enroll _ _ _ _ _ (now st + 1) H), Z.eqb_refl. apply in_app_iff. right. left. reflexivity.
  - injection H as <-. eexists. split; [rewrite miners_put, Z.eqb_refl; reflexivity|].
    destruct (ci_obl ci) as [[? ?] ?]. cbn [m_et set_obl set_et]. fold et'. split; [reflexivity|]. split; [lia|]. lia.
Qed.

(* ================= part E ================= *)

Lemma advance_same : forall mi mi' e, m_pps mi' = m_pps mi -> m_dl mi' = m_dl mi -> advance mi' e = advance mi e.
Proof. intros mi mi' e H1 H2. unfold advance. rewrite H1, H2. reflexivity. Qed.

Lemma sched_same_refl : forall mi, sched_same mi mi.
Proof. intros. repeat split. Qed.
Lemma sched_same_trans : forall a b c, sched_same a b -> sched_same b c -> sched_same a c.
Proof. intros a b c (A1 & A2 & A3 & A4) (B1 & B2 & B3 & B4). repeat split; congruence. Qed.

(* how the schedule fields of one miner evolve through the callback loop *)
Lemma run_cbs_sched : forall e cl id evl st cis acc st' failed log mi,
  Mid e cl st evl acc -> run_cbs st evl cis = (st', failed, log) -> miners st !! id = Some mi ->
  exists mi', miners st' !! id = Some mi' /\
    (cnt (id, PD) evl = 0 -> sched_same mi mi') /\
    (cnt (id, PD) evl = 1 ->
       In id failed \/ ((m_pps mi', m_dl mi') = advance mi e /\ m_pre mi' = m_pre mi /\ In (id, PD, 0) log)).
Proof.
  intros e cl id. induction evl as [|[j kind] rest IH]; intros st cis acc st' failed log mi HM H Hm.
  - cbn in H. injection H as <- <- <-. exists mi. split; [exact Hm|]. split; [intros; apply sched_same_refl|cbn; lia].
  - cbn [run_cbs] in H.
    set (ci := match cis with c :: _ => c | [] => default_ci st j end) in *.
    pose proof (cb_step e cl st j kind rest acc ci HM) as Hstep.
    pose proof (cnt_nonneg (id, PD) rest) as Hnn.
    destruct (callback st j kind ci) as [st1|] eqn:Ecb.
    + destruct (run_cbs st1 rest (tl cis)) as [[st2 failed2] log2] eqn:Er. injection H as <- <- <-.
      destruct (miners st !! j) as [mj|] eqn:Hmj; [|rewrite callback_unknown in Ecb by auto; discriminate].
      destruct HM as (HF & _ & _).
      destruct (callback_summary _ _ _ _ _ _ _ _ HF Hmj Ecb) as (F & O & P & Q & B & mj' & M' & Hpre & HPD & HnPD).
      destruct (Z.eq_dec j id) as [->|Hne].
      * rewrite Hm in Hmj. injection Hmj as <-.
        destruct (IH _ _ _ _ _ _ mj' Hstep Er M') as (mi' & Hmi' & I0 & I1). exists mi'. split; [exact Hmi'|].
        destruct (Z.eq_dec kind PD) as [->|Hk].
        -- rewrite cnt_cons_same. split; [lia|]. intros Hc. assert (Hc0 : cnt (id, PD) rest = 0) by lia.
           right. destruct (HPD eq_refl) as (Hadv & _). destruct (I0 Hc0) as (S1 & S2 & S3 & S4).
           split; [congruence|]. split; [congruence|]. left. reflexivity.
        -- rewrite cnt_cons_other by congruence. destruct (HnPD Hk) as (SS & _).
           split.
           ++ intros Hc. eapply sched_same_trans; eauto.
           ++ intros Hc. destruct (I1 Hc) as [Hf|(Ha & Hp & Hl)]; [left; exact Hf|right].
              destruct SS as (S1 & S2 & S3 & S4).
              split; [rewrite Ha; apply advance_same; auto|]. split; [congruence|right; exact Hl].
      * assert (Hm1 : miners st1 !! id = Some mi) by (rewrite (O id) by congruence; exact Hm).
        destruct (IH _ _ _ _ _ _ mi Hstep Er Hm1) as (mi' & Hmi' & I0 & I1). exists mi'. split; [exact Hmi'|].
        rewrite cnt_cons_other by congruence. split; [exact I0|].
        intros Hc. destruct (I1 Hc) as [Hf|(Ha & Hp & Hl)]; [left; exact Hf|right]. split; [exact Ha|]. split; [exact Hp|right; exact Hl].
    + destruct (run_cbs st rest (tl cis)) as [[st2 failed2] log2] eqn:Er. injection H as <- <- <-.
      destruct (IH _ _ _ _ _ _ mi Hstep Er Hm) as (mi' & Hmi' & I0 & I1). exists mi'. split; [exact Hmi'|].
      destruct (Z.eq_dec j id) as [->|Hne]; [destruct (Z.eq_dec kind PD) as [->|Hk]|].
      * rewrite cnt_cons_same. split; [lia|]. intros _. left. left. reflexivity.
      * rewrite cnt_cons_other by congruence. split; [exact I0|].
        intros Hc. destruct (I1 Hc) as [Hf|(Ha & Hp & Hl)]; [left; right; exact Hf|right]. split; [exact Ha|]. split; [exact Hp|right; exact Hl].
      * rewrite cnt_cons_other by congruence. split; [exact I0|].
        intros Hc. destruct (I1 Hc) as [Hf|(Ha & Hp & Hl)]; [left; right; exact Hf|right]. split; [exact Ha|]. split; [exact Hp|right; exact Hl].
Qed.

(* one tick, seen from one active miner with a claim *)
Lemma tick_sched : forall st ti id mi,
  Inv st -> power_ok ti -> miners st !! id = Some mi -> m_active mi = true -> id ∈ claims st ->
  let st' := fst (fst (step st (Tick ti))) in
  let log := snd (step st (Tick ti)) in
  exists mi', miners st' !! id = Some mi' /\ now st' = now st + 1 /\
    (dl_last (m_pps mi) (now st) <> now st -> sched_same mi mi') /\
    (dl_last (m_pps mi) (now st) = now st ->
       (id ∉ claims st' /\ exists kind, In (id, kind, 1) log) \/
       ((m_pps mi', m_dl mi') = advance mi (now st) /\ m_pre mi' = m_pre mi /\ In (id, PD, 0) log)).
Proof.
  intros st ti id mi HI Hok Hm Ha Hcl. cbv zeta. cbn [step]. rewrite (epoch_tick_unfold _ _ Hok).
  destruct (collect _ _ _) as [evl q'] eqn:Ec.
  destruct (run_cbs _ _ _) as [[st2 failed] log] eqn:Er. cbn [fst snd].
  pose proof (collect_mid _ _ _ HI Ec) as HM.
  set (e := now st) in *. set (st1 := with_queue st (e + 1) q') in *.
  assert (Hm1 : miners st1 !! id = Some mi) by exact Hm.
  destruct (run_cbs_sched _ _ id _ _ _ _ _ _ _ mi HM Er Hm1) as (mi' & Hmi' & I0 & I1).
  destruct (delete_claims_fields failed st2) as (C & N & F & Q & M & B).
  destruct (run_cbs_fields _ _ _ _ _ _ Er) as (R1 & R2 & _).
  destruct (run_cbs_log _ _ _ _ _ _ Er) as (_ & L2 & _).
  exists mi'. cbn [with_now miners now claims]. rewrite M, N, R1, C, R2. cbn [st1 with_queue now claims].
  split; [exact Hmi'|]. split; [reflexivity|].
  (* how many proving-deadline events of this miner were due *)
  destruct HI as (Hqd & Hqk & Hck & HIm). destruct (HIm id mi Hm) as (_ & H2 & _). specialize (H2 Ha Hcl). fold e in H2.
  set (L := dl_last (m_pps mi) e) in *.
  assert (Hcnt : cnt (id, PD) evl = if L =? e then 1 else 0).
  { pose proof (dl_bounds (m_pps mi) e) as (_ & _ & Hb & _). fold L in Hb.
    destruct (Z.eqb_spec L e) as [HL|HL].
    - eapply (collect_cnt_one (claims st) (id, PD) L); [exact Ec| | | | |].
      + apply nodup_due_epochs.
      + apply in_due_epochs. split; [|lia]. apply Hqd. intros Hnil.
        pose proof (H2 L) as HH. unfold pdq in HH. rewrite Hnil, Z.eqb_refl in HH. cbn in HH. lia.
      + unfold has_claim. cbn. apply bool_decide_eq_true. exact Hcl.
      + pose proof (H2 L) as HH. rewrite Z.eqb_refl in HH. exact HH.
      + intros k Hk. pose proof (H2 k) as HH. destruct (Z.eqb_spec k L); [contradiction|exact HH].
    - eapply collect_cnt_zero; [exact Ec|]. intros k Hk. apply in_due_epochs in Hk.
      pose proof (H2 k) as HH. destruct (Z.eqb_spec k L); [lia|exact HH]. }
  split.
  - intros HL. destruct (Z.eqb_spec L e); [contradiction|]. apply I0; exact Hcnt.
  - intros HL. destruct (Z.eqb_spec L e); [|contradiction]. destruct (I1 Hcnt) as [Hf|Hs].
    + left. split; [|apply L2; exact Hf]. intros Hc. apply elem_of_difference in Hc as [_ Hc]. apply Hc.
      apply elem_of_list_to_set, elem_of_list_In. exact Hf.
    + right. exact Hs.
Qed.

Lemma advance_spec : forall mi e pps' dl', dl_last (m_pps mi) e = e -> advance mi e = (pps', dl') ->
  dl' = dl_index pps' (e + 1) /\ (exists k, pps' = m_pps mi + 2880 * k) /\
  (m_pps mi = dl_period_start (m_pps mi) e \/ dl_index (m_pps mi) e = 47 -> pps' = dl_period_start pps' (e + 1)).
Proof.
  intros mi e pps' dl' HL H. unfold advance in H.
  pose proof (dl_bounds (m_pps mi) e) as (B1 & B2 & B3 & B4).
  destruct (Z.ltb_spec e (dl_period_start (m_pps mi) e)); [lia|].
  destruct (dl_next (m_pps mi) e HL) as (N1 & N2 & N3).
  unfold NDL, WPOST_PERIOD_DEADLINES, PERIOD, WPOST_PROVING_PERIOD in H. injection H as <- <-.
  assert (Hk : exists k, dl_period_start (m_pps mi) e = m_pps mi + 2880 * k) by (exists ((e - m_pps mi) / 2880); apply dl_ps_closed).
  destruct Hk as [k Hk].
  destruct (Z.eqb_spec (Z.rem (dl_index (m_pps mi) e + 1) 48) 0) as [Hz|Hz].
  - assert (H47 : dl_index (m_pps mi) e = 47) by (Z.to_euclidean_division_equations; lia).
    destruct (dl_shift (m_pps mi) (k + 1) (e + 1)) as (S1 & S2 & S3).
    replace (dl_period_start (m_pps mi) e + 2880) with (m_pps mi + 2880 * (k + 1)) by lia.
    rewrite S1, S2, N2, N3. split; [reflexivity|]. split; [exists (k + 1); reflexivity|]. intros _. lia.
  - rewrite N2. split; [reflexivity|]. split; [exists 0; lia|].
    intros [Hp|H47]; [|rewrite H47 in Hz; contradiction]. rewrite N3. exact Hp.
Qed.

Definition recorded (mi : miner) (e : Z) : Prop :=
  m_pps mi = dl_period_start (m_pps mi) e /\ m_dl mi = dl_index (m_pps mi) e.

Lemma recorded_ok_iff : forall mi e, recorded_ok mi e = true <-> recorded mi e.
Proof. intros. unfold recorded_ok, recorded. rewrite andb_true_iff, !Z.eqb_eq. tauto. Qed.

(* after the tick that ran a miner's proving-deadline callback (on time), the recorded deadline INDEX is the
   one containing the next epoch, the recorded period start is congruent to the true one, and it is exact
   when it was exact before or the period wrapped *)
Lemma deadline_recorded_after_tick : forall st ti id mi,
  Inv st -> power_ok ti -> miners st !! id = Some mi -> m_active mi = true -> id ∈ claims st ->
  dl_last (m_pps mi) (now st) = now st ->
  let st' := fst (fst (step st (Tick ti))) in
  id ∈ claims st' ->
  exists mi', miners st' !! id = Some mi' /\ now st' = now st + 1 /\
    m_dl mi' = dl_index (m_pps mi') (now st') /\
    (exists k, m_pps mi' = m_pps mi + 2880 * k) /\
    (m_pps mi = dl_period_start (m_pps mi) (now st) \/ dl_index (m_pps mi) (now st) = 47 ->
       m_pps mi' = dl_period_start (m_pps mi') (now st')).
Proof.
  intros st ti id mi HI Hok Hm Ha Hcl HL st' Hcl'.
  destruct (tick_sched st ti id mi HI Hok Hm Ha Hcl) as (mi' & Hmi' & Hn & _ & H1).
  exists mi'. fold st' in Hmi', Hn, H1. split; [exact Hmi'|]. split; [exact Hn|]. rewrite Hn.
  destruct (H1 HL) as [(Hbad & _)|(Hadv & _)]; [contradiction|].
  symmetry in Hadv. exact (advance_spec _ _ _ _ HL Hadv).
Qed.

(* operations other than the tick never touch the recorded pair *)
Lemma step_keeps_recorded_pair : forall st o id mi, (forall ti, o <> Tick ti) ->
  miners st !! id = Some mi ->
  exists mi', miners (fst (fst (step st o))) !! id = Some mi' /\ m_pps mi' = m_pps mi /\ m_dl mi' = m_dl mi.
Proof.
  intros st o id mi Hnt Hm.
  assert (Same : exists mi', miners st !! id = Some mi' /\ m_pps mi' = m_pps mi /\ m_dl mi' = m_dl mi) by (exists mi; auto).
  assert (Put : forall s j mj', (j = id -> m_pps mj' = m_pps mi /\ m_dl mj' = m_dl mi) -> miners s !! id = Some mi ->
            exists mi', miners (put_miner s j mj') !! id = Some mi' /\ m_pps mi' = m_pps mi /\ m_dl mi' = m_dl mi).
  { intros s j mj' Hj Hs. rewrite miners_put. destruct (Z.eqb_spec id j) as [->|]; [exists mj'; destruct (Hj eq_refl); auto|exists mi; auto]. }
  destruct o as [i off l|i ob f|i ob|i n ob f|i ep|ti|n|]; cbn [step].
  - unfold create_miner. destruct (miners st !! i) eqn:Hi; [exact Same|]. destruct (_ <? _); [exact Same|]. destruct (_ <=? _); [exact Same|].
    cbn [fst with_claims miners]. apply Put; auto. intros ->. congruence.
  - unfold pre_commit. destruct (miners st !! i) as [mj|] eqn:Hi; [|exact Same].
    assert (P1 : exists mi', miners (put_miner st i (set_obl (set_pre mj) ob)) !! id = Some mi' /\ m_pps mi' = m_pps mi /\ m_dl mi' = m_dl mi).
    { apply Put; auto. intros ->. rewrite Hm in Hi. injection Hi as <-. destruct ob as [[? ?] ?]. split; reflexivity. }
    destruct (m_active mj); [exact P1|]. destruct f; [exact Same|].
    destruct (enroll _ _ _ _) eqn:En; [|exact Same]. apply enroll_fields in En as (_ & _ & F3 & _). cbn [fst]. rewrite F3. exact P1.
  - unfold set_obligations. destruct (miners st !! i) as [mj|] eqn:Hi; [|exact Same]. cbn [fst]. apply Put; auto.
    intros ->. rewrite Hm in Hi. injection Hi as <-. destruct ob as [[? ?] ?]. split; reflexivity.
  - unfold terminate. destruct (miners st !! i) as [mj|] eqn:Hi; [|exact Same].
    destruct (process_et _ _ _ _ _ _) as [s'|] eqn:Ep; [|exact Same]. cbn [fst]. unfold process_et in Ep.
    match type of Ep with (if _ then _ else Some (put_miner ?s ?j ?m)) = _ =>
      assert (P1 : exists mi', miners (put_miner s j m) !! id = Some mi' /\ m_pps mi' = m_pps mi /\ m_dl mi' = m_dl mi) end.
    { rewrite miners_put. destruct (Z.eqb_spec id i) as [->|Hne].
      - eexists. split; [reflexivity|]. rewrite Hm in Hi. injection Hi as <-. destruct ob as [[? ?] ?]. split; reflexivity.
      - rewrite miners_put. destruct (Z.eqb_spec id i); [contradiction|]. exists mi. auto. }
    destruct (_ && _).
    + destruct f; [discriminate|]. apply enroll_fields in Ep as (_ & _ & F3 & _). rewrite F3. exact P1.
    + injection Ep as <-. exact P1.
  - unfold enrol_et. destruct (miners st !! i); [|exact Same]. destruct (enroll _ _ _ _) eqn:En; [|exact Same].
    apply enroll_fields in En as (_ & _ & F3 & _). cbn [fst]. rewrite F3. exact Same.
  - exfalso. eapply Hnt. reflexivity.
  - exact Same.
  - exact Same.
Qed.

Lemma step_now : forall st o, wf_op o -> (forall ti, o <> Tick ti) -> now (fst (fst (step st o))) = now st.
Proof.
  intros st o Hwf Hnt. destruct o as [i off l|i ob f|i ob|i n ob f|i ep|ti|n|]; cbn [step wf_op] in *.
  - unfold create_miner. destruct (miners st !! i); [reflexivity|]. destruct (_ <? _); [reflexivity|]. destruct (_ <=? _); reflexivity.
  - unfold pre_commit. destruct (miners st !! i) as [mj|]; [|reflexivity]. destruct (m_active mj); [reflexivity|]. destruct f; [reflexivity|].
    destruct (enroll _ _ _ _) eqn:En; [|reflexivity]. apply enroll_fields in En as (F1 & _). exact F1.
  - unfold set_obligations. destruct (miners st !! i); reflexivity.
  - unfold terminate. destruct (miners st !! i); [|reflexivity]. destruct (process_et _ _ _ _ _ _) eqn:Ep; [|reflexivity].
    apply process_et_fields in Ep as (F1 & _). exact F1.
  - unfold enrol_et. destruct (miners st !! i); [|reflexivity]. destruct (enroll _ _ _ _) eqn:En; [|reflexivity].
    apply enroll_fields in En as (F1 & _). exact F1.
  - exfalso. eapply Hnt. reflexivity.
  - destruct Hwf.
  - reflexivity.
Qed.

(* once the recorded pair of an active miner is the current deadline it stays so while the miner keeps its
   claim and its cron *)
Lemma recorded_stable : forall st o id mi mi',
  Inv st -> wf_op o -> miners st !! id = Some mi -> m_active mi = true -> id ∈ claims st ->
  recorded mi (now st) ->
  let st' := fst (fst (step st o)) in
  miners st' !! id = Some mi' -> id ∈ claims st' -> recorded mi' (now st').
Proof.
  intros st o id mi mi' HI Hwf Hm Ha Hcl [R1 R2] st' Hm' Hcl'.
  assert (NT : (forall ti, o <> Tick ti) -> recorded mi' (now st')).
  { intros Hnt. destruct (step_keeps_recorded_pair st o id mi Hnt Hm) as (m2 & Hm2 & P1 & P2).
    fold st' in Hm2. rewrite Hm' in Hm2. injection Hm2 as <-.
    unfold recorded, st'. rewrite (step_now st o Hwf Hnt), P1, P2. auto. }
  destruct o as [i off l|i ob f|i ob|i n ob f|i ep|ti|n|]; try (apply NT; intros ti'; discriminate).
  cbn [wf_op] in Hwf.
  destruct (tick_sched st ti id mi HI Hwf Hm Ha Hcl) as (m2 & Hm2 & Hn & H0 & H1).
  fold st' in Hm2, Hn. rewrite Hm' in Hm2. injection Hm2 as <-. rewrite Hn.
  destruct (Z.eq_dec (dl_last (m_pps mi) (now st)) (now st)) as [HL|HL].
  - destruct (H1 HL) as [(Hbad & _)|(Hadv & _)]; [contradiction|].
    symmetry in Hadv. destruct (advance_spec _ _ _ _ HL Hadv) as (A1 & _ & A3). split; [apply A3; left; exact R1|exact A1].
  - destruct (H0 HL) as (S1 & S2 & _). destruct (dl_stable (m_pps mi) (now st) HL) as (D1 & D2 & _).
    unfold recorded. rewrite S1, S2, D1, D2. auto.
Qed.

(* ================= part F ================= *)

(* ---------- no event lost ---------- *)
Lemma flat_map_ext_in_Z : forall (A B : Type) (f g : A -> list B) l,
  (forall x, In x l -> f x = g x) -> flat_map f l = flat_map g l.
Proof. induction l as [|a r IH]; intros H; cbn; [reflexivity|]. rewrite H by (left; reflexivity). f_equal. apply IH. intros x Hx. apply H. right. exact Hx. Qed.
Lemma collect_evl : forall cl eps q, NoDup eps ->
  fst (collect q cl eps) = flat_map (fun k => List.filter (has_claim cl) (evs q k)) eps.
Proof.
  induction eps as [|ep r IH]; intros q Hnd; cbn [collect flat_map]; [reflexivity|].
  inversion Hnd as [|? ? Hnin Hnd']; subst.
  destruct (collect (delete ep q) cl r) as [more q2] eqn:Er. cbn [fst]. f_equal.
  change more with (fst (more, q2)). rewrite <- Er, (IH _ Hnd').
  apply flat_map_ext_in_Z. intros k Hk. rewrite evs_delete. destruct (Z.eqb_spec k ep) as [->|]; [contradiction|reflexivity].
Qed.


Lemma run_cbs_qext : forall e cl evl st cis acc st' failed log,
  Mid e cl st evl acc -> run_cbs st evl cis = (st', failed, log) -> qext st st'.
Proof.
  intros e cl. induction evl as [|[j kind] rest IH]; intros st cis acc st' failed log HM H.
  - cbn in H. injection H as <- <- <-. apply qext_refl.
  - cbn [run_cbs] in H.
    set (ci := match cis with c :: _ => c | [] => default_ci st j end) in *.
    pose proof (cb_step e cl st j kind rest acc ci HM) as Hstep.
    destruct (callback st j kind ci) as [st1|] eqn:Ecb.
    + destruct (run_cbs st1 rest (tl cis)) as [[st2 failed2] log2] eqn:Er. injection H as <- <- <-.
      destruct (miners st !! j) as [mj|] eqn:Hmj; [|rewrite callback_unknown in Ecb by auto; discriminate].
      destruct HM as (HF & _ & _).
      destruct (callback_summary _ _ _ _ _ _ _ _ HF Hmj Ecb) as (_ & _ & _ & Q & _).
      eapply qext_trans; [exact Q|]. eapply IH; eauto.
    + destruct (run_cbs st rest (tl cis)) as [[st2 failed2] log2] eqn:Er. injection H as <- <- <-.
      eapply IH; eauto.
Qed.

Lemma no_event_lost : forall st ti, Inv st -> power_ok ti ->
  let st' := fst (fst (step st (Tick ti))) in
  let log := snd (step st (Tick ti)) in
  map (fun x => fst x) log =
    flat_map (fun k => List.filter (has_claim (claims st)) (evs (queue st) k)) (due_epochs (first_cron st) (now st)) /\
  (forall k, evs (queue st) k <> [] -> first_cron st <= k) /\
  (forall k, k <= now st -> evs (queue st') k = []) /\
  (forall k, now st < k -> exists l, evs (queue st') k = evs (queue st) k ++ l) /\
  first_cron st' = now st + 1 /\ now st' = now st + 1.
Proof.
  intros st ti HI Hok. cbv zeta. cbn [step]. rewrite (epoch_tick_unfold _ _ Hok).
  pose proof (collect_evl (claims st) (due_epochs (first_cron st) (now st)) (queue st) (nodup_due_epochs _ _)) as Hevl.
  destruct (collect _ _ _) as [evl q'] eqn:Ec. cbn [fst] in Hevl.
  destruct (run_cbs _ _ _) as [[st2 failed] log] eqn:Er. cbn [fst snd].
  pose proof (collect_mid _ _ _ HI Ec) as HM.
  destruct (run_cbs_mid _ _ _ _ _ _ _ _ _ HM Er) as (acc' & ((Hn & Hc & Hf & Hk & Hq & Hcl) & _ & _) & _).
  pose proof (run_cbs_qext _ _ _ _ _ _ _ _ _ HM Er) as Q.
  destruct (run_cbs_log _ _ _ _ _ _ Er) as (L1 & _ & _).
  destruct (delete_claims_fields failed st2) as (C & N & F & Qd & M & B).
  cbn [with_now queue first_cron now]. rewrite Qd, F, N, Hn, Hf.
  split; [rewrite L1; exact Hevl|]. split; [apply HI|]. split; [|split; [|split; reflexivity]].
  - intros k Hle. destruct (evs (queue st2) k) eqn:E; [reflexivity|]. assert (Hne : evs (queue st2) k <> []) by congruence.
    specialize (Hk k Hne). lia.
  - intros k Hlt. destruct (Q k) as [l Hl]. exists l. rewrite Hl. cbn [with_queue queue].
    rewrite (collect_queue _ _ _ _ _ Ec k), existsb_due.
    destruct (Z.leb_spec k (now st)); [lia|]. rewrite andb_false_r. reflexivity.
Qed.

(* ---------- obligations and the cron switch ---------- *)
Lemma process_et_record : forall st id mi o fe ms st', process_et st id mi o fe ms = Some st' ->
  (forall j, j <> id -> miners st' !! j = miners st !! j) /\
  miners st' !! id = Some (set_obl (set_et mi (m_et mi - Z.min (m_et mi) (budget st))) o).
Proof.
  intros st id mi o fe ms st' H. unfold process_et in H. destruct (_ && ms).
  - destruct fe; [discriminate|]. apply enroll_fields in H as (_ & _ & F3 & _). rewrite F3. split.
    + intros j Hj. rewrite miners_put. destruct (Z.eqb_spec j id); [contradiction|reflexivity].
    + rewrite miners_put, Z.eqb_refl. reflexivity.
  - injection H as <-. split.
    + intros j Hj. rewrite miners_put. destruct (Z.eqb_spec j id); [contradiction|reflexivity].
    + rewrite miners_put, Z.eqb_refl. reflexivity.
Qed.

Lemma m_obl_set_obl : forall mi o, m_obl (set_obl mi o) = o.
Proof. intros mi [[a b] c]. reflexivity. Qed.

(* what a successful callback does to the obligations and the cron switch of its miner *)
Lemma callback_obl : forall st id kind ci st' mi, callback st id kind ci = Some st' -> miners st !! id = Some mi ->
  (forall j, j <> id -> miners st' !! j = miners st !! j) /\
  exists mi', miners st' !! id = Some mi' /\ m_pre mi' = m_pre mi /\
    ((m_active mi' = m_active mi /\
        (m_obl mi' = m_obl mi \/ (kind <> PD /\ m_obl mi' = ci_obl ci) \/ (kind = PD /\ obl_nz (ci_obl ci) = true)))
     \/ (kind = PD /\ obl_nz (ci_obl ci) = false /\ m_active mi' = false /\
         (m_obl mi' = ci_obl ci \/ m_obl mi' = ci_obl_et ci))).
Proof.
  intros st id kind ci st' mi H Hm. unfold callback in H. rewrite Hm in H.
  destruct (Z.eqb_spec kind PD) as [->|Hk].
  - unfold cb_pd in H. destruct (ci_hard_fail ci); [discriminate|]. destruct (advance mi (now st)) as [pps' dl'].
    set (cont := obl_nz (ci_obl ci)) in *.
    set (mi1 := set_obl (set_et (set_sched mi pps' dl' (if cont then m_active mi else false)) (m_et mi + Z.max 0 (ci_new_et ci))) (ci_obl ci)) in *.
    assert (M1 : m_active mi1 = (if cont then m_active mi else false) /\ m_pre mi1 = m_pre mi /\ m_obl mi1 = ci_obl ci).
    { unfold mi1. rewrite m_obl_set_obl. destruct (ci_obl ci) as [[? ?] ?]. repeat split. }
    destruct M1 as (M1a & M1b & M1c).
    match type of H with match ?X with _ => _ end = _ => destruct X as [st2|] eqn:E2; [|discriminate] end.
    assert (F2 : (forall j, j <> id -> miners st2 !! j = miners st !! j) /\ miners st2 !! id = Some mi1).
    { destruct cont.
      - destruct (f_enroll ci); [discriminate|]. apply enroll_fields in E2 as (_ & _ & F3 & _). rewrite F3. split.
        + intros j Hj. rewrite miners_put. destruct (Z.eqb_spec j id); [contradiction|reflexivity].
        + rewrite miners_put, Z.eqb_refl. reflexivity.
      - injection E2 as <-. split.
        + intros j Hj. rewrite miners_put. destruct (Z.eqb_spec j id); [contradiction|reflexivity].
        + rewrite miners_put, Z.eqb_refl. reflexivity. }
    destruct F2 as (O2 & Hm2).
    assert (Fin : forall mi', m_active mi' = m_active mi1 -> m_pre mi' = m_pre mi1 -> (m_obl mi' = ci_obl ci \/ m_obl mi' = ci_obl_et ci) ->
      m_pre mi' = m_pre mi /\
      ((m_active mi' = m_active mi /\ (m_obl mi' = m_obl mi \/ (PD <> PD /\ m_obl mi' = ci_obl ci) \/ (PD = PD /\ cont = true)))
       \/ (PD = PD /\ cont = false /\ m_active mi' = false /\ (m_obl mi' = ci_obl ci \/ m_obl mi' = ci_obl_et ci)))).
    { intros mi' A1 A2 A3. split; [congruence|]. destruct cont eqn:Ec.
      - left. split; [congruence|]. right. right. auto.
      - right. split; [reflexivity|]. split; [reflexivity|]. split; [congruence|exact A3]. }
    destruct (_ && _).
    + apply process_et_record in H as (O3 & Hm3). split; [intros j Hj; rewrite (O3 j Hj); apply O2; exact Hj|].
      eexists. split; [exact Hm3|]. apply Fin.
      * destruct (ci_obl_et ci) as [[? ?] ?]. reflexivity.
      * destruct (ci_obl_et ci) as [[? ?] ?]. reflexivity.
      * right. apply m_obl_set_obl.
    + injection H as <-. split; [exact O2|]. exists mi1. split; [exact Hm2|]. apply Fin; auto.
  - assert (Same : (forall j, j <> id -> miners st !! j = miners st !! j) /\
      exists mi', miners st !! id = Some mi' /\ m_pre mi' = m_pre mi /\
       ((m_active mi' = m_active mi /\ (m_obl mi' = m_obl mi \/ (kind <> PD /\ m_obl mi' = ci_obl ci) \/ (kind = PD /\ obl_nz (ci_obl ci) = true)))
        \/ (kind = PD /\ obl_nz (ci_obl ci) = false /\ m_active mi' = false /\ (m_obl mi' = ci_obl ci \/ m_obl mi' = ci_obl_et ci)))).
    { split; [auto|]. exists mi. split; [exact Hm|]. split; [reflexivity|]. left. split; [reflexivity|]. left. reflexivity. }
    destruct (kind =? ET).
    + unfold cb_et in H. destruct (ci_hard_fail ci); [discriminate|]. destruct (0 <? m_et mi).
      * apply process_et_record in H as (O3 & Hm3). split; [exact O3|]. eexists. split; [exact Hm3|].
        split; [destruct (ci_obl ci) as [[? ?] ?]; reflexivity|]. left.
        split; [destruct (ci_obl ci) as [[? ?] ?]; reflexivity|]. right. left. split; [exact Hk|apply m_obl_set_obl].
      * injection H as <-. exact Same.
    + destruct (ci_hard_fail ci); [discriminate|]. injection H as <-. exact Same.
Qed.

(* validity of the inputs: obligations are not created out of nothing *)
Definition raises_from_zero (mi : miner) (o : obl) : Prop :=
  m_active mi = false /\ obl_nz (m_obl mi) = false /\ obl_nz o = true.

Definition cb_valid (st : state) (id : Z) (ci : cb_in) : Prop :=
  (forall mi, miners st !! id = Some mi -> ~ raises_from_zero mi (ci_obl ci)) /\
  (obl_nz (ci_obl ci) = false -> obl_nz (ci_obl_et ci) = false).

Fixpoint cbs_valid (st : state) (evl : list (Z * Z)) (cis : list cb_in) : Prop :=
  match evl with
  | [] => True
  | (id, kind) :: rest =>
      let ci := match cis with c :: _ => c | [] => default_ci st id end in
      cb_valid st id ci /\
      cbs_valid (match callback st id kind ci with Some s => s | None => st end) rest (tl cis)
  end.

Definition disciplined (st : state) (o : op) : Prop :=
  match o with
  | SetObl id ob | Terminate id _ ob _ => forall mi, miners st !! id = Some mi -> ~ raises_from_zero mi ob
  | Tick ti =>
      let '(evl, q') := collect (queue st) (claims st) (due_epochs (first_cron st) (now st)) in
      cbs_valid (with_queue st (now st + 1) q') evl (t_cbs ti)
  | _ => True
  end.

Definition obl_inv (st : state) : Prop :=
  forall id mi, miners st !! id = Some mi -> m_pre mi = true -> m_active mi = false -> obl_nz (m_obl mi) = false.

Lemma run_cbs_obl : forall evl st cis st' failed log,
  obl_inv st -> cbs_valid st evl cis -> run_cbs st evl cis = (st', failed, log) -> obl_inv st'.
Proof.
  induction evl as [|[id kind] rest IH]; intros st cis st' failed log HO HV H; cbn [run_cbs] in H.
  - injection H as <- <- <-. exact HO.
  - cbn [cbs_valid] in HV. set (ci := match cis with c :: _ => c | [] => default_ci st id end) in *.
    destruct HV as ((V1 & V2) & HV).
    destruct (callback st id kind ci) as [st1|] eqn:Ecb;
    destruct (run_cbs _ rest (tl cis)) as [[st2 f2] l2] eqn:Er; injection H as <- <- <-; [|eapply IH; eauto].
    eapply (IH st1); eauto.
    destruct (miners st !! id) as [mi|] eqn:Hm; [|rewrite callback_unknown in Ecb by auto; discriminate].
    destruct (callback_obl _ _ _ _ _ _ Ecb Hm) as (O & mi' & Hm' & Hpre & Hcase).
    intros j mj Hj Hp Ha. destruct (Z.eq_dec j id) as [->|Hne]; [|rewrite (O j Hne) in Hj; eapply HO; eauto].
    rewrite Hm' in Hj. injection Hj as <-.
    assert (Hz : m_active mi = false -> obl_nz (m_obl mi) = false) by (intros A; eapply HO; eauto; congruence).
    destruct Hcase as [(A1 & [B|[(B1 & B2)|(B1 & B2)]])|(B1 & B2 & B3 & [B4|B4])].
    + rewrite B. apply Hz. congruence.
    + rewrite B2. destruct (obl_nz (ci_obl ci)) eqn:E; [|reflexivity]. exfalso. apply (V1 mi eq_refl).
      split; [congruence|]. split; [apply Hz; congruence|exact E].
    + exfalso. apply (V1 mi eq_refl). split; [congruence|]. split; [apply Hz; congruence|exact B2].
    + rewrite B4. exact B2.
    + rewrite B4. apply V2. exact B2.
Qed.

Lemma step_obl_inv : forall st o, disciplined st o -> obl_inv st -> obl_inv (fst (fst (step st o))).
Proof.
  intros st o HD HO. 
  assert (Put : forall s j mj mj', obl_inv s -> miners s !! j = Some mj ->
            (m_pre mj' = true -> m_active mj' = false -> obl_nz (m_obl mj') = false) -> obl_inv (put_miner s j mj')).
  { intros s j mj mj' Hs Hj Hnew k mk. rewrite miners_put. destruct (Z.eqb_spec k j) as [->|]; [intros [= <-]; exact Hnew|apply Hs]. }
  destruct o as [i off l|i ob f|i ob|i n ob f|i ep|ti|n|]; cbn [step disciplined] in *.
  - unfold create_miner. destruct (miners st !! i) eqn:Hi; [exact HO|]. destruct (_ <? _); [exact HO|]. destruct (_ <=? _); [exact HO|].
    cbn [fst]. intros k mk. cbn [with_claims miners]. rewrite miners_put. destruct (Z.eqb_spec k i) as [->|]; [intros [= <-]; cbn; discriminate|apply HO].
  - unfold pre_commit. destruct (miners st !! i) as [mj|] eqn:Hi; [|exact HO].
    assert (P1 : obl_inv (put_miner st i (set_obl (set_pre mj) ob))).
    { eapply Put; eauto. destruct ob as [[? ?] ?]. cbn. discriminate. }
    destruct (m_active mj); [exact P1|]. destruct f; [exact HO|]. destruct (enroll _ _ _ _) eqn:En; [|exact HO].
    apply enroll_fields in En as (_ & _ & F3 & _). cbn [fst]. unfold obl_inv. rewrite F3. exact P1.
  - unfold set_obligations. destruct (miners st !! i) as [mj|] eqn:Hi; [|exact HO]. cbn [fst].
    eapply Put; eauto. rewrite m_obl_set_obl. destruct ob as [[a b] c] eqn:Eob. cbn [set_obl m_pre m_active]. intros Hp Ha.
    destruct (obl_nz (a, b, c)) eqn:E; [|reflexivity]. exfalso. apply (HD mj eq_refl). split; [exact Ha|]. split; [eapply HO; eauto|exact E].
  - unfold terminate. destruct (miners st !! i) as [mj|] eqn:Hi; [|exact HO].
    destruct (process_et _ _ _ _ _ _) as [s'|] eqn:Ep; [|exact HO]. cbn [fst].
    apply process_et_record in Ep as (O3 & Hm3).
    intros k mk Hk. destruct (Z.eq_dec k i) as [->|Hne].
    + rewrite Hm3 in Hk. injection Hk as <-. rewrite m_obl_set_obl. destruct ob as [[a b] c] eqn:Eob. cbn [set_obl set_et m_pre m_active]. intros Hp Ha.
      destruct (obl_nz (a, b, c)) eqn:E; [|reflexivity]. exfalso. apply (HD mj eq_refl). split; [exact Ha|]. split; [eapply HO; eauto|exact E].
    + rewrite (O3 k Hne), miners_put in Hk. destruct (Z.eqb_spec k i); [contradiction|]. eapply HO; eauto.
  - unfold enrol_et. destruct (miners st !! i); [|exact HO]. destruct (enroll _ _ _ _) eqn:En; [|exact HO].
    apply enroll_fields in En as (_ & _ & F3 & _). cbn [fst]. unfold obl_inv. rewrite F3. exact HO.
  - rewrite epoch_tick_as_power. destruct (t_entry_fail ti); [exact HO|]. unfold on_epoch_tick_end.
    destruct (t_reward_fail ti); [exact HO|].
    destruct (collect _ _ _) as [evl q'] eqn:Ec. destruct (run_cbs _ _ _) as [[st2 failed] log] eqn:Er.
    destruct (t_kpi_fail ti); [exact HO|]. cbn [fst with_now].
    destruct (delete_claims_fields failed st2) as (_ & _ & _ & _ & M & _).
    unfold obl_inv. cbn [miners with_now]. rewrite M. eapply run_cbs_obl; [|exact HD|exact Er]. exact HO.
  - exact HO.
  - exact HO.
Qed.

Fixpoint hist_ok (P : state -> op -> Prop) (st : state) (ops : list op) : Prop :=
  match ops with
  | [] => True
  | o :: r => P st o /\ hist_ok P (fst (fst (step st o))) r
  end.

Lemma run_obl_inv : forall ops st, hist_ok disciplined st ops -> obl_inv st -> obl_inv (run st ops).
Proof.
  induction ops as [|o r IH]; intros st H HO; [exact HO|]. destruct H as [H1 H2].
  cbn [run fold_left]. apply IH; auto. apply step_obl_inv; auto.
Qed.

(* ================= part G ================= *)

(* ---------- no early termination is stranded ---------- *)
Definition et_inv (st : state) : Prop :=
  forall id mi, miners st !! id = Some mi -> id ∈ claims st -> 0 < m_et mi ->
  exists k, In (id, ET) (evs (queue st) k).

Definition et_mid (cl : gset Z) (st : state) (rest : list (Z * Z)) (acc : list Z) : Prop :=
  forall id mi, miners st !! id = Some mi -> id ∈ cl -> 0 < m_et mi ->
  In (id, ET) rest \/ (exists k, In (id, ET) (evs (queue st) k)) \/ In id acc.

Lemma process_et_et : forall st id mi o fe ms st', process_et st id mi o fe ms = Some st' ->
  qext st st' /\
  (0 < m_et mi - Z.min (m_et mi) (budget st) -> ms = true -> In (id, ET) (evs (queue st') (now st + 1))).
Proof.
  intros st id mi o fe ms st' H. unfold process_et in H.
  destruct (Z.ltb_spec 0 (m_et mi - Z.min (m_et mi) (budget st))); cbn [andb] in H.
  - destruct ms.
    + destruct fe; [discriminate|]. split; [eapply qext_trans; [apply qext_put|eapply qext_enroll; eauto]|].
      intros _ _. rewrite (evs_enroll _ _ _ _ _ (now st + 1) H), Z.eqb_refl. apply in_app_iff. right. left. reflexivity.
    + injection H as <-. split; [apply qext_put|discriminate].
  - injection H as <-. split; [apply qext_put|lia].
Qed.

Lemma m_et_set_obl : forall mi o, m_et (set_obl mi o) = m_et mi.
Proof. intros mi [[a b] c]. reflexivity. Qed.

Lemma callback_et_post : forall st id kind ci st' mi, callback st id kind ci = Some st' -> miners st !! id = Some mi ->
  qext st st' /\ (forall j, j <> id -> miners st' !! j = miners st !! j) /\
  exists mi', miners st' !! id = Some mi' /\
    (0 < m_et mi' -> (0 < m_et mi /\ kind <> ET) \/ In (id, ET) (evs (queue st') (now st + 1))).
Proof.
  intros st id kind ci st' mi H Hm.
  destruct (callback_obl _ _ _ _ _ _ H Hm) as (O & _). unfold callback in H. rewrite Hm in H.
  destruct (Z.eqb_spec kind PD) as [->|Hk].
  - unfold cb_pd in H. destruct (ci_hard_fail ci); [discriminate|]. destruct (advance mi (now st)) as [pps' dl'].
    set (cont := obl_nz (ci_obl ci)) in *.
    set (et1 := m_et mi + Z.max 0 (ci_new_et ci)) in *.
    set (mi1 := set_obl (set_et (set_sched mi pps' dl' (if cont then m_active mi else false)) et1) (ci_obl ci)) in *.
    assert (M1 : m_et mi1 = et1) by (unfold mi1; rewrite m_et_set_obl; reflexivity).
    match type of H with match ?X with _ => _ end = _ => destruct X as [st2|] eqn:E2; [|discriminate] end.
    assert (F2 : qext st st2 /\ miners st2 !! id = Some mi1 /\ now st2 = now st /\ budget st2 = budget st).
    { destruct cont.
      - destruct (f_enroll ci); [discriminate|]. pose proof (enroll_fields _ _ _ _ _ E2) as (F1 & _ & F3 & F4 & _). cbn in F1, F4. rewrite F3.
        split; [eapply qext_trans; [apply qext_put|eapply qext_enroll; eauto]|]. split; [rewrite miners_put, Z.eqb_refl; reflexivity|auto].
      - injection E2 as <-. split; [apply qext_put|]. split; [rewrite miners_put, Z.eqb_refl; reflexivity|auto]. }
    destruct F2 as (Q2 & Hm2 & N2 & B2).
    destruct (Z.ltb_spec 0 (m_et mi)) as [Hhad|Hhad]; cbn [negb andb] in H.
    + injection H as <-. split; [exact Q2|]. split; [exact O|]. exists mi1. split; [exact Hm2|]. intros _. left. split; [exact Hhad|discriminate].
    + destruct (Z.ltb_spec 0 et1) as [He1|He1].
      * pose proof (process_et_record _ _ _ _ _ _ _ H) as (_ & Hm3). destruct (process_et_et _ _ _ _ _ _ _ H) as (Q3 & E3).
        split; [eapply qext_trans; eauto|]. split; [exact O|]. eexists. split; [exact Hm3|].
        rewrite m_et_set_obl. cbn [m_et set_et]. rewrite M1, N2 in *. intros Hpos. right. apply E3; auto.
      * injection H as <-. split; [exact Q2|]. split; [exact O|]. exists mi1. split; [exact Hm2|]. rewrite M1. lia.
  - destruct (Z.eqb_spec kind ET) as [->|Hke].
    + unfold cb_et in H. destruct (ci_hard_fail ci); [discriminate|]. destruct (Z.ltb_spec 0 (m_et mi)).
      * pose proof (process_et_record _ _ _ _ _ _ _ H) as (_ & Hm3). destruct (process_et_et _ _ _ _ _ _ _ H) as (Q3 & E3).
        split; [exact Q3|]. split; [exact O|]. eexists. split; [exact Hm3|].
        rewrite m_et_set_obl. cbn [m_et set_et]. intros Hpos. right. apply E3; auto.
      * injection H as <-. split; [apply qext_refl|]. split; [auto|]. exists mi. split; [exact Hm|]. lia.
    + destruct (ci_hard_fail ci); [discriminate|]. injection H as <-.
      split; [apply qext_refl|]. split; [auto|]. exists mi. split; [exact Hm|]. intros Hp. left. split; [exact Hp|exact Hke].
Qed.

Lemma qext_in : forall st st' x k, qext st st' -> In x (evs (queue st) k) -> In x (evs (queue st') k).
Proof. intros st st' x k Q H. destruct (Q k) as [l ->]. apply in_app_iff. left. exact H. Qed.

Lemma et_step : forall cl st id kind rest acc ci,
  et_mid cl st ((id, kind) :: rest) acc ->
  match callback st id kind ci with
  | Some st1 => et_mid cl st1 rest acc
  | None => et_mid cl st rest (id :: acc)
  end.
Proof.
  intros cl st id kind rest acc ci HM.
  destruct (callback st id kind ci) as [st1|] eqn:Ecb.
  - destruct (miners st !! id) as [mi|] eqn:Hm; [|rewrite callback_unknown in Ecb by auto; discriminate].
    destruct (callback_et_post _ _ _ _ _ _ Ecb Hm) as (Q & O & mi' & Hm' & Hpost).
    intros j mj Hj Hcl Hpos. destruct (Z.eq_dec j id) as [->|Hne].
    + rewrite Hm' in Hj. injection Hj as <-. destruct (Hpost Hpos) as [(Hp & Hk)|Hin].
      * destruct (HM id mi Hm Hcl Hp) as [[Hh|Hr]|[[k Hk']|Ha]].
        -- injection Hh as ->. contradiction.
        -- left. exact Hr.
        -- right. left. exists k. eapply qext_in; eauto.
        -- right. right. exact Ha.
      * right. left. eexists. exact Hin.
    + rewrite (O j Hne) in Hj. destruct (HM j mj Hj Hcl Hpos) as [[Hh|Hr]|[[k Hk']|Ha]].
      * injection Hh as -> _. contradiction.
      * left. exact Hr.
      * right. left. exists k. eapply qext_in; eauto.
      * right. right. exact Ha.
  - intros j mj Hj Hcl Hpos. destruct (Z.eq_dec j id) as [->|Hne]; [right; right; left; reflexivity|].
    destruct (HM j mj Hj Hcl Hpos) as [[Hh|Hr]|[Hq|Ha]].
    + injection Hh as -> _. contradiction.
    + left. exact Hr.
    + right. left. exact Hq.
    + right. right. right. exact Ha.
Qed.

Lemma run_cbs_et : forall cl evl st cis acc st' failed log,
  et_mid cl st evl acc -> run_cbs st evl cis = (st', failed, log) ->
  forall id mi, miners st' !! id = Some mi -> id ∈ cl -> 0 < m_et mi ->
  (exists k, In (id, ET) (evs (queue st') k)) \/ In id acc \/ In id failed.
Proof.
  intros cl. induction evl as [|[j kind] rest IH]; intros st cis acc st' failed log HM H.
  - cbn in H. injection H as <- <- <-. intros id mi Hm Hcl Hp. destruct (HM id mi Hm Hcl Hp) as [[]|[Hq|Ha]]; auto.
  - cbn [run_cbs] in H.
    set (ci := match cis with c :: _ => c | [] => default_ci st j end) in *.
    pose proof (et_step cl st j kind rest acc ci HM) as Hstep.
    destruct (callback st j kind ci) as [st1|] eqn:Ecb;
    destruct (run_cbs _ rest (tl cis)) as [[st2 failed2] log2] eqn:Er; injection H as <- <- <-.
    + exact (IH _ _ _ _ _ _ Hstep Er).
    + intros id mi Hm Hcl Hp. destruct (IH _ _ _ _ _ _ Hstep Er id mi Hm Hcl Hp) as [Hq|[[->|Ha]|Hf]]; auto.
      * right. right. left. reflexivity.
      * right. right. right. exact Hf.
Qed.

Lemma collect_in : forall cl x eps q evl q', collect q cl eps = (evl, q') ->
  forall k, In k eps -> In x (evs q k) -> has_claim cl x = true -> In x evl.
Proof.
  induction eps as [|ep r IH]; intros q evl q' H k Hk Hin Hc; cbn [collect] in H; [destruct Hk|].
  destruct (collect (delete ep q) cl r) as [more q2] eqn:Er. injection H as <- <-.
  apply in_app_iff. destruct (Z.eq_dec k ep) as [->|Hne].
  - left. apply filter_In. split; auto.
  - right. destruct Hk as [->|Hk]; [contradiction|]. eapply IH; eauto. rewrite evs_delete.
    destruct (Z.eqb_spec k ep); [contradiction|exact Hin].
Qed.

Lemma step_et_inv : forall st o, qdom st -> et_inv st -> et_inv (fst (fst (step st o))).
Proof.
  intros st o Hqd HE.
  assert (Ext : forall st', qext st st' -> claims st' = claims st ->
            (forall id mi', miners st' !! id = Some mi' -> 0 < m_et mi' ->
               (exists mi, miners st !! id = Some mi /\ 0 < m_et mi) \/ exists k, In (id, ET) (evs (queue st') k)) -> et_inv st').
  { intros st' Q C R id mi' Hm Hcl Hp. rewrite C in Hcl. destruct (R id mi' Hm Hp) as [(mi & Hmi & Hpi)|Hq]; [|exact Hq].
    destruct (HE id mi Hmi Hcl Hpi) as [k Hk]. exists k. eapply qext_in; eauto. }
  destruct o as [i off l|i ob f|i ob|i n ob f|i ep|ti|n|]; cbn [step].
  - unfold create_miner. destruct (miners st !! i) eqn:Hi; [exact HE|]. destruct (_ <? _); [exact HE|]. destruct (_ <=? _); [exact HE|].
    cbn [fst]. intros id mi. cbn [with_claims miners claims queue put_miner with_miners]. 
    change (<[i:=_]> (miners st) !! id) with (miners (put_miner st i {| m_pps := ctor_period_start (now st) off; m_dl := ctor_deadline_index (now st) (ctor_period_start (now st) off); m_active := false; m_et := 0; m_pcd := 0; m_ip := 0; m_locked := l; m_pre := false |}) !! id).
    rewrite miners_put. destruct (Z.eqb_spec id i) as [->|Hne]; [intros [= <-] _; cbn; lia|].
    intros Hm Hcl Hp. apply (HE id mi Hm); [set_solver|exact Hp].
  - unfold pre_commit. destruct (miners st !! i) as [mj|] eqn:Hi; [|exact HE].
    assert (R1 : forall id mi', miners (put_miner st i (set_obl (set_pre mj) ob)) !! id = Some mi' -> 0 < m_et mi' ->
               (exists mi, miners st !! id = Some mi /\ 0 < m_et mi) \/ exists k, In (id, ET) (evs (queue st) k)).
    { intros id mi'. rewrite miners_put. destruct (Z.eqb_spec id i) as [->|]; [intros [= <-]; rewrite m_et_set_obl; cbn; eauto|eauto]. }
    destruct (m_active mj).
    + cbn [fst]. apply Ext; [apply qext_put|reflexivity|]. intros id mi' Hm Hp. destruct (R1 id mi' Hm Hp); auto.
    + destruct f; [exact HE|]. destruct (enroll _ _ _ _) as [st2|] eqn:En; [|exact HE]. cbn [fst].
      pose proof (enroll_fields _ _ _ _ _ En) as (_ & F2 & F3 & _).
      apply Ext; [eapply qext_trans; [apply qext_put|eapply qext_enroll; eauto]|exact F2|].
      intros id mi'. rewrite F3. intros Hm Hp. destruct (R1 id mi' Hm Hp) as [|[k Hk]]; auto.
      right. exists k. eapply qext_in; [eapply qext_trans; [apply qext_put|eapply qext_enroll; eauto]|exact Hk].
  - unfold set_obligations. destruct (miners st !! i) as [mj|] eqn:Hi; [|exact HE]. cbn [fst].
    apply Ext; [apply qext_put|reflexivity|]. intros id mi'. rewrite miners_put.
    destruct (Z.eqb_spec id i) as [->|]; [intros [= <-]; rewrite m_et_set_obl; eauto|eauto].
  - unfold terminate. destruct (miners st !! i) as [mj|] eqn:Hi; [|exact HE].
    destruct (process_et _ _ _ _ _ _) as [s'|] eqn:Ep; [|exact HE]. cbn [fst].
    pose proof (process_et_record _ _ _ _ _ _ _ Ep) as (O3 & Hm3). destruct (process_et_et _ _ _ _ _ _ _ Ep) as (Q3 & E3).
    pose proof (process_et_fields _ _ _ _ _ _ _ Ep) as (_ & C3 & _).
    apply Ext; [eapply qext_trans; [apply qext_put|exact Q3]|exact C3|].
    intros id mi' Hm Hp. destruct (Z.eq_dec id i) as [->|Hne].
    + rewrite Hm3 in Hm. injection Hm as <-. rewrite m_et_set_obl in Hp. cbn [m_et set_et] in *.
      destruct (Z.ltb_spec 0 (m_et mj)) as [Hhad|Hhad]; [left; eauto|].
      right. eexists. apply E3; auto.
    + rewrite (O3 id Hne), miners_put in Hm. destruct (Z.eqb_spec id i); [contradiction|]. left. eauto.
  - unfold enrol_et. destruct (miners st !! i); [|exact HE]. destruct (enroll _ _ _ _) as [st2|] eqn:En; [|exact HE]. cbn [fst].
    pose proof (enroll_fields _ _ _ _ _ En) as (_ & F2 & F3 & _).
    apply Ext; [eapply qext_enroll; eauto|exact F2|]. intros id mi'. rewrite F3. eauto.
  - (* Tick *)
    assert (Now : forall s e, et_inv s -> et_inv (with_now s e)) by (intros s e H; exact H).
    rewrite epoch_tick_as_power. destruct (t_entry_fail ti); [apply Now; exact HE|]. unfold on_epoch_tick_end.
    destruct (t_reward_fail ti); [apply Now; exact HE|].
    destruct (collect _ _ _) as [evl q'] eqn:Ec. destruct (run_cbs _ _ _) as [[st2 failed] log] eqn:Er.
    destruct (t_kpi_fail ti); [apply Now; exact HE|]. cbn [fst]. apply Now.
    destruct (delete_claims_fields failed st2) as (C & _ & _ & Q & M & _).
    destruct (run_cbs_fields _ _ _ _ _ _ Er) as (_ & R2 & _).
    assert (HM : et_mid (claims st) (with_queue st (now st + 1) q') evl []).
    { intros id mi Hm Hcl Hp. destruct (HE id mi Hm Hcl Hp) as [k Hk].
      destruct (existsb (Z.eqb k) (due_epochs (first_cron st) (now st))) eqn:Ed.
      - left. apply existsb_exists in Ed as (x & Hx & Hxe). apply Z.eqb_eq in Hxe. subst x.
        eapply collect_in; eauto. unfold has_claim. cbn. apply bool_decide_eq_true. exact Hcl.
      - right. left. exists k. cbn [with_queue queue]. rewrite (collect_queue _ _ _ _ _ Ec k), Ed. exact Hk. }
    intros id mi. rewrite M, C, Q, R2. cbn [with_queue claims]. intros Hm Hcl Hp.
    apply elem_of_difference in Hcl as [Hcl Hnf].
    destruct (run_cbs_et _ _ _ _ _ _ _ _ HM Er id mi Hm Hcl Hp) as [Hq|[[]|Hf]]; [exact Hq|].
    exfalso. apply Hnf. apply elem_of_list_to_set, elem_of_list_In. exact Hf.
  - exact HE.
  - exact HE.
Qed.

(* ---------- assembling ---------- *)
Lemma run_et_inv : forall ops st, Forall wf_op ops -> Inv st -> et_inv st -> et_inv (run st ops).
Proof.
  induction ops as [|o r IH]; intros st Hwf HI HE; [exact HE|].
  inversion Hwf; subst. cbn [run fold_left]. apply IH; auto; [apply step_inv; auto|apply step_et_inv; [apply HI|exact HE]].
Qed.

Lemma et_inv_init : forall e0 fc bud, et_inv (init e0 fc bud).
Proof. intros e0 fc bud id mi. cbn. rewrite lookup_empty. discriminate. Qed.

Lemma obl_inv_init : forall e0 fc bud, obl_inv (init e0 fc bud).
Proof. intros e0 fc bud id mi. cbn. rewrite lookup_empty. discriminate. Qed.

Lemma in_evs_nonempty : forall st x k, In x (evs (queue st) k) -> evs (queue st) k <> [].
Proof. intros st x k H E. rewrite E in H. destruct H. Qed.

Lemma inv_at_most_one : forall st id, Inv st -> at_most_one st id.
Proof.
  intros st id (Hqd & Hqk & Hck & HI). destruct (miners st !! id) as [mi|] eqn:Hm.
  - destruct (HI id mi Hm) as (H1 & H2 & H3). destruct (m_active mi) eqn:Ha.
    + destruct (decide (id ∈ claims st)); [eapply exactly_at_most; eauto|eauto].
    + apply none_at_most. auto.
  - apply none_at_most. intros k. apply cnt_notin. intros Hin. destruct (Hqk k id PD Hin) as [x Hx]. congruence.
Qed.

Lemma tick_failed_loses_claim : forall st ti id kind, power_ok ti ->
  In (id, kind, 1) (snd (step st (Tick ti))) -> id ∉ claims (fst (fst (step st (Tick ti)))).
Proof.
  intros st ti id kind Hok Hin. cbn [step] in *. rewrite (epoch_tick_unfold _ _ Hok) in *.
  destruct (collect _ _ _) as [evl q']. destruct (run_cbs _ _ _) as [[st2 failed] log] eqn:Er. cbn [fst snd with_now claims] in *.
  destruct (run_cbs_log _ _ _ _ _ _ Er) as (_ & L2 & _).
  destruct (delete_claims_fields failed st2) as (C & _). rewrite C. intros Hc. apply elem_of_difference in Hc as [_ Hc]. apply Hc.
  apply elem_of_list_to_set, elem_of_list_In. apply L2. exists kind. exact Hin.
Qed.

Lemma dl_facts : forall p e,
  dl_period_start p e <= e < dl_period_start p e + 2880 /\
  (exists k, dl_period_start p e = p + 2880 * k) /\
  0 <= dl_index p e < 48 /\
  dl_period_start p e + 60 * dl_index p e <= e < dl_period_start p e + 60 * dl_index p e + 60 /\
  dl_last p e = dl_period_start p e + 60 * dl_index p e + 59.
Proof.
  intros p e. pose proof (dl_bounds p e) as (B1 & B2 & B3 & B4).
  split; [exact B1|]. split; [exists ((e - p) / 2880); apply dl_ps_closed|]. split; [exact B2|]. split; [lia|exact B4].
Qed.

(* boolean form of wf_op, for closed example histories *)
Definition wf_opb (o : op) : bool :=
  match o with
  | Tick ti => negb (t_entry_fail ti) && negb (t_reward_fail ti) && negb (t_kpi_fail ti)
  | Skip _ => false
  | _ => true
  end.

Lemma wf_opb_ok : forall ops, forallb wf_opb ops = true -> Forall wf_op ops.
Proof.
  intros ops H. apply Forall_forall. intros o Ho. rewrite forallb_forall in H. specialize (H o Ho).
  destruct o as [? ? ?|? ? ?|? ?|? ? ? ?|? ?|ti|?|]; cbn [wf_opb wf_op] in *; try exact I; try discriminate.
  apply andb_true_iff in H as [H1 H3]. apply andb_true_iff in H1 as [H1 H2].
  apply negb_true_iff in H1, H2, H3. repeat split; assumption.
Qed.

(* ================= part H: the pinned statements of Props/C05.v ================= *)
Lemma schedule_inv_reachable : forall e0 fc bud ops, Forall wf_op ops ->
  let st := run (init e0 fc bud) ops in
  forall id mi, miners st !! id = Some mi -> id ∈ claims st ->
  (m_active mi = true <-> forall k, pdq st id k = ind (k =? dl_last (m_pps mi) (now st))) /\
  (m_active mi = false -> forall k, pdq st id k = 0).
Proof.
  intros e0 fc bud ops Hwf st id mi Hm Hcl.
  destruct (run_inv ops _ Hwf (inv_init e0 fc bud)) as (_ & _ & _ & HI).
  destruct (HI id mi Hm) as (H1 & H2 & _). split; [|exact H1]. split; [intros Ha; exact (H2 Ha Hcl)|].
  intros H. destruct (m_active mi) eqn:Ha; [reflexivity|].
  specialize (H1 eq_refl (dl_last (m_pps mi) (now (run (init e0 fc bud) ops)))).
  fold st in H1. rewrite H, Z.eqb_refl in H1. discriminate.
Qed.

Lemma no_duplicate_reachable : forall e0 fc bud ops id, Forall wf_op ops ->
  exists E, forall k, pdq (run (init e0 fc bud) ops) id k <= ind (k =? E).
Proof. intros e0 fc bud ops id Hwf. exact (inv_at_most_one _ id (run_inv ops _ Hwf (inv_init e0 fc bud))). Qed.

Lemma no_event_lost_reachable : forall e0 fc bud ops ti, Forall wf_op ops -> power_ok ti ->
  let st := run (init e0 fc bud) ops in
  let st' := fst (fst (step st (Tick ti))) in
  let log := snd (step st (Tick ti)) in
  map (fun x => fst x) log =
    flat_map (fun k => List.filter (has_claim (claims st)) (evs (queue st) k)) (due_epochs (first_cron st) (now st)) /\
  (forall k, evs (queue st) k <> [] -> first_cron st <= k) /\
  (forall k, k <= now st -> evs (queue st') k = []) /\
  (forall k, now st < k -> exists l, evs (queue st') k = evs (queue st) k ++ l) /\
  first_cron st' = now st + 1 /\ now st' = now st + 1.
Proof. intros e0 fc bud ops ti Hwf Hok. exact (no_event_lost _ ti (run_inv ops _ Hwf (inv_init e0 fc bud)) Hok). Qed.

(* the proving-deadline callback of an active claim holder is dispatched in the tick of the last epoch of its deadline *)
Lemma pd_callback_on_time : forall e0 fc bud ops ti id mi, Forall wf_op ops -> power_ok ti ->
  let st := run (init e0 fc bud) ops in
  miners st !! id = Some mi -> m_active mi = true -> id ∈ claims st ->
  (dl_last (m_pps mi) (now st) = now st <-> In (id, PD) (map (fun x => fst x) (snd (step st (Tick ti))))).
Proof.
  intros e0 fc bud ops ti id mi Hwf Hok st Hm Ha Hcl.
  pose proof (run_inv ops _ Hwf (inv_init e0 fc bud)) as HI. fold st in HI.
  destruct (no_event_lost st ti HI Hok) as (Hlog & Hqd & _). rewrite Hlog.
  destruct HI as (_ & _ & _ & HIm). destruct (HIm id mi Hm) as (_ & H2 & _). specialize (H2 Ha Hcl).
  pose proof (dl_bounds (m_pps mi) (now st)) as (_ & _ & Hb & _).
  rewrite in_flat_map. split.
  - intros HL. exists (now st). assert (Hin : In (id, PD) (evs (queue st) (now st))).
    { apply cnt_pos_in. pose proof (H2 (now st)) as HH. unfold pdq in HH. rewrite HH, HL, Z.eqb_refl. cbn. lia. }
    split.
    + apply in_due_epochs. split; [|lia]. apply Hqd. eapply in_evs_nonempty; eauto.
    + apply filter_In. split; [exact Hin|]. unfold has_claim. cbn. apply bool_decide_eq_true. exact Hcl.
  - intros (k & Hk & Hin). apply in_due_epochs in Hk. apply filter_In in Hin as [Hin _].
    assert (Hpos : 0 < pdq st id k).
    { unfold pdq. destruct (Z.eq_dec (cnt (id, PD) (evs (queue st) k)) 0) as [Hz|]; [|pose proof (cnt_nonneg (id, PD) (evs (queue st) k)); lia].
      exfalso. revert Hin. clear - Hz. induction (evs (queue st) k) as [|y r IH]; [intros []|].
      cbn [cnt] in Hz. pose proof (cnt_nonneg (id, PD) r). intros [->|Hin].
      - cbn [fst snd] in Hz. rewrite !Z.eqb_refl in Hz. cbn in Hz. lia.
      - apply IH; [|exact Hin]. destruct (_ && _); lia. }
    rewrite H2 in Hpos. destruct (Z.eqb_spec k (dl_last (m_pps mi) (now st))); cbn in Hpos; lia.
Qed.

Lemma callback_total_partial_flags : forall st id kind ci,
  is_Some (miners st !! id) -> 0 <= now st ->
  f_tx ci = false -> f_power ci = false -> f_burn ci = false -> f_pledge ci = false -> f_balance ci = false ->
  f_enroll ci = false ->
  is_Some (callback st id kind ci).
Proof.
  intros st id kind ci Hm Hn H1 H2 H3 H4 H5 H6. apply callback_total_partial; auto.
  unfold ci_hard_fail. rewrite H1, H2, H3, H4, H5. reflexivity.
Qed.

Lemma et_never_stranded_reachable : forall e0 fc bud ops, Forall wf_op ops ->
  let st := run (init e0 fc bud) ops in
  forall id mi, miners st !! id = Some mi -> id ∈ claims st -> 0 < m_et mi ->
  exists k, first_cron st <= k /\ In (id, ET) (evs (queue st) k).
Proof.
  intros e0 fc bud ops Hwf st id mi Hm Hcl Hp.
  pose proof (run_inv ops _ Hwf (inv_init e0 fc bud)) as HI.
  destruct (run_et_inv ops _ Hwf (inv_init e0 fc bud) (et_inv_init e0 fc bud) id mi Hm Hcl Hp) as [k Hk].
  exists k. split; [|exact Hk]. destruct HI as (Hqd & _). apply Hqd. eapply in_evs_nonempty; eauto.
Qed.

Lemma deadline_recorded_reachable : forall e0 fc bud ops ti id mi, Forall wf_op ops -> power_ok ti ->
  let st := run (init e0 fc bud) ops in
  miners st !! id = Some mi -> m_active mi = true -> id ∈ claims st ->
  dl_last (m_pps mi) (now st) = now st ->
  let st' := fst (fst (step st (Tick ti))) in
  id ∈ claims st' ->
  exists mi', miners st' !! id = Some mi' /\ now st' = now st + 1 /\
    m_dl mi' = dl_index (m_pps mi') (now st') /\
    (exists k, m_pps mi' = m_pps mi + 2880 * k) /\
    (m_pps mi = dl_period_start (m_pps mi) (now st) \/ dl_index (m_pps mi) (now st) = 47 ->
       m_pps mi' = dl_period_start (m_pps mi') (now st')).
Proof.
  intros e0 fc bud ops ti id mi Hwf Hok st Hm Ha Hcl HL st' Hcl'.
  exact (deadline_recorded_after_tick st ti id mi (run_inv ops _ Hwf (inv_init e0 fc bud)) Hok Hm Ha Hcl HL Hcl').
Qed.

Lemma recorded_stable_reachable : forall e0 fc bud ops o id mi mi', Forall wf_op ops -> wf_op o ->
  let st := run (init e0 fc bud) ops in
  miners st !! id = Some mi -> m_active mi = true -> id ∈ claims st -> recorded mi (now st) ->
  let st' := fst (fst (step st o)) in
  miners st' !! id = Some mi' -> id ∈ claims st' -> recorded mi' (now st').
Proof.
  intros e0 fc bud ops o id mi mi' Hwf Hwo st Hm Ha Hcl HR st' Hm' Hcl'.
  exact (recorded_stable st o id mi mi' (run_inv ops _ Hwf (inv_init e0 fc bud)) Hwo Hm Ha Hcl HR Hm' Hcl').
Qed.

Lemma obligations_after_precommit : forall e0 fc bud ops,
  hist_ok disciplined (init e0 fc bud) ops ->
  forall id mi, miners (run (init e0 fc bud) ops) !! id = Some mi -> m_pre mi = true ->
  obl_nz (m_obl mi) = true -> m_active mi = true.
Proof.
  intros e0 fc bud ops H id mi Hm Hp Ho.
  pose proof (run_obl_inv ops _ H (obl_inv_init e0 fc bud) id mi Hm Hp) as HI.
  destruct (m_active mi); [reflexivity|]. rewrite HI in Ho by reflexivity. discriminate.
Qed.
