(* PartInv spelled out (for the pinned statement C04_partinv_unfolds). *)
From Coq Require Import ZArith List Bool.
From stdpp Require Import gmap.
From VF Require Import Base.SetSum Model.Partition Model.PartitionInv.
Open Scope Z_scope.

Lemma partinv_unfolds qs tbl p :
  PartInv qs tbl p ->
  recoveries p ⊆ faults p /\ faults p ⊆ sectors p /\ unproven p ⊆ sectors p /\
  terminated p ⊆ sectors p /\ unproven p ## faults p /\ unproven p ## terminated p /\
  faults p ## terminated p /\
  live_power p = spow tbl (sectors p ∖ terminated p) /\ unproven_power p = spow tbl (unproven p) /\
  p_faulty_power p = spow tbl (faults p) /\ recovering_power p = spow tbl (recoveries p) /\
  QInv qs tbl (faults p) (sectors p ∖ terminated p) (expirations p) /\
  ETInv (terminated p) (early_terminated p).
Proof.
  intros H. destruct H. unfold live_sectors in *.
  do 12 (split; [assumption|]). assumption.
Qed.
