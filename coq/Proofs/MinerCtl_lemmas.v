(* Proofs about coq/Model/MinerCtl.v (property C13). *)
From Coq Require Import ZArith List Bool Lia.
From VF Require Import Gen.Consts Base.Corr Model.MinerCtl.
Import ListNotations.
Open Scope Z_scope.

Ltac zb :=
  repeat match goal with
  | H : (_ =? _) = true |- _ => apply Z.eqb_eq in H
  | H : (_ =? _) = false |- _ => apply Z.eqb_neq in H
  | H : (_ <? _) = true |- _ => apply Z.ltb_lt in H
  | H : (_ <? _) = false |- _ => apply Z.ltb_ge in H
  | H : (_ <=? _) = true |- _ => apply Z.leb_le in H
  | H : (_ <=? _) = false |- _ => apply Z.leb_gt in H
  | H : negb _ = true |- _ => apply negb_true_iff in H
  | H : negb _ = false |- _ => apply negb_false_iff in H
  | H : (_ && _) = true |- _ => apply andb_true_iff in H; destruct H
  | H : (_ || _) = false |- _ => apply orb_false_iff in H; destruct H
  | H : (_ || _) = true |- _ => apply orb_true_iff in H; destruct H
  | H : (_ && _) = false |- _ => apply andb_false_iff in H; destruct H
  | H : is_none ?o = true |- _ => destruct o; [discriminate H | clear H]
  | H : is_none ?o = false |- _ => destruct o; [clear H | discriminate H]
  end.

(* split every conditional of the hypothesis *)
Ltac destr_in H :=
  repeat match type of H with
  | context [if ?b then _ else _] => destruct b eqn:?
  | context [match ?o with Some _ => _ | None => _ end] => destruct o eqn:?
  | context [match ?x with inl _ => _ | inr _ => _ end] => destruct x eqn:?
  | context [let (_, _) := ?p in _] => destruct p
  end.

Ltac inv H := inversion H; subst; clear H.

Ltac fields := cbn [owner pending_owner worker pending_worker controls beneficiary bterm
                    pending_term funds quota used expiration
                    pb_new pb_quota pb_exp pb_by_ben pb_by_nom] in *.

Definition run (st : state) (ops : list op) : state := fold_left (fun s o => fst (step s o)) ops st.

Lemma run_app st a b : run st (a ++ b) = run (run st a) b.
Proof. unfold run. apply fold_left_app. Qed.

Lemma run_snoc st a o : run st (a ++ [o]) = fst (step (run st a) o).
Proof. rewrite run_app. reflexivity. Qed.

(* the full history: every executed operation with the state it ran in and its exit code *)
Record ev := { ev_pre : state; ev_op : op; ev_code : Z }.

Fixpoint trace (st : state) (ops : list op) : list ev :=
  match ops with
  | [] => []
  | o :: r => {| ev_pre := st; ev_op := o; ev_code := snd (step st o) |} :: trace (fst (step st o)) r
  end.

Lemma trace_app a : forall st b, trace st (a ++ b) = trace st a ++ trace (run st a) b.
Proof.
  induction a as [|o a IH]; intros st b; [reflexivity|].
  cbn [app trace]. rewrite IH. reflexivity.
Qed.

Lemma trace_snoc st a o :
  trace st (a ++ [o]) =
  trace st a ++ [{| ev_pre := run st a; ev_op := o; ev_code := snd (step (run st a) o) |}].
Proof. rewrite trace_app. reflexivity. Qed.

(* an event whose pre-state really is the state reached by the operations before it *)
Lemma trace_In st ops x :
  In x (trace st ops) ->
  exists a b, ops = a ++ ev_op x :: b /\ ev_pre x = run st a /\ ev_code x = snd (step (run st a) (ev_op x)).
Proof.
  revert st. induction ops as [|o r IH]; intros st H; [destruct H|].
  cbn [trace] in H. destruct H as [<-|H].
  - exists [], r. repeat split.
  - destruct (IH _ H) as (a & b & -> & Hp & Hc). exists (o :: a), b. repeat split; assumption.
Qed.

(* ------------------------------------------------------------------------------------------ *)
(* basic facts *)

Lemma available_nonneg t e : 0 <= available t e.
Proof. unfold available. destruct (e <? expiration t); lia. Qed.

Lemma zmem_In x l : zmem x l = true <-> In x l.
Proof.
  induction l as [|y r IH]; cbn [zmem In]; [split; [discriminate|tauto]|].
  rewrite orb_true_iff, IH, Z.eqb_eq. split; intros [H|H]; auto.
Qed.

(* the state after the pending owner confirmed *)
Definition handover (st : state) (p : Z) : state :=
  {| owner := p; pending_owner := None; worker := worker st;
     pending_worker := pending_worker st; controls := controls st;
     beneficiary := if beneficiary st =? owner st then p else beneficiary st;
     bterm := bterm st; pending_term := None; funds := funds st |}.

Definition set_pending_owner (st : state) (po : option Z) : state :=
  {| owner := owner st; pending_owner := po; worker := worker st;
     pending_worker := pending_worker st; controls := controls st;
     beneficiary := beneficiary st; bterm := bterm st; pending_term := pending_term st;
     funds := funds st |}.

(* exact outcome of change_owner_address *)
Lemma change_owner_spec st c new is_id st' code :
  change_owner st c new is_id = (st', code) ->
  (code = OK /\ is_id = true /\ c = owner st /\
     st' = set_pending_owner st (if new =? owner st then None else Some new)) \/
  (code = OK /\ is_id = true /\ c <> owner st /\ pending_owner st = Some c /\ new = c /\
     st' = handover st c) \/
  (code <> OK /\ st' = st /\
     (is_id = false \/ (c <> owner st /\ pending_owner st <> Some c) \/
      (c <> owner st /\ pending_owner st = Some c /\ new <> c))).
Proof.
  unfold change_owner, clear_noop. intros H.
  destruct is_id; cbn [negb] in H; [|inv H; right; right; repeat split; auto; discriminate].
  destruct (c =? owner st) eqn:Ec; cbn [orb negb] in H.
  - zb. fields. destruct (new =? owner st) eqn:En; inv H; left; repeat split; reflexivity.
  - zb. destruct (pending_owner st) as [p|] eqn:Ep; cbn [is_none] in H.
    + destruct (c =? p) eqn:Ecp; cbn [negb] in H.
      * zb. subst p. destruct (new =? c) eqn:Enc; cbn [negb] in H.
        -- zb. subst new. fields. rewrite Z.eqb_refl in H. inv H.
           right; left. repeat split; auto.
        -- zb. inv H. right; right. repeat split; try discriminate. right; right; auto.
      * zb. inv H. right; right. repeat split; try discriminate. right; left. split; congruence.
    + cbn [negb] in H. inv H. right; right. repeat split; try discriminate. right; left. split; congruence.
Qed.

(* exact outcome of change_worker_address *)
Definition set_worker_req (st : state) (cs : list Z) (pw : option (Z * Z)) : state :=
  {| owner := owner st; pending_owner := pending_owner st; worker := worker st;
     pending_worker := pw; controls := cs;
     beneficiary := beneficiary st; bterm := bterm st; pending_term := pending_term st;
     funds := funds st |}.

Lemma change_worker_spec st c e nw ctrls st' code :
  change_worker st c e nw ctrls = (st', code) ->
  (code = OK /\ c = owner st /\ Z.of_nat (length ctrls) <= MAX_CONTROL_ADDRESSES /\
   exists n cs, nw = WOk n /\ resolve_all ctrls = Some cs /\
     st' = set_worker_req st cs
             (match pending_worker st with
              | Some k => Some k
              | None => if n =? worker st then None else Some (n, e + WORKER_KEY_CHANGE_DELAY)
              end)) \/
  (code <> OK /\ st' = st /\
   (c <> owner st \/ MAX_CONTROL_ADDRESSES < Z.of_nat (length ctrls) \/
    (forall n, nw <> WOk n) \/ resolve_all ctrls = None)).
Proof.
  unfold change_worker. intros H.
  destruct (MAX_CONTROL_ADDRESSES <? Z.of_nat (length ctrls)) eqn:El.
  { zb. inv H. right. repeat split; try discriminate. auto. }
  zb.
  destruct nw as [| | | |n];
    try (inv H; right; repeat split; try discriminate; right; right; left; intros n; discriminate).
  destruct (resolve_all ctrls) as [cs|] eqn:Er.
  2:{ inv H. right. repeat split; try discriminate. auto. }
  destruct (c =? owner st) eqn:Ec; cbn [negb] in H.
  2:{ zb. inv H. right. repeat split; try discriminate. auto. }
  zb. inv H. left. repeat split; [lia|]. exists n, cs. repeat split.
  unfold set_worker_req. f_equal.
  destruct (pending_worker st) as [k|]; cbn [is_none]; [rewrite andb_false_r; reflexivity|].
  rewrite andb_true_r. destruct (n =? worker st); reflexivity.
Qed.

(* exact outcome of process_pending_worker *)
Definition made_effective (st : state) (n : Z) : state :=
  {| owner := owner st; pending_owner := pending_owner st; worker := n;
     pending_worker := None; controls := controls st;
     beneficiary := beneficiary st; bterm := bterm st; pending_term := pending_term st;
     funds := funds st |}.

Lemma ppw_spec st e :
  (process_pending_worker st e = st /\
     (pending_worker st = None \/ exists n eff, pending_worker st = Some (n, eff) /\ e < eff)) \/
  (exists n eff, pending_worker st = Some (n, eff) /\ eff <= e /\
     process_pending_worker st e = made_effective st n).
Proof.
  unfold process_pending_worker. destruct (pending_worker st) as [[n eff]|] eqn:Ep.
  - destruct (e <? eff) eqn:El; zb.
    + left. split; [reflexivity|]. right. exists n, eff. auto.
    + right. exists n, eff. repeat split. assumption.
  - left. auto.
Qed.

(* the proposal checked by change_beneficiary *)
Lemma cb_pending_inr st c e nb q x pt :
  cb_pending st c e nb q x = inr pt ->
  pb_new pt = nb /\ pb_quota pt = q /\ pb_exp pt = x /\
  ((c = owner st /\ pb_by_ben pt = (available (bterm st) e =? 0) /\ pb_by_nom pt = false /\
    (nb <> owner st -> 0 < q) /\ (nb = owner st -> q = 0 /\ x = 0)) \/
   (c <> owner st /\ pending_term st = Some pt /\ (c = beneficiary st \/ c = nb))).
Proof.
  unfold cb_pending. intros H.
  destruct (c =? owner st) eqn:Ec.
  - zb. destruct (nb =? owner st) eqn:En; cbn [negb] in H.
    + destruct (q =? 0) eqn:Eq; cbn [negb] in H; [|discriminate].
      destruct (x =? 0) eqn:Ex; cbn [negb] in H; [|discriminate].
      zb. inv H. fields. repeat split. left. repeat split; auto; congruence.
    + destruct (0 <? q) eqn:Eq; cbn [negb] in H; [|discriminate].
      zb. inv H. fields. repeat split. left. repeat split; auto; congruence.
  - zb. destruct (pending_term st) as [p|] eqn:Ep; [|discriminate].
    destruct (negb (c =? beneficiary st) && negb (c =? pb_new p)) eqn:Eb; [discriminate|].
    destruct (pb_new p =? nb) eqn:E1; cbn [negb] in H; [|discriminate].
    destruct (pb_quota p =? q) eqn:E2; cbn [negb] in H; [|discriminate].
    destruct (pb_exp p =? x) eqn:E3; cbn [negb] in H; [|discriminate].
    inv H. zb; repeat split; auto; right; repeat split; auto; right; congruence.
Qed.

Lemma cb_pending_inl st c e nb q x code : cb_pending st c e nb q x = inl code -> code <> OK.
Proof.
  unfold cb_pending, OK, ILLEGAL_ARGUMENT, FORBIDDEN. intros H. destr_in H; inv H; lia.
Qed.

(* exact outcome of withdraw_balance *)
Definition withdrawn (st : state) (amt : Z) : state :=
  {| owner := owner st; pending_owner := pending_owner st; worker := worker st;
     pending_worker := pending_worker st; controls := controls st;
     beneficiary := beneficiary st;
     bterm := if beneficiary st =? owner st then bterm st else
              {| quota := quota (bterm st); used := used (bterm st) + amt;
                 expiration := expiration (bterm st) |};
     pending_term := pending_term st; funds := funds st - amt |}.

Lemma withdraw_spec st c e req st' code :
  withdraw st c e req = (st', code) ->
  (code = OK /\ 0 <= req /\ (c = owner st \/ c = beneficiary st) /\ 0 <= funds st /\
   (beneficiary st = owner st \/ 0 < available (bterm st) e) /\
   exists amt, st' = withdrawn st amt /\ 0 <= amt <= req /\ amt <= funds st /\
     amt = (if beneficiary st =? owner st then Z.min (funds st) req
            else Z.min (Z.min (funds st) req) (available (bterm st) e))) \/
  (code <> OK /\ st' = st /\
   (req < 0 \/ (c <> owner st /\ c <> beneficiary st) \/ funds st < 0 \/
    (beneficiary st <> owner st /\ available (bterm st) e = 0))).
Proof.
  unfold withdraw. intros H.
  destruct (req <? 0) eqn:Er.
  { zb. inv H. right. repeat split; try discriminate. auto. }
  destruct ((c =? owner st) || (c =? beneficiary st)) eqn:Ec; cbn [negb] in H.
  2:{ zb. inv H. right. repeat split; try discriminate. auto. }
  destruct (Z.min (funds st) req <? 0) eqn:Ea.
  { zb; inv H; right; repeat split; try discriminate; right; right; left; lia. }
  pose proof (available_nonneg (bterm st) e) as Hav.
  destruct (beneficiary st =? owner st) eqn:Eb; cbn [negb] in H.
  - inv H. left.
    assert (c = owner st \/ c = beneficiary st) as Hc by (zb; auto).
    assert (0 <= funds st /\ 0 <= req) as [Hf Hr] by (zb; lia).
    split; [reflexivity|]. split; [assumption|]. split; [assumption|]. split; [assumption|].
    split; [left; zb; assumption|].
    exists (Z.min (funds st) req). unfold withdrawn. rewrite Eb. repeat split; lia.
  - destruct (available (bterm st) e =? 0) eqn:E0.
    { zb; inv H; right; repeat split; try discriminate; auto. }
    inv H. left.
    assert (0 < available (bterm st) e) as Hp by (zb; lia).
    assert (c = owner st \/ c = beneficiary st) as Hc by (zb; auto).
    assert (0 <= funds st /\ 0 <= req) as [Hf Hr] by (zb; lia).
    split; [reflexivity|]. split; [assumption|]. split; [assumption|]. split; [assumption|].
    split; [right; assumption|].
    exists (Z.min (Z.min (funds st) req) (available (bterm st) e)).
    unfold withdrawn. rewrite Eb. repeat split; try lia.
    f_equal. f_equal.
    destruct (0 <? Z.min (Z.min (funds st) req) (available (bterm st) e)) eqn:Ep; zb; lia.
Qed.

(* ------------------------------------------------------------------------------------------ *)
(* every accepted transition of the model, relationally *)

(* the amount paid out by an accepted withdrawal *)
Definition wamount (st : state) (e req : Z) : Z :=
  if beneficiary st =? owner st then Z.min (funds st) req
  else Z.min (Z.min (funds st) req) (available (bterm st) e).

Lemma wamount_bounds st e req :
  0 <= req -> 0 <= funds st -> (beneficiary st = owner st \/ 0 < available (bterm st) e) ->
  0 <= wamount st e req <= req /\ wamount st e req <= funds st /\
  (beneficiary st <> owner st -> wamount st e req <= available (bterm st) e).
Proof.
  intros Hr Hf Hb. unfold wamount. destruct (beneficiary st =? owner st) eqn:Eb; zb.
  - repeat split; intros; first [lia | contradiction].
  - destruct Hb as [Hb|Hb]; [contradiction|]. repeat split; intros; lia.
Qed.

Inductive Trans (st : state) : op -> state -> Prop :=
| T_propose_owner e new :
    Trans st (ChangeOwner (owner st) e new true)
          (set_pending_owner st (if new =? owner st then None else Some new))
| T_confirm_owner c e :
    c <> owner st -> pending_owner st = Some c ->
    Trans st (ChangeOwner c e c true) (handover st c)
| T_change_worker e n ctrls cs :
    Z.of_nat (length ctrls) <= MAX_CONTROL_ADDRESSES -> resolve_all ctrls = Some cs ->
    Trans st (ChangeWorker (owner st) e (WOk n) ctrls)
          (set_worker_req st cs
             (match pending_worker st with
              | Some k => Some k
              | None => if n =? worker st then None else Some (n, e + WORKER_KEY_CHANGE_DELAY)
              end))
| T_confirm_noop e :
    (pending_worker st = None \/ exists n eff, pending_worker st = Some (n, eff) /\ e < eff) ->
    Trans st (ConfirmWorker (owner st) e) st
| T_confirm_eff e n eff :
    pending_worker st = Some (n, eff) -> eff <= e ->
    Trans st (ConfirmWorker (owner st) e) (made_effective st n)
| T_cron_noop e :
    (pending_worker st = None \/ exists n eff, pending_worker st = Some (n, eff) /\ e < eff) ->
    Trans st (Cron e) st
| T_cron_eff e n eff :
    pending_worker st = Some (n, eff) -> eff <= e ->
    Trans st (Cron e) (made_effective st n)
| T_beneficiary c e nb q x pt :
    cb_pending st c e nb q x = inr pt ->
    Trans st (ChangeBeneficiary c e (Some nb) q x) (cb_apply st c nb pt)
| T_withdraw c e req :
    0 <= req -> (c = owner st \/ c = beneficiary st) -> 0 <= funds st ->
    (beneficiary st = owner st \/ 0 < available (bterm st) e) ->
    Trans st (Withdraw c e req) (withdrawn st (wamount st e req))
| T_peer c e :
    In c (control_set st) -> Trans st (ChangePeer c e) st.

Theorem step_spec st o st' code :
  step st o = (st', code) -> (code <> OK /\ st' = st) \/ (code = OK /\ Trans st o st').
Proof.
  intros H. destruct o as [c e new is_id|c e nw ctrls|c e|e|c e nb q x|c e req|c e]; cbn [step] in H.
  - apply change_owner_spec in H
      as [(-> & -> & -> & ->)|[(-> & -> & Hc & Hp & -> & ->)|(Hn & -> & _)]].
    + right. split; [reflexivity|constructor].
    + right. split; [reflexivity|constructor; assumption].
    + left. auto.
  - apply change_worker_spec in H as [(-> & -> & Hl & n & cs & -> & Hr & ->)|(Hn & -> & _)].
    + right. split; [reflexivity|constructor; assumption].
    + left. auto.
  - unfold confirm_worker in H. destruct (c =? owner st) eqn:Ec; cbn [negb] in H.
    + zb. subst c. inv H. right. split; [reflexivity|].
      destruct (ppw_spec st e) as [[-> Hp]|(n & eff & Hp & Hle & ->)].
      * apply T_confirm_noop. assumption.
      * eapply T_confirm_eff; eassumption.
    + inv H. left. split; [discriminate|reflexivity].
  - inv H. right. split; [reflexivity|].
    destruct (ppw_spec st e) as [[-> Hp]|(n & eff & Hp & Hle & ->)].
    + apply T_cron_noop. assumption.
    + eapply T_cron_eff; eassumption.
  - unfold change_beneficiary in H. destruct nb as [nb|]; [|inv H; left; split; [discriminate|reflexivity]].
    destruct (cb_pending st c e nb q x) as [cd|pt] eqn:Ep.
    + inv H. left. split; [eapply cb_pending_inl; eassumption|reflexivity].
    + inv H. right. split; [reflexivity|constructor; assumption].
  - apply withdraw_spec in H as [(-> & Hr & Hc & Hf & Hb & amt & -> & Ha & Haf & ->)|(Hn & -> & _)].
    + right. split; [reflexivity|]. apply T_withdraw; assumption.
    + left. auto.
  - unfold change_peer in H. destruct (zmem c (control_set st)) eqn:Em; inv H.
    + right. split; [reflexivity|constructor; apply zmem_In; assumption].
    + left. split; [discriminate|reflexivity].
Qed.

(* conversely every Trans is what the model computes, with exit code OK *)
Theorem step_complete st o st' : Trans st o st' -> step st o = (st', OK).
Proof.
  intros H. destruct H; cbn [step].
  - unfold change_owner, clear_noop. cbn [negb]. rewrite Z.eqb_refl. cbn [orb negb]. fields.
    unfold set_pending_owner. destruct (new =? owner st); reflexivity.
  - unfold change_owner, clear_noop. cbn [negb].
    assert ((c =? owner st) = false) as -> by (apply Z.eqb_neq; assumption).
    rewrite H0. cbn [orb is_none]. rewrite !Z.eqb_refl. cbn [negb]. fields. rewrite Z.eqb_refl.
    reflexivity.
  - unfold change_worker.
    assert ((MAX_CONTROL_ADDRESSES <? Z.of_nat (length ctrls)) = false) as -> by (apply Z.ltb_ge; lia).
    rewrite H0, Z.eqb_refl. cbn [negb]. unfold set_worker_req. f_equal. f_equal.
    destruct (pending_worker st) as [k|]; cbn [is_none]; [rewrite andb_false_r; reflexivity|].
    rewrite andb_true_r. destruct (n =? worker st); reflexivity.
  - unfold confirm_worker. rewrite Z.eqb_refl. cbn [negb]. f_equal.
    unfold process_pending_worker. destruct H as [->|(n & eff & -> & Hl)]; [reflexivity|].
    assert ((e <? eff) = true) as -> by (apply Z.ltb_lt; assumption). reflexivity.
  - unfold confirm_worker. rewrite Z.eqb_refl. cbn [negb]. f_equal.
    unfold process_pending_worker. rewrite H.
    assert ((e <? eff) = false) as -> by (apply Z.ltb_ge; assumption). reflexivity.
  - f_equal. unfold process_pending_worker. destruct H as [->|(n & eff & -> & Hl)]; [reflexivity|].
    assert ((e <? eff) = true) as -> by (apply Z.ltb_lt; assumption). reflexivity.
  - f_equal. unfold process_pending_worker. rewrite H.
    assert ((e <? eff) = false) as -> by (apply Z.ltb_ge; assumption). reflexivity.
  - unfold change_beneficiary. rewrite H. reflexivity.
  - unfold withdraw.
    assert ((req <? 0) = false) as -> by (apply Z.ltb_ge; assumption).
    assert ((c =? owner st) || (c =? beneficiary st) = true) as ->.
    { apply orb_true_iff. destruct H0 as [->| ->]; rewrite Z.eqb_refl; auto. }
    cbn [negb].
    assert ((Z.min (funds st) req <? 0) = false) as -> by (apply Z.ltb_ge; lia).
    unfold withdrawn, wamount. destruct (beneficiary st =? owner st) eqn:Eb; cbn [negb].
    + reflexivity.
    + assert ((available (bterm st) e =? 0) = false) as ->.
      { apply Z.eqb_neq. destruct H2 as [He|Hp]; [zb; contradiction|lia]. }
      f_equal. f_equal. f_equal.
      set (a := Z.min (Z.min (funds st) req) (available (bterm st) e)) in *.
      destruct (0 <? a) eqn:Ea; zb; [reflexivity|]. f_equal. lia.
  - unfold change_peer. apply zmem_In in H. rewrite H. reflexivity.
Qed.

Theorem step_accepts_iff st o st' : step st o = (st', OK) <-> Trans st o st'.
Proof.
  split; [|apply step_complete].
  intros H. apply step_spec in H as [[Hn _]|[_ HT]]; [contradiction Hn; reflexivity|assumption].
Qed.

Theorem step_rejected_unchanged st o st' code : step st o = (st', code) -> code <> OK -> st' = st.
Proof. intros H Hn. apply step_spec in H as [[_ ->]|[-> _]]; [reflexivity|contradiction]. Qed.

(* ------------------------------------------------------------------------------------------ *)
(* exact accepted-caller sets, method by method *)

Definition accepted (st : state) (o : op) : Prop := snd (step st o) = OK.

Lemma accepted_iff st o : accepted st o <-> exists st', Trans st o st'.
Proof.
  unfold accepted. split.
  - intros H. destruct (step st o) as [st' code] eqn:Es. cbn [snd] in H. subst code.
    exists st'. apply step_accepts_iff. assumption.
  - intros [st' HT]. apply step_complete in HT. rewrite HT. reflexivity.
Qed.

Theorem change_owner_accepts_iff st c e new is_id :
  accepted st (ChangeOwner c e new is_id) <->
  is_id = true /\ (c = owner st \/ (pending_owner st = Some c /\ new = c)).
Proof.
  rewrite accepted_iff. split.
  - intros [st' HT]. inversion HT; subst; auto.
  - intros [-> [->|[Hp ->]]].
    + eexists. constructor.
    + destruct (Z.eq_dec c (owner st)) as [->|Hne]; eexists; [constructor|constructor; assumption].
Qed.

Theorem change_worker_accepts_iff st c e nw ctrls :
  accepted st (ChangeWorker c e nw ctrls) <->
  c = owner st /\ (exists n, nw = WOk n) /\
  Z.of_nat (length ctrls) <= MAX_CONTROL_ADDRESSES /\ resolve_all ctrls <> None.
Proof.
  rewrite accepted_iff. split.
  - intros [st' HT]. inversion HT; subst. repeat split; eauto. congruence.
  - intros (-> & [n ->] & Hl & Hr). destruct (resolve_all ctrls) as [cs|] eqn:Er; [|contradiction].
    eexists. constructor; eassumption.
Qed.

Theorem confirm_worker_accepts_iff st c e : accepted st (ConfirmWorker c e) <-> c = owner st.
Proof.
  rewrite accepted_iff. split.
  - intros [st' HT]. inversion HT; subst; reflexivity.
  - intros ->. destruct (ppw_spec st e) as [[_ Hp]|(n & eff & Hp & Hle & _)]; eexists.
    + apply T_confirm_noop. assumption.
    + eapply T_confirm_eff; eassumption.
Qed.

Theorem cron_always_accepted st e : accepted st (Cron e).
Proof. reflexivity. Qed.

Theorem change_beneficiary_accepts_iff st c e nb q x :
  accepted st (ChangeBeneficiary c e nb q x) <->
  exists b, nb = Some b /\
    ((c = owner st /\ (b <> owner st -> 0 < q) /\ (b = owner st -> q = 0 /\ x = 0)) \/
     (c <> owner st /\ exists pt, pending_term st = Some pt /\ (c = beneficiary st \/ c = pb_new pt) /\
        pb_new pt = b /\ pb_quota pt = q /\ pb_exp pt = x)).
Proof.
  rewrite accepted_iff. split.
  - intros [st' HT]. inversion HT; subst. exists nb0. split; [reflexivity|].
    match goal with H : cb_pending _ _ _ _ _ _ = inr _ |- _ =>
      apply cb_pending_inr in H as (Hn & Hq & Hx & [(Hc & _ & _ & H1 & H2)|(Hc & Hp & Hcc)]) end.
    + left. auto.
    + right. split; [assumption|]. exists pt. subst. repeat split; auto.
  - intros (b & -> & [(-> & H1 & H2)|(Hc & pt & Hp & Hcc & <- & <- & <-)]).
    + assert (exists pt, cb_pending st (owner st) e b q x = inr pt) as [pt Hpt].
      { unfold cb_pending. rewrite Z.eqb_refl. destruct (b =? owner st) eqn:Eb; cbn [negb]; zb.
        - destruct (H2 Eb) as [-> ->]. cbn. eexists; reflexivity.
        - specialize (H1 Eb). assert ((0 <? q) = true) as -> by (apply Z.ltb_lt; assumption).
          cbn [negb]. eexists; reflexivity. }
      eexists. constructor. eassumption.
    + exists (cb_apply st c (pb_new pt) pt). constructor.
      unfold cb_pending. assert ((c =? owner st) = false) as -> by (apply Z.eqb_neq; assumption).
      rewrite Hp, !Z.eqb_refl. cbn [negb].
      assert (negb (c =? beneficiary st) && negb (c =? pb_new pt) = false) as ->.
      { destruct Hcc as [->| ->]; rewrite Z.eqb_refl; cbn [negb]; [reflexivity|apply andb_false_r]. }
      reflexivity.
Qed.

Theorem withdraw_accepts_iff st c e req :
  accepted st (Withdraw c e req) <->
  0 <= req /\ (c = owner st \/ c = beneficiary st) /\ 0 <= funds st /\
  (beneficiary st = owner st \/ 0 < available (bterm st) e).
Proof.
  rewrite accepted_iff. split.
  - intros [st' HT]. inversion HT; subst. auto.
  - intros (Hr & Hc & Hf & Hb).
    eexists. apply T_withdraw; eassumption.
Qed.

Theorem change_peer_accepts_iff st c e :
  accepted st (ChangePeer c e) <-> In c (controls st) \/ c = worker st \/ c = owner st.
Proof.
  rewrite accepted_iff. split.
  - intros [st' HT]. inversion HT; subst.
    match goal with H : In _ (control_set _) |- _ =>
      unfold control_set in H; apply in_app_or in H as [H|[H|[H|[]]]] end; auto.
  - intros H. exists st. constructor. unfold control_set. apply in_or_app. cbn [In].
    destruct H as [H|[->| ->]]; auto.
Qed.

(* ------------------------------------------------------------------------------------------ *)
(* per-step theorems over ARBITRARY states (so every interleaving is covered) *)

Lemma cb_apply_frame st c nb pt :
  owner (cb_apply st c nb pt) = owner st /\ pending_owner (cb_apply st c nb pt) = pending_owner st /\
  worker (cb_apply st c nb pt) = worker st /\ pending_worker (cb_apply st c nb pt) = pending_worker st /\
  controls (cb_apply st c nb pt) = controls st /\ funds (cb_apply st c nb pt) = funds st.
Proof. unfold cb_apply. destruct (_ && _); fields; repeat split. Qed.

Ltac use_frame :=
  repeat match goal with
  | |- context [cb_apply ?st ?c ?nb ?pt] =>
      let F := fresh "F" in
      pose proof (cb_apply_frame st c nb pt) as F; destruct F as (? & ? & ? & ? & ? & ?);
      generalize dependent (cb_apply st c nb pt); intros
  | H : context [cb_apply ?st ?c ?nb ?pt] |- _ =>
      let F := fresh "F" in
      pose proof (cb_apply_frame st c nb pt) as F; destruct F as (? & ? & ? & ? & ? & ?);
      generalize dependent (cb_apply st c nb pt); intros
  end.

Ltac tr_inv HT :=
  inversion HT; subst;
  unfold set_pending_owner, handover, set_worker_req, made_effective, withdrawn in *; fields.

(* 1. the owner changes only when the pending owner itself confirms its own address *)
Theorem owner_step st o st' code :
  step st o = (st', code) -> owner st' <> owner st ->
  code = OK /\ exists e, o = ChangeOwner (owner st') e (owner st') true /\
    pending_owner st = Some (owner st') /\ st' = handover st (owner st').
Proof.
  intros H Hne. apply step_spec in H as [[_ ->]|[-> HT]]; [contradiction|].
  split; [reflexivity|].
  tr_inv HT; try contradiction; try (use_frame; congruence).
  exists e. repeat split; assumption.
Qed.

(* 2. a pending owner is set, replaced or revoked only by the owner; otherwise it disappears only
      because it confirmed and became the owner *)
Theorem pending_owner_step st o st' code :
  step st o = (st', code) -> pending_owner st' <> pending_owner st ->
  code = OK /\
  ((exists e new, o = ChangeOwner (owner st) e new true /\ owner st' = owner st /\
      pending_owner st' = (if new =? owner st then None else Some new)) \/
   (exists e, o = ChangeOwner (owner st') e (owner st') true /\
      pending_owner st = Some (owner st') /\ owner st' <> owner st /\ pending_owner st' = None)).
Proof.
  intros H Hne. apply step_spec in H as [[_ ->]|[-> HT]]; [contradiction|].
  split; [reflexivity|].
  tr_inv HT; try contradiction; try (use_frame; congruence).
  - left. exists e, new. repeat split.
  - right. exists e. repeat split; auto.
Qed.

(* 3. the worker changes only to the pending key, at or after its effective epoch, through the
      owner's ConfirmChangeWorkerAddress or the deadline cron *)
Theorem worker_step st o st' code :
  step st o = (st', code) -> worker st' <> worker st ->
  code = OK /\ exists eff, pending_worker st = Some (worker st', eff) /\ eff <= epoch_of o /\
    pending_worker st' = None /\ st' = made_effective st (worker st') /\
    ((exists e, o = ConfirmWorker (owner st) e) \/ (exists e, o = Cron e)).
Proof.
  intros H Hne. apply step_spec in H as [[_ ->]|[-> HT]]; [contradiction|].
  split; [reflexivity|].
  tr_inv HT; try contradiction; try (use_frame; congruence).
  - exists eff. repeat split; eauto.
  - exists eff. repeat split; eauto.
Qed.

(* 4. a pending worker key appears only through the owner's ChangeWorkerAddress, with
      effective_at = request epoch + WORKER_KEY_CHANGE_DELAY, is never replaced or withdrawn, and
      disappears only by taking effect *)
Theorem pending_worker_step st o st' code :
  step st o = (st', code) -> pending_worker st' <> pending_worker st ->
  code = OK /\
  ((exists n eff, pending_worker st = Some (n, eff) /\ pending_worker st' = None /\
      worker st' = n /\ eff <= epoch_of o /\
      ((exists e, o = ConfirmWorker (owner st) e) \/ (exists e, o = Cron e))) \/
   (pending_worker st = None /\ exists e n cs, o = ChangeWorker (owner st) e (WOk n) cs /\
      n <> worker st /\ pending_worker st' = Some (n, e + WORKER_KEY_CHANGE_DELAY) /\
      worker st' = worker st)).
Proof.
  intros H Hne. apply step_spec in H as [[_ ->]|[-> HT]]; [contradiction|].
  split; [reflexivity|].
  tr_inv HT; try contradiction; try (use_frame; congruence).
  - right. destruct (pending_worker st) as [k|] eqn:Ep; [contradiction|].
    split; [reflexivity|]. destruct (n =? worker st) eqn:En; [contradiction|]. zb.
    exists e, n, ctrls. repeat split; auto.
  - left. exists n, eff. repeat split; eauto.
  - left. exists n, eff. repeat split; eauto.
Qed.

(* 5. control addresses are rewritten only by the owner's ChangeWorkerAddress *)
Theorem controls_step st o st' code :
  step st o = (st', code) -> controls st' <> controls st ->
  code = OK /\ exists e n cs, o = ChangeWorker (owner st) e (WOk n) cs /\
    resolve_all cs = Some (controls st').
Proof.
  intros H Hne. apply step_spec in H as [[_ ->]|[-> HT]]; [contradiction|].
  split; [reflexivity|].
  tr_inv HT; try contradiction; try (use_frame; congruence).
  exists e, n, ctrls. split; [reflexivity|assumption].
Qed.

(* 6. the beneficiary changes only (a) together with the owner, when it was the owner itself, or
      (b) by a ChangeBeneficiary call after which the proposal in force carries both approvals *)
Definition both_approved (st : state) (c nb : Z) (pt : pterm) : Prop :=
  (pb_by_ben pt = true \/ c = beneficiary st) /\ (pb_by_nom pt = true \/ c = nb).

Lemma cb_apply_spec st c nb pt :
  (both_approved st c nb pt /\
   cb_apply st c nb pt =
     {| owner := owner st; pending_owner := pending_owner st; worker := worker st;
        pending_worker := pending_worker st; controls := controls st;
        beneficiary := nb;
        bterm := {| quota := pb_quota pt;
                    used := if nb =? beneficiary st then used (bterm st) else 0;
                    expiration := pb_exp pt |};
        pending_term := None; funds := funds st |}) \/
  (~ both_approved st c nb pt /\
   cb_apply st c nb pt =
     {| owner := owner st; pending_owner := pending_owner st; worker := worker st;
        pending_worker := pending_worker st; controls := controls st;
        beneficiary := beneficiary st; bterm := bterm st;
        pending_term := Some {| pb_new := pb_new pt; pb_quota := pb_quota pt; pb_exp := pb_exp pt;
                                pb_by_ben := pb_by_ben pt || (c =? beneficiary st);
                                pb_by_nom := pb_by_nom pt || (c =? nb) |};
        funds := funds st |}).
Proof.
  unfold cb_apply, both_approved.
  destruct (pb_by_ben pt) eqn:E1, (c =? beneficiary st) eqn:E2, (pb_by_nom pt) eqn:E3, (c =? nb) eqn:E4;
    cbn [orb andb]; zb;
    first [ left; split; [split; auto|]; f_equal; f_equal; destruct (nb =? beneficiary st); reflexivity
          | right; split; [|reflexivity]; intros [[?|?] [?|?]]; congruence ].
Qed.

Theorem beneficiary_step st o st' code :
  step st o = (st', code) -> beneficiary st' <> beneficiary st ->
  code = OK /\
  ((owner st' <> owner st /\ beneficiary st = owner st /\ beneficiary st' = owner st') \/
   (exists c e q x pt, o = ChangeBeneficiary c e (Some (beneficiary st')) q x /\
      cb_pending st c e (beneficiary st') q x = inr pt /\
      both_approved st c (beneficiary st') pt /\
      bterm st' = {| quota := q; used := 0; expiration := x |} /\
      pending_term st' = None /\ owner st' = owner st)).
Proof.
  intros H Hne. apply step_spec in H as [[_ ->]|[-> HT]]; [contradiction|].
  split; [reflexivity|].
  tr_inv HT; try contradiction.
  - left. destruct (beneficiary st =? owner st) eqn:Eb; [|contradiction]. zb. auto.
  - right. match goal with H : cb_pending _ _ _ _ _ _ = inr _ |- _ =>
      pose proof (cb_pending_inr _ _ _ _ _ _ _ H) as (Hn & Hq & Hx & _) end.
    destruct (cb_apply_spec st c nb pt) as [[Hb Heq]|[Hb Heq]]; rewrite Heq in *; fields;
      [|contradiction].
    exists c, e, q, x, pt. repeat split; auto; try apply Hb.
    destruct (nb =? beneficiary st) eqn:En; [zb; contradiction|]. subst. reflexivity.
Qed.

(* 7. the beneficiary term (quota, used_quota, expiration) changes only by a completed two-sided
      change, or its used_quota grows by a withdrawal of the owner/beneficiary within the quota *)
Theorem bterm_step st o st' code :
  step st o = (st', code) -> bterm st' <> bterm st ->
  code = OK /\
  ((exists c e nb q x pt, o = ChangeBeneficiary c e (Some nb) q x /\
      cb_pending st c e nb q x = inr pt /\ both_approved st c nb pt /\
      beneficiary st' = nb /\ quota (bterm st') = q /\ expiration (bterm st') = x /\
      used (bterm st') = (if nb =? beneficiary st then used (bterm st) else 0)) \/
   (exists c e req amt, o = Withdraw c e req /\ (c = owner st \/ c = beneficiary st) /\
      beneficiary st <> owner st /\ 0 < amt <= available (bterm st) e /\ amt <= req /\
      bterm st' = {| quota := quota (bterm st); used := used (bterm st) + amt;
                     expiration := expiration (bterm st) |} /\
      funds st' = funds st - amt /\ beneficiary st' = beneficiary st)).
Proof.
  intros H Hne. apply step_spec in H as [[_ ->]|[-> HT]]; [contradiction|].
  split; [reflexivity|].
  tr_inv HT; try contradiction.
  - left. match goal with H : cb_pending _ _ _ _ _ _ = inr _ |- _ =>
      pose proof (cb_pending_inr _ _ _ _ _ _ _ H) as (Hn & Hq & Hx & _) end.
    destruct (cb_apply_spec st c nb pt) as [[Hb Heq]|[Hb Heq]]; rewrite Heq in *; fields;
      [|contradiction].
    exists c, e, nb, q, x, pt. repeat split; auto; apply Hb.
  - right. destruct (beneficiary st =? owner st) eqn:Eb; [contradiction|]. zb.
    match goal with H1 : 0 <= req, H2 : 0 <= funds st, H3 : _ \/ 0 < available _ _ |- _ =>
      pose proof (wamount_bounds st e req H1 H2 H3) as (Hb1 & Hb2 & Hb3) end.
    specialize (Hb3 Eb).
    exists c, e, req, (wamount st e req). repeat split; auto; try lia.
    destruct (Z.eq_dec (wamount st e req) 0) as [E0|]; [|lia]. exfalso. apply Hne.
    rewrite E0. destruct (bterm st). cbn. f_equal. lia.
Qed.

(* 8. fate of a pending beneficiary proposal: it persists with the same parameters and only gains
      approvals (given by the current beneficiary / the nominee), or it is replaced by the OWNER,
      or it completes, or the owner handover cancels it *)
Definition pt_extends (pt pt' : pterm) : Prop :=
  pb_new pt' = pb_new pt /\ pb_quota pt' = pb_quota pt /\ pb_exp pt' = pb_exp pt /\
  (pb_by_ben pt = true -> pb_by_ben pt' = true) /\ (pb_by_nom pt = true -> pb_by_nom pt' = true).

Theorem pending_term_fate st o st' code pt :
  step st o = (st', code) -> pending_term st = Some pt ->
  pending_term st' = Some pt \/
  (code = OK /\
   ((exists pt' c e, pending_term st' = Some pt' /\ pt_extends pt pt' /\
       o = ChangeBeneficiary c e (Some (pb_new pt)) (pb_quota pt) (pb_exp pt) /\
       c <> owner st /\ (c = beneficiary st \/ c = pb_new pt)) \/
    (exists e nb q x, o = ChangeBeneficiary (owner st) e (Some nb) q x) \/
    (exists c e, o = ChangeBeneficiary c e (Some (pb_new pt)) (pb_quota pt) (pb_exp pt) /\
       c <> owner st /\ (c = beneficiary st \/ c = pb_new pt) /\ both_approved st c (pb_new pt) pt /\
       pending_term st' = None /\ beneficiary st' = pb_new pt /\
       quota (bterm st') = pb_quota pt /\ expiration (bterm st') = pb_exp pt) \/
    (exists e, o = ChangeOwner (owner st') e (owner st') true /\ owner st' <> owner st /\
       pending_owner st = Some (owner st') /\ pending_term st' = None))).
Proof.
  intros H Hp. apply step_spec in H as [[_ ->]|[-> HT]]; [left; assumption|].
  tr_inv HT; auto.
  - right. split; [reflexivity|]. right; right; right. exists e. repeat split; auto.
  - right. split; [reflexivity|].
    match goal with H : cb_pending _ _ _ _ _ _ = inr _ |- _ =>
      pose proof (cb_pending_inr _ _ _ _ _ _ _ H)
        as (Hn & Hq & Hx & [(Hc & _)|(Hc & Hp' & Hcc)]) end.
    { subst c. right; left. eauto. }
    rewrite Hp in Hp'. inv Hp'.
    destruct (cb_apply_spec st c (pb_new pt0) pt0) as [[Hb Heq]|[Hb Heq]]; rewrite Heq; fields.
    + right; right; left. exists c, e. repeat split; auto; apply Hb.
    + left. eexists _, c, e. split; [reflexivity|]. unfold pt_extends. fields.
      repeat split; auto; intros ->; reflexivity.
Qed.

(* 9. where a pending proposal comes from *)
Theorem pending_term_origin st o st' code pt' :
  step st o = (st', code) -> pending_term st' = Some pt' ->
  owner st' = owner st /\ beneficiary st' = beneficiary st /\
  (pending_term st = Some pt' \/
   (code = OK /\ exists c e, o = ChangeBeneficiary c e (Some (pb_new pt')) (pb_quota pt') (pb_exp pt') /\
      ((c = owner st /\ pb_by_ben pt' = (available (bterm st) e =? 0) || (c =? beneficiary st) /\
        pb_by_nom pt' = (c =? pb_new pt')) \/
       (c <> owner st /\ (c = beneficiary st \/ c = pb_new pt') /\
        exists pt, pending_term st = Some pt /\ pt_extends pt pt' /\
          pb_by_ben pt' = pb_by_ben pt || (c =? beneficiary st) /\
          pb_by_nom pt' = pb_by_nom pt || (c =? pb_new pt'))))).
Proof.
  intros H Hp. apply step_spec in H as [[_ ->]|[-> HT]]; [auto|].
  tr_inv HT; auto; try discriminate.
  match goal with H : cb_pending _ _ _ _ _ _ = inr _ |- _ =>
    pose proof (cb_pending_inr _ _ _ _ _ _ _ H)
      as (Hn & Hq & Hx & Hcase) end.
  destruct (cb_apply_spec st c nb pt) as [[Hb Heq]|[Hb Heq]]; rewrite Heq in *; fields;
    [discriminate|].
  split; [reflexivity|]. split; [reflexivity|]. right. split; [reflexivity|].
  injection Hp as Hp. rewrite <- Hp. fields. rewrite Hn, Hq, Hx.
  exists c, e. split; [reflexivity|].
  destruct Hcase as [(Hc & Hbb & Hbn & _)|(Hc & Hp' & Hcc)].
  - left. rewrite Hbb, Hbn. cbn [orb]. auto.
  - right. repeat split; auto. exists pt. unfold pt_extends. fields.
    repeat split; auto; intros ->; reflexivity.
Qed.

(* 10. a caller that is none of owner / pending owner / beneficiary / nominee changes NOTHING *)
Theorem strangers_change_nothing st o st' code c :
  step st o = (st', code) -> caller_of o = Some c ->
  c <> owner st -> pending_owner st <> Some c -> c <> beneficiary st ->
  (forall pt, pending_term st = Some pt -> c <> pb_new pt) ->
  st' = st.
Proof.
  intros H Hc Ho Hpo Hb Hn. apply step_spec in H as [[_ ->]|[-> HT]]; [reflexivity|].
  tr_inv HT; cbn [caller_of] in Hc; try discriminate; inv Hc; try contradiction; try reflexivity.
  - match goal with H : cb_pending _ _ _ _ _ _ = inr _ |- _ =>
      apply cb_pending_inr in H as (Hn' & _ & _ & [(? & _)|(_ & Hp' & [?|?])]) end;
      try contradiction.
    exfalso. apply (Hn _ Hp'). congruence.
  - match goal with H : _ = owner st \/ _ = beneficiary st |- _ => destruct H; contradiction end.
Qed.

(* 11. what a caller other than the owner can do at most *)
Theorem non_owner_limits st o st' code c :
  step st o = (st', code) -> caller_of o = Some c -> c <> owner st ->
  worker st' = worker st /\ pending_worker st' = pending_worker st /\ controls st' = controls st /\
  ((owner st' = owner st /\ pending_owner st' = pending_owner st) \/
   (pending_owner st = Some c /\ owner st' = c /\ pending_owner st' = None)) /\
  (forall pt', pending_term st' = Some pt' -> exists pt, pending_term st = Some pt /\ pt_extends pt pt').
Proof.
  intros H Hc Ho. apply step_spec in H as [[_ ->]|[-> HT]].
  { repeat split; auto. intros pt' Hp. exists pt'. unfold pt_extends. repeat split; auto. }
  assert (forall st pt', pending_term st = Some pt' -> exists pt, pending_term st = Some pt /\ pt_extends pt pt') as Hrefl.
  { intros s pt' Hp. exists pt'. unfold pt_extends. repeat split; auto. }
  tr_inv HT; cbn [caller_of] in Hc; try discriminate; inv Hc; try contradiction;
    try (repeat split; auto; fail).
  - repeat split; auto. discriminate.
  - destruct (cb_apply_frame st c nb pt) as (F1 & F2 & F3 & F4 & F5 & F6).
    rewrite F1, F2, F3, F4, F5. repeat split; auto.
    intros pt' Hp'.
    match goal with H : cb_pending _ _ _ _ _ _ = inr _ |- _ =>
      apply cb_pending_inr in H as (Hn' & Hq & Hx & [(? & _)|(_ & Hp & Hcc)]) end; [contradiction|].
    exists pt. split; [assumption|].
    destruct (cb_apply_spec st c nb pt) as [[Hb Heq]|[Hb Heq]]; rewrite Heq in Hp'; fields;
      [discriminate|]. inv Hp'. unfold pt_extends. fields.
    repeat split; auto; intros ->; reflexivity.
Qed.

(* 12. until a handover completes the previous party keeps its rights: the designated caller sets
       (owner-gated, control-gated, payout) are unchanged by any step that does not complete one *)
Theorem rights_retained st o st' code :
  step st o = (st', code) ->
  ((forall e p, o = ChangeOwner p e p true -> pending_owner st <> Some p) -> owner st' = owner st) /\
  ((forall n eff, pending_worker st = Some (n, eff) -> epoch_of o < eff) -> worker st' = worker st) /\
  ((forall c e nb q x, o <> ChangeBeneficiary c e (Some nb) q x) -> owner st' = owner st ->
     beneficiary st' = beneficiary st /\ quota (bterm st') = quota (bterm st) /\
     expiration (bterm st') = expiration (bterm st)).
Proof.
  intros H. split; [|split].
  - intros Hn. destruct (Z.eq_dec (owner st') (owner st)) as [|Hne]; [assumption|].
    destruct (owner_step _ _ _ _ H Hne) as (_ & e & -> & Hp & _). exfalso. eapply Hn; eauto.
  - intros Hn. destruct (Z.eq_dec (worker st') (worker st)) as [|Hne]; [assumption|].
    destruct (worker_step _ _ _ _ H Hne) as (_ & eff & Hp & Hle & _). specialize (Hn _ _ Hp). lia.
  - intros Hn Ho. apply step_spec in H as [[_ ->]|[-> HT]]; [auto|].
    tr_inv HT; auto.
    + contradiction.
    + exfalso. eapply Hn. reflexivity.
    + destruct (beneficiary st =? owner st); fields; auto.
Qed.

Corollary owner_rights_retained st o st' code :
  step st o = (st', code) ->
  (forall e p, o = ChangeOwner p e p true -> pending_owner st <> Some p) ->
  forall c e, (accepted st' (ConfirmWorker c e) <-> accepted st (ConfirmWorker c e)) /\
    (forall nw cs, accepted st' (ChangeWorker c e nw cs) <-> accepted st (ChangeWorker c e nw cs)) /\
    (forall new, c <> new -> accepted st' (ChangeOwner c e new true) <-> accepted st (ChangeOwner c e new true)).
Proof.
  intros H Hn c e. destruct (rights_retained _ _ _ _ H) as (Ho & _). specialize (Ho Hn).
  split; [|split].
  - rewrite !confirm_worker_accepts_iff, Ho. tauto.
  - intros. rewrite !change_worker_accepts_iff, Ho. tauto.
  - intros new Hcn. rewrite !change_owner_accepts_iff, Ho. intuition congruence.
Qed.

Corollary worker_rights_retained st o st' code :
  step st o = (st', code) ->
  (forall n eff, pending_worker st = Some (n, eff) -> epoch_of o < eff) ->
  (forall e n cs, o <> ChangeWorker (owner st) e (WOk n) cs) ->
  (forall e p, o = ChangeOwner p e p true -> pending_owner st <> Some p) ->
  forall c e, accepted st' (ChangePeer c e) <-> accepted st (ChangePeer c e).
Proof.
  intros H Hw Hcw Hco c e. destruct (rights_retained _ _ _ _ H) as (Ho & Hwk & _).
  rewrite !change_peer_accepts_iff, (Ho Hco), (Hwk Hw).
  destruct (list_eq_dec Z.eq_dec (controls st') (controls st)) as [->|Hne]; [tauto|].
  destruct (controls_step _ _ _ _ H Hne) as (_ & e' & n & cs & -> & _). exfalso. eapply Hcw; reflexivity.
Qed.

(* ------------------------------------------------------------------------------------------ *)
(* history theorems: induction over arbitrary operation lists, from any state with nothing pending
   (in particular the constructor's state `init`) *)

Lemma optZ_dec (a b : option Z) : {a = b} + {a <> b}.
Proof. decide equality. apply Z.eq_dec. Qed.

Lemma optZZ_dec (a b : option (Z * Z)) : {a = b} + {a <> b}.
Proof. decide equality. decide equality; apply Z.eq_dec. Qed.

Lemma step_pair st o : step st o = (fst (step st o), snd (step st o)).
Proof. destruct (step st o); reflexivity. Qed.

(* -- owner -- *)
(* a pending owner was put there by an accepted ChangeOwnerAddress of the current owner *)
Theorem pending_owner_origin st0 ops :
  pending_owner st0 = None ->
  forall p, pending_owner (run st0 ops) = Some p ->
  exists x e0, In x (trace st0 ops) /\ ev_op x = ChangeOwner (owner (ev_pre x)) e0 p true /\
    ev_code x = OK /\ owner (ev_pre x) = owner (run st0 ops).
Proof.
  intros H0. induction ops as [|o ops IH] using rev_ind; intros p Hp.
  { cbn in Hp. congruence. }
  rewrite run_snoc in *. rewrite trace_snoc.
  set (st := run st0 ops) in *. pose proof (step_pair st o) as Es.
  destruct (optZ_dec (pending_owner (fst (step st o))) (pending_owner st)) as [Heq|Hne].
  - rewrite Heq in Hp. destruct (IH _ Hp) as (x & e0 & Hin & Hop & Hc & Ho).
    exists x, e0. repeat split; auto; [apply in_or_app; left; assumption|].
    destruct (Z.eq_dec (owner (fst (step st o))) (owner st)) as [->|Hno]; [assumption|].
    destruct (owner_step _ _ _ _ Es Hno) as (_ & e & _ & _ & Hst).
    rewrite Hst in Heq. cbn in Heq. congruence.
  - destruct (pending_owner_step _ _ _ _ Es Hne) as (Hc & [(e & new & Ho & Hown & Hp')|(e & _ & _ & _ & Hp')]);
      [|congruence].
    rewrite Hp in Hp'. destruct (new =? owner st); [discriminate|]. injection Hp' as Hpn.
    rewrite Hpn.
    eexists {| ev_pre := st; ev_op := o; ev_code := snd (step st o) |}, e.
    cbn [ev_pre ev_op ev_code]. repeat split; auto. apply in_or_app; right; left; reflexivity.
Qed.

Theorem owner_changes_only_by_handshake st0 ops o :
  pending_owner st0 = None ->
  let st := run st0 ops in
  let st' := fst (step st o) in
  owner st' <> owner st ->
  exists e, o = ChangeOwner (owner st') e (owner st') true /\ snd (step st o) = OK /\
    pending_owner st = Some (owner st') /\
    exists x e0, In x (trace st0 ops) /\
      ev_op x = ChangeOwner (owner st) e0 (owner st') true /\ ev_code x = OK /\
      owner (ev_pre x) = owner st.
Proof.
  intros H0 st st' Hne. pose proof (step_pair st o) as Es.
  destruct (owner_step _ _ _ _ Es Hne) as (Hc & e & Ho & Hp & _).
  exists e. repeat split; auto.
  destruct (pending_owner_origin st0 ops H0 _ Hp) as (x & e0 & Hin & Hop & Hcx & Hox).
  exists x, e0. repeat split; auto. rewrite Hop. fold st in Hox. rewrite Hox. reflexivity.
Qed.

(* -- worker -- *)
Theorem pending_worker_origin st0 ops :
  pending_worker st0 = None ->
  forall n eff, pending_worker (run st0 ops) = Some (n, eff) ->
  exists x e0 cs, In x (trace st0 ops) /\
    ev_op x = ChangeWorker (owner (ev_pre x)) e0 (WOk n) cs /\ ev_code x = OK /\
    eff = e0 + WORKER_KEY_CHANGE_DELAY.
Proof.
  intros H0. induction ops as [|o ops IH] using rev_ind; intros n eff Hp.
  { cbn in Hp. congruence. }
  rewrite run_snoc in *. rewrite trace_snoc.
  set (st := run st0 ops) in *. pose proof (step_pair st o) as Es.
  destruct (optZZ_dec (pending_worker (fst (step st o))) (pending_worker st)) as [Heq|Hne].
  - rewrite Heq in Hp. destruct (IH _ _ Hp) as (x & e0 & cs & Hin & Hop & Hc & He).
    exists x, e0, cs. repeat split; auto. apply in_or_app; left; assumption.
  - destruct (pending_worker_step _ _ _ _ Es Hne)
      as (Hc & [(n' & eff' & _ & Hp' & _)|(_ & e & n' & cs & Ho & _ & Hp' & _)]); [congruence|].
    rewrite Hp in Hp'. injection Hp' as Hn1 Hn2. rewrite Hn1, Hn2.
    eexists {| ev_pre := st; ev_op := o; ev_code := snd (step st o) |}, e, cs.
    cbn [ev_pre ev_op ev_code]. repeat split; auto. apply in_or_app; right; left; reflexivity.
Qed.

Theorem worker_delay st0 ops o :
  pending_worker st0 = None ->
  let st := run st0 ops in
  let st' := fst (step st o) in
  worker st' <> worker st ->
  exists x e0 cs, In x (trace st0 ops) /\
    ev_op x = ChangeWorker (owner (ev_pre x)) e0 (WOk (worker st')) cs /\ ev_code x = OK /\
    e0 + WORKER_KEY_CHANGE_DELAY <= epoch_of o /\
    ((exists e, o = ConfirmWorker (owner st) e) \/ (exists e, o = Cron e)).
Proof.
  intros H0 st st' Hne. pose proof (step_pair st o) as Es.
  destruct (worker_step _ _ _ _ Es Hne) as (_ & eff & Hp & Hle & _ & _ & Hby).
  destruct (pending_worker_origin st0 ops H0 _ _ Hp) as (x & e0 & cs & Hin & Hop & Hc & ->).
  exists x, e0, cs. repeat split; auto.
Qed.

(* -- beneficiary -- *)
Definition approval (who nb q x : Z) (y : ev) : Prop :=
  exists e, ev_op y = ChangeBeneficiary who e (Some nb) q x /\ ev_code y = OK.

Definition approved_in (who nb q x : Z) (l : list ev) : Prop :=
  exists y, In y l /\ approval who nb q x y.

Lemma approved_in_snoc who nb q x l y : approved_in who nb q x l -> approved_in who nb q x (l ++ [y]).
Proof. intros (z & Hin & Ha). exists z. split; [apply in_or_app; left|]; assumption. Qed.

Lemma approved_in_last who nb q x l y : approval who nb q x y -> approved_in who nb q x (l ++ [y]).
Proof. intros Ha. exists y. split; [apply in_or_app; right; left; reflexivity|assumption]. Qed.

(* the proposal `pt` pending now was made by the owner (who still is the owner) while the
   beneficiary was the current one; every approval flag it carries is backed by an accepted call of
   the respective party made since, or (beneficiary side) by an exhausted/expired term at proposal
   time *)
Definition backed (st0 : state) (ops : list op) (st : state) (nb q x : Z) (by_ben by_nom : Prop) : Prop :=
  exists tr1 xp mid ep, trace st0 ops = tr1 ++ xp :: mid /\
    ev_op xp = ChangeBeneficiary (owner st) ep (Some nb) q x /\ ev_code xp = OK /\
    owner (ev_pre xp) = owner st /\ beneficiary (ev_pre xp) = beneficiary st /\
    (by_ben -> available (bterm (ev_pre xp)) ep = 0 \/ approved_in (beneficiary st) nb q x (xp :: mid)) /\
    (by_nom -> approved_in nb nb q x (xp :: mid)).

Theorem pending_term_backed st0 ops :
  pending_term st0 = None ->
  forall pt, pending_term (run st0 ops) = Some pt ->
  backed st0 ops (run st0 ops) (pb_new pt) (pb_quota pt) (pb_exp pt)
         (pb_by_ben pt = true) (pb_by_nom pt = true).
Proof.
  intros H0. unfold backed. induction ops as [|o ops IH] using rev_ind; intros pt' Hp.
  { cbn in Hp. congruence. }
  rewrite run_snoc in *. rewrite trace_snoc.
  set (st := run st0 ops) in *. pose proof (step_pair st o) as Es.
  set (y := {| ev_pre := st; ev_op := o; ev_code := snd (step st o) |}).
  destruct (pending_term_origin _ _ _ _ _ Es Hp) as (Ho & Hb & [Hsame|(Hc & c & e & Hop & Hcase)]).
  - destruct (IH _ Hsame) as (tr1 & xp & mid & ep & Htr & Hxp & Hcx & Hox & Hbx & Hben & Hnom).
    exists tr1, xp, (mid ++ [y]), ep. rewrite Htr, Ho, Hb. rewrite <- app_assoc. cbn [app].
    repeat split; auto.
    + intros Hf. destruct (Hben Hf) as [|Ha]; [left; assumption|right].
      apply (approved_in_snoc _ _ _ _ (xp :: mid)). assumption.
    + intros Hf. apply (approved_in_snoc _ _ _ _ (xp :: mid)). auto.
  - assert (approval c (pb_new pt') (pb_quota pt') (pb_exp pt') y) as Hy.
    { exists e. split; assumption. }
    destruct Hcase as [(-> & Hbb & Hbn)|(Hco & Hcc & pt & Hpt & Hext & Hbb & Hbn)].
    + exists (trace st0 ops), y, [], e. rewrite Ho, Hb. cbn [ev_pre ev_op ev_code y].
      repeat split; auto.
      * intros Hf. rewrite Hf in Hbb. symmetry in Hbb. apply orb_true_iff in Hbb as [Hz|Hz]; zb.
        -- left. assumption.
        -- right. exists y. split; [left; reflexivity|]. rewrite <- Hz. assumption.
      * intros Hf. rewrite Hf in Hbn. symmetry in Hbn. zb.
        exists y. split; [left; reflexivity|]. rewrite <- Hbn at 1. assumption.
    + destruct Hext as (En & Eq & Ex & _ & _).
      destruct (IH _ Hpt) as (tr1 & xp & mid & ep & Htr & Hxp & Hcx & Hox & Hbx & Hben & Hnom).
      rewrite <- En, <- Eq, <- Ex in *.
      exists tr1, xp, (mid ++ [y]), ep. rewrite Htr, Ho, Hb. rewrite <- app_assoc. cbn [app].
      repeat split; auto.
      * intros Hf. rewrite Hf in Hbb. symmetry in Hbb. apply orb_true_iff in Hbb as [Hz|Hz].
        -- destruct (Hben Hz) as [|Ha]; [left; assumption|right].
           apply (approved_in_snoc _ _ _ _ (xp :: mid)). assumption.
        -- zb. right. apply (approved_in_last _ _ _ _ (xp :: mid)). rewrite <- Hz. assumption.
      * intros Hf. rewrite Hf in Hbn. symmetry in Hbn. apply orb_true_iff in Hbn as [Hz|Hz].
        -- apply (approved_in_snoc _ _ _ _ (xp :: mid)). auto.
        -- zb. apply (approved_in_last _ _ _ _ (xp :: mid)). rewrite <- Hz at 1. assumption.
Qed.

Theorem beneficiary_two_sided st0 ops o :
  pending_term st0 = None ->
  let st := run st0 ops in
  let st' := fst (step st o) in
  beneficiary st' <> beneficiary st ->
  (* (a) the beneficiary was the owner and followed the owner handshake *)
  (owner st' <> owner st /\ beneficiary st = owner st /\ beneficiary st' = owner st') \/
  (* (b) a proposal of the owner, approved by the nominee and by the current beneficiary (or the
         current term had nothing available when it was proposed) *)
  (exists c e q x, o = ChangeBeneficiary c e (Some (beneficiary st')) q x /\ snd (step st o) = OK /\
     quota (bterm st') = q /\ expiration (bterm st') = x /\ used (bterm st') = 0 /\
     backed st0 (ops ++ [o]) st (beneficiary st') q x True True).
Proof.
  intros H0 st st' Hne. pose proof (step_pair st o) as Es.
  destruct (beneficiary_step _ _ _ _ Es Hne)
    as (Hc & [?|(c & e & q & x & pt & Ho & Hcb & [Hb1 Hb2] & Hterm & _ & Hown)]); [left; assumption|].
  right. exists c, e, q, x. unfold st'. rewrite Hterm. cbn [quota used expiration].
  repeat split; auto.
  unfold backed. rewrite trace_snoc. fold st.
  set (y := {| ev_pre := st; ev_op := o; ev_code := snd (step st o) |}).
  assert (approval c (beneficiary st') q x y) as Hy by (exists e; split; assumption).
  destruct (cb_pending_inr _ _ _ _ _ _ _ Hcb)
    as (En & Eq & Ex & [(Hco & Hbb & Hbn & _)|(Hco & Hpt & Hcc)]).
  - exists (trace st0 ops), y, [], e. cbn [ev_pre ev_op ev_code y]. subst c.
    repeat split; auto.
    + intros _. destruct Hb1 as [Hz|Hz].
      * rewrite Hbb in Hz. zb. left. assumption.
      * right. exists y. split; [left; reflexivity|]. rewrite <- Hz. assumption.
    + intros _. destruct Hb2 as [Hz|Hz]; [congruence|].
      exists y. split; [left; reflexivity|]. rewrite <- Hz at 1. assumption.
  - pose proof (pending_term_backed st0 ops H0 _ Hpt) as HB. unfold backed in HB.
    destruct HB as (tr1 & xp & mid & ep & Htr & Hxp & Hcx & Hox & Hbx & Hben & Hnom).
    fold st in Hxp, Hox, Hbx, Hben. rewrite En, Eq, Ex in *.
    exists tr1, xp, (mid ++ [y]), ep. rewrite Htr. rewrite <- app_assoc. cbn [app].
    repeat split; auto.
    + intros _. destruct Hb1 as [Hz|Hz].
      * destruct (Hben Hz) as [|Ha]; [left; assumption|right].
        apply (approved_in_snoc _ _ _ _ (xp :: mid)). assumption.
      * right. apply (approved_in_last _ _ _ _ (xp :: mid)). rewrite <- Hz. assumption.
    + intros _. destruct Hb2 as [Hz|Hz].
      * apply (approved_in_snoc _ _ _ _ (xp :: mid)). auto.
      * apply (approved_in_last _ _ _ _ (xp :: mid)). rewrite <- Hz at 1. assumption.
Qed.

Lemma init_fresh o w cs bal :
  pending_owner (init o w cs bal) = None /\ pending_worker (init o w cs bal) = None /\
  pending_term (init o w cs bal) = None.
Proof. repeat split. Qed.

(* ------------------------------------------------------------------------------------------ *)
(* a pending handover is withdrawn (revoked / replaced) only by the owner; otherwise it stays, gains
   approvals, or completes.  A pending worker key cannot be withdrawn at all. *)
Theorem only_owner_withdraws_handover st o st' code :
  step st o = (st', code) ->
  (forall p, pending_owner st = Some p ->
     pending_owner st' = Some p \/ (exists e new, o = ChangeOwner (owner st) e new true) \/
     (owner st' = p /\ exists e, o = ChangeOwner p e p true)) /\
  (forall n eff, pending_worker st = Some (n, eff) ->
     (pending_worker st' = Some (n, eff) /\ worker st' = worker st) \/
     (pending_worker st' = None /\ worker st' = n /\ eff <= epoch_of o)) /\
  (forall pt, pending_term st = Some pt ->
     (exists pt', pending_term st' = Some pt' /\ pt_extends pt pt') \/
     (exists e nb q x, o = ChangeBeneficiary (owner st) e (Some nb) q x) \/
     (pending_term st' = None /\ beneficiary st' = pb_new pt /\
      quota (bterm st') = pb_quota pt /\ expiration (bterm st') = pb_exp pt) \/
     (pending_term st' = None /\ owner st' <> owner st /\ pending_owner st = Some (owner st'))).
Proof.
  intros H. split; [|split].
  - intros p Hp. destruct (optZ_dec (pending_owner st') (pending_owner st)) as [Heq|Hne].
    + left. congruence.
    + destruct (pending_owner_step _ _ _ _ H Hne) as (_ & [(e & new & Ho & _)|(e & Ho & Hp' & _)]).
      * right; left. eauto.
      * right; right. rewrite Hp in Hp'. injection Hp' as Hpp.
        split; [congruence|]. exists e. rewrite Hpp. assumption.
  - intros n eff Hp. destruct (optZZ_dec (pending_worker st') (pending_worker st)) as [Heq|Hne].
    + left. split; [congruence|].
      destruct (Z.eq_dec (worker st') (worker st)) as [|Hw]; [assumption|].
      destruct (worker_step _ _ _ _ H Hw) as (_ & eff' & _ & _ & Hn & _). congruence.
    + destruct (pending_worker_step _ _ _ _ H Hne)
        as (_ & [(n' & eff' & Hp' & Hn & Hw & Hle & _)|(Hp' & _)]); [|congruence].
      right. rewrite Hp in Hp'. injection Hp' as Hn1 Hn2. subst n' eff'. auto.
  - intros pt Hp. destruct (pending_term_fate _ _ _ _ _ H Hp)
      as [Hs|(_ & [(pt' & c & e & Hp' & Hext & _)|[Hrep|[(c & e & _ & _ & _ & _ & Hn & Hb & Hq & Hx)|(e & _ & Hno & Hpo & Hn)]]])].
    + left. exists pt. split; [assumption|]. unfold pt_extends. repeat split; auto.
    + left. eauto.
    + right; left. assumption.
    + right; right; left. auto.
    + right; right; right. auto.
Qed.

(* an accepted withdrawal is made by the owner or the beneficiary, pays at most the request, the
   balance and - for a beneficiary other than the owner - what is left of the quota, and advances
   used_quota by exactly the amount paid; nothing else changes *)
Theorem withdraw_within_quota st c e req st' :
  step st (Withdraw c e req) = (st', OK) ->
  (c = owner st \/ c = beneficiary st) /\
  let paid := funds st - funds st' in
  0 <= paid <= req /\ paid <= funds st /\
  (beneficiary st <> owner st ->
     0 < available (bterm st) e /\ paid <= available (bterm st) e /\
     used (bterm st') = used (bterm st) + paid) /\
  (beneficiary st = owner st -> bterm st' = bterm st) /\
  owner st' = owner st /\ pending_owner st' = pending_owner st /\ worker st' = worker st /\
  pending_worker st' = pending_worker st /\ controls st' = controls st /\
  beneficiary st' = beneficiary st /\ quota (bterm st') = quota (bterm st) /\
  expiration (bterm st') = expiration (bterm st) /\ pending_term st' = pending_term st.
Proof.
  intros H. apply step_accepts_iff in H. inversion H; subst.
  match goal with H1 : 0 <= req, H2 : 0 <= funds st, H3 : _ \/ 0 < available _ _ |- _ =>
    pose proof (wamount_bounds st e req H1 H2 H3) as (Hb1 & Hb2 & Hb3);
    rename H3 into Hav end.
  split; [assumption|]. unfold withdrawn. fields.
  replace (funds st - (funds st - wamount st e req)) with (wamount st e req) by lia.
  destruct (beneficiary st =? owner st) eqn:Eb; zb; fields; repeat split; auto; try lia;
    try (intros; contradiction);
    try (intros _; destruct Hav; [contradiction|assumption]);
    try (intros _; apply Hb3; assumption).
Qed.
