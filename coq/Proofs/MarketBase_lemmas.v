(* Base lemmas about coq/Model/Market.v shared by C06, C07, C08: sums over finite maps, the balance
   table, and the effect of the balance primitives (unlock / transfer / slash / lock). *)
From stdpp Require Import gmap.
From Coq Require Import ZArith List Bool Lia.
From VF Require Import Gen.Consts Gen.MarketConsts Base.Corr Model.Market.
Import ListNotations.
Open Scope Z_scope.

Ltac zb :=
  repeat match goal with
  | H : (_ =? _) = true |- _ => apply Z.eqb_eq in H
  | H : (_ =? _) = false |- _ => apply Z.eqb_neq in H
  | H : (_ <? _) = true |- _ => apply Z.ltb_lt in H
  | H : (_ <? _) = false |- _ => apply Z.ltb_ge in H
  | H : (_ <=? _) = true |- _ => apply Z.leb_le in H
  | H : (_ <=? _) = false |- _ => apply Z.leb_gt in H
  | H : negb _ = true |- _ => apply negb_true_iff in H
  | H : negb _ = false |- _ => apply negb_false_iff in H
  | H : (_ && _) = true |- _ => apply andb_true_iff in H; destruct H
  | H : (_ || _) = false |- _ => apply orb_false_iff in H; destruct H
  end.

(* Iverson bracket *)
Definition ind (x a v : Z) : Z := if x =? a then v else 0.

Lemma ind_same a v : ind a a v = v.
Proof. unfold ind. now rewrite Z.eqb_refl. Qed.
Lemma ind_diff x a v : x <> a -> ind x a v = 0.
Proof. unfold ind. intros. destruct (x =? a) eqn:E; zb; [contradiction|reflexivity]. Qed.
Lemma ind_0 x a : ind x a 0 = 0.
Proof. unfold ind. now destruct (x =? a). Qed.
Lemma ind_add x a u v : ind x a (u + v) = ind x a u + ind x a v.
Proof. unfold ind. destruct (x =? a); lia. Qed.
Lemma ind_nonneg x a v : 0 <= v -> 0 <= ind x a v.
Proof. unfold ind. destruct (x =? a); lia. Qed.

Ltac ind_case x y :=
  let e := fresh "e" in
  destruct (Z.eq_dec x y) as [e|e];
  [ first [subst x | subst y | rewrite ?e in *]; rewrite ?ind_same in *
  | rewrite ?(ind_diff x y) in * by lia ].
Ltac ind_cases :=
  repeat match goal with
  | |- context [ind ?x ?y _] => ind_case x y
  | H : context [ind ?x ?y _] |- _ => ind_case x y
  end; try lia.

(* ------------------------------------------------------------------------------------------ *)
(* sums over a finite map *)
Section Msum.
  Context {K : Type} `{Countable K} {A : Type}.
  Definition msum (f : K -> A -> Z) (m : gmap K A) : Z :=
    map_fold (fun k x acc => f k x + acc) 0 m.

  Lemma msum_empty f : msum f ∅ = 0.
  Proof. unfold msum. apply map_fold_empty. Qed.

  Lemma msum_insert f m i x : m !! i = None -> msum f (<[i:=x]> m) = f i x + msum f m.
  Proof.
    intros Hi. unfold msum.
    rewrite (map_fold_insert_L (fun k x acc => f k x + acc) 0 i x m); [reflexivity| |exact Hi].
    intros. lia.
  Qed.

  Lemma msum_delete f m i x : m !! i = Some x -> msum f m = f i x + msum f (delete i m).
  Proof.
    intros Hi. rewrite <- (insert_delete m i x Hi) at 1.
    apply msum_insert. apply lookup_delete.
  Qed.

  Lemma msum_ext f g m : (forall k x, m !! k = Some x -> f k x = g k x) -> msum f m = msum g m.
  Proof.
    unfold msum. revert m.
    apply (map_fold_ind (fun r m => (forall k x, m !! k = Some x -> f k x = g k x) ->
             r = map_fold (fun k x acc => g k x + acc) 0 m)).
    - intros _. now rewrite map_fold_empty.
    - intros i x m r Hi IH Hfg.
      rewrite map_fold_insert_L; [|intros; lia|exact Hi].
      rewrite (Hfg i x) by apply lookup_insert.
      f_equal. apply IH. intros k y Hk. apply Hfg.
      rewrite lookup_insert_ne; [exact Hk|]. intros ->. congruence.
  Qed.

  Lemma msum_nonneg f m : (forall k x, m !! k = Some x -> 0 <= f k x) -> 0 <= msum f m.
  Proof.
    unfold msum. revert m.
    apply (map_fold_ind (fun r m => (forall k x, m !! k = Some x -> 0 <= f k x) -> 0 <= r)).
    - intros _. lia.
    - intros i x m r Hi IH Hf.
      assert (0 <= f i x) by (apply Hf, lookup_insert).
      assert (0 <= r); [|lia].
      apply IH. intros k y Hk. apply Hf. rewrite lookup_insert_ne; [exact Hk|]. intros ->. congruence.
  Qed.

  Lemma msum_insert_any f m i x :
    msum f (<[i:=x]> m) = f i x + msum f m - match m !! i with Some y => f i y | None => 0 end.
  Proof.
    destruct (m !! i) as [y|] eqn:Hi.
    - rewrite <- (insert_delete_insert m i x).
      rewrite msum_insert by apply lookup_delete.
      rewrite (msum_delete f m i y Hi). lia.
    - rewrite msum_insert by exact Hi. lia.
  Qed.

  Lemma msum_ge f m i x : (forall k y, m !! k = Some y -> 0 <= f k y) -> m !! i = Some x -> f i x <= msum f m.
  Proof.
    intros Hf Hi. rewrite (msum_delete f m i x Hi).
    assert (0 <= msum f (delete i m)); [|lia].
    apply msum_nonneg. intros k y Hk. apply lookup_delete_Some in Hk as [_ Hk]. eauto.
  Qed.
End Msum.

(* ------------------------------------------------------------------------------------------ *)
(* balance table *)
Definition bt_upd (t : gmap Z Z) (k v : Z) : gmap Z Z :=
  let prev := bt_get t k in
  let sum := prev + v in
  if (sum =? 0) && negb (prev =? 0) then delete k t else <[k := sum]> t.

Lemma bt_add_ok t k v : 0 <= bt_get t k + v -> bt_add t k v = Some (bt_upd t k v).
Proof.
  intros H. unfold bt_add, bt_upd. cbn zeta.
  destruct (bt_get t k + v <? 0) eqn:E; zb; [lia|].
  now destruct ((bt_get t k + v =? 0) && negb (bt_get t k =? 0)).
Qed.

Lemma bt_add_inv t k v t' : bt_add t k v = Some t' -> 0 <= bt_get t k + v /\ t' = bt_upd t k v.
Proof.
  unfold bt_add, bt_upd. cbn zeta.
  destruct (bt_get t k + v <? 0) eqn:E; [discriminate|]. zb.
  destruct ((bt_get t k + v =? 0) && negb (bt_get t k =? 0)); intros [= <-]; auto.
Qed.

Lemma bt_get_upd t k v x : bt_get (bt_upd t k v) x = bt_get t x + ind x k v.
Proof.
  unfold bt_upd, bt_get at 1. cbn zeta.
  destruct ((bt_get t k + v =? 0) && negb (bt_get t k =? 0)) eqn:E.
  - zb. destruct (Z.eq_dec x k) as [->|Hn].
    + rewrite lookup_delete, ind_same. cbn. lia.
    + rewrite lookup_delete_ne by congruence. rewrite ind_diff by exact Hn. unfold bt_get. lia.
  - destruct (Z.eq_dec x k) as [->|Hn].
    + rewrite lookup_insert, ind_same. reflexivity.
    + rewrite lookup_insert_ne by congruence. rewrite ind_diff by exact Hn. unfold bt_get. lia.
Qed.

Definition bsum (t : gmap Z Z) : Z := msum (fun _ v => v) t.

Lemma bsum_upd t k v : bsum (bt_upd t k v) = bsum t + v.
Proof.
  unfold bsum, bt_upd. cbn zeta. unfold bt_get.
  destruct (t !! k) as [y|] eqn:Hk; cbn [default from_option id].
  - destruct ((y + v =? 0) && negb (y =? 0)) eqn:E.
    + zb. rewrite (msum_delete _ t k y Hk). lia.
    + rewrite msum_insert_any, Hk. lia.
  - replace ((0 + v =? 0) && negb (0 =? 0)) with false by (cbn; now rewrite andb_false_r).
    rewrite msum_insert by exact Hk. lia.
Qed.

Lemma bsum_ge t k : (forall a, 0 <= bt_get t a) -> bt_get t k <= bsum t.
Proof.
  intros Hnn. unfold bt_get at 1. destruct (t !! k) as [y|] eqn:Hk; cbn [default from_option id].
  - apply (msum_ge (fun _ v => v) t k y); [|exact Hk].
    intros a z Ha. specialize (Hnn a). unfold bt_get in Hnn. now rewrite Ha in Hnn.
  - apply msum_nonneg. intros a z Ha. specialize (Hnn a). unfold bt_get in Hnn. now rewrite Ha in Hnn.
Qed.

Lemma bsum_empty : bsum ∅ = 0.
Proof. apply msum_empty. Qed.

Lemma bt_get_empty a : bt_get ∅ a = 0.
Proof. unfold bt_get. now rewrite lookup_empty. Qed.

(* ------------------------------------------------------------------------------------------ *)
(* views of the state and the effect of the balance primitives *)
Definition L (st : state) (a : Z) : Z := bt_get (locked st) a.
Definition E (st : state) (a : Z) : Z := bt_get (escrow st) a.

(* everything except the two balance tables, the three totals and the pending set *)
Record frame (st st' : state) : Prop := {
  f_prop : proposals st' = proposals st;
  f_states : states st' = states st;
  f_next : next_id st' = next_id st;
  f_ops : deal_ops st' = deal_ops st;
  f_cron : last_cron st' = last_cron st;
  f_psec : psectors st' = psectors st;
  f_bal : balance st' = balance st;
  f_burnt : burnt st' = burnt st;
  f_ivl : interval st' = interval st
}.

Lemma frame_refl st : frame st st.
Proof. now constructor. Qed.
Lemma frame_trans a b c : frame a b -> frame b c -> frame a c.
Proof. intros [] []. constructor; congruence. Qed.

(* a deal-level movement of funds between client c and provider pr:
   lc / lp  : released from the client's / provider's lock
   x        : paid from the client's escrow to the provider's escrow
   s        : taken out of the provider's escrow (to be burnt)
   uc up uf : decrease of the three market-wide totals *)
Record eff (c pr : Z) (st st' : state) (lc lp x s uc up uf : Z) : Prop := {
  e_L : forall a, L st' a = L st a - ind a c lc - ind a pr lp;
  e_E : forall a, E st' a = E st a - ind a c x + ind a pr (x - s);
  e_sum : bsum (escrow st') = bsum (escrow st) - s;
  e_tc : tot_ccoll st' = tot_ccoll st - uc;
  e_tp : tot_pcoll st' = tot_pcoll st - up;
  e_tf : tot_fee st' = tot_fee st - uf;
  e_frame : frame st st'
}.

Lemma eff_refl c pr st : eff c pr st st 0 0 0 0 0 0 0.
Proof.
  constructor; try lia.
  - intros a. rewrite !ind_0. lia.
  - intros a. replace (0 - 0) with 0 by lia. rewrite !ind_0. lia.
  - apply frame_refl.
Qed.

Lemma eff_trans c pr st st1 st2 lc lp x s uc up uf lc' lp' x' s' uc' up' uf' :
  eff c pr st st1 lc lp x s uc up uf ->
  eff c pr st1 st2 lc' lp' x' s' uc' up' uf' ->
  eff c pr st st2 (lc + lc') (lp + lp') (x + x') (s + s') (uc + uc') (up + up') (uf + uf').
Proof.
  intros [] []. constructor; try lia.
  - intros a. rewrite e_L1, e_L0, !ind_add. lia.
  - intros a. rewrite e_E1, e_E0. replace (x + x' - (s + s')) with ((x - s) + (x' - s')) by lia.
    rewrite !ind_add. lia.
  - eapply frame_trans; eauto.
Qed.

Lemma L_set_pending st v a : L (set_pending st v) a = L st a.
Proof. reflexivity. Qed.
Lemma E_set_pending st v a : E (set_pending st v) a = E st a.
Proof. reflexivity. Qed.

(* unlock_balance *)
Lemma unlock_ok st a amt r :
  0 <= amt -> amt <= L st a ->
  exists st', unlock_balance st a amt r = Ok st' tt /\
    (forall x, L st' x = L st x - ind x a amt) /\
    escrow st' = escrow st /\ frame st st' /\ pending st' = pending st /\
    tot_ccoll st' = tot_ccoll st - (match r with RCcoll => amt | _ => 0 end) /\
    tot_pcoll st' = tot_pcoll st - (match r with RPcoll => amt | _ => 0 end) /\
    tot_fee st' = tot_fee st - (match r with RFee => amt | _ => 0 end).
Proof.
  intros H0 H1. unfold unlock_balance, L in *.
  destruct (amt <? 0) eqn:E1; zb; [lia|].
  unfold bt_must_subtract. destruct (bt_get (locked st) a <? amt) eqn:E2; zb; [lia|].
  rewrite bt_add_ok by lia.
  eexists; split; [reflexivity|].
  destruct r; cbn; (split; [intros x; rewrite bt_get_upd; unfold ind; destruct (x =? a); lia|]);
    repeat split; try reflexivity; lia.
Qed.

Lemma unlock_err st a amt r st' c : unlock_balance st a amt r = Err st' c -> st' = st.
Proof.
  unfold unlock_balance. destruct (amt <? 0); [now intros [= <-]|].
  destruct (bt_must_subtract (locked st) a amt); [discriminate|now intros [= <-]].
Qed.

Lemma unlock_inv st a amt r st' u :
  unlock_balance st a amt r = Ok st' u -> 0 <= amt /\ amt <= L st a.
Proof.
  unfold unlock_balance, L. destruct (amt <? 0) eqn:E1; [discriminate|]. zb.
  unfold bt_must_subtract. destruct (bt_get (locked st) a <? amt) eqn:E2; [discriminate|]. zb.
  intros _. lia.
Qed.

Lemma unlock_client c pr st amt r :
  0 <= amt -> amt <= L st c ->
  exists st', unlock_balance st c amt r = Ok st' tt /\
    eff c pr st st' amt 0 0 0 (match r with RCcoll => amt | _ => 0 end)
        (match r with RPcoll => amt | _ => 0 end) (match r with RFee => amt | _ => 0 end) /\
    pending st' = pending st.
Proof.
  intros H0 H1. destruct (unlock_ok st c amt r H0 H1) as (st' & Hu & HL & HE & Hf & Hp & Htc & Htp & Htf).
  exists st'. split; [exact Hu|]. split; [|exact Hp]. constructor; auto.
  - intros a. rewrite HL, ind_0. lia.
  - intros a. unfold E. rewrite HE. replace (0 - 0) with 0 by lia. rewrite !ind_0. lia.
  - rewrite HE. lia.
Qed.

Lemma unlock_provider c pr st amt r :
  0 <= amt -> amt <= L st pr ->
  exists st', unlock_balance st pr amt r = Ok st' tt /\
    eff c pr st st' 0 amt 0 0 (match r with RCcoll => amt | _ => 0 end)
        (match r with RPcoll => amt | _ => 0 end) (match r with RFee => amt | _ => 0 end) /\
    pending st' = pending st.
Proof.
  intros H0 H1. destruct (unlock_ok st pr amt r H0 H1) as (st' & Hu & HL & HE & Hf & Hp & Htc & Htp & Htf).
  exists st'. split; [exact Hu|]. split; [|exact Hp]. constructor; auto.
  - intros a. rewrite HL, ind_0. lia.
  - intros a. unfold E. rewrite HE. replace (0 - 0) with 0 by lia. rewrite !ind_0. lia.
  - rewrite HE. lia.
Qed.

(* transfer_balance *)
Lemma transfer_ok c pr st x :
  0 <= x -> x <= L st c -> x <= E st c -> 0 <= E st pr ->
  exists st', transfer_balance st c pr x = Ok st' tt /\ eff c pr st st' x 0 x 0 0 0 x /\ pending st' = pending st.
Proof.
  intros H0 H1 H2 H3. unfold transfer_balance.
  destruct (x <? 0) eqn:E1; zb; [lia|].
  unfold bt_must_subtract. fold (E st c). destruct (E st c <? x) eqn:E2; zb; [lia|].
  unfold E in *. rewrite bt_add_ok by lia.
  destruct (unlock_ok st c x RFee H0 H1) as (st1 & Hu & HL & HE & Hf & Hp & Htc & Htp & Htf).
  rewrite Hu. cbn [bind].
  rewrite bt_add_ok; [|rewrite bt_get_upd; unfold ind; destruct (pr =? c); lia].
  eexists; split; [reflexivity|]. split; [|exact Hp].
  constructor; cbn.
  - intros a. change (L st1 a = L st a - ind a c x - ind a pr 0). rewrite HL, ind_0. lia.
  - intros a. unfold E. cbn. rewrite !bt_get_upd. replace (x - 0) with x by lia.
    unfold ind. destruct (a =? c), (a =? pr); lia.
  - rewrite !bsum_upd. lia.
  - exact Htc. - replace (tot_pcoll st - 0) with (tot_pcoll st) by lia. lia.
  - exact Htf.
  - destruct Hf. constructor; cbn; assumption.
Qed.

(* slash_balance *)
Lemma slash_ok c pr st s r :
  0 <= s -> s <= L st pr -> s <= E st pr ->
  exists st', slash_balance st pr s r = Ok st' tt /\
    eff c pr st st' 0 s 0 s (match r with RCcoll => s | _ => 0 end)
        (match r with RPcoll => s | _ => 0 end) (match r with RFee => s | _ => 0 end) /\
    pending st' = pending st.
Proof.
  intros H0 H1 H2. unfold slash_balance.
  destruct (s <? 0) eqn:E1; zb; [lia|].
  unfold bt_must_subtract. fold (E st pr). destruct (E st pr <? s) eqn:E2; zb; [lia|].
  unfold E in *. rewrite bt_add_ok by lia.
  destruct (unlock_ok (set_escrow st (bt_upd (escrow st) pr (- s))) pr s r H0) as
    (st1 & Hu & HL & HE & Hf & Hp & Htc & Htp & Htf); [exact H1|].
  exists st1. split; [exact Hu|]. split; [|exact Hp].
  constructor.
  - intros a. rewrite HL. change (L (set_escrow st _) a) with (L st a). rewrite ind_0. lia.
  - intros a. unfold E. rewrite HE. cbn. rewrite bt_get_upd. replace (0 - s) with (- s) by lia.
    rewrite ind_0. lia.
  - rewrite HE. cbn. rewrite bsum_upd. lia.
  - exact Htc. - exact Htp. - exact Htf.
  - destruct Hf. constructor; cbn in *; assumption.
Qed.

(* maybe_lock_balance *)
Lemma maybe_lock_inv st a amt st' u :
  maybe_lock_balance st a amt = Ok st' u ->
  0 <= amt /\ L st a + amt <= E st a /\
  (forall x, L st' x = L st x + ind x a amt) /\
  escrow st' = escrow st /\ frame st st' /\ pending st' = pending st /\
  tot_ccoll st' = tot_ccoll st /\ tot_pcoll st' = tot_pcoll st /\ tot_fee st' = tot_fee st.
Proof.
  unfold maybe_lock_balance, L, E.
  destruct (amt <? 0) eqn:E1; [discriminate|]. zb.
  destruct (bt_get (escrow st) a <? bt_get (locked st) a + amt) eqn:E2; [discriminate|]. zb.
  destruct (bt_add (locked st) a amt) as [l'|] eqn:E3; [|discriminate].
  apply bt_add_inv in E3 as [Hn ->]. intros [= <- _].
  repeat split; try lia; try reflexivity.
  intros x. cbn. apply bt_get_upd.
Qed.

Lemma lock_balances_inv st p st' u :
  lock_balances st p = Ok st' u ->
  0 <= client_req p /\ 0 <= p_pcoll p /\
  L st (p_client p) + client_req p <= E st (p_client p) /\
  L st (p_provider p) + ind (p_provider p) (p_client p) (client_req p) + p_pcoll p <= E st (p_provider p) /\
  (forall x, L st' x = L st x + ind x (p_client p) (client_req p) + ind x (p_provider p) (p_pcoll p)) /\
  escrow st' = escrow st /\ frame st st' /\ pending st' = pending st /\
  tot_ccoll st' = tot_ccoll st + p_ccoll p /\ tot_pcoll st' = tot_pcoll st + p_pcoll p /\
  tot_fee st' = tot_fee st + total_fee p.
Proof.
  unfold lock_balances.
  destruct (maybe_lock_balance st (p_client p) (client_req p)) as [st1 u1|] eqn:H1; [|discriminate].
  cbn [bind].
  destruct (maybe_lock_balance st1 (p_provider p) (p_pcoll p)) as [st2 u2|] eqn:H2; [|discriminate].
  cbn [bind]. intros [= <- _].
  apply maybe_lock_inv in H1 as (A1 & A2 & A3 & A4 & A5 & A6 & A7 & A8 & A9).
  apply maybe_lock_inv in H2 as (B1 & B2 & B3 & B4 & B5 & B6 & B7 & B8 & B9).
  assert (Hfr : frame st (set_locked st2 (locked st2) (tot_ccoll st2 + p_ccoll p) (tot_pcoll st2 + p_pcoll p)
                                       (tot_fee st2 + total_fee p))).
  { destruct A5, B5. constructor; cbn; congruence. }
  split; [lia|]. split; [lia|]. split; [lia|].
  split. { rewrite A3 in B2. unfold E in *. rewrite A4 in B2. exact B2. }
  split. { intros x. change (L st2 x = L st x + ind x (p_client p) (client_req p) + ind x (p_provider p) (p_pcoll p)).
           rewrite B3, A3. lia. }
  split. { cbn. congruence. }
  split; [exact Hfr|].
  split. { cbn. congruence. }
  cbn. repeat split; lia.
Qed.

Lemma eff_cast c pr st st' lc lp x s uc up uf lc' lp' x' s' uc' up' uf' :
  eff c pr st st' lc lp x s uc up uf ->
  lc = lc' -> lp = lp' -> x = x' -> s = s' -> uc = uc' -> up = up' -> uf = uf' ->
  eff c pr st st' lc' lp' x' s' uc' up' uf'.
Proof. intros; subst; assumption. Qed.

Lemma eff_remove_pending c pr st p : eff c pr st (remove_pending st p) 0 0 0 0 0 0 0.
Proof.
  constructor; try (cbn; lia).
  - intros a. rewrite !ind_0. change (L (remove_pending st p) a) with (L st a). lia.
  - intros a. replace (0 - 0) with 0 by lia. rewrite !ind_0. change (E (remove_pending st p) a) with (E st a). lia.
  - constructor; reflexivity.
Qed.

Lemma transfer_opt c pr st x :
  0 <= x -> x <= L st c -> x <= E st c -> 0 <= E st pr ->
  exists st', (if 0 <? x then transfer_balance st c pr x else Ok st tt) = Ok st' tt /\
              eff c pr st st' x 0 x 0 0 0 x /\ pending st' = pending st.
Proof.
  intros H0 H1 H2 H3. destruct (0 <? x) eqn:Ex; zb.
  - now apply transfer_ok.
  - assert (x = 0) as -> by lia. exists st. split; [reflexivity|]. split; [apply eff_refl|reflexivity].
Qed.

(* success of a primitive on an arbitrary state leaves the deal tables alone *)
Lemma unlock_frame st a amt r st' u : unlock_balance st a amt r = Ok st' u -> frame st st' /\ pending st' = pending st.
Proof.
  intros H. destruct (unlock_inv _ _ _ _ _ _ H) as [H0 H1].
  destruct (unlock_ok st a amt r H0 H1) as (st2 & Hu & _ & _ & Hf & Hp & _).
  rewrite H in Hu. injection Hu as <-. auto.
Qed.

Lemma transfer_frame st c pr x st' u : transfer_balance st c pr x = Ok st' u -> frame st st' /\ pending st' = pending st.
Proof.
  unfold transfer_balance. destruct (x <? 0); [discriminate|].
  destruct (bt_must_subtract (escrow st) c x); [|discriminate].
  destruct (unlock_balance st c x RFee) as [st1 u1|] eqn:Hu; [|discriminate]. cbn [bind].
  destruct (bt_add g pr x); [|discriminate]. intros [= <- _].
  apply unlock_frame in Hu as [[] Hp]. split; [constructor; cbn; assumption|exact Hp].
Qed.

Lemma slash_frame st a s r st' u : slash_balance st a s r = Ok st' u -> frame st st' /\ pending st' = pending st.
Proof.
  unfold slash_balance. destruct (s <? 0); [discriminate|].
  destruct (bt_must_subtract (escrow st) a s); [|discriminate].
  intros Hu. apply unlock_frame in Hu as [[] Hp]. split; [constructor; cbn in *; assumption|exact Hp].
Qed.

Lemma bsum_nonneg t : (forall a, 0 <= bt_get t a) -> 0 <= bsum t.
Proof.
  intros Hnn. apply msum_nonneg. intros a z Ha. specialize (Hnn a). unfold bt_get in Hnn. now rewrite Ha in Hnn.
Qed.
