(* The credited-power delta of each partition operation, stated on the operation's own result
   (instances of delta_is_difference on the one-partition state). *)
From Coq Require Import ZArith List Bool Lia.
From stdpp Require Import gmap.
From VF Require Import Base.SetSum Model.Partition Model.PartitionInv Proofs.Partition_base
  Proofs.Partition_lists Proofs.Partition_ops1 Proofs.Partition_lemmas.
Import ListNotations.
Open Scope Z_scope.

Ltac mini qs tbl p o HP :=
  let H := fresh "Hd" in
  pose proof (delta_is_difference {| st_q := qs; st_tbl := tbl; st_part := p |} o HP I) as H;
  unfold next, step, step_delta, st_credited in H; cbn [st_q st_tbl st_part fst snd] in H.

Lemma p_record_faults_credited qs tbl p nums fe p' nf d nfp :
  PartInv qs tbl p -> p_record_faults qs tbl p (lset nums) fe = Ok (p', nf, d, nfp) ->
  credited tbl p' = pp_add (credited tbl p) d.
Proof. intros HP E. mini qs tbl p (RecordFaults nums fe) HP. rewrite E in Hd. exact Hd. Qed.

Lemma p_record_skipped_credited qs tbl p fe sk p' d nfp rrp hnf :
  PartInv qs tbl p -> p_record_skipped_faults qs tbl p fe (lset sk) = Ok (p', d, nfp, rrp, hnf) ->
  credited tbl p' = pp_add (credited tbl p) d.
Proof. intros HP E. mini qs tbl p (RecordSkippedFaults fe sk) HP. rewrite E in Hd. exact Hd. Qed.

Lemma p_recover_credited qs tbl p p' pw :
  PartInv qs tbl p -> p_recover_faults qs tbl p = Ok (p', pw) ->
  credited tbl p' = pp_add (credited tbl p) pw.
Proof. intros HP E. mini qs tbl p RecoverFaults HP. rewrite E in Hd. exact Hd. Qed.

Lemma p_activate_credited qs tbl p p' pw :
  PartInv qs tbl p -> p_activate_unproven p = (p', pw) ->
  credited tbl p' = pp_add (credited tbl p) pw.
Proof. intros HP E. mini qs tbl p ActivateUnproven HP. rewrite E in Hd. exact Hd. Qed.

Lemma p_missed_post_credited qs tbl p fe p' d pen nfp :
  PartInv qs tbl p -> p_record_missed_post qs p fe = Ok (p', d, pen, nfp) ->
  credited tbl p' = pp_add (credited tbl p) d.
Proof. intros HP E. mini qs tbl p (RecordMissedPost fe) HP. rewrite E in Hd. exact Hd. Qed.

Lemma p_terminate_credited qs tbl p epoch nums p' rm unp :
  PartInv qs tbl p -> p_terminate_sectors qs tbl p epoch (lset nums) = Ok (p', rm, unp) ->
  credited tbl p' = pp_add (credited tbl p) (pp_neg (active_power rm)).
Proof. intros HP E. mini qs tbl p (TerminateSectors epoch nums) HP. rewrite E in Hd. exact Hd. Qed.

Lemma p_pop_expired_credited qs tbl p until p' popped :
  PartInv qs tbl p -> p_pop_expired_sectors p until = Ok (p', popped) ->
  credited tbl p' = pp_add (credited tbl p) (pp_neg (active_power popped)).
Proof. intros HP E. mini qs tbl p (PopExpiredSectors until) HP. rewrite E in Hd. exact Hd. Qed.

Lemma p_declare_credited qs tbl p nums p' :
  PartInv qs tbl p -> p_declare_faults_recovered tbl p (lset nums) = Ok p' ->
  credited tbl p' = credited tbl p.
Proof.
  intros HP E. mini qs tbl p (DeclareFaultsRecovered nums) HP. rewrite E in Hd.
  cbn [fst snd st_tbl st_part with_part] in Hd. rewrite Hd. apply pp_eq; cbn; lia.
Qed.

Lemma p_pop_early_credited qs tbl p mx p' res n more :
  PartInv qs tbl p -> p_pop_early_terminations p mx = Ok (p', res, n, more) ->
  credited tbl p' = credited tbl p.
Proof.
  intros HP E. mini qs tbl p (PopEarlyTerminations mx) HP. rewrite E in Hd.
  cbn [fst snd st_tbl st_part with_part] in Hd. rewrite Hd. apply pp_eq; cbn; lia.
Qed.
