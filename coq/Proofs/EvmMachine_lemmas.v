(* Proofs about the interpreter model coq/Model/EvmMachine.v (property C18 and the machine half of C17). *)
From stdpp Require Import gmap.
From Coq Require Import ZArith List Bool Lia.
From VF Require Import Gen.Consts Gen.Opcodes Base.Corr Model.EvmSpec Model.EvmMachine.
Import ListNotations.
Open Scope Z_scope.

(* ------------------------------------------------------------------------------------------------ *)
(* small facts *)
(* ------------------------------------------------------------------------------------------------ *)
Lemma W_pos : 0 < W.
Proof. unfold W. apply Z.pow_pos_nonneg; lia. Qed.

Lemma wrapW_in_range x : in_range (wrapW x).
Proof. unfold in_range, wrapW. apply Z.mod_pos_bound, W_pos. Qed.

Lemma zlen_nonneg {A} (l : list A) : 0 <= zlen l.
Proof. unfold zlen. lia. Qed.
Lemma zlen_cons {A} (x : A) l : zlen (x :: l) = zlen l + 1.
Proof. unfold zlen. cbn [length]. lia. Qed.
Lemma zlen_nil {A} : zlen (@nil A) = 0.
Proof. reflexivity. Qed.

Lemma zseq_nat_length st n : length (zseq_nat st n) = n.
Proof. revert st. induction n; intros; cbn; auto. Qed.

Lemma be_to_Z_bound_aux : forall bs acc k,
  0 <= acc < 256 ^ k -> 0 <= k -> Forall (fun b => 0 <= b < 256) bs ->
  0 <= fold_left (fun acc b => 256 * acc + b) bs acc < 256 ^ (k + Z.of_nat (length bs)).
Proof.
  induction bs as [|b bs IH]; intros acc k Hacc Hk Hall.
  - cbn. rewrite Z.add_0_r. exact Hacc.
  - inversion Hall as [|? ? Hb Hall']; subst. cbn [fold_left length].
    replace (k + Z.of_nat (S (length bs))) with ((k + 1) + Z.of_nat (length bs)) by lia.
    apply IH; [|lia|assumption].
    rewrite Z.pow_add_r by lia. change (256 ^ 1) with 256. nia.
Qed.

Lemma be_to_Z_bound bs :
  Forall (fun b => 0 <= b < 256) bs -> 0 <= be_to_Z bs < 256 ^ Z.of_nat (length bs).
Proof.
  intros H. unfold be_to_Z.
  pose proof (be_to_Z_bound_aux bs 0 0 ltac:(cbn; lia) ltac:(lia) H) as P.
  rewrite Z.add_0_l in P. exact P.
Qed.

Lemma be_to_Z_32_in_range bs :
  length bs = 32%nat -> Forall (fun b => 0 <= b < 256) bs -> in_range (be_to_Z bs).
Proof.
  intros L H. pose proof (be_to_Z_bound bs H) as P. rewrite L in P.
  unfold in_range, W. change (256 ^ Z.of_nat 32) with (2 ^ 256) in P. exact P.
Qed.

Lemma byte_at_range c i : 0 <= byte_at c i < 256.
Proof. unfold byte_at. apply Z.mod_pos_bound. lia. Qed.

Lemma mem_get_range m i : 0 <= mem_get m i < 256.
Proof. unfold mem_get. destruct (m !! i); [apply Z.mod_pos_bound|]; lia. Qed.

Lemma Forall_map_range {A} (f : A -> Z) (l : list A) :
  (forall x, 0 <= f x < 256) -> Forall (fun b => 0 <= b < 256) (map f l).
Proof. intros H. induction l; cbn; constructor; auto. Qed.

(* ------------------------------------------------------------------------------------------------ *)
(* memory regions (instructions/memory.rs get_memory_region) *)
(* ------------------------------------------------------------------------------------------------ *)
Definition MEM_LIMIT : Z := 2 ^ 32.

Lemma align32_bounds x : 0 <= x -> x <= align32 x < x + 32.
Proof.
  intros H. unfold align32.
  pose proof (Z.div_mod (x + 31) 32 ltac:(lia)) as D.
  pose proof (Z.mod_pos_bound (x + 31) 32 ltac:(lia)) as M. lia.
Qed.

Lemma align32_le_limit x : 0 <= x <= U32_MAX -> align32 x <= MEM_LIMIT.
Proof.
  intros H. unfold align32, MEM_LIMIT, U32_MAX in *.
  assert ((x + 31) / 32 <= (2 ^ 32 - 1 + 31) / 32) by (apply Z.div_le_mono; lia).
  change ((2 ^ 32 - 1 + 31) / 32) with (2 ^ 27) in H0. change (2 ^ 32) with (2 ^ 27 * 32). lia.
Qed.

Lemma grow_bounds ms n :
  0 <= ms <= MEM_LIMIT -> 0 <= n <= U32_MAX -> ms <= grow ms n <= MEM_LIMIT.
Proof.
  intros Hm Hn. unfold grow. destruct (n <=? ms) eqn:C; [lia|].
  apply Z.leb_gt in C. pose proof (align32_bounds n ltac:(lia)). pose proof (align32_le_limit n Hn). lia.
Qed.

(* the region check fails exactly when the size, or (for a non-empty region) the offset or the end,
   does not fit in 32 bits *)
Lemma mem_region_none ms off size :
  mem_region ms off size = None <->
  (U32_MAX < size \/ (size <> 0 /\ (U32_MAX < off \/ U32_MAX < off + size))).
Proof.
  unfold mem_region.
  destruct (U32_MAX <? size) eqn:A; [apply Z.ltb_lt in A; intuition|apply Z.ltb_ge in A].
  destruct (size =? 0) eqn:B; [apply Z.eqb_eq in B; split; [discriminate|intros [?|[? _]]; lia]|apply Z.eqb_neq in B].
  destruct (U32_MAX <? off) eqn:C; [apply Z.ltb_lt in C; intuition|apply Z.ltb_ge in C].
  destruct (U32_MAX <? off + size) eqn:D; [apply Z.ltb_lt in D; intuition|apply Z.ltb_ge in D].
  split; [discriminate|]. intros [?|[_ [?|?]]]; lia.
Qed.

Lemma mem_region_some ms off size r ms' :
  0 <= off -> 0 <= size -> 0 <= ms <= MEM_LIMIT ->
  mem_region ms off size = Some (r, ms') ->
  ms <= ms' <= MEM_LIMIT /\
  match r with
  | RegNone => size = 0 /\ ms' = ms
  | RegSome o n => o = off /\ n = size /\ 0 < size /\ off + size <= U32_MAX /\ off + size <= ms'
  end.
Proof.
  intros Ho Hs Hm. unfold mem_region.
  destruct (U32_MAX <? size) eqn:A; [discriminate|apply Z.ltb_ge in A].
  destruct (size =? 0) eqn:B.
  { apply Z.eqb_eq in B. intros [= <- <-]. split; [lia|auto]. }
  apply Z.eqb_neq in B.
  destruct (U32_MAX <? off) eqn:C; [discriminate|apply Z.ltb_ge in C].
  destruct (U32_MAX <? off + size) eqn:D; [discriminate|apply Z.ltb_ge in D].
  intros [= <- <-].
  pose proof (grow_bounds ms (off + size) Hm ltac:(lia)) as G.
  split; [exact G|]. repeat split; try lia.
  unfold grow. destruct (off + size <=? ms) eqn:Q; [apply Z.leb_le in Q; lia|].
  pose proof (align32_bounds (off + size) ltac:(lia)). lia.
Qed.

(* zero-size regions never expand the memory, whatever the offset *)
Lemma mem_region_zero ms off : mem_region ms off 0 = Some (RegNone, ms).
Proof. reflexivity. Qed.

(* size bound without sign hypotheses (the operands are stack words, but the frame lemmas below do
   not need to know) *)
Lemma mem_region_limit ms off size r ms' :
  0 <= ms <= MEM_LIMIT -> mem_region ms off size = Some (r, ms') -> 0 <= ms' <= MEM_LIMIT.
Proof.
  intros Hm. unfold mem_region.
  destruct (U32_MAX <? size) eqn:A; [discriminate|apply Z.ltb_ge in A].
  destruct (size =? 0) eqn:B; [intros [= <- <-]; lia|].
  destruct (U32_MAX <? off) eqn:C; [discriminate|apply Z.ltb_ge in C].
  destruct (U32_MAX <? off + size) eqn:D; [discriminate|apply Z.ltb_ge in D].
  intros [= <- <-]. unfold grow. destruct (off + size <=? ms) eqn:Q; [lia|].
  apply Z.leb_gt in Q. split.
  - unfold align32. assert (0 <= (off + size + 31) / 32) by (apply Z.div_pos; lia). lia.
  - apply align32_le_limit. lia.
Qed.

(* ------------------------------------------------------------------------------------------------ *)
(* word operations whose results stay in range *)
(* ------------------------------------------------------------------------------------------------ *)
Definition bin_list (o : word_ops) : list (Z -> Z -> Z) :=
  [w_add o; w_mul o; w_sub o; w_div o; w_sdiv o; w_mod o; w_smod o; w_exp o; w_signextend o;
   w_lt o; w_gt o; w_slt o; w_sgt o; w_eq o; w_and o; w_or o; w_xor o; w_byte o; w_shl o; w_shr o; w_sar o].
Definition un_list (o : word_ops) : list (Z -> Z) := [w_iszero o; w_not o; w_clz o].
Definition tern_list (o : word_ops) : list (Z -> Z -> Z -> Z) := [w_addmod o; w_mulmod o].

Definition ops_ok (o : word_ops) : Prop :=
  Forall (fun f => forall a b, in_range a -> in_range b -> in_range (f a b)) (bin_list o) /\
  Forall (fun f => forall a, in_range a -> in_range (f a)) (un_list o) /\
  Forall (fun f => forall a b c, in_range a -> in_range b -> in_range c -> in_range (f a b c)) (tern_list o).

(* two implementations of the word operations that agree on in-range operands *)
Definition ops_agree (o1 o2 : word_ops) : Prop :=
  Forall2 (fun f g => forall a b, in_range a -> in_range b -> f a b = g a b) (bin_list o1) (bin_list o2) /\
  Forall2 (fun f g => forall a, in_range a -> f a = g a) (un_list o1) (un_list o2) /\
  Forall2 (fun f g => forall a b c, in_range a -> in_range b -> in_range c -> f a b c = g a b c)
          (tern_list o1) (tern_list o2).

(* ------------------------------------------------------------------------------------------------ *)
(* what an instruction's implementation may do to the state *)
(* ------------------------------------------------------------------------------------------------ *)
Definition DEFINED_FAILURES : list Z :=
  [USR_READ_ONLY; EVM_CONTRACT_INVALID_INSTRUCTION; EVM_CONTRACT_UNDEFINED_INSTRUCTION;
   EVM_CONTRACT_STACK_UNDERFLOW; EVM_CONTRACT_STACK_OVERFLOW; EVM_CONTRACT_ILLEGAL_MEMORY_ACCESS;
   EVM_CONTRACT_BAD_JUMPDEST; EVM_CONTRACT_SELFDESTRUCT_FAILED].

(* the log grew by at most one request, and that request is not a side effect *)
Definition quiet (l l' : list ext_ev) : Prop :=
  l' = l \/ exists e, l' = e :: l /\ is_effect e = false.

Section Frame.
  Variable ops : word_ops.
  Variable E : env.

  Definition msize_ok (s : mstate) : Prop := 0 <= m_msize s <= MEM_LIMIT.

  Definition frame (s s' : mstate) : Prop :=
    m_stack s' = m_stack s /\ m_pc s' = m_pc s /\
    (msize_ok s -> msize_ok s') /\
    (e_readonly E = true ->
       m_storage s' = m_storage s /\ m_transient s' = m_transient s /\ quiet (m_log s) (m_log s')).

  Lemma frame_refl s : frame s s.
  Proof. unfold frame, quiet. intuition. Qed.

  Lemma frame_set_mem s m sz :
    (msize_ok s -> 0 <= sz <= MEM_LIMIT) -> frame s (set_mem m sz s).
  Proof. unfold frame, msize_ok, quiet. cbn. intuition. Qed.

  Lemma frame_region s off size r sz m :
    mem_region (m_msize s) off size = Some (r, sz) -> frame s (set_mem m sz s).
  Proof. intros H. apply frame_set_mem. intros Hm. eapply mem_region_limit; eauto. Qed.

  Lemma copy_to_memory_frame s dest size doff data zf s' :
    copy_to_memory s dest size doff data zf = Some s' -> frame s s'.
  Proof.
    unfold copy_to_memory. destruct (mem_region (m_msize s) dest size) as [[r sz]|] eqn:R; [|discriminate].
    destruct r; intros [= <-]; eapply frame_region; eauto.
  Qed.

  Lemma copy_to_memory_log s dest size doff data zf s' :
    copy_to_memory s dest size doff data zf = Some s' -> m_log s' = m_log s.
  Proof.
    unfold copy_to_memory. destruct (mem_region (m_msize s) dest size) as [[r sz]|]; [|discriminate].
    destruct r; intros [= <-]; reflexivity.
  Qed.

  Lemma frame_trans s s1 s2 :
    frame s s1 -> frame s1 s2 -> m_log s2 = m_log s1 -> frame s s2.
  Proof.
    intros (A1 & A2 & A3 & A4) (B1 & B2 & B3 & B4) L. unfold frame.
    split; [congruence|]. split; [congruence|]. split; [auto|].
    intros RO. destruct (A4 RO) as (X1 & X2 & X3). destruct (B4 RO) as (Y1 & Y2 & Y3).
    split; [congruence|]. split; [congruence|]. rewrite L. exact X3.
  Qed.

  Definition sem_post (s : mstate) (r : sem_res) : Prop :=
    match r with
    | SemPush v s' => in_range v /\ frame s s'
    | SemNone s' => frame s s'
    | SemExit _ s' => frame s s'
    | SemJump p s' => frame s s' /\ (p = m_pc s + 1 \/ valid_jumpdest (e_code E) (p - 1) = true)
    | SemFail c s' => frame s s' /\ (c = EC_MODEL \/ In c DEFINED_FAILURES)
    end.

  Hypothesis Hops : ops_ok ops.

  Ltac inlist := cbn; tauto.

  Lemma bin_post f args s :
    In f (bin_list ops) -> Forall in_range args -> sem_post s (bin f args s).
  Proof.
    intros Hin Ha. unfold bin.
    destruct args as [|a [|b [|c ?]]]; cbn; try (split; [apply frame_refl|auto]).
    inversion Ha as [|? ? Ra Ha']; subst. inversion Ha' as [|? ? Rb _]; subst.
    destruct Hops as [Hb _]. rewrite Forall_forall in Hb. split; [apply Hb; auto|apply frame_refl].
  Qed.
  Lemma un_post f args s :
    In f (un_list ops) -> Forall in_range args -> sem_post s (un f args s).
  Proof.
    intros Hin Ha. unfold un.
    destruct args as [|a [|b ?]]; cbn; try (split; [apply frame_refl|auto]).
    inversion Ha as [|? ? Ra _]; subst.
    destruct Hops as [_ [Hu _]]. rewrite Forall_forall in Hu. split; [apply Hu; auto|apply frame_refl].
  Qed.
  Lemma tern_post f args s :
    In f (tern_list ops) -> Forall in_range args -> sem_post s (tern f args s).
  Proof.
    intros Hin Ha. unfold tern.
    destruct args as [|a [|b [|c [|d ?]]]]; cbn; try (split; [apply frame_refl|auto]).
    inversion Ha as [|? ? Ra Ha']; subst. inversion Ha' as [|? ? Rb Ha'']; subst.
    inversion Ha'' as [|? ? Rc _]; subst.
    destruct Hops as [_ [_ Ht]]. rewrite Forall_forall in Ht. split; [apply Ht; auto|apply frame_refl].
  Qed.
  Lemma nullary_post v args s : sem_post s (nullary v args s).
  Proof.
    unfold nullary. destruct args; cbn; (split; [|auto]); try apply wrapW_in_range; try apply frame_refl.
  Qed.

  Lemma store_get_range m k : in_range (store_get m k).
  Proof.
    unfold store_get. destruct (m !! k); [apply wrapW_in_range|]. unfold in_range. pose proof W_pos. lia.
  Qed.

  Lemma in_defined c : In c DEFINED_FAILURES -> c = EC_MODEL \/ In c DEFINED_FAILURES.
  Proof. auto. Qed.

  Lemma do_exit_post b off size s : sem_post s (do_exit b off size s).
  Proof.
    unfold do_exit. destruct (mem_region (m_msize s) off size) as [[r sz]|] eqn:R; cbn.
    - eapply frame_region; eauto.
    - split; [apply frame_refl|right; inlist].
  Qed.

  Lemma do_jump_post dest s : sem_post s (do_jump E dest s).
  Proof.
    unfold do_jump. destruct (valid_jumpdest (code E) dest) eqn:V; cbn.
    - split; [apply frame_refl|]. right. replace (dest + 1 - 1) with dest by lia. exact V.
    - split; [apply frame_refl|right; inlist].
  Qed.

  Lemma do_log_post n args s : sem_post s (do_log E n args s).
  Proof.
    unfold do_log. destruct args as [|off [|size topics]]; cbn; try (split; [apply frame_refl|auto]).
    destruct (negb (length topics =? n)%nat); cbn; [split; [apply frame_refl|auto]|].
    destruct (e_readonly E) eqn:RO; cbn; [split; [apply frame_refl|right; inlist]|].
    destruct (mem_region (m_msize s) off size) as [[r sz]|] eqn:R; cbn.
    - unfold frame, msize_ok; cbn. repeat split; auto; try (intros; eapply mem_region_limit; eauto); congruence.
    - split; [apply frame_refl|right; inlist].
  Qed.

  Lemma do_call_post kind dst value ioff isz ooff osz s :
    sem_post s (do_call E kind dst value ioff isz ooff osz s).
  Proof.
    unfold do_call.
    destruct (e_readonly E && (0 <? value)) eqn:G; cbn; [split; [apply frame_refl|right; inlist]|].
    destruct (mem_region (m_msize s) ioff isz) as [[reg sz]|] eqn:R; cbn; [|split; [apply frame_refl|right; inlist]].
    set (sends := is_reserved_precompile dst || negb (kind =? 1) || (e_acct_kind E (dst mod ADDR_MASK) =? 1)).
    set (rr := if sends then next_ext s else _).
    destruct rr as [r rest] eqn:RR.
    set (s1 := set_ext _ _ _ _ _).
    assert (F1 : frame s s1).
    { unfold frame, msize_ok, s1; cbn. repeat split; auto; try (intros; eapply mem_region_limit; eauto).
      destruct (sends && negb (is_reserved_precompile dst)); unfold quiet; [|auto].
      right. eexists. split; [reflexivity|]. cbn.
      rewrite H in G. cbn in G. destruct (0 <? value); [discriminate|reflexivity]. }
    destruct (copy_to_memory s1 ooff osz 0 (xr_ret r) false) as [s2|] eqn:C; cbn.
    - assert (F2 : frame s1 s2) by (eapply copy_to_memory_frame; eauto).
      split.
      + destruct (negb (xr_val r =? 0)); unfold in_range, W; lia.
      + eapply frame_trans; eauto. eapply copy_to_memory_log; eauto.
    - split; [exact F1|right; inlist].
  Qed.

  Lemma do_create_post two value off size salt s : sem_post s (do_create E two value off size salt s).
  Proof.
    unfold do_create. destruct (e_readonly E) eqn:RO; cbn; [split; [apply frame_refl|right; inlist]|].
    destruct (mem_region (m_msize s) off size) as [[reg sz]|] eqn:R; cbn; [|split; [apply frame_refl|right; inlist]].
    destruct (m_balance s <? value); cbn.
    - split; [unfold in_range, W; lia|].
      unfold frame, msize_ok; cbn. repeat split; auto; try (intros; eapply mem_region_limit; eauto); congruence.
    - destruct (next_ext s) as [r rest]. split.
      + unfold in_range, ADDR_MASK, W.
        pose proof (Z.mod_pos_bound (xr_val r) (2 ^ 160) ltac:(lia)).
        assert (2 ^ 160 < 2 ^ 256) by (apply Z.pow_lt_mono_r; lia). lia.
      + unfold frame, msize_ok; cbn. repeat split; auto; try (intros; eapply mem_region_limit; eauto); congruence.
  Qed.

  Lemma frame_set_storage s st : e_readonly E = false -> frame s (set_storage st s).
  Proof. intros RO. unfold frame; cbn. repeat split; auto; intros; congruence. Qed.
  Lemma frame_set_transient s st : e_readonly E = false -> frame s (set_transient st s).
  Proof. intros RO. unfold frame; cbn. repeat split; auto; intros; congruence. Qed.
  Lemma frame_set_ext_rw s ret bal ext lg : e_readonly E = false -> frame s (set_ext ret bal ext lg s).
  Proof. intros RO. unfold frame; cbn. repeat split; auto; intros; congruence. Qed.

  Lemma calldataload_range cd idx :
    in_range (be_to_Z (map (fun k => byte_at cd (idx + k)) (zseq 0 32))).
  Proof.
    apply be_to_Z_32_in_range.
    - rewrite map_length. unfold zseq. apply zseq_nat_length.
    - apply Forall_map_range. intros. apply byte_at_range.
  Qed.
  Lemma mload_range m off : in_range (be_to_Z (mem_read m off 32)).
  Proof.
    apply be_to_Z_32_in_range.
    - unfold mem_read. rewrite map_length. unfold zseq. apply zseq_nat_length.
    - unfold mem_read. apply Forall_map_range. intros. apply mem_get_range.
  Qed.

  Ltac post_tac :=
    repeat match goal with
           | |- sem_post _ (match ?x with _ => _ end) => destruct x eqn:?
           | |- sem_post _ (if ?x then _ else _) => destruct x eqn:?
           end;
    cbn [sem_post];
    repeat match goal with
           | |- _ /\ _ => split
           | |- in_range (wrapW _) => apply wrapW_in_range
           | |- in_range (store_get _ _) => apply store_get_range
           | |- in_range (be_to_Z (map _ (zseq 0 32))) => apply calldataload_range
           | |- in_range (be_to_Z (mem_read _ _ 32)) => apply mload_range
           | |- frame ?s ?s => apply frame_refl
           | H : mem_region (m_msize ?s) _ _ = Some (_, ?sz) |- frame ?s (set_mem _ ?sz ?s) => eapply frame_region; exact H
           | H : copy_to_memory ?s _ _ _ _ _ = Some ?s' |- frame ?s ?s' => eapply copy_to_memory_frame; exact H
           | H : e_readonly E = false |- frame ?s (set_storage _ ?s) => apply frame_set_storage; exact H
           | H : e_readonly E = false |- frame ?s (set_transient _ ?s) => apply frame_set_transient; exact H
           | H : e_readonly E = false |- frame ?s (set_ext _ _ _ _ ?s) => apply frame_set_ext_rw; exact H
           | |- _ = EC_MODEL \/ _ => first [left; reflexivity | right; cbn; tauto]
           | |- _ = _ + 1 \/ _ => left; reflexivity
           end.

  Lemma sem_spec i args s : Forall in_range args -> sem_post s (sem ops E i args s).
  Proof.
    intros Ha. destruct i; cbn [sem];
      first [ apply bin_post; [cbn; tauto|exact Ha]
            | apply un_post; [cbn; tauto|exact Ha]
            | apply tern_post; [cbn; tauto|exact Ha]
            | apply nullary_post
            | apply do_log_post
            | idtac ];
      try (post_tac; fail);
      repeat match goal with
             | |- sem_post _ (match ?x with _ => _ end) => destruct x eqn:?
             end;
      first [ apply do_exit_post | apply do_jump_post | apply do_call_post | apply do_create_post | idtac ];
      try (post_tac; fail).
    all: post_tac.
  Qed.
End Frame.
