(* Proofs about the interpreter model coq/Model/EvmMachine.v (property C18 and the machine half of C17). *)
From stdpp Require Import gmap.
From Coq Require Import ZArith List Bool Lia.
From VF Require Import Gen.Consts Gen.Opcodes Base.Corr Model.EvmSpec Model.EvmMachine.
Import ListNotations.
Open Scope Z_scope.

(* ------------------------------------------------------------------------------------------------ *)
(* small facts *)
(* ------------------------------------------------------------------------------------------------ *)
Lemma W_pos : 0 < W.
Proof. unfold W. apply Z.pow_pos_nonneg; lia. Qed.

Lemma wrapW_in_range x : in_range (wrapW x).
Proof. unfold in_range, wrapW. apply Z.mod_pos_bound, W_pos. Qed.

Lemma zlen_nonneg {A} (l : list A) : 0 <= zlen l.
Proof. unfold zlen. lia. Qed.
Lemma zlen_cons {A} (x : A) l : zlen (x :: l) = zlen l + 1.
Proof. unfold zlen. cbn [length]. lia. Qed.
Lemma zlen_nil {A} : zlen (@nil A) = 0.
Proof. reflexivity. Qed.

Lemma zseq_nat_length st n : length (zseq_nat st n) = n.
Proof. revert st. induction n; intros; cbn; auto. Qed.

Lemma be_to_Z_bound_aux : forall bs acc k,
  0 <= acc < 256 ^ k -> 0 <= k -> Forall (fun b => 0 <= b < 256) bs ->
  0 <= fold_left (fun acc b => 256 * acc + b) bs acc < 256 ^ (k + Z.of_nat (length bs)).
Proof.
  induction bs as [|b bs IH]; intros acc k Hacc Hk Hall.
  - cbn. rewrite Z.add_0_r. exact Hacc.
  - inversion Hall as [|? ? Hb Hall']; subst. cbn [fold_left length].
    replace (k + Z.of_nat (S (length bs))) with ((k + 1) + Z.of_nat (length bs)) by lia.
    apply IH; [|lia|assumption].
    rewrite Z.pow_add_r by lia. change (256 ^ 1) with 256. nia.
Qed.

Lemma be_to_Z_bound bs :
  Forall (fun b => 0 <= b < 256) bs -> 0 <= be_to_Z bs < 256 ^ Z.of_nat (length bs).
Proof.
  intros H. unfold be_to_Z.
  pose proof (be_to_Z_bound_aux bs 0 0 ltac:(cbn; lia) ltac:(lia) H) as P.
  rewrite Z.add_0_l in P. exact P.
Qed.

Lemma be_to_Z_32_in_range bs :
  length bs = 32%nat -> Forall (fun b => 0 <= b < 256) bs -> in_range (be_to_Z bs).
Proof.
  intros L H. pose proof (be_to_Z_bound bs H) as P. rewrite L in P.
  unfold in_range, W. change (256 ^ Z.of_nat 32) with (2 ^ 256) in P. exact P.
Qed.

Lemma byte_at_range c i : 0 <= byte_at c i < 256.
Proof. unfold byte_at. apply Z.mod_pos_bound. lia. Qed.

Lemma mem_get_range m i : 0 <= mem_get m i < 256.
Proof. unfold mem_get. destruct (m !! i); [apply Z.mod_pos_bound|]; lia. Qed.

Lemma Forall_map_range {A} (f : A -> Z) (l : list A) :
  (forall x, 0 <= f x < 256) -> Forall (fun b => 0 <= b < 256) (map f l).
Proof. intros H. induction l; cbn; constructor; auto. Qed.

(* ------------------------------------------------------------------------------------------------ *)
(* memory regions (instructions/memory.rs get_memory_region) *)
(* ------------------------------------------------------------------------------------------------ *)
Definition MEM_LIMIT : Z := 2 ^ 32.

Lemma align32_bounds x : 0 <= x -> x <= align32 x < x + 32.
Proof.
  intros H. unfold align32.
  pose proof (Z.div_mod (x + 31) 32 ltac:(lia)) as D.
  pose proof (Z.mod_pos_bound (x + 31) 32 ltac:(lia)) as M. lia.
Qed.

Lemma align32_le_limit x : 0 <= x <= U32_MAX -> align32 x <= MEM_LIMIT.
Proof.
  intros H. unfold align32, MEM_LIMIT, U32_MAX in *.
  assert ((x + 31) / 32 <= (2 ^ 32 - 1 + 31) / 32) by (apply Z.div_le_mono; lia).
  change ((2 ^ 32 - 1 + 31) / 32) with (2 ^ 27) in H0. change (2 ^ 32) with (2 ^ 27 * 32). lia.
Qed.

Lemma grow_bounds ms n :
  0 <= ms <= MEM_LIMIT -> 0 <= n <= U32_MAX -> ms <= grow ms n <= MEM_LIMIT.
Proof.
  intros Hm Hn. unfold grow. destruct (n <=? ms) eqn:C; [lia|].
  apply Z.leb_gt in C. pose proof (align32_bounds n ltac:(lia)). pose proof (align32_le_limit n Hn). lia.
Qed.

(* the region check fails exactly when the size, or (for a non-empty region) the offset or the end,
   does not fit in 32 bits *)
Lemma mem_region_none ms off size :
  mem_region ms off size = None <->
  (U32_MAX < size \/ (size <> 0 /\ (U32_MAX < off \/ U32_MAX < off + size))).
Proof.
  unfold mem_region.
  destruct (U32_MAX <? size) eqn:A; [apply Z.ltb_lt in A; intuition|apply Z.ltb_ge in A].
  destruct (size =? 0) eqn:B; [apply Z.eqb_eq in B; split; [discriminate|intros [?|[? _]]; lia]|apply Z.eqb_neq in B].
  destruct (U32_MAX <? off) eqn:C; [apply Z.ltb_lt in C; intuition|apply Z.ltb_ge in C].
  destruct (U32_MAX <? off + size) eqn:D; [apply Z.ltb_lt in D; intuition|apply Z.ltb_ge in D].
  split; [discriminate|]. intros [?|[_ [?|?]]]; lia.
Qed.

Lemma mem_region_some ms off size r ms' :
  0 <= off -> 0 <= size -> 0 <= ms <= MEM_LIMIT ->
  mem_region ms off size = Some (r, ms') ->
  ms <= ms' <= MEM_LIMIT /\
  match r with
  | RegNone => size = 0 /\ ms' = ms
  | RegSome o n => o = off /\ n = size /\ 0 < size /\ off + size <= U32_MAX /\ off + size <= ms'
  end.
Proof.
  intros Ho Hs Hm. unfold mem_region.
  destruct (U32_MAX <? size) eqn:A; [discriminate|apply Z.ltb_ge in A].
  destruct (size =? 0) eqn:B.
  { apply Z.eqb_eq in B. intros [= <- <-]. split; [lia|auto]. }
  apply Z.eqb_neq in B.
  destruct (U32_MAX <? off) eqn:C; [discriminate|apply Z.ltb_ge in C].
  destruct (U32_MAX <? off + size) eqn:D; [discriminate|apply Z.ltb_ge in D].
  intros [= <- <-].
  pose proof (grow_bounds ms (off + size) Hm ltac:(lia)) as G.
  split; [exact G|]. repeat split; try lia.
  unfold grow. destruct (off + size <=? ms) eqn:Q; [apply Z.leb_le in Q; lia|].
  pose proof (align32_bounds (off + size) ltac:(lia)). lia.
Qed.

(* zero-size regions never expand the memory, whatever the offset *)
Lemma mem_region_zero ms off : mem_region ms off 0 = Some (RegNone, ms).
Proof. reflexivity. Qed.

(* size bound without sign hypotheses (the operands are stack words, but the frame lemmas below do
   not need to know) *)
Lemma mem_region_limit ms off size r ms' :
  0 <= ms <= MEM_LIMIT -> mem_region ms off size = Some (r, ms') -> 0 <= ms' <= MEM_LIMIT.
Proof.
  intros Hm. unfold mem_region.
  destruct (U32_MAX <? size) eqn:A; [discriminate|apply Z.ltb_ge in A].
  destruct (size =? 0) eqn:B; [intros [= <- <-]; lia|].
  destruct (U32_MAX <? off) eqn:C; [discriminate|apply Z.ltb_ge in C].
  destruct (U32_MAX <? off + size) eqn:D; [discriminate|apply Z.ltb_ge in D].
  intros [= <- <-]. unfold grow. destruct (off + size <=? ms) eqn:Q; [lia|].
  apply Z.leb_gt in Q. split.
  - unfold align32. assert (0 <= (off + size + 31) / 32) by (apply Z.div_pos; lia). lia.
  - apply align32_le_limit. lia.
Qed.

(* ------------------------------------------------------------------------------------------------ *)
(* word operations whose results stay in range *)
(* ------------------------------------------------------------------------------------------------ *)
Definition bin_list (o : word_ops) : list (Z -> Z -> Z) :=
  [w_add o; w_mul o; w_sub o; w_div o; w_sdiv o; w_mod o; w_smod o; w_exp o; w_signextend o;
   w_lt o; w_gt o; w_slt o; w_sgt o; w_eq o; w_and o; w_or o; w_xor o; w_byte o; w_shl o; w_shr o; w_sar o].
Definition un_list (o : word_ops) : list (Z -> Z) := [w_iszero o; w_not o; w_clz o].
Definition tern_list (o : word_ops) : list (Z -> Z -> Z -> Z) := [w_addmod o; w_mulmod o].

Definition ops_ok (o : word_ops) : Prop :=
  Forall (fun f => forall a b, in_range a -> in_range b -> in_range (f a b)) (bin_list o) /\
  Forall (fun f => forall a, in_range a -> in_range (f a)) (un_list o) /\
  Forall (fun f => forall a b c, in_range a -> in_range b -> in_range c -> in_range (f a b c)) (tern_list o).

(* two implementations of the word operations that agree on in-range operands *)
Definition ops_agree (o1 o2 : word_ops) : Prop :=
  Forall2 (fun f g => forall a b, in_range a -> in_range b -> f a b = g a b) (bin_list o1) (bin_list o2) /\
  Forall2 (fun f g => forall a, in_range a -> f a = g a) (un_list o1) (un_list o2) /\
  Forall2 (fun f g => forall a b c, in_range a -> in_range b -> in_range c -> f a b c = g a b c)
          (tern_list o1) (tern_list o2).

(* ------------------------------------------------------------------------------------------------ *)
(* what an instruction's implementation may do to the state *)
(* ------------------------------------------------------------------------------------------------ *)
Definition DEFINED_FAILURES : list Z :=
  [USR_READ_ONLY; EVM_CONTRACT_INVALID_INSTRUCTION; EVM_CONTRACT_UNDEFINED_INSTRUCTION;
   EVM_CONTRACT_STACK_UNDERFLOW; EVM_CONTRACT_STACK_OVERFLOW; EVM_CONTRACT_ILLEGAL_MEMORY_ACCESS;
   EVM_CONTRACT_BAD_JUMPDEST; EVM_CONTRACT_SELFDESTRUCT_FAILED].

(* the log grew by at most one request, and that request is not a side effect *)
Definition quiet (l l' : list ext_ev) : Prop :=
  l' = l \/ exists e, l' = e :: l /\ is_effect e = false.

Section Frame.
  Variable ops : word_ops.
  Variable E : env.

  Definition msize_ok (s : mstate) : Prop := 0 <= m_msize s <= MEM_LIMIT.

  Definition frame (s s' : mstate) : Prop :=
    m_stack s' = m_stack s /\ m_pc s' = m_pc s /\
    (msize_ok s -> msize_ok s') /\
    (e_readonly E = true ->
       m_storage s' = m_storage s /\ m_transient s' = m_transient s /\ quiet (m_log s) (m_log s')).

  Lemma frame_refl s : frame s s.
  Proof. unfold frame, quiet. intuition. Qed.

  Lemma frame_set_mem s m sz :
    (msize_ok s -> 0 <= sz <= MEM_LIMIT) -> frame s (set_mem m sz s).
  Proof. unfold frame, msize_ok, quiet. cbn. intuition. Qed.

  Lemma frame_region s off size r sz m :
    mem_region (m_msize s) off size = Some (r, sz) -> frame s (set_mem m sz s).
  Proof. intros H. apply frame_set_mem. intros Hm. eapply mem_region_limit; eauto. Qed.

  Lemma copy_to_memory_frame s dest size doff data zf s' :
    copy_to_memory s dest size doff data zf = Some s' -> frame s s'.
  Proof.
    unfold copy_to_memory. destruct (mem_region (m_msize s) dest size) as [[r sz]|] eqn:R; [|discriminate].
    destruct r; intros [= <-]; eapply frame_region; eauto.
  Qed.

  Lemma copy_to_memory_log s dest size doff data zf s' :
    copy_to_memory s dest size doff data zf = Some s' -> m_log s' = m_log s.
  Proof.
    unfold copy_to_memory. destruct (mem_region (m_msize s) dest size) as [[r sz]|]; [|discriminate].
    destruct r; intros [= <-]; reflexivity.
  Qed.

  Lemma frame_trans s s1 s2 :
    frame s s1 -> frame s1 s2 -> m_log s2 = m_log s1 -> frame s s2.
  Proof.
    intros (A1 & A2 & A3 & A4) (B1 & B2 & B3 & B4) L. unfold frame.
    split; [congruence|]. split; [congruence|]. split; [auto|].
    intros RO. destruct (A4 RO) as (X1 & X2 & X3). destruct (B4 RO) as (Y1 & Y2 & Y3).
    split; [congruence|]. split; [congruence|]. rewrite L. exact X3.
  Qed.

  Definition sem_post (s : mstate) (r : sem_res) : Prop :=
    match r with
    | SemPush v s' => in_range v /\ frame s s'
    | SemNone s' => frame s s'
    | SemExit _ s' => frame s s'
    | SemJump p s' => frame s s' /\ (p = m_pc s + 1 \/ valid_jumpdest (e_code E) (p - 1) = true)
    | SemFail c s' => frame s s' /\ (c = EC_MODEL \/ In c DEFINED_FAILURES)
    end.

  Hypothesis Hops : ops_ok ops.

  Ltac inlist := cbn; tauto.

  Lemma bin_post f args s :
    In f (bin_list ops) -> Forall in_range args -> sem_post s (bin f args s).
  Proof.
    intros Hin Ha. unfold bin.
    destruct args as [|a [|b [|c ?]]]; cbn; try (split; [apply frame_refl|auto]).
    inversion Ha as [|? ? Ra Ha']; subst. inversion Ha' as [|? ? Rb _]; subst.
    destruct Hops as [Hb _]. rewrite Forall_forall in Hb. split; [apply Hb; auto|apply frame_refl].
  Qed.
  Lemma un_post f args s :
    In f (un_list ops) -> Forall in_range args -> sem_post s (un f args s).
  Proof.
    intros Hin Ha. unfold un.
    destruct args as [|a [|b ?]]; cbn; try (split; [apply frame_refl|auto]).
    inversion Ha as [|? ? Ra _]; subst.
    destruct Hops as [_ [Hu _]]. rewrite Forall_forall in Hu. split; [apply Hu; auto|apply frame_refl].
  Qed.
  Lemma tern_post f args s :
    In f (tern_list ops) -> Forall in_range args -> sem_post s (tern f args s).
  Proof.
    intros Hin Ha. unfold tern.
    destruct args as [|a [|b [|c [|d ?]]]]; cbn; try (split; [apply frame_refl|auto]).
    inversion Ha as [|? ? Ra Ha']; subst. inversion Ha' as [|? ? Rb Ha'']; subst.
    inversion Ha'' as [|? ? Rc _]; subst.
    destruct Hops as [_ [_ Ht]]. rewrite Forall_forall in Ht. split; [apply Ht; auto|apply frame_refl].
  Qed.
  Lemma nullary_post v args s : sem_post s (nullary v args s).
  Proof.
    unfold nullary. destruct args; cbn; (split; [|auto]); try apply wrapW_in_range; try apply frame_refl.
  Qed.

  Lemma store_get_range m k : in_range (store_get m k).
  Proof.
    unfold store_get. destruct (m !! k); [apply wrapW_in_range|]. unfold in_range. pose proof W_pos. lia.
  Qed.

  Lemma in_defined c : In c DEFINED_FAILURES -> c = EC_MODEL \/ In c DEFINED_FAILURES.
  Proof. auto. Qed.

  Lemma do_exit_post b off size s : sem_post s (do_exit b off size s).
  Proof.
    unfold do_exit. destruct (mem_region (m_msize s) off size) as [[r sz]|] eqn:R; cbn.
    - eapply frame_region; eauto.
    - split; [apply frame_refl|right; inlist].
  Qed.

  Lemma do_jump_post dest s : sem_post s (do_jump E dest s).
  Proof.
    unfold do_jump. destruct (valid_jumpdest (code E) dest) eqn:V; cbn.
    - split; [apply frame_refl|]. right. replace (dest + 1 - 1) with dest by lia. exact V.
    - split; [apply frame_refl|right; inlist].
  Qed.

  Lemma do_log_post n args s : sem_post s (do_log E n args s).
  Proof.
    unfold do_log. destruct args as [|off [|size topics]]; cbn; try (split; [apply frame_refl|auto]).
    destruct (negb (length topics =? n)%nat); cbn; [split; [apply frame_refl|auto]|].
    destruct (e_readonly E) eqn:RO; cbn; [split; [apply frame_refl|right; inlist]|].
    destruct (mem_region (m_msize s) off size) as [[r sz]|] eqn:R; cbn.
    - unfold frame, msize_ok; cbn. repeat split; auto; try (intros; eapply mem_region_limit; eauto); congruence.
    - split; [apply frame_refl|right; inlist].
  Qed.

  Lemma do_call_post kind dst value ioff isz ooff osz s :
    sem_post s (do_call E kind dst value ioff isz ooff osz s).
  Proof.
    unfold do_call.
    destruct (e_readonly E && (0 <? value)) eqn:G; cbn; [split; [apply frame_refl|right; inlist]|].
    destruct (mem_region (m_msize s) ioff isz) as [[reg sz]|] eqn:R; cbn; [|split; [apply frame_refl|right; inlist]].
    set (sends := is_reserved_precompile dst || negb (kind =? 1) || (e_acct_kind E (e_canon E (dst mod ADDR_MASK)) =? 1)).
    set (rr := if sends then next_ext s else _).
    destruct rr as [r rest] eqn:RR.
    set (s1 := set_ext _ _ _ _ _).
    assert (F1 : frame s s1).
    { unfold frame, msize_ok, s1; cbn. repeat split; auto; try (intros; eapply mem_region_limit; eauto).
      destruct (sends && negb (is_reserved_precompile dst)); unfold quiet; [|auto].
      right. eexists. split; [reflexivity|]. cbn.
      rewrite H in G. cbn in G. destruct (0 <? value); [discriminate|reflexivity]. }
    destruct (copy_to_memory s1 ooff osz 0 (xr_ret r) false) as [s2|] eqn:C; cbn.
    - assert (F2 : frame s1 s2) by (eapply copy_to_memory_frame; eauto).
      split.
      + destruct (negb (xr_val r =? 0)); unfold in_range, W; lia.
      + eapply frame_trans; eauto. eapply copy_to_memory_log; eauto.
    - split; [exact F1|right; inlist].
  Qed.

  Lemma do_create_post two value off size salt s : sem_post s (do_create E two value off size salt s).
  Proof.
    unfold do_create. destruct (e_readonly E) eqn:RO; cbn; [split; [apply frame_refl|right; inlist]|].
    destruct (mem_region (m_msize s) off size) as [[reg sz]|] eqn:R; cbn; [|split; [apply frame_refl|right; inlist]].
    destruct (m_balance s <? value); cbn.
    - split; [unfold in_range, W; lia|].
      unfold frame, msize_ok; cbn. repeat split; auto; try (intros; eapply mem_region_limit; eauto); congruence.
    - destruct (next_ext s) as [r rest]. split.
      + unfold in_range, ADDR_MASK, W.
        pose proof (Z.mod_pos_bound (xr_val r) (2 ^ 160) ltac:(lia)).
        assert (2 ^ 160 < 2 ^ 256) by (apply Z.pow_lt_mono_r; lia). lia.
      + unfold frame, msize_ok; cbn. repeat split; auto; try (intros; eapply mem_region_limit; eauto); congruence.
  Qed.

  Lemma frame_set_storage s st : e_readonly E = false -> frame s (set_storage st s).
  Proof. intros RO. unfold frame; cbn. split; [auto|]. split; [auto|]. split; [auto|]. intros T. rewrite RO in T. discriminate. Qed.
  Lemma frame_set_transient s st : e_readonly E = false -> frame s (set_transient st s).
  Proof. intros RO. unfold frame; cbn. split; [auto|]. split; [auto|]. split; [auto|]. intros T. rewrite RO in T. discriminate. Qed.
  Lemma frame_set_ext_rw s ret bal ext lg : e_readonly E = false -> frame s (set_ext ret bal ext lg s).
  Proof. intros RO. unfold frame; cbn. split; [auto|]. split; [auto|]. split; [auto|]. intros T. rewrite RO in T. discriminate. Qed.

  Lemma calldataload_range cd idx :
    in_range (be_to_Z (map (fun k => byte_at cd (idx + k)) (zseq 0 32))).
  Proof.
    apply be_to_Z_32_in_range.
    - rewrite map_length. unfold zseq. apply zseq_nat_length.
    - apply Forall_map_range. intros. apply byte_at_range.
  Qed.
  Lemma mload_range m off : in_range (be_to_Z (mem_read m off 32)).
  Proof.
    apply be_to_Z_32_in_range.
    - unfold mem_read. rewrite map_length. unfold zseq. apply zseq_nat_length.
    - unfold mem_read. apply Forall_map_range. intros. apply mem_get_range.
  Qed.

  Ltac post_tac :=
    repeat match goal with
           | |- sem_post _ (match ?x with _ => _ end) => destruct x eqn:?
           | |- sem_post _ (if ?x then _ else _) => destruct x eqn:?
           end;
    cbn [sem_post];
    repeat match goal with
           | |- _ /\ _ => split
           | |- in_range (wrapW _) => apply wrapW_in_range
           | |- in_range (store_get _ _) => apply store_get_range
           | |- in_range (be_to_Z (map _ (zseq 0 32))) => apply calldataload_range
           | |- in_range (be_to_Z (mem_read _ _ 32)) => apply mload_range
           | |- frame ?s ?s => apply frame_refl
           | H : mem_region (m_msize ?s) _ _ = Some (_, ?sz) |- frame ?s (set_mem _ ?sz ?s) => eapply frame_region; exact H
           | H1 : mem_region (m_msize ?s) _ _ = Some (_, ?z2), H2 : mem_region ?z2 _ _ = Some (_, ?z3)
             |- frame ?s (set_mem _ ?z3 ?s) =>
               apply frame_set_mem; intros; eapply mem_region_limit; [|exact H2];
               eapply mem_region_limit; [|exact H1]; assumption
           | H : copy_to_memory ?s _ _ _ _ _ = Some ?s' |- frame ?s ?s' => eapply copy_to_memory_frame; exact H
           | H : e_readonly E = false |- frame ?s (set_storage _ ?s) => apply frame_set_storage; exact H
           | H : e_readonly E = false |- frame ?s (set_transient _ ?s) => apply frame_set_transient; exact H
           | H : e_readonly E = false |- frame ?s (set_ext _ _ _ _ ?s) => apply frame_set_ext_rw; exact H
           | |- _ = EC_MODEL \/ _ => first [left; reflexivity | right; cbn; tauto]
           | |- _ = _ + 1 \/ _ => left; reflexivity
           end.

  Lemma sem_spec i args s : Forall in_range args -> sem_post s (sem ops E i args s).
  Proof.
    intros Ha. destruct i; cbn [sem];
      first [ apply bin_post; [cbn; tauto|exact Ha]
            | apply un_post; [cbn; tauto|exact Ha]
            | apply tern_post; [cbn; tauto|exact Ha]
            | apply nullary_post
            | apply do_log_post
            | idtac ];
      try (post_tac; fail);
      repeat match goal with
             | |- sem_post _ (match ?x with _ => _ end) => destruct x eqn:?
             end;
      first [ apply do_exit_post | apply do_jump_post | apply do_call_post | apply do_create_post | idtac ];
      try (post_tac; fail).
    all: post_tac.
  Qed.
End Frame.

(* ------------------------------------------------------------------------------------------------ *)
(* the generated table against the model: arity discipline *)
(* ------------------------------------------------------------------------------------------------ *)
(* number of operands the implementation function of an instruction takes (its Rust signature);
   None: the instruction manipulates the stack itself (def_push!, def_stackop!) *)
Definition sem_arity (i : instr) : option Z :=
  match i with
  | I_STOP | I_JUMPDEST | I_INVALID | I_PC | I_MSIZE | I_GAS
  | I_ADDRESS | I_ORIGIN | I_CALLER | I_CALLVALUE | I_CALLDATASIZE | I_CODESIZE | I_GASPRICE
  | I_RETURNDATASIZE | I_COINBASE | I_TIMESTAMP | I_NUMBER | I_PREVRANDAO | I_GASLIMIT | I_CHAINID
  | I_SELFBALANCE | I_BASEFEE => Some 0
  | I_ISZERO | I_NOT | I_CLZ | I_BALANCE | I_CALLDATALOAD | I_EXTCODESIZE | I_EXTCODEHASH | I_BLOCKHASH
  | I_MLOAD | I_SLOAD | I_TLOAD | I_JUMP | I_SELFDESTRUCT => Some 1
  | I_ADD | I_MUL | I_SUB | I_DIV | I_SDIV | I_MOD | I_SMOD | I_EXP | I_SIGNEXTEND
  | I_LT | I_GT | I_SLT | I_SGT | I_EQ | I_AND | I_OR | I_XOR | I_BYTE | I_SHL | I_SHR | I_SAR
  | I_KECCAK256 | I_MSTORE | I_MSTORE8 | I_SSTORE | I_TSTORE | I_JUMPI | I_RETURN | I_REVERT | I_LOG0 => Some 2
  | I_ADDMOD | I_MULMOD | I_CALLDATACOPY | I_CODECOPY | I_RETURNDATACOPY | I_MCOPY | I_CREATE | I_LOG1 => Some 3
  | I_EXTCODECOPY | I_CREATE2 | I_LOG2 => Some 4
  | I_LOG3 => Some 5
  | I_LOG4 | I_DELEGATECALL | I_STATICCALL => Some 6
  | I_CALL => Some 7
  | _ => None
  end.

Inductive rkind := RKPush | RKNone | RKJump | RKExit.
(* what the implementation function returns: a word, nothing, a new pc, an Output *)
Definition res_kind (i : instr) : rkind :=
  match i with
  | I_STOP | I_RETURN | I_REVERT | I_SELFDESTRUCT => RKExit
  | I_JUMP | I_JUMPI => RKJump
  | I_JUMPDEST | I_INVALID | I_CALLDATACOPY | I_CODECOPY | I_EXTCODECOPY | I_RETURNDATACOPY | I_MSTORE
  | I_MSTORE8 | I_SSTORE | I_TSTORE | I_MCOPY | I_LOG0 | I_LOG1 | I_LOG2 | I_LOG3 | I_LOG4 => RKNone
  | _ => RKPush
  end.

Definition pre_eqb (a b : pre_disc) : bool :=
  match a, b with
  | PrePopMany, PrePopMany | PreEnsureOne, PreEnsureOne | PreEnsureIgnored, PreEnsureIgnored
  | PreDelegated, PreDelegated | PreNone, PreNone => true
  | _, _ => false
  end.
Definition post_eqb (a b : post_disc) : bool :=
  match a, b with
  | PostPushUnchecked, PostPushUnchecked | PostPushChecked, PostPushChecked
  | PostDelegated, PostDelegated | PostNone, PostNone => true
  | _, _ => false
  end.
Definition pc_eqb (a b : pc_disc) : bool :=
  match a, b with
  | PcNext, PcNext | PcJump, PcJump | PcEnd, PcEnd | PcPushData, PcPushData => true
  | _, _ => false
  end.

Definition is_dup (i : instr) : bool :=
  match i with
  | I_DUP1 | I_DUP2 | I_DUP3 | I_DUP4 | I_DUP5 | I_DUP6 | I_DUP7 | I_DUP8 | I_DUP9 | I_DUP10 | I_DUP11
  | I_DUP12 | I_DUP13 | I_DUP14 | I_DUP15 | I_DUP16 => true
  | _ => false
  end.
Definition is_swap (i : instr) : bool :=
  match i with
  | I_SWAP1 | I_SWAP2 | I_SWAP3 | I_SWAP4 | I_SWAP5 | I_SWAP6 | I_SWAP7 | I_SWAP8 | I_SWAP9 | I_SWAP10
  | I_SWAP11 | I_SWAP12 | I_SWAP13 | I_SWAP14 | I_SWAP15 | I_SWAP16 => true
  | _ => false
  end.
Definition is_pop (i : instr) : bool := match i with I_POP => true | _ => false end.

(* The argument that makes `push_unchecked` and the raw-pointer `pop_many` safe, per table row:
   - an unchecked push happens only after pop_many of >= 1 operands, or after a checked ensure_one;
   - the number of operands popped is the number the implementation function takes;
   - what is done with the result (push / nothing / jump / exit) is what the function returns;
   - DUPn / SWAPn heights are 1..16, PUSHn widths 0..32. *)
Definition row_ok_generic (r : oprow) : bool :=
  match sem_arity (op_instr r) with
  | None => false
  | Some n =>
      (match op_pre r with
       | PrePopMany => (op_pops r =? n)
       | PreEnsureOne | PreNone => (n =? 0)
       | _ => false
       end) &&
      (match res_kind (op_instr r) with
       | RKPush =>
           pc_eqb (op_pc r) PcNext && (op_pushes r =? 1) &&
           (post_eqb (op_post r) PostPushChecked ||
            (post_eqb (op_post r) PostPushUnchecked &&
             ((pre_eqb (op_pre r) PrePopMany && (1 <=? op_pops r)) || pre_eqb (op_pre r) PreEnsureOne)))
       | RKNone => post_eqb (op_post r) PostNone && pc_eqb (op_pc r) PcNext && (op_pushes r =? 0)
       | RKJump => post_eqb (op_post r) PostNone && pc_eqb (op_pc r) PcJump && (op_pushes r =? 0)
       | RKExit => post_eqb (op_post r) PostNone && pc_eqb (op_pc r) PcEnd && (op_pushes r =? 0)
       end)
  end.

Definition row_ok (r : oprow) : bool :=
  (0 <=? op_byte r) && (op_byte r <? 256) && (instr_byte (op_instr r) =? op_byte r) &&
  match op_kind r with
  | KStackop =>
      pre_eqb (op_pre r) PreDelegated && post_eqb (op_post r) PostDelegated && pc_eqb (op_pc r) PcNext &&
      (is_pop (op_instr r) ||
       ((is_dup (op_instr r) || is_swap (op_instr r)) && (1 <=? op_arg r) && (op_arg r <=? 16)))
  | KPush =>
      pre_eqb (op_pre r) PreDelegated && post_eqb (op_post r) PostDelegated && pc_eqb (op_pc r) PcPushData &&
      (0 <=? op_arg r) && (op_arg r <=? 32)
  | _ => row_ok_generic r
  end.

Fixpoint nodup_z (l : list Z) : bool :=
  match l with [] => true | x :: r => negb (existsb (Z.eqb x) r) && nodup_z r end.

Definition table_ok : bool :=
  forallb row_ok opcode_table && nodup_z (map op_byte opcode_table).

(* proved by evaluation of the GENERATED table: a changed arity, a dropped `?` after ensure_one, a
   push_unchecked in the wrong macro ... make this fail *)
Lemma table_ok_true : table_ok = true.
Proof. vm_compute. reflexivity. Qed.

Lemma arity_discipline : forall r, In r opcode_table -> row_ok r = true.
Proof.
  pose proof table_ok_true as T. unfold table_ok in T. apply andb_true_iff in T. destruct T as [T _].
  rewrite forallb_forall in T. exact T.
Qed.

Lemma stack_size_1024 : STACK_SIZE = 1024.
Proof. reflexivity. Qed.

Lemma lookup_row_in b r : lookup_row b = Some r -> In r opcode_table /\ op_byte r = b.
Proof.
  unfold lookup_row. intros H. apply find_some in H. destruct H as [H1 H2].
  split; [exact H1|]. apply Z.eqb_eq. exact H2.
Qed.

Section SemShape.
  Variable ops : word_ops.
  Variable E : env.

  Definition kind_of (r : sem_res) : option rkind :=
    match r with
    | SemPush _ _ => Some RKPush | SemNone _ => Some RKNone | SemJump _ _ => Some RKJump
    | SemExit _ _ => Some RKExit | SemFail _ _ => None
    end.

  Ltac shape_tac :=
    cbn [sem bin un tern nullary];
    unfold do_log, do_call, do_create, do_exit, do_jump;
    cbn [length Nat.eqb negb];
    repeat match goal with
           | |- context [match ?x with _ => _ end] =>
               lazymatch type of x with sem_res => fail | _ => destruct x end
           | |- context [if ?x then _ else _] => destruct x
           end.

  (* with the right number of operands the implementation function never reports a model mismatch,
     and what it returns is of the kind [res_kind] says *)
  Lemma sem_shape i args s n :
    sem_arity i = Some n -> zlen args = n ->
    match sem ops E i args s with
    | SemFail c _ => c <> EC_MODEL
    | r => kind_of r = Some (res_kind i)
    end.
  Proof.
    intros A L.
    destruct i; cbn in A; try discriminate; injection A as <-;
      destruct args as [|a1 [|a2 [|a3 [|a4 [|a5 [|a6 [|a7 [|a8 ?]]]]]]]];
      cbv [zlen length] in L; try (exfalso; lia); clear L;
      shape_tac; cbn; try reflexivity; try (vm_compute; discriminate).
  Qed.
End SemShape.

(* ------------------------------------------------------------------------------------------------ *)
(* one step: well-formedness (stack bound, stack words in range, memory size bound), defined failure
   classes, read-only frame *)
(* ------------------------------------------------------------------------------------------------ *)
Lemma firstn_zlen {A} (l : list A) n :
  0 <= n <= zlen l -> zlen (firstn (Z.to_nat n) l) = n.
Proof. unfold zlen. intros H. rewrite firstn_length. lia. Qed.
Lemma skipn_zlen {A} (l : list A) n :
  0 <= n <= zlen l -> zlen (skipn (Z.to_nat n) l) = zlen l - n.
Proof. unfold zlen. intros H. rewrite skipn_length. lia. Qed.
Lemma zlen_app {A} (l1 l2 : list A) : zlen (l1 ++ l2) = zlen l1 + zlen l2.
Proof. unfold zlen. rewrite app_length. lia. Qed.

Section Step.
  Variable ops : word_ops.
  Variable E : env.
  Hypothesis Hops : ops_ok ops.

  Definition wf (s : mstate) : Prop :=
    zlen (m_stack s) <= STACK_SIZE /\ Forall in_range (m_stack s) /\ msize_ok s.

  Definition ro_frame (s s' : mstate) : Prop :=
    e_readonly E = true ->
    m_storage s' = m_storage s /\ m_transient s' = m_transient s /\ quiet (m_log s) (m_log s').

  Definition defined_outcome (o : outcome) : Prop :=
    match o with Failure c => In c DEFINED_FAILURES | _ => True end.

  Definition step_post (s : mstate) (r : step_res) : Prop :=
    match r with
    | SNext s' => wf s' /\ ro_frame s s'
    | SHalt o s' => wf s' /\ ro_frame s s' /\ defined_outcome o
    end.

  Lemma ro_frame_refl s : ro_frame s s.
  Proof. unfold ro_frame, quiet. auto. Qed.

  (* pop_many::<S> stays inside the vector: it yields exactly S operands, the former top S items *)
  Lemma pop_many_in_bounds r stk args stk' :
    op_pre r = PrePopMany -> 0 <= op_pops r ->
    take_operands r stk = inr (args, stk') ->
    stk = args ++ stk' /\ zlen args = op_pops r /\ op_pops r <= zlen stk.
  Proof.
    intros P N. unfold take_operands. rewrite P.
    destruct (zlen stk <? op_pops r) eqn:C; [discriminate|]. apply Z.ltb_ge in C.
    intros [= <- <-]. split; [symmetry; apply firstn_skipn|]. split; [apply firstn_zlen; lia|exact C].
  Qed.

  Lemma take_operands_spec r stk :
    (op_pre r = PrePopMany -> 0 <= op_pops r) ->
    match take_operands r stk with
    | inl c => c = EVM_CONTRACT_STACK_UNDERFLOW \/ c = EVM_CONTRACT_STACK_OVERFLOW
    | inr (args, stk') =>
        stk = args ++ stk' /\
        zlen args = (match op_pre r with PrePopMany => op_pops r | _ => 0 end) /\
        (op_pre r = PreEnsureOne -> zlen stk < STACK_SIZE)
    end.
  Proof.
    intros N. unfold take_operands. destruct (op_pre r) eqn:P.
    - specialize (N eq_refl). destruct (zlen stk <? op_pops r) eqn:C; [left; reflexivity|]. apply Z.ltb_ge in C.
      split; [symmetry; apply firstn_skipn|]. split; [apply firstn_zlen; lia|discriminate].
    - destruct (STACK_SIZE <=? zlen stk) eqn:C; [right; reflexivity|]. apply Z.leb_gt in C.
      split; [reflexivity|]. split; [reflexivity|auto].
    - split; [reflexivity|]. split; [reflexivity|discriminate].
    - split; [reflexivity|]. split; [reflexivity|discriminate].
    - split; [reflexivity|]. split; [reflexivity|discriminate].
  Qed.

  Lemma in_def_under : In EVM_CONTRACT_STACK_UNDERFLOW DEFINED_FAILURES. Proof. cbn; tauto. Qed.
  Lemma in_def_over : In EVM_CONTRACT_STACK_OVERFLOW DEFINED_FAILURES. Proof. cbn; tauto. Qed.
  Lemma in_def_undef : In EVM_CONTRACT_UNDEFINED_INSTRUCTION DEFINED_FAILURES. Proof. cbn; tauto. Qed.

  Lemma pre_eqb_eq a b : pre_eqb a b = true -> a = b.
  Proof. destruct a, b; cbn; congruence. Qed.
  Lemma post_eqb_eq a b : post_eqb a b = true -> a = b.
  Proof. destruct a, b; cbn; congruence. Qed.
  Lemma pc_eqb_eq a b : pc_eqb a b = true -> a = b.
  Proof. destruct a, b; cbn; congruence. Qed.

  Lemma frame_ro s s' : frame E s s' -> ro_frame s s'.
  Proof. intros (_ & _ & _ & H). exact H. Qed.

  Lemma exec_generic_spec r s :
    row_ok_generic r = true -> wf s -> step_post s (exec_generic ops E r s).
  Proof.
    intros Hok WFs. pose proof WFs as (Hlen & Hrng & Hms). unfold row_ok_generic in Hok.
    destruct (sem_arity (op_instr r)) as [n|] eqn:AR; [|discriminate].
    apply andb_true_iff in Hok. destruct Hok as [Hpre Hres].
    assert (Npops : op_pre r = PrePopMany -> 0 <= op_pops r).
    { intros P. rewrite P in Hpre. apply Z.eqb_eq in Hpre.
      destruct (op_instr r); cbn in AR; try discriminate; injection AR as <-; lia. }
    unfold exec_generic.
    pose proof (take_operands_spec r (m_stack s) Npops) as TO.
    destruct (take_operands r (m_stack s)) as [c|[args stk']] eqn:T.
    { cbn. split; [exact WFs|]. split; [apply ro_frame_refl|].
      destruct TO as [->| ->]; [apply in_def_under|apply in_def_over]. }
    destruct TO as (Hsplit & Hargs & Hens).
    assert (Hrng2 : Forall in_range args /\ Forall in_range stk').
    { rewrite Hsplit in Hrng. apply Forall_app in Hrng. exact Hrng. }
    destruct Hrng2 as [Ra Rs].
    assert (Hn : zlen args = n).
    { rewrite Hargs. destruct (op_pre r); try discriminate; apply Z.eqb_eq in Hpre; lia. }
    assert (Hlen' : zlen stk' = zlen (m_stack s) - zlen args).
    { rewrite Hsplit. rewrite zlen_app. lia. }
    pose proof (sem_spec ops E Hops (op_instr r) args (set_stack stk' s) Ra) as SP.
    pose proof (sem_shape ops E (op_instr r) args (set_stack stk' s) n AR Hn) as SH.
    assert (WF0 : forall s', frame E (set_stack stk' s) s' -> wf s' /\ ro_frame s s').
    { intros s' (F1 & F2 & F3 & F4). cbn in F1, F2, F3, F4. split.
      - unfold wf. rewrite F1. split; [pose proof (zlen_nonneg args); lia|]. split; [exact Rs|]. apply F3. exact Hms.
      - exact F4. }
    destruct (sem ops E (op_instr r) args (set_stack stk' s)) as [v s'|s'|p s'|o s'|c s'] eqn:SEM; cbn in SP, SH.
    - (* push *)
      destruct SP as [Rv Fr]. injection SH as SH. rewrite <- SH in Hres.
      apply andb_true_iff in Hres. destruct Hres as [Hres Hpost]. apply andb_true_iff in Hres. destruct Hres as [Hpc _].
      apply pc_eqb_eq in Hpc. rewrite Hpc.
      destruct (WF0 s' Fr) as [(W1 & W2 & W3) RO]. destruct Fr as (F1 & _).
      apply orb_true_iff in Hpost. destruct Hpost as [Hc|Hu].
      + apply post_eqb_eq in Hc. rewrite Hc. unfold push_checked.
        destruct (STACK_SIZE <=? zlen (m_stack s')) eqn:C.
        * cbn. split; [exact WFs|]. split; [apply ro_frame_refl|apply in_def_over].
        * apply Z.leb_gt in C. cbn. split; [|exact RO]. unfold wf; cbn. rewrite zlen_cons.
          split; [lia|]. split; [constructor; assumption|exact W3].
      + apply andb_true_iff in Hu. destruct Hu as [Hu Hcond]. apply post_eqb_eq in Hu. rewrite Hu.
        cbn. split; [|exact RO]. unfold wf; cbn. rewrite zlen_cons. cbn in F1. rewrite F1.
        split; [|split; [constructor; [assumption|rewrite <- F1; assumption]|exact W3]].
        apply orb_true_iff in Hcond. destruct Hcond as [Hp|He].
        * apply andb_true_iff in Hp. destruct Hp as [Hp H1]. apply pre_eqb_eq in Hp. apply Z.leb_le in H1.
          rewrite Hp in Hargs. lia.
        * apply pre_eqb_eq in He. specialize (Hens He). rewrite He in Hargs. lia.
    - (* nothing *)
      injection SH as SH. rewrite <- SH in Hres.
      apply andb_true_iff in Hres. destruct Hres as [Hres _]. apply andb_true_iff in Hres. destruct Hres as [Hpost Hpc].
      apply post_eqb_eq in Hpost. apply pc_eqb_eq in Hpc. rewrite Hpost, Hpc. cbn.
      destruct (WF0 s' SP) as [(W1 & W2 & W3) RO]. split; [|exact RO]. unfold wf; cbn. auto.
    - (* jump *)
      destruct SP as [Fr _]. injection SH as SH. rewrite <- SH in Hres.
      apply andb_true_iff in Hres. destruct Hres as [Hres _]. apply andb_true_iff in Hres. destruct Hres as [_ Hpc].
      apply pc_eqb_eq in Hpc. rewrite Hpc. cbn.
      destruct (WF0 s' Fr) as [(W1 & W2 & W3) RO]. split; [|exact RO]. unfold wf; cbn. auto.
    - (* exit *)
      injection SH as SH. rewrite <- SH in Hres.
      apply andb_true_iff in Hres. destruct Hres as [Hres _]. apply andb_true_iff in Hres. destruct Hres as [_ Hpc].
      apply pc_eqb_eq in Hpc. rewrite Hpc. cbn.
      destruct (WF0 s' SP) as [W RO]. split; [exact W|]. split; [exact RO|]. destruct o; exact I || idtac.
      (* the exits of the modelled instructions are Return / Revert *)
      exfalso. clear - SEM. destruct (op_instr r); cbn [sem bin un tern nullary] in SEM;
        unfold bin, un, tern, nullary, do_log, do_call, do_create, do_exit, do_jump in SEM;
        repeat match type of SEM with
               | context [match ?x with _ => _ end] => destruct x
               | context [if ?x then _ else _] => destruct x
               end; discriminate.
    - (* failure *)
      destruct SP as [Fr [Hc|Hc]]; [contradiction|]. cbn.
      destruct (WF0 s' Fr) as [W RO]. auto.
  Qed.
End Step.

Lemma swap_list_len (top : Z) rest k :
  (k < length rest)%nat ->
  length (nth k rest 0 :: firstn k rest ++ top :: skipn (S k) rest) = S (length rest).
Proof.
  intros H. cbn [length]. rewrite app_length. cbn [length]. rewrite firstn_length, skipn_length. lia.
Qed.
Lemma swap_list_forall (P : Z -> Prop) top rest k :
  P top -> Forall P rest -> (k < length rest)%nat ->
  Forall P (nth k rest 0 :: firstn k rest ++ top :: skipn (S k) rest).
Proof.
  intros Pt Pr H. constructor.
  - rewrite Forall_forall in Pr. apply Pr. apply nth_In. exact H.
  - apply Forall_app. split; [apply Forall_take; exact Pr|]. constructor; [exact Pt|apply Forall_drop; exact Pr].
Qed.

Section Step2.
  Variable ops : word_ops.
  Variable E : env.
  Hypothesis Hops : ops_ok ops.

  Lemma halt_post s c : wf s -> In c DEFINED_FAILURES -> step_post E s (fail c s).
  Proof. intros W I. cbn. split; [exact W|]. split; [apply ro_frame_refl|exact I]. Qed.

  Lemma next_stack_post s stk p :
    wf s -> zlen stk <= STACK_SIZE -> Forall in_range stk ->
    step_post E s (SNext (set_pc p (set_stack stk s))).
  Proof.
    intros (W1 & W2 & W3) L F. cbn. split; [|unfold ro_frame, quiet; cbn; auto]. unfold wf; cbn. auto.
  Qed.

  Lemma exec_stackop_spec r s :
    row_ok r = true -> op_kind r = KStackop -> wf s -> step_post E s (exec_stackop r s).
  Proof.
    intros Hok K WFs. pose proof WFs as (Hlen & Hrng & Hms).
    unfold row_ok in Hok. rewrite K in Hok.
    apply andb_true_iff in Hok. destruct Hok as [_ Hok]. apply andb_true_iff in Hok. destruct Hok as [_ Hcase].
    unfold exec_stackop.
    destruct (op_instr r); cbn in Hcase; try discriminate.
    (* DUP1..16 *)
    1-16: (apply andb_true_iff in Hcase; destruct Hcase as [H1 H16]; apply Z.leb_le in H1; apply Z.leb_le in H16;
      destruct (op_arg r <=? 0) eqn:C0; [apply Z.leb_le in C0; lia|];
      destruct (STACK_SIZE <=? zlen (m_stack s)) eqn:C1; [apply halt_post; [exact WFs|apply in_def_over]|];
      apply Z.leb_gt in C1;
      destruct (zlen (m_stack s) <? op_arg r) eqn:C2; [apply halt_post; [exact WFs|apply in_def_under]|];
      apply Z.ltb_ge in C2;
      apply next_stack_post; [exact WFs|rewrite zlen_cons; lia|];
      constructor; [|exact Hrng];
      rewrite Forall_forall in Hrng; apply Hrng; apply nth_In; unfold zlen in C2; lia).
    1: { (* POP *)
      destruct (m_stack s) as [|x rest] eqn:ST.
      - apply halt_post; [exact WFs|apply in_def_under].
      - apply next_stack_post; [exact WFs| |].
        + rewrite zlen_cons in Hlen. lia.
        + inversion Hrng; assumption. }
    (* SWAP1..16 *)
    all: (apply andb_true_iff in Hcase; destruct Hcase as [H1 H16]; apply Z.leb_le in H1; apply Z.leb_le in H16;
      destruct (op_arg r <? 0) eqn:C0; [apply Z.ltb_lt in C0; lia|];
      destruct (zlen (m_stack s) <=? op_arg r) eqn:C1; [apply halt_post; [exact WFs|apply in_def_under]|];
      apply Z.leb_gt in C1;
      destruct (m_stack s) as [|top rest] eqn:ST; [apply halt_post; [exact WFs|apply in_def_under]|];
      destruct (op_arg r =? 0) eqn:C2; [apply Z.eqb_eq in C2; lia|];
      rewrite zlen_cons in C1, Hlen; unfold zlen in C1;
      assert (KL : (Z.to_nat (op_arg r - 1) < length rest)%nat) by lia;
      inversion Hrng as [|? ? Rt Rr]; subst;
      apply next_stack_post; [exact WFs| |apply swap_list_forall; assumption];
      unfold zlen; rewrite swap_list_len by exact KL; unfold zlen in Hlen; lia).
  Qed.

  Lemma exec_push_spec r s :
    row_ok r = true -> op_kind r = KPush -> wf s -> step_post E s (exec_push E r s).
  Proof.
    intros Hok K WFs. pose proof WFs as (Hlen & Hrng & Hms).
    unfold row_ok in Hok. rewrite K in Hok.
    apply andb_true_iff in Hok. destruct Hok as [_ Hok]. apply andb_true_iff in Hok. destruct Hok as [Hok H32].
    apply andb_true_iff in Hok. destruct Hok as [_ H0]. apply Z.leb_le in H0. apply Z.leb_le in H32.
    unfold exec_push.
    destruct ((op_arg r <? 0) || (32 <? op_arg r)) eqn:C.
    { apply orb_true_iff in C. destruct C as [C|C]; apply Z.ltb_lt in C; lia. }
    unfold push_checked.
    destruct (STACK_SIZE <=? zlen (m_stack s)) eqn:C1; [apply halt_post; [exact WFs|apply in_def_over]|].
    apply Z.leb_gt in C1. cbn. split; [|unfold ro_frame, quiet; cbn; auto]. unfold wf; cbn. rewrite zlen_cons.
    split; [lia|]. split; [|exact Hms]. constructor; [|exact Hrng].
    (* a PUSHn value is below 256^n <= 2^256 *)
    set (bs := map _ _).
    assert (B : 0 <= be_to_Z bs < 256 ^ Z.of_nat (length bs)).
    { apply be_to_Z_bound. apply Forall_map_range. intros. apply byte_at_range. }
    assert (L : Z.of_nat (length bs) = op_arg r).
    { unfold bs. rewrite map_length. unfold zseq. rewrite zseq_nat_length. lia. }
    rewrite L in B. unfold in_range, W.
    assert (256 ^ op_arg r <= 256 ^ 32) by (apply Z.pow_le_mono_r; lia).
    change (256 ^ 32) with (2 ^ 256) in H. lia.
  Qed.

  (* every byte either steps or halts with a defined class; the successor is well formed *)
  Lemma step_spec s : wf s -> step_post E s (step ops E s).
  Proof.
    intros WFs. unfold step.
    destruct (lookup_row (byte_at (code E) (m_pc s))) as [r|] eqn:L.
    - apply lookup_row_in in L. destruct L as [Hin _].
      pose proof (arity_discipline r Hin) as Hok.
      unfold exec_row. destruct (op_kind r) eqn:K;
        try (apply exec_generic_spec; [exact Hops| |exact WFs];
             unfold row_ok in Hok; rewrite K in Hok; apply andb_true_iff in Hok; apply Hok).
      + apply exec_push_spec; assumption.
      + apply exec_stackop_spec; assumption.
    - apply halt_post; [exact WFs|apply in_def_undef].
  Qed.
End Step2.

(* ------------------------------------------------------------------------------------------------ *)
(* jump-destination analysis (Bytecode::new) against the specification's instruction boundaries *)
(* ------------------------------------------------------------------------------------------------ *)
(* width of the immediate data of the instruction with opcode byte b (Yellow Paper: PUSH1..PUSH32 are
   0x60..0x7f and carry b - 0x5f bytes) *)
Definition pushw (b : Z) : nat := if (96 <=? b) && (b <=? 127) then Z.to_nat (b - 95) else 0%nat.

Definition nbyte (code : list Z) (i : nat) : Z := (nth i code 0) mod 256.

(* instruction boundaries: position 0, and the position after an instruction and its immediate data *)
Inductive boundary (code : list Z) : nat -> Prop :=
| bnd_0 : boundary code 0
| bnd_S i : boundary code i -> (i < length code)%nat -> boundary code (i + 1 + pushw (nbyte code i)).

(* the same notion relative to a suffix: [rb k l j]: after skipping k data bytes of l, j is a boundary *)
Inductive rb : nat -> list Z -> nat -> Prop :=
| rb_here l : rb 0 l 0
| rb_skip k b l j : rb k l j -> rb (S k) (b :: l) (S j)
| rb_step b l j : rb (pushw (b mod 256)) l j -> rb 0 (b :: l) (S j).

Lemma jd_bytes : B_JUMPDEST = 91 /\ B_PUSH1 = 96 /\ B_PUSH32 = 127.
Proof. vm_compute. auto. Qed.

Lemma analyse_skip_eq b :
  (if (B_PUSH1 <=? b) && (b <=? B_PUSH32) then Z.to_nat (b - B_PUSH1 + 1) else 0%nat) = pushw b.
Proof.
  destruct jd_bytes as (_ & -> & ->). unfold pushw.
  destruct ((96 <=? b) && (b <=? 127)); [f_equal; lia|reflexivity].
Qed.

Lemma analyse_spec : forall l k j,
  nth j (analyse l k) false = true <-> (j < length l)%nat /\ rb k l j /\ (nth j l 0) mod 256 = 91.
Proof.
  destruct jd_bytes as (J & P1 & P32).
  induction l as [|b l IH]; intros k j.
  - cbn. split; [destruct j; discriminate|intros [H _]; lia].
  - cbn [analyse]. destruct k as [|k].
    + (* at an instruction *)
      destruct (b mod 256 =? B_JUMPDEST) eqn:EJ.
      * apply Z.eqb_eq in EJ. rewrite J in EJ.
        destruct j as [|j]; cbn [nth length].
        -- split; [intros _; split; [lia|split; [constructor|exact EJ]]|auto].
        -- rewrite IH. split.
           ++ intros (A & B & C). split; [lia|]. split; [|exact C].
              apply rb_step. unfold pushw. rewrite EJ. cbn. exact B.
           ++ intros (A & B & C). split; [lia|]. split; [|exact C].
              inversion B as [| |? ? ? HB]; subst. unfold pushw in HB. rewrite EJ in HB. cbn in HB. exact HB.
      * apply Z.eqb_neq in EJ. rewrite J in EJ.
        assert (R : forall kk, (if (B_PUSH1 <=? b mod 256) && (b mod 256 <=? B_PUSH32)
                                then false :: analyse l (Z.to_nat (b mod 256 - B_PUSH1 + 1))
                                else false :: analyse l 0) = false :: analyse l kk ->
                               kk = pushw (b mod 256) -> True) by auto.
        clear R.
        assert (EQ : (if (B_PUSH1 <=? b mod 256) && (b mod 256 <=? B_PUSH32)
                      then false :: analyse l (Z.to_nat (b mod 256 - B_PUSH1 + 1))
                      else false :: analyse l 0) = false :: analyse l (pushw (b mod 256))).
        { rewrite <- analyse_skip_eq. destruct ((B_PUSH1 <=? b mod 256) && (b mod 256 <=? B_PUSH32)); reflexivity. }
        rewrite EQ. clear EQ.
        destruct j as [|j]; cbn [nth length].
        -- split; [discriminate|]. intros (_ & _ & C). contradiction.
        -- rewrite IH. split.
           ++ intros (A & B & C). split; [lia|]. split; [apply rb_step; exact B|exact C].
           ++ intros (A & B & C). split; [lia|]. split; [|exact C]. inversion B; subst. assumption.
    + (* inside push data *)
      destruct j as [|j]; cbn [nth length].
      * split; [discriminate|]. intros (_ & B & _). inversion B.
      * rewrite IH. split.
        -- intros (A & B & C). split; [lia|]. split; [apply rb_skip; exact B|exact C].
        -- intros (A & B & C). split; [lia|]. split; [|exact C]. inversion B; subst. assumption.
Qed.

(* suffix-relative boundaries are boundaries of the whole code *)
Lemma rb_boundary : forall k l j, rb k l j ->
  forall pre, boundary (pre ++ l) (length pre + k) -> boundary (pre ++ l) (length pre + j).
Proof.
  induction 1 as [l|k b l j H IH|b l j H IH]; intros pre B.
  - exact B.
  - specialize (IH (pre ++ [b])). rewrite <- app_assoc in IH. cbn in IH. rewrite app_length in IH. cbn in IH.
    replace (length pre + S j)%nat with (length pre + 1 + j)%nat by lia. apply IH.
    replace (length pre + 1 + k)%nat with (length pre + S k)%nat by lia. exact B.
  - specialize (IH (pre ++ [b])). rewrite <- app_assoc in IH. cbn in IH. rewrite app_length in IH. cbn in IH.
    replace (length pre + S j)%nat with (length pre + 1 + j)%nat by lia. apply IH.
    rewrite Nat.add_0_r in B.
    pose proof (bnd_S (pre ++ b :: l) (length pre) B) as S.
    assert (NB : nbyte (pre ++ b :: l) (length pre) = b mod 256).
    { unfold nbyte. rewrite app_nth2 by lia. rewrite Nat.sub_diag. reflexivity. }
    rewrite NB in S. apply S. rewrite app_length. cbn. lia.
Qed.

Lemma rb_k_k : forall k l, (k <= length l)%nat -> rb k l k.
Proof.
  induction k; intros l H; [constructor|].
  destruct l as [|b l]; [cbn in H; lia|]. apply rb_skip. apply IHk. cbn in H. lia.
Qed.

(* stepping over one instruction, relative form *)
Lemma rb_advance : forall k l j, rb k l j ->
  (j < length l)%nat ->
  (j + 1 + pushw (nbyte l j) <= length l)%nat ->
  rb k l (j + 1 + pushw (nbyte l j)).
Proof.
  unfold nbyte. induction 1 as [l|k b l j H IH|b l j H IH]; intros Hj Hend.
  - destruct l as [|b l]; [cbn in Hj; lia|]. cbn [nth] in *. cbn [Nat.add].
    apply rb_step. apply rb_k_k. cbn in Hend. lia.
  - cbn [nth length] in *. cbn [Nat.add]. apply rb_skip. apply IH; lia.
  - cbn [nth length] in *. cbn [Nat.add]. apply rb_step. apply IH; lia.
Qed.

Lemma boundary_rb code i : boundary code i -> (i <= length code)%nat -> rb 0 code i.
Proof.
  induction 1 as [|i B IH Hi]; intros Hle; [constructor|].
  unfold nbyte in *. apply rb_advance; [apply IH; lia|exact Hi|exact Hle].
Qed.

Lemma znth_b_nth l i : 0 <= i -> znth_b l i = nth (Z.to_nat i) l false.
Proof.
  revert i. induction l as [|x l IH]; intros i Hi; cbn.
  - destruct (Z.to_nat i); reflexivity.
  - destruct (i =? 0) eqn:C.
    + apply Z.eqb_eq in C. subst. reflexivity.
    + apply Z.eqb_neq in C. rewrite IH by lia.
      replace (Z.to_nat i) with (S (Z.to_nat (i - 1))) by lia. reflexivity.
Qed.
Lemma znth_nth l i : 0 <= i -> znth l i = nth (Z.to_nat i) l 0.
Proof.
  revert i. induction l as [|x l IH]; intros i Hi; cbn.
  - destruct (Z.to_nat i); reflexivity.
  - destruct (i =? 0) eqn:C.
    + apply Z.eqb_eq in C. subst. reflexivity.
    + apply Z.eqb_neq in C. rewrite IH by lia.
      replace (Z.to_nat i) with (S (Z.to_nat (i - 1))) by lia. reflexivity.
Qed.

(* Bytecode::valid_jump_destination accepts exactly the JUMPDEST bytes that sit on an instruction
   boundary: push data is excluded, a truncated trailing PUSH is handled *)
Theorem jumpdest_analysis_correct code i :
  valid_jumpdest code i = true <->
  0 <= i < zlen code /\ byte_at code i = 91 /\ boundary code (Z.to_nat i).
Proof.
  unfold valid_jumpdest, byte_at, zlen. split.
  - intros H. apply andb_true_iff in H. destruct H as [H0 H]. apply Z.leb_le in H0.
    rewrite znth_b_nth in H by exact H0. apply analyse_spec in H. destruct H as (A & B & C).
    split; [lia|]. split; [rewrite znth_nth by exact H0; exact C|].
    apply (rb_boundary 0 code (Z.to_nat i) B []); constructor.
  - intros ((H0 & H1) & C & B). apply andb_true_iff. split; [apply Z.leb_le; exact H0|].
    rewrite znth_b_nth by exact H0. apply analyse_spec. split; [lia|].
    split; [apply boundary_rb; [exact B|lia]|rewrite <- znth_nth by exact H0; exact C].
Qed.

(* ------------------------------------------------------------------------------------------------ *)
(* whole runs *)
(* ------------------------------------------------------------------------------------------------ *)
Section Run.
  Variable ops : word_ops.
  Variable E : env.
  Hypothesis Hops : ops_ok ops.

  Definition final (r : run_res) : mstate := match r with Done _ s | OutOfFuel s => s end.

  (* nothing a static context forbids has happened between s and s' *)
  Definition ro_multi (s s' : mstate) : Prop :=
    e_readonly E = true ->
    m_storage s' = m_storage s /\ m_transient s' = m_transient s /\
    (forall e, In e (m_log s') -> In e (m_log s) \/ is_effect e = false).

  Lemma ro_multi_refl s : ro_multi s s.
  Proof. unfold ro_multi. auto. Qed.

  Lemma ro_multi_step s s1 s2 : ro_frame E s s1 -> ro_multi s1 s2 -> ro_multi s s2.
  Proof.
    intros F M RO. destruct (F RO) as (A1 & A2 & A3). destruct (M RO) as (B1 & B2 & B3).
    split; [congruence|]. split; [congruence|].
    intros e He. destruct (B3 e He) as [H|H]; [|auto].
    destruct A3 as [A3|(e0 & A3 & Q)]; rewrite A3 in H; [auto|].
    destruct H as [<-|H]; auto.
  Qed.

  Theorem run_inv : forall fuel s, wf s ->
    wf (final (run ops E fuel s)) /\ ro_multi s (final (run ops E fuel s)) /\
    match run ops E fuel s with Done o _ => defined_outcome o | OutOfFuel _ => True end.
  Proof.
    induction fuel as [|f IH]; intros s W; cbn [run].
    - destruct (codelen E <=? m_pc s); cbn; auto using ro_multi_refl.
    - destruct (codelen E <=? m_pc s); [cbn; auto using ro_multi_refl|].
      pose proof (step_spec ops E Hops s W) as SP.
      destruct (step ops E s) as [s1|o s1]; cbn in SP.
      + destruct SP as [W1 F1]. destruct (IH s1 W1) as (A & B & C).
        split; [exact A|]. split; [eapply ro_multi_step; eauto|exact C].
      + destruct SP as (W1 & F1 & D). cbn. split; [exact W1|]. split; [|exact D].
        eapply ro_multi_step; [exact F1|apply ro_multi_refl].
  Qed.

  Lemma wf_init storage bal ext : wf (init_state storage bal ext).
  Proof.
    unfold wf, init_state, msize_ok, MEM_LIMIT; cbn. split; [vm_compute; discriminate|].
    split; [constructor|]. split; [lia|]. apply Z.pow_nonneg. lia.
  Qed.

  (* the stack never holds more than STACK_SIZE words, and every word is below 2^256, in every state
     a run can end or be interrupted in *)
  Theorem stack_bound_inv fuel s :
    wf s ->
    zlen (m_stack (final (run ops E fuel s))) <= STACK_SIZE /\
    Forall in_range (m_stack (final (run ops E fuel s))).
  Proof. intros W. destruct (run_inv fuel s W) as ((A & B & _) & _). auto. Qed.

  (* no stuck state: every step either yields a well-formed successor or halts with Return, Revert or
     one of the defined failure codes *)
  Theorem step_total s :
    wf s ->
    (exists s', step ops E s = SNext s' /\ wf s') \/
    (exists o s', step ops E s = SHalt o s' /\ defined_outcome o).
  Proof.
    intros W. pose proof (step_spec ops E Hops s W) as SP.
    destruct (step ops E s) as [s1|o s1]; cbn in SP; [left|right]; eauto.
    - exists s1. tauto.
    - exists o, s1. tauto.
  Qed.

  (* ---- fuel ---- *)
  Inductive nsteps : nat -> mstate -> mstate -> Prop :=
  | ns_0 s : nsteps 0 s s
  | ns_S n s s1 s2 : m_pc s < codelen E -> step ops E s = SNext s1 -> nsteps n s1 s2 -> nsteps (S n) s s2.

  (* a run that is interrupted has executed exactly [fuel] instructions and could go on *)
  Theorem run_out_of_fuel fuel s s' :
    run ops E fuel s = OutOfFuel s' -> nsteps fuel s s' /\ m_pc s' < codelen E.
  Proof.
    revert s. induction fuel as [|f IH]; intros s; cbn [run].
    - destruct (codelen E <=? m_pc s) eqn:C; [discriminate|]. apply Z.leb_gt in C.
      intros [= <-]. split; [constructor|exact C].
    - destruct (codelen E <=? m_pc s) eqn:C; [discriminate|]. apply Z.leb_gt in C.
      destruct (step ops E s) as [s1|o s1] eqn:S; [|discriminate].
      intros H. destruct (IH s1 H) as [N P]. split; [econstructor; eauto|exact P].
  Qed.

  (* a run that ends keeps its result whatever extra fuel it is given *)
  Theorem run_fuel_monotone fuel s o s' :
    run ops E fuel s = Done o s' -> forall extra, run ops E (fuel + extra) s = Done o s'.
  Proof.
    revert s. induction fuel as [|f IH]; intros s H extra.
    - cbn [run] in H. destruct (codelen E <=? m_pc s) eqn:C; [|discriminate].
      destruct (0 + extra)%nat; cbn [run]; rewrite C; exact H.
    - cbn [Nat.add run] in *. destruct (codelen E <=? m_pc s) eqn:C; [exact H|].
      destruct (step ops E s) as [s1|o1 s1]; [apply IH; exact H|exact H].
  Qed.

  Theorem run_terminates_or_fuel fuel s :
    (exists o s', run ops E fuel s = Done o s' /\ forall extra, run ops E (fuel + extra) s = Done o s') \/
    (exists s', run ops E fuel s = OutOfFuel s' /\ nsteps fuel s s' /\ m_pc s' < codelen E).
  Proof.
    destruct (run ops E fuel s) as [o s'|s'] eqn:R; [left|right].
    - exists o, s'. split; [reflexivity|]. apply run_fuel_monotone. exact R.
    - exists s'. split; [reflexivity|]. apply run_out_of_fuel. exact R.
  Qed.

  Lemma run_pow_spec : forall n s, run_pow ops E n s = run ops E (2 ^ n) s.
  Proof.
    assert (SPLIT : forall a b s, run ops E (a + b) s =
              match run ops E a s with OutOfFuel s' => run ops E b s' | r => r end).
    { induction a as [|a IH]; intros b s.
      - cbn [Nat.add run]. destruct (codelen E <=? m_pc s) eqn:C; [|reflexivity].
        destruct b; cbn [run]; rewrite C; reflexivity.
      - cbn [Nat.add run]. destruct (codelen E <=? m_pc s); [reflexivity|].
        destruct (step ops E s); [apply IH|reflexivity]. }
    induction n as [|n IH]; intros s; [reflexivity|].
    cbn [run_pow]. rewrite IH. replace (2 ^ S n)%nat with (2 ^ n + 2 ^ n)%nat by (cbn; lia).
    rewrite SPLIT. destruct (run ops E (2 ^ n) s); [reflexivity|apply IH].
  Qed.

  (* ---- read-only ---- *)
  (* in a static context a run changes neither storage nor transient storage, and every request it
     makes to the outside world is a call without value: no log, no value transfer, no create, no
     selfdestruct *)
  Theorem readonly_no_effect fuel storage bal ext :
    e_readonly E = true ->
    let s' := final (run ops E fuel (init_state storage bal ext)) in
    m_storage s' = storage /\ m_transient s' = ∅ /\ Forall (fun e => is_effect e = false) (m_log s').
  Proof.
    intros RO. cbn zeta.
    destruct (run_inv fuel (init_state storage bal ext) (wf_init storage bal ext)) as (_ & M & _).
    destruct (M RO) as (A & B & C). split; [exact A|]. split; [exact B|].
    apply Forall_forall. intros e He. destruct (C e He) as [H|H]; [cbn in H; contradiction|exact H].
  Qed.
End Run.

(* ------------------------------------------------------------------------------------------------ *)
(* extensionality in the word operations: what turns "the Rust word algorithms equal the
   specification on 256-bit operands" into "the machine running them equals the specification machine" *)
(* ------------------------------------------------------------------------------------------------ *)
Section Ext.
  Variable o1 o2 : word_ops.
  Variable E : env.
  Hypothesis Hok : ops_ok o1.
  Hypothesis Hag : ops_agree o1 o2.

  Lemma sem_ext i args s : Forall in_range args -> sem o1 E i args s = sem o2 E i args s.
  Proof.
    intros Ha. destruct Hag as (B & U & T). unfold bin_list, un_list, tern_list in *.
    repeat match goal with
           | H : Forall2 _ (_ :: _) (_ :: _) |- _ => inversion H; clear H; subst
           end.
    destruct i; cbn [sem]; try reflexivity; unfold bin, un, tern;
      destruct args as [|a1 [|a2 [|a3 [|a4 ?]]]]; try reflexivity;
      repeat match goal with
             | H : Forall _ (_ :: _) |- _ => inversion H; clear H; subst
             end;
      f_equal; auto.
  Qed.

  Lemma step_ext s : Forall in_range (m_stack s) -> step o1 E s = step o2 E s.
  Proof.
    intros R. unfold step. destruct (lookup_row (byte_at (code E) (m_pc s))) as [r|]; [|reflexivity].
    unfold exec_row. destruct (op_kind r); try reflexivity;
      unfold exec_generic; destruct (take_operands r (m_stack s)) as [c|[args stk']] eqn:T; try reflexivity;
      (assert (Ra : Forall in_range args);
       [ unfold take_operands in T; destruct (op_pre r);
         repeat match type of T with
                | context [if ?x then _ else _] => destruct x; try discriminate
                end;
         injection T as <- <-; try constructor; apply Forall_take; exact R
       | rewrite (sem_ext (op_instr r) args (set_stack stk' s) Ra); reflexivity ]).
  Qed.

  (* two word_ops that agree on in-range operands give the same runs *)
  Theorem run_ext : forall fuel s, wf s -> run o1 E fuel s = run o2 E fuel s.
  Proof.
    induction fuel as [|f IH]; intros s W; cbn [run]; [reflexivity|].
    destruct (codelen E <=? m_pc s); [reflexivity|].
    rewrite <- (step_ext s) by apply W.
    pose proof (step_spec o1 E Hok s W) as SP.
    destruct (step o1 E s) as [s1|o s1]; [|reflexivity]. cbn in SP. apply IH. apply SP.
  Qed.
End Ext.

(* ------------------------------------------------------------------------------------------------ *)
(* program counter: execution only visits instruction boundaries, jumps land on genuine JUMPDESTs *)
(* ------------------------------------------------------------------------------------------------ *)
(* PUSHn rows carry exactly the immediate width the specification gives their byte; no other row's
   byte is a PUSH1..PUSH32 byte *)
Definition row_pc_ok (r : oprow) : bool :=
  match op_kind r with
  | KPush => (op_arg r =? Z.of_nat (pushw (op_byte r))) && (95 <=? op_byte r) && (op_byte r <=? 127)
  | _ => Nat.eqb (pushw (op_byte r)) 0
  end.
Lemma table_pc_ok : forallb row_pc_ok opcode_table = true.
Proof. vm_compute. reflexivity. Qed.

Section Pc.
  Variable ops : word_ops.
  Variable E : env.
  Hypothesis Hops : ops_ok ops.

  Definition next_pc (s : mstate) : Z := m_pc s + 1 + Z.of_nat (pushw (byte_at (code E) (m_pc s))).

  Lemma exec_stackop_pc r s s' : exec_stackop r s = SNext s' -> m_pc s' = m_pc s + 1.
  Proof.
    unfold exec_stackop, fail. destruct (op_instr r); try discriminate;
      repeat match goal with
             | |- context [if ?x then _ else _] => destruct x
             | |- context [match m_stack s with _ => _ end] => destruct (m_stack s)
             end; try discriminate; intros [= <-]; reflexivity.
  Qed.

  Lemma step_pc s s' :
    wf s -> step ops E s = SNext s' ->
    m_pc s' = next_pc s \/ valid_jumpdest (code E) (m_pc s' - 1) = true.
  Proof.
    intros W. unfold step, next_pc.
    destruct (lookup_row (byte_at (code E) (m_pc s))) as [r|] eqn:L; [|discriminate].
    apply lookup_row_in in L. destruct L as [Hin Hb].
    pose proof table_pc_ok as T. rewrite forallb_forall in T. specialize (T r Hin).
    unfold row_pc_ok in T. rewrite <- Hb. unfold exec_row.
    destruct (op_kind r) eqn:K;
      try (apply Nat.eqb_eq in T; rewrite T;
           unfold exec_generic;
           destruct (take_operands r (m_stack s)) as [c|[args stk']] eqn:TO; [discriminate|];
           assert (Ra : Forall in_range args);
           [ unfold take_operands in TO; destruct (op_pre r);
             repeat match type of TO with
                    | context [if ?x then _ else _] => destruct x; try discriminate
                    end;
             injection TO as <- <-; try constructor; apply Forall_take; apply W
           | pose proof (sem_spec ops E Hops (op_instr r) args (set_stack stk' s) Ra) as SP;
             destruct (sem ops E (op_instr r) args (set_stack stk' s)) as [v s1|s1|p s1|o s1|c s1]; cbn in SP;
             unfold fail, push_checked;
             repeat match goal with
                    | |- context [match ?x with _ => _ end] => destruct x
                    end; try discriminate; intros [= <-]; cbn;
             try (left; lia);
             destruct SP as [_ [->|V]]; [left; cbn; lia|right; exact V] ]).
    - (* PUSHn *)
      apply andb_true_iff in T. destruct T as [T _]. apply andb_true_iff in T. destruct T as [T _].
      apply Z.eqb_eq in T. unfold exec_push, fail, push_checked.
      repeat match goal with
             | |- context [if ?x then _ else _] => destruct x
             end; try discriminate. intros [= <-]. cbn. left. lia.
    - (* DUP / SWAP / POP *)
      apply Nat.eqb_eq in T. rewrite T. intros H. apply exec_stackop_pc in H. left. lia.
  Qed.

  Definition pc_inv (s : mstate) : Prop := 0 <= m_pc s /\ boundary (code E) (Z.to_nat (m_pc s)).

  Lemma nbyte_byte_at c i : 0 <= i -> nbyte c (Z.to_nat i) = byte_at c i.
  Proof. intros H. unfold nbyte, byte_at. rewrite znth_nth by exact H. reflexivity. Qed.

  (* a step from an instruction boundary inside the code lands on an instruction boundary; when it is
     a taken jump, the byte before the new pc is a JUMPDEST on a boundary (never push data) *)
  Theorem jump_lands_on_jumpdest s s' :
    wf s -> pc_inv s -> m_pc s < codelen E -> step ops E s = SNext s' ->
    pc_inv s' /\
    (m_pc s' = next_pc s \/
     (0 <= m_pc s' - 1 < codelen E /\ byte_at (code E) (m_pc s' - 1) = 91 /\
      boundary (code E) (Z.to_nat (m_pc s' - 1)))).
  Proof.
    intros W (P0 & PB) Hin H. destruct (step_pc s s' W H) as [N|V].
    - split; [|left; exact N]. unfold pc_inv. rewrite N. unfold next_pc. split; [lia|].
      replace (Z.to_nat (m_pc s + 1 + Z.of_nat (pushw (byte_at (code E) (m_pc s)))))
        with (Z.to_nat (m_pc s) + 1 + pushw (nbyte (code E) (Z.to_nat (m_pc s))))%nat
        by (rewrite nbyte_byte_at by exact P0; lia).
      apply bnd_S; [exact PB|]. unfold codelen, zlen in Hin. fold (code E). lia.
    - apply jumpdest_analysis_correct in V. destruct V as (R & B91 & BD).
      split; [|right; auto]. unfold pc_inv. split; [lia|].
      pose proof (bnd_S (code E) (Z.to_nat (m_pc s' - 1)) BD) as S.
      rewrite nbyte_byte_at in S by lia. rewrite B91 in S. cbn in S.
      replace (Z.to_nat (m_pc s')) with (Z.to_nat (m_pc s' - 1) + 1 + 0)%nat by lia.
      apply S. unfold zlen in R. lia.
  Qed.

  Theorem run_visits_boundaries n s s' :
    wf s -> pc_inv s -> nsteps ops E n s s' -> pc_inv s'.
  Proof.
    intros W P N. induction N as [s|n s s1 s2 Hin St N IH]; [exact P|].
    apply IH.
    - pose proof (step_spec ops E Hops s W) as SP. rewrite St in SP. apply SP.
    - eapply jump_lands_on_jumpdest; eauto.
  Qed.
End Pc.

(* ------------------------------------------------------------------------------------------------ *)
(* memory access guard at the instruction level *)
(* ------------------------------------------------------------------------------------------------ *)
(* the first memory region an instruction of the memory / copy / hash / exit families validates *)
Definition mem_args (i : instr) (args : list Z) : option (Z * Z) :=
  match i, args with
  | I_MLOAD, [idx] => Some (idx, 32)
  | I_MSTORE, [idx; _] => Some (idx, 32)
  | I_MSTORE8, [idx; _] => Some (idx, 1)
  | I_MCOPY, [_; src; size] => if size =? 0 then None else Some (src, size)
  | I_KECCAK256, [off; size] => Some (off, size)
  | I_RETURN, [off; size] | I_REVERT, [off; size] => Some (off, size)
  | I_CALLDATACOPY, [dest; _; size] | I_CODECOPY, [dest; _; size] | I_RETURNDATACOPY, [dest; _; size] => Some (dest, size)
  | I_EXTCODECOPY, [_; dest; _; size] => Some (dest, size)
  | _, _ => None
  end.

Section MemGuard.
  Variable ops : word_ops.
  Variable E : env.

  (* an access whose size, or (for a non-empty region) offset or end, exceeds 32 bits is refused with
     EVM_CONTRACT_ILLEGAL_MEMORY_ACCESS before anything is read or written *)
  Theorem memory_access_guard i args s off size :
    mem_args i args = Some (off, size) ->
    (U32_MAX < size \/ (size <> 0 /\ (U32_MAX < off \/ U32_MAX < off + size))) ->
    sem ops E i args s = SemFail EVM_CONTRACT_ILLEGAL_MEMORY_ACCESS s.
  Proof.
    intros M G. apply (mem_region_none (m_msize s)) in G.
    destruct i; cbn in M; try discriminate;
      destruct args as [|a1 [|a2 [|a3 [|a4 [|a5 ?]]]]]; try discriminate;
      try (destruct (a3 =? 0) eqn:Z3; [discriminate|]);
      injection M as <- <-; cbn [sem]; unfold do_exit, copy_to_memory; try rewrite Z3; rewrite G; reflexivity.
  Qed.
End MemGuard.

(* ------------------------------------------------------------------------------------------------ *)
(* the opcode assignment against the Ethereum specification *)
(* ------------------------------------------------------------------------------------------------ *)
(* Written by hand from the Yellow Paper (Shanghai: PUSH0) + EIP-1153 (TLOAD/TSTORE), EIP-5656 (MCOPY),
   EIP-7939 (CLZ at 0x1e), EIP-145, EIP-1014, EIP-211, EIP-214, EIP-1344, EIP-1884, EIP-3198, EIP-4399.
   Ethereum opcodes FEVM leaves undefined: 0x49 BLOBHASH, 0x4a BLOBBASEFEE, 0xf2 CALLCODE. *)
Definition spec_table : list (Z * instr) :=
  [ (0x00, I_STOP); (0x01, I_ADD); (0x02, I_MUL); (0x03, I_SUB); (0x04, I_DIV); (0x05, I_SDIV); (0x06, I_MOD);
    (0x07, I_SMOD); (0x08, I_ADDMOD); (0x09, I_MULMOD); (0x0a, I_EXP); (0x0b, I_SIGNEXTEND);
    (0x10, I_LT); (0x11, I_GT); (0x12, I_SLT); (0x13, I_SGT); (0x14, I_EQ); (0x15, I_ISZERO); (0x16, I_AND);
    (0x17, I_OR); (0x18, I_XOR); (0x19, I_NOT); (0x1a, I_BYTE); (0x1b, I_SHL); (0x1c, I_SHR); (0x1d, I_SAR);
    (0x1e, I_CLZ); (0x20, I_KECCAK256);
    (0x30, I_ADDRESS); (0x31, I_BALANCE); (0x32, I_ORIGIN); (0x33, I_CALLER); (0x34, I_CALLVALUE);
    (0x35, I_CALLDATALOAD); (0x36, I_CALLDATASIZE); (0x37, I_CALLDATACOPY); (0x38, I_CODESIZE);
    (0x39, I_CODECOPY); (0x3a, I_GASPRICE); (0x3b, I_EXTCODESIZE); (0x3c, I_EXTCODECOPY);
    (0x3d, I_RETURNDATASIZE); (0x3e, I_RETURNDATACOPY); (0x3f, I_EXTCODEHASH);
    (0x40, I_BLOCKHASH); (0x41, I_COINBASE); (0x42, I_TIMESTAMP); (0x43, I_NUMBER); (0x44, I_PREVRANDAO);
    (0x45, I_GASLIMIT); (0x46, I_CHAINID); (0x47, I_SELFBALANCE); (0x48, I_BASEFEE);
    (0x50, I_POP); (0x51, I_MLOAD); (0x52, I_MSTORE); (0x53, I_MSTORE8); (0x54, I_SLOAD); (0x55, I_SSTORE);
    (0x56, I_JUMP); (0x57, I_JUMPI); (0x58, I_PC); (0x59, I_MSIZE); (0x5a, I_GAS); (0x5b, I_JUMPDEST);
    (0x5c, I_TLOAD); (0x5d, I_TSTORE); (0x5e, I_MCOPY); (0x5f, I_PUSH0);
    (0x60, I_PUSH1); (0x61, I_PUSH2); (0x62, I_PUSH3); (0x63, I_PUSH4); (0x64, I_PUSH5); (0x65, I_PUSH6);
    (0x66, I_PUSH7); (0x67, I_PUSH8); (0x68, I_PUSH9); (0x69, I_PUSH10); (0x6a, I_PUSH11); (0x6b, I_PUSH12);
    (0x6c, I_PUSH13); (0x6d, I_PUSH14); (0x6e, I_PUSH15); (0x6f, I_PUSH16); (0x70, I_PUSH17); (0x71, I_PUSH18);
    (0x72, I_PUSH19); (0x73, I_PUSH20); (0x74, I_PUSH21); (0x75, I_PUSH22); (0x76, I_PUSH23); (0x77, I_PUSH24);
    (0x78, I_PUSH25); (0x79, I_PUSH26); (0x7a, I_PUSH27); (0x7b, I_PUSH28); (0x7c, I_PUSH29); (0x7d, I_PUSH30);
    (0x7e, I_PUSH31); (0x7f, I_PUSH32);
    (0x80, I_DUP1); (0x81, I_DUP2); (0x82, I_DUP3); (0x83, I_DUP4); (0x84, I_DUP5); (0x85, I_DUP6); (0x86, I_DUP7);
    (0x87, I_DUP8); (0x88, I_DUP9); (0x89, I_DUP10); (0x8a, I_DUP11); (0x8b, I_DUP12); (0x8c, I_DUP13);
    (0x8d, I_DUP14); (0x8e, I_DUP15); (0x8f, I_DUP16);
    (0x90, I_SWAP1); (0x91, I_SWAP2); (0x92, I_SWAP3); (0x93, I_SWAP4); (0x94, I_SWAP5); (0x95, I_SWAP6);
    (0x96, I_SWAP7); (0x97, I_SWAP8); (0x98, I_SWAP9); (0x99, I_SWAP10); (0x9a, I_SWAP11); (0x9b, I_SWAP12);
    (0x9c, I_SWAP13); (0x9d, I_SWAP14); (0x9e, I_SWAP15); (0x9f, I_SWAP16);
    (0xa0, I_LOG0); (0xa1, I_LOG1); (0xa2, I_LOG2); (0xa3, I_LOG3); (0xa4, I_LOG4);
    (0xf0, I_CREATE); (0xf1, I_CALL); (0xf3, I_RETURN); (0xf4, I_DELEGATECALL); (0xf5, I_CREATE2);
    (0xfa, I_STATICCALL); (0xfd, I_REVERT); (0xfe, I_INVALID); (0xff, I_SELFDESTRUCT) ].

(* height / width arguments of the stack instructions, per the specification *)
Definition spec_stack_arg (b : Z) : Z :=
  if (0x5f <=? b) && (b <=? 0x7f) then b - 0x5f
  else if (0x80 <=? b) && (b <=? 0x8f) then b - 0x7f
  else if (0x90 <=? b) && (b <=? 0x9f) then b - 0x8f
  else if (0xa0 <=? b) && (b <=? 0xa4) then b - 0xa0
  else 0.

Lemma opcode_table_matches_spec :
  map (fun r => (op_byte r, op_instr r)) opcode_table = spec_table /\
  forallb (fun r => op_arg r =? spec_stack_arg (op_byte r)) opcode_table = true /\
  unreachable_instrs = [].
Proof. vm_compute. auto. Qed.
