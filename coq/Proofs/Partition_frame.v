(* Frame facts about the partition operations that hold by construction (no invariant needed):
   which operations leave the early-termination queue alone, and how terminate / pop_expired /
   pop_early change its emptiness. *)
From Coq Require Import ZArith List Bool Lia.
From stdpp Require Import gmap.
From VF Require Import Base.SetSum Model.Partition Model.PartitionInv Proofs.Partition_base
  Proofs.Partition_lists Proofs.Partition_ops1 Proofs.Partition_ops2.
Import ListNotations.
Open Scope Z_scope.

Ltac destr_res H :=
  repeat (match type of H with
  | context [rbind ?x _] =>
      let E := fresh "E" in destruct x as [?|?] eqn:E
  | context [if ?b then _ else _] =>
      let E := fresh "E" in destruct b eqn:E
  | context [let '(_, _) := ?x in _] => destruct x
  | context [match ?x with _ => _ end] =>
      let E := fresh "E" in destruct x eqn:E
  end; cbn [rbind negb] in H; cbn beta iota in H; try discriminate H).

Lemma validated_eq p p' : validated p = Ok p' -> p' = p.
Proof. apply validated_ok. Qed.

Lemma p_add_faults_et qs p nums secs fe p' a b :
  p_add_faults qs p nums secs fe = Ok (p', a, b) -> early_terminated p' = early_terminated p.
Proof.
  unfold p_add_faults. intros H. destr_res H.
  all: repeat match goal with E : validated _ = Ok _ |- _ => apply validated_ok in E; subst end.
  all: injection H as <- _ _; reflexivity.
Qed.

Lemma remove_recoveries_et p R pw : early_terminated (remove_recoveries p R pw) = early_terminated p.
Proof. unfold remove_recoveries. destruct (set_empty R); reflexivity. Qed.

Lemma p_record_faults_et qs tbl p nums fe p' a b c :
  p_record_faults qs tbl p nums fe = Ok (p', a, b, c) -> early_terminated p' = early_terminated p.
Proof.
  unfold p_record_faults. intros H. destr_res H.
  all: repeat match goal with E : validated _ = Ok _ |- _ => apply validated_ok in E; subst end.
  all: injection H as <- _ _ _.
  all: repeat match goal with
       | E : match ?l with [] => _ | _ :: _ => _ end = Ok _ |- _ => destruct l
       | |- context [match ?l with [] => _ | _ :: _ => _ end] => destruct l
       end.
  all: repeat match goal with
       | E : p_add_faults _ _ _ _ _ = Ok _ |- _ => apply p_add_faults_et in E
       | E : Ok _ = Ok _ |- _ => injection E as <- _ _
       end.
  all: rewrite ?remove_recoveries_et; congruence.
Qed.

Lemma p_record_skipped_faults_et qs tbl p fe sk p' a b c d :
  p_record_skipped_faults qs tbl p fe sk = Ok (p', a, b, c, d) ->
  early_terminated p' = early_terminated p.
Proof.
  unfold p_record_skipped_faults. intros H. destr_res H.
  all: repeat match goal with E : validated _ = Ok _ |- _ => apply validated_ok in E; subst end.
  all: repeat match goal with E : p_add_faults _ _ _ _ _ = Ok _ |- _ => apply p_add_faults_et in E end.
  all: injection H as <- _ _ _ _; rewrite ?remove_recoveries_et; congruence.
Qed.

Lemma p_recover_faults_et qs tbl p p' a :
  p_recover_faults qs tbl p = Ok (p', a) -> early_terminated p' = early_terminated p.
Proof.
  unfold p_recover_faults. intros H. destr_res H.
  all: repeat match goal with E : validated _ = Ok _ |- _ => apply validated_ok in E; subst end.
  all: injection H as <- _; reflexivity.
Qed.

Lemma p_declare_faults_recovered_et tbl p nums p' :
  p_declare_faults_recovered tbl p nums = Ok p' -> early_terminated p' = early_terminated p.
Proof.
  unfold p_declare_faults_recovered. intros H. destr_res H.
  all: apply validated_ok in H; subst; reflexivity.
Qed.

Lemma p_record_missed_post_et qs p fe p' a b c :
  p_record_missed_post qs p fe = Ok (p', a, b, c) -> early_terminated p' = early_terminated p.
Proof.
  unfold p_record_missed_post. intros H. destr_res H.
  all: repeat match goal with E : validated _ = Ok _ |- _ => apply validated_ok in E; subst end.
  all: injection H as <- _ _ _; reflexivity.
Qed.

Lemma p_add_sectors_et qs p proven secs p' a b :
  p_add_sectors qs p proven secs = Ok (p', a, b) -> early_terminated p' = early_terminated p.
Proof.
  unfold p_add_sectors. intros H. destr_res H.
  all: repeat match goal with E : validated _ = Ok _ |- _ => apply validated_ok in E; subst end.
  all: injection H as <- _ _; reflexivity.
Qed.

(* terminate / pop_expired add a non-empty entry exactly when they removed something early *)
Lemma bfq_add_nonempty (et et' : gmap Z (gset N)) e X :
  bfq_add NO_QUANT et e X = Ok et' -> (et' <> ∅ <-> et <> ∅ \/ X <> ∅).
Proof.
  unfold bfq_add. destruct (set_empty X) eqn:EX.
  - apply set_empty_true in EX. intros [= <-]. subst X. tauto.
  - apply set_empty_false in EX. rewrite quant_up_noquant. destruct (e <? 0); [discriminate|].
    intros [= <-]. split; [auto|]. intros _ E. apply (f_equal (fun m => m !! e)) in E.
    rewrite lookup_insert, lookup_empty in E. discriminate.
Qed.

Lemma p_terminate_sectors_et qs tbl p epoch nums p' removed unp :
  p_terminate_sectors qs tbl p epoch nums = Ok (p', removed, unp) ->
  (early_terminated p' <> ∅ <-> early_terminated p <> ∅ \/ on_time removed ∪ early removed <> ∅).
Proof.
  unfold p_terminate_sectors. intros H. destr_res H.
  all: repeat match goal with E : validated _ = Ok _ |- _ => apply validated_ok in E; subst end.
  all: injection H as <- <- _; cbn [early_terminated on_time early].
  all: match goal with E : record_early_termination _ _ _ = Ok _ |- _ =>
         apply record_early_termination_ok in E as (E & _) end.
  all: cbn [set_exp early_terminated] in *.
  all: match goal with E : bfq_add _ _ _ _ = Ok _ |- _ => apply bfq_add_nonempty in E; exact E end.
Qed.

Lemma p_pop_expired_sectors_et p until p' popped :
  p_pop_expired_sectors p until = Ok (p', popped) ->
  (early_terminated p' <> ∅ <-> early_terminated p <> ∅ \/ early popped <> ∅).
Proof.
  unfold p_pop_expired_sectors. intros H. destr_res H.
  all: repeat match goal with E : validated _ = Ok _ |- _ => apply validated_ok in E; subst end.
  all: injection H as <- <-.
  all: match goal with E : record_early_termination _ _ _ = Ok _ |- _ =>
         apply record_early_termination_ok in E as (E & _) end.
  all: cbn [early_terminated] in *.
  all: match goal with E : bfq_add _ _ _ _ = Ok _ |- _ => apply bfq_add_nonempty in E; exact E end.
Qed.

Lemma p_pop_early_terminations_more p mx p' res n more :
  p_pop_early_terminations p mx = Ok (p', res, n, more) ->
  (more = true <-> early_terminated p' <> ∅).
Proof.
  unfold p_pop_early_terminations. intros H.
  match type of H with context [fold_left ?f ?l ?a] => destruct (fold_left f l a) as [[[[? ?] ?] ?] ?] end.
  destr_res H.
  all: repeat match goal with E : validated _ = Ok _ |- _ => apply validated_ok in E; subst end.
  all: injection H as <- _ _ <-; cbn [early_terminated].
  all: rewrite negb_true_iff, bool_decide_eq_false; reflexivity.
Qed.
