(* Deadline operations preserve DeadlineInv, part 1: the single-partition replacement lemma and
   declare_faults_recovered, record_faults, terminate_sectors, process_deadline_end. *)
From Coq Require Import ZArith List Bool Lia.
From stdpp Require Import gmap.
From VF Require Import Base.SetSum Model.Partition Model.PartitionInv Model.Deadline
  Model.DeadlineInv Proofs.Partition_base Proofs.Partition_lists Proofs.Partition_queue3
  Proofs.Partition_queue6 Proofs.Partition_ops1 Proofs.Partition_ops2 Proofs.Partition_ops3
  Proofs.Partition_frame Proofs.Deadline_base.
Import ListNotations.
Open Scope Z_scope.

(* ---------- replacing one partition ---------- *)
Lemma dinv_replace qs tbl d (i : N) p p' X Y ET' L' FP' LP' FEE' :
  DeadlineInv qs tbl d ->
  parts d !! N.to_nat i = Some p -> PartInv qs tbl p' -> sectors p' = sectors p ->
  L' = dl_live_sectors d - ssize (live_sectors p) + ssize (live_sectors p') ->
  FP' = pp_add (pp_sub (dl_faulty_power d) (p_faulty_power p)) (p_faulty_power p') ->
  LP' = pp_add (pp_sub (dl_live_power d) (live_power p)) (live_power p') ->
  FEE' = dl_daily_fee d - sfee tbl (live_sectors p) + sfee tbl (live_sectors p') ->
  (forall j, j ∈ ET' <-> (j <> i /\ j ∈ early_terms d) \/ (j = i /\ early_terminated p' <> ∅)) ->
  DeadlineInv qs tbl
    {| parts := put_part (parts d) i p'; dl_exp := X; posted := Y; early_terms := ET';
       dl_live_sectors := L'; dl_total_sectors := dl_total_sectors d;
       dl_faulty_power := FP'; dl_live_power := LP'; dl_daily_fee := FEE' |}.
Proof.
  intros HD Hi HP' HS -> -> -> -> HET.
  rewrite (put_part_existing _ _ _ _ Hi).
  apply dinv_off_zero in HD as [HO HE].
  pose proof (dinv_off_update qs tbl d (N.to_nat i) p p' 0 pp0 pp0 0 HO Hi HP' HS) as HU.
  apply dinv_off_zero. split.
  - eapply dinv_off_memos; [exact HU| | | | | |]; cbn [set_parts parts dl_live_sectors
      dl_total_sectors dl_faulty_power dl_live_power dl_daily_fee]; try reflexivity; try lia.
    + apply pp_eq; cbn; lia.
    + apply pp_eq; cbn; lia.
  - intros j. cbn [early_terms parts]. rewrite HET. split.
    + intros [[Hne Hj]|[-> Hne]].
      * apply HE in Hj as (q & Hq & Hqe). exists q. split; [|exact Hqe].
        rewrite list_lookup_insert_ne; [exact Hq|]. intros E. apply Hne. apply N2Nat.inj. auto.
      * exists p'. split; [|exact Hne]. apply list_lookup_insert. eapply lookup_lt_Some; eauto.
    + intros (q & Hq & Hqe). destruct (decide (j = i)) as [->|Hne].
      * right. split; [reflexivity|]. rewrite list_lookup_insert in Hq by (eapply lookup_lt_Some; eauto).
        injection Hq as <-. exact Hqe.
      * left. split; [exact Hne|]. apply HE. exists q. split; [|exact Hqe].
        rewrite list_lookup_insert_ne in Hq; [exact Hq|]. intros E. apply Hne. apply N2Nat.inj. auto.
Qed.

(* memo equalities provided by PartInv *)
Lemma pinv_memos qs tbl p :
  PartInv qs tbl p ->
  live_power p = spow tbl (live_sectors p) /\ p_faulty_power p = spow tbl (faults p).
Proof. intros []. auto. Qed.

(* ---------- declare_faults_recovered ---------- *)
Lemma d_declare_faults_recovered_inv qs tbl d psm d' :
  DeadlineInv qs tbl d -> d_declare_faults_recovered tbl d psm = Ok d' ->
  DeadlineInv qs tbl d' /\ dl_exp d' = dl_exp d.
Proof.
  intros HD. unfold d_declare_faults_recovered.
  apply (foldM_ind _ (fun _ dc => DeadlineInv qs tbl dc /\ dl_exp dc = dl_exp d)); [|auto].
  intros dc [i nums] rest dc' [HI HX] Hstep.
  destruct (get_part (parts dc) i) as [p|] eqn:Hp; [|discriminate].
  destruct (p_declare_faults_recovered tbl p (lset nums)) as [p'|] eqn:Eop; cbn [rbind] in Hstep; [|discriminate].
  injection Hstep as <-.
  pose proof (di_parts _ _ _ HI _ _ Hp) as HPp.
  destruct (p_declare_faults_recovered_inv qs tbl p (lset nums) p' HPp Eop)
    as (HP' & S' & F' & U' & T' & LP' & UP' & FP').
  pose proof (p_declare_faults_recovered_et _ _ _ _ Eop) as ET'.
  assert (Elive : live_sectors p' = live_sectors p) by (unfold live_sectors; rewrite S', T'; reflexivity).
  split; [|exact HX]. unfold set_parts.
  eapply dinv_replace; [exact HI|exact Hp|exact HP'|exact S'| | | | |].
  - rewrite Elive. lia.
  - rewrite FP'. apply pp_eq; cbn; lia.
  - rewrite LP'. apply pp_eq; cbn; lia.
  - rewrite Elive. lia.
  - intros j. rewrite ET'. pose proof (di_early _ _ _ HI j) as HE.
    destruct (decide (j = i)) as [->|Hne].
    + rewrite HE. split.
      * intros (q & Hq & Hqe). right. split; [reflexivity|]. unfold get_part in Hp. congruence.
      * intros [[Hc _]|[_ Hqe]]; [congruence|]. exists p. auto.
    + tauto.
Qed.

(* DeadlineInv does not look at the deadline's own expiration queue nor at partitions_posted *)
Lemma dinv_core_eq qs tbl d d' :
  DeadlineInv qs tbl d -> parts d' = parts d -> early_terms d' = early_terms d ->
  dl_live_sectors d' = dl_live_sectors d -> dl_total_sectors d' = dl_total_sectors d ->
  dl_faulty_power d' = dl_faulty_power d -> dl_live_power d' = dl_live_power d ->
  dl_daily_fee d' = dl_daily_fee d -> DeadlineInv qs tbl d'.
Proof.
  intros [] E1 E2 E3 E4 E5 E6 E7. constructor; rewrite ?E1, ?E2, ?E3, ?E4, ?E5, ?E6, ?E7; assumption.
Qed.

Lemma add_exp_partitions_inv qs tbl d e idxs d' :
  DeadlineInv qs tbl d -> add_exp_partitions qs d e idxs = Ok d' -> DeadlineInv qs tbl d'.
Proof.
  intros HD. unfold add_exp_partitions. destruct idxs; [intros [= <-]; exact HD|].
  destruct (bfq_add _ _ _ _); cbn [rbind]; [|discriminate]. intros [= <-].
  eapply dinv_core_eq; [exact HD|..]; reflexivity.
Qed.

(* ---------- record_faults ---------- *)
Lemma d_record_faults_inv qs tbl d fe psm d' delta :
  DeadlineInv qs tbl d -> d_record_faults qs tbl d fe psm = Ok (d', delta) -> DeadlineInv qs tbl d'.
Proof.
  intros HD. unfold d_record_faults.
  destruct (foldM _ psm (d, pp0, [])) as [[[d1 dl1] wf]|] eqn:Ef; cbn [rbind]; [|discriminate].
  assert (H1 : DeadlineInv qs tbl d1).
  { match type of Ef with foldM ?f _ _ = _ =>
      pose proof (foldM_ind f (fun _ (acc : deadline * pp * list N) => DeadlineInv qs tbl (fst (fst acc))))
        as Hind end.
    specialize (Hind) with (3 := Ef). cbn [fst] in Hind. apply Hind; [|exact HD].
    intros [[dc dlt] wfc] [i nums] rest [[dc' dlt'] wfc'] HI Hstep. cbn [fst] in *.
    destruct (get_part (parts dc) i) as [p|] eqn:Hp; [|discriminate].
    destruct (p_record_faults qs tbl p (lset nums) fe) as [[[[p' nf] pd] nfp]|] eqn:Eop;
      cbn [rbind] in Hstep; [|discriminate].
    injection Hstep as <- _ _.
    pose proof (di_parts _ _ _ HI _ _ Hp) as HPp.
    destruct (p_record_faults_inv qs tbl p (lset nums) fe p' nf pd nfp HPp Eop)
      as (HP' & S' & T' & F' & U' & Enf & HnfS & -> & _).
    pose proof (p_record_faults_et _ _ _ _ _ _ _ _ _ Eop) as ET'.
    assert (Elive : live_sectors p' = live_sectors p) by (unfold live_sectors; rewrite S', T'; reflexivity).
    destruct (pinv_memos _ _ _ HPp) as [LPp FPp]. destruct (pinv_memos _ _ _ HP') as [LPp' FPp'].
    eapply dinv_replace; [exact HI|exact Hp|exact HP'|exact S'| | | | |].
    - rewrite Elive. lia.
    - rewrite FPp', FPp, F'. rewrite (spow_add_eq tbl (faults p ∪ nf) (faults p) nf);
        [apply pp_eq; cbn; lia|reflexivity|rewrite Enf; clear; set_solver].
    - rewrite LPp', LPp, Elive. apply pp_eq; cbn; lia.
    - rewrite Elive. lia.
    - intros j. rewrite ET'. pose proof (di_early _ _ _ HI j) as HE.
      destruct (decide (j = i)) as [->|Hne]; [|tauto].
      rewrite HE. split.
      + intros (q & Hq & Hqe). right. split; [reflexivity|]. unfold get_part in Hp. congruence.
      + intros [[Hc _]|[_ Hqe]]; [congruence|]. exists p. auto. }
  destruct (add_exp_partitions qs d1 fe wf) as [d2|] eqn:Ea; cbn [rbind]; [|discriminate].
  intros [= <- _]. eapply add_exp_partitions_inv; eauto.
Qed.

(* ---------- terminate_sectors ---------- *)
Lemma p_terminate_sectors_len qs tbl p epoch nums p' removed unp :
  PartInv qs tbl p -> p_terminate_sectors qs tbl p epoch nums = Ok (p', removed, unp) ->
  es_len removed = ssize nums /\ (es_is_empty removed = true <-> nums = ∅).
Proof.
  intros HP Hop.
  destruct (p_terminate_sectors_inv qs tbl p epoch nums p' removed unp HP Hop)
    as (_ & _ & _ & _ & _ & _ & Eall & _).
  assert (Hd : on_time removed ## early removed).
  { unfold p_terminate_sectors in Hop.
    destruct (subset nums (live_sectors p)); cbn [negb] in Hop; [|discriminate].
    destruct (load_sectors tbl nums) as [infos|] eqn:El; cbn [rbind] in Hop; [|discriminate].
    destruct (load_from_live _ _ _ _ _ HP El) as (Hft & Hnd & Hn).
    destruct (remove_sectors qs (expirations p) infos (faults p) (recoveries p))
      as [[[q rm] rrec]|] eqn:Er; cbn [rbind] in Hop; [|discriminate].
    destruct (remove_sectors_inv qs tbl (faults p) (recoveries p) (live_sectors p) infos Hft Hnd
                (pi_rec_faults _ _ _ HP) nums (nums ∖ faults p) (nums ∩ faults p)
                (eq_sym Hn) eq_refl eq_refl (expirations p) q rm rrec (pi_queue _ _ _ HP) Er)
      as (_ & _ & _ & Edisj & _).
    destruct (record_early_termination _ _ _); cbn [rbind] in Hop; [|discriminate].
    destruct (select_sectors _ _); cbn [rbind] in Hop; [|discriminate].
    destruct (validated _); cbn [rbind] in Hop; [|discriminate].
    injection Hop as _ <- _. cbn. exact Edisj. }
  unfold es_all in Eall. split.
  - unfold es_len. rewrite <- ssize_union_disj by exact Hd. rewrite Eall. reflexivity.
  - rewrite es_is_empty_true. unfold es_all. rewrite Eall. reflexivity.
Qed.

Lemma d_terminate_sectors_inv qs tbl d epoch psm d' lost :
  DeadlineInv qs tbl d -> d_terminate_sectors qs tbl d epoch psm = Ok (d', lost) ->
  DeadlineInv qs tbl d'.
Proof.
  intros HD. unfold d_terminate_sectors. intros Ef.
  match type of Ef with foldM ?f _ _ = _ =>
    pose proof (foldM_ind f (fun _ (acc : deadline * pp) => DeadlineInv qs tbl (fst acc))) as Hind end.
  specialize (Hind) with (3 := Ef). cbn [fst] in Hind. apply Hind; [|exact HD].
  intros [dc lc] [i nums] rest [dc' lc'] HI Hstep. cbn [fst] in *.
  destruct (get_part (parts dc) i) as [p|] eqn:Hp; [|discriminate].
  destruct (p_terminate_sectors qs tbl p epoch (lset nums)) as [[[p' rm] unp]|] eqn:Eop;
    cbn [rbind] in Hstep; [|discriminate].
  injection Hstep as <- _.
  pose proof (di_parts _ _ _ HI _ _ Hp) as HPp.
  destruct (p_terminate_sectors_inv qs tbl p epoch (lset nums) p' rm unp HPp Eop)
    as (HP' & HL & S' & T' & F' & U' & Eall & Eact & Eflt & Eunp & Efee).
  destruct (p_terminate_sectors_len qs tbl p epoch (lset nums) p' rm unp HPp Eop) as [Elen Eemp].
  pose proof (p_terminate_sectors_et _ _ _ _ _ _ _ _ Eop) as ET'.
  fold (es_all rm) in ET'. rewrite Eall in ET'.
  remember (lset nums) as X eqn:EX. clear EX.
  assert (Elive : live_sectors p' = live_sectors p ∖ X).
  { unfold live_sectors. rewrite S', T'. apply seteq_L. clear. set_solver. }
  destruct (pinv_memos _ _ _ HPp) as [LPp FPp]. destruct (pinv_memos _ _ _ HP') as [LPp' FPp'].
  destruct (partinv_sub _ _ _ HPp) as (SF & SU & SR).
  pose proof (pi_unproven_faults _ _ _ HPp) as DUF.
  eapply dinv_replace; [exact HI|exact Hp|exact HP'|exact S'| | | | |].
  - rewrite Elive, (ssize_diff _ _ HL).
    destruct (es_is_empty rm) eqn:Ee.
    + assert (HX0 : X = ∅) by (apply Eemp; reflexivity). rewrite HX0. unfold ssize. rewrite size_empty. lia.
    + rewrite Elen. lia.
  - rewrite FPp', FPp, F', Eflt.
    rewrite (spow_add_eq tbl (faults p) (faults p ∖ X) (X ∩ faults p)).
    + apply pp_eq; cbn; lia.
    + clear. intros n. destruct (decide (n ∈ X)); set_solver.
    + clear. set_solver.
  - rewrite LPp', LPp, Elive, Eact, Eflt, Eunp. rewrite (spow_diff_sub tbl _ X HL).
    assert (E : spow tbl X = pp_add (pp_add (spow tbl ((X ∖ faults p) ∖ unproven p)) (spow tbl (X ∩ faults p)))
                                    (spow tbl (X ∩ unproven p))).
    { rewrite (spow_add_eq tbl X (X ∖ faults p) (X ∩ faults p)).
      - rewrite (spow_add_eq tbl (X ∖ faults p) ((X ∖ faults p) ∖ unproven p) (X ∩ unproven p)).
        + apply pp_eq; cbn; lia.
        + clear -DUF. intros n. destruct (decide (n ∈ unproven p)); set_solver.
        + clear. set_solver.
      - clear. intros n. destruct (decide (n ∈ faults p)); set_solver.
      - clear. set_solver. }
    rewrite E. apply pp_eq; cbn; lia.
  - rewrite Elive, Efee. unfold sfee. rewrite (ssum_diff _ _ _ HL). lia.
  - intros j. pose proof (di_early _ _ _ HI j) as HE.
    destruct (decide (j = i)) as [->|Hne].
    + destruct (es_is_empty rm) eqn:Ee.
      * assert (Ee' : X = ∅) by (apply Eemp; reflexivity). rewrite HE, ET'. split.
        -- intros (q & Hq & Hqe). right. split; [reflexivity|]. left. unfold get_part in Hp. congruence.
        -- intros [[Hc _]|[_ [Hqe|Hqe]]]; [congruence|exists p; auto|contradiction].
      * assert (X <> ∅) by (intros E; apply Eemp in E; discriminate).
        rewrite elem_of_union, elem_of_singleton, ET'. split; [intros _|auto]. right. auto.
    + destruct (es_is_empty rm); [tauto|]. rewrite elem_of_union, elem_of_singleton. tauto.
Qed.

(* ---------- process_deadline_end ---------- *)
Lemma d_process_deadline_end_inv qs tbl d fe d' delta pen :
  DeadlineInv qs tbl d -> d_process_deadline_end qs d fe = Ok (d', delta, pen) ->
  DeadlineInv qs tbl d'.
Proof.
  intros HD. unfold d_process_deadline_end.
  destruct (foldM _ _ (d, pp0, pp0, [])) as [[[[d1 dl1] pn1] rs]|] eqn:Ef; cbn [rbind]; [|discriminate].
  assert (H1 : DeadlineInv qs tbl d1).
  { match type of Ef with foldM ?f _ _ = _ =>
      pose proof (foldM_ind f (fun _ (acc : deadline * pp * pp * list N) =>
                               DeadlineInv qs tbl (fst (fst (fst acc))))) as Hind end.
    specialize (Hind) with (3 := Ef). cbn [fst] in Hind. apply Hind; [|exact HD].
    intros [[[dc dlt] pnc] rsc] i rest [[[dc' dlt'] pnc'] rsc'] HI Hstep. cbn [fst] in *.
    destruct (bool_decide (i ∈ posted dc)); [injection Hstep as <- _ _ _; exact HI|].
    destruct (get_part (parts dc) i) as [p|] eqn:Hp; [|discriminate].
    destruct (pp_is_zero (recovering_power p) && pp_eqb (p_faulty_power p) (live_power p));
      [injection Hstep as <- _ _ _; exact HI|].
    destruct (p_record_missed_post qs p fe) as [[[[p' pd] ppen] nfp]|] eqn:Eop;
      cbn [rbind] in Hstep; [|discriminate].
    injection Hstep as <- _ _ _.
    pose proof (di_parts _ _ _ HI _ _ Hp) as HPp.
    destruct (p_record_missed_post_inv qs tbl p fe p' pd ppen nfp HPp Eop)
      as (HP' & S' & T' & F' & U' & -> & _).
    pose proof (p_record_missed_post_et _ _ _ _ _ _ _ Eop) as ET'.
    assert (Elive : live_sectors p' = live_sectors p) by (unfold live_sectors; rewrite S', T'; reflexivity).
    destruct (pinv_memos _ _ _ HPp) as [LPp FPp]. destruct (pinv_memos _ _ _ HP') as [LPp' FPp'].
    destruct (partinv_sub _ _ _ HPp) as (SF & SU & SR).
    eapply dinv_replace; [exact HI|exact Hp|exact HP'|exact S'| | | | |].
    - rewrite Elive. lia.
    - rewrite FPp', FPp, F'. rewrite (spow_diff_sub tbl _ _ SF). apply pp_eq; cbn; lia.
    - rewrite LPp', LPp, Elive. apply pp_eq; cbn; lia.
    - rewrite Elive. lia.
    - intros j. rewrite ET'. pose proof (di_early _ _ _ HI j) as HE.
      destruct (decide (j = i)) as [->|Hne]; [|tauto].
      rewrite HE. split.
      + intros (q & Hq & Hqe). right. split; [reflexivity|]. unfold get_part in Hp. congruence.
      + intros [[Hc _]|[_ Hqe]]; [congruence|]. exists p. auto. }
  destruct (add_exp_partitions qs d1 fe rs) as [d2|] eqn:Ea; cbn [rbind]; [|discriminate].
  intros [= <- _ _]. pose proof (add_exp_partitions_inv _ _ _ _ _ _ H1 Ea) as H2.
  eapply dinv_core_eq; [exact H2|..]; reflexivity.
Qed.
