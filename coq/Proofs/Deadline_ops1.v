(* Deadline operations preserve DeadlineInv, part 1: the single-partition replacement lemma and
   declare_faults_recovered, record_faults, terminate_sectors, process_deadline_end. *)
From Coq Require Import ZArith List Bool Lia.
From stdpp Require Import gmap.
From VF Require Import Base.SetSum Model.Partition Model.PartitionInv Model.Deadline
  Model.DeadlineInv Proofs.Partition_base Proofs.Partition_lists Proofs.Partition_queue3
  Proofs.Partition_queue6 Proofs.Partition_ops1 Proofs.Partition_ops2 Proofs.Partition_ops3
  Proofs.Partition_frame Proofs.Deadline_base.
Import ListNotations.
Open Scope Z_scope.

(* ---------- replacing one partition ---------- *)
Lemma dinv_replace qs tbl d (i : N) p p' X Y ET' L' FP' LP' FEE' :
  DeadlineInv qs tbl d ->
  parts d !! N.to_nat i = Some p -> PartInv qs tbl p' -> sectors p' = sectors p ->
  L' = dl_live_sectors d - ssize (live_sectors p) + ssize (live_sectors p') ->
  FP' = pp_add (pp_sub (dl_faulty_power d) (p_faulty_power p)) (p_faulty_power p') ->
  LP' = pp_add (pp_sub (dl_live_power d) (live_power p)) (live_power p') ->
  FEE' = dl_daily_fee d - sfee tbl (live_sectors p) + sfee tbl (live_sectors p') ->
  (forall j, j ∈ ET' <-> (j <> i /\ j ∈ early_terms d) \/ (j = i /\ early_terminated p' <> ∅)) ->
  DeadlineInv qs tbl
    {| parts := put_part (parts d) i p'; dl_exp := X; posted := Y; early_terms := ET';
       dl_live_sectors := L'; dl_total_sectors := dl_total_sectors d;
       dl_faulty_power := FP'; dl_live_power := LP'; dl_daily_fee := FEE' |}.
Proof.
  intros HD Hi HP' HS -> -> -> -> HET.
  rewrite (put_part_existing _ _ _ _ Hi).
  apply dinv_off_zero in HD as [HO HE].
  pose proof (dinv_off_update qs tbl d (N.to_nat i) p p' 0 pp0 pp0 0 HO Hi HP' HS) as HU.
  apply dinv_off_zero. split.
  - eapply dinv_off_memos; [exact HU| | | | | |]; cbn [set_parts parts dl_live_sectors
      dl_total_sectors dl_faulty_power dl_live_power dl_daily_fee]; try reflexivity; try lia.
    + apply pp_eq; cbn; lia.
    + apply pp_eq; cbn; lia.
  - intros j. cbn [early_terms parts]. rewrite HET. split.
    + intros [[Hne Hj]|[-> Hne]].
      * apply HE in Hj as (q & Hq & Hqe). exists q. split; [|exact Hqe].
        rewrite list_lookup_insert_ne; [exact Hq|]. intros E. apply Hne. apply N2Nat.inj. auto.
      * exists p'. split; [|exact Hne]. apply list_lookup_insert. eapply lookup_lt_Some; eauto.
    + intros (q & Hq & Hqe). destruct (decide (j = i)) as [->|Hne].
      * right. split; [reflexivity|]. rewrite list_lookup_insert in Hq by (eapply lookup_lt_Some; eauto).
        injection Hq as <-. exact Hqe.
      * left. split; [exact Hne|]. apply HE. exists q. split; [|exact Hqe].
        rewrite list_lookup_insert_ne in Hq; [exact Hq|]. intros E. apply Hne. apply N2Nat.inj. auto.
Qed.

(* memo equalities provided by PartInv *)
Lemma pinv_memos qs tbl p :
  PartInv qs tbl p ->
  live_power p = spow tbl (live_sectors p) /\ p_faulty_power p = spow tbl (faults p).
Proof. intros []. auto. Qed.

(* ---------- declare_faults_recovered ---------- *)
Lemma d_declare_faults_recovered_inv qs tbl d psm d' :
  DeadlineInv qs tbl d -> d_declare_faults_recovered tbl d psm = Ok d' ->
  DeadlineInv qs tbl d' /\ dl_exp d' = dl_exp d.
Proof.
  intros HD. unfold d_declare_faults_recovered.
  apply (foldM_ind _ (fun _ dc => DeadlineInv qs tbl dc /\ dl_exp dc = dl_exp d)); [|auto].
  intros dc [i nums] rest dc' [HI HX] Hstep.
  destruct (get_part (parts dc) i) as [p|] eqn:Hp; [|discriminate].
  destruct (p_declare_faults_recovered tbl p (lset nums)) as [p'|] eqn:Eop; cbn [rbind] in Hstep; [|discriminate].
  injection Hstep as <-.
  pose proof (di_parts _ _ _ HI _ _ Hp) as HPp.
  destruct (p_declare_faults_recovered_inv qs tbl p (lset nums) p' HPp Eop)
    as (HP' & S' & F' & U' & T' & LP' & UP' & FP').
  pose proof (p_declare_faults_recovered_et _ _ _ _ Eop) as ET'.
  assert (Elive : live_sectors p' = live_sectors p) by (unfold live_sectors; rewrite S', T'; reflexivity).
  split; [|exact HX]. unfold set_parts.
  eapply dinv_replace; [exact HI|exact Hp|exact HP'|exact S'| | | | |].
  - rewrite Elive. lia.
  - rewrite FP'. apply pp_eq; cbn; lia.
  - rewrite LP'. apply pp_eq; cbn; lia.
  - rewrite Elive. lia.
  - intros j. rewrite ET'. pose proof (di_early _ _ _ HI j) as HE.
    destruct (decide (j = i)) as [->|Hne].
    + rewrite HE. split.
      * intros (q & Hq & Hqe). right. split; [reflexivity|]. unfold get_part in Hp. congruence.
      * intros [[Hc _]|[_ Hqe]]; [congruence|]. exists p. auto.
    + tauto.
Qed.
