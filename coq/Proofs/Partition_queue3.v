(* Queue operations, part 3: q_replace_sectors, q_reschedule_expirations, pop_until,
   reschedule_all_as_faults. *)
From Coq Require Import ZArith List Bool Lia.
From stdpp Require Import gmap.
From VF Require Import Base.SetSum Model.Partition Model.PartitionInv Proofs.Partition_base
  Proofs.Partition_entry Proofs.Partition_moves Proofs.Partition_lists Proofs.Partition_queue1
  Proofs.Partition_queue2.
Import ListNotations.
Open Scope Z_scope.

Lemma fold_left_ind {A B} (f : A -> B -> A) (P : list B -> A -> Prop) :
  (forall a x rest, P (x :: rest) a -> P rest (f a x)) ->
  forall l a, P l a -> P [] (fold_left f l a).
Proof.
  intros Hstep. induction l as [|x l IH]; intros a HP; cbn [fold_left]; [exact HP|].
  apply IH, Hstep, HP.
Qed.

(* the table may change arbitrarily outside the sectors held by the queue *)
Lemma QInv_tbl_ext qs (tbl tbl' : gmap N sector) F L (q : gmap Z expset) :
  (forall n, n ∈ L -> tbl' !! n = tbl !! n) -> QInv qs tbl F L q -> QInv qs tbl' F L q.
Proof.
  intros HT HQ. destruct HQ as [He Hd Hc]. constructor; [|exact Hd|exact Hc].
  intros k es Hk. pose proof (He _ _ Hk) as Hes.
  assert (Hsub : es_all es ⊆ L) by (intros n Hn; apply Hc; eauto).
  apply esi_of_pre; [|apply Hes]. apply (esp_tbl_ext qs tbl tbl'); [|apply esi_pre, Hes].
  intros n Hn. apply HT, Hsub, Hn.
Qed.

Lemma spow_tbl_ext_sub (tbl tbl' : gmap N sector) (X : gset N) :
  (forall n, n ∈ X -> tbl' !! n = tbl !! n) -> spow tbl' X = spow tbl X.
Proof. apply spow_ext. Qed.

(* ---------- q_replace_sectors ---------- *)
Lemma q_replace_sectors_inv qs (tbl tbl' : gmap N sector) F L (q q2 : gmap Z expset)
    old new old_ns new_ns dpow dpl dfee :
  0 < q_unit qs -> QInv qs tbl F L q ->
  from_tbl tbl old -> NoDup (map s_num old) -> nums_of old ## F ->
  from_tbl tbl' new -> NoDup (map s_num new) -> nums_of new ## F ->
  nums_of new ## L ∖ nums_of old ->
  (forall n, n ∈ L ∖ nums_of old -> tbl' !! n = tbl !! n) ->
  q_replace_sectors qs q old new = Ok (q2, old_ns, new_ns, dpow, dpl, dfee) ->
  QInv qs tbl' F ((L ∖ nums_of old) ∪ nums_of new) q2 /\
  old_ns = nums_of old /\ new_ns = nums_of new /\ nums_of old ⊆ L /\
  (forall n, n ∈ nums_of old -> exists k es, q !! k = Some es /\ n ∈ on_time es) /\
  dpow = pp_sub (spow tbl' (nums_of new)) (spow tbl (nums_of old)) /\
  dpl = spledge tbl' (nums_of new) - spledge tbl (nums_of old) /\
  dfee = sfee tbl' (nums_of new) - sfee tbl (nums_of old).
Proof.
  intros Hu HQ Hfo Hndo HFo Hfn Hndn HFn Hfresh Htbl. unfold q_replace_sectors.
  destruct (remove_active_sectors qs q old) as [[[[[q1 ons] opw] opl] ofe]|] eqn:Er;
    cbn [rbind]; [|discriminate].
  destruct (remove_active_sectors_inv qs tbl F old Hfo Hndo HFo q q1 L ons opw opl ofe HQ Er)
    as (HQ1 & -> & -> & -> & -> & HoL & Hoot).
  destruct (add_active_sectors qs q1 new) as [[[[[q2' nns] npw] npl] nfe]|] eqn:Ea;
    cbn [rbind]; [|discriminate].
  intros [= <- <- <- <- <- <-].
  apply (QInv_tbl_ext qs tbl tbl') in HQ1; [|exact Htbl].
  destruct (add_active_sectors_inv qs tbl' F new Hu Hfn Hndn HFn q1 q2' _ nns npw npl nfe HQ1 Hfresh Ea)
    as (HQ2 & -> & -> & -> & ->).
  tauto.
Qed.

(* ---------- q_reschedule_expirations ---------- *)
Lemma q_reschedule_expirations_inv qs (tbl tbl' : gmap N sector) F L (q q' : gmap Z expset)
    new_exp secs :
  0 < q_unit qs -> QInv qs tbl F L q ->
  from_tbl tbl secs -> NoDup (map s_num secs) -> nums_of secs ## F ->
  (forall n, n ∉ nums_of secs -> tbl' !! n = tbl !! n) ->
  (forall s, s ∈ secs -> tbl' !! s_num s = Some (set_expiration s new_exp)) ->
  q_reschedule_expirations qs q new_exp secs = Ok q' ->
  QInv qs tbl' F L q' /\ nums_of secs ⊆ L.
Proof.
  intros Hu HQ Hft Hnd HF Hother Hmoved. unfold q_reschedule_expirations.
  destruct secs as [|s0 secs0].
  - intros [= <-]. split; [|rewrite nums_of_nil; set_solver].
    eapply QInv_tbl_ext; [|exact HQ]. intros n _. apply Hother. rewrite nums_of_nil. set_solver.
  - remember (s0 :: secs0) as secs eqn:Es.
    destruct (remove_active_sectors qs q secs) as [[[[[q1 ns] pw] pl] fe]|] eqn:Er;
      cbn [rbind]; [|discriminate].
    destruct (remove_active_sectors_inv qs tbl F secs Hft Hnd HF q q1 L ns pw pl fe HQ Er)
      as (HQ1 & -> & -> & -> & -> & HXL & _).
    intros Ha. split; [|exact HXL].
    set (X := nums_of secs) in *.
    assert (Hsame : forall (f : sector -> Z), (forall s, f (set_expiration s new_exp) = f s) ->
              ssum (tget tbl f) X = ssum (tget tbl' f) X).
    { intros f Hf. apply ssum_ext. intros n Hn. apply elem_of_nums_of in Hn as (s & Hs & <-).
      unfold tget. rewrite (Hmoved s Hs), (Hft s Hs), Hf. reflexivity. }
    assert (Epw : spow tbl X = spow tbl' X).
    { unfold spow. rewrite (Hsame s_raw), (Hsame s_qa) by reflexivity. reflexivity. }
    assert (Epl : spledge tbl X = spledge tbl' X) by (apply Hsame; reflexivity).
    assert (Efe : sfee tbl X = sfee tbl' X) by (apply Hsame; reflexivity).
    rewrite Epw, Epl, Efe in Ha.
    replace L with ((L ∖ X) ∪ X).
    2:{ apply seteq_L. intros n. destruct (decide (n ∈ X)); set_solver. }
    eapply q_add_on_time_inv; [exact Hu| |exact Ha| | |exact HF|].
    + eapply QInv_tbl_ext; [|exact HQ1]. intros n Hn. apply Hother. clear -Hn. set_solver.
    + intros E. assert (s_num s0 ∈ X).
      { apply elem_of_nums_of. exists s0. split; [|reflexivity]. subst secs. left. }
      rewrite E in H. set_solver.
    + clear. set_solver.
    + intros n Hn. apply elem_of_nums_of in Hn as (s & Hs & <-).
      exists (set_expiration s new_exp). split; [apply Hmoved, Hs|reflexivity].
Qed.

(* ---------- pop_until ---------- *)
(* the aggregate of popped entries has exact sums (it is an ExpirationSet without a key) *)
Record AggInv (tbl : gmap N sector) (F : gset N) (es : expset) : Prop := {
  ag_disj : on_time es ## early es;
  ag_early_faulty : early es ⊆ F;
  ag_pledge : on_time_pledge es = spledge tbl (on_time es);
  ag_active : active_power es = spow tbl (on_time es ∖ F);
  ag_faulty : faulty_power es = spow tbl ((on_time es ∩ F) ∪ early es);
  ag_fee : fee_deduction es = sfee tbl (es_all es) }.

Lemma agg_empty tbl F : AggInv tbl F es_empty.
Proof.
  constructor; cbn; try set_solver.
  - rewrite <- (spow_empty tbl). apply spow_eq. set_solver.
  - rewrite <- (spow_empty tbl). apply spow_eq. set_solver.
Qed.

Lemma agg_of_entry qs tbl F k es : ExpSetInv qs tbl F k es -> AggInv tbl F es.
Proof. intros []. constructor; assumption. Qed.

Lemma agg_union tbl F a b :
  AggInv tbl F a -> AggInv tbl F b -> es_all a ## es_all b -> AggInv tbl F (es_union a b).
Proof.
  intros [A1 A2 A3 A4 A5 A6] [B1 B2 B3 B4 B5 B6] D. unfold es_all in *.
  constructor; cbn [es_union on_time early on_time_pledge active_power faulty_power fee_deduction].
  - set_solver.
  - set_solver.
  - rewrite A3, B3. symmetry. apply spledge_add_eq; [reflexivity|set_solver].
  - rewrite A4, B4. symmetry. apply spow_add_eq; set_solver.
  - rewrite A5, B5. symmetry. apply spow_add_eq; set_solver.
  - unfold es_all. cbn [es_union on_time early]. rewrite A6, B6. symmetry.
    apply sfee_add_eq; set_solver.
Qed.

Lemma pop_until_inv qs tbl F L (q : gmap Z expset) until q' popped :
  QInv qs tbl F L q -> pop_until q until = (q', popped) ->
  QInv qs tbl F (L ∖ es_all popped) q' /\ es_all popped ⊆ L /\ AggInv tbl F popped.
Proof.
  intros HQ. unfold pop_until.
  set (f := fun (acc : gmap Z expset * expset) k =>
     if until <? k then acc else
     match q !! k with
     | None => acc
     | Some es => (delete k (fst acc), es_union (snd acc) es)
     end).
  pose proof (fold_left_ind f
    (fun rest acc => NoDup rest /\ (forall k, k ∈ rest -> fst acc !! k = q !! k) /\
       QInv qs tbl F (L ∖ es_all (snd acc)) (fst acc) /\ es_all (snd acc) ⊆ L /\
       AggInv tbl F (snd acc))) as Hind.
  cbn beta in Hind. intros Hp.
  assert (Hfin : NoDup (@nil Z) /\ (forall k, k ∈ @nil Z -> fst (q', popped) !! k = q !! k) /\
       QInv qs tbl F (L ∖ es_all (snd (q', popped))) (fst (q', popped)) /\
       es_all (snd (q', popped)) ⊆ L /\ AggInv tbl F (snd (q', popped))).
  { rewrite <- Hp. apply Hind.
    - intros [qc agg] k rest (Hnd & Hsame & IQ & IL & IA). cbn [fst snd] in *.
      apply NoDup_cons in Hnd as [Hk Hnd].
      assert (Hsame' : forall k', k' ∈ rest -> qc !! k' = q !! k').
      { intros k' Hk'. apply Hsame. right. exact Hk'. }
      unfold f. destruct (until <? k); cbn [fst snd]; [tauto|].
      destruct (q !! k) as [es|] eqn:Ek; cbn [fst snd]; [|tauto].
      assert (Hck : qc !! k = Some es) by (rewrite Hsame by left; exact Ek).
      pose proof (qinv_entry_sub _ _ _ _ _ _ _ IQ Hck) as Hsub.
      split; [exact Hnd|]. split; [|split; [|split]].
      + intros k' Hk'. rewrite lookup_delete_ne; [apply Hsame', Hk'|]. intros ->. contradiction.
      + eapply QInv_delete; [exact IQ|eapply others_same; exact IQ|].
        rewrite Hck. cbn [default]. unfold es_all; cbn [es_union on_time early].
        clear. set_solver.
      + unfold es_all in *; cbn [es_union on_time early]. clear -IL Hsub. set_solver.
      + apply agg_union; [exact IA|eapply agg_of_entry, qi_entry; eauto|].
        clear -Hsub. set_solver.
    - cbn [fst snd]. split; [apply NoDup_qkeys|]. split; [reflexivity|]. split; [|split].
      + replace (L ∖ es_all es_empty) with L; [exact HQ|]. apply seteq_L. unfold es_all; cbn.
        clear. set_solver.
      + unfold es_all; cbn. clear. set_solver.
      + apply agg_empty. }
  cbn [fst snd] in Hfin. tauto.
Qed.
