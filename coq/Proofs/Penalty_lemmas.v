(* Proofs about coq/Model/Penalty.v (property C15). *)
From Coq Require Import ZArith List Bool Lia String.
From VF Require Import Gen.Consts Gen.PenaltyConsts Gen.Gated Base.Corr Model.Penalty.
Import ListNotations.
Open Scope Z_scope.

Ltac zb :=
  repeat match goal with
  | H : (_ =? _) = true |- _ => apply Z.eqb_eq in H
  | H : (_ =? _) = false |- _ => apply Z.eqb_neq in H
  | H : (_ <? _) = true |- _ => apply Z.ltb_lt in H
  | H : (_ <? _) = false |- _ => apply Z.ltb_ge in H
  | H : (_ <=? _) = true |- _ => apply Z.leb_le in H
  | H : (_ <=? _) = false |- _ => apply Z.leb_gt in H
  | H : negb _ = true |- _ => apply negb_true_iff in H
  | H : negb _ = false |- _ => apply negb_false_iff in H
  | H : (_ && _) = true |- _ => apply andb_true_iff in H; destruct H
  | H : (_ || _) = false |- _ => apply orb_false_iff in H; destruct H
  end.

(* ---------------- Part 1: closed forms ---------------- *)
Lemma consts_pos :
  TERM_FEE_PLEDGE_MULTIPLE_NUM = 85 /\ TERM_FEE_PLEDGE_MULTIPLE_DENOM = 1000 /\
  TERM_FEE_MIN_PLEDGE_MULTIPLE_NUM = 2 /\ TERM_FEE_MIN_PLEDGE_MULTIPLE_DENOM = 100 /\
  TERM_FEE_MAX_FAULT_FEE_MULTIPLE_NUM = 105 /\ TERM_FEE_MAX_FAULT_FEE_MULTIPLE_DENOM = 100 /\
  TERMINATION_LIFETIME_CAP = 140 /\ EPOCHS_IN_DAY = 2880.
Proof. repeat split. Qed.

Lemma termination_fee_bounds ip age ff : 0 <= ip -> 0 <= ff ->
  let fee := pledge_penalty_for_termination ip age ff in
  minimum_fee_abs ip <= fee /\ minimum_fee_ff ff <= fee /\
  fee <= Z.max (simple_termination_fee ip) (minimum_fee_ff ff) /\ 0 <= fee.
Proof.
  intros Hip Hff. cbv zeta.
  unfold pledge_penalty_for_termination, minimum_fee_abs, minimum_fee_ff, simple_termination_fee,
    duration_termination_fee.
  change TERM_FEE_PLEDGE_MULTIPLE_NUM with 85. change TERM_FEE_PLEDGE_MULTIPLE_DENOM with 1000.
  change TERM_FEE_MIN_PLEDGE_MULTIPLE_NUM with 2. change TERM_FEE_MIN_PLEDGE_MULTIPLE_DENOM with 100.
  change TERM_FEE_MAX_FAULT_FEE_MULTIPLE_NUM with 105. change TERM_FEE_MAX_FAULT_FEE_MULTIPLE_DENOM with 100.
  set (d := age * (ip * 85 / 1000) / (TERMINATION_LIFETIME_CAP * EPOCHS_IN_DAY)).
  assert (H1 : ip * 2 / 100 <= ip * 85 / 1000).
  { apply Z.div_le_lower_bound; [lia|].
    pose proof (Z.mul_div_le (ip * 2) 100 ltac:(lia)).
    assert (ip * 2 / 100 * 1000 <= ip * 85) by lia. lia. }
  assert (H2 : 0 <= ip * 2 / 100) by (apply Z.div_pos; lia).
  assert (H3 : 0 <= ff * 105 / 100) by (apply Z.div_pos; lia).
  lia.
Qed.

Lemma termination_fee_full_age ip age ff : 0 <= ip ->
  TERMINATION_LIFETIME_CAP * EPOCHS_IN_DAY <= age ->
  pledge_penalty_for_termination ip age ff = Z.max (simple_termination_fee ip) (minimum_fee_ff ff).
Proof.
  intros Hip Hage.
  unfold pledge_penalty_for_termination, minimum_fee_abs, duration_termination_fee; unfold simple_termination_fee.
  change TERM_FEE_PLEDGE_MULTIPLE_NUM with 85. change TERM_FEE_PLEDGE_MULTIPLE_DENOM with 1000.
  change TERM_FEE_MIN_PLEDGE_MULTIPLE_NUM with 2. change TERM_FEE_MIN_PLEDGE_MULTIPLE_DENOM with 100.
  set (S := ip * 85 / 1000). set (C := TERMINATION_LIFETIME_CAP * EPOCHS_IN_DAY) in *.
  assert (HC : 0 < C) by reflexivity.
  assert (HS : 0 <= S) by (apply Z.div_pos; lia).
  assert (H1 : ip * 2 / 100 <= S).
  { unfold S. apply Z.div_le_lower_bound; [lia|].
    pose proof (Z.mul_div_le (ip * 2) 100 ltac:(lia)). lia. }
  assert (H2 : S <= age * S / C).
  { apply Z.div_le_lower_bound; [lia|]. nia. }
  clearbody S C. generalize dependent (age * S / C). generalize dependent (ip * 2 / 100).
  intros; lia.
Qed.

(* a sector terminated at age <= 0 pays only the floor *)
Lemma termination_fee_young ip age ff : 0 <= ip -> 0 <= ff -> age <= 0 ->
  pledge_penalty_for_termination ip age ff = Z.max (minimum_fee_abs ip) (minimum_fee_ff ff).
Proof.
  intros Hip Hff Hage.
  unfold pledge_penalty_for_termination, minimum_fee_abs, minimum_fee_ff, duration_termination_fee; unfold simple_termination_fee.
  change TERM_FEE_PLEDGE_MULTIPLE_NUM with 85. change TERM_FEE_PLEDGE_MULTIPLE_DENOM with 1000.
  change TERM_FEE_MIN_PLEDGE_MULTIPLE_NUM with 2. change TERM_FEE_MIN_PLEDGE_MULTIPLE_DENOM with 100.
  change TERM_FEE_MAX_FAULT_FEE_MULTIPLE_NUM with 105. change TERM_FEE_MAX_FAULT_FEE_MULTIPLE_DENOM with 100.
  set (S := ip * 85 / 1000). set (C := TERMINATION_LIFETIME_CAP * EPOCHS_IN_DAY) in *.
  assert (HC : 0 < C) by reflexivity.
  assert (HS : 0 <= S) by (apply Z.div_pos; lia).
  assert (H2 : age * S / C <= 0).
  { apply Z.div_le_upper_bound; [lia|]. nia. }
  assert (H3 : 0 <= ip * 2 / 100) by (apply Z.div_pos; lia).
  clearbody S C. generalize dependent (age * S / C). generalize dependent (ip * 2 / 100).
  generalize dependent (ff * 105 / 100).
  intros; lia.
Qed.

Lemma total_term_fee_nonneg l : Forall (fun t => 0 <= ts_ip t /\ 0 <= ts_ff t) l -> 0 <= total_term_fee l.
Proof.
  induction 1 as [|t l [Hi Hf] _ IH]; unfold total_term_fee; cbn [fold_right]; [lia|].
  fold (total_term_fee l).
  pose proof (termination_fee_bounds (ts_ip t) (ts_age t) (ts_ff t) Hi Hf) as (_ & _ & _ & H).
  unfold term_fee, pledge_penalty_for_continued_fault. cbv zeta in H.
  generalize dependent (pledge_penalty_for_termination (ts_ip t) (ts_age t) (ts_ff t)). intros; lia.
Qed.

(* ---- effect of a send-like primitive: only the balance, the burnt counter and the log move ---- *)
Record upd (x x' : ex) (l : list sendrec) (dbal dbu : Z) : Prop := {
  u_lk : locked (st x') = locked (st x);
  u_pcd : pcd (st x') = pcd (st x);
  u_ip : ip (st x') = ip (st x);
  u_fd : fee_debt (st x') = fee_debt (st x);
  u_cfe : cfe (st x') = cfe (st x);
  u_bal : bal (st x') = bal (st x) - dbal;
  u_ch : xcharged x' = xcharged x;
  u_bu : xburnt x' = xburnt x + dbu;
  u_pa : xpaid x' = xpaid x;
  u_ou : xout x' = xout x;
  u_lg : lg x' = lg x ++ l;
}.

Lemma upd_refl x : upd x x [] 0 0.
Proof. constructor; try reflexivity; try lia. symmetry; apply app_nil_r. Qed.

Lemma xsend_spec x t m v a x' r : xsend x t m v a = (x', r) ->
  upd x x' [(t, m, v, a, r)] (if r =? 0 then v else 0) 0.
Proof.
  unfold xsend. destruct (rp x) as [|r0 rest]; intros H; injection H as <- <-.
  - cbn. constructor; cbn; try reflexivity; lia.
  - destruct (r0 =? 0) eqn:E; constructor; cbn; try reflexivity; lia.
Qed.

Lemma call_spec x t m v a x' : call x t m v a = Ok x' -> upd x x' [(t, m, v, a, 0)] v 0.
Proof.
  unfold call. destruct (xsend x t m v a) as [x1 r] eqn:E. apply xsend_spec in E.
  destruct (r =? 0) eqn:Er; [|discriminate]. intros H; injection H as <-. zb. subst r. exact E.
Qed.

Lemma burn_spec x amt x' : burn_funds x amt = Ok x' ->
  upd x x' (if 0 <? amt then [(BURNT_FUNDS_ACTOR_ID, METHOD_SEND, amt, 0, 0)] else []) (Z.max amt 0) (Z.max amt 0).
Proof.
  unfold burn_funds. destruct (0 <? amt) eqn:E; zb.
  - destruct (call x _ _ amt 0) as [x1|] eqn:C; cbn [bind]; [|discriminate].
    intros H; injection H as <-. apply call_spec in C. destruct C.
    constructor; cbn; try assumption; lia.
  - intros H; injection H as <-. replace (Z.max amt 0) with 0 by lia. apply upd_refl.
Qed.

Lemma notify_spec x d x' : notify_pledge_changed x d = Ok x' ->
  upd x x' (if d =? 0 then [] else [(STORAGE_POWER_ACTOR_ID, UPDATE_PLEDGE_TOTAL_METHOD, 0, d, 0)]) 0 0.
Proof.
  unfold notify_pledge_changed. destruct (d =? 0).
  - intros H; injection H as <-. apply upd_refl.
  - apply call_spec.
Qed.

Lemma update_power_spec x b x' : request_update_power x b = Ok x' ->
  upd x x' (if b then [(STORAGE_POWER_ACTOR_ID, UPDATE_CLAIMED_POWER_METHOD, 0, 0, 0)] else []) 0 0.
Proof.
  unfold request_update_power. destruct b.
  - apply call_spec.
  - intros H; injection H as <-. apply upd_refl.
Qed.

Lemma enroll_spec x x' : enroll_cron_event x = Ok x' ->
  upd x x' [(STORAGE_POWER_ACTOR_ID, ENROLL_CRON_EVENT_METHOD, 0, 0, 0)] 0 0.
Proof. apply call_spec. Qed.
Lemma reward_spec x x' : request_epoch_reward x = Ok x' ->
  upd x x' [(REWARD_ACTOR_ID, THIS_EPOCH_REWARD_METHOD, 0, 0, 0)] 0 0.
Proof. apply call_spec. Qed.
Lemma power_spec x x' : request_total_power x = Ok x' ->
  upd x x' [(STORAGE_POWER_ACTOR_ID, CURRENT_TOTAL_POWER_METHOD, 0, 0, 0)] 0 0.
Proof. apply call_spec. Qed.

Lemma finish_spec x x' : finish x = Ok x' -> x' = x /\ check_balance_invariants (st x) = true.
Proof. unfold finish. destruct (check_balance_invariants (st x)); [|discriminate]. intros H; injection H as <-. auto. Qed.

Lemma penalty_spec x p x' : x_apply_penalty x p = Ok x' ->
  0 <= p /\ x' = add_charged (with_st x (set_fee_debt (st x) (fee_debt (st x) + p))) p.
Proof. unfold x_apply_penalty. destruct (p <? 0) eqn:E; [discriminate|]. intros H; injection H as <-. zb. auto. Qed.

(* repay_partial_debt_in_priority_order *)
Lemma s_repay_partial_spec s v s' tb total vrem : s_repay_partial s v = Ok (s', tb, total, vrem) ->
  bal s' = bal s /\ pcd s' = pcd s /\ ip s' = ip s /\ cfe s' = cfe s /\
  locked s' = locked s - total /\ fee_debt s' = fee_debt s - tb /\
  0 <= locked s' /\ 0 <= unlocked s' /\ tb <= unlocked s' /\ tb <= fee_debt s /\ (tb = unlocked s' \/ tb = fee_debt s) /\
  (total = 0 /\ vrem = v \/ vrem = 0 /\ total = v + Z.min (fee_debt s) (locked s - v)) /\
  (fee_debt s = 0 -> total = 0).
Proof.
  unfold s_repay_partial.
  destruct ((fee_debt s =? 0) || (locked s =? 0)) eqn:E.
  - replace (locked s - 0) with (locked s) by lia.
    destruct (locked s <? 0) eqn:E1; [discriminate|].
    destruct (fee_debt s <? 0) eqn:E2; [discriminate|].
    destruct (unlocked (set_locked s (locked s)) <? 0) eqn:E3; [discriminate|].
    intros H; injection H as <- <- <- <-. unfold unlocked in *. cbn in *. zb. repeat split; try lia.
  - destruct (locked s - (v + Z.min (fee_debt s) (locked s - v)) <? 0) eqn:E1; [discriminate|].
    destruct (fee_debt s <? Z.min (fee_debt s) (locked s - v)) eqn:E2; [discriminate|].
    match goal with |- context [unlocked ?t <? 0] => destruct (unlocked t <? 0) eqn:E3; [discriminate|] end.
    intros H; injection H as <- <- <- <-. unfold unlocked in *. cbn in *. zb. repeat split; try lia.
Qed.

Lemma repay_partial_spec x v x' tb total vrem : x_repay_partial x v = Ok (x', tb, total, vrem) ->
  exists s', x' = with_st x s' /\ s_repay_partial (st x) v = Ok (s', tb, total, vrem).
Proof.
  unfold x_repay_partial. destruct (s_repay_partial (st x) v) as [[[[s' a] b] c]|] eqn:E; cbn [bind]; [|discriminate].
  intros H; injection H as <- <- <- <-. eauto.
Qed.

Lemma s_repay_debts_spec s s' fee : s_repay_debts s = Ok (s', fee) ->
  s' = set_fee_debt s 0 /\ fee = fee_debt s /\ 0 <= unlocked s /\ fee_debt s <= unlocked s.
Proof.
  unfold s_repay_debts. destruct (unlocked s <? 0) eqn:E1; [discriminate|].
  destruct (unlocked s <? fee_debt s) eqn:E2; [discriminate|]. intros H; injection H as <- <-. zb. auto.
Qed.

Lemma repay_debts_spec x x' fee : x_repay_debts_or_abort x = Ok (x', fee) ->
  x' = with_st x (set_fee_debt (st x) 0) /\ fee = fee_debt (st x) /\ 0 <= unlocked (st x) /\ fee_debt (st x) <= unlocked (st x).
Proof.
  unfold x_repay_debts_or_abort. destruct (s_repay_debts (st x)) as [[s' f]|] eqn:E; cbn [bind]; [|discriminate].
  intros H; injection H as <- <-. apply s_repay_debts_spec in E. destruct E as (-> & -> & ? & ?). auto.
Qed.

Lemma unlock_vested_spec s v s' newly : s_unlock_vested s v = Ok (s', newly) ->
  bal s' = bal s /\ pcd s' = pcd s /\ ip s' = ip s /\ cfe s' = cfe s /\ fee_debt s' = fee_debt s /\
  locked s' = locked s - newly /\ 0 <= locked s' /\ (newly = 0 \/ newly = v).
Proof.
  unfold s_unlock_vested. destruct (locked s =? 0) eqn:E.
  - intros H; injection H as <- <-. zb. repeat split; try lia.
  - destruct (locked s - v <? 0) eqn:E1; [discriminate|]. intros H; injection H as <- <-. zb. cbn. repeat split; try lia.
Qed.

(* ---- destructing a successful handler run ---- *)
Ltac ok_step :=
  match goal with
  | H : Err _ = Ok _ |- _ => discriminate H
  | H : Ok _ = Ok _ |- _ => injection H as H
  | H : bind ?m _ = Ok _ |- _ =>
      let E := fresh "E" in destruct m eqn:E; cbn [bind] in H; [|discriminate H]
  | H : guard ?c _ = Ok _ |- _ =>
      let E := fresh "G" in unfold guard in H; destruct (c =? 0) eqn:E; [|discriminate H]
  | H : (let '(_, _) := ?p in _) = Ok _ |- _ => let E := fresh "P" in destruct p eqn:E
  | H : (if ?b then _ else _) = Ok _ |- _ => let E := fresh "B" in destruct b eqn:E
  | H : match ?o with Some _ => _ | None => _ end = Ok _ |- _ => let E := fresh "O" in destruct o eqn:E
  | H : match ?l with [] => _ | _ :: _ => _ end = Ok _ |- _ => let E := fresh "L" in destruct l eqn:E
  | H : (if ?b then _ else _) = (_, _) |- _ => let E := fresh "B" in destruct b eqn:E
  | H : (let '(_, _) := ?p in _) = (_, _) |- _ => let E := fresh "P" in destruct p eqn:E
  | H : (_, _) = (_, _) |- _ => injection H as ? ?
  end.

Ltac specs :=
  repeat match goal with
  | H : call _ _ _ _ _ = Ok _ |- _ => apply call_spec in H
  | H : burn_funds _ _ = Ok _ |- _ => apply burn_spec in H
  | H : notify_pledge_changed _ _ = Ok _ |- _ => apply notify_spec in H
  | H : request_update_power _ _ = Ok _ |- _ => apply update_power_spec in H
  | H : enroll_cron_event _ = Ok _ |- _ => apply enroll_spec in H
  | H : request_epoch_reward _ = Ok _ |- _ => apply reward_spec in H
  | H : request_total_power _ = Ok _ |- _ => apply power_spec in H
  | H : xsend _ _ _ _ _ = (_, _) |- _ => apply xsend_spec in H
  | H : finish _ = Ok _ |- _ => apply finish_spec in H; destruct H as [-> ?]
  | H : x_apply_penalty _ _ = Ok _ |- _ => apply penalty_spec in H; destruct H as [? ->]
  | H : x_repay_partial _ _ = Ok _ |- _ =>
      apply repay_partial_spec in H; destruct H as (? & -> & H); apply s_repay_partial_spec in H;
      destruct H as (? & ? & ? & ? & ? & ? & ? & ? & ? & ? & ? & ? & ?)
  | H : x_repay_debts_or_abort _ = Ok _ |- _ => apply repay_debts_spec in H; destruct H as (-> & -> & ? & ?)
  | H : s_unlock_vested _ _ = Ok _ |- _ =>
      apply unlock_vested_spec in H; destruct H as (? & ? & ? & ? & ? & ? & ? & ?)
  | H : upd _ _ _ _ _ |- _ => destruct H
  end.

(* light versions: only the fee debt, the counters and the log (what the accounting needs) *)
Lemma s_repay_partial_light s v s' tb total vrem : s_repay_partial s v = Ok (s', tb, total, vrem) ->
  fee_debt s' = fee_debt s - tb /\ tb <= fee_debt s /\ (0 <= fee_debt s -> 0 <= tb).
Proof.
  intros H. apply s_repay_partial_spec in H.
  destruct H as (? & ? & ? & ? & ? & ? & ? & ? & ? & ? & ? & ? & ?). repeat split; lia.
Qed.
Lemma unlock_vested_light s v s' newly : s_unlock_vested s v = Ok (s', newly) -> fee_debt s' = fee_debt s.
Proof. intros H. apply unlock_vested_spec in H. tauto. Qed.

Ltac lspecs :=
  repeat match goal with
  | H : call _ _ _ _ _ = Ok _ |- _ => apply call_spec in H
  | H : burn_funds _ _ = Ok _ |- _ => apply burn_spec in H
  | H : notify_pledge_changed _ _ = Ok _ |- _ => apply notify_spec in H
  | H : request_update_power _ _ = Ok _ |- _ => apply update_power_spec in H
  | H : enroll_cron_event _ = Ok _ |- _ => apply enroll_spec in H
  | H : request_epoch_reward _ = Ok _ |- _ => apply reward_spec in H
  | H : request_total_power _ = Ok _ |- _ => apply power_spec in H
  | H : xsend _ _ _ _ _ = (_, _) |- _ => apply xsend_spec in H
  | H : finish _ = Ok _ |- _ => apply finish_spec in H; destruct H as [-> _]
  | H : x_apply_penalty _ _ = Ok _ |- _ => apply penalty_spec in H; destruct H as [? ->]
  | H : x_repay_partial _ _ = Ok _ |- _ =>
      apply repay_partial_spec in H; destruct H as (? & -> & H); apply s_repay_partial_light in H;
      destruct H as (? & ? & ?)
  | H : x_repay_debts_or_abort _ = Ok _ |- _ => apply repay_debts_spec in H; destruct H as (-> & -> & _ & _)
  | H : s_unlock_vested _ _ = Ok _ |- _ => apply unlock_vested_light in H
  | H : upd _ _ _ _ _ |- _ => destruct H as [_ _ _ ? _ _ ? ? ? ? ?]
  end.

Ltac simp_ex := cbn [st rp lg xcharged xburnt xpaid xout with_st add_charged add_burnt add_paid add_out
                     ex0 bal locked pcd ip fee_debt cfe mk set_bal set_locked set_pcd set_ip set_fee_debt set_cfe] in *.

(* ---- which actors a handler sends to ---- *)
Definition tgt (r : sendrec) : Z := fst (fst (fst (fst r))).
Definition val (r : sendrec) : Z := snd (fst (fst r)).
(* value only ever goes to the burnt-funds actor or to `rep`; everything else is a zero-value call to
   the power, reward or market actor *)
Definition send_ok (rep : Z) (r : sendrec) : Prop :=
  tgt r = BURNT_FUNDS_ACTOR_ID \/ tgt r = rep \/
  (val r = 0 /\ (tgt r = STORAGE_POWER_ACTOR_ID \/ tgt r = REWARD_ACTOR_ID \/ tgt r = STORAGE_MARKET_ACTOR_ID)).
Definition sends_in (rep : Z) (x x' : ex) : Prop :=
  exists l, lg x' = lg x ++ l /\ Forall (send_ok rep) l.

Lemma sends_in_refl rep x : sends_in rep x x.
Proof. exists []. split; [symmetry; apply app_nil_r|constructor]. Qed.
Lemma sends_in_trans rep x y z : sends_in rep x y -> sends_in rep y z -> sends_in rep x z.
Proof.
  intros (l1 & E1 & F1) (l2 & E2 & F2). exists (l1 ++ l2). split.
  - rewrite E2, E1, app_assoc. reflexivity.
  - apply Forall_app; auto.
Qed.

Ltac lg_chain :=
  repeat match goal with
  | H : lg ?a = _ |- context [lg ?a] => rewrite H
  end; rewrite <- ?app_assoc; first [reflexivity | symmetry; apply app_nil_r | idtac].

Ltac forall_sends :=
  repeat match goal with |- Forall _ (_ ++ _) => apply Forall_app; split end;
  repeat match goal with
  | |- Forall _ (if ?c then _ else _) => destruct c
  | |- Forall _ _ => assumption
  | |- Forall _ [] => constructor
  | |- Forall _ (_ :: _) => constructor
  | |- send_ok _ _ => unfold send_ok, tgt, val; cbn; auto 6
  end.

Ltac sends_tac :=
  eexists; split; [lg_chain | forall_sends].

(* lia must not look inside the closed forms (some are 10^18-sized constants) *)
Ltac hide t := let v := fresh "k" in let Hk := fresh "Hk" in remember t as v eqn:Hk in *; clear Hk.
Ltac hide_forms :=
  repeat match goal with
  | |- context [pledge_penalty_for_invalid_windowpost ?r] => hide (pledge_penalty_for_invalid_windowpost r)
  | H : context [pledge_penalty_for_invalid_windowpost ?r] |- _ => hide (pledge_penalty_for_invalid_windowpost r)
  | |- context [consensus_fault_penalty ?r] => hide (consensus_fault_penalty r)
  | H : context [consensus_fault_penalty ?r] |- _ => hide (consensus_fault_penalty r)
  | |- context [reward_for_consensus_slash_report ?r] => hide (reward_for_consensus_slash_report r)
  | H : context [reward_for_consensus_slash_report ?r] |- _ => hide (reward_for_consensus_slash_report r)
  | |- context [locked_reward_from_reward ?r] => hide (locked_reward_from_reward r)
  | H : context [locked_reward_from_reward ?r] |- _ => hide (locked_reward_from_reward r)
  | |- context [total_term_fee ?r] => hide (total_term_fee r)
  | H : context [total_term_fee ?r] |- _ => hide (total_term_fee r)
  | |- context [total_term_ip ?r] => hide (total_term_ip r)
  | H : context [total_term_ip ?r] |- _ => hide (total_term_ip r)
  | |- context [daily_proof_fee_payable ?a ?b] => hide (daily_proof_fee_payable a b)
  | H : context [daily_proof_fee_payable ?a ?b] |- _ => hide (daily_proof_fee_payable a b)
  | |- context [reward_for_disputed_window_post] => hide reward_for_disputed_window_post
  | H : context [reward_for_disputed_window_post] |- _ => hide reward_for_disputed_window_post
  | |- context [CONSENSUS_FAULT_INELIGIBILITY_DURATION] => hide CONSENSUS_FAULT_INELIGIBILITY_DURATION
  | H : context [CONSENSUS_FAULT_INELIGIBILITY_DURATION] |- _ => hide CONSENSUS_FAULT_INELIGIBILITY_DURATION
  end.

(* ---- accounting summary of a transition ---- *)
Definition acct (x : ex) : Z := fee_debt (st x) + xburnt x + xpaid x - xcharged x.
Record good (x x' : ex) : Prop := {
  g_acct : acct x' = acct x;
  g_fd : 0 <= fee_debt (st x');
  g_ch : xcharged x <= xcharged x';
  g_bu : xburnt x <= xburnt x';
  g_pa : xpaid x <= xpaid x';
  g_ou : xout x <= xout x';
}.

Ltac good_tac := constructor; unfold acct in *; simp_ex; hide_forms; lia.

Lemma apply_rewards_good x c r p v x' : 0 <= fee_debt (st x) ->
  h_apply_rewards x c r p v = Ok x' ->
  good x x' /\ sends_in BURNT_FUNDS_ACTOR_ID x x' /\ xcharged x' = xcharged x + p /\
  xpaid x' = xpaid x /\  xout x' = xout x.
Proof.
  intros Hfd H. unfold h_apply_rewards in H. repeat ok_step. lspecs. simp_ex. subst.
  split; [good_tac|]. split; [sends_tac|]. lia.
Qed.

Definition reporter_send_failed (rep : Z) (l : list sendrec) : Prop :=
  exists v r, In (rep, METHOD_SEND, v, 0, r) l /\ r <> 0.

Lemma cfp_nonneg e : 0 <= consensus_fault_penalty e -> 0 <= e.
Proof.
  unfold consensus_fault_penalty. cbv [CONSENSUS_FAULT_FACTOR EXPECTED_LEADERS_PER_EPOCH].
  intros H. destruct (Z_lt_le_dec e 0) as [Hl|]; [|assumption]. exfalso.
  assert (e * 5 / 5 < 0) by (apply Z.div_lt_upper_bound; lia). lia.
Qed.
Lemma slash_reward_nonneg e : 0 <= e -> 0 <= reward_for_consensus_slash_report e.
Proof. intros. unfold reward_for_consensus_slash_report. apply Z.div_pos; [assumption|reflexivity]. Qed.

Ltac split_reply :=
  repeat match goal with
  | H : context [if (?r =? 0) then add_paid _ _ else _] |- _ => destruct (r =? 0) eqn:?
  | H : context [if (?r =? 0) then (add_paid _ _, _) else _] |- _ => destruct (r =? 0) eqn:?
  end.

Lemma report_fault_good x rep e f er v x' : 0 <= fee_debt (st x) ->
  h_report_fault x rep e f er v = Ok x' ->
  good x x' /\ sends_in rep x x' /\
  xcharged x' = xcharged x + consensus_fault_penalty er /\
  xpaid x' - xpaid x <= reward_for_consensus_slash_report er /\
  xout x' = xout x.
Proof.
  intros Hfd H. unfold h_report_fault in H. repeat ok_step. split_reply.
  all: lspecs; simp_ex; subst; simp_ex.
  all: match goal with H : 0 <= consensus_fault_penalty ?q |- _ =>
         pose proof (cfp_nonneg _ H) as Her; pose proof (slash_reward_nonneg _ Her) as Hsl end.
  all: zb; subst; simp_ex.
  all: (split; [good_tac|]); (split; [sends_tac|]); hide_forms; lia.
Qed.

Lemma dispute_good x rep pre chk r v pwr x' : 0 <= fee_debt (st x) ->
  h_dispute x rep pre chk r v pwr = Ok x' ->
  good x x' /\ sends_in rep x x' /\
  xcharged x' = xcharged x + (pledge_penalty_for_invalid_windowpost r + reward_for_disputed_window_post) /\
  xpaid x' - xpaid x <= reward_for_disputed_window_post /\
   xout x' = xout x.
Proof.
  intros Hfd H. unfold h_dispute in H. repeat ok_step. split_reply.
  all: lspecs; simp_ex; subst; simp_ex.
  all: assert (0 < reward_for_disputed_window_post) by reflexivity.
  all: zb; subst; simp_ex.
  all: (split; [good_tac|]); (split; [sends_tac|]); hide_forms; lia.
Qed.

Definition et_fee (et : eterm) : Z :=
  match et_sectors et with [] => 0 | _ => total_term_fee (et_sectors et) end.

Lemma early_term_good x et tol x' : 0 <= fee_debt (st x) ->
  h_early_term x et tol = Ok x' ->
  good x x' /\ sends_in BURNT_FUNDS_ACTOR_ID x x' /\ xcharged x' = xcharged x + et_fee et /\
  xpaid x' = xpaid x /\  xout x' = xout x /\ 0 <= et_fee et.
Proof.
  intros Hfd H. unfold h_early_term in H. unfold et_fee. repeat ok_step.
  all: lspecs; simp_ex; subst; simp_ex.
  all: zb; subst; simp_ex.
  all: (split; [good_tac|]); (split; [sends_tac|]); hide_forms; lia.
Qed.

Definition deadline_charge (dep ff dfee rday : Z) (chain : option eterm) : Z :=
  dep + pledge_penalty_for_continued_fault ff +
  (if 0 <? dfee then daily_proof_fee_payable dfee rday else 0) +
  match chain with Some et => et_fee et | None => 0 end.

Lemma good_trans x y z : good x y -> good y z -> good x z.
Proof. intros [] []. constructor; lia. Qed.

Ltac use_early_term :=
  match goal with
  | H : h_early_term ?y ?et ?tol = Ok ?z |- _ =>
      let G := fresh "G" in
      assert (G : 0 <= fee_debt (st y)) by (simp_ex; lia);
      apply (early_term_good y et tol z G) in H;
      destruct H as ([] & (? & ? & ?) & ? & ? & ? & ?)
  end.

Lemma deadline_good x dep ff dfee rday ip_rel v pwr chain sys x' : 0 <= fee_debt (st x) ->
  h_deadline x dep ff dfee rday ip_rel v pwr chain sys = Ok x' ->
  good x x' /\ sends_in BURNT_FUNDS_ACTOR_ID x x' /\
  xcharged x' = xcharged x + deadline_charge dep ff dfee rday chain /\
  0 <= dep /\ 0 <= ff /\ (0 < dfee -> 0 <= daily_proof_fee_payable dfee rday) /\
  xpaid x' = xpaid x /\  xout x' = xout x /\
  0 <= match chain with Some et => et_fee et | None => 0 end.
Proof.
  intros Hfd H. unfold h_deadline in H. unfold deadline_charge, pledge_penalty_for_continued_fault in *.
  repeat ok_step.
  all: lspecs; simp_ex; subst; simp_ex.
  all: try use_early_term.
  all: lspecs; simp_ex; subst; simp_ex.
  all: zb; subst; simp_ex.
  all: (split; [good_tac|]); (split; [sends_tac|]); hide_forms; repeat split; try lia.
Qed.

Lemma cron_good x caller ev sys x' : 0 <= fee_debt (st x) ->
  h_cron x caller ev sys = Ok x' ->
  good x x' /\ sends_in BURNT_FUNDS_ACTOR_ID x x' /\
  xcharged x' = xcharged x +
    match ev with
    | CronDeadline dep ff dfee rday _ _ _ chain => deadline_charge dep ff dfee rday chain
    | CronEarlyTerm et => et_fee et
    | CronUnknown => 0
    end /\
  xpaid x' = xpaid x /\  xout x' = xout x /\
  check_balance_invariants (st x') = true.
Proof.
  intros Hfd H. unfold h_cron in H. destruct (negb (caller =? STORAGE_POWER_ACTOR_ID)); [discriminate|].
  destruct ev as [dep ff dfee rday ip_rel v pwr chain|et|].
  - destruct (h_deadline _ _ _ _ _ _ _ _ _ _) as [y|] eqn:E; cbn [bind] in H; [|discriminate].
    apply finish_spec in H. destruct H as [-> Hinv].
    apply deadline_good in E; [|assumption]. tauto.
  - repeat ok_step. all: use_early_term. all: apply finish_spec in H; destruct H as [-> Hinv].
    all: lspecs; simp_ex; subst; simp_ex.
    all: (split; [good_tac|]); (split; [sends_tac|]); repeat split; try lia; assumption.
  - cbn [bind] in H. apply finish_spec in H. destruct H as [-> Hinv].
    split; [constructor; lia|]. split; [apply sends_in_refl|]. repeat split; try lia; assumption.
Qed.

Lemma upd_inv x x' l dbu : upd x x' l 0 dbu ->
  check_balance_invariants (st x) = true -> check_balance_invariants (st x') = true.
Proof.
  intros [] H. unfold check_balance_invariants in *.
  rewrite u_lk0, u_pcd0, u_ip0, u_fd0, u_bal0. replace (bal (st x) - 0) with (bal (st x)) by lia. exact H.
Qed.

Lemma terminate_good x chk pwr had et x' : 0 <= fee_debt (st x) ->
  h_terminate x chk pwr had et = Ok x' ->
  good x x' /\ sends_in BURNT_FUNDS_ACTOR_ID x x' /\ xcharged x' = xcharged x + et_fee et /\
  xpaid x' = xpaid x /\  xout x' = xout x /\
  check_balance_invariants (st x') = true.
Proof.
  intros Hfd H. unfold h_terminate in H. repeat ok_step.
  all: match goal with H : finish _ = Ok _ |- _ => apply finish_spec in H; destruct H as [-> Hinv] end.
  all: match goal with H : request_update_power ?y _ = Ok ?z |- _ =>
         pose proof (upd_inv _ _ _ _ (update_power_spec _ _ _ H) Hinv) as Hinv' end.
  all: lspecs; simp_ex; subst; simp_ex.
  all: use_early_term.
  all: lspecs; simp_ex; subst; simp_ex.
  all: (split; [good_tac|]); (split; [sends_tac|]); repeat split; try lia; try assumption.
Qed.

Lemma repay_debt_good x chk v x' : 0 <= fee_debt (st x) ->
  h_repay_debt x chk v = Ok x' ->
  good x x' /\ sends_in BURNT_FUNDS_ACTOR_ID x x' /\ xcharged x' = xcharged x /\
  xpaid x' = xpaid x /\  xout x' = xout x.
Proof.
  intros Hfd H. unfold h_repay_debt in H. repeat ok_step.
  all: lspecs; simp_ex; subst; simp_ex.
  all: (split; [good_tac|]); (split; [sends_tac|]); repeat split; lia.
Qed.

(* the gated handlers: on success the whole debt was burnt *)
Lemma withdraw_good x cok early req q payee v x' : 0 <= fee_debt (st x) ->
  h_withdraw x cok early req q payee v = Ok x' ->
  good x x' /\ sends_in payee x x' /\ xcharged x' = xcharged x /\
  xpaid x' = xpaid x /\ 
  fee_debt (st x') = 0 /\ xburnt x' = xburnt x + fee_debt (st x) /\
  0 <= xout x' - xout x <= req.
Proof.
  intros Hfd H. unfold h_withdraw in H. repeat ok_step.
  all: lspecs; simp_ex; subst; simp_ex.
  all: zb.
  all: (split; [good_tac|]); (split; [sends_tac|]); repeat split; lia.
Qed.

Lemma precommit_good x e pre c1 c2 dep deals nc x' : 0 <= fee_debt (st x) ->
  h_precommit x e pre c1 c2 dep deals nc = Ok x' ->
  good x x' /\ sends_in BURNT_FUNDS_ACTOR_ID x x' /\ xcharged x' = xcharged x /\
  xpaid x' = xpaid x /\  xout x' = xout x /\
  fee_debt (st x') = 0 /\ xburnt x' = xburnt x + fee_debt (st x).
Proof.
  intros Hfd H. unfold h_precommit in H. repeat ok_step.
  all: lspecs; simp_ex; subst; simp_ex.
  all: (split; [good_tac|]); (split; [sends_tac|]); repeat split; lia.
Qed.

Lemma declare_recovered_good x e pre c1 c2 x' : 0 <= fee_debt (st x) ->
  h_declare_recovered x e pre c1 c2 = Ok x' ->
  good x x' /\ sends_in BURNT_FUNDS_ACTOR_ID x x' /\ xcharged x' = xcharged x /\
  xpaid x' = xpaid x /\  xout x' = xout x /\
  fee_debt (st x') = 0 /\ xburnt x' = xburnt x + fee_debt (st x).
Proof.
  intros Hfd H. unfold h_declare_recovered in H. repeat ok_step.
  all: lspecs; simp_ex; subst; simp_ex.
  all: (split; [good_tac|]); (split; [sends_tac|]); repeat split; lia.
Qed.

Lemma prove_commit_ni_good x pre chk pl nc x' : 0 <= fee_debt (st x) ->
  h_prove_commit_ni x pre chk pl nc = Ok x' ->
  good x x' /\ sends_in BURNT_FUNDS_ACTOR_ID x x' /\ xcharged x' = xcharged x /\
  xpaid x' = xpaid x /\  xout x' = xout x /\
  fee_debt (st x') = 0 /\ xburnt x' = xburnt x + fee_debt (st x).
Proof.
  intros Hfd H. unfold h_prove_commit_ni in H. repeat ok_step.
  all: lspecs; simp_ex; subst; simp_ex.
  all: (split; [good_tac|]); (split; [sends_tac|]); repeat split; lia.
Qed.


(* ============================================================================================ *)
(* failure codes are never 0                                                                      *)
(* ============================================================================================ *)
Lemma call_err x t m v a c : call x t m v a = Err c -> c <> 0.
Proof.
  unfold call. destruct (xsend x t m v a) as [x1 r]. destruct (r =? 0) eqn:E; [discriminate|].
  intros H; injection H as <-. zb. assumption.
Qed.

Ltac err_lit := first [discriminate | (intros ?; discriminate) | (unfold ILLEGAL_ARGUMENT, FORBIDDEN, INSUFFICIENT_FUNDS, ILLEGAL_STATE, ERR_BALANCE_INVARIANTS_BROKEN; lia)].

Ltac err_step :=
  match goal with
  | H : Ok _ = Err _ |- _ => discriminate H
  | H : Err _ = Err _ |- _ => injection H as <-
  | H : call _ _ _ _ _ = Err _ |- _ => apply call_err in H; exact H
  | H : bind ?m _ = Err _ |- _ =>
      let E := fresh "E" in destruct m eqn:E; cbn [bind] in H
  | H : guard ?c _ = Err _ |- _ =>
      let E := fresh "G" in unfold guard in H; destruct (c =? 0) eqn:E; [|injection H as <-; zb; assumption]
  | H : (let '(_, _) := ?p in _) = Err _ |- _ => let E := fresh "P" in destruct p eqn:E
  | H : (if ?b then _ else _) = Err _ |- _ => let E := fresh "B" in destruct b eqn:E
  | H : match ?o with Some _ => _ | None => _ end = Err _ |- _ => let E := fresh "O" in destruct o eqn:E
  | H : match ?l with [] => _ | _ :: _ => _ end = Err _ |- _ => let E := fresh "L" in destruct l eqn:E
  end.

Ltac err_prims :=
  unfold burn_funds, notify_pledge_changed, request_update_power, enroll_cron_event, request_epoch_reward,
    request_total_power, finish, x_apply_penalty, x_repay_partial, x_repay_debts_or_abort, s_repay_partial,
    s_repay_debts, s_unlock_vested in *.

Ltac err_solve := repeat err_step; try err_lit.

Lemma early_term_err x et tol c : h_early_term x et tol = Err c -> c <> 0.
Proof.
  unfold h_early_term. intros H. err_prims. err_solve.
  all: try (match goal with H : xsend _ _ _ _ _ = (_, ?r), B : (?r =? 0) || _ = false |- _ =>
              apply orb_false_iff in B; destruct B as [B _]; zb; assumption end).
Qed.

Ltac err_step2 :=
  match goal with
  | H : h_early_term _ _ _ = Err ?c |- ?c <> 0 => apply early_term_err in H; exact H
  | _ => err_step
  end.
Ltac err_solve2 := repeat err_step2; try err_lit.

Lemma deadline_err x dep ff dfee rday ip_rel v pwr chain sys c :
  h_deadline x dep ff dfee rday ip_rel v pwr chain sys = Err c -> c <> 0.
Proof. unfold h_deadline. intros H. err_prims. err_solve2. Qed.

Lemma handle_err s o c : handle s o = Err c -> c <> 0.
Proof.
  destruct o; cbn [handle]; intros H.
  - (* apply_rewards *) unfold h_apply_rewards in H. err_prims. err_solve.
  - unfold h_report_fault in H. err_prims. err_solve.
  - unfold h_dispute in H. err_prims. err_solve.
  - unfold h_cron in H.
    destruct (negb (caller =? STORAGE_POWER_ACTOR_ID)); [injection H as <-; err_lit|].
    destruct ev.
    + destruct (h_deadline _ _ _ _ _ _ _ _ _ _) eqn:E; cbn [bind] in H.
      * err_prims. err_solve.
      * injection H as <-. eapply deadline_err; eassumption.
    + destruct (h_early_term _ _ _) eqn:E; cbn [bind] in H.
      * err_prims. err_solve.
      * injection H as <-. eapply early_term_err; eassumption.
    + err_prims. err_solve.
  - unfold h_terminate in H. err_prims. err_solve2.
  - unfold h_repay_debt in H. err_prims. err_solve.
  - unfold h_withdraw in H. err_prims. err_solve.
  - unfold h_precommit in H. err_prims. err_solve.
  - unfold h_declare_recovered in H. err_prims. err_solve.
  - unfold h_prove_commit_ni in H. err_prims. err_solve.
  - err_prims. err_solve.
Qed.

(* ============================================================================================ *)
(* step level                                                                                     *)
(* ============================================================================================ *)

(* who may receive value from the operation besides the burnt-funds actor *)
Definition recipient (o : op) : Z :=
  match o with
  | ReportFault rep _ _ _ _ _ => rep
  | Dispute rep _ _ _ _ _ _ => rep
  | Withdraw _ _ _ _ payee _ _ => payee
  | _ => BURNT_FUNDS_ACTOR_ID
  end.

(* the penalty the operation applies when it succeeds *)
Definition expected_charge (o : op) : Z :=
  match o with
  | ApplyRewards _ _ _ penalty _ _ => penalty
  | ReportFault _ _ _ er _ _ => consensus_fault_penalty er
  | Dispute _ _ _ r _ _ _ => pledge_penalty_for_invalid_windowpost r + reward_for_disputed_window_post
  | Cron _ (CronDeadline dep ff dfee rday _ _ _ chain) _ _ => deadline_charge dep ff dfee rday chain
  | Cron _ (CronEarlyTerm et) _ _ => et_fee et
  | Terminate _ _ _ et _ => et_fee et
  | _ => 0
  end.

(* the most the reporter can be paid *)
Definition reward_cap (o : op) : Z :=
  match o with
  | ReportFault _ _ _ er _ _ => reward_for_consensus_slash_report er
  | Dispute _ _ _ _ _ _ _ => reward_for_disputed_window_post
  | _ => 0
  end.

Record step_facts (s : state) (o : op) (s' : state) (out : outcome) : Prop := {
  sf_acct : fee_debt s' + burnt out + reporter_paid out = fee_debt s + charged out;
  sf_fd : 0 <= fee_debt s';
  sf_ch : 0 <= charged out;
  sf_bu : 0 <= burnt out;
  sf_pa : 0 <= reporter_paid out;
  sf_ou : 0 <= paid_out out;
  sf_sends : Forall (send_ok (recipient o)) (sends out);
  sf_charge : code out = 0 -> charged out = expected_charge o;
  sf_cap : code out = 0 -> reporter_paid out <= reward_cap o;
  sf_out : (forall a b c d e f g, o <> Withdraw a b c d e f g) -> paid_out out = 0;
  sf_rejected : code out <> 0 -> s' = s /\ out = fail (code out);
}.

Lemma good_ex0 s rps x : good (ex0 s rps) x ->
  fee_debt (st x) + xburnt x + xpaid x = fee_debt s + xcharged x /\
  0 <= fee_debt (st x) /\ 0 <= xcharged x /\ 0 <= xburnt x /\ 0 <= xpaid x /\ 0 <= xout x.
Proof. intros []. unfold acct in *. cbn in *. repeat split; lia. Qed.

Lemma sends_ex0 rep s rps x : sends_in rep (ex0 s rps) x -> Forall (send_ok rep) (lg x).
Proof. intros (l & E & F). cbn in E. rewrite E. exact F. Qed.

Lemma send_ok_burnt rep l : Forall (send_ok BURNT_FUNDS_ACTOR_ID) l -> Forall (send_ok rep) l.
Proof. apply Forall_impl. intros r [H|[H|H]]; unfold send_ok; auto. Qed.

Lemma step_facts_hold s o s' out : 0 <= fee_debt s -> step s o = (s', out) -> step_facts s o s' out.
Proof.
  intros Hfd. unfold step. destruct (handle s o) as [x|c] eqn:Hh; intros H; injection H as <- <-.
  2:{ pose proof (handle_err _ _ _ Hh) as Hc.
      constructor; cbn [fail code charged burnt reporter_paid paid_out sends]; try lia.
      all: try (intros H0; exfalso; lia).
      all: try constructor; try tauto; try lia. }
  assert (Hrw : 0 < reward_for_disputed_window_post) by reflexivity.
  destruct o; cbn [handle] in Hh.
  - (* ApplyRewards *)
    destruct (value <? 0); [discriminate|].
    apply apply_rewards_good in Hh; [|cbn; lia].
    destruct Hh as (G & S & C & P & O). apply good_ex0 in G. apply sends_ex0 in S. cbn in *.
    constructor; cbn; first [lia | assumption | tauto | (intros; lia) | (intros; congruence)].
  - (* ReportFault *)
    apply report_fault_good in Hh; [|cbn; lia].
    destruct Hh as (G & S & C & P & O). apply good_ex0 in G. apply sends_ex0 in S. cbn in *.
    constructor; cbn; first [lia | assumption | tauto | (intros; lia) | (intros; congruence)].
  - (* Dispute *)
    apply dispute_good in Hh; [|cbn; lia].
    destruct Hh as (G & S & C & P & O). apply good_ex0 in G. apply sends_ex0 in S. cbn in *.
    constructor; cbn; first [lia | assumption | tauto | (intros; lia) | (intros; congruence)].
  - (* Cron *)
    apply cron_good in Hh; [|cbn; lia].
    destruct Hh as (G & S & C & P & O & I). apply good_ex0 in G. apply sends_ex0 in S. cbn in *.
    constructor; cbn; first [lia | assumption | tauto | (intros; lia) | (intros; congruence) | idtac].
    all: try (intros _; rewrite C; destruct ev; reflexivity).
  - (* Terminate *)
    apply terminate_good in Hh; [|cbn; lia].
    destruct Hh as (G & S & C & P & O & I). apply good_ex0 in G. apply sends_ex0 in S. cbn in *.
    constructor; cbn; first [lia | assumption | tauto | (intros; lia) | (intros; congruence)].
  - (* RepayDebt *)
    apply repay_debt_good in Hh; [|cbn; lia].
    destruct Hh as (G & S & C & P & O). apply good_ex0 in G. apply sends_ex0 in S. cbn in *.
    constructor; cbn; first [lia | assumption | tauto | (intros; lia) | (intros; congruence)].
  - (* Withdraw *)
    apply withdraw_good in Hh; [|cbn; lia].
    destruct Hh as (G & S & C & P & F & B & O). apply good_ex0 in G. apply sends_ex0 in S. cbn in *.
    constructor; cbn; first [lia | assumption | tauto | (intros; lia) | (intros; congruence) | idtac].
    all: try (intros Hn; exfalso; eapply Hn; reflexivity).
  - (* PreCommit *)
    apply precommit_good in Hh; [|cbn; lia].
    destruct Hh as (G & S & C & P & O & F & B). apply good_ex0 in G. apply sends_ex0 in S. cbn in *.
    constructor; cbn; first [lia | assumption | tauto | (intros; lia) | (intros; congruence)].
  - (* DeclareRecovered *)
    apply declare_recovered_good in Hh; [|cbn; lia].
    destruct Hh as (G & S & C & P & O & F & B). apply good_ex0 in G. apply sends_ex0 in S. cbn in *.
    constructor; cbn; first [lia | assumption | tauto | (intros; lia) | (intros; congruence)].
  - (* ProveCommitNI *)
    apply prove_commit_ni_good in Hh; [|cbn; lia].
    destruct Hh as (G & S & C & P & O & F & B). apply good_ex0 in G. apply sends_ex0 in S. cbn in *.
    constructor; cbn; first [lia | assumption | tauto | (intros; lia) | (intros; congruence)].
  - (* Other *)
    apply finish_spec in Hh. destruct Hh as [-> I]. cbn.
    constructor; cbn; first [lia | (intros Hx; exfalso; apply Hx; reflexivity) | constructor | tauto | (intros; lia) | (intros; congruence)].
Qed.

(* ============================================================================================ *)
(* the debt gate                                                                                  *)
(* ============================================================================================ *)
Lemma set_bal_same s : set_bal s (bal s - 0) = s.
Proof. destruct s; unfold set_bal, mk; cbn. f_equal. lia. Qed.

Lemma call0_st x t m a x' : call x t m 0 a = Ok x' -> st x' = st x.
Proof.
  unfold call, xsend. destruct (rp x) as [|r rest]; cbn.
  - intros H; injection H as <-. cbn. apply set_bal_same.
  - destruct (r =? 0) eqn:E; cbn; rewrite ?E; [|discriminate].
    intros H; injection H as <-. cbn. apply set_bal_same.
Qed.

(* the unlocked balance the gate of the handler compares with the fee debt *)
Definition gate_unlocked (s : state) (o : op) : Z :=
  match o with
  | Withdraw _ _ _ _ _ v _ => unlocked s + (if locked s =? 0 then 0 else v)
  | ProveCommitNI _ _ pledge _ _ => unlocked s - pledge
  | _ => unlocked s
  end.

Lemma gate_rejects x : unlocked (st x) < fee_debt (st x) -> exists c, x_repay_debts_or_abort x = Err c.
Proof.
  intros H. unfold x_repay_debts_or_abort, s_repay_debts.
  destruct (unlocked (st x) <? 0); [eexists; reflexivity|].
  destruct (unlocked (st x) <? fee_debt (st x)) eqn:E; [eexists; reflexivity|]. zb. lia.
Qed.

Ltac gate_path :=
  repeat match goal with
  | |- exists c, guard ?p _ = Err c => unfold guard; destruct (p =? 0); [|eexists; reflexivity]
  | |- exists c, bind (call ?x ?t ?m 0 ?a) _ = Err c =>
      let E := fresh "E" in destruct (call x t m 0 a) eqn:E; cbn [bind]; [apply call0_st in E|eexists; reflexivity]
  | |- exists c, bind (if ?b then call ?x ?t ?m 0 ?a else Ok ?x) _ = Err c =>
      let E := fresh "E" in destruct b; [destruct (call x t m 0 a) eqn:E; cbn [bind]; [apply call0_st in E|eexists; reflexivity]|cbn [bind]]
  | |- exists c, (if ?b then Err _ else _) = Err c => destruct b eqn:?; [eexists; reflexivity|]
  | |- exists c, (if ?b then _ else Err _) = Err c => destruct b eqn:?; [|eexists; reflexivity]
  end.

Lemma debt_blocks_handle s o name : gated_name o = Some name ->
  gate_unlocked s o < fee_debt s -> exists c, handle s o = Err c.
Proof.
  destruct o; cbn [gated_name]; try discriminate; intros _ Hb; cbn [handle gate_unlocked] in *.
  - (* withdraw *)
    unfold h_withdraw. gate_path.
    unfold s_unlock_vested. cbn [st ex0].
    destruct (locked s =? 0) eqn:El; cbn [bind].
    + gate_path.
      destruct (gate_rejects (with_st (ex0 s replies) s)) as [c Hc]; [cbn; lia|]. rewrite Hc. eexists; reflexivity.
    + destruct (locked s - v <? 0); cbn [bind]; [eexists; reflexivity|].
      gate_path.
      match goal with |- context [x_repay_debts_or_abort ?y] => destruct (gate_rejects y) as [c Hc] end.
      { unfold unlocked in *. cbn in *. lia. }
      rewrite Hc. eexists; reflexivity.
  - (* pre-commit *)
    unfold h_precommit, request_epoch_reward, request_total_power. gate_path.
    all: match goal with |- context [x_repay_debts_or_abort ?y] =>
           assert (Hg : unlocked (st y) < fee_debt (st y))
             by (repeat match goal with H : st _ = _ |- _ => rewrite H end; cbn; assumption);
           destruct (gate_rejects y Hg) as [c Hc] end.
    all: rewrite Hc; eexists; reflexivity.
  - (* declare recovered *)
    unfold h_declare_recovered. gate_path.
    destruct (gate_rejects (ex0 s replies)) as [c Hc]; [cbn; assumption|]. rewrite Hc. eexists; reflexivity.
  - (* prove-commit NI *)
    unfold h_prove_commit_ni, request_epoch_reward, request_total_power. gate_path.
    all: match goal with |- context [x_repay_debts_or_abort ?y] =>
           assert (Hg : unlocked (st y) < fee_debt (st y))
             by (cbn [st with_st]; repeat match goal with H : st _ = _ |- _ => rewrite H end;
                 unfold unlocked in *; cbn in *; lia);
           destruct (gate_rejects y Hg) as [c Hc] end.
    all: rewrite Hc; gate_path; eexists; reflexivity.
Qed.

Theorem debt_blocks s o name : gated_name o = Some name -> gate_unlocked s o < fee_debt s ->
  exists c, c <> 0 /\ step s o = (s, fail c).
Proof.
  intros Hn Hb. destruct (debt_blocks_handle s o name Hn Hb) as [c Hc].
  exists c. split; [eapply handle_err; eassumption|]. unfold step. rewrite Hc. reflexivity.
Qed.

(* with well-formed parameters and a non-negative unlocked balance the rejection is insufficient_funds *)
Lemma debt_blocks_code_declare s e c1 c2 rps : 0 <= unlocked s -> unlocked s < fee_debt s ->
  step s (DeclareRecovered e 0 c1 c2 rps) = (s, fail INSUFFICIENT_FUNDS).
Proof.
  intros H0 H1. unfold step. cbn. unfold x_repay_debts_or_abort, s_repay_debts. cbn.
  destruct (unlocked s <? 0) eqn:E1; [zb; lia|]. destruct (unlocked s <? fee_debt s) eqn:E2; [|zb; lia]. reflexivity.
Qed.

Lemma debt_blocks_code_precommit s e c1 c2 dep deals nc : 0 <= unlocked s -> unlocked s < fee_debt s ->
  step s (PreCommit e 0 c1 c2 dep deals nc []) = (s, fail INSUFFICIENT_FUNDS).
Proof.
  intros H0 H1. unfold step. cbn [handle].
  unfold h_precommit, guard, request_epoch_reward, request_total_power, call, xsend.
  cbn [rp ex0 Z.eqb bind st]. rewrite !set_bal_same.
  destruct deals; cbn [rp Z.eqb bind st]; rewrite ?set_bal_same.
  all: destruct (unlocked s <? 0) eqn:E1; [zb; lia|].
  all: unfold x_repay_debts_or_abort, s_repay_debts; cbn [st]; rewrite E1.
  all: destruct (unlocked s <? fee_debt s) eqn:E2; [|zb; lia]; reflexivity.
Qed.

Lemma debt_blocks_code_withdraw s req q payee : 0 <= req -> 0 <= locked s -> 0 <= unlocked s ->
  unlocked s < fee_debt s ->
  step s (Withdraw true false req q payee 0 []) = (s, fail INSUFFICIENT_FUNDS).
Proof.
  intros Hr Hl H0 H1. unfold step. cbn [handle]. unfold h_withdraw. cbn.
  destruct (req <? 0) eqn:E0; [zb; lia|]. unfold s_unlock_vested. cbn.
  destruct (locked s =? 0) eqn:El; cbn.
  - destruct (unlocked s <? 0) eqn:E1; [zb; lia|].
    unfold x_repay_debts_or_abort, s_repay_debts. cbn. rewrite E1.
    destruct (unlocked s <? fee_debt s) eqn:E2; [|zb; lia]. reflexivity.
  - destruct (locked s - 0 <? 0) eqn:E3; [zb; lia|]. cbn.
    assert (Hu : unlocked (set_locked s (locked s - 0)) = unlocked s) by (unfold unlocked; cbn; lia).
    rewrite Hu. destruct (unlocked s <? 0) eqn:E1; [zb; lia|].
    unfold x_repay_debts_or_abort, s_repay_debts. cbn. rewrite Hu, E1.
    destruct (unlocked s <? fee_debt s) eqn:E2; [|zb; lia]. reflexivity.
Qed.

(* a gated handler that succeeds has burnt the whole debt *)
Theorem gated_success_clears_debt s o name s' out : 0 <= fee_debt s ->
  gated_name o = Some name -> step s o = (s', out) -> code out = 0 ->
  fee_debt s' = 0 /\ burnt out = fee_debt s /\ charged out = 0.
Proof.
  intros Hfd Hn Hs Hc. unfold step in Hs. destruct (handle s o) as [x|c] eqn:Hh; injection Hs as <- <-.
  2:{ cbn in Hc. apply handle_err in Hh. contradiction. }
  destruct o; cbn [gated_name] in Hn; try discriminate; cbn [handle] in Hh.
  - apply withdraw_good in Hh; [|cbn; lia]. cbn in *. destruct Hh as (_ & _ & ? & _ & ? & ? & _). lia.
  - apply precommit_good in Hh; [|cbn; lia]. cbn in *. destruct Hh as (_ & _ & ? & _ & _ & ? & ?). lia.
  - apply declare_recovered_good in Hh; [|cbn; lia]. cbn in *. destruct Hh as (_ & _ & ? & _ & _ & ? & ?). lia.
  - apply prove_commit_ni_good in Hh; [|cbn; lia]. cbn in *. destruct Hh as (_ & _ & ? & _ & _ & ? & ?). lia.
Qed.

(* ============================================================================================ *)
(* histories                                                                                      *)
(* ============================================================================================ *)
Fixpoint outs (s : state) (ops : list op) : list outcome :=
  match ops with
  | [] => []
  | o :: r => let '(s', out) := step s o in out :: outs s' r
  end.
Definition sumf (f : outcome -> Z) (l : list outcome) : Z := fold_right (fun o a => f o + a) 0 l.

Lemma run_cons s o r : run s (o :: r) = run (fst (step s o)) r.
Proof. reflexivity. Qed.

Theorem history_accounting ops : forall s, 0 <= fee_debt s ->
  fee_debt (run s ops) + sumf burnt (outs s ops) + sumf reporter_paid (outs s ops)
    = fee_debt s + sumf charged (outs s ops) /\
  0 <= fee_debt (run s ops) /\ 0 <= sumf burnt (outs s ops) /\ 0 <= sumf reporter_paid (outs s ops) /\
  0 <= sumf charged (outs s ops).
Proof.
  induction ops as [|o r IH]; intros s Hfd.
  - cbn. lia.
  - rewrite run_cons. cbn [outs]. destruct (step s o) as [s' out] eqn:E. cbn [fst sumf fold_right].
    pose proof (step_facts_hold s o s' out Hfd E) as [].
    specialize (IH s' sf_fd0). fold (sumf burnt (outs s' r)) (sumf reporter_paid (outs s' r))
      (sumf charged (outs s' r)). lia.
Qed.

(* ============================================================================================ *)
(* the statements pinned in Props/C15.v                                                           *)
(* ============================================================================================ *)
Local Open Scope string_scope.

Lemma gated_pinned :
  gated_handlers = ["pre_commit_sector_batch_inner"; "prove_commit_sectors_ni";
                    "declare_faults_recovered"; "withdraw_balance"] /\
  incl ["withdraw_balance"; "pre_commit_sector_batch_inner"; "declare_faults_recovered"] gated_handlers /\
  (forall name, In name gated_handlers -> exists o, gated_name o = Some name) /\
  (forall o name, gated_name o = Some name -> In name gated_handlers) /\
  callers_repay_debts_or_abort =
    [("pre_commit_sector_batch_inner", 1%Z); ("prove_commit_sectors_ni", 1%Z);
     ("declare_faults_recovered", 1%Z); ("withdraw_balance", 1%Z)].
Proof.
  split; [reflexivity|]. split.
  { intros n Hn. cbn in Hn. cbn. intuition. }
  split.
  { intros n Hn. cbn in Hn.
    destruct Hn as [<-|[<-|[<-|[<-|[]]]]].
    - exists (PreCommit 0 0 0 0 0 false false []). reflexivity.
    - exists (ProveCommitNI 0 0 0 false []). reflexivity.
    - exists (DeclareRecovered 0 0 0 0 []). reflexivity.
    - exists (Withdraw true false 0 None 0 0 []). reflexivity. }
  split; [|reflexivity].
  intros o n Hn. destruct o; cbn in Hn; try discriminate; injection Hn as <-; cbn; auto 6.
Qed.

Lemma penalty_sites_pinned :
  callers_apply_penalty =
    [("dispute_windowed_post", 1%Z); ("apply_rewards", 1%Z); ("report_consensus_fault", 1%Z);
     ("process_early_terminations", 1%Z); ("handle_proving_deadline", 3%Z)] /\
  (forall name, In name (map fst callers_apply_penalty) -> exists o, In name (penalised_name o)) /\
  map fst callers_repay_partial_debt_in_priority_order =
    ["dispute_windowed_post"; "apply_rewards"; "report_consensus_fault"; "repay_debt";
     "process_early_terminations"; "handle_proving_deadline"] /\
  map fst callers_process_early_terminations =
    ["terminate_sectors"; "on_deferred_cron_event"; "handle_proving_deadline"].
Proof.
  split; [reflexivity|]. split; [|split; reflexivity].
  intros n Hn. cbn in Hn. destruct Hn as [<-|[<-|[<-|[<-|[<-|[]]]]]].
  - exists (Dispute 0 0 0 0 0 false []). cbn; auto.
  - exists (ApplyRewards 0 0 0 0 0 []). cbn; auto.
  - exists (ReportFault 0 0 None 0 0 []). cbn; auto.
  - exists (Terminate 0 false false {| et_sectors := []; et_v := 0; et_deals := false; et_more := false |} []). cbn; auto.
  - exists (Cron 0 CronUnknown false []). cbn; auto.
Qed.
Local Close Scope string_scope.

Lemma penalty_consts_pinned :
  TERM_FEE_PLEDGE_MULTIPLE_NUM = 85 /\ TERM_FEE_PLEDGE_MULTIPLE_DENOM = 1000 /\
  TERM_FEE_MIN_PLEDGE_MULTIPLE_NUM = 2 /\ TERM_FEE_MIN_PLEDGE_MULTIPLE_DENOM = 100 /\
  TERM_FEE_MAX_FAULT_FEE_MULTIPLE_NUM = 105 /\ TERM_FEE_MAX_FAULT_FEE_MULTIPLE_DENOM = 100 /\
  TERMINATION_LIFETIME_CAP = 140 /\ EPOCHS_IN_DAY = 2880 /\
  CONTINUED_FAULT_PROJECTION_PERIOD = (EPOCHS_IN_DAY * 351) / 100 /\
  INVALID_WINDOW_POST_PROJECTION_PERIOD = CONTINUED_FAULT_PROJECTION_PERIOD + 2 * EPOCHS_IN_DAY /\
  CONSENSUS_FAULT_FACTOR = 5 /\ EXPECTED_LEADERS_PER_EPOCH = 5 /\ CONSENSUS_FAULT_REPORTER_DEFAULT_SHARE = 4 /\
  BASE_REWARD_FOR_DISPUTED_WINDOW_POST = 4 * 10 ^ 18 /\ BASE_PENALTY_FOR_DISPUTED_WINDOW_POST = 20 * 10 ^ 18 /\
  DAILY_FEE_BLOCK_REWARD_CAP_DENOM = 2 /\ CONSENSUS_FAULT_INELIGIBILITY_DURATION = 900 /\
  LOCKED_REWARD_FACTOR_NUM = 3 /\ LOCKED_REWARD_FACTOR_DENOM = 4 /\ BURNT_FUNDS_ACTOR_ID = 99.
Proof. repeat split. Qed.

Lemma c15_termination_fee_bounds ip age ff : 0 <= ip -> 0 <= ff ->
  let fee := pledge_penalty_for_termination ip age ff in
  (ip * 2) / 100 <= fee /\ (ff * 105) / 100 <= fee /\
  fee <= Z.max ((ip * 85) / 1000) ((ff * 105) / 100) /\ 0 <= fee /\
  (140 * 2880 <= age -> fee = Z.max ((ip * 85) / 1000) ((ff * 105) / 100)) /\
  (age <= 0 -> fee = Z.max ((ip * 2) / 100) ((ff * 105) / 100)).
Proof.
  intros Hip Hff. pose proof (termination_fee_bounds ip age ff Hip Hff) as H. cbv zeta in *.
  destruct H as (H1 & H2 & H3 & H4).
  split; [exact H1|]. split; [exact H2|]. split; [exact H3|]. split; [exact H4|]. split.
  - intros Ha. exact (termination_fee_full_age ip age ff Hip Ha).
  - intros Ha. exact (termination_fee_young ip age ff Hip Hff Ha).
Qed.

Lemma c15_continued_fault_charged s caller dep ff dfee rday ip_rel v pwr chain sys rps s' out :
  0 <= fee_debt s ->
  step s (Cron caller (CronDeadline dep ff dfee rday ip_rel v pwr chain) sys rps) = (s', out) ->
  code out = 0 ->
  charged out = dep + pledge_penalty_for_continued_fault ff +
                (if 0 <? dfee then daily_proof_fee_payable dfee rday else 0) +
                match chain with Some et => et_fee et | None => 0 end /\
  pledge_penalty_for_continued_fault ff = ff /\ 0 <= ff /\ 0 <= dep /\ ff <= charged out /\
  fee_debt s' + burnt out = fee_debt s + charged out /\ 0 <= burnt out /\
  reporter_paid out = 0 /\ paid_out out = 0.
Proof.
  intros Hfd Hs Hc. pose proof (step_facts_hold _ _ _ _ Hfd Hs) as F.
  unfold step in Hs. destruct (handle _ _) as [x|c] eqn:Hh; injection Hs as <- <-.
  2:{ cbn in Hc. apply handle_err in Hh. contradiction. }
  cbn [handle] in Hh. unfold h_cron in Hh.
  destruct (negb (caller =? STORAGE_POWER_ACTOR_ID)); [discriminate|].
  destruct (h_deadline _ _ _ _ _ _ _ _ _ _) as [y|] eqn:E; cbn [bind] in Hh; [|discriminate].
  apply finish_spec in Hh. destruct Hh as [-> _].
  apply deadline_good in E; [|cbn; lia].
  destruct E as (G & _ & C & Hd & Hf & Hdf & P & O & Hch). apply good_ex0 in G. cbn in *.
  unfold deadline_charge in C.
  assert (0 <= (if 0 <? dfee then daily_proof_fee_payable dfee rday else 0)).
  { destruct (0 <? dfee) eqn:E; [zb; auto|lia]. }
  unfold pledge_penalty_for_continued_fault in *. repeat split; try lia.
Qed.

Lemma c15_penalty_accounting s o s' out : 0 <= fee_debt s -> step s o = (s', out) ->
  fee_debt s' + burnt out + reporter_paid out = fee_debt s + charged out /\
  0 <= fee_debt s' /\ 0 <= charged out /\ 0 <= burnt out /\ 0 <= reporter_paid out /\
  Forall (send_ok (recipient o)) (sends out) /\
  ((forall a b c d e f g, o <> Withdraw a b c d e f g) -> paid_out out = 0) /\
  (code out = 0 -> charged out = expected_charge o) /\
  (code out <> 0 -> s' = s /\ out = fail (code out)).
Proof.
  intros Hfd Hs. destruct (step_facts_hold s o s' out Hfd Hs).
  repeat (split; [assumption|]). assumption.
Qed.

Lemma c15_reporter_reward_le_taken s o s' out : 0 <= fee_debt s -> step s o = (s', out) ->
  reporter_paid out <= fee_debt s + charged out - fee_debt s' /\
  (code out = 0 -> reporter_paid out <= reward_cap o) /\
  (reporter_paid out <> 0 -> (exists a b c d e f, o = ReportFault a b c d e f) \/
                             (exists a b c d e f g, o = Dispute a b c d e f g)).
Proof.
  intros Hfd Hs. pose proof (step_facts_hold _ _ _ _ Hfd Hs) as F. destruct F.
  split; [lia|]. split; [intros Hc; apply sf_cap0; assumption|].
  intros Hp. destruct (Z.eq_dec (code out) 0) as [Hc|Hc].
  - pose proof (sf_cap0 Hc) as Hcap.
    destruct o; cbn [reward_cap] in Hcap; try lia.
    + left. do 6 eexists. reflexivity.
    + right. do 7 eexists. reflexivity.
  - destruct (sf_rejected0 Hc) as [_ E]. rewrite E in Hp. cbn in Hp. lia.
Qed.

Lemma c15_penalties_nonneg s o s' out : 0 <= fee_debt s -> step s o = (s', out) ->
  0 <= charged out /\ (code out = 0 -> 0 <= expected_charge o) /\
  fee_debt s <= fee_debt s' + burnt out + reporter_paid out.
Proof.
  intros Hfd Hs. destruct (step_facts_hold _ _ _ _ Hfd Hs).
  split; [assumption|]. split; [intros Hc; rewrite <- (sf_charge0 Hc); assumption|lia].
Qed.

Lemma c15_debt_blocks s o name : gated_name o = Some name -> In name gated_handlers ->
  gate_unlocked s o < fee_debt s -> exists c, c <> 0 /\ step s o = (s, fail c).
Proof. intros Hn _ Hb. eapply debt_blocks; eassumption. Qed.

Lemma c15_debt_blocks_code s : 0 <= locked s -> 0 <= unlocked s -> unlocked s < fee_debt s ->
  (forall e c1 c2 rps, step s (DeclareRecovered e 0 c1 c2 rps) = (s, fail INSUFFICIENT_FUNDS)) /\
  (forall e c1 c2 dep deals nc, step s (PreCommit e 0 c1 c2 dep deals nc []) = (s, fail INSUFFICIENT_FUNDS)) /\
  (forall req q payee, 0 <= req -> step s (Withdraw true false req q payee 0 []) = (s, fail INSUFFICIENT_FUNDS)).
Proof.
  intros Hl H0 H1. split; [|split].
  - intros. apply debt_blocks_code_declare; assumption.
  - intros. apply debt_blocks_code_precommit; assumption.
  - intros. apply debt_blocks_code_withdraw; assumption.
Qed.
