(* Queue operations, part 6: remove_sectors (termination). *)
From Coq Require Import ZArith List Bool Lia.
From stdpp Require Import gmap.
From VF Require Import Base.SetSum Model.Partition Model.PartitionInv Proofs.Partition_base
  Proofs.Partition_entry Proofs.Partition_moves Proofs.Partition_lists Proofs.Partition_queue1
  Proofs.Partition_queue2 Proofs.Partition_queue3.
Import ListNotations.
Open Scope Z_scope.

Lemma expset_eq (a b : expset) :
  on_time a = on_time b -> early a = early b -> on_time_pledge a = on_time_pledge b ->
  active_power a = active_power b -> faulty_power a = faulty_power b ->
  fee_deduction a = fee_deduction b -> a = b.
Proof. destruct a, b; cbn; intros; subst; reflexivity. Qed.

Lemma spow_sing tbl n s : tbl !! n = Some s -> spow tbl {[n]} = s_pow s.
Proof. intros H. unfold spow, s_pow, tget. rewrite !ssum_singleton, H. reflexivity. Qed.
Lemma spledge_sing tbl n s : tbl !! n = Some s -> spledge tbl {[n]} = s_pledge s.
Proof. intros H. unfold spledge, tget. rewrite ssum_singleton, H. reflexivity. Qed.
Lemma sfee_sing tbl n s : tbl !! n = Some s -> sfee tbl {[n]} = s_fee s.
Proof. intros H. unfold sfee, tget. rewrite ssum_singleton, H. reflexivity. Qed.

Section RemoveFaultyInner.
  Context (tbl : gmap N sector) (ot0 ea0 Rc : gset N).
  Hypothesis Hd0 : ot0 ## ea0.

  Definition rf_es (es : expset) (Tot Tea : gset N) : expset :=
    {| on_time := on_time es ∖ Tot; early := early es ∖ Tea;
       on_time_pledge := on_time_pledge es - spledge tbl Tot;
       active_power := active_power es;
       faulty_power := pp_sub (faulty_power es) (spow tbl (Tot ∪ Tea));
       fee_deduction := fee_deduction es - sfee tbl (Tot ∪ Tea) |}.
  Definition rf_rm (rm : expset) (Tot Tea : gset N) : expset :=
    {| on_time := on_time rm ∪ Tot; early := early rm ∪ Tea;
       on_time_pledge := on_time_pledge rm + spledge tbl Tot;
       active_power := active_power rm;
       faulty_power := pp_add (faulty_power rm) (spow tbl (Tot ∪ Tea));
       fee_deduction := fee_deduction rm + sfee tbl (Tot ∪ Tea) |}.

  Lemma remove_faulty_fold l :
    from_tbl tbl l -> NoDup (map s_num l) ->
    forall es rm rp rem,
    fold_left (remove_faulty_one ot0 ea0 Rc) l (es, rm, rp, rem) =
    (rf_es es (ot0 ∩ nums_of l) (ea0 ∩ nums_of l),
     rf_rm rm (ot0 ∩ nums_of l) (ea0 ∩ nums_of l),
     pp_add rp (spow tbl (((ot0 ∪ ea0) ∩ nums_of l) ∩ Rc)),
     rem ∖ ((ot0 ∪ ea0) ∩ nums_of l)).
  Proof.
    induction l as [|s l IH]; intros Hft Hnd es rm rp rem.
    - cbn [fold_left]. rewrite nums_of_nil.
      assert (E1 : ot0 ∩ ∅ = (∅ : gset N)) by (apply seteq_L; set_solver).
      assert (E2 : ea0 ∩ ∅ = (∅ : gset N)) by (apply seteq_L; set_solver).
      assert (E3 : (ot0 ∪ ea0) ∩ ∅ ∩ Rc = (∅ : gset N)) by (apply seteq_L; set_solver).
      assert (E4 : (ot0 ∪ ea0) ∩ ∅ = (∅ : gset N)) by (apply seteq_L; set_solver).
      assert (E5 : (∅ : gset N) ∪ ∅ = ∅) by (apply seteq_L; set_solver).
      rewrite E1, E2, E3, E4. unfold rf_es, rf_rm. rewrite E5, spow_empty, spledge_empty, sfee_empty.
      f_equal; [f_equal; [f_equal|]|].
      + apply expset_eq; cbn; try reflexivity; try lia; try (apply seteq_L; set_solver).
        apply pp_eq; cbn; lia.
      + apply expset_eq; cbn; try reflexivity; try lia; try (apply seteq_L; set_solver).
        apply pp_eq; cbn; lia.
      + apply pp_eq; cbn; lia.
      + apply seteq_L. set_solver.
    - cbn [map] in Hnd. apply NoDup_cons in Hnd as [Hnotin Hnd].
      assert (Hft' : from_tbl tbl l) by (intros x Hx; apply Hft; right; exact Hx).
      assert (Hs : tbl !! s_num s = Some s) by (apply Hft; left).
      assert (Hn : s_num s ∉ nums_of l).
      { intros H. apply Hnotin. unfold nums_of in H. apply elem_of_list_to_set in H. exact H. }
      cbn [fold_left]. rewrite nums_of_cons. set (n := s_num s) in *. set (NL := nums_of l) in *.
      unfold remove_faulty_one at 2. fold n.
      destruct (bool_decide (n ∈ ot0)) eqn:Eot.
      + apply bool_decide_eq_true in Eot.
        assert (Hnea : n ∉ ea0) by (clear -Eot Hd0; set_solver).
        rewrite IH by assumption. fold NL.
        assert (A1 : ot0 ∩ ({[n]} ∪ NL) ≡ {[n]} ∪ (ot0 ∩ NL)) by (clear -Eot; set_solver).
        assert (A2 : ea0 ∩ ({[n]} ∪ NL) = ea0 ∩ NL) by (apply seteq_L; clear -Hnea; set_solver).
        assert (A3 : ot0 ∩ ({[n]} ∪ NL) ∪ ea0 ∩ NL ≡ {[n]} ∪ (ot0 ∩ NL ∪ ea0 ∩ NL))
          by (clear -Eot; set_solver).
        assert (D1 : {[n]} ## ot0 ∩ NL) by (clear -Hn; set_solver).
        assert (D3 : {[n]} ## ot0 ∩ NL ∪ ea0 ∩ NL) by (clear -Hn; set_solver).
        rewrite A2.
        f_equal; [f_equal; [f_equal|]|].
        * apply expset_eq; cbn [rf_es on_time early on_time_pledge active_power faulty_power fee_deduction];
            try reflexivity.
          -- apply seteq_L. rewrite A1. clear. set_solver.
          -- rewrite (spledge_add_eq tbl _ _ _ A1 D1), (spledge_sing tbl n s Hs). lia.
          -- rewrite (spow_add_eq tbl _ _ _ A3 D3), (spow_sing tbl n s Hs). apply pp_eq; cbn; lia.
          -- rewrite (sfee_add_eq tbl _ _ _ A3 D3), (sfee_sing tbl n s Hs). lia.
        * apply expset_eq; cbn [rf_rm on_time early on_time_pledge active_power faulty_power fee_deduction];
            try reflexivity.
          -- apply seteq_L. rewrite A1. clear. set_solver.
          -- rewrite (spledge_add_eq tbl _ _ _ A1 D1), (spledge_sing tbl n s Hs). lia.
          -- rewrite (spow_add_eq tbl _ _ _ A3 D3), (spow_sing tbl n s Hs). apply pp_eq; cbn; lia.
          -- rewrite (sfee_add_eq tbl _ _ _ A3 D3), (sfee_sing tbl n s Hs). lia.
        * destruct (bool_decide (n ∈ Rc)) eqn:ERc.
          -- apply bool_decide_eq_true in ERc.
             rewrite (spow_add_eq tbl ((ot0 ∪ ea0) ∩ ({[n]} ∪ NL) ∩ Rc) {[n]} ((ot0 ∪ ea0) ∩ NL ∩ Rc)).
             ++ rewrite (spow_sing tbl n s Hs). apply pp_eq; cbn; lia.
             ++ clear -Eot ERc. set_solver.
             ++ clear -Hn. set_solver.
          -- apply bool_decide_eq_false in ERc. f_equal. apply spow_eq. clear -ERc. set_solver.
        * apply seteq_L. clear -Eot. set_solver.
      + apply bool_decide_eq_false in Eot.
        destruct (bool_decide (n ∈ ea0)) eqn:Eea.
        * apply bool_decide_eq_true in Eea.
          rewrite IH by assumption. fold NL.
          assert (A1 : ea0 ∩ ({[n]} ∪ NL) ≡ {[n]} ∪ (ea0 ∩ NL)) by (clear -Eea; set_solver).
          assert (A2 : ot0 ∩ ({[n]} ∪ NL) = ot0 ∩ NL) by (apply seteq_L; clear -Eot; set_solver).
          assert (A3 : ot0 ∩ NL ∪ ea0 ∩ ({[n]} ∪ NL) ≡ {[n]} ∪ (ot0 ∩ NL ∪ ea0 ∩ NL))
            by (clear -Eea; set_solver).
          assert (D3 : {[n]} ## ot0 ∩ NL ∪ ea0 ∩ NL) by (clear -Hn; set_solver).
          rewrite A2.
          f_equal; [f_equal; [f_equal|]|].
          -- apply expset_eq; cbn [rf_es on_time early on_time_pledge active_power faulty_power fee_deduction];
               try reflexivity.
             ++ apply seteq_L. rewrite A1. clear. set_solver.
             ++ rewrite (spow_add_eq tbl _ _ _ A3 D3), (spow_sing tbl n s Hs). apply pp_eq; cbn; lia.
             ++ rewrite (sfee_add_eq tbl _ _ _ A3 D3), (sfee_sing tbl n s Hs). lia.
          -- apply expset_eq; cbn [rf_rm on_time early on_time_pledge active_power faulty_power fee_deduction];
               try reflexivity.
             ++ apply seteq_L. rewrite A1. clear. set_solver.
             ++ rewrite (spow_add_eq tbl _ _ _ A3 D3), (spow_sing tbl n s Hs). apply pp_eq; cbn; lia.
             ++ rewrite (sfee_add_eq tbl _ _ _ A3 D3), (sfee_sing tbl n s Hs). lia.
          -- destruct (bool_decide (n ∈ Rc)) eqn:ERc.
             ++ apply bool_decide_eq_true in ERc.
                rewrite (spow_add_eq tbl ((ot0 ∪ ea0) ∩ ({[n]} ∪ NL) ∩ Rc) {[n]} ((ot0 ∪ ea0) ∩ NL ∩ Rc)).
                ** rewrite (spow_sing tbl n s Hs). apply pp_eq; cbn; lia.
                ** clear -Eea ERc. set_solver.
                ** clear -Hn. set_solver.
             ++ apply bool_decide_eq_false in ERc. f_equal. apply spow_eq. clear -ERc. set_solver.
          -- apply seteq_L. clear -Eea. set_solver.
        * apply bool_decide_eq_false in Eea.
          rewrite IH by assumption. fold NL.
          assert (A1 : ot0 ∩ ({[n]} ∪ NL) = ot0 ∩ NL) by (apply seteq_L; clear -Eot; set_solver).
          assert (A2 : ea0 ∩ ({[n]} ∪ NL) = ea0 ∩ NL) by (apply seteq_L; clear -Eea; set_solver).
          assert (A3 : (ot0 ∪ ea0) ∩ ({[n]} ∪ NL) = (ot0 ∪ ea0) ∩ NL)
            by (apply seteq_L; clear -Eot Eea; set_solver).
          rewrite A1, A2, A3. reflexivity.
  Qed.
End RemoveFaultyInner.

Lemma nums_of_filter_in (secs : list sector) (F : gset N) :
  nums_of (List.filter (fun s => bool_decide (s_num s ∈ F)) secs) = nums_of secs ∩ F.
Proof.
  apply seteq_L. intros n. rewrite elem_of_intersection, !elem_of_nums_of. split.
  - intros (s & Hs & <-). apply elem_of_lfilter in Hs as [Hs E]. apply bool_decide_eq_true in E. eauto.
  - intros [(s & Hs & <-) HF]. exists s. split; [|reflexivity]. apply elem_of_lfilter.
    split; [exact Hs|apply bool_decide_eq_true, HF].
Qed.
Lemma nums_of_filter_notin (secs : list sector) (F : gset N) :
  nums_of (List.filter (fun s => bool_decide (s_num s ∉ F)) secs) = nums_of secs ∖ F.
Proof.
  apply seteq_L. intros n. rewrite elem_of_difference, !elem_of_nums_of. split.
  - intros (s & Hs & <-). apply elem_of_lfilter in Hs as [Hs E]. apply bool_decide_eq_true in E. eauto.
  - intros [(s & Hs & <-) HF]. exists s. split; [|reflexivity]. apply elem_of_lfilter.
    split; [exact Hs|apply bool_decide_eq_true, HF].
Qed.

Section RemoveSectors.
  Context (qs : quant) (tbl : gmap N sector) (F Rc L : gset N) (secs : list sector).
  Hypothesis Hft : from_tbl tbl secs.
  Hypothesis Hnd : NoDup (map s_num secs).
  Hypothesis HRc : Rc ⊆ F.
  Context (X Xn Xf : gset N).
  Hypothesis EX : X = nums_of secs.
  Hypothesis EXn : Xn = X ∖ F.
  Hypothesis EXf : Xf = X ∩ F.
  Let faulty := List.filter (fun s => bool_decide (s_num s ∈ F)) secs.

  Definition rs_inv (acc : gmap Z expset * gset N * expset * pp) : Prop :=
    let '(qc, rem, removed, rp) := acc in
    QInv qs tbl F ((L ∖ Xn) ∖ (Xf ∖ rem)) qc /\ rem ⊆ Xf /\
    es_all removed ≡ Xn ∪ (Xf ∖ rem) /\ on_time removed ## early removed /\
    early removed ⊆ F /\
    on_time_pledge removed = spledge tbl (on_time removed) /\
    active_power removed = spow tbl Xn /\ faulty_power removed = spow tbl (Xf ∖ rem) /\
    fee_deduction removed = sfee tbl (Xn ∪ (Xf ∖ rem)) /\ rp = spow tbl ((Xf ∖ rem) ∩ Rc) /\
    Xf ∖ rem ⊆ L.

  Lemma rs_step acc k acc' go :
    rs_inv acc -> remove_faulty_step faulty Rc acc k = Ok (acc', go) -> rs_inv acc'.
  Proof.
    destruct acc as [[[qc rem] removed] rp].
    intros (IQ & Irem & Iall & Idisj & Iea & Ipl & Iact & Iflt & Ifee & Irp & IdL) Hstep.
    unfold remove_faulty_step in Hstep.
    destruct (qc !! k) as [es|] eqn:Ek.
    2:{ injection Hstep as <- <-.
        exact (conj IQ (conj Irem (conj Iall (conj Idisj (conj Iea (conj Ipl (conj Iact
               (conj Iflt (conj Ifee (conj Irp IdL)))))))))). }
    pose proof (qi_entry _ _ _ _ _ IQ _ _ Ek) as Hes.
    pose proof (ei_disj _ _ _ _ _ Hes) as Dte.
    pose proof (qinv_entry_sub _ _ _ _ _ _ _ IQ Ek) as Hsub. unfold es_all in Hsub.
    assert (Hftf : from_tbl tbl faulty) by (apply from_tbl_filter, Hft).
    assert (Hndf : NoDup (map s_num faulty)) by (apply NoDup_map_filter, Hnd).
    rewrite (remove_faulty_fold tbl (on_time es) (early es) Rc Dte faulty Hftf Hndf) in Hstep.
    assert (Enf : nums_of faulty = Xf).
    { unfold faulty. rewrite nums_of_filter_in, EXf, EX. reflexivity. }
    rewrite Enf in Hstep.
    remember (on_time es ∩ Xf) as Tot eqn:ETot.
    remember (early es ∩ Xf) as Tea eqn:ETea.
    assert (ET : (on_time es ∪ early es) ∩ Xf = Tot ∪ Tea)
      by (apply seteq_L; clear -ETot ETea; set_solver).
    rewrite ET in Hstep.
    destruct (es_validate _); cbn [negb] in Hstep; [|discriminate].
    injection Hstep as <- _.
    assert (HTot : Tot ⊆ on_time es) by (clear -ETot; set_solver).
    assert (HTea : Tea ⊆ early es) by (clear -ETea; set_solver).
    assert (HTXf : Tot ∪ Tea ⊆ Xf) by (clear -ETot ETea; set_solver).
    assert (HTd : (Tot ∪ Tea) ## Xn ∪ (Xf ∖ rem)) by (clear -HTot HTea Hsub; set_solver).
    assert (HTrem : Tot ∪ Tea ⊆ rem).
    { intros n Hn. destruct (decide (n ∈ rem)) as [|Hnr]; [assumption|]. exfalso.
      apply (HTd n Hn). apply elem_of_union. right. apply elem_of_difference.
      split; [apply HTXf, Hn|exact Hnr]. }
    assert (Hdone : Xf ∖ (rem ∖ (Tot ∪ Tea)) ≡ (Xf ∖ rem) ∪ (Tot ∪ Tea)).
    { intros n. destruct (decide (n ∈ Tot ∪ Tea)) as [Hn|Hn].
      - assert (n ∈ Xf) by (apply HTXf, Hn). clear -Hn H. set_solver.
      - clear -Hn. set_solver. }
    assert (HXfF : Xf ⊆ F) by (rewrite EXf; clear; set_solver).
    clear ETot ETea ET.
    unfold rs_inv. split; [|split; [|split; [|split; [|split; [|split; [|split; [|split; [|split; [|split]]]]]]]]].
    - pose proof (QInv_modify qs tbl F F ((L ∖ Xn) ∖ (Xf ∖ rem)) qc k (rf_es tbl es Tot Tea)
                    (Tot ∪ Tea) ∅ IQ) as HM.
      rewrite Ek in HM. cbn [default] in HM.
      replace ((L ∖ Xn) ∖ (Xf ∖ (rem ∖ (Tot ∪ Tea))))
        with (((L ∖ Xn) ∖ (Xf ∖ rem)) ∖ (Tot ∪ Tea) ∪ ∅).
      2:{ apply seteq_L. rewrite Hdone. clear. set_solver. }
      apply HM; clear HM.
      + unfold es_all. clear -HTot HTea. set_solver.
      + unfold es_all. cbn [rf_es on_time early]. clear -HTot HTea Dte. set_solver.
      + clear. set_solver.
      + tauto.
      + eapply (esp_remove_faulty qs tbl F k es _ Tot Tea); try reflexivity.
        * apply esi_pre, Hes.
        * clear -HTot HTXf HXfF. set_solver.
        * exact HTea.
    - clear -Irem. set_solver.
    - unfold es_all in *. cbn [rf_rm on_time early]. rewrite Hdone.
      clear -Iall. set_solver.
    - cbn [rf_rm on_time early]. unfold es_all in Iall.
      clear -Idisj Iall HTd HTot HTea Dte. set_solver.
    - cbn [rf_rm early]. clear -Iea HTXf HXfF. set_solver.
    - cbn [rf_rm on_time on_time_pledge]. rewrite Ipl. symmetry.
      apply spledge_add_eq; [reflexivity|]. unfold es_all in Iall. clear -Iall HTd. set_solver.
    - exact Iact.
    - cbn [rf_rm faulty_power]. rewrite Iflt. symmetry. apply spow_add_eq; [exact Hdone|].
      clear -HTd. set_solver.
    - cbn [rf_rm fee_deduction]. rewrite Ifee. symmetry. apply sfee_add_eq.
      + rewrite Hdone. clear. set_solver.
      + clear -HTd. set_solver.
    - rewrite Irp. symmetry. apply spow_add_eq.
      + rewrite Hdone. clear. set_solver.
      + clear -HTd. set_solver.
    - rewrite Hdone. clear -IdL HTot HTea Hsub. set_solver.
  Qed.

  Lemma remove_sectors_inv (q q' : gmap Z expset) removed rp :
    QInv qs tbl F L q ->
    remove_sectors qs q secs F Rc = Ok (q', removed, rp) ->
    QInv qs tbl F (L ∖ X) q' /\ X ⊆ L /\
    es_all removed = X /\ on_time removed ## early removed /\ early removed ⊆ F /\
    on_time_pledge removed = spledge tbl (on_time removed) /\
    active_power removed = spow tbl (X ∖ F) /\ faulty_power removed = spow tbl (X ∩ F) /\
    fee_deduction removed = sfee tbl X /\ rp = spow tbl (X ∩ Rc).
  Proof.
    intros HQ. unfold remove_sectors. fold faulty.
    set (non_faulty := List.filter (fun s => bool_decide (s_num s ∉ F)) secs).
    assert (Hftn : from_tbl tbl non_faulty) by (apply from_tbl_filter, Hft).
    assert (Hndn : NoDup (map s_num non_faulty)) by (apply NoDup_map_filter, Hnd).
    assert (Enn : nums_of non_faulty = Xn).
    { unfold non_faulty. rewrite nums_of_filter_notin, EXn, EX. reflexivity. }
    assert (Enf : nums_of faulty = Xf).
    { unfold faulty. rewrite nums_of_filter_in, EXf, EX. reflexivity. }
    assert (HnF : nums_of non_faulty ## F) by (rewrite Enn, EXn; clear; set_solver).
    destruct (remove_active_sectors qs q non_faulty) as [[[[[q1 rm_ns] rm_pw] rm_pl] rm_fe]|] eqn:Er;
      cbn [rbind]; [|discriminate].
    destruct (remove_active_sectors_inv qs tbl F non_faulty Hftn Hndn HnF q q1 L rm_ns rm_pw rm_pl rm_fe HQ Er)
      as (HQ1 & -> & -> & -> & -> & HnL & _).
    rewrite Enn in *.
    match goal with |- context [iterM _ _ ?a] => set (acc0 := a) end.
    destruct (iterM (remove_faulty_step faulty Rc) (qkeys q1) acc0)
      as [[[[q2 rem] removed'] rp']|] eqn:Eit; cbn [rbind]; [|discriminate].
    assert (Hfin : rs_inv (q2, rem, removed', rp')).
    { apply (fun hs he hp => iterM_ind (remove_faulty_step faulty Rc) (fun _ acc => rs_inv acc) rs_inv
               hs he (qkeys q1) acc0 _ hp Eit).
      - intros acc k rest acc' go HI Hs. pose proof (rs_step _ _ _ _ HI Hs). destruct go; assumption.
      - auto.
      - subst acc0. unfold rs_inv. rewrite Enf.
        replace (Xf ∖ Xf) with (∅ : gset N) by (apply seteq_L; clear; set_solver).
        split.
        { replace ((L ∖ Xn) ∖ ∅) with (L ∖ Xn) by (apply seteq_L; clear; set_solver). exact HQ1. }
        split; [reflexivity|]. unfold es_all; cbn [on_time early on_time_pledge active_power faulty_power fee_deduction].
        split; [clear; set_solver|]. split; [clear; set_solver|]. split; [clear; set_solver|].
        split; [reflexivity|]. split; [reflexivity|].
        split; [symmetry; apply spow_empty|].
        split; [apply sfee_eq; clear; set_solver|].
        split; [|clear; set_solver].
        rewrite <- (spow_empty tbl). apply spow_eq. clear. set_solver. }
    destruct Hfin as (IQ & Irem & Iall & Idisj & Iea & Ipl & Iact & Iflt & Ifee & Irp & IdL).
    destruct (set_empty rem) eqn:Ee; cbn [negb]; [|discriminate].
    apply set_empty_true in Ee. subst rem. intros [= <- <- <-].
    assert (EXu : X ≡ Xn ∪ Xf).
    { rewrite EXn, EXf. intros n. destruct (decide (n ∈ F)); set_solver. }
    assert (E0 : Xf ∖ ∅ = Xf) by (apply seteq_L; clear; set_solver).
    rewrite E0 in *.
    assert (HXL : X ⊆ L) by (rewrite EXu; clear -HnL IdL; set_solver).
    split.
    { replace (L ∖ X) with ((L ∖ Xn) ∖ Xf); [exact IQ|]. apply seteq_L. rewrite EXu. clear. set_solver. }
    split; [exact HXL|]. split; [apply seteq_L; rewrite Iall, EXu; reflexivity|].
    split; [exact Idisj|]. split; [exact Iea|]. split; [exact Ipl|].
    split; [rewrite Iact, EXn; reflexivity|]. split; [rewrite Iflt, EXf; reflexivity|].
    split; [rewrite Ifee; apply sfee_eq; rewrite EXu; reflexivity|].
    rewrite Irp. apply spow_eq. rewrite EXf. clear -HRc. set_solver.
  Qed.
End RemoveSectors.
