(* C02 corollaries at partition level (clauses of the property statement). *)
From Coq Require Import ZArith List Bool Lia.
From stdpp Require Import gmap.
From VF Require Import Base.SetSum Model.Partition Model.PartitionInv Proofs.Partition_base
  Proofs.Partition_lists Proofs.Partition_ops1 Proofs.Partition_ops2 Proofs.Partition_lemmas.
Import ListNotations.
Open Scope Z_scope.

Lemma credited_init unit off : st_credited (init unit off) = pp0.
Proof.
  unfold st_credited, credited, init; cbn [st_tbl st_part].
  rewrite <- (spow_empty ∅). apply spow_eq. unfold active_sectors, live_sectors; cbn. set_solver.
Qed.

Theorem credited_is_sum_of_deltas_init unit off ops :
  0 < unit -> all_wf (init unit off) ops ->
  st_credited (run (init unit off) ops) = sum_deltas (init unit off) ops.
Proof.
  intros Hu Hwf. rewrite (credited_is_sum_of_deltas _ _ (partinv_init unit off Hu) Hwf).
  rewrite credited_init. apply pp_eq; cbn; lia.
Qed.

Theorem miner_claim_tracks_partition unit off ops :
  0 < unit -> all_wf (init unit off) ops ->
  let claim := sum_deltas (init unit off) ops in
  claim = spow (st_tbl (run (init unit off) ops))
               (active_sectors (st_part (run (init unit off) ops))).
Proof. intros Hu Hwf. cbn zeta. symmetry. apply (credited_is_sum_of_deltas_init unit off ops Hu Hwf). Qed.

Theorem unproven_contributes_nothing st secs :
  StInv st -> op_wf st (AddSectors false secs) ->
  step_delta st (AddSectors false secs) = pp0 /\
  st_credited (next st (AddSectors false secs)) = st_credited st.
Proof.
  intros HS Hwf.
  assert (E : step_delta st (AddSectors false secs) = pp0).
  { unfold step_delta. destruct (p_add_sectors _ _ _ _) as [[[? ?] ?]|]; reflexivity. }
  split; [exact E|]. rewrite (delta_is_difference st _ HS Hwf), E. apply pp_eq; cbn; lia.
Qed.

Theorem activation_credits_unproven_power st :
  StInv st ->
  step_delta st ActivateUnproven = spow (st_tbl st) (unproven (st_part st)) /\
  unproven (st_part (next st ActivateUnproven)) = ∅.
Proof.
  intros HS. unfold step_delta, next, step, p_activate_unproven; cbn. split; [|reflexivity].
  apply (pi_unproven_power _ _ _ HS).
Qed.

Theorem skipped_or_faulty_contributes_nothing st fe skipped n p' d nfp rrp hnf :
  StInv st ->
  (n ∈ faults (st_part st) -> n ∉ active_sectors (st_part st)) /\
  (n ∈ recoveries (st_part st) -> n ∉ active_sectors (st_part st)) /\
  (p_record_skipped_faults (st_q st) (st_tbl st) (st_part st) fe skipped = Ok (p', d, nfp, rrp, hnf) ->
   n ∈ skipped -> n ∉ active_sectors p').
Proof.
  intros HS. pose proof (pi_rec_faults _ _ _ HS) as RF. split; [|split].
  - unfold active_sectors. set_solver.
  - unfold active_sectors. set_solver.
  - intros E Hn.
    destruct (p_record_skipped_faults_inv _ _ _ fe skipped p' d nfp rrp hnf HS E)
      as (_ & S' & T' & F' & U' & _).
    unfold active_sectors, live_sectors. rewrite S', T', F'.
    destruct (decide (n ∈ terminated (st_part st))); destruct (decide (n ∈ faults (st_part st)));
      set_solver.
Qed.

Theorem missed_post_removes_power st fe p' d pen nfp :
  StInv st ->
  p_record_missed_post (st_q st) (st_part st) fe = Ok (p', d, pen, nfp) ->
  credited (st_tbl st) p' = pp0 /\ active_sectors p' = ∅ /\ d = pp_neg (st_credited st).
Proof.
  intros HS E.
  destruct (p_record_missed_post_inv _ (st_tbl st) _ fe p' d pen nfp HS E)
    as (_ & S' & T' & F' & U' & -> & -> & _).
  assert (Hact : active_sectors p' = ∅).
  { unfold active_sectors. unfold live_sectors at 1. rewrite S', T', F', U'.
    unfold live_sectors. apply seteq_L. set_solver. }
  split; [unfold credited; rewrite Hact; apply spow_empty|]. split; [exact Hact|].
  destruct (partinv_sub _ _ _ HS) as (SF & SU & SR).
  pose proof (pi_unproven_faults _ _ _ HS) as DUF.
  unfold st_credited, credited, active_sectors.
  rewrite (spow_add_eq (st_tbl st) (live_sectors (st_part st) ∖ faults (st_part st))
             ((live_sectors (st_part st) ∖ faults (st_part st)) ∖ unproven (st_part st))
             (unproven (st_part st))).
  - apply pp_eq; cbn; lia.
  - clear -SU DUF. intros n. destruct (decide (n ∈ unproven (st_part st))); set_solver.
  - clear. set_solver.
Qed.
