(* List-level facts: the sorting functions used to iterate bitfields and AMTs, keys of a queue,
   by_number / lookup_all / load_sectors, sums of sector lists versus sums over the table, and
   induction principles for foldM / iterM. *)
From Coq Require Import ZArith List Bool Lia.
From stdpp Require Import gmap.
From VF Require Import Base.SetSum Model.Partition Model.PartitionInv Proofs.Partition_base.
Import ListNotations.
Open Scope Z_scope.

(* ---------- sortN / sorted ---------- *)
Lemma insN_perm x l : insN x l ≡ₚ x :: l.
Proof.
  induction l as [|y l IH]; cbn; [reflexivity|].
  destruct (x <=? y)%N; [reflexivity|]. rewrite IH. apply perm_swap.
Qed.
Lemma sortN_perm l : sortN l ≡ₚ l.
Proof.
  induction l as [|x l IH]; cbn; [reflexivity|]. rewrite insN_perm. rewrite IH. reflexivity.
Qed.
Lemma sorted_perm (X : gset N) : sorted X ≡ₚ elements X.
Proof. apply sortN_perm. Qed.
Lemma elem_of_sorted (X : gset N) n : n ∈ sorted X <-> n ∈ X.
Proof. rewrite sorted_perm. apply elem_of_elements. Qed.
Lemma NoDup_sorted (X : gset N) : NoDup (sorted X).
Proof. rewrite sorted_perm. apply NoDup_elements. Qed.
Lemma ssum_sorted f (X : gset N) : lsum f (sorted X) = ssum f X.
Proof. apply lsum_perm, sorted_perm. Qed.

(* ---------- sortZ (sorted, duplicates removed) ---------- *)
Lemma elem_of_insZ x y l : y ∈ insZ x l <-> y = x \/ y ∈ l.
Proof.
  induction l as [|z l IH]; cbn.
  - rewrite elem_of_list_singleton, elem_of_nil. tauto.
  - destruct (x <? z) eqn:E1; [rewrite !elem_of_cons; tauto|].
    destruct (x =? z) eqn:E2.
    + apply Z.eqb_eq in E2. subst. rewrite !elem_of_cons. tauto.
    + rewrite !elem_of_cons, IH. tauto.
Qed.
Lemma elem_of_sortZ y l : y ∈ sortZ l <-> y ∈ l.
Proof.
  induction l as [|x l IH]; cbn; [reflexivity|].
  rewrite elem_of_insZ, IH, elem_of_cons. reflexivity.
Qed.
Definition lt_all (x : Z) (l : list Z) := Forall (fun y => x < y) l.
Inductive ssorted : list Z -> Prop :=
| ss_nil : ssorted []
| ss_cons x l : Forall (fun y => x < y) l -> ssorted l -> ssorted (x :: l).
Lemma insZ_ssorted x l : ssorted l -> ssorted (insZ x l).
Proof.
  induction 1 as [|z l Hz Hs IH]; cbn.
  - constructor; constructor.
  - destruct (x <? z) eqn:E1.
    + apply Z.ltb_lt in E1. constructor; [|constructor; assumption].
      constructor; [assumption|]. eapply Forall_impl; [exact Hz|]. cbn. intros. lia.
    + destruct (x =? z) eqn:E2; [constructor; assumption|].
      apply Z.ltb_ge in E1. apply Z.eqb_neq in E2. constructor; [|assumption].
      apply Forall_forall. intros y Hy. apply elem_of_insZ in Hy as [->|Hy]; [lia|].
      rewrite Forall_forall in Hz. apply Hz, Hy.
Qed.
Lemma sortZ_ssorted l : ssorted (sortZ l).
Proof. induction l; cbn; [constructor|apply insZ_ssorted; assumption]. Qed.
Lemma ssorted_NoDup l : ssorted l -> NoDup l.
Proof.
  induction 1 as [|x l Hx Hs IH]; constructor; [|assumption].
  intros Hin. rewrite Forall_forall in Hx. specialize (Hx _ Hin). lia.
Qed.
Lemma NoDup_sortZ l : NoDup (sortZ l).
Proof. apply ssorted_NoDup, sortZ_ssorted. Qed.

(* ---------- keys of a queue ---------- *)
Lemma elem_of_qkeys {A} (q : gmap Z A) k : k ∈ qkeys q <-> is_Some (q !! k).
Proof.
  unfold qkeys. rewrite elem_of_sortZ, elem_of_list_fmap. split.
  - intros ([k' a] & -> & Hin). apply elem_of_map_to_list in Hin. cbn. eauto.
  - intros [a Ha]. exists (k, a). split; [reflexivity|]. apply elem_of_map_to_list, Ha.
Qed.
Lemma NoDup_qkeys {A} (q : gmap Z A) : NoDup (qkeys q).
Proof. apply NoDup_sortZ. Qed.

Lemma zmem_true k l : zmem k l = true <-> k ∈ l.
Proof.
  unfold zmem. rewrite existsb_exists. split.
  - intros (x & Hin & E). apply Z.eqb_eq in E. subst. apply elem_of_list_In, Hin.
  - intros Hin. exists k. split; [apply elem_of_list_In, Hin|apply Z.eqb_refl].
Qed.

(* ---------- boolean set tests ---------- *)
Lemma set_empty_true (X : gset N) : set_empty X = true <-> X = ∅.
Proof. unfold set_empty. apply bool_decide_eq_true. Qed.
Lemma set_empty_false (X : gset N) : set_empty X = false <-> X <> ∅.
Proof. unfold set_empty. apply bool_decide_eq_false. Qed.
Lemma subset_true (X Y : gset N) : subset X Y = true <-> X ⊆ Y.
Proof. unfold subset. apply bool_decide_eq_true. Qed.
Lemma disjoint_b_true (X Y : gset N) : disjoint_b X Y = true <-> X ## Y.
Proof. unfold disjoint_b. apply bool_decide_eq_true. Qed.

(* ---------- sector lists taken from the table ---------- *)
Definition from_tbl (tbl : gmap N sector) (secs : list sector) : Prop :=
  forall s, s ∈ secs -> tbl !! s_num s = Some s.

Lemma elem_of_nums_of secs n : n ∈ nums_of secs <-> exists s, s ∈ secs /\ s_num s = n.
Proof.
  unfold nums_of. rewrite elem_of_list_to_set, elem_of_list_fmap.
  split; intros (s & H1 & H2); exists s; auto.
Qed.
Lemma nums_of_nil : nums_of [] = ∅.
Proof. reflexivity. Qed.
Lemma nums_of_cons s l : nums_of (s :: l) = {[s_num s]} ∪ nums_of l.
Proof. reflexivity. Qed.
Lemma nums_of_app l1 l2 : nums_of (l1 ++ l2) = nums_of l1 ∪ nums_of l2.
Proof.
  unfold nums_of. rewrite map_app. apply seteq_L. intros n.
  rewrite elem_of_union, !elem_of_list_to_set, elem_of_app. reflexivity.
Qed.

Lemma sum_pow_lsum (l : list sector) :
  sum_pow l = PP (lsum s_raw l) (lsum s_qa l).
Proof.
  induction l as [|s l IH]; [reflexivity|]. cbn [sum_pow fold_right] in *.
  fold (sum_pow l). rewrite IH. rewrite !lsum_cons. reflexivity.
Qed.
Lemma sum_pledge_lsum (l : list sector) : sum_pledge l = lsum s_pledge l.
Proof. reflexivity. Qed.
Lemma sum_fee_lsum (l : list sector) : sum_fee l = lsum s_fee l.
Proof. reflexivity. Qed.

Lemma lsum_from_tbl tbl (f : sector -> Z) (secs : list sector) :
  from_tbl tbl secs -> NoDup (map s_num secs) ->
  lsum f secs = ssum (tget tbl f) (nums_of secs).
Proof.
  intros Hf Hnd. unfold nums_of. rewrite ssum_list_to_set by exact Hnd.
  rewrite lsum_map. apply lsum_ext. intros s Hs. unfold tget. rewrite (Hf s Hs). reflexivity.
Qed.
Lemma sum_pow_from_tbl tbl secs :
  from_tbl tbl secs -> NoDup (map s_num secs) -> sum_pow secs = spow tbl (nums_of secs).
Proof.
  intros Hf Hnd. rewrite sum_pow_lsum. unfold spow.
  rewrite !(lsum_from_tbl tbl) by assumption. reflexivity.
Qed.
Lemma sum_pledge_from_tbl tbl secs :
  from_tbl tbl secs -> NoDup (map s_num secs) -> sum_pledge secs = spledge tbl (nums_of secs).
Proof. intros. apply lsum_from_tbl; assumption. Qed.
Lemma sum_fee_from_tbl tbl secs :
  from_tbl tbl secs -> NoDup (map s_num secs) -> sum_fee secs = sfee tbl (nums_of secs).
Proof. intros. apply lsum_from_tbl; assumption. Qed.

(* by_number: last write wins; for distinct numbers it is the obvious map *)
Lemma by_number_lookup_gen (secs : list sector) (m0 : gmap N sector) n :
  NoDup (map s_num secs) ->
  fold_left (fun m s => <[s_num s := s]> m) secs m0 !! n =
  match List.find (fun s => (s_num s =? n)%N) secs with Some s => Some s | None => m0 !! n end.
Proof.
  revert m0. induction secs as [|s l IH]; intros m0 Hnd; cbn [fold_left List.find]; [reflexivity|].
  cbn [map] in Hnd. apply NoDup_cons in Hnd as [Hnotin Hnd]. rewrite IH by exact Hnd.
  destruct (s_num s =? n)%N eqn:E.
  - apply N.eqb_eq in E. subst n.
    destruct (List.find _ l) as [s'|] eqn:Ef.
    + apply List.find_some in Ef as [Hin E']. apply N.eqb_eq in E'.
      exfalso. apply Hnotin. rewrite <- E'. apply elem_of_list_fmap. exists s'. split; [reflexivity|].
      apply elem_of_list_In, Hin.
    + apply lookup_insert.
  - apply N.eqb_neq in E. destruct (List.find _ l); [reflexivity|]. apply lookup_insert_ne, E.
Qed.
Lemma by_number_lookup secs n s :
  NoDup (map s_num secs) -> s ∈ secs -> s_num s = n -> by_number secs !! n = Some s.
Proof.
  intros Hnd Hin Hn. unfold by_number. rewrite by_number_lookup_gen by exact Hnd.
  destruct (List.find _ secs) as [s'|] eqn:Ef.
  - apply List.find_some in Ef as [Hin' E']. apply N.eqb_eq in E'.
    f_equal. apply elem_of_list_In in Hin'.
    (* same number => same sector, by NoDup *)
    clear -Hnd Hin Hin' Hn E'. induction secs as [|x l IH]; [inversion Hin|].
    cbn [map] in Hnd. apply NoDup_cons in Hnd as [Hnotin Hnd].
    apply elem_of_cons in Hin as [->|Hin]; apply elem_of_cons in Hin' as [->|Hin'].
    + reflexivity.
    + exfalso. apply Hnotin. rewrite Hn, <- E'. apply elem_of_list_fmap. eauto.
    + exfalso. apply Hnotin. rewrite E', <- Hn. apply elem_of_list_fmap. eauto.
    + apply IH; assumption.
  - exfalso. apply elem_of_list_In in Hin.
    apply (List.find_none _ _ Ef) in Hin. apply N.eqb_neq in Hin. contradiction.
Qed.

Lemma lookup_all_from_tbl tbl secs (X : gset N) (f : sector -> Z) :
  from_tbl tbl secs -> NoDup (map s_num secs) -> X ⊆ nums_of secs ->
  lsum f (lookup_all (by_number secs) (sorted X)) = ssum (tget tbl f) X.
Proof.
  intros Hf Hnd HX. rewrite <- ssum_sorted.
  assert (H : forall l : list N, (forall n, n ∈ l -> n ∈ X) ->
            lsum f (lookup_all (by_number secs) l) = lsum (tget tbl f) l).
  { induction l as [|n l IH]; intros Hl; [reflexivity|].
    unfold lookup_all. cbn [omap list_omap].
    assert (Hn : n ∈ nums_of secs) by (apply HX, Hl; left).
    apply elem_of_nums_of in Hn as (s & Hs & Hsn).
    rewrite (by_number_lookup secs n s Hnd Hs Hsn). cbn [mbind option_bind].
    fold (lookup_all (by_number secs) l). rewrite !lsum_cons, IH.
    - unfold tget. rewrite <- Hsn, (Hf s Hs). reflexivity.
    - intros n' Hn'. apply Hl. right. exact Hn'. }
  apply H. intros n Hn. apply elem_of_sorted, Hn.
Qed.
Lemma lookup_all_pow tbl secs (X : gset N) :
  from_tbl tbl secs -> NoDup (map s_num secs) -> X ⊆ nums_of secs ->
  sum_pow (lookup_all (by_number secs) (sorted X)) = spow tbl X.
Proof.
  intros Hf Hnd HX. rewrite sum_pow_lsum. unfold spow.
  rewrite !(lookup_all_from_tbl tbl secs X) by assumption. reflexivity.
Qed.
Lemma lookup_all_pledge tbl secs (X : gset N) :
  from_tbl tbl secs -> NoDup (map s_num secs) -> X ⊆ nums_of secs ->
  sum_pledge (lookup_all (by_number secs) (sorted X)) = spledge tbl X.
Proof. intros. apply lookup_all_from_tbl; assumption. Qed.
Lemma lookup_all_fee tbl secs (X : gset N) :
  from_tbl tbl secs -> NoDup (map s_num secs) -> X ⊆ nums_of secs ->
  sum_fee (lookup_all (by_number secs) (sorted X)) = sfee tbl X.
Proof. intros. apply lookup_all_from_tbl; assumption. Qed.

(* the looked-up sectors themselves: distinct numbers, from the table, numbers = X *)
Lemma lookup_all_spec tbl secs (X : gset N) :
  from_tbl tbl secs -> NoDup (map s_num secs) -> X ⊆ nums_of secs ->
  let l := lookup_all (by_number secs) (sorted X) in
  from_tbl tbl l /\ map s_num l = sorted X /\ nums_of l = X.
Proof.
  intros Hf Hnd HX l.
  assert (H : forall ns : list N, (forall n, n ∈ ns -> n ∈ X) ->
            from_tbl tbl (lookup_all (by_number secs) ns) /\
            map s_num (lookup_all (by_number secs) ns) = ns).
  { induction ns as [|n ns IH]; intros Hl.
    - split; [intros s Hs; inversion Hs|reflexivity].
    - assert (Hn : n ∈ nums_of secs) by (apply HX, Hl; left).
      apply elem_of_nums_of in Hn as (s & Hs & Hsn).
      unfold lookup_all. cbn [omap list_omap].
      rewrite (by_number_lookup secs n s Hnd Hs Hsn). cbn [mbind option_bind].
      fold (lookup_all (by_number secs) ns).
      destruct IH as [IH1 IH2]; [intros n' Hn'; apply Hl; right; exact Hn'|].
      split.
      + intros s' Hs'. apply elem_of_cons in Hs' as [->|Hs']; [apply Hf, Hs|apply IH1, Hs'].
      + cbn [map]. rewrite IH2, Hsn. reflexivity. }
  destruct (H (sorted X)) as [H1 H2]; [intros n Hn; apply elem_of_sorted, Hn|].
  split; [exact H1|]. split; [exact H2|].
  subst l. unfold nums_of. rewrite H2. apply seteq_L. intros n.
  rewrite elem_of_list_to_set. apply elem_of_sorted.
Qed.

(* load_sectors over a keyed table *)
Lemma load_sectors_spec tbl (X : gset N) l :
  tbl_keyed tbl -> load_sectors tbl X = Ok l ->
  from_tbl tbl l /\ map s_num l = sorted X /\ nums_of l = X /\ NoDup (map s_num l).
Proof.
  intros Hk. unfold load_sectors.
  assert (H : forall (ns : list N) l,
            fold_right (fun n (acc : res (list sector)) =>
               rbind acc (fun l => match tbl !! n with Some s => Ok (s :: l) | None => Err E_NOTFOUND end))
               (Ok []) ns = Ok l ->
            from_tbl tbl l /\ map s_num l = ns).
  { induction ns as [|n ns IH]; intros l0; cbn [fold_right].
    - intros [= <-]. split; [intros s Hs; inversion Hs|reflexivity].
    - destruct (fold_right _ _ ns) as [l1|] eqn:E; cbn [rbind]; [|discriminate].
      destruct (tbl !! n) as [s|] eqn:Es; [|discriminate]. intros [= <-].
      destruct (IH l1 eq_refl) as [IH1 IH2]. pose proof (Hk _ _ Es) as Hsn. split.
      + intros s' Hs'. apply elem_of_cons in Hs' as [->|Hs']; [rewrite Hsn; exact Es|apply IH1, Hs'].
      + cbn [map]. rewrite IH2, Hsn. reflexivity. }
  intros Hl. destruct (H _ _ Hl) as [H1 H2]. split; [exact H1|]. split; [exact H2|]. split.
  - unfold nums_of. rewrite H2. apply seteq_L. intros n.
    rewrite elem_of_list_to_set. apply elem_of_sorted.
  - rewrite H2. apply NoDup_sorted.
Qed.

(* ---------- induction principles for the monadic folds ---------- *)
Lemma foldM_ind {A B} (f : A -> B -> res A) (P : list B -> A -> Prop) :
  (forall a x rest a', P (x :: rest) a -> f a x = Ok a' -> P rest a') ->
  forall l a a', P l a -> foldM f l a = Ok a' -> P [] a'.
Proof.
  intros Hstep. induction l as [|x l IH]; intros a a' HP; cbn [foldM].
  - intros [= <-]. exact HP.
  - destruct (f a x) as [a1|] eqn:E; [|discriminate]. intros H. eapply IH; [|exact H].
    eapply Hstep; eauto.
Qed.

Lemma iterM_ind {A B} (f : A -> B -> res (A * bool)) (P : list B -> A -> Prop) (Q : A -> Prop) :
  (forall a x rest a' go, P (x :: rest) a -> f a x = Ok (a', go) ->
     if go then P rest a' else Q a') ->
  (forall a, P [] a -> Q a) ->
  forall l a a', P l a -> iterM f l a = Ok a' -> Q a'.
Proof.
  intros Hstep Hend. induction l as [|x l IH]; intros a a' HP; cbn [iterM].
  - intros [= <-]. apply Hend, HP.
  - destruct (f a x) as [[a1 go]|] eqn:E; [|discriminate].
    pose proof (Hstep _ _ _ _ _ HP E) as H1. destruct go.
    + intros H. eapply IH; eauto.
    + intros [= <-]. exact H1.
Qed.
