(* C04 / C02 at partition level: PartInv holds initially, is preserved by every operation
   (partinv_step) and hence on every reachable state (partinv_reachable); the code's own
   validate_state can never fail on such states; the credited power (sum over proven, non-faulty,
   non-terminated sectors) equals active_power and moves by exactly the delta each operation
   reports. *)
From Coq Require Import ZArith List Bool Lia.
From stdpp Require Import gmap.
From VF Require Import Base.SetSum Model.Partition Model.PartitionInv Proofs.Partition_base
  Proofs.Partition_lists Proofs.Partition_queue1 Proofs.Partition_queue2
  Proofs.Partition_ops1 Proofs.Partition_ops2 Proofs.Partition_ops3.
Import ListNotations.
Open Scope Z_scope.

Lemma partinv_init unit off : 0 < unit -> StInv (init unit off).
Proof.
  intros Hu. unfold StInv, init; cbn. constructor; cbn; try set_solver.
  - intros n s. rewrite lookup_empty. discriminate.
  - intros n Hn. unfold live_sectors in Hn; cbn in Hn. set_solver.
  - unfold live_sectors; cbn. replace (∅ ∖ ∅) with (∅ : gset N) by (apply seteq_L; set_solver).
    apply QInv_empty.
  - apply ETInv_empty.
Qed.

(* ---------- credited power ---------- *)
Lemma active_sub_live p : active_sectors p ⊆ live_sectors p.
Proof. unfold active_sectors. set_solver. Qed.

Theorem active_power_exact qs tbl p :
  PartInv qs tbl p -> p_active_power p = spow tbl (active_sectors p).
Proof.
  intros HP. destruct (partinv_sub _ _ _ HP) as (SF & SU & SR). destruct HP.
  unfold p_active_power, active_sectors.
  rewrite pi_live_power, pi_faulty_power, pi_unproven_power.
  rewrite <- (spow_diff_sub tbl _ _ SF). rewrite <- spow_diff_sub; [reflexivity|].
  clear -SU pi_unproven_faults. set_solver.
Qed.

(* ---------- validate_state is redundant ---------- *)
Theorem validate_state_redundant qs tbl p : PartInv qs tbl p -> validate_state p = true.
Proof.
  intros HP. destruct (partinv_sub _ _ _ HP) as (SF & SU & SR). destruct HP.
  assert (Hnn : forall X, X ⊆ live_sectors p -> pp_nonneg (spow tbl X) = true).
  { intros X HX. destruct (spow_nonneg tbl _ X pi_tbl HX) as [A B].
    unfold pp_nonneg. apply andb_true_intro. split; apply Z.leb_le; assumption. }
  assert (Hmono : forall X Y, Y ⊆ live_sectors p -> X ⊆ Y ->
            (raw (spow tbl X) <=? raw (spow tbl Y)) = true).
  { intros X Y HY HX. apply Z.leb_le. eapply spow_raw_mono; [exact pi_tbl|exact HY|exact HX]. }
  unfold validate_state, validate_power_state, validate_bf_state, subset, disjoint_b.
  rewrite pi_live_power, pi_unproven_power, pi_faulty_power, pi_recovering_power.
  rewrite (Hnn (live_sectors p)) by reflexivity.
  rewrite (Hnn (unproven p) SU), (Hnn (faults p) SF), (Hnn (recoveries p) SR).
  rewrite (Hmono (unproven p) (live_sectors p)) by (reflexivity || exact SU).
  rewrite (Hmono (faults p) (live_sectors p)) by (reflexivity || exact SF).
  rewrite (Hmono (recoveries p) (live_sectors p)) by (reflexivity || exact SR).
  rewrite (Hmono (recoveries p) (faults p) SF pi_rec_faults).
  cbn [andb].
  rewrite !bool_decide_eq_true_2; [reflexivity| | |].
  - exact pi_rec_faults.
  - clear -pi_faults_sectors pi_unproven_sectors pi_terminated_sectors. set_solver.
  - clear -pi_unproven_terminated pi_faults_terminated. set_solver.
Qed.

(* ---------- one step ---------- *)
Lemma credited_tbl_ext (tbl tbl' : gmap N sector) p :
  (forall n, n ∈ live_sectors p -> tbl' !! n = tbl !! n) -> credited tbl' p = credited tbl p.
Proof. intros E. unfold credited. apply spow_ext. intros n Hn. apply E, active_sub_live, Hn. Qed.

Ltac step_err st := unfold next, step, step_delta, st_credited; cbn [fst snd].

Lemma pp_add_0 a : pp_add a pp0 = a.
Proof. apply pp_eq; cbn; lia. Qed.

Theorem partinv_step_delta st o :
  StInv st -> op_wf st o ->
  StInv (next st o) /\ st_credited (next st o) = pp_add (st_credited st) (step_delta st o).
Proof.
  intros HS Hwf. unfold StInv in HS. destruct st as [qs tbl p]. cbn [st_q st_tbl st_part] in *.
  destruct (partinv_sub _ _ _ HS) as (SF & SU & SR).
  pose proof (pi_unproven_faults _ _ _ HS) as DUF.
  pose proof (pi_unproven_terminated _ _ _ HS) as DUT.
  pose proof (pi_faults_terminated _ _ _ HS) as DFT.
  unfold next, step, step_delta, st_credited, StInv; cbn [st_q st_tbl st_part fst snd with_part].
  destruct o as [proven secs|nums fe|nums| | |fe skipped|fe|epoch nums|until|old new|new_exp nums|mx].
  - (* AddSectors *)
    destruct Hwf as [Hnd Hok].
    destruct (p_add_sectors qs p proven secs) as [[[p' pw] fee]|] eqn:E; cbn [fst snd st_q st_tbl st_part with_part];
      [|split; [exact HS|symmetry; apply pp_add_0]].
    destruct (p_add_sectors_inv qs tbl p proven secs p' pw fee HS Hnd Hok E)
      as (HP' & Dx & S' & F' & T' & U' & -> & _).
    split; [exact HP'|].
    set (tbl' := store_sectors tbl secs) in *. set (X := nums_of secs) in *.
    assert (Hext : forall n, n ∈ live_sectors p -> tbl' !! n = tbl !! n).
    { intros n Hn. apply store_sectors_lookup_ne. unfold live_sectors in Hn. clear -Hn Dx. set_solver. }
    rewrite <- (credited_tbl_ext tbl tbl' p Hext). unfold credited, active_sectors, live_sectors.
    rewrite S', F', T', U'. destruct proven.
    + apply spow_add_eq.
      * pose proof (pi_faults_sectors _ _ _ HS). pose proof (pi_unproven_sectors _ _ _ HS).
        pose proof (pi_terminated_sectors _ _ _ HS). clear -Dx H H0 H1. set_solver.
      * clear -Dx. set_solver.
    + rewrite pp_add_0. apply spow_eq. clear -Dx. set_solver.
  - (* RecordFaults *)
    remember (lset nums) as Nn eqn:ENn. clear ENn.
    destruct (p_record_faults qs tbl p (Nn) fe) as [[[[p' nf] d] nfp]|] eqn:E;
      cbn [fst snd st_q st_tbl st_part with_part]; [|split; [exact HS|symmetry; apply pp_add_0]].
    destruct (p_record_faults_inv qs tbl p (Nn) fe p' nf d nfp HS E)
      as (HP' & S' & T' & F' & U' & Enf & HnfS & _ & ->).
    split; [exact HP'|]. unfold credited, active_sectors, live_sectors. rewrite S', T', F', U'.
    rewrite (spow_add_eq tbl (((sectors p ∖ terminated p) ∖ faults p) ∖ unproven p)
               (((sectors p ∖ terminated p) ∖ (faults p ∪ nf)) ∖ (unproven p ∖ nf)) (nf ∖ unproven p)).
    + rewrite (spow_add_eq tbl nf (nf ∖ unproven p) (nf ∩ unproven p)).
      * apply pp_eq; cbn; lia.
      * clear. intros n. destruct (decide (n ∈ unproven p)); set_solver.
      * clear. set_solver.
    + subst nf. clear -HnfS. intros n. destruct (decide (n ∈ Nn)); destruct (decide (n ∈ unproven p));
        destruct (decide (n ∈ terminated p)); destruct (decide (n ∈ faults p)); set_solver.
    + clear. set_solver.
  - (* DeclareFaultsRecovered *)
    destruct (p_declare_faults_recovered tbl p (lset nums)) as [p'|] eqn:E;
      cbn [fst snd st_q st_tbl st_part with_part]; [|split; [exact HS|symmetry; apply pp_add_0]].
    destruct (p_declare_faults_recovered_inv qs tbl p (lset nums) p' HS E)
      as (HP' & S' & F' & U' & T' & _).
    split; [exact HP'|]. rewrite pp_add_0. unfold credited, active_sectors, live_sectors.
    rewrite S', F', U', T'. reflexivity.
  - (* RecoverFaults *)
    destruct (p_recover_faults qs tbl p) as [[p' pw]|] eqn:E;
      cbn [fst snd st_q st_tbl st_part with_part]; [|split; [exact HS|symmetry; apply pp_add_0]].
    destruct (p_recover_faults_inv qs tbl p p' pw HS E) as (HP' & S' & F' & U' & T' & ->).
    split; [exact HP'|]. unfold credited, active_sectors, live_sectors. rewrite S', F', U', T'.
    pose proof (pi_rec_faults _ _ _ HS) as RF. unfold live_sectors in SF.
    apply spow_add_eq; [|clear -RF; set_solver].
    clear -RF SF DUF. intros n. destruct (decide (n ∈ recoveries p)); set_solver.
  - (* ActivateUnproven *)
    destruct (p_activate_unproven p) as [p' pw] eqn:E. cbn [fst snd st_q st_tbl st_part with_part].
    destruct (p_activate_unproven_inv qs tbl p p' pw HS E) as (HP' & S' & F' & U' & T' & ->).
    split; [exact HP'|]. unfold credited, active_sectors, live_sectors. rewrite S', F', U', T'.
    apply spow_add_eq; [|clear; set_solver].
    unfold live_sectors in SU.
    clear -SU DUF. intros n. destruct (decide (n ∈ unproven p)); set_solver.
  - (* RecordSkippedFaults *)
    remember (lset skipped) as Nn eqn:ENn. clear ENn.
    destruct (p_record_skipped_faults qs tbl p fe (Nn)) as [[[[[p' d] nfp] rrp] hnf]|] eqn:E;
      cbn [fst snd st_q st_tbl st_part with_part]; [|split; [exact HS|symmetry; apply pp_add_0]].
    destruct (p_record_skipped_faults_inv qs tbl p fe (Nn) p' d nfp rrp hnf HS E)
      as (HP' & S' & T' & F' & U' & HnfS & _ & -> & _).
    split; [exact HP'|]. unfold credited, active_sectors, live_sectors. rewrite S', T', F', U'.
    set (nf := (Nn ∖ terminated p) ∖ faults p) in *.
    rewrite (spow_add_eq tbl (((sectors p ∖ terminated p) ∖ faults p) ∖ unproven p)
               (((sectors p ∖ terminated p) ∖ (faults p ∪ nf)) ∖ (unproven p ∖ nf)) (nf ∖ unproven p)).
    + rewrite (spow_add_eq tbl nf (nf ∖ unproven p) (nf ∩ unproven p)).
      * apply pp_eq; cbn; lia.
      * clear. intros n. destruct (decide (n ∈ unproven p)); set_solver.
      * clear. set_solver.
    + subst nf. clear -HnfS. intros n. destruct (decide (n ∈ Nn)); destruct (decide (n ∈ unproven p));
        destruct (decide (n ∈ terminated p)); destruct (decide (n ∈ faults p)); set_solver.
    + clear. set_solver.
  - (* RecordMissedPost *)
    destruct (p_record_missed_post qs p fe) as [[[[p' d] pen] nfp]|] eqn:E;
      cbn [fst snd st_q st_tbl st_part with_part]; [|split; [exact HS|symmetry; apply pp_add_0]].
    destruct (p_record_missed_post_inv qs tbl p fe p' d pen nfp HS E)
      as (HP' & S' & T' & F' & U' & -> & -> & _).
    split; [exact HP'|]. unfold credited, active_sectors. unfold live_sectors at 1. rewrite S', T', F', U'.
    replace (((sectors p ∖ terminated p) ∖ live_sectors p) ∖ ∅) with (∅ : gset N)
      by (unfold live_sectors; apply seteq_L; clear; set_solver).
    rewrite spow_empty.
    rewrite (spow_add_eq tbl (live_sectors p ∖ faults p)
               ((live_sectors p ∖ faults p) ∖ unproven p) (unproven p)).
    + apply pp_eq; cbn; lia.
    + clear -SU DUF. intros n. destruct (decide (n ∈ unproven p)); set_solver.
    + clear. set_solver.
  - (* TerminateSectors *)
    remember (lset nums) as Nn eqn:ENn. clear ENn.
    destruct (p_terminate_sectors qs tbl p epoch (Nn)) as [[[p' rm] up]|] eqn:E;
      cbn [fst snd st_q st_tbl st_part with_part]; [|split; [exact HS|symmetry; apply pp_add_0]].
    destruct (p_terminate_sectors_inv qs tbl p epoch (Nn) p' rm up HS E)
      as (HP' & HL & S' & T' & F' & U' & _ & -> & _).
    split; [exact HP'|]. unfold credited, active_sectors, live_sectors.
    rewrite S', T', F'. rewrite (spow_eq tbl _ (((sectors p ∖ (terminated p ∪ Nn)) ∖ (faults p ∖ Nn)) ∖ (unproven p ∖ Nn))).
    2:{ rewrite U'. reflexivity. }
    rewrite (spow_add_eq tbl (((sectors p ∖ terminated p) ∖ faults p) ∖ unproven p)
               (((sectors p ∖ (terminated p ∪ Nn)) ∖ (faults p ∖ Nn)) ∖ (unproven p ∖ Nn))
               ((Nn ∖ faults p) ∖ unproven p)).
    + apply pp_eq; cbn; lia.
    + unfold live_sectors in HL. clear -HL. intros n. destruct (decide (n ∈ Nn)); set_solver.
    + clear. set_solver.
  - (* PopExpiredSectors *)
    destruct (p_pop_expired_sectors p until) as [[p' popped]|] eqn:E;
      cbn [fst snd st_q st_tbl st_part with_part]; [|split; [exact HS|symmetry; apply pp_add_0]].
    destruct (p_pop_expired_sectors_inv qs tbl p until p' popped HS E)
      as (HP' & HL & U0 & S' & T' & F' & U' & -> & _).
    split; [exact HP'|]. unfold credited, active_sectors, live_sectors. rewrite S', T', F', U', U0.
    set (E0 := es_all popped) in *.
    rewrite (spow_add_eq tbl (((sectors p ∖ terminated p) ∖ faults p) ∖ ∅)
               (((sectors p ∖ (terminated p ∪ E0)) ∖ (faults p ∖ E0)) ∖ ∅) (E0 ∖ faults p)).
    + apply pp_eq; cbn; lia.
    + unfold live_sectors in HL. clear -HL. intros n. destruct (decide (n ∈ E0)); set_solver.
    + clear. set_solver.
  - (* ReplaceSectors *)
    destruct Hwf as (Hndn & Hokn & Hnums).
    destruct (load_sectors tbl (lset old)) as [oi|] eqn:El; cbn [fst snd st_q st_tbl st_part with_part];
      [|split; [exact HS|symmetry; apply pp_add_0]].
    destruct (load_from_live _ _ _ _ _ HS El) as (Hfo & Hndo & Hno).
    destruct (p_replace_sectors qs p oi new) as [[[[p' dpow] dpl] dfee]|] eqn:E;
      cbn [fst snd st_q st_tbl st_part with_part]; [|split; [exact HS|symmetry; apply pp_add_0]].
    assert (Hnums' : forall s, s ∈ new -> s_num s ∈ nums_of oi \/ s_num s ∉ sectors p)
      by (rewrite Hno; exact Hnums).
    destruct (p_replace_sectors_inv qs tbl p oi new p' dpow dpl dfee HS Hfo Hndo Hndn Hokn Hnums' E)
      as (HP' & Hact & S' & F' & U' & T' & Dn & Hext & -> & _).
    split; [exact HP'|].
    set (tbl' := store_sectors tbl new) in *. set (Xo := nums_of oi) in *. set (Xn := nums_of new) in *.
    unfold credited. unfold active_sectors at 1. unfold live_sectors at 1. rewrite S', F', U', T'.
    rewrite (spow_add_eq tbl' ((((sectors p ∖ Xo) ∪ Xn) ∖ terminated p) ∖ faults p ∖ unproven p)
               (active_sectors p ∖ Xo) Xn).
    + rewrite (spow_ext tbl tbl' (active_sectors p ∖ Xo)).
      * rewrite (spow_diff_sub tbl (active_sectors p) Xo Hact). apply pp_eq; cbn; lia.
      * intros n Hn. apply Hext. pose proof (active_sub_live p). clear -Hn H. set_solver.
    + unfold active_sectors, live_sectors. clear -Dn. set_solver.
    + (* the new numbers are old ones or outside the partition *)
      intros n Hn1 Hn2. apply elem_of_nums_of in Hn2 as (s & Hs & <-).
      destruct (Hnums' s Hs) as [H|H]; [clear -H Hn1; set_solver|].
      unfold active_sectors, live_sectors in Hn1. clear -H Hn1. set_solver.
  - (* RescheduleExpirations *)
    destruct (p_reschedule_expirations qs tbl p new_exp (lset nums)) as [[p' infos]|] eqn:E;
      cbn [fst snd st_q st_tbl st_part with_part]; [|split; [exact HS|symmetry; apply pp_add_0]].
    destruct (p_reschedule_expirations_inv qs tbl p new_exp (lset nums) p' infos HS E)
      as (HP' & S' & F' & U' & T' & Hpow).
    split; [exact HP'|]. rewrite pp_add_0. unfold credited. rewrite Hpow.
    unfold active_sectors, live_sectors. rewrite S', F', U', T'. reflexivity.
  - (* PopEarlyTerminations *)
    destruct (p_pop_early_terminations p mx) as [[[[p' res] n] more]|] eqn:E;
      cbn [fst snd st_q st_tbl st_part with_part]; [|split; [exact HS|symmetry; apply pp_add_0]].
    destruct (p_pop_early_terminations_inv qs tbl p mx p' res n more HS E)
      as (HP' & S' & F' & U' & T' & _).
    split; [exact HP'|]. rewrite pp_add_0. unfold credited, active_sectors, live_sectors.
    rewrite S', F', U', T'. reflexivity.
Qed.

Theorem partinv_step st o : StInv st -> op_wf st o -> StInv (next st o).
Proof. intros H1 H2. apply (partinv_step_delta st o H1 H2). Qed.

Theorem delta_is_difference st o :
  StInv st -> op_wf st o -> st_credited (next st o) = pp_add (st_credited st) (step_delta st o).
Proof. intros H1 H2. apply (partinv_step_delta st o H1 H2). Qed.

(* ---------- every reachable state ---------- *)
Theorem partinv_run st ops : StInv st -> all_wf st ops -> StInv (run st ops).
Proof.
  revert st. induction ops as [|o r IH]; intros st HS Hwf; [exact HS|].
  destruct Hwf as [H1 H2]. cbn [run fold_left]. apply IH; [apply partinv_step; assumption|exact H2].
Qed.

Theorem partinv_reachable unit off ops :
  0 < unit -> all_wf (init unit off) ops -> StInv (run (init unit off) ops).
Proof. intros Hu Hwf. apply partinv_run; [apply partinv_init, Hu|exact Hwf]. Qed.

(* the running sum of reported deltas is the credited power *)
Fixpoint sum_deltas (st : state) (ops : list op) : pp :=
  match ops with
  | [] => pp0
  | o :: r => pp_add (step_delta st o) (sum_deltas (next st o) r)
  end.

Theorem credited_is_sum_of_deltas st ops :
  StInv st -> all_wf st ops ->
  st_credited (run st ops) = pp_add (st_credited st) (sum_deltas st ops).
Proof.
  revert st. induction ops as [|o r IH]; intros st HS Hwf; cbn [run fold_left sum_deltas].
  - symmetry. apply pp_add_0.
  - destruct Hwf as [H1 H2]. fold (run (next st o) r).
    rewrite IH by (try apply partinv_step; assumption).
    rewrite (delta_is_difference st o HS H1). apply pp_eq; cbn; lia.
Qed.

(* ---------- corollaries ---------- *)
Theorem live_sector_in_exactly_one_set qs tbl p n :
  PartInv qs tbl p -> n ∈ sectors p ∖ terminated p ->
  exists k es, expirations p !! k = Some es /\
    ((n ∈ on_time es /\ n ∉ early es) \/ (n ∈ early es /\ n ∉ on_time es)) /\
    forall k' es', expirations p !! k' = Some es' -> n ∈ on_time es' ∪ early es' -> k' = k.
Proof.
  intros HP Hn. pose proof (pi_queue _ _ _ HP) as HQ. unfold live_sectors in HQ.
  apply (qi_cover _ _ _ _ _ HQ) in Hn as (k & es & Hk & Hn). exists k, es. split; [exact Hk|]. split.
  - pose proof (ei_disj _ _ _ _ _ (qi_entry _ _ _ _ _ HQ _ _ Hk)) as D. unfold es_all in Hn.
    apply elem_of_union in Hn as [Hn|Hn]; [left|right]; (split; [exact Hn|]); set_solver.
  - intros k' es' Hk' Hn'. eapply (qinv_unique _ _ _ _ _ k' k es' es n HQ); eauto.
Qed.

Theorem rejected_unchanged st o : snd (fst (step st o)) <> 0 -> next st o = st.
Proof.
  unfold next, step. destruct st as [qs tbl p]. cbn [st_q st_tbl st_part].
  destruct o; cbn [fst snd];
    repeat match goal with
    | |- context [match ?x with Ok _ => _ | Err _ => _ end] => destruct x as [?r|?c]
    | |- context [let '(_, _) := ?x in _] => destruct x
    | r : (_ * _)%type |- _ => destruct r
    end; cbn [fst snd]; congruence.
Qed.

Lemma sector_ok_b_sound s : sector_ok_b s = true -> sector_ok s (s_num s).
Proof.
  unfold sector_ok_b, sector_ok. rewrite !andb_true_iff, !Z.leb_le. tauto.
Qed.

Lemma op_wf_b_sound st o : op_wf_b st o = true -> op_wf st o.
Proof.
  destruct o; cbn [op_wf_b op_wf]; try (intros; exact I).
  - rewrite andb_true_iff, bool_decide_eq_true, forallb_forall. intros [H1 H2]. split; [exact H1|].
    apply List.Forall_forall. intros s Hs. apply sector_ok_b_sound, H2, Hs.
  - rewrite !andb_true_iff, bool_decide_eq_true, !forallb_forall. intros [[H1 H2] H3].
    split; [exact H1|]. split.
    + apply List.Forall_forall. intros s Hs. apply sector_ok_b_sound, H2, Hs.
    + intros s Hs. apply elem_of_list_In in Hs. specialize (H3 s Hs).
      apply orb_true_iff in H3 as [H3|H3]; apply bool_decide_eq_true in H3; auto.
Qed.

Lemma all_wf_b_sound ops : forall st, all_wf_b st ops = true -> all_wf st ops.
Proof.
  induction ops as [|o r IH]; intros st; cbn [all_wf_b all_wf]; [auto|].
  rewrite andb_true_iff. intros [H1 H2]. split; [apply op_wf_b_sound, H1|apply IH, H2].
Qed.
