(* Proofs about coq/Model/Collateral.v (property C03). *)
From stdpp Require Import gmap.
From Coq Require Import ZArith List Bool Lia.
From VF Require Import Gen.Consts Base.Corr Base.MapSum Model.Collateral.
Import ListNotations.
Open Scope Z_scope.

Ltac zb :=
  repeat match goal with
  | H : (_ =? _) = true |- _ => apply Z.eqb_eq in H
  | H : (_ =? _) = false |- _ => apply Z.eqb_neq in H
  | H : (_ <? _) = true |- _ => apply Z.ltb_lt in H
  | H : (_ <? _) = false |- _ => apply Z.ltb_ge in H
  | H : (_ <=? _) = true |- _ => apply Z.leb_le in H
  | H : (_ <=? _) = false |- _ => apply Z.leb_gt in H
  | H : negb _ = true |- _ => apply negb_true_iff in H
  | H : negb _ = false |- _ => apply negb_false_iff in H
  | H : (_ && _) = true |- _ => apply andb_true_iff in H; destruct H
  | H : (_ || _) = false |- _ => apply orb_false_iff in H; destruct H
  end.

(* ------------------------------------------------------------------------------------------ *)
(* quantize_up (proof structure as in Proofs/Vesting_lemmas.v) *)
Lemma quantize_up_spec unit off e :
  0 < unit ->
  e <= quantize_up unit off e < e + unit /\
  exists k, quantize_up unit off e = unit * k + Z.rem off unit.
Proof.
  intros Hu. unfold quantize_up.
  set (o := Z.rem off unit). set (x := e - o).
  pose proof (Z.quot_rem' x unit) as Hqr.
  assert (Hrb : 0 <= x -> 0 <= Z.rem x unit < unit) by (intros; apply Z.rem_bound_pos; lia).
  assert (Hrn : x <= 0 -> - unit < Z.rem x unit <= 0).
  { intros Hx. pose proof (Z.rem_bound_pos (- x) unit ltac:(lia) Hu) as Hb.
    replace x with (- - x) by lia. rewrite Z.rem_opp_l'. lia. }
  destruct ((Z.rem x unit =? 0) || (x <? 0)) eqn:E.
  - split; [|exists (Z.quot x unit); reflexivity].
    apply orb_true_iff in E. destruct E as [E|E]; zb.
    + subst x. lia.
    + specialize (Hrn ltac:(lia)). subst x. lia.
  - split; [|exists (Z.quot x unit + 1); reflexivity].
    zb. specialize (Hrb ltac:(lia)). subst x. lia.
Qed.

Lemma quantize_up_ge unit off e : 0 < unit -> e <= quantize_up unit off e.
Proof. intros H. apply (quantize_up_spec unit off e H). Qed.

Lemma quantize_up_mono unit off e1 e2 :
  0 < unit -> e1 <= e2 -> quantize_up unit off e1 <= quantize_up unit off e2.
Proof.
  intros Hu Hle.
  destruct (quantize_up_spec unit off e1 Hu) as [[A1 A2] [k1 A3]].
  destruct (quantize_up_spec unit off e2 Hu) as [[B1 B2] [k2 B3]].
  rewrite A3, B3 in *.
  destruct (Z_le_gt_dec k1 k2) as [Hk|Hk].
  - pose proof (Z.mul_le_mono_nonneg_l k1 k2 unit ltac:(lia) Hk). lia.
  - pose proof (Z.mul_le_mono_nonneg_l (k2 + 1) k1 unit ltac:(lia) ltac:(lia)). lia.
Qed.

(* ------------------------------------------------------------------------------------------ *)
(* tables *)
Definition nonneg (t : table) : Prop := Forall (fun x : fund => 0 <= snd x) t.

Lemma tbl_sum_cons e a t : tbl_sum ((e, a) :: t) = a + tbl_sum t.
Proof. reflexivity. Qed.
Lemma nonneg_cons e a t : nonneg ((e, a) :: t) <-> 0 <= a /\ nonneg t.
Proof.
  unfold nonneg. split.
  - intros H. inversion H; subst. cbn in *. auto.
  - intros [H1 H2]. constructor; auto.
Qed.
Lemma nonneg_nil : nonneg [].
Proof. constructor. Qed.
Lemma nonneg_sum t : nonneg t -> 0 <= tbl_sum t.
Proof.
  induction t as [|[e a] t IH]; intros H; [cbn; lia|].
  apply nonneg_cons in H. destruct H. rewrite tbl_sum_cons. specialize (IH H0). lia.
Qed.

Lemma load_ok t : nonneg t -> tbl_sum (load t) = tbl_sum t /\ nonneg (load t).
Proof.
  destruct t as [|[e a] t]; intros H; [split; [reflexivity|exact H]|].
  apply nonneg_cons in H. destruct H as [Ha Ht]. cbn [load].
  destruct (0 <? a) eqn:E; zb.
  - split; [reflexivity|apply nonneg_cons; auto].
  - split; [rewrite tbl_sum_cons; lia|exact Ht].
Qed.

Lemma take_vested_ok c l :
  nonneg l ->
  tbl_sum l = fst (take_vested c l) + tbl_sum (snd (take_vested c l)) /\
  0 <= fst (take_vested c l) /\ nonneg (snd (take_vested c l)).
Proof.
  induction l as [|[e a] l IH]; intros H; cbn [take_vested].
  - cbn. split; [lia|split; [lia|constructor]].
  - apply nonneg_cons in H. destruct H as [Ha Hl]. specialize (IH Hl).
    destruct (e <? c).
    + destruct (take_vested c l) as [s r]. cbn [fst snd] in *. rewrite tbl_sum_cons.
      destruct IH as (I1 & I2 & I3). split; [lia|split; [lia|exact I3]].
    + cbn [fst snd]. split; [cbn; lia|split; [lia|apply nonneg_cons; auto]].
Qed.

Lemma merge_nil_r a : merge a [] = a.
Proof. destruct a as [|[e x] a]; reflexivity. Qed.
Lemma merge_cons_cons ea xa a eb xb b :
  merge ((ea, xa) :: a) ((eb, xb) :: b) =
  if ea <? eb then (ea, xa) :: merge a ((eb, xb) :: b)
  else if eb <? ea then (eb, xb) :: merge ((ea, xa) :: a) b
  else (ea, xa + xb) :: merge a b.
Proof. reflexivity. Qed.

Lemma merge_ok a : forall b,
  nonneg a -> nonneg b ->
  tbl_sum (merge a b) = tbl_sum a + tbl_sum b /\ nonneg (merge a b).
Proof.
  induction a as [|[ea xa] a IHa]; intros b Ha Hb.
  - destruct b; cbn; split; auto; lia.
  - induction b as [|[eb xb] b IHb].
    + rewrite merge_nil_r. cbn [tbl_sum fold_right]. split; [lia|exact Ha].
    + pose proof Ha as Ha'. pose proof Hb as Hb'.
      apply nonneg_cons in Ha'. destruct Ha' as [Hxa Ha'].
      apply nonneg_cons in Hb'. destruct Hb' as [Hxb Hb'].
      rewrite merge_cons_cons. destruct (ea <? eb).
      * destruct (IHa ((eb, xb) :: b) Ha' Hb) as [S N].
        split; [unfold tbl_sum, table, fund in *; cbn [fold_right] in *; lia|apply nonneg_cons; auto].
      * destruct (eb <? ea).
        -- destruct (IHb Hb') as [S N].
           split; [unfold tbl_sum, table, fund in *; cbn [fold_right] in *; lia|apply nonneg_cons; auto].
        -- destruct (IHa b Ha' Hb') as [S N].
           split; [unfold tbl_sum, table, fund in *; cbn [fold_right] in *; lia|].
           apply nonneg_cons; split; [lia|exact N].
Qed.

(* ------------------------------------------------------------------------------------------ *)
(* the linear schedule: it distributes exactly `sum`, in non-negative instalments *)
Section Sched.
  Variables (sum vbegin period step unit offset : Z).
  Hypothesis Hunit : 0 < unit.
  Hypothesis Hstep : 0 < step.
  Hypothesis Hperiod : 0 < period.
  Hypothesis Hsum : 0 <= sum.

  Definition target_at (x : Z) : Z := if x - vbegin <? period then (sum * (x - vbegin)) / period else sum.

  Lemma target_at_le_sum x : target_at x <= sum.
  Proof.
    unfold target_at. destruct (x - vbegin <? period) eqn:E; zb; [|lia].
    apply Z.div_le_upper_bound; [lia|]. nia.
  Qed.

  Lemma target_at_mono x y : x <= y -> target_at x <= target_at y.
  Proof.
    intros Hxy. unfold target_at at 2. destruct (y - vbegin <? period) eqn:E; zb.
    - unfold target_at. destruct (x - vbegin <? period) eqn:E2; zb; [|lia].
      apply Z.div_le_mono; [lia|]. nia.
    - apply target_at_le_sum.
  Qed.

  Lemma gen_new_ok fuel : forall vsf epoch,
    vsf <= target_at (quantize_up unit offset (epoch + step)) ->
    (period <= epoch - vbegin -> sum <= vsf) ->
    period <= epoch + Z.of_nat fuel * step - vbegin ->
    tbl_sum (gen_new fuel sum vbegin period step unit offset vsf epoch) = Z.max 0 (sum - vsf) /\
    nonneg (gen_new fuel sum vbegin period step unit offset vsf epoch).
  Proof.
    induction fuel as [|f IH]; intros vsf epoch HJ HI Hfuel.
    - cbn [gen_new]. split; [|constructor]. cbn. cbn in Hfuel. specialize (HI ltac:(lia)). lia.
    - cbn [gen_new]. destruct (sum <=? vsf) eqn:E; zb.
      + split; [cbn; lia|constructor].
      + set (ve := quantize_up unit offset (epoch + step)) in *.
        assert (Hve : epoch + step <= ve) by (apply quantize_up_ge; exact Hunit).
        change (if ve - vbegin <? period then sum * (ve - vbegin) / period else sum) with (target_at ve).
        destruct (IH (target_at ve) (epoch + step)) as [S N].
        * apply target_at_mono. apply quantize_up_mono; [exact Hunit|lia].
        * intros Hp. unfold target_at. destruct (ve - vbegin <? period) eqn:E2; zb; lia.
        * rewrite Nat2Z.inj_succ in Hfuel. lia.
        * pose proof (target_at_le_sum ve). split.
          -- rewrite tbl_sum_cons, S. lia.
          -- apply nonneg_cons. split; [lia|exact N].
  Qed.
End Sched.

Lemma new_schedule_ok cur sum p :
  0 <= sum -> tbl_sum (new_schedule cur sum p) = sum /\ nonneg (new_schedule cur sum p).
Proof.
  intros Hs. unfold new_schedule.
  destruct (gen_new_ok sum (cur + REWARD_VEST_INITIAL_DELAY) REWARD_VEST_VEST_PERIOD
              REWARD_VEST_STEP_DURATION REWARD_VEST_QUANTIZATION p
              ltac:(reflexivity) ltac:(reflexivity) ltac:(reflexivity) Hs sched_fuel 0
              (cur + REWARD_VEST_INITIAL_DELAY)) as [S N].
  - unfold target_at.
    pose proof (quantize_up_ge REWARD_VEST_QUANTIZATION p
                  (cur + REWARD_VEST_INITIAL_DELAY + REWARD_VEST_STEP_DURATION) ltac:(reflexivity)) as Hq.
    destruct (_ <? _); [|exact Hs].
    apply Z.div_pos; [|reflexivity]. apply Z.mul_nonneg_nonneg; [exact Hs|].
    unfold REWARD_VEST_STEP_DURATION, REWARD_VEST_INITIAL_DELAY in *. lia.
  - unfold REWARD_VEST_VEST_PERIOD. lia.
  - replace (Z.of_nat sched_fuel) with 182 by (vm_compute; reflexivity).
    unfold REWARD_VEST_VEST_PERIOD, REWARD_VEST_STEP_DURATION. lia.
  - split; [rewrite S; lia|exact N].
Qed.

Lemma add_locked_funds_ok t cur sum p t' unl :
  nonneg t -> 0 <= sum -> add_locked_funds t cur sum p = (t', unl) ->
  tbl_sum t' = tbl_sum t + sum - unl /\ nonneg t' /\ 0 <= unl.
Proof.
  intros Ht Hs. unfold add_locked_funds.
  destruct (load_ok t Ht) as [L1 L2]. destruct (new_schedule_ok cur sum p Hs) as [S1 S2].
  destruct (merge_ok _ _ L2 S2) as [M1 M2].
  pose proof (take_vested_ok cur _ M2) as (T1 & T2 & T3).
  destruct (take_vested cur _) as [u r]. cbn [fst snd] in *. intros E. inversion E; subst.
  split; [lia|split; assumption].
Qed.

Lemma unlock_vested_funds_ok t cur t' unl :
  nonneg t -> unlock_vested_funds t cur = (t', unl) ->
  tbl_sum t' = tbl_sum t - unl /\ nonneg t' /\ 0 <= unl.
Proof.
  intros Ht. unfold unlock_vested_funds. destruct t as [|[he ha] tl].
  - intros E. inversion E; subst. split; [cbn; lia|split; [constructor|lia]].
  - destruct (he <? cur).
    + destruct (load_ok _ Ht) as [L1 L2].
      pose proof (take_vested_ok cur _ L2) as (T1 & T2 & T3).
      destruct (take_vested cur _) as [u r]. cbn [fst snd] in *. intros E. inversion E; subst.
      split; [lia|split; assumption].
    + intros E. inversion E; subst. split; [lia|split; [assumption|lia]].
Qed.

Lemma slow_unlock_ok cur l : forall target v u t' v' u',
  nonneg l -> slow_unlock cur target v u l = (t', v', u') ->
  tbl_sum t' + v' + u' = tbl_sum l + v + u /\ nonneg t'.
Proof.
  induction l as [|[e a] l IH]; intros target v u t' v' u' Hl; cbn [slow_unlock].
  - intros E. inversion E; subst. split; [lia|constructor].
  - apply nonneg_cons in Hl. destruct Hl as [Ha Hl]. destruct (e <? cur).
    + intros E. destruct (IH _ _ _ _ _ _ Hl E) as [S N]. rewrite tbl_sum_cons. split; [lia|exact N].
    + destruct (a <? target) eqn:E1; zb.
      * intros E. destruct (IH _ _ _ _ _ _ Hl E) as [S N]. rewrite tbl_sum_cons. split; [lia|exact N].
      * intros E. inversion E; subst. rewrite !tbl_sum_cons. split; [lia|].
        apply nonneg_cons. split; [lia|exact Hl].
Qed.

Lemma unlock_both_ok t cur target t' v u :
  nonneg t -> unlock_vested_and_unvested_funds t cur target = (t', v, u) ->
  tbl_sum t' = tbl_sum t - (v + u) /\ nonneg t'.
Proof.
  intros Ht. unfold unlock_vested_and_unvested_funds. destruct t as [|[he ha] tl].
  - intros E. inversion E; subst. split; [cbn; lia|constructor].
  - destruct ((cur <=? he) && (target <=? ha)) eqn:E0.
    + zb. intros E. inversion E; subst. apply nonneg_cons in Ht. destruct Ht as [Ha Ht].
      rewrite !tbl_sum_cons. split; [lia|]. apply nonneg_cons. split; [lia|exact Ht].
    + destruct (load_ok _ Ht) as [L1 L2]. intros E.
      destruct (slow_unlock_ok _ _ _ _ _ _ _ _ L2 E) as [S N]. split; [lia|exact N].
Qed.

(* ------------------------------------------------------------------------------------------ *)
(* one miner: the ledger invariant and what each state transaction does to it *)
Arguments Z.mul : simpl never.
Arguments Z.div : simpl never.
Arguments Z.max : simpl never.
Arguments Z.add : simpl never.
Arguments Z.sub : simpl never.
Arguments Z.opp : simpl never.

Record minv (m : miner) : Prop := {
  i_ip : ip m = zsum (sectors m) + zsum (awaiting m);
  i_pcd : pcd m = zsum (precommits m);
  i_locked : locked m = tbl_sum (vest m);
  i_nonneg : nonneg (vest m);
  i_ip0 : 0 <= ip m;
  i_pcd0 : 0 <= pcd m;
  i_dep0 : 0 <= cdep m;
}.

Lemma minv_locked0 m : minv m -> 0 <= locked m.
Proof. intros H. rewrite (i_locked _ H). apply nonneg_sum, (i_nonneg _ H). Qed.

Lemma has_false (m : gmap N Z) k : has m k = false -> m !! k = None.
Proof. unfold has. destruct (m !! k); [discriminate|reflexivity]. Qed.

Lemma zsum_insert_new (m : gmap N Z) k v : m !! k = None -> zsum (<[k := v]> m) = v + zsum m.
Proof. intros H. unfold zsum. apply (msum_insert_new (fun x : Z => x)). exact H. Qed.
Lemma zsum_delete (m : gmap N Z) k v : m !! k = Some v -> zsum (delete k m) = zsum m - v.
Proof. intros H. unfold zsum. apply (msum_delete (fun x : Z => x)). exact H. Qed.
Lemma zsum_insert_some (m : gmap N Z) k old v :
  m !! k = Some old -> zsum (<[k := v]> m) = zsum m - old + v.
Proof. intros H. unfold zsum. rewrite (msum_insert (fun x : Z => x)). rewrite H. reflexivity. Qed.

Ltac inv_ok H := inversion H; subst; clear H.

Lemma add_ip_ok m d m' : add_ip m d = Ok m' -> m' = set_ip m (ip m + d) /\ 0 <= ip m + d.
Proof. unfold add_ip. destruct (ip m + d <? 0) eqn:E; [discriminate|]. zb. intros H. inv_ok H. auto. Qed.
Lemma add_pcd_ok m d m' : add_pcd m d = Ok m' -> m' = set_pcd m (pcd m + d) /\ 0 <= pcd m + d.
Proof. unfold add_pcd. destruct (pcd m + d <? 0) eqn:E; [discriminate|]. zb. intros H. inv_ok H. auto. Qed.

Lemma m_add_locked_ok m cur sum m' unl :
  nonneg (vest m) -> locked m = tbl_sum (vest m) -> m_add_locked m cur sum = Ok (m', unl) ->
  exists t' l', m' = set_vest_locked m t' l' /\ l' = tbl_sum t' /\ nonneg t' /\
                l' = locked m + sum - unl /\ 0 <= unl /\ 0 <= sum /\ unl <= locked m.
Proof.
  intros Hn Hl. unfold m_add_locked. destruct (sum <? 0) eqn:E; [discriminate|]. zb.
  destruct (add_locked_funds (vest m) cur sum (pps m)) as [t' u] eqn:EA.
  destruct (add_locked_funds_ok _ _ _ _ _ _ Hn E EA) as (A1 & A2 & A3).
  destruct (locked m - u <? 0) eqn:E1; [discriminate|]. zb. intros H. inv_ok H.
  exists t', (locked m - unl + sum). repeat split; auto; lia.
Qed.

Lemma m_unlock_vested_ok m cur m' unl :
  nonneg (vest m) -> locked m = tbl_sum (vest m) -> m_unlock_vested m cur = Ok (m', unl) ->
  exists t' l', m' = set_vest_locked m t' l' /\ l' = tbl_sum t' /\ nonneg t' /\
                l' = locked m - unl /\ 0 <= unl.
Proof.
  intros Hn Hl. unfold m_unlock_vested. destruct (locked m =? 0) eqn:E.
  - intros H. inv_ok H. exists (vest m'), (locked m'). destruct m'; cbn in *. repeat split; auto; lia.
  - destruct (unlock_vested_funds (vest m) cur) as [t' u] eqn:EA.
    destruct (unlock_vested_funds_ok _ _ _ _ Hn EA) as (A1 & A2 & A3).
    destruct (locked m - u <? 0); [discriminate|]. intros H. inv_ok H.
    exists t', (locked m - unl). repeat split; auto; lia.
Qed.

Lemma m_unlock_both_ok m cur target m' tot :
  nonneg (vest m) -> locked m = tbl_sum (vest m) -> m_unlock_both m cur target = Ok (m', tot) ->
  exists t' l', m' = set_vest_locked m t' l' /\ l' = tbl_sum t' /\ nonneg t' /\ l' = locked m - tot.
Proof.
  intros Hn Hl. unfold m_unlock_both. destruct (target <? 0); [discriminate|].
  destruct ((target =? 0) || (locked m =? 0)).
  - intros H. inv_ok H. exists (vest m'), (locked m'). destruct m'; cbn in *. repeat split; auto; lia.
  - destruct (unlock_vested_and_unvested_funds (vest m) cur target) as [[t' v] u] eqn:EA.
    destruct (unlock_both_ok _ _ _ _ _ _ Hn EA) as (A1 & A2).
    destruct (locked m - (v + u) <? 0); [discriminate|]. intros H. inv_ok H.
    exists t', (locked m - (v + u)). repeat split; auto; lia.
Qed.

Lemma pc_add_ok l : forall m acc m' tot,
  pc_add m l acc = Ok (m', tot) ->
  exists P, m' = set_precommits m P /\ zsum P = zsum (precommits m) + (tot - acc) /\ acc <= tot.
Proof.
  induction l as [|[s d] l IH]; intros m acc m' tot; cbn [pc_add].
  - intros H. inv_ok H. exists (precommits m'). destruct m'; cbn. repeat split; lia.
  - destruct (d <? 0) eqn:E; [discriminate|]. zb.
    destruct (has (precommits m) s || has (sectors m) s || has (awaiting m) s) eqn:E2; [discriminate|].
    zb. intros HH. apply IH in HH. destruct HH as (P & K1 & K2 & K3). exists P.
    cbn in K1, K2. rewrite zsum_insert_new in K2 by (apply has_false; assumption).
    repeat split; [exact K1|lia|lia].
Qed.

Lemma prove_each_ok l : forall m dep pl m' dep' pl',
  prove_each m l dep pl = Ok (m', dep', pl') ->
  exists P S, m' = set_sectors (set_precommits m P) S /\
    zsum P = zsum (precommits m) - (dep' - dep) /\
    zsum S = zsum (sectors m) + (pl' - pl) /\ pl <= pl'.
Proof.
  induction l as [|[s p] l IH]; intros m dep pl m' dep' pl'; cbn [prove_each].
  - intros H. inv_ok H. exists (precommits m'), (sectors m'). destruct m'; cbn. repeat split; lia.
  - destruct (p <? 0) eqn:E; [discriminate|]. zb.
    destruct (precommits m !! s) as [d|] eqn:Ed; [|discriminate].
    destruct (has (sectors m) s || has (awaiting m) s) eqn:E2; [discriminate|]. zb.
    intros HH. apply IH in HH. destruct HH as (P & S & K1 & K2 & K3 & K4). exists P, S.
    cbn in K1, K2, K3. rewrite (zsum_delete _ _ _ Ed) in K2.
    rewrite zsum_insert_new in K3 by (apply has_false; assumption).
    repeat split; [exact K1|lia|lia|lia].
Qed.

Lemma update_each_ok l : forall m acc m' acc',
  update_each m l acc = Ok (m', acc') ->
  exists S, m' = set_sectors m S /\ zsum S = zsum (sectors m) + (acc' - acc).
Proof.
  induction l as [|[s c] l IH]; intros m acc m' acc'; cbn [update_each].
  - intros H. inv_ok H. exists (sectors m'). destruct m'; cbn. split; [reflexivity|lia].
  - destruct (c <? 0); [discriminate|].
    destruct (sectors m !! s) as [old|] eqn:Eo; [|discriminate].
    intros HH. apply IH in HH. destruct HH as (S & H1 & H2). exists S.
    cbn in H1, H2. rewrite (zsum_insert_some _ _ _ _ Eo) in H2. split; [exact H1|lia].
Qed.

Lemma move_early_ok l : forall m m',
  move_early m l = Ok m' ->
  exists S A, m' = set_awaiting (set_sectors m S) A /\
    zsum S + zsum A = zsum (sectors m) + zsum (awaiting m).
Proof.
  induction l as [|s l IH]; intros m m'; cbn [move_early].
  - intros H. inv_ok H. exists (sectors m'), (awaiting m'). destruct m'; cbn. split; [reflexivity|lia].
  - destruct (sectors m !! s) as [p|] eqn:Ep; [|discriminate].
    destruct (has (awaiting m) s) eqn:E2; [discriminate|].
    intros HH. apply IH in HH. destruct HH as (S & A & H1 & H2). exists S, A.
    cbn in H1, H2. rewrite (zsum_delete _ _ _ Ep) in H2.
    rewrite zsum_insert_new in H2 by (apply has_false; assumption). split; [exact H1|lia].
Qed.

Lemma pop_each_ok l : forall m acc m' acc',
  pop_each m l acc = Ok (m', acc') ->
  exists A, m' = set_awaiting m A /\ zsum A = zsum (awaiting m) - (acc' - acc).
Proof.
  induction l as [|s l IH]; intros m acc m' acc'; cbn [pop_each].
  - intros H. inv_ok H. exists (awaiting m'). destruct m'; cbn. split; [reflexivity|lia].
  - destruct (awaiting m !! s) as [p|] eqn:Ep; [|discriminate].
    intros HH. apply IH in HH. destruct HH as (A & H1 & H2). exists A.
    cbn in H1, H2. rewrite (zsum_delete _ _ _ Ep) in H2. split; [exact H1|lia].
Qed.

Lemma expire_precommits_ok l : forall m acc m' acc',
  expire_precommits m l acc = Ok (m', acc') ->
  exists P, m' = set_precommits m P /\ zsum P = zsum (precommits m) - (acc' - acc).
Proof.
  induction l as [|s l IH]; intros m acc m' acc'; cbn [expire_precommits].
  - intros H. inv_ok H. exists (precommits m'). destruct m'; cbn. split; [reflexivity|lia].
  - destruct (precommits m !! s) as [p|] eqn:Ep; [|discriminate].
    intros HH. apply IH in HH. destruct HH as (A & H1 & H2). exists A.
    cbn in H1, H2. rewrite (zsum_delete _ _ _ Ep) in H2. split; [exact H1|lia].
Qed.

Lemma expire_sectors_ok l : forall m acc m' acc',
  expire_sectors m l acc = Ok (m', acc') ->
  exists S, m' = set_sectors m S /\ zsum S = zsum (sectors m) - (acc' - acc).
Proof.
  induction l as [|s l IH]; intros m acc m' acc'; cbn [expire_sectors].
  - intros H. inv_ok H. exists (sectors m'). destruct m'; cbn. split; [reflexivity|lia].
  - destruct (sectors m !! s) as [p|] eqn:Ep; [|discriminate].
    intros HH. apply IH in HH. destruct HH as (A & H1 & H2). exists A.
    cbn in H1, H2. rewrite (zsum_delete _ _ _ Ep) in H2. split; [exact H1|lia].
Qed.

Lemma bind_ok {A B} (r : res A) (f : A -> res B) x :
  bind r f = Ok x -> exists a, r = Ok a /\ f a = Ok x.
Proof. destruct r; cbn; [eauto|discriminate]. Qed.

Definition same_meta (m m' : miner) : Prop := has_claim m' = has_claim m /\ cdep m' = cdep m.
Definition tx_good (m m' : miner) (d : Z) : Prop :=
  minv m' /\ ip m' + locked m' = ip m + locked m + d /\ same_meta m m'.

Ltac binds H :=
  repeat match type of H with
  | bind _ _ = Ok _ =>
      let a := fresh "a" in let H1 := fresh "B" in
      apply bind_ok in H; destruct H as (a & H1 & H)
  | (let '(_, _) := ?x in _) = Ok _ => destruct x
  end.

Ltac fin I :=
  destruct I; split; [constructor; cbn in *; try assumption; try lia
                     |split; [cbn in *; lia|split; reflexivity]].

Lemma tx_precommit_good m secs m' d : minv m -> tx_precommit m secs = Ok (m', d) -> tx_good m m' d.
Proof.
  intros I. unfold tx_precommit. destruct secs as [|x secs]; [discriminate|]. intros H.
  apply bind_ok in H. destruct H as ([m1 tot] & B1 & H).
  apply bind_ok in H. destruct H as (m2 & B2 & H). inv_ok H.
  apply pc_add_ok in B1. destruct B1 as (P & -> & S1 & S2).
  apply add_pcd_ok in B2. destruct B2 as (-> & S3). fin I.
Qed.

Lemma tx_prove_commit_good m secs m' d : minv m -> tx_prove_commit m secs = Ok (m', d) -> tx_good m m' d.
Proof.
  intros I. unfold tx_prove_commit. destruct secs as [|x secs]; [discriminate|].
  destruct (negb (all_precommitted m (x :: secs))); [discriminate|]. intros H.
  apply bind_ok in H. destruct H as ([[m1 dep] pl] & B1 & H).
  apply bind_ok in H. destruct H as (m2 & B2 & H).
  apply bind_ok in H. destruct H as (m3 & B3 & H). inv_ok H.
  apply prove_each_ok in B1. destruct B1 as (P & S & -> & S1 & S2 & S3).
  apply add_pcd_ok in B2. destruct B2 as (-> & S4).
  apply add_ip_ok in B3. destruct B3 as (-> & S5). fin I.
Qed.

Lemma tx_replica_update_good m ups m' d : minv m -> tx_replica_update m ups = Ok (m', d) -> tx_good m m' d.
Proof.
  intros I. unfold tx_replica_update. intros H.
  apply bind_ok in H. destruct H as ([m1 dd] & B1 & H).
  apply bind_ok in H. destruct H as (m2 & B2 & H). inv_ok H.
  apply update_each_ok in B1. destruct B1 as (S & -> & S1).
  apply add_ip_ok in B2. destruct B2 as (-> & S2). fin I.
Qed.

Lemma tx_apply_rewards_good m e r t m' d : minv m -> tx_apply_rewards m e r t = Ok (m', d) -> tx_good m m' d.
Proof.
  intros I. unfold tx_apply_rewards. destruct (r <? 0); [discriminate|]. intros H.
  apply bind_ok in H. destruct H as ([m1 nv] & B1 & H).
  apply bind_ok in H. destruct H as ([m2 tu] & B2 & H). inv_ok H.
  apply m_add_locked_ok in B1; [|apply I|apply I]. destruct B1 as (t1 & l1 & -> & L1 & L2 & L3 & L4 & L5 & L6).
  apply m_unlock_both_ok in B2; [|exact L2|exact L1]. destruct B2 as (t2 & l2 & -> & M1 & M2 & M3).
  cbn in M3. fin I.
Qed.

Lemma tx_withdraw_good m e m' d : minv m -> tx_withdraw m e = Ok (m', d) -> tx_good m m' d.
Proof.
  intros I. unfold tx_withdraw. destruct (negb (is_empty (awaiting m))); [discriminate|]. intros H.
  apply bind_ok in H. destruct H as ([m1 nv] & B1 & H). inv_ok H.
  apply m_unlock_vested_ok in B1; [|apply I|apply I]. destruct B1 as (t1 & l1 & -> & L1 & L2 & L3 & L4).
  fin I.
Qed.

Lemma tx_repay_good m e t m' d : minv m -> tx_repay m e t = Ok (m', d) -> tx_good m m' d.
Proof.
  intros I. unfold tx_repay. intros H.
  apply bind_ok in H. destruct H as ([m1 nv] & B1 & H). inv_ok H.
  apply m_unlock_both_ok in B1; [|apply I|apply I]. destruct B1 as (t1 & l1 & -> & L1 & L2 & L3).
  fin I.
Qed.

Lemma tx_process_early_good m e pr t m' d :
  minv m -> tx_process_early m e pr t = Ok (m', d) -> tx_good m m' d.
Proof.
  intros I. unfold tx_process_early. destruct pr as [|x pr].
  - intros H. inv_ok H. split; [exact I|split; [lia|split; reflexivity]].
  - intros H.
    apply bind_ok in H. destruct H as ([m1 tot] & B1 & H).
    apply bind_ok in H. destruct H as (m2 & B2 & H).
    apply bind_ok in H. destruct H as ([m3 tu] & B3 & H). inv_ok H.
    apply pop_each_ok in B1. destruct B1 as (A & -> & S1).
    apply add_ip_ok in B2. destruct B2 as (-> & S2).
    apply m_unlock_both_ok in B3; [|apply I|apply I]. destruct B3 as (t1 & l1 & -> & L1 & L2 & L3).
    cbn in L3. fin I.
Qed.

Lemma move_early_good m l m' : minv m -> move_early m l = Ok m' -> tx_good m m' 0.
Proof.
  intros I H. apply move_early_ok in H. destruct H as (S & A & -> & S1). fin I.
Qed.

Lemma tx_good_trans m m1 m2 d1 d2 : tx_good m m1 d1 -> tx_good m1 m2 d2 -> tx_good m m2 (d1 + d2).
Proof.
  intros (I1 & E1 & C1 & D1) (I2 & E2 & C2 & D2). split; [exact I2|split; [lia|split; congruence]].
Qed.

Lemma tx_terminate_good m e secs pr t m' d :
  minv m -> tx_terminate m e secs pr t = Ok (m', d) -> tx_good m m' d.
Proof.
  intros I. unfold tx_terminate. intros H.
  apply bind_ok in H. destruct H as (m1 & B1 & H).
  pose proof (move_early_good _ _ _ I B1) as G1.
  pose proof (tx_process_early_good _ _ _ _ _ _ (proj1 G1) H) as G2.
  replace d with (0 + d) by lia. eapply tx_good_trans; eassumption.
Qed.

Lemma tx_deadline_good m e ex on ea t m' d :
  minv m -> tx_deadline m e ex on ea t = Ok (m', d) -> tx_good m m' d.
Proof.
  intros I. unfold tx_deadline. intros H.
  apply bind_ok in H. destruct H as ([m1 burn] & B1 & H).
  apply bind_ok in H. destruct H as (m2 & B2 & H).
  apply bind_ok in H. destruct H as ([m3 rel] & B3 & H).
  apply bind_ok in H. destruct H as (m4 & B4 & H).
  apply bind_ok in H. destruct H as (m5 & B5 & H).
  apply bind_ok in H. destruct H as ([m6 tu] & B6 & H).
  apply bind_ok in H. destruct H as ([m7 nv] & B7 & H). inv_ok H.
  apply expire_precommits_ok in B1. destruct B1 as (P & -> & S1).
  apply add_pcd_ok in B2. destruct B2 as (-> & S2).
  apply expire_sectors_ok in B3. destruct B3 as (S & -> & S3).
  apply add_ip_ok in B4. destruct B4 as (-> & S4).
  assert (G4 : tx_good m (set_ip (set_sectors (set_pcd (set_precommits m P) (pcd (set_precommits m P) + - burn)) S)
                   (ip (set_sectors (set_pcd (set_precommits m P) (pcd (set_precommits m P) + - burn)) S) + - rel))
                 (- rel)) by (fin I).
  pose proof (move_early_good _ _ _ (proj1 G4) B5) as G5.
  pose proof (tx_good_trans _ _ _ _ _ G4 G5) as G45. destruct G45 as (I5 & E5 & C5).
  apply m_unlock_both_ok in B6; [|apply I5|apply I5]. destruct B6 as (t1 & l1 & -> & L1 & L2 & L3).
  apply m_unlock_vested_ok in B7; [|exact L2|exact L1]. destruct B7 as (t2 & l2 & -> & M1 & M2 & M3 & M4).
  cbn in M3. destruct C5 as [C5 D5]. destruct I5.
  split; [constructor; cbn in *; try assumption; try lia|split; [cbn in *; lia|split; cbn in *; assumption]].
Qed.

(* ------------------------------------------------------------------------------------------ *)
(* notification, phases, a whole miner method *)
Definition ok20 (s : send) : Prop := snd s <> ILLEGAL_STATE.

Lemma phase_ok m r claim t s0 K :
  minv m -> t = K + ip m + locked m -> 0 <= t ->
  (forall m' d, r = Ok (m', d) -> tx_good m m' d) ->
  (forall m'' t' s, phase r claim t s0 = (Ok (m'', t'), s) ->
     minv m'' /\ t' = K + ip m'' + locked m'' /\ 0 <= t' /\ same_meta m m'') /\
  (0 <= K -> Forall ok20 s0 -> Forall ok20 (snd (phase r claim t s0))).
Proof.
  intros I Ht H0 Hr. destruct r as [[m' d]|c]; cbn [phase].
  2:{ split; [intros ? ? ? H; discriminate|intros; assumption]. }
  destruct (Hr _ _ eq_refl) as (I' & E' & M'). unfold notify.
  pose proof (minv_locked0 _ I') as Hl'. pose proof (i_ip0 _ I') as Hi'.
  destruct (d =? 0) eqn:Ed; zb; cbn.
  - split.
    + intros ? ? ? H. inv_ok H. split; [exact I'|split; [lia|split; [lia|exact M']]].
    + intros _ Hs. rewrite app_nil_r. exact Hs.
  - destruct (negb claim); cbn.
    + split; [intros ? ? ? H; discriminate|].
      intros _ Hs. apply Forall_app. split; [exact Hs|]. constructor; [|constructor].
      unfold ok20, FORBIDDEN, ILLEGAL_STATE. cbn. lia.
    + destruct (t + d <? 0) eqn:Et; zb; cbn.
      * split; [intros ? ? ? H; discriminate|]. intros HK _. exfalso. lia.
      * split.
        -- intros ? ? ? H. inv_ok H. split; [exact I'|split; [lia|split; [lia|exact M']]].
        -- intros _ Hs. apply Forall_app. split; [exact Hs|]. constructor; [|constructor].
           unfold ok20, EOK, ILLEGAL_STATE. cbn. lia.
Qed.

Lemma exec_mop_ok m t e o K :
  minv m -> t = K + ip m + locked m -> 0 <= t ->
  (forall m' t' s, exec_mop m t e o = (Ok (m', t'), s) ->
     minv m' /\ t' = K + ip m' + locked m' /\ 0 <= t' /\ same_meta m m') /\
  (0 <= K -> Forall ok20 (snd (exec_mop m t e o))).
Proof.
  intros I Ht H0.
  assert (P1 : forall r, (forall m' d, r = Ok (m', d) -> tx_good m m' d) ->
     (forall m' t' s, phase r (has_claim m) t [] = (Ok (m', t'), s) ->
        minv m' /\ t' = K + ip m' + locked m' /\ 0 <= t' /\ same_meta m m') /\
     (0 <= K -> Forall ok20 (snd (phase r (has_claim m) t [])))).
  { intros r Hr. destruct (phase_ok m r (has_claim m) t [] K I Ht H0 Hr) as [A B].
    split; [exact A|]. intros HK. apply B; [exact HK|constructor]. }
  destruct o; cbn [exec_mop].
  - apply P1. intros ? ?. apply tx_precommit_good, I.
  - apply P1. intros ? ?. apply tx_prove_commit_good, I.
  - apply P1. intros ? ?. apply tx_replica_update_good, I.
  - apply P1. intros ? ?. apply tx_apply_rewards_good, I.
  - apply P1. intros ? ?. apply tx_withdraw_good, I.
  - apply P1. intros ? ?. apply tx_repay_good, I.
  - apply P1. intros ? ?. apply tx_terminate_good, I.
  - (* cron deadline: two phases *)
    destruct (P1 (tx_deadline m e expired_pc ontime early target))
      as [A1 B1]; [intros ? ?; apply tx_deadline_good, I|].
    destruct (phase (tx_deadline m e expired_pc ontime early target) (has_claim m) t [])
      as [[[m1 t1]|c] s1] eqn:E1.
    2:{ split; [intros ? ? ? H; discriminate|]. intros HK. apply B1, HK. }
    destruct (A1 _ _ _ eq_refl) as (I1 & T1 & P0 & M1).
    destruct (negb (negb (is_empty (awaiting m))) && negb (is_empty (awaiting m1))).
    + destruct (phase_ok m1 (tx_process_early m1 e processed target2) (has_claim m) t1 s1 K I1 T1 P0)
        as [A2 B2]; [intros ? ?; apply tx_process_early_good, I1|].
      split.
      * intros m' t' s H. destruct (A2 _ _ _ H) as (I2 & T2 & P2 & M2).
        split; [exact I2|split; [exact T2|split; [exact P2|destruct M1, M2; split; congruence]]].
      * intros HK. apply B2; [exact HK|]. apply (B1 HK).
    + split.
      * intros m' t' s H. injection H as <- <- <-. split; [exact I1|split; [exact T1|split; [exact P0|exact M1]]].
      * intros HK. apply (B1 HK).
  - apply P1. intros ? ?. apply tx_process_early_good, I.
  - apply P1. intros ? ? H. inv_ok H. split; [exact I|split; [lia|split; reflexivity]].
Qed.

(* ------------------------------------------------------------------------------------------ *)
(* the network *)
Lemma msum_nonneg {A} (f : A -> Z) (m : gmap N A) :
  (forall k v, m !! k = Some v -> 0 <= f v) -> 0 <= msum f m.
Proof.
  induction m as [|k v m Hk IH] using map_ind; intros H.
  - rewrite msum_empty. lia.
  - rewrite msum_insert_new by exact Hk.
    assert (0 <= f v) by (apply (H k); apply lookup_insert).
    assert (0 <= msum f m).
    { apply IH. intros k' v' Hk'. apply (H k'). rewrite lookup_insert_ne; [exact Hk'|].
      intros ->. rewrite Hk in Hk'. discriminate. }
    lia.
Qed.

Record sinv (st : state) : Prop := {
  s_miners : forall k mi, miners st !! k = Some mi -> minv mi;
  s_total : total st = net_sum st - dep_sum st;
  s_nonneg : 0 <= total st;
}.

Lemma sinv_init : sinv init.
Proof.
  constructor; cbn.
  - intros k mi H. rewrite lookup_empty in H. discriminate.
  - unfold net_sum, dep_sum. cbn. rewrite !msum_empty. lia.
  - lia.
Qed.

Lemma sinv_update st m mi mi' t' :
  sinv st -> miners st !! m = Some mi -> minv mi' -> cdep mi' = cdep mi ->
  t' = total st - (ip mi + locked mi) + (ip mi' + locked mi') -> 0 <= t' ->
  sinv (mkState (<[m := mi']> (miners st)) t').
Proof.
  intros [S1 S2 S3] Hm I' Hc Ht H0. constructor; cbn.
  - intros k x. destruct (decide (k = m)) as [->|Hne].
    + rewrite lookup_insert. intros H. inv_ok H. exact I'.
    + rewrite lookup_insert_ne by congruence. apply S1.
  - unfold net_sum, dep_sum in *. cbn. rewrite !msum_insert, Hm. cbn. lia.
  - exact H0.
Qed.

Lemma call_ok st m e ext o st' c s :
  sinv st -> call st m e ext o = (st', c, s) ->
  sinv st' /\ dep_sum st' = dep_sum st /\ (c <> 0 -> st' = st).
Proof.
  intros I. unfold call. destruct (miners st !! m) as [mi|] eqn:Hm.
  2:{ intros H. inv_ok H. auto. }
  destruct (negb (ext =? 0)); [intros H; inv_ok H; auto|].
  pose proof (s_miners _ I _ _ Hm) as Imi.
  destruct (exec_mop_ok mi (total st) e o (total st - ip mi - locked mi) Imi ltac:(lia) (s_nonneg _ I))
    as [A _].
  destruct (exec_mop mi (total st) e o) as [[[mi' t']|c'] s'] eqn:E.
  - destruct (A _ _ _ eq_refl) as (I' & T' & P' & M1 & M2). intros H. inv_ok H.
    split; [|split; [|intros X; exfalso; apply X; reflexivity]].
    + eapply sinv_update; eauto. lia.
    + unfold dep_sum. cbn. rewrite msum_insert, Hm. cbn. lia.
  - intros H. inv_ok H. auto.
Qed.

Lemma sinv_set_claim st m mi b :
  sinv st -> miners st !! m = Some mi ->
  sinv (mkState (<[m := set_claim mi b]> (miners st)) (total st)) /\
  dep_sum (mkState (<[m := set_claim mi b]> (miners st)) (total st)) = dep_sum st.
Proof.
  intros I Hm. pose proof (s_miners _ I _ _ Hm) as Imi. split.
  - eapply sinv_update; eauto.
    + destruct Imi. constructor; cbn; assumption.
    + cbn. lia.
    + apply (s_nonneg _ I).
  - unfold dep_sum. cbn. rewrite msum_insert, Hm. cbn. lia.
Qed.

Lemma drop_claims_ok failed : forall ms t,
  sinv (mkState ms t) ->
  sinv (mkState (drop_claims ms failed) t) /\
  dep_sum (mkState (drop_claims ms failed) t) = dep_sum (mkState ms t).
Proof.
  induction failed as [|m r IH]; intros ms t I; cbn [drop_claims]; [auto|].
  destruct (ms !! m) as [mi|] eqn:Hm.
  - destruct (sinv_set_claim (mkState ms t) m mi false I Hm) as [I1 D1]. cbn in I1, D1.
    destruct (IH _ _ I1) as [I2 D2]. split; [exact I2|congruence].
  - apply IH, I.
Qed.

Lemma tick_loop_ok cbs : forall st e codes sends failed st' codes' sends' failed',
  sinv st -> tick_loop st e cbs codes sends failed = (st', codes', sends', failed') ->
  sinv st' /\ dep_sum st' = dep_sum st.
Proof.
  induction cbs as [|[[m ext] o] cbs IH]; intros st e codes sends failed st' codes' sends' failed' I;
    cbn [tick_loop].
  - intros H. inv_ok H. auto.
  - destruct (call st m e ext o) as [[st1 c1] s1] eqn:E.
    destruct (call_ok _ _ _ _ _ _ _ _ I E) as (I1 & D1 & _).
    intros H. destruct (IH _ _ _ _ _ _ _ _ _ I1 H) as (I2 & D2). split; [exact I2|congruence].
Qed.

Lemma tick_ok st e cbs st' codes sends :
  sinv st -> tick st e cbs = (st', codes, sends) -> sinv st' /\ dep_sum st' = dep_sum st.
Proof.
  intros I. unfold tick. destruct (tick_loop st e cbs [] [] []) as [[[st1 c1] s1] f1] eqn:E.
  destruct (tick_loop_ok _ _ _ _ _ _ _ _ _ _ I E) as (I1 & D1). intros H. inv_ok H.
  destruct st1 as [ms1 t1]. destruct (drop_claims_ok f1 ms1 t1 I1) as [I2 D2]. cbn in *.
  split; [exact I2|congruence].
Qed.

Lemma create_miner_ok st m e d p st' :
  sinv st -> create_miner st m e d p = Ok st' -> sinv st'.
Proof.
  intros I. unfold create_miner. destruct (miners st !! m) eqn:Hm; [discriminate|].
  destruct (d <? 0) eqn:Ed; [discriminate|]. zb. intros H.
  apply bind_ok in H. destruct H as ([m1 u] & B1 & H). inv_ok H.
  apply m_add_locked_ok in B1; [|constructor|reflexivity].
  destruct B1 as (t1 & l1 & -> & L1 & L2 & L3 & L4 & L5 & L6). cbn in *.
  destruct I as [S1 S2 S3]. constructor; cbn.
  - intros k x. destruct (decide (k = m)) as [->|Hne].
    + rewrite lookup_insert. intros H. inv_ok H. constructor; cbn; try assumption; try lia.
      * unfold zsum. rewrite !msum_empty. lia.
      * unfold zsum. rewrite msum_empty. lia.
      * reflexivity.
    + rewrite lookup_insert_ne by congruence. apply S1.
  - unfold net_sum, dep_sum in *. cbn. rewrite !msum_insert_new by exact Hm. cbn. lia.
  - exact S3.
Qed.

Lemma step_ok st o : sinv st -> sinv (fst (fst (step st o))).
Proof.
  intros I. destruct o as [m e d p ext|m e ext o|e cbs]; cbn [step].
  - destruct (negb (ext =? 0)); [exact I|].
    destruct (create_miner st m e d p) eqn:E; cbn; [|exact I]. eapply create_miner_ok; eauto.
  - destruct (call st m e ext o) as [[st' c] s] eqn:E. cbn.
    apply (call_ok _ _ _ _ _ _ _ _ I E).
  - destruct (tick st e cbs) as [[st' c] s] eqn:E. cbn.
    apply (tick_ok _ _ _ _ _ _ I E).
Qed.

Theorem reachable_inv ops : forall st, sinv st -> sinv (run st ops).
Proof.
  induction ops as [|o ops IH]; intros st I; [exact I|]. cbn [run fold_left].
  apply IH. apply step_ok, I.
Qed.

(* ------------------------------------------------------------------------------------------ *)
(* the clauses of C03 *)
Definition reachable (st : state) : Prop := exists ops, st = run init ops.

Lemma reachable_sinv st : reachable st -> sinv st.
Proof. intros [ops ->]. apply reachable_inv, sinv_init. Qed.

Theorem ip_ledger_exact ops m mi :
  miners (run init ops) !! m = Some mi -> ip mi = zsum (sectors mi) + zsum (awaiting mi).
Proof. intros H. apply (i_ip _ (s_miners _ (reachable_inv ops _ sinv_init) _ _ H)). Qed.

Theorem pcd_ledger_exact ops m mi :
  miners (run init ops) !! m = Some mi -> pcd mi = zsum (precommits mi).
Proof. intros H. apply (i_pcd _ (s_miners _ (reachable_inv ops _ sinv_init) _ _ H)). Qed.

Theorem locked_ledger_exact ops m mi :
  miners (run init ops) !! m = Some mi -> locked mi = tbl_sum (vest mi).
Proof. intros H. apply (i_locked _ (s_miners _ (reachable_inv ops _ sinv_init) _ _ H)). Qed.

Theorem totals_nonneg ops m mi :
  miners (run init ops) !! m = Some mi -> 0 <= ip mi /\ 0 <= pcd mi /\ 0 <= locked mi.
Proof.
  intros H. pose proof (s_miners _ (reachable_inv ops _ sinv_init) _ _ H) as I.
  split; [apply I|split; [apply I|apply minv_locked0, I]].
Qed.

Theorem network_pledge_exact_modulo_deposit ops :
  total (run init ops) = net_sum (run init ops) - dep_sum (run init ops).
Proof. apply (s_total _ (reachable_inv ops _ sinv_init)). Qed.

Theorem network_pledge_nonneg ops : 0 <= total (run init ops).
Proof. apply (s_nonneg _ (reachable_inv ops _ sinv_init)). Qed.

(* a rejected miner method changes nothing at all *)
Theorem rejected_call_changes_nothing st m e ext o st' c s :
  call st m e ext o = (st', c, s) -> c <> 0 -> st' = st.
Proof.
  unfold call. destruct (miners st !! m); [|intros H; inv_ok H; auto].
  destruct (negb (ext =? 0)); [intros H; inv_ok H; auto|].
  destruct (exec_mop m0 (total st) e o) as [[[mi' t']|c'] s']; intros H; inv_ok H; auto.
  intros X. exfalso. apply X. reflexivity.
Qed.

(* after the callbacks of a tick, the power actor only clears the claim bit of the miners whose callback
   failed; nothing else of any miner changes *)
Lemma set_claim_idem mi : set_claim (set_claim mi false) false = set_claim mi false.
Proof. destruct mi; reflexivity. Qed.

Theorem failed_cron_only_drops_claim failed : forall ms k,
  drop_claims ms failed !! k =
  match ms !! k with
  | Some mi => Some (if bool_decide (k ∈ failed) then set_claim mi false else mi)
  | None => None
  end.
Proof.
  induction failed as [|m r IH]; intros ms k; cbn [drop_claims].
  - destruct (ms !! k); [|reflexivity]. rewrite bool_decide_eq_false_2; [reflexivity|]. apply not_elem_of_nil.
  - rewrite IH. destruct (decide (k = m)) as [->|Hne].
    + destruct (ms !! m) as [mi|] eqn:Hm.
      * rewrite lookup_insert. rewrite (bool_decide_eq_true_2 (m ∈ m :: r)) by apply elem_of_list_here.
        destruct (bool_decide (m ∈ r)); [rewrite set_claim_idem|]; reflexivity.
      * rewrite Hm. reflexivity.
    + assert (E : (match ms !! m with Some mi => <[m := set_claim mi false]> ms | None => ms end) !! k = ms !! k).
      { destruct (ms !! m); [rewrite lookup_insert_ne by congruence|]; reflexivity. }
      rewrite E. destruct (ms !! k); [|reflexivity].
      destruct (decide (k ∈ r)) as [Hr|Hr].
      * rewrite !bool_decide_eq_true_2; [reflexivity|apply elem_of_list_further, Hr|exact Hr].
      * rewrite !bool_decide_eq_false_2; [reflexivity| |exact Hr].
        intros Hin. apply elem_of_cons in Hin. destruct Hin; [congruence|contradiction].
Qed.

(* --- pledge_update_never_blocks: the true variants --- *)
Lemma blocked_false_iff st o : blocked st o = false <-> Forall ok20 (snd (step st o)).
Proof.
  unfold blocked. generalize (snd (step st o)). intros l. induction l as [|x l IH]; cbn.
  - split; [constructor|reflexivity].
  - rewrite orb_false_iff, IH. split.
    + intros [H1 H2]. constructor; [|exact H2]. unfold ok20. zb. exact H1.
    + intros H. inversion H; subst. split; [|assumption]. apply Z.eqb_neq. assumption.
Qed.

Lemma others_nonneg st m mi :
  sinv st -> miners st !! m = Some mi -> 0 <= net_sum st - (ip mi + locked mi).
Proof.
  intros I Hm. unfold net_sum.
  rewrite <- (msum_delete (fun mi => ip mi + locked mi) (miners st) m mi Hm).
  apply msum_nonneg. intros k v Hk. apply lookup_delete_Some in Hk. destruct Hk as [_ Hk].
  pose proof (s_miners _ I _ _ Hk) as Iv. pose proof (minv_locked0 _ Iv). pose proof (i_ip0 _ Iv). lia.
Qed.

(* an update of miner m is never refused for a negative total when the collateral of the OTHER
   miners covers the creation deposits that were never added to the total *)
Lemma call_not_blocked st m e ext o :
  sinv st ->
  (forall mi, miners st !! m = Some mi -> dep_sum st <= net_sum st - (ip mi + locked mi)) ->
  Forall ok20 (snd (call st m e ext o)).
Proof.
  intros I Hc. unfold call. destruct (miners st !! m) as [mi|] eqn:Hm; [|constructor].
  destruct (negb (ext =? 0)); [constructor|].
  pose proof (s_miners _ I _ _ Hm) as Imi. specialize (Hc _ eq_refl).
  destruct (exec_mop_ok mi (total st) e o (total st - ip mi - locked mi) Imi ltac:(lia) (s_nonneg _ I))
    as [_ B].
  assert (HK : 0 <= total st - ip mi - locked mi) by (rewrite (s_total _ I); lia).
  specialize (B HK).
  destruct (exec_mop mi (total st) e o) as [[[mi' t']|c'] s']; exact B.
Qed.

Lemma call_not_blocked_nodep st m e ext o :
  sinv st -> dep_sum st = 0 -> Forall ok20 (snd (call st m e ext o)).
Proof.
  intros I Hd. apply call_not_blocked; [exact I|]. intros mi Hm. rewrite Hd.
  apply (others_nonneg st m mi); assumption.
Qed.

Lemma tick_loop_not_blocked cbs : forall st e codes sends failed,
  sinv st -> dep_sum st = 0 -> Forall ok20 sends ->
  Forall ok20 (snd (fst (tick_loop st e cbs codes sends failed))).
Proof.
  induction cbs as [|[[m ext] o] cbs IH]; intros st e codes sends failed I Hd Hs; cbn [tick_loop]; [exact Hs|].
  pose proof (call_not_blocked_nodep st m e ext o I Hd) as Hn.
  destruct (call st m e ext o) as [[st1 c1] s1] eqn:E. cbn in Hn.
  destruct (call_ok _ _ _ _ _ _ _ _ I E) as (I1 & D1 & _).
  apply IH; [exact I1|congruence|]. apply Forall_app. split; assumption.
Qed.

Lemma tick_not_blocked st e cbs :
  sinv st -> dep_sum st = 0 -> Forall ok20 (snd (tick st e cbs)).
Proof.
  intros I Hd. unfold tick.
  pose proof (tick_loop_not_blocked cbs st e [] [] [] I Hd ltac:(constructor)) as H.
  destruct (tick_loop st e cbs [] [] []) as [[[st1 c1] s1] f1]. exact H.
Qed.

Theorem never_blocks_without_creation_deposit ops o :
  dep_sum (run init ops) = 0 -> blocked (run init ops) o = false.
Proof.
  intros Hd. apply blocked_false_iff. pose proof (reachable_inv ops _ sinv_init) as I.
  destruct o as [m e d p ext|m e ext o|e cbs]; cbn [step].
  - destruct (negb (ext =? 0)); [constructor|]. destruct (create_miner _ m e d p); constructor.
  - pose proof (call_not_blocked_nodep _ m e ext o I Hd) as H.
    destruct (call _ m e ext o) as [[st' c] s]. exact H.
  - apply tick_not_blocked; [exact I|exact Hd].
Qed.

Theorem never_blocks_when_others_cover ops m e ext o mi :
  miners (run init ops) !! m = Some mi ->
  dep_sum (run init ops) <= net_sum (run init ops) - (ip mi + locked mi) ->
  blocked (run init ops) (Call m e ext o) = false.
Proof.
  intros Hm Hc. apply blocked_false_iff. pose proof (reachable_inv ops _ sinv_init) as I. cbn [step].
  pose proof (call_not_blocked _ m e ext o I) as H.
  destruct (call _ m e ext o) as [[st' c] s]. apply H. intros mi' Hm'. rewrite Hm in Hm'. inv_ok Hm'. exact Hc.
Qed.

(* pledge is released when an early termination is PROCESSED, not when it is queued *)
Theorem queued_termination_keeps_pledge m l m' :
  move_early m l = Ok m' ->
  ip m' = ip m /\ locked m' = locked m /\
  zsum (sectors m') + zsum (awaiting m') = zsum (sectors m) + zsum (awaiting m).
Proof.
  intros H. apply move_early_ok in H. destruct H as (S & A & -> & S1). cbn. auto.
Qed.

Theorem processed_termination_releases_pledge m e pr t m' d :
  minv m -> tx_process_early m e pr t = Ok (m', d) ->
  ip m' = ip m - (zsum (awaiting m) - zsum (awaiting m')) /\ sectors m' = sectors m /\
  d = (ip m' - ip m) + (locked m' - locked m).
Proof.
  intros I. unfold tx_process_early. destruct pr as [|x pr].
  - intros H. inv_ok H. repeat split; lia.
  - intros H.
    apply bind_ok in H. destruct H as ([m1 tot] & B1 & H).
    apply bind_ok in H. destruct H as (m2 & B2 & H).
    apply bind_ok in H. destruct H as ([m3 tu] & B3 & H). inv_ok H.
    apply pop_each_ok in B1. destruct B1 as (A & -> & S1).
    apply add_ip_ok in B2. destruct B2 as (-> & S2).
    apply m_unlock_both_ok in B3; [|apply I|apply I]. destruct B3 as (t1 & l1 & -> & L1 & L2 & L3).
    cbn in *. repeat split; lia.
Qed.

(* a sector named twice in a prove-commit batch: the whole batch is rejected *)
Lemma prove_each_fresh l : forall m dep pl r s,
  precommits m !! s = None -> prove_each m l dep pl = Ok r -> s ∉ map fst l.
Proof.
  induction l as [|[s' p] l IH]; intros m dep pl r s Hs; cbn [prove_each map fst].
  - intros _. apply not_elem_of_nil.
  - destruct (p <? 0); [discriminate|].
    destruct (precommits m !! s') as [d|] eqn:Ed; [|discriminate].
    destruct (has (sectors m) s' || has (awaiting m) s'); [discriminate|].
    intros H. apply not_elem_of_cons. split.
    + intros ->. rewrite Hs in Ed. discriminate.
    + eapply IH; [|exact H]. cbn. destruct (decide (s = s')) as [->|Hne].
      * apply lookup_delete.
      * rewrite lookup_delete_ne by congruence. exact Hs.
Qed.

Lemma prove_each_nodup l : forall m dep pl r,
  prove_each m l dep pl = Ok r -> base.NoDup (map fst l).
Proof.
  induction l as [|[s p] l IH]; intros m dep pl r; cbn [prove_each map fst].
  - intros _. constructor.
  - destruct (p <? 0); [discriminate|].
    destruct (precommits m !! s) as [d|] eqn:Ed; [|discriminate].
    destruct (has (sectors m) s || has (awaiting m) s); [discriminate|].
    intros H. apply NoDup_cons_2.
    + eapply prove_each_fresh; [|exact H]. cbn. apply lookup_delete.
    + eapply IH. exact H.
Qed.

Theorem duplicate_prove_commit_aborts m s p1 p2 l1 l2 l3 r :
  tx_prove_commit m (l1 ++ (s, p1) :: l2 ++ (s, p2) :: l3) = Ok r -> False.
Proof.
  unfold tx_prove_commit. destruct (l1 ++ (s, p1) :: l2 ++ (s, p2) :: l3) as [|x l] eqn:El; [discriminate|].
  rewrite <- El. destruct (negb (all_precommitted m _)); [discriminate|]. intros H.
  apply bind_ok in H. destruct H as (a & B1 & _). apply prove_each_nodup in B1.
  rewrite map_app in B1. apply list.NoDup_app in B1. destruct B1 as (_ & _ & B1).
  cbn [map fst] in B1. apply list.NoDup_cons in B1. destruct B1 as [B1 _]. apply B1.
  rewrite map_app. apply elem_of_app. right. cbn. apply elem_of_list_here.
Qed.
