(* C07 -- deal payments are exact and independent of the settlement schedule.
   The escrow table is, at every reachable state, equal to
       deposits - withdrawals + (closed-form payments of every deal ever published)
   where the closed form of a deal depends only on its proposal and on where it stands (paid-until epoch
   while live; completed / terminated at t / never activated once gone) -- not on how many settlements,
   cron ticks or in which order they happened. *)
From stdpp Require Import gmap.
From Coq Require Import ZArith List Bool Lia.
From VF Require Import Gen.Consts Gen.MarketConsts Base.Corr Model.Market
  Proofs.MarketBase_lemmas Proofs.Market_lemmas.
Import ListNotations.
Open Scope Z_scope.

(* how a deal left the tables *)
Inductive fate := FCompleted | FTerminated (t : Z) | FTimedOut.

(* what the provider has earned from the deal in total / what was burnt of its collateral *)
Definition earned_final (p : proposal) (f : fate) : Z :=
  match f with
  | FCompleted => p_price p * (p_end p - p_start p)
  | FTerminated t => p_price p * Z.max 0 (Z.min (p_end p) t - p_start p)
  | FTimedOut => 0
  end.
Definition burnt_final (p : proposal) (f : fate) : Z :=
  match f with FCompleted => 0 | _ => p_pcoll p end.

(* net escrow movement for participant a of a deal that has paid e and forfeited b *)
Definition flow (a : Z) (p : proposal) (e b : Z) : Z :=
  ind a (p_provider p) (e - b) - ind a (p_client p) e.
Definition live_flow (a : Z) (pu : Z) (p : proposal) : Z := flow a p (p_price p * (pu - p_start p)) 0.
Definition gone_flow (a : Z) (_ : Z) (x : proposal * fate) : Z :=
  flow a (fst x) (earned_final (fst x) (snd x)) (burnt_final (fst x) (snd x)).
Definition gone_burnt (_ : Z) (x : proposal * fate) : Z := burnt_final (fst x) (snd x).

Record LedC (P : gmap Z proposal) (S : gmap Z dstate) (Ef : Z -> Z) (G : gmap Z (proposal * fate))
    (dep wd : Z -> Z) (bt nid : Z) : Prop := {
  l_E : forall a, Ef a = dep a - wd a + osum (live_flow a) P S + msum (gone_flow a) G;
  l_burnt : bt <= msum gone_burnt G;
  l_disj : forall id, G !! id <> None -> P !! id = None /\ id < nid
}.

Lemma flow_split a p e b x s :
  flow a p (e + x) (b + s) = flow a p e b - ind a (p_client p) x + ind a (p_provider p) (x - s).
Proof.
  unfold flow. replace (e + x - (b + s)) with ((e - b) + (x - s)) by lia. rewrite !ind_add. lia.
Qed.

Lemma ledc_G_fresh P S Ef G dep wd bt nid id p :
  LedC P S Ef G dep wd bt nid -> P !! id = Some p -> G !! id = None.
Proof.
  intros [] Hp. destruct (G !! id) eqn:Hg; [|reflexivity].
  destruct (l_disj0 id) as [Hn _]; congruence.
Qed.

Lemma ledc_remove P S Ef G dep wd bt nid id p f x s sl Ef' :
  LedC P S Ef G dep wd bt nid -> P !! id = Some p -> id < nid ->
  let pu := paid_until (S !! id) p in
  earned_final p f = p_price p * (pu - p_start p) + x -> burnt_final p f = s -> sl <= s ->
  (forall a, Ef' a = Ef a - ind a (p_client p) x + ind a (p_provider p) (x - s)) ->
  LedC (delete id P) (delete id S) Ef' (<[id:=(p, f)]> G) dep wd (bt + sl) nid.
Proof.
  intros L Hp Hid pu He Hb Hsl HE. pose proof (ledc_G_fresh _ _ _ _ _ _ _ _ _ _ L Hp) as Hg. destruct L.
  assert (Hd : delete id P !! id = None) by apply lookup_delete.
  constructor.
  - intros a. rewrite HE, l_E0, (osum_delete _ P S id p Hp), (osum_S_delete _ (delete id P) S id Hd).
    rewrite msum_insert by exact Hg. fold pu.
    change (gone_flow a id (p, f)) with (flow a p (earned_final p f) (burnt_final p f)).
    rewrite He, Hb. unfold live_flow.
    replace s with (0 + s) at 2 by lia. rewrite flow_split. lia.
  - rewrite msum_insert by exact Hg. change (gone_burnt id (p, f)) with (burnt_final p f). lia.
  - intros k Hk. destruct (Z.eq_dec k id) as [->|Hne].
    + split; [apply lookup_delete|exact Hid].
    + rewrite lookup_insert_ne in Hk by congruence. destruct (l_disj0 k Hk) as [H1 H2].
      split; [|exact H2]. rewrite lookup_delete_ne by congruence. exact H1.
Qed.

Lemma ledc_update P S Ef G dep wd bt nid id p ds' Ef' :
  LedC P S Ef G dep wd bt nid -> P !! id = Some p ->
  let x := p_price p * (paid_until (Some ds') p - paid_until (S !! id) p) in
  (forall a, Ef' a = Ef a - ind a (p_client p) x + ind a (p_provider p) x) ->
  LedC P (<[id:=ds']> S) Ef' G dep wd bt nid.
Proof.
  intros [] Hp x HE. constructor; auto.
  intros a. rewrite HE, l_E0, (osum_S_insert _ P S id p ds' Hp). unfold live_flow.
  pose proof (flow_split a p (p_price p * (paid_until (S !! id) p - p_start p)) 0 x 0) as Hf.
  rewrite Z.add_0_r, Z.sub_0_r in Hf.
  replace (p_price p * (paid_until (Some ds') p - p_start p))
    with (p_price p * (paid_until (S !! id) p - p_start p) + x) by (unfold x; lia).
  rewrite Hf. lia.
Qed.

Lemma ledc_ext P S Ef Ef' G dep dep' wd wd' bt nid :
  LedC P S Ef G dep wd bt nid -> (forall a, Ef' a = Ef a) -> (forall a, dep' a = dep a) ->
  (forall a, wd' a = wd a) -> LedC P S Ef' G dep' wd' bt nid.
Proof. intros [] H1 H2 H3. constructor; auto. intros a. rewrite H1, H2, H3. apply l_E0. Qed.

Lemma ledc_insert P S Ef G dep wd bt nid p :
  LedC P S Ef G dep wd bt nid -> P !! nid = None -> S !! nid = None ->
  LedC (<[nid:=p]> P) S Ef G dep wd bt (nid + 1).
Proof.
  intros [] Hp Hs. constructor; auto.
  - intros a. rewrite l_E0, (osum_insert _ P S nid p Hp), Hs. cbn [paid_until]. unfold live_flow, flow.
    rewrite Z.sub_diag, Z.mul_0_r, Z.sub_0_r, !ind_0. lia.
  - intros k Hk. destruct (l_disj0 k Hk) as [H1 H2]. split; [|lia].
    rewrite lookup_insert_ne by lia. exact H1.
Qed.

Lemma ledc_money P S Ef G dep wd bt nid who v dep' wd' Ef' dv wv :
  LedC P S Ef G dep wd bt nid ->
  (forall a, dep' a = dep a + ind a who dv) -> (forall a, wd' a = wd a + ind a who wv) ->
  (forall a, Ef' a = Ef a + ind a who v) -> v = dv - wv ->
  LedC P S Ef' G dep' wd' bt nid.
Proof.
  intros [] H1 H2 H3 ->. constructor; auto.
  intros a. rewrite H3, H1, H2, l_E0. replace (dv - wv) with (dv + - wv) by lia. rewrite ind_add.
  assert (ind a who (- wv) = - ind a who wv) by (unfold ind; destruct (a =? who); lia). lia.
Qed.

(* ------------------------------------------------------------------------------------------ *)
(* what one deal-level step of a handler does *)
Definition fate_by (term : option Z) (os : option dstate) : fate :=
  match term with
  | Some pe => FTerminated pe
  | None => match os with Some _ => FCompleted | None => FTimedOut end
  end.

Inductive ev (term : option Z) (S : gmap Z dstate) (st st' : state) (S' : gmap Z dstate) (sl : Z) : Prop :=
| ev_nop :
    proposals st' = proposals st -> (forall a, E st' a = E st a) -> S' = S -> sl = 0 -> ev term S st st' S' sl
| ev_remove id p x s :
    proposals st !! id = Some p -> proposals st' = delete id (proposals st) -> S' = delete id S ->
    (forall a, E st' a = E st a - ind a (p_client p) x + ind a (p_provider p) (x - s)) ->
    earned_final p (fate_by term (S !! id)) = p_price p * (paid_until (S !! id) p - p_start p) + x ->
    burnt_final p (fate_by term (S !! id)) = s -> sl <= s ->
    ev term S st st' S' sl
| ev_update id p ds' :
    proposals st !! id = Some p -> proposals st' = proposals st -> S' = <[id:=ds']> S -> sl = 0 ->
    S !! id <> None ->
    (forall a, E st' a = E st a
                 - ind a (p_client p) (p_price p * (paid_until (Some ds') p - paid_until (S !! id) p))
                 + ind a (p_provider p) (p_price p * (paid_until (Some ds') p - paid_until (S !! id) p))) ->
    ev term S st st' S' sl.

(* the deals removed since the start of the handler, with the fate the handler's kind implies *)
Definition gone_new (term : option Z) (st0 : state) (P' : gmap Z proposal) : gmap Z (proposal * fate) :=
  map_imap (fun id p => match P' !! id with
                        | None => Some (p, fate_by term (states st0 !! id))
                        | Some _ => None
                        end) (proposals st0).

Lemma gone_new_lookup term st0 P' id :
  gone_new term st0 P' !! id =
  match proposals st0 !! id with
  | Some p => match P' !! id with None => Some (p, fate_by term (states st0 !! id)) | Some _ => None end
  | None => None
  end.
Proof. unfold gone_new. rewrite map_lookup_imap. destruct (proposals st0 !! id); reflexivity. Qed.

Lemma gone_new_same term st0 P' :
  (forall id p, proposals st0 !! id = Some p -> P' !! id <> None) -> gone_new term st0 P' = ∅.
Proof.
  intros H. apply map_eq. intros id. rewrite gone_new_lookup, lookup_empty.
  destruct (proposals st0 !! id) as [p|] eqn:Hp; [|reflexivity].
  specialize (H id p Hp). destruct (P' !! id); [reflexivity|contradiction].
Qed.

Lemma gone_new_delete term st0 P' id p :
  proposals st0 !! id = Some p -> P' !! id <> None ->
  gone_new term st0 (delete id P') = <[id := (p, fate_by term (states st0 !! id))]> (gone_new term st0 P').
Proof.
  intros Hp Hl. apply map_eq. intros k. rewrite gone_new_lookup.
  destruct (Z.eq_dec k id) as [->|Hne].
  - rewrite lookup_insert, Hp, lookup_delete. reflexivity.
  - rewrite lookup_insert_ne by congruence. rewrite gone_new_lookup, lookup_delete_ne by congruence. reflexivity.
Qed.

(* the loop invariant shared by settle_deal_payments, cron_tick and on_miner_sectors_terminate *)
Record LoopLed (term : option Z) (st0 : state) (G0 : gmap Z (proposal * fate)) (dep wd : Z -> Z)
    (cur : state) (S : gmap Z dstate) (owed : Z) : Prop := {
  ll_led : LedC (proposals cur) S (E cur) (G0 ∪ gone_new term st0 (proposals cur)) dep wd
                (burnt st0 + owed) (next_id st0);
  ll_sub : forall id p, proposals cur !! id = Some p -> proposals st0 !! id = Some p;
  ll_S : forall id, proposals cur !! id <> None -> (S !! id = None <-> states st0 !! id = None);
  ll_G0 : forall id, G0 !! id <> None -> proposals st0 !! id = None;
  ll_nid : forall id p, proposals st0 !! id = Some p -> id < next_id st0
}.

Lemma fate_by_None_iff term a b : (a = None <-> b = None) -> fate_by term a = fate_by term b.
Proof. intros H. unfold fate_by. destruct term; [reflexivity|]. destruct a, b; try reflexivity; intuition congruence. Qed.

Lemma loopled_step term st0 G0 dep wd cur S owed cur' S' sl :
  LoopLed term st0 G0 dep wd cur S owed -> ev term S cur cur' S' sl ->
  LoopLed term st0 G0 dep wd cur' S' (owed + sl).
Proof.
  intros [Hl Hsub HS HG0 Hnid] Hev. destruct Hev as [HP HE -> ->|id p x s Hp HP -> HE Hea Hbu Hsl|id p ds' Hp HP -> -> Hsome HE].
  - rewrite Z.add_0_r. constructor; [|rewrite HP; exact Hsub|rewrite HP; exact HS|exact HG0|exact Hnid].
    rewrite HP. eapply ledc_ext; [exact Hl|exact HE|reflexivity|reflexivity].
  - pose proof (Hsub id p Hp) as Hp0.
    assert (Hlive : proposals cur !! id <> None) by congruence.
    constructor; [| | |exact HG0|exact Hnid].
    + rewrite HP, (gone_new_delete term st0 (proposals cur) id p Hp0 Hlive).
      rewrite <- insert_union_r.
      2:{ destruct (G0 !! id) eqn:Hg; [|reflexivity]. rewrite (HG0 id) in Hp0 by congruence. discriminate. }
      rewrite (fate_by_None_iff term (states st0 !! id) (S !! id)) by (symmetry; apply HS; exact Hlive).
      replace (burnt st0 + (owed + sl)) with (burnt st0 + owed + sl) by lia.
      eapply ledc_remove; [exact Hl|exact Hp|eapply Hnid; exact Hp0|exact Hea|exact Hbu|exact Hsl|exact HE].
    + intros k q Hk. rewrite HP in Hk. apply lookup_delete_Some in Hk as [_ Hk]. eauto.
    + intros k Hk. rewrite HP in Hk. destruct (Z.eq_dec k id) as [->|Hne].
      * rewrite lookup_delete in Hk. contradiction.
      * rewrite lookup_delete_ne in Hk by congruence. rewrite lookup_delete_ne by congruence. auto.
  - rewrite Z.add_0_r. constructor; [|rewrite HP; exact Hsub| |exact HG0|exact Hnid].
    + rewrite HP. eapply ledc_update; [exact Hl|exact Hp|exact HE].
    + intros k Hk. rewrite HP in Hk. destruct (Z.eq_dec k id) as [->|Hne].
      * rewrite lookup_insert. split; [discriminate|]. intros H0. apply HS in H0; [contradiction|exact Hk].
      * rewrite lookup_insert_ne by congruence. auto.
Qed.

(* ------------------------------------------------------------------------------------------ *)
(* the escrow movement of the timeout path of get_active_deal_or_process_timeout *)
Lemma gadt_E epoch owed S st id p :
  InvS epoch owed S st -> proposals st !! id = Some p -> states st !! id = S !! id ->
  match get_active_deal_or_process_timeout st epoch id p with
  | Ok st' (ProposalExpired _) | Err st' _ =>
      (forall a, E st' a = E st a - ind a (p_client p) 0 + ind a (p_provider p) (0 - p_pcoll p)) /\
      burnt st' = burnt st
  | _ => True
  end.
Proof.
  intros I Hp Hs. unfold get_active_deal_or_process_timeout. rewrite Hs.
  destruct (S !! id) as [ds|] eqn:HS; [exact Logic.I|].
  destruct (epoch <? p_start p) eqn:Es; [exact Logic.I|].
  destruct (timed_out_spec _ _ _ _ _ _ I Hp HS) as (st1 & R1 & F1 & P1).
  rewrite R1. cbn [bind].
  pose proof F1 as [_ FE _ _ _ _ Ffr]. destruct Ffr.
  unfold remove_proposal. rewrite f_prop, Hp. cbn [bind].
  destruct (negb (pend_has _ p)); (split; [exact FE|exact f_burnt]).
Qed.

Lemma term_arith price start end_ pu t :
  0 <= price -> start <= pu < end_ -> t < end_ -> (pu <= t \/ pu = start) ->
  price * Z.max 0 (Z.min end_ t - start) = price * (pu - start) + price * Z.max 0 (t - pu).
Proof.
  intros Hp Hpu Ht [H|H].
  - rewrite Z.min_r by lia. rewrite !Z.max_r by lia. lia.
  - subst pu. rewrite Z.min_r by lia. lia.
Qed.

Lemma pu_le_or_start now p ds t :
  wf_ds now p ds -> now <= t -> paid_until (Some ds) p <= t \/ paid_until (Some ds) p = p_start p.
Proof.
  intros (_ & _ & D3) Ht. unfold paid_until. destruct D3 as [D3|D3].
  - rewrite D3. cbn. now right.
  - destruct (ds_lu ds =? UNDEF); [now right|]. destruct (Z.le_gt_cases (p_start p) (ds_lu ds)); [left|right]; lia.
Qed.

(* settle_deal_payments, one id *)
Lemma settle_one_ev epoch st a i id st' a' :
  0 <= epoch ->
  settle_inv epoch st a -> ~ In id (map fst (sa_new a)) ->
  settle_one epoch st a i id = Ok st' a' ->
  ev None (put_deal_states (states st) (sa_new a)) st st'
     (put_deal_states (states st') (sa_new a')) (sa_slashed a' - sa_slashed a) /\
  next_id st' = next_id st /\ burnt st' = burnt st.
Proof.
  intros He I Hnew. unfold settle_one, settle_inv in *.
  set (S := put_deal_states (states st) (sa_new a)) in *.
  assert (HS : states st !! id = S !! id) by (unfold S; now rewrite put_lookup_notin).
  unfold get_proposal.
  destruct (proposals st !! id) as [p|] eqn:Hp.
  2:{ intros [= <- <-]. cbn [sa_fail sa_new sa_slashed]. fold S. rewrite Z.sub_diag.
      split; [apply ev_nop; auto|auto]. }
  pose proof (gadt_spec epoch _ S st id p I Hp HS) as G.
  pose proof (gadt_E epoch _ S st id p I Hp HS) as GE.
  destruct (get_active_deal_or_process_timeout st epoch id p) as [st1 [| pen | ds]|st1 c].
  - destruct G as (-> & _). intros [= <- <-]. cbn [sa_new sa_slashed]. fold S. rewrite Z.sub_diag.
    split; [apply ev_nop; auto|auto].
  - destruct G as (Gn & Gst & -> & _ & Gs & GP & Gnext & _). destruct GE as [GE Gb].
    intros [= <- <-]. cbn [sa_new sa_slashed]. rewrite Gs. fold S.
    split; [|auto].
    apply (ev_remove None S st st1 S (sa_slashed a + p_pcoll p - sa_slashed a) id p 0 (p_pcoll p));
      [exact Hp|exact GP|now rewrite delete_notin|exact GE| | |lia].
    + rewrite Gn. cbn [fate_by paid_until earned_final]. lia.
    + rewrite Gn. reflexivity.
  - destruct G as (-> & Gs).
    destruct (i_wfS _ _ _ _ _ _ _ _ _ _ _ _ I id ds Gs) as (q & Hq & D1 & D2 & D3).
    assert (q = p) as -> by congruence.
    rewrite D1. cbn [negb Z.eqb UNDEF Pos.eqb].
    destruct (epoch <=? p_start p) eqn:Ees.
    { intros [= <- <-]. cbn [sa_new sa_slashed]. fold S. rewrite Z.sub_diag.
      split; [apply ev_nop; auto|auto]. }
    destruct (pdu_spec epoch _ S st id p ds I Hp Gs He) as (st2 & R & F & Pn).
    rewrite R.
    pose proof F as [_ FE _ _ _ _ Ffr]. destruct Ffr.
    destruct (deal_facts _ _ _ _ _ _ I Hp) as ((W1 & W2 & W3 & W4 & W5) & Hpu & Hfl & _).
    rewrite Gs in Hpu, Hfl.
    destruct (p_end p <=? epoch) eqn:Ed; zb.
    + rewrite (rcd_ok st2 id ds p) by congruence. cbn [bind].
      intros [= <- <-]. cbn [sa_slashed sa_new states set_proposals set_states next_id burnt proposals].
      rewrite Z.sub_diag. split; [|auto].
      assert (Hx : Z.max (paid_until (Some ds) p) (Z.min (p_end p) epoch) = p_end p) by lia.
      rewrite Hx in FE.
      apply (ev_remove None S st _ _ 0 id p (p_price p * (p_end p - paid_until (Some ds) p)) 0);
        [exact Hp|now rewrite f_prop| | | | |lia].
      * rewrite f_states. rewrite put_delete_notin by exact Hnew. reflexivity.
      * intros b. change (E (set_proposals _ _) b) with (E st2 b). apply FE.
      * rewrite Gs. cbn [fate_by earned_final]. lia.
      * rewrite Gs. reflexivity.
    + intros [= <- <-]. cbn [sa_slashed sa_new]. rewrite Z.sub_diag. split; [|auto].
      rewrite put_app, f_states. fold S.
      set (ds' := mkDs (ds_sector ds) (ds_start ds) epoch UNDEF).
      assert (Hpu' : paid_until (Some ds') p = Z.max (paid_until (Some ds) p) (Z.min (p_end p) epoch)).
      { unfold paid_until at 1. cbn [ds_lu ds']. unfold UNDEF.
        destruct (epoch =? -1) eqn:E1; zb; [lia|].
        destruct D3 as [D3|D3]; unfold paid_until; [rewrite D3; cbn; lia|].
        destruct (ds_lu ds =? UNDEF); lia. }
      apply (ev_update None S st st2 _ 0 id p ds'); [exact Hp|exact f_prop|reflexivity|reflexivity| |].
      * congruence.
      * intros b. rewrite Gs, Hpu', (FE b), Z.sub_0_r. reflexivity.
  - destruct G as (Gn & Gst & _ & Gs & GP & Gnext & _). destruct GE as [GE Gb].
    intros [= <- <-]. cbn [sa_fail sa_new sa_slashed]. rewrite Gs, Z.sub_diag. fold S.
    split; [|auto].
    apply (ev_remove None S st st1 S 0 id p 0 (p_pcoll p));
      [exact Hp|exact GP|now rewrite delete_notin|exact GE| | |].
    + rewrite Gn. cbn [fate_by paid_until earned_final]. lia.
    + rewrite Gn. reflexivity.
    + destruct (i_wfP _ _ _ _ _ _ _ _ _ _ _ _ I id p Hp) as [(_ & _ & W3 & _) _]. exact W3.
Qed.

(* cron_tick, one id *)
Lemma cron_one_ev epoch st a id st' a' :
  0 <= epoch -> cron_inv epoch st a -> cron_one epoch st a id = Ok st' a' ->
  ev None (states st) st st' (states st') (cr_slashed a' - cr_slashed a) /\
  next_id st' = next_id st /\ burnt st' = burnt st.
Proof.
  intros He I. unfold cron_one, cron_inv in *.
  destruct (proposals st !! id) as [p|] eqn:Hp.
  2:{ intros [= <- <-]. rewrite Z.sub_diag. split; [apply ev_nop; auto|auto]. }
  pose proof (gadt_spec epoch _ (states st) st id p I Hp eq_refl) as G.
  pose proof (gadt_E epoch _ (states st) st id p I Hp eq_refl) as GE.
  destruct (get_active_deal_or_process_timeout st epoch id p) as [st1 [| pen | ds]|st1 c]; cbn [bind];
    try discriminate.
  - destruct G as (Gn & Gst & -> & _ & Gs & GP & Gnext & _). destruct GE as [GE Gb].
    intros [= <- <-]. cbn [cr_slashed]. rewrite Gs. split; [|auto].
    apply (ev_remove None (states st) st st1 _ (cr_slashed a + p_pcoll p - cr_slashed a) id p 0 (p_pcoll p));
      [exact Hp|exact GP|now rewrite delete_notin|exact GE| | |lia].
    + rewrite Gn. cbn [fate_by paid_until earned_final]. lia.
    + rewrite Gn. reflexivity.
  - destruct G as (-> & Gs).
    destruct (i_wfS _ _ _ _ _ _ _ _ _ _ _ _ I id ds Gs) as (q & Hq & D1 & D2 & D3).
    assert (q = p) as -> by congruence.
    destruct (ds_lu ds =? UNDEF) eqn:Elu.
    + destruct (pend_has (pending st) p); [|discriminate]. intros [= <- <-]. rewrite Z.sub_diag.
      split; [apply ev_nop; auto|auto].
    + destruct (pdu_spec epoch _ (states st) st id p ds I Hp Gs He) as (st2 & R & F & Pn).
      rewrite R. cbn [bind].
      pose proof F as [_ FE _ _ _ _ Ffr]. destruct Ffr.
      destruct (deal_facts _ _ _ _ _ _ I Hp) as ((W1 & W2 & W3 & W4 & W5) & Hpu & Hfl & _).
      rewrite Gs in Hpu, Hfl.
      destruct (p_end p <=? epoch) eqn:Ed; zb.
      * rewrite (rcd_ok st2 id ds p) by congruence. cbn [bind].
        intros [= <- <-]. cbn [cr_slashed states set_proposals set_states next_id burnt proposals].
        replace (cr_slashed a + 0 - cr_slashed a) with 0 by lia. split; [|auto].
        assert (Hx : Z.max (paid_until (Some ds) p) (Z.min (p_end p) epoch) = p_end p) by lia.
        rewrite Hx in FE.
        apply (ev_remove None (states st) st _ _ 0 id p (p_price p * (p_end p - paid_until (Some ds) p)) 0);
          [exact Hp|now rewrite f_prop|now rewrite f_states| | | |lia].
        -- intros b. change (E (set_proposals _ _) b) with (E st2 b). apply FE.
        -- rewrite Gs. cbn [fate_by earned_final]. lia.
        -- rewrite Gs. reflexivity.
      * cbn [negb Z.eqb]. intros [= <- <-]. cbn [cr_slashed states set_states next_id burnt].
        rewrite Z.sub_diag. split; [|auto].
        set (ds' := mkDs (ds_sector ds) (ds_start ds) epoch (ds_slash ds)).
        assert (Hpu' : paid_until (Some ds') p = Z.max (paid_until (Some ds) p) (Z.min (p_end p) epoch)).
        { unfold paid_until at 1. cbn [ds_lu ds']. unfold UNDEF.
          destruct (epoch =? -1) eqn:E1; zb; [lia|].
          destruct D3 as [D3|D3]; unfold paid_until; [rewrite D3; cbn; lia|].
          destruct (ds_lu ds =? UNDEF); lia. }
        apply (ev_update None (states st) st _ _ 0 id p ds');
          [exact Hp|exact f_prop|now rewrite f_states|reflexivity|congruence|].
        intros b. change (E (set_states st2 _) b) with (E st2 b).
        rewrite Gs, Hpu', (FE b), Z.sub_0_r. reflexivity.
Qed.

(* on_miner_sectors_terminate, one id *)
Lemma term_one_ev epoch snap caller st total id st' s :
  0 <= epoch -> term_inv epoch snap st total ->
  term_one snap caller epoch st id = Ok st' s ->
  ev (Some epoch) (states st) st st' (states st') s /\ next_id st' = next_id st /\ burnt st' = burnt st.
Proof.
  intros He [I Hc]. unfold term_one.
  destruct (proposals snap !! id) as [p|] eqn:Hps.
  2:{ intros [= <- <-]. split; [apply ev_nop; auto|auto]. }
  destruct (negb (p_provider p =? caller)); [discriminate|].
  destruct (p_end p <=? epoch) eqn:Ed.
  { intros [= <- <-]. split; [apply ev_nop; auto|auto]. }
  zb.
  destruct (states snap !! id) as [ds|] eqn:Hss; [|discriminate].
  set (st1 := if ds_lu ds =? UNDEF then remove_pending st p else st).
  assert (Hst1 : states st1 = states st /\ proposals st1 = proposals st /\ (forall b, E st1 b = E st b) /\
                 next_id st1 = next_id st /\ burnt st1 = burnt st)
    by (unfold st1; destruct (ds_lu ds =? UNDEF); repeat split; reflexivity).
  destruct Hst1 as (Hs1 & Hp1 & HE1 & Hn1 & Hb1).
  assert (I1 : InvS epoch total (states st) st1).
  { unfold st1. destruct (ds_lu ds =? UNDEF); exact I. }
  destruct (Hc id) as [Hnone|[HP HSt]].
  - pose proof (inv_S_None I id Hnone) as Hsn.
    destruct (process_slashed_deal st1 p _) as [st2 r|] eqn:H2; [|discriminate]. cbn [bind].
    apply psd_frame in H2 as [].
    destruct (rcd_err st2 id) as [c Hc']; [congruence|]. rewrite Hc'. discriminate.
  - rewrite Hps in HP. rewrite Hss in HSt.
    destruct (slashed_spec epoch total (states st) st1 id p ds epoch I1) as (st2 & R & F & Pn);
      [congruence|exact HSt|lia|lia|].
    rewrite R. cbn [bind].
    pose proof F as [_ FE _ _ _ _ Ffr]. destruct Ffr.
    rewrite (rcd_ok st2 id ds p) by congruence. cbn [bind].
    intros [= <- <-]. cbn [states set_proposals set_states next_id burnt proposals].
    split; [|split; congruence].
    destruct (deal_facts _ _ _ _ _ _ I HP) as ((W1 & W2 & W3 & W4 & W5) & Hpu & Hfl & _).
    rewrite HSt in Hpu, Hfl.
    destruct (i_wfS _ _ _ _ _ _ _ _ _ _ _ _ I id ds HSt) as (q & Hq & Hwd).
    assert (q = p) as -> by congruence.
    apply (ev_remove (Some epoch) (states st) st _ _ (p_pcoll p) id p
             (p_price p * Z.max 0 (epoch - paid_until (Some ds) p)) (p_pcoll p));
      [exact HP|now rewrite f_prop, Hp1|now rewrite f_states, Hs1| | |reflexivity|lia].
    + intros b. change (E (set_proposals _ _) b) with (E st2 b). rewrite (FE b), HE1. reflexivity.
    + rewrite HSt. cbn [fate_by earned_final]. apply term_arith; auto.
      apply (pu_le_or_start epoch); [exact Hwd|lia].
Qed.

(* ------------------------------------------------------------------------------------------ *)
(* the three loops *)
Lemma settle_loop_led epoch st0 G0 dep wd ids : forall st a i st' a',
  0 <= epoch -> NoDup ids ->
  settle_inv epoch st a -> (forall k, In k ids -> ~ In k (map fst (sa_new a))) ->
  LoopLed None st0 G0 dep wd st (put_deal_states (states st) (sa_new a)) (sa_slashed a) ->
  next_id st = next_id st0 /\ burnt st = burnt st0 ->
  settle_loop epoch st a i ids = Ok st' a' ->
  LoopLed None st0 G0 dep wd st' (put_deal_states (states st') (sa_new a')) (sa_slashed a') /\
  next_id st' = next_id st0 /\ burnt st' = burnt st0.
Proof.
  induction ids as [|id ids IH]; intros st a i st' a' He Hnd I Hnew Hl Hnb; cbn [settle_loop].
  - intros [= <- <-]. auto.
  - destruct (settle_one epoch st a i id) as [st1 a1|] eqn:H1; [|discriminate]. cbn [bind].
    inversion Hnd; subst.
    destruct (settle_one_inv _ _ _ _ _ _ _ He I (Hnew id (or_introl eq_refl)) H1) as [I1 Hk].
    destruct (settle_one_ev _ _ _ _ _ _ _ He I (Hnew id (or_introl eq_refl)) H1) as (Hev & Hn1 & Hb1).
    apply IH; auto.
    + intros k Hin Hk1. destruct (Hk k Hk1) as [Hk2| ->]; [|contradiction].
      apply (Hnew k); [now right|exact Hk2].
    + pose proof (loopled_step _ _ _ _ _ _ _ _ _ _ _ Hl Hev) as Hl'.
      replace (sa_slashed a + (sa_slashed a1 - sa_slashed a)) with (sa_slashed a1) in Hl' by lia. exact Hl'.
    + destruct Hnb. split; congruence.
Qed.

Lemma cron_loop_led epoch st0 G0 dep wd ids : forall st a st' a',
  0 <= epoch -> cron_inv epoch st a ->
  LoopLed None st0 G0 dep wd st (states st) (cr_slashed a) ->
  next_id st = next_id st0 /\ burnt st = burnt st0 ->
  cron_loop epoch st a ids = Ok st' a' ->
  LoopLed None st0 G0 dep wd st' (states st') (cr_slashed a') /\
  next_id st' = next_id st0 /\ burnt st' = burnt st0.
Proof.
  induction ids as [|id ids IH]; intros st a st' a' He I Hl Hnb; cbn [cron_loop].
  - intros [= <- <-]. auto.
  - destruct (cron_one epoch st a id) as [st1 a1|] eqn:H1; [|discriminate]. cbn [bind].
    pose proof (cron_one_inv _ _ _ _ _ _ He I H1) as I1.
    destruct (cron_one_ev _ _ _ _ _ _ He I H1) as (Hev & Hn1 & Hb1).
    apply IH; auto.
    + pose proof (loopled_step _ _ _ _ _ _ _ _ _ _ _ Hl Hev) as Hl'.
      replace (cr_slashed a + (cr_slashed a1 - cr_slashed a)) with (cr_slashed a1) in Hl' by lia. exact Hl'.
    + destruct Hnb. split; congruence.
Qed.

Lemma term_loop_led epoch snap caller st0 G0 dep wd ids : forall st total st' total',
  0 <= epoch -> term_inv epoch snap st total ->
  LoopLed (Some epoch) st0 G0 dep wd st (states st) total ->
  next_id st = next_id st0 /\ burnt st = burnt st0 ->
  term_loop snap caller epoch st total ids = Ok st' total' ->
  LoopLed (Some epoch) st0 G0 dep wd st' (states st') total' /\
  next_id st' = next_id st0 /\ burnt st' = burnt st0.
Proof.
  induction ids as [|id ids IH]; intros st total st' total' He I Hl Hnb; cbn [term_loop].
  - intros [= <- <-]. auto.
  - destruct (term_one snap caller epoch st id) as [st1 s|] eqn:H1; [|discriminate]. cbn [bind].
    pose proof (term_one_inv _ _ _ _ _ _ _ _ He I H1) as I1.
    destruct (term_one_ev _ _ _ _ _ _ _ _ He I H1) as (Hev & Hn1 & Hb1).
    apply IH; auto.
    + exact (loopled_step _ _ _ _ _ _ _ _ _ _ _ Hl Hev).
    + destruct Hnb. split; congruence.
Qed.

(* ------------------------------------------------------------------------------------------ *)
(* the ledger: ghost record of what left the tables and of the money put in / taken out *)
Record ghost := mkG { g_gone : gmap Z (proposal * fate); g_dep : gmap Z Z; g_wd : gmap Z Z }.

Definition Led (st : state) (g : ghost) : Prop :=
  LedC (proposals st) (states st) (E st) (g_gone g) (bt_get (g_dep g)) (bt_get (g_wd g))
       (burnt st) (next_id st).

Definition term_of (o : op) : option Z :=
  match o with Terminate _ _ _ pe _ => Some pe | _ => None end.

Definition gstep (st : state) (g : ghost) (o : op) : state * ghost :=
  let '(st', r) := step st o in
  (st', mkG (g_gone g ∪ gone_new (term_of o) st (proposals st'))
            (match o, r with
             | AddBalance _ who _ v, c :: _ => if c =? OK then bt_upd (g_dep g) who v else g_dep g
             | _, _ => g_dep g
             end)
            (match o, r with
             | Withdraw _ _ who _ _ _, [c; paid; _] => if c =? OK then bt_upd (g_wd g) who paid else g_wd g
             | _, _ => g_wd g
             end)).

Definition g0 : ghost := mkG ∅ ∅ ∅.

Lemma led_init ivl : Led (init ivl) g0.
Proof.
  unfold Led, init, g0. cbn. constructor.
  - intros a. unfold E. cbn. rewrite !bt_get_empty, osum_empty, msum_empty. lia.
  - rewrite msum_empty. lia.
  - intros id H. rewrite lookup_empty in H. contradiction.
Qed.

Lemma led_start term now st g :
  MarketInv now st -> Led st g ->
  LoopLed term st (g_gone g) (bt_get (g_dep g)) (bt_get (g_wd g)) st (states st) 0.
Proof.
  intros I Ld. constructor.
  - rewrite gone_new_same by (intros id p Hp; congruence).
    rewrite (right_id_L ∅ (∪)). rewrite Z.add_0_r. exact Ld.
  - auto.
  - tauto.
  - intros id H. destruct Ld as [_ _ Hd]. exact (proj1 (Hd id H)).
  - intros id p Hp. destruct (i_wfP _ _ _ _ _ _ _ _ _ _ _ _ I id p Hp) as [_ ?]. lia.
Qed.

(* a state with the same ledger-relevant components *)
Lemma led_finish term st0 g st1 S owed st' :
  LedC (proposals st1) S (E st1) (g_gone g ∪ gone_new term st0 (proposals st1))
       (bt_get (g_dep g)) (bt_get (g_wd g)) (burnt st0 + owed) (next_id st0) ->
  proposals st' = proposals st1 -> states st' = S -> (forall a, E st' a = E st1 a) ->
  burnt st' = burnt st0 + owed -> next_id st' = next_id st0 ->
  Led st' (mkG (g_gone g ∪ gone_new term st0 (proposals st')) (g_dep g) (g_wd g)).
Proof.
  intros Hl HP HS HE Hb Hn. unfold Led. cbn [g_gone g_dep g_wd].
  rewrite HP, HS, Hb, Hn. eapply ledc_ext; [exact Hl|exact HE|reflexivity|reflexivity].
Qed.

Lemma led_unchanged term now st g :
  MarketInv now st -> Led st g ->
  Led st (mkG (g_gone g ∪ gone_new term st (proposals st)) (g_dep g) (g_wd g)).
Proof.
  intros I Ld. eapply led_finish with (st1 := st) (owed := 0); [eapply ll_led, led_start; eauto|auto..]. lia.
Qed.

(* ------------------------------------------------------------------------------------------ *)
(* every handler keeps the ledger *)
Definition gnext (term : option Z) (st : state) (g : ghost) (st' : state) : ghost :=
  mkG (g_gone g ∪ gone_new term st (proposals st')) (g_dep g) (g_wd g).

Lemma led_same_tables term now st g st' :
  MarketInv now st -> Led st g ->
  proposals st' = proposals st -> states st' = states st -> (forall a, E st' a = E st a) ->
  burnt st' = burnt st -> next_id st' = next_id st ->
  Led st' (gnext term st g st').
Proof.
  intros I Ld HP HS HE Hb Hn. unfold gnext.
  eapply led_finish with (st1 := st) (owed := 0); [eapply ll_led, led_start; eauto|auto..]. lia.
Qed.

Lemma add_balance_led now st g who t v :
  MarketInv now st -> Led st g ->
  let '(st', r) := add_balance st who t v in
  Led st' (mkG (g_gone g ∪ gone_new None st (proposals st'))
               (match r with c :: _ => if c =? OK then bt_upd (g_dep g) who v else g_dep g | _ => g_dep g end)
               (g_wd g)).
Proof.
  intros I Ld. unfold add_balance.
  destruct (v <=? 0) eqn:Ev; [cbn; now apply (led_unchanged None now)|]. zb.
  assert (H : bt_add (escrow st) who v = Some (bt_upd (escrow st) who v)).
  { apply bt_add_ok. pose proof (inv_E_nonneg I who). unfold E in *. lia. }
  destruct t; [cbn; now apply (led_unchanged None now)| |]; rewrite H; cbn [Z.eqb OK].
  all: cbn [proposals set_funds set_escrow];
       rewrite gone_new_same by (intros id p Hp; congruence);
       rewrite (right_id_L ∅ (∪));
       unfold Led; cbn [g_gone g_dep g_wd proposals states set_funds set_escrow burnt next_id];
       eapply ledc_money with (who := who) (v := v) (dv := v) (wv := 0); [exact Ld| | | |lia].
  all: try (intros a; apply bt_get_upd).
  all: try (intros a; rewrite ind_0; lia).
  all: intros a; unfold E; cbn; apply bt_get_upd.
Qed.

Lemma withdraw_led now st g caller who t amt pf :
  MarketInv now st -> Led st g ->
  let '(st', r) := withdraw_balance st caller who t amt pf in
  Led st' (mkG (g_gone g ∪ gone_new None st (proposals st')) (g_dep g)
               (match r with [c; paid; _] => if c =? OK then bt_upd (g_wd g) who paid else g_wd g | _ => g_wd g end)).
Proof.
  intros I Ld. unfold withdraw_balance.
  destruct (amt <? 0) eqn:Ea; [cbn; now apply (led_unchanged None now)|]. zb.
  destruct (escrow_address who t) as [[rc approved]|]; [|cbn; now apply (led_unchanged None now)].
  destruct (negb (zmem caller approved)); [cbn; now apply (led_unchanged None now)|].
  unfold bt_sub_with_min.
  pose proof (i_esc _ _ _ _ _ _ _ _ _ _ _ _ I who) as HLE.
  pose proof (inv_L_nonneg I who) as HLn. unfold L, E in HLE, HLn.
  set (sub := Z.min (Z.max 0 (bt_get (escrow st) who - bt_get (locked st) who)) amt).
  assert (Hsub : 0 <= sub <= bt_get (escrow st) who - bt_get (locked st) who) by (unfold sub; lia).
  assert (Hfin : forall e', (forall a, bt_get e' a = bt_get (escrow st) a - ind a who sub) ->
            Led (set_funds (set_escrow st e') (balance st - sub) (burnt st))
                (mkG (g_gone g ∪ gone_new None st (proposals st)) (g_dep g) (bt_upd (g_wd g) who sub))).
  { intros e' He'. rewrite gone_new_same by (intros id p Hp; congruence). rewrite (right_id_L ∅ (∪)).
    unfold Led. cbn [g_gone g_dep g_wd proposals states set_funds set_escrow burnt next_id].
    eapply ledc_money with (who := who) (v := - sub) (dv := 0) (wv := sub); [exact Ld| | | |lia].
    - intros a. rewrite ind_0. lia.
    - intros a. apply bt_get_upd.
    - intros a. unfold E. cbn. rewrite He'. unfold ind. destruct (a =? who); lia. }
  destruct (0 <? sub) eqn:Es; zb.
  - rewrite bt_add_ok by lia. destruct pf as [cf|]; [cbn; now apply (led_unchanged None now)|].
    destruct (balance st <? sub); [cbn; now apply (led_unchanged None now)|].
    cbn [Z.eqb OK]. apply Hfin. intros a. rewrite bt_get_upd. unfold ind. destruct (a =? who); lia.
  - destruct pf as [cf|]; [cbn; now apply (led_unchanged None now)|].
    destruct (balance st <? sub); [cbn; now apply (led_unchanged None now)|].
    cbn [Z.eqb OK]. apply Hfin. intros a. assert (sub = 0) as -> by lia. rewrite ind_0. lia.
Qed.

(* publish *)
Lemma pub_commit_one_led epoch st p st' id G dep wd :
  0 <= epoch -> okp epoch p -> MarketInv epoch st ->
  LedC (proposals st) (states st) (E st) G dep wd (burnt st) (next_id st) ->
  pub_commit_one st p = Ok st' id ->
  LedC (proposals st') (states st') (E st') G dep wd (burnt st') (next_id st') /\
  (forall k, proposals st !! k <> None -> proposals st' !! k <> None).
Proof.
  intros He Hok I Ld. unfold pub_commit_one.
  destruct (lock_balances st p) as [st1 u|] eqn:Hl; [|discriminate]. cbn [bind].
  apply lock_balances_inv in Hl as (A1 & A2 & A3 & A4 & A5 & A6 & A7 & A8 & A9 & A10 & A11).
  destruct A7. intros [= <- <-].
  cbn [proposals states set_deal_ops set_proposals set_pending set_next_id burnt next_id].
  change (E (set_deal_ops _ _ _)) with (E st1).
  rewrite f_prop, f_states, f_next, f_burnt.
  pose proof (inv_nid_fresh I) as Hf. pose proof (inv_S_None I _ Hf) as Hs.
  split.
  - eapply ledc_ext with (Ef := E st); [|intros a; unfold E; now rewrite A6|reflexivity|reflexivity].
    apply ledc_insert; auto.
  - intros k Hk. destruct (Z.eq_dec k (next_id st)) as [->|Hne]; [congruence|].
    rewrite lookup_insert_ne by congruence. exact Hk.
Qed.

Lemma pub_commit_led epoch G dep wd ps : forall st ids st' ids',
  0 <= epoch -> Forall (okp epoch) ps -> MarketInv epoch st ->
  LedC (proposals st) (states st) (E st) G dep wd (burnt st) (next_id st) ->
  pub_commit st ps ids = Ok st' ids' ->
  LedC (proposals st') (states st') (E st') G dep wd (burnt st') (next_id st') /\
  (forall k, proposals st !! k <> None -> proposals st' !! k <> None).
Proof.
  induction ps as [|p ps IH]; intros st ids st' ids' He Hok I Ld; cbn [pub_commit].
  - intros [= <- _]. auto.
  - inversion Hok as [|? ? Hp0 Hps]; subst.
    destruct (pub_commit_one st p) as [st1 id|] eqn:Hc1; [|discriminate]. cbn [bind].
    destruct (pub_commit_one_inv _ _ _ _ _ He Hp0 I Hc1) as [I1 _].
    destruct (pub_commit_one_led _ _ _ _ _ _ _ _ He Hp0 I Ld Hc1) as [L1 S1].
    intros Hc. destruct (IH _ _ _ _ He Hps I1 L1 Hc) as [L2 S2]. split; auto.
Qed.

Lemma publish_led now st g caller epoch t deals :
  MarketInv now st -> Led st g -> now <= epoch -> 0 <= epoch ->
  Led (fst (publish st caller epoch t deals)) (gnext None st g (fst (publish st caller epoch t deals))).
Proof.
  intros I Ld Hn He. pose proof (invc_now_mono _ _ _ _ _ _ _ _ _ _ _ _ _ I Hn) as I'.
  unfold publish. destruct deals as [|d0 rest]; [now apply (led_unchanged None now)|].
  destruct t as [| |o w cs]; [now apply (led_unchanged None now)|now apply (led_unchanged None now)|].
  destruct (negb (zmem caller (cs ++ [w; o]))); [now apply (led_unchanged None now)|].
  set (acc := pub_filter st _ epoch _ 0 _).
  assert (Hok : Forall (okp epoch) (pa_valid acc)) by (apply pub_filter_ok; constructor).
  destruct (pa_valid acc) as [|p0 ps] eqn:Hv; [now apply (led_unchanged None now)|]. rewrite <- Hv.
  assert (Hok' : Forall (okp epoch) (pa_valid acc)) by (rewrite Hv; exact Hok).
  destruct (pub_commit st (pa_valid acc) []) as [st1 ids|] eqn:Hc; [|now apply (led_unchanged None now)].
  cbn [fst].
  destruct (pub_commit_led epoch _ _ _ _ _ _ _ _ He Hok' I' Ld Hc) as [L1 S1].
  unfold gnext, Led. cbn [g_gone g_dep g_wd].
  rewrite gone_new_same; [rewrite (right_id_L ∅ (∪)); exact L1|].
  intros id p Hp. apply S1. congruence.
Qed.

(* activation: the new deal states do not move any paid-until epoch *)
Lemma put_fresh_pu l : forall (S : gmap Z dstate) id p,
  Forall (fun x => ds_lu (snd x) = UNDEF /\
                   (S !! fst x = None \/ exists d0, S !! fst x = Some d0 /\ ds_lu d0 = UNDEF)) l ->
  paid_until (put_deal_states S l !! id) p = paid_until (S !! id) p.
Proof.
  induction l as [|[k d] l IH]; intros S id p H; cbn [put_deal_states]; [reflexivity|].
  inversion H as [|x l' Hx Hl]; subst. cbn [fst snd] in Hx. destruct Hx as [Hd HS].
  rewrite IH.
  - destruct (Z.eq_dec id k) as [->|Hne].
    + rewrite lookup_insert. unfold paid_until. rewrite Hd. cbn.
      destruct HS as [->|(d0 & -> & Hd0)]; [reflexivity|]. now rewrite Hd0.
    + now rewrite lookup_insert_ne by congruence.
  - rewrite Forall_forall in *. intros x Hin. destruct (Hl x Hin) as [A1 A2]. split; [exact A1|].
    destruct (Z.eq_dec (fst x) k) as [->|Hne].
    + right. exists d. rewrite lookup_insert. auto.
    + rewrite lookup_insert_ne by congruence. exact A2.
Qed.

Lemma fresh_led term now st g epoch l st' :
  MarketInv now st -> Led st g -> Forall (fresh_ok st epoch) l ->
  proposals st' = proposals st -> states st' = put_deal_states (states st) l ->
  (forall a, E st' a = E st a) -> burnt st' = burnt st -> next_id st' = next_id st ->
  Led st' (gnext term st g st').
Proof.
  intros I Ld Hf HP HS HE Hb Hn.
  eapply led_finish with (st1 := st) (owed := 0); [|exact HP|exact HS|exact HE|lia|exact Hn].
  pose proof (led_start term now st g I Ld) as [Hl _ _ _ _].
  assert (Hpu : forall id p, paid_until (put_deal_states (states st) l !! id) p = paid_until (states st !! id) p).
  { intros id p. apply put_fresh_pu. rewrite Forall_forall in *. intros x Hx.
    destruct (Hf x Hx) as (_ & A2 & A3 & _). auto. }
  destruct Hl as [HlE Hlb Hld]. constructor; auto.
  intros a. rewrite HlE. f_equal. f_equal. apply osum_S_ext. intros id p _. symmetry. apply Hpu.
Qed.

Lemma activate_led now st g caller m epoch sectors :
  MarketInv now st -> Led st g ->
  Led (fst (batch_activate st caller m epoch sectors))
      (gnext None st g (fst (batch_activate st caller m epoch sectors))).
Proof.
  intros I Ld. unfold batch_activate. destruct (negb m); [now apply (led_unchanged None now)|]. cbn [fst].
  set (acc := act_sectors st caller epoch _ 0 sectors).
  assert (Hf : Forall (fresh_ok st epoch) (aa_states acc)) by (apply act_sectors_fresh; constructor).
  eapply (fresh_led None now st g epoch (aa_states acc)); eauto.
Qed.

Lemma scc_led now st g caller m epoch sectors :
  MarketInv now st -> Led st g ->
  Led (fst (sector_content_changed st caller m epoch sectors))
      (gnext None st g (fst (sector_content_changed st caller m epoch sectors))).
Proof.
  intros I Ld. unfold sector_content_changed. destruct (negb m); [now apply (led_unchanged None now)|].
  pose proof (scc_sectors_fresh st caller epoch sectors (mkCacc [] [] [] [], [], [])) as Hf.
  destruct (fold_left (scc_sector st caller epoch) sectors (mkCacc [] [] [] [], [], [])) as [[acc secs] out].
  cbn [fst] in *.
  eapply (fresh_led None now st g epoch (ca_states acc)); eauto. apply Hf. constructor.
Qed.

Lemma settle_led now st g epoch ids :
  MarketInv now st -> Led st g -> now <= epoch -> 0 <= epoch -> NoDup ids ->
  Led (fst (settle st epoch ids)) (gnext None st g (fst (settle st epoch ids))).
Proof.
  intros I Ld Hn He Hnd. pose proof (invc_now_mono _ _ _ _ _ _ _ _ _ _ _ _ _ I Hn) as I'.
  unfold settle.
  destruct (settle_loop epoch st (mkSacc [] 0 [] 0 [] []) 0 ids) as [st1 a|] eqn:Hl;
    [|now apply (led_unchanged None now)].
  assert (I1 : settle_inv epoch st1 a).
  { apply (settle_loop_inv epoch ids st (mkSacc [] 0 [] 0 [] []) 0 st1 a He Hnd);
      [exact I'|intros k _ H; exact H|exact Hl]. }
  destruct (settle_loop_led epoch st (g_gone g) (bt_get (g_dep g)) (bt_get (g_wd g)) ids
              st (mkSacc [] 0 [] 0 [] []) 0 st1 a He Hnd I' ltac:(intros k _ H; exact H)
              (led_start None now st g I Ld) (conj eq_refl eq_refl) Hl) as ([L1 _ _ _ _] & Hn1 & Hb1).
  unfold settle_inv in I1.
  pose proof (i_owed _ _ _ _ _ _ _ _ _ _ _ _ I1) as Ho.
  pose proof (i_solv _ _ _ _ _ _ _ _ _ _ _ _ I1) as Hs.
  pose proof (inv_bsum_nonneg _ _ _ _ I1) as Hbs.
  set (st3 := set_psectors _ _).
  destruct (sa_slashed a =? 0) eqn:E0; zb.
  - cbn [fst]. eapply led_finish with (st1 := st1) (owed := sa_slashed a); [exact L1|reflexivity|reflexivity|reflexivity| |exact Hn1].
    rewrite E0. cbn. lia.
  - destruct ((sa_slashed a <? 0) || (balance st3 <? sa_slashed a)) eqn:E1.
    { apply orb_true_iff in E1 as [E1|E1]; zb; [lia|]. unfold st3 in E1. cbn in E1. lia. }
    cbn [fst]. eapply led_finish with (st1 := st1) (owed := sa_slashed a); [exact L1|reflexivity|reflexivity|reflexivity| |exact Hn1].
    cbn. lia.
Qed.

Lemma cron_led now st g caller epoch :
  MarketInv now st -> Led st g -> now <= epoch -> 0 <= epoch ->
  Led (fst (cron_tick st caller epoch)) (gnext None st g (fst (cron_tick st caller epoch))).
Proof.
  intros I Ld Hn He. pose proof (invc_now_mono _ _ _ _ _ _ _ _ _ _ _ _ _ I Hn) as I'.
  unfold cron_tick. destruct (negb (caller =? CRON_ACTOR_ID)); [now apply (led_unchanged None now)|].
  destruct (cron_loop epoch st (mkCracc 0 [] []) (flat_map snd (due st epoch))) as [st1 a|] eqn:Hl;
    [|now apply (led_unchanged None now)].
  assert (I1 : cron_inv epoch st1 a) by (eapply cron_loop_inv; [exact He| |exact Hl]; exact I').
  destruct (cron_loop_led epoch st (g_gone g) (bt_get (g_dep g)) (bt_get (g_wd g)) _
              st (mkCracc 0 [] []) st1 a He I' (led_start None now st g I Ld) (conj eq_refl eq_refl) Hl)
    as ([L1 _ _ _ _] & Hn1 & Hb1).
  unfold cron_inv in I1.
  pose proof (i_owed _ _ _ _ _ _ _ _ _ _ _ _ I1) as Ho.
  pose proof (i_solv _ _ _ _ _ _ _ _ _ _ _ _ I1) as Hs.
  pose proof (inv_bsum_nonneg _ _ _ _ I1) as Hbs.
  set (st3 := set_deal_ops _ _ _).
  destruct (cr_slashed a =? 0) eqn:E0; zb.
  - cbn [fst]. eapply led_finish with (st1 := st1) (owed := cr_slashed a); [exact L1|reflexivity|reflexivity|reflexivity| |exact Hn1].
    rewrite E0. cbn. lia.
  - destruct ((cr_slashed a <? 0) || (balance st3 <? cr_slashed a)) eqn:E1.
    { apply orb_true_iff in E1 as [E1|E1]; zb; [lia|]. unfold st3 in E1. cbn in E1. lia. }
    cbn [fst]. eapply led_finish with (st1 := st1) (owed := cr_slashed a); [exact L1|reflexivity|reflexivity|reflexivity| |exact Hn1].
    cbn. lia.
Qed.

Lemma loopled_psectors term st0 G0 dep wd st S owed v :
  LoopLed term st0 G0 dep wd st S owed -> LoopLed term st0 G0 dep wd (set_psectors st v) S owed.
Proof. intros []. constructor; assumption. Qed.

Lemma terminate_led now st g caller m epoch sectors :
  MarketInv now st -> Led st g -> now <= epoch -> 0 <= epoch ->
  Led (fst (terminate st caller m epoch sectors))
      (gnext (Some epoch) st g (fst (terminate st caller m epoch sectors))).
Proof.
  intros I Ld Hn He. pose proof (invc_now_mono _ _ _ _ _ _ _ _ _ _ _ _ _ I Hn) as I'.
  unfold terminate. destruct (negb m); [now apply (led_unchanged (Some epoch) now)|].
  destruct (pop_sector_deals (psectors st) caller sectors) as [ps' ids].
  destruct (term_loop st caller epoch (set_psectors st ps') 0 ids) as [st1 total|] eqn:Hl;
    [|now apply (led_unchanged (Some epoch) now)].
  assert (I0 : term_inv epoch st (set_psectors st ps') 0).
  { split; [exact I'|]. intros id. right. split; reflexivity. }
  assert (I1 : term_inv epoch st st1 total) by (eapply term_loop_inv; [exact He|exact I0|exact Hl]).
  destruct (term_loop_led epoch st caller st (g_gone g) (bt_get (g_dep g)) (bt_get (g_wd g)) ids
              (set_psectors st ps') 0 st1 total He I0
              (loopled_psectors _ _ _ _ _ _ _ _ _ (led_start (Some epoch) now st g I Ld)) (conj eq_refl eq_refl) Hl) as ([L1 _ _ _ _] & Hn1 & Hb1).
  destruct I1 as [I1 _].
  pose proof (i_owed _ _ _ _ _ _ _ _ _ _ _ _ I1) as Ho.
  pose proof (i_solv _ _ _ _ _ _ _ _ _ _ _ _ I1) as Hs.
  pose proof (inv_bsum_nonneg _ _ _ _ I1) as Hbs.
  destruct (0 <? total) eqn:E0; zb.
  - destruct (balance st1 <? total) eqn:E1; zb; [lia|].
    cbn [fst]. eapply led_finish with (st1 := st1) (owed := total); [exact L1|reflexivity|reflexivity|reflexivity| |exact Hn1].
    cbn. lia.
  - cbn [fst]. eapply led_finish with (st1 := st1) (owed := total); [exact L1|reflexivity|reflexivity|reflexivity| |exact Hn1].
    lia.
Qed.

(* ------------------------------------------------------------------------------------------ *)
Theorem gstep_led now st g o :
  MarketInv now st -> Led st g -> now <= op_epoch o -> wf_op o ->
  Led (fst (gstep st g o)) (snd (gstep st g o)).
Proof.
  intros I Ld Hn [He Hw]. unfold gstep.
  destruct o; cbn [step op_epoch term_of] in *.
  - pose proof (add_balance_led now st g who t value I Ld) as H.
    destruct (add_balance st who t value) as [st' r]. exact H.
  - pose proof (withdraw_led now st g caller who t amount payout_fails I Ld) as H.
    destruct (withdraw_balance st caller who t amount payout_fails) as [st' r]. exact H.
  - pose proof (publish_led now st g caller epoch t deals I Ld Hn He) as H.
    destruct (publish st caller epoch t deals) as [st' r]. exact H.
  - pose proof (activate_led now st g caller is_miner epoch sectors I Ld) as H.
    destruct (batch_activate st caller is_miner epoch sectors) as [st' r]. exact H.
  - pose proof (scc_led now st g caller is_miner epoch sectors I Ld) as H.
    destruct (sector_content_changed st caller is_miner epoch sectors) as [st' r]. exact H.
  - subst pepoch. pose proof (terminate_led now st g caller is_miner epoch sectors I Ld Hn He) as H.
    destruct (terminate st caller is_miner epoch sectors) as [st' r]. exact H.
  - pose proof (settle_led now st g epoch ids I Ld Hn He Hw) as H.
    destruct (settle st epoch ids) as [st' r]. exact H.
  - pose proof (cron_led now st g caller epoch I Ld Hn He) as H.
    destruct (cron_tick st caller epoch) as [st' r]. exact H.
  - unfold get_balance. destruct (negb resolves); cbn; now apply (led_unchanged None now).
Qed.

Lemma gstep_fst st g o : fst (gstep st g o) = fst (step st o).
Proof. unfold gstep. now destruct (step st o). Qed.

Fixpoint grun (st : state) (g : ghost) (ops : list op) : state * ghost :=
  match ops with
  | [] => (st, g)
  | o :: r => grun (fst (gstep st g o)) (snd (gstep st g o)) r
  end.

Lemma grun_fst ops : forall st g, fst (grun st g ops) = run st ops.
Proof.
  induction ops as [|o ops IH]; intros st g; cbn [grun fold_left run]; [reflexivity|].
  rewrite IH, gstep_fst. reflexivity.
Qed.

Theorem led_run ops : forall now st g,
  MarketInv now st -> Led st g -> hist_ok now ops ->
  Led (fst (grun st g ops)) (snd (grun st g ops)).
Proof.
  induction ops as [|o ops IH]; intros now st g I Ld H; cbn [grun hist_ok] in *; [exact Ld|].
  destruct H as (H1 & H2 & H3).
  pose proof (gstep_led now st g o I Ld H1 H2) as Ld'.
  pose proof (step_inv now st o I H1 H2) as I'. rewrite <- gstep_fst with (g := g) in I'.
  exact (IH (op_epoch o) _ _ I' Ld' H3).
Qed.

Theorem led_reachable ivl ops :
  hist_ok 0 ops -> Led (fst (grun (init ivl) g0 ops)) (snd (grun (init ivl) g0 ops)).
Proof. intros H. eapply led_run; [apply invc_init|apply led_init|exact H]. Qed.

(* ------------------------------------------------------------------------------------------ *)
(* reading the ledger *)
Theorem ledger_reads st g : Led st g ->
  (forall a, E st a = bt_get (g_dep g) a - bt_get (g_wd g) a
                      + osum (live_flow a) (proposals st) (states st) + msum (gone_flow a) (g_gone g)) /\
  burnt st <= msum gone_burnt (g_gone g) /\
  (forall id, g_gone g !! id <> None -> proposals st !! id = None /\ id < next_id st).
Proof. intros []. auto. Qed.

(* schedule independence: the escrow table is a function of the deposits, the withdrawals, the fates of
   the finished deals and the paid-until epochs of the live ones -- nothing else of the history matters *)
Theorem path_independence st1 g1 st2 g2 :
  Led st1 g1 -> Led st2 g2 ->
  proposals st1 = proposals st2 ->
  (forall id p, proposals st1 !! id = Some p ->
                paid_until (states st1 !! id) p = paid_until (states st2 !! id) p) ->
  g_gone g1 = g_gone g2 ->
  (forall a, bt_get (g_dep g1) a - bt_get (g_wd g1) a = bt_get (g_dep g2) a - bt_get (g_wd g2) a) ->
  forall a, E st1 a = E st2 a.
Proof.
  intros [H1 _ _] [H2 _ _] HP Hpu HG Hd a. rewrite H1, H2, HG, <- HP.
  rewrite (osum_S_ext (live_flow a) (proposals st1) (states st1) (states st2) Hpu).
  specialize (Hd a). lia.
Qed.

(* per-party reading of a deal's flow when client and provider are different participants *)
Lemma flow_provider p e b : p_client p <> p_provider p -> flow (p_provider p) p e b = e - b.
Proof. intros H. unfold flow. rewrite ind_same, ind_diff by congruence. lia. Qed.
Lemma flow_client p e b : p_client p <> p_provider p -> flow (p_client p) p e b = - e.
Proof. intros H. unfold flow. rewrite ind_same, ind_diff by congruence. lia. Qed.
Lemma flow_other a p e b : a <> p_client p -> a <> p_provider p -> flow a p e b = 0.
Proof. intros H1 H2. unfold flow. rewrite !ind_diff by congruence. lia. Qed.

(* the payment windows of successive updates are consecutive: writing last_updated := epoch makes the
   next window start exactly where this one ended *)
Lemma pu_after_update now p ds epoch :
  wf_ds now p ds -> now <= epoch -> 0 <= epoch -> epoch < p_end p ->
  paid_until (Some (mkDs (ds_sector ds) (ds_start ds) epoch (ds_slash ds))) p =
  Z.max (paid_until (Some ds) p) (Z.min (p_end p) epoch).
Proof.
  intros (_ & _ & D3) Hn He Hend. unfold paid_until at 1. cbn [ds_lu]. unfold UNDEF.
  destruct (epoch =? -1) eqn:E1; zb; [lia|].
  destruct D3 as [D3|D3]; unfold paid_until; [rewrite D3; cbn; lia|].
  destruct (ds_lu ds =? UNDEF); lia.
Qed.

Lemma pu_monotone p ds epoch :
  paid_until (Some ds) p <= Z.max (paid_until (Some ds) p) (Z.min (p_end p) epoch).
Proof. lia. Qed.

(* what the ghost records *)
Theorem ghost_records st g o :
  snd (gstep st g o) =
  mkG (g_gone g ∪ gone_new (term_of o) st (proposals (fst (step st o))))
      (match o, snd (step st o) with
       | AddBalance _ who _ v, c :: _ => if c =? OK then bt_upd (g_dep g) who v else g_dep g
       | _, _ => g_dep g
       end)
      (match o, snd (step st o) with
       | Withdraw _ _ who _ _ _, [c; paid; _] => if c =? OK then bt_upd (g_wd g) who paid else g_wd g
       | _, _ => g_wd g
       end).
Proof. destruct o; unfold gstep; destruct (step st _) as [st' r]; reflexivity. Qed.
